#!/bin/bash
# confirm_mutant.sh <name> <prop> <worktree>: confirm a seeded change (tests pass with it, demo fails with it,
# demo passes without it) in its scratch worktree, store it under /verif/seeded/<name>, run ./check <prop> against it.
set -u
name=$1; prop=$2; wt=$3
out=/verif/seeded/$name; mkdir -p $out
git -C $wt diff -- src > $out/patch.diff
cp -r $wt/demo $out/ 2>/dev/null; cp $wt/MUTANT.md $out/ 2>/dev/null
cd $wt/src
[ -f Makefile ] || (./bootstrap >/dev/null 2>&1; ./configure >/dev/null 2>&1)
make -j8 >/dev/null 2>&1; make clean >/dev/null 2>&1; make -j8 >/dev/null 2>&1
tests_with=$(make -k -j8 check 2>&1 | grep -E "^# (PASS|FAIL)" | tr '\n' ' ')
(cd $wt && bash demo/run.sh >/tmp/demo_with_$name.log 2>&1); demo_with=$?
git -C $wt apply -R $out/patch.diff
make -j8 >/dev/null 2>&1
(cd $wt && bash demo/run.sh >/tmp/demo_without_$name.log 2>&1); demo_without=$?
git -C $wt apply $out/patch.diff
echo "tests_with_change: $tests_with; demo_with_change_exit=$demo_with; demo_without_change_exit=$demo_without"
# run the check against it
cd /verif
git -C /repo apply $out/patch.diff
./check $prop > /tmp/check_$name.log 2>&1; rc=$?
git -C /repo checkout -- .
viol=$(grep -h "^VIOLATION" /tmp/check_$name.log | head -1)
echo "check_exit=$rc $viol"
python3 - "$name" "$prop" "$tests_with" "$demo_with" "$demo_without" "$rc" "$viol" <<'PY'
import json,sys
name,prop,tw,dw,dwo,rc,viol=sys.argv[1:8]
json.dump({'name':name,'property':prop,'tests_with_change':tw.strip(),'demo_exit_with_change':int(dw),'demo_exit_without_change':int(dwo),
 'check_cmd':'./check %s'%prop,'check_exit':int(rc),'check_output':viol,
 'needs':'see MUTANT.md', 'confirmed': ('FAIL:  0' in tw) and int(dw)!=0 and int(dwo)==0}, open('/verif/seeded/%s/meta.json'%name,'w'), indent=1)
PY
cat /verif/seeded/$name/meta.json | grep -E "confirmed|check_exit"
