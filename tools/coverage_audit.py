#!/usr/bin/env python3
"""Coverage audit of the checks (development aid, not a registered check): builds every harness group
with --coverage against a scratch copy of /repo's working tree, feeds it the quick-tier lines of every
property that uses the group, and lists the executable lines of /repo's sources that no check line
reached.  Usage: tools/coverage_audit.py [outdir]   (outdir default: a fresh temporary directory)"""
import os, sys, subprocess, tempfile, shutil, re
V = os.path.dirname(os.path.dirname(os.path.abspath(__file__)))
sys.path.insert(0, V)
from vlib import core, registry


def main():
    out = sys.argv[1] if len(sys.argv) > 1 else tempfile.mkdtemp(prefix='epsic_cov_')
    os.makedirs(out, exist_ok=True)
    groups = {}
    for pid, (spec, group) in registry.SPECS.items():
        groups.setdefault(group['name'], (group, []))[1].append((pid, spec))
        for xg, xgen in spec.get('extra', []):
            groups.setdefault(xg['name'], (xg, []))[1].append((pid, dict(gen=xgen)))
    hdir = os.path.join(V, 'harness')
    hits = {}      # source path (relative to src) -> {line: count}
    with core.Scratch() as scr:
        for name, (group, specs) in groups.items():
            if name == 'tm': continue
            d = os.path.join(out, name); os.makedirs(d, exist_ok=True)
            cmd = (['g++', '-std=gnu++17', '-O0', '-DEPSIC_VERIF', '-w', '--coverage', '-I' + scr.util, '-I' + scr.src, '-I' + hdir] +
                   [os.path.join(hdir, s) for s in group['sources']] + [os.path.join(scr.src, r) for r in group.get('repo_sources', ())] +
                   list(group.get('libs', ('-lgmpxx', '-lgmp'))) + ['-o', os.path.join(d, 'exe')])
            p = subprocess.run(cmd, cwd=d, capture_output=True, text=True)
            if p.returncode:
                print('build failed for', name, p.stderr[-400:]); continue
            lines = []
            for pid, spec in specs:
                if 'gen' not in spec: continue
                lines += [c.line for c in spec['gen'](core.Gen(1), 'quick')]
            subprocess.run([os.path.join(d, 'exe')], input='\n'.join(lines) + '\n', cwd=d, capture_output=True, text=True, timeout=3600)
            # gcov over every object of the group
            for f in os.listdir(d):
                if f.endswith('.gcda'):
                    subprocess.run(['gcov', '-p', '-l', f], cwd=d, capture_output=True, text=True)
            for f in os.listdir(d):
                if not f.endswith('.gcov'): continue
                src = None
                for ln in open(os.path.join(d, f), errors='replace'):
                    m = re.match(r'\s*([-#=\d\*]+):\s*(\d+):(.*)', ln)
                    if not m: continue
                    cnt, no, text = m.group(1), int(m.group(2)), m.group(3)
                    if no == 0:
                        if text.startswith('Source:'): src = text[7:]
                        continue
                    if src is None or scr.src not in src: continue
                    rel = os.path.relpath(src, scr.src)
                    if cnt == '-': continue
                    c = 0 if cnt.startswith('#') or cnt.startswith('=') else int(cnt.rstrip('*'))
                    hits.setdefault(rel, {})
                    hits[rel][no] = max(hits[rel].get(no, 0), c)
        report = []
        for rel in sorted(hits):
            if rel.startswith('util/test_') or rel.endswith('MatrixTest.h'): continue
            miss = sorted(n for n, c in hits[rel].items() if c == 0)
            tot = len(hits[rel])
            srcl = open(os.path.join(scr.src, rel), errors='replace').read().splitlines()
            report.append('%s: %d of %d executable lines never reached' % (rel, len(miss), tot))
            for n in miss: report.append('   %5d: %s' % (n, srcl[n - 1].rstrip() if n - 1 < len(srcl) else ''))
    open(os.path.join(out, 'uncovered.txt'), 'w').write('\n'.join(report) + '\n')
    print('\n'.join(l for l in report if not l.startswith('   ')))
    print('details:', os.path.join(out, 'uncovered.txt'))


if __name__ == '__main__':
    main()
