#!/usr/bin/env python3
"""Apply every seeded change under seeded/ to /repo in turn, run the quick check of its property, undo the change, and
record whether the check reported it (development aid; /repo is always restored).  Usage: tools/run_seeded.py [pattern] [--update] [--replay]"""
import os, sys, json, subprocess, re
V = os.path.dirname(os.path.dirname(os.path.abspath(__file__)))
REPO = '/repo'

def main():
    pat = next((a for a in sys.argv[1:] if not a.startswith('--')), '')
    update = '--update' in sys.argv
    if subprocess.run(['git', '-C', REPO, 'status', '--porcelain', '--untracked-files=no'], capture_output=True, text=True).stdout.strip():
        sys.exit('/repo has uncommitted changes')
    rows = []
    for name in sorted(os.listdir(os.path.join(V, 'seeded'))):
        d = os.path.join(V, 'seeded', name)
        if pat not in name or not os.path.isfile(os.path.join(d, 'patch.diff')): continue
        meta = json.load(open(os.path.join(d, 'meta.json')))
        pid = meta['property']
        a = subprocess.run(['git', '-C', REPO, 'apply', os.path.join(d, 'patch.diff')], capture_output=True, text=True)
        if a.returncode:
            rows.append((name, 'patch does not apply')); print(name, 'PATCH DOES NOT APPLY', a.stderr.strip()[:100], flush=True); continue
        try:
            tier_args = ['--tier', 'thorough'] if '--tier thorough' in meta.get('check_cmd', '') else []
            p = subprocess.run([os.path.join(V, 'check'), pid] + tier_args, capture_output=True, text=True, cwd=V)
        finally:
            subprocess.run(['git', '-C', REPO, 'checkout', '--', '.'], check=True)
        vio = [l for l in p.stdout.split('\n') if l.startswith('VIOLATION')]
        rep = ''
        if '--replay' in sys.argv and vio and not vio[0].endswith('no-failing-input-found'):
            # the replay file reproduces the violation on the changed tree and passes on the restored tree
            rp = re.search(r'replay=(\S+)', vio[0]).group(1); keep = rp + '.seeded'; os.replace(rp, keep)
            a2 = subprocess.run(['git', '-C', REPO, 'apply', os.path.join(d, 'patch.diff')], capture_output=True, text=True)
            try: r1 = subprocess.run([os.path.join(V, 'check'), pid, '--replay', keep], capture_output=True, text=True, cwd=V)
            finally: subprocess.run(['git', '-C', REPO, 'checkout', '--', '.'], check=True)
            r2 = subprocess.run([os.path.join(V, 'check'), pid, '--replay', keep], capture_output=True, text=True, cwd=V)
            rep = ' replay:%s/%s' % ('fails-on-change' if r1.returncode == 1 else 'PASSES-ON-CHANGE', 'passes-on-original' if r2.returncode == 0 else 'FAILS-ON-ORIGINAL')
            os.unlink(keep)
        res = 'caught' if p.returncode == 1 and vio else 'MISSED'
        if vio and vio[0].endswith('no-failing-input-found'): res = 'caught-no-input'
        print(name, res + rep, flush=True); rows.append((name, res))
        if update:
            if 'first_run_check_exit' not in meta and (meta.get('check_exit') != p.returncode or (meta.get('check_output') or '').endswith('no-failing-input-found') != (res == 'caught-no-input')):
                meta['first_run_check_exit'] = meta.get('check_exit'); meta['first_run_check_output'] = meta.get('check_output')
                meta['note'] = 'check strengthened after the first run (see DESIGN.md 11.7)'
            meta['check_exit'] = p.returncode; meta['check_output'] = vio[0] if vio else ''
            json.dump(meta, open(os.path.join(d, 'meta.json'), 'w'), indent=1)
    print('%d changes: %d caught with a failing input, %d caught without, %d missed' % (len(rows), sum(r == 'caught' for _, r in rows),
          sum(r == 'caught-no-input' for _, r in rows), sum(r not in ('caught', 'caught-no-input') for _, r in rows)))

if __name__ == '__main__':
    main()
