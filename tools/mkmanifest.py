#!/usr/bin/env python3
"""regenerate MANIFEST.json from vlib/registry.py (run after adding a property)"""
import json, os, sys
V = os.path.dirname(os.path.dirname(os.path.abspath(__file__)))
sys.path.insert(0, V)
from vlib import registry

ALL = [json.loads(l)['id'] for l in open(os.path.join(V, 'properties.jsonl'))]
checks = []
for pid in ALL:
    if pid not in registry.SPECS: continue
    spec, group = registry.SPECS[pid]
    checks.append({
        'property_id': pid,
        'quick_cmd': './check %s --tier quick' % pid,
        'thorough_cmd': './check %s --tier thorough' % pid,
        'evidence_file': 'evidence/%s.json' % pid,
        'replay_cmd_template': './check %s --replay {path}' % pid,
        'engine': 'lean4-proof+correspondence',
        'level_claimed': {
            'category': 'proof',
            'text': spec.get('level_text', 'Lean 4 theorems (module %s) state the property for all inputs over an arbitrary field of '
                     'characteristic 0 / all sizes / all histories about a hand-written model; the model is tied to /repo\'s working tree on '
                     'every run by executing the model (compiled driver) and the real code (harness built from the working tree) on '
                     'the same operation lines and comparing exactly; the property is additionally evaluated as an oracle on the '
                     'implementation alone.' % spec['module']),
            'design_ref': 'DESIGN.md section 7, ' + pid,
        },
        'level_note': 'Trusted: Lean kernel, Mathlib, axioms propext/Classical.choice/Quot.sound, the correspondence harness (GMP rationals, '
                      'std::complex<Rat> specialisation), g++/libstdc++/glibc. Not carried by a theorem: ' + spec.get('partial', 'IEEE rounding'),
        'technique': spec.get('technique', 'Lean 4 theorems over a model + exact differential correspondence with the C++ templates'),
    })
na = [{'property_id': p, 'reason': registry.NOT_CLAIMED.get(p, 'not yet built in this round; planned (DESIGN.md section 7)')}
      for p in ALL if p not in registry.SPECS]
man = {
    'version': 1,
    'setup_cmd': './setup.sh',
    'hooks': {'guard': 'EPSIC_VERIF',
              'enable': 'no source hooks are needed: every check compiles /repo\'s working-tree sources into its own harness with -DEPSIC_VERIF (nothing in /repo tests the macro)',
              'baseline_off_cmd': 'make -C /repo/src -k -j8 check', 'source_commits': [], 'add_only': True},
    'engines': [{'name': 'lean4-proof+correspondence', 'path': 'lean/ vlib/ harness/ check',
                 'serves_properties': [c['property_id'] for c in checks],
                 'kind_free_text': 'Lean 4.33 + Mathlib theorems about a hand-written executable model; differential correspondence check against the real C++ (exact rationals / IEEE bit patterns)'}],
    'checks': checks,
    'not_applicable': na,
    'notes': 'VERIF_SEED seeds every random choice; VERIF_TIER or --tier selects quick/thorough. known_findings.json lists recorded findings.',
}
json.dump(man, open(os.path.join(V, 'MANIFEST.json'), 'w'), indent=1)
print('claimed:', [c['property_id'] for c in checks])
