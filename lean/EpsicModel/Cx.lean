import EpsicModel.Arith
/-! `std::complex<T>` as a pair; `ci`, `conj`, `norm` as `Traits.h`/libstdc++ define them. -/
namespace Epsic

structure Cx (α : Type) where
  re : α
  im : α
deriving Repr, BEq, DecidableEq

namespace Cx
variable {α : Type} [Arith α]

def ofReal (x : α) : Cx α := ⟨x, zero⟩
def add (a b : Cx α) : Cx α := ⟨a.re + b.re, a.im + b.im⟩
def sub (a b : Cx α) : Cx α := ⟨a.re - b.re, a.im - b.im⟩
def neg (a : Cx α) : Cx α := ⟨-a.re, -a.im⟩
def mul (a b : Cx α) : Cx α := ⟨a.re*b.re - a.im*b.im, a.re*b.im + a.im*b.re⟩
/-- multiplication by a real scalar (`T * std::complex<T>`) -/
def smul (s : α) (a : Cx α) : Cx α := ⟨s * a.re, s * a.im⟩
def conj (a : Cx α) : Cx α := ⟨a.re, -a.im⟩
/-- `std::norm`: squared modulus -/
def norm (a : Cx α) : α := a.re*a.re + a.im*a.im
/-- `ci(c)`: multiplication by i (`Traits.h`) -/
def ci (a : Cx α) : Cx α := ⟨-a.im, a.re⟩
/-- `ci(real)` -/
def ciReal (x : α) : Cx α := ⟨zero, x⟩
/-- generic `std::complex<T>::operator/=`: `z * conj(w) / norm(w)` (total part) -/
def divRaw (a b : Cx α) : Cx α :=
  ⟨(a.re*b.re + a.im*b.im) / b.norm, (a.im*b.re - a.re*b.im) / b.norm⟩
def div (a b : Cx α) : R (Cx α) :=
  if Arith.isZero b.norm then .error .div0 else .ok (divRaw a b)

instance : Add (Cx α) := ⟨add⟩
instance : Sub (Cx α) := ⟨sub⟩
instance : Mul (Cx α) := ⟨mul⟩
instance : Neg (Cx α) := ⟨neg⟩

instance instArith : Arith (Cx α) where
  div := divRaw
  zero := ⟨zero, zero⟩
  one := ⟨one, zero⟩
  two := ⟨two, zero⟩
  half := ⟨half, zero⟩
  isZero z := Arith.isZero z.norm
  eq0 z := Arith.eq0 z.re && Arith.eq0 z.im
  ofNat n := ⟨Arith.ofNat n, zero⟩

end Cx
end Epsic
