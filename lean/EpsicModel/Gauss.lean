import EpsicModel.Vec
/-! `GaussJordan (a, b)` and `inv (Matrix)` (`src/util/Matrix.h`): Gauss–Jordan elimination with
full pivoting, in place.  The pivot *choice* is a parameter (`pick`): the C++ picks the last
largest `|a[j][k]|` among rows and columns not yet used; the theorems hold for every choice. -/
namespace Epsic.Gauss
open Epsic

/-- elimination state; `used k` is `ipiv[k] != 0`; `hist` is `(indxr[i], indxc[i])`, oldest first -/
structure State (n c : Nat) (α : Type) where
  a : Mat n n α
  b : Mat n c α
  used : Fin n → Bool
  hist : List (Fin n × Fin n)

variable {α : Type} [Arith α] {n c : Nat}

def swapRows {m : Nat} (x : Mat n m α) (r s : Fin n) : Mat n m α :=
  fun i => if i = r then x s else if i = s then x r else x i
def swapCols {m : Nat} (x : Mat m n α) (r s : Fin n) : Mat m n α :=
  fun i j => if j = r then x i s else if j = s then x i r else x i j

/-- one elimination step on pivot position `(r, col)` (both unused); `Singular Matrix-2` when the
pivot is zero -/
def step (st : State n c α) (r col : Fin n) : R (State n c α) :=
  let a1 := swapRows st.a r col
  let b1 := swapRows st.b r col
  let piv := a1 col col
  if Arith.eq0 piv then .error .singular2 else
  let pivinv := one / piv
  let rowA : Vec n α := fun k => (if k = col then one else a1 col k) * pivinv
  let rowB : Vec c α := fun k => b1 col k * pivinv
  let a3 : Mat n n α := fun j k =>
    if j = col then rowA k else (if k = col then zero else a1 j k) - rowA k * a1 j col
  let b3 : Mat n c α := fun j k =>
    if j = col then rowB k else b1 j k - rowB k * a1 j col
  .ok ⟨a3, b3, fun k => if k = col then true else st.used k, st.hist ++ [(r, col)]⟩

/-- the column unscrambling at the end: swaps in reverse order of the history -/
def unscramble (a : Mat n n α) (hist : List (Fin n × Fin n)) : Mat n n α :=
  hist.reverse.foldl (fun acc p => if p.1 = p.2 then acc else swapCols acc p.1 p.2) a

/-- a pivot strategy: given the current state, a row and a column, both unused (or `none`, which
cannot happen while an unused index exists) -/
abbrev Pick (n c : Nat) (α : Type) := State n c α → Option (Fin n × Fin n)

/-- `fuel` elimination steps -/
def run (pick : Pick n c α) : Nat → State n c α → R (State n c α)
  | 0, st => .ok st
  | k+1, st =>
    match pick st with
    | none => .error .singular1
    | some (r, col) =>
      match step st r col with
      | .error e => .error e
      | .ok st' => run pick k st'

/-- `GaussJordan(a, b)`: returns the final `(a, b)` -/
def gaussJordan (pick : Pick n c α) (a : Mat n n α) (b : Mat n c α) : R (Mat n n α × Mat n c α) :=
  match run pick n ⟨a, b, fun _ => false, []⟩ with
  | .error e => .error e
  | .ok st => .ok (unscramble st.a st.hist, st.b)

/-- `inv(m)`: `GaussJordan (copy, identity)`, return the transformed identity -/
def inv (pick : Pick n n α) (m : Mat n n α) : R (Mat n n α) :=
  match gaussJordan pick m Mat.identity with
  | .error e => .error e
  | .ok p => .ok p.2

/-- the C++ pivot search: scan rows `j` with `ipiv[j] != 1`, columns `k` with `ipiv[k] == 0`,
keep the last entry whose magnitude is `≥` the running maximum (`mag` is `fabs`) -/
def pickMax {β : Type} (mag : α → β) (ge : β → β → Bool) (zeroMag : β) : Pick n c α := fun st =>
  let cand : List (Fin n × Fin n) :=
    (List.finRange n).flatMap (fun j => if st.used j then [] else
      (List.finRange n).filterMap (fun k => if st.used k then none else some (j, k)))
  let best := cand.foldl (fun (acc : β × Option (Fin n × Fin n)) p =>
    let m := mag (st.a p.1 p.2)
    if ge m acc.1 then (m, some p) else acc) (zeroMag, none)
  best.2

end Epsic.Gauss
