import EpsicModel.Vec
/-! `Estimate<T,U>`, `MeanEstimate`, `MeanRadian` (`src/util/Estimate.h`) and the noise-bias
corrected `invariant(Stokes<Estimate<T>>)` (`Stokes.h`).  Elementary functions enter as *leaves*:
a rule takes the function value(s) libm returned and produces the propagated variance. -/
namespace Epsic

structure Est (α : Type) where
  val : α
  var : α
deriving Repr, BEq, DecidableEq

namespace Est
variable {α : Type} [Arith α]

def add (a b : Est α) : Est α := ⟨a.val + b.val, a.var + b.var⟩
def sub (a b : Est α) : Est α := ⟨a.val - b.val, a.var + b.var⟩
/-- `var = val*val*d.var + d.val*d.val*var; val *= d.val` -/
def mul (a b : Est α) : Est α := ⟨a.val * b.val, a.val*a.val*b.var + b.val*b.val*a.var⟩
def neg (a : Est α) : Est α := ⟨-a.val, a.var⟩
/-- `inverse()`: `v = 1.0/val; (v, var*v*v*v*v)` -/
def inverse (a : Est α) : R (Est α) := do
  let v ← sdiv one a.val
  pure ⟨v, a.var*v*v*v*v⟩
/-- `operator/=` is `operator*=(d.inverse())` -/
def div (a b : Est α) : R (Est α) := do
  let i ← inverse b
  pure (mul a i)

/-! elementary functions: `f` is the value libm returned -/
def expE (u : Est α) (f : α) : Est α := ⟨f, f*f*u.var⟩
/-- `log`: `var/(val*val)` -/
def logE (u : Est α) (f : α) : Est α := ⟨f, u.var/(u.val*u.val)⟩
/-- `sqrt`: `0.25*var/fabs(val)`; `absVal` is `fabs(u.val)` -/
def sqrtE (u : Est α) (f absVal : α) : Est α := ⟨f, (half*half)*u.var/absVal⟩
def sinE (u : Est α) (f : α) : Est α := ⟨f, (one - f*f)*u.var⟩
def cosE (u : Est α) (f : α) : Est α := ⟨f, (one - f*f)*u.var⟩
/-- `acos`: `del = -1.0/sqrt(1.0-val*val); del*del*var`; `root` is `sqrt(1-val²)` -/
def acosE (u : Est α) (f root : α) : Est α := let del := (-one)/root; ⟨f, del*del*u.var⟩
/-- `atan`: `del = 1/(1+val*val)` -/
def atanE (u : Est α) (f : α) : Est α := let del := one/(one + u.val*u.val); ⟨f, del*del*u.var⟩
/-- `atan2(s,c)`: `(c2*s.var + s2*c.var)/(sc2*sc2)` -/
def atan2E (s c : Est α) (f : α) : Est α :=
  let c2 := c.val*c.val; let s2 := s.val*s.val; let sc2 := c2 + s2
  ⟨f, (c2*s.var + s2*c.var)/(sc2*sc2)⟩
def sinhE (u : Est α) (f : α) : Est α := ⟨f, (one + f*f)*u.var⟩
def coshE (u : Est α) (f : α) : Est α := ⟨f, (f*f - one)*u.var⟩
def atanhE (u : Est α) (f : α) : Est α := let del := one/(one - u.val*u.val); ⟨f, del*del*u.var⟩
/-- `copysign(u,v)`: value is the leaf `±u.val`, variance unchanged -/
def copysignE (u : Est α) (f : α) : Est α := ⟨f, u.var⟩

/-- product of `std::complex<Estimate>`: `(ar*br - ai*bi, ar*bi + ai*br)` in Estimate arithmetic -/
def cmul (ar ai br bi : Est α) : Est α × Est α :=
  (sub (mul ar br) (mul ai bi), add (mul ar bi) (mul ai br))

/-- `Stokes<Estimate>::invariant()` as the overloads resolve: `x[0]*x[0]` is an `Estimate`
product, `sqr_vect()` goes through `normsq(Estimate)`, which returns a bare value (variance 0) -/
def stokesInvariantRaw (s : Vec 4 (Est α)) : Est α :=
  sub (mul (s 0) (s 0)) ⟨(s 1).val*(s 1).val + (s 2).val*(s 2).val + (s 3).val*(s 3).val, zero⟩
/-- `invariant(Stokes<Estimate<T>>)` before the repair: bias removed, `var *= 2` -/
def invariantOld (s : Vec 4 (Est α)) : Est α :=
  let r := stokesInvariantRaw s
  let bias := (s 0).var - (s 1).var - (s 2).var - (s 3).var
  ⟨r.val - bias, r.var * two⟩
/-- repaired: the variance is the first-order sum `Σ 4 S_i² var(S_i)` -/
def invariantNew (s : Vec 4 (Est α)) : Est α :=
  let r := stokesInvariantRaw s
  let bias := (s 0).var - (s 1).var - (s 2).var - (s 3).var
  let four := two*two
  ⟨r.val - bias,
    sumFin 4 (fun i => four * (s i).val*(s i).val * (s i).var)⟩

end Est

/-! ### weighted means -/
structure MeanEst (α : Type) where
  normVal : α
  invVar : α
deriving Repr, BEq, DecidableEq

namespace MeanEst
variable {α : Type} [Arith α]
def empty : MeanEst α := ⟨zero, zero⟩
/-- `operator+=(const Estimate&)`: `if (d.var) { v = 1.0/d.var; norm_val += d.val*v; inv_var += v; }` -/
def addEst (m : MeanEst α) (d : Est α) : MeanEst α :=
  if Arith.eq0 d.var then m else
    let v := one / d.var
    ⟨m.normVal + d.val*v, m.invVar + v⟩
/-- `operator+=(const MeanEstimate&)` -/
def merge (a b : MeanEst α) : MeanEst α := ⟨a.normVal + b.normVal, a.invVar + b.invVar⟩
/-- `MeanEstimate (const Estimate&)` -/
def ofEst (d : Est α) : MeanEst α := addEst empty d
/-- `get_Estimate()`: `var = 0; if (inv_var != 0) var = 1/inv_var; (norm_val*var, var)` -/
def get (m : MeanEst α) : Est α :=
  let var := if Arith.eq0 m.invVar then zero else one / m.invVar
  ⟨m.normVal * var, var⟩
def accumulate (l : List (Est α)) : MeanEst α := l.foldl addEst empty

/-- binary merge trees over a sequence of estimates -/
inductive Tree (α : Type) where
  | leaf (d : Est α)
  | node (l r : Tree α)
def evalTree : Tree α → MeanEst α
  | .leaf d => ofEst d
  | .node l r => merge (evalTree l) (evalTree r)
def Tree.leaves : Tree α → List (Est α)
  | .leaf d => [d]
  | .node l r => l.leaves ++ r.leaves
end MeanEst

/-! ### circular mean -/
structure MeanRad (α : Type) where
  cosine : MeanEst α
  sine : MeanEst α

namespace MeanRad
variable {α : Type} [Arith α]
def empty : MeanRad α := ⟨MeanEst.empty, MeanEst.empty⟩
/-- one angle estimate with its cosine and sine leaves: `cosine += cos(d); sine += sin(d)` -/
structure Entry (α : Type) where
  d : Est α
  c : α
  s : α
def addEntry (m : MeanRad α) (e : Entry α) : MeanRad α :=
  ⟨m.cosine.addEst (Est.cosE e.d e.c), m.sine.addEst (Est.sinE e.d e.s)⟩
def merge (a b : MeanRad α) : MeanRad α := ⟨a.cosine.merge b.cosine, a.sine.merge b.sine⟩
def accumulate (l : List (Entry α)) : MeanRad α := l.foldl addEntry empty
/-- `get_Estimate()`: zero when both accumulators are empty, else `atan2(sine, cosine)`;
`at2` is the `atan2` leaf -/
def get (m : MeanRad α) (at2 : α → α → α) : Est α :=
  if Arith.eq0 m.sine.normVal && Arith.eq0 m.cosine.normVal then ⟨zero, zero⟩
  else
    let s := m.sine.get; let c := m.cosine.get
    Est.atan2E s c (at2 s.val c.val)
end MeanRad

/-- which form of `invariant(Stokes<Estimate>)` the current source has -/
def currentInvariantRepaired : Bool := true

end Epsic
