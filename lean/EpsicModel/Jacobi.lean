import EpsicModel.Quat
/-! `calculate_Jacobi` (`src/util/Jacobi.h`): the rotation parameters of one Jacobi step, for a real
symmetric and for a complex Hermitian 2×2 pivot block.  `abs`, `sqrt` and the comparisons are
parameters (leaves).  The n×n real symmetric solver follows in the second half of the file; the complex
Hermitian sweep is not modelled (it is exercised through the residual oracle of the harness). -/
namespace Epsic.Jacobi
open Epsic
variable {α : Type} [Arith α]

structure RealRot (α : Type) where
  s : α
  tau : α
  correction : α

/-- real symmetric: `h = q-p; g = 100|pq|; if (|h|+g == |h|) t = pq/h; else { theta = 0.5*h/pq;
t = 1/(|theta| + sqrt(1+theta²)); if (theta < 0) t = -t; } c = 1/sqrt(1+t²); s = t c;
tau = s/(1+c); correction = t pq` -/
def calculateReal (absF : α → α) (sqrtF : α → α) (eqF : α → α → Bool) (ltZero : α → Bool) (hundred : α)
    (p q pq : α) : RealRot α :=
  let h := q - p
  let g := hundred * absF pq
  let t :=
    if eqF (absF h + g) (absF h) then pq / h
    else
      let theta := half * h / pq
      let t0 := one / (absF theta + sqrtF (one + theta*theta))
      if ltZero theta then -t0 else t0
  let c := one / sqrtF (one + t*t)
  let s := t * c
  ⟨s, s / (one + c), t * pq⟩

structure CxRot (α : Type) where
  s : Cx α
  tau : Cx α
  correction : α

/-- complex Hermitian: `Sq = 0.5(p-q); Su = Re pq; Sv = -Im pq; rotation = eigen(0,Sq,Su,Sv);
c = rotation.s0; s = (-rotation.s3, -rotation.s2); tau = conj(s)/(1+c);
correction = 2 (c Re(s conj(pq)) + Sq Re(s conj(s)))` -/
def calculateComplex (sqrtFn : α → R α) (ltZero : α → Bool) (p q : α) (pq : Cx α) : R (CxRot α) := do
  let sq := half * (p - q)
  let su := pq.re
  let sv := -pq.im
  let rot ← Quat.eigenH sqrtFn ltZero ⟨zero, sq, su, sv⟩
  let c := rot.s0
  let s : Cx α := ⟨-rot.s3, -rot.s2⟩
  let d := one + c
  let tau : Cx α := ⟨s.conj.re / d, s.conj.im / d⟩
  let corr := two * (c * (s * pq.conj).re + sq * (s * s.conj).re)
  pure ⟨s, tau, corr⟩

end Epsic.Jacobi

/-! ### The n×n real symmetric solver (`rotate_Jacobi`, `JacobiRotation`, `Jacobi`)

The whole matrix is rotated (the `#else` branch of `JacobiRotation`): columns `ip`,`iq` of `a`, then
rows `ip`,`iq` of `a`, then rows `ip`,`iq` of the eigenvector matrix.  Every loop is a left fold in
the order of the C++ loop; `abs`, `sqrt`, `==`, `<`, `>` and the constants `100.0`, `0.2` are leaves. -/
namespace Epsic.Jacobi
open Epsic

structure SolverLeaves (α : Type) where
  abs : α → α
  sqrt : α → α
  eq : α → α → Bool
  ltZero : α → Bool
  gt : α → α → Bool
  hundred : α
  fifth : α

variable {α : Type} [Arith α] {n : Nat}

def setM (x : Mat n n α) (i j : Fin n) (val : α) : Mat n n α := fun a b => if a = i ∧ b = j then val else x a b
def setV (x : Vec n α) (i : Fin n) (val : α) : Vec n α := fun a => if a = i then val else x a

/-- a vector as stored data (see `Mat.Frozen`) -/
structure FrozenV (n : Nat) (α : Type) where
  arr : Array α
def freezeV (v : Vec n α) : FrozenV n α := ⟨Array.ofFn (fun i : Fin n => v i)⟩
def thawV (f : FrozenV n α) : Vec n α := fun i => (f.arr[i.val]?).getD zero
@[simp] theorem thawV_freezeV (v : Vec n α) : thawV (freezeV v) = v := by
  funext i
  simp [thawV, freezeV, i.isLt]

/-- `rotate_Jacobi (x, s, tau, i, j, k, l)` for a real scalar (`myconj` is the identity):
`g = x[i][j]; h = x[k][l]; x[i][j] -= s*(h+g*tau); x[k][l] += s*(g-h*tau)` -/
def rotatePair (x : Mat n n α) (s tau : α) (i j k l : Fin n) : Mat n n α :=
  let g := x i j
  let h := x k l
  setM (setM x i j (g - s*(h + g*tau))) k l (h + s*(g - h*tau))

/-- a left fold over matrices that stores the matrix after every step (the result is stored data, so a
`let` evaluates it once) -/
def foldStored {β : Type} (f : Mat n n α → β → Mat n n α) (l : List β) (x : Mat n n α) : Mat.Frozen n n α :=
  l.foldl (fun acc j => Mat.freeze (f (Mat.thaw acc) j)) (Mat.freeze x)

/-- `for (j<RC) rotate_Jacobi(a,s,tau,j,ip,j,iq)` -/
def colPass (x : Mat n n α) (s tau : α) (p q : Fin n) : Mat.Frozen n n α :=
  foldStored (fun acc j => rotatePair acc s tau j p j q) (List.finRange n) x
/-- `for (j<RC) rotate_Jacobi(a,s,tau,ip,j,iq,j)` -/
def rowPass (x : Mat n n α) (s tau : α) (p q : Fin n) : Mat.Frozen n n α :=
  foldStored (fun acc j => rotatePair acc s tau p j q j) (List.finRange n) x

/-- `a`, `evec`, `eval`, `b`, `z` of `Jacobi` -/
structure SolverState (n : Nat) (α : Type) where
  a : Mat n n α
  v : Mat n n α
  d : Vec n α
  b : Vec n α
  z : Vec n α

/-- `JacobiRotation (ip, iq, a, v, d)` followed by `z[ip] -= correction; z[iq] += correction` -/
def rotation (L : SolverLeaves α) (st : SolverState n α) (p q : Fin n) : SolverState n α :=
  let r := calculateReal L.abs L.sqrt L.eq L.ltZero L.hundred (st.d p) (st.d q) (st.a p q)
  let d1 := setV st.d p (st.d p - r.correction)
  let d2 := setV d1 q (d1 q + r.correction)
  let a1 := colPass st.a r.s r.tau p q
  let a2 := rowPass (Mat.thaw a1) r.s r.tau p q
  let a3 := Mat.freeze (setM (setM (Mat.thaw a2) p q zero) q p zero)
  let v1 := rowPass st.v r.s r.tau p q
  let z1 := setV st.z p (st.z p - r.correction)
  let z2 := setV z1 q (z1 q + r.correction)
  let fd := freezeV d2
  let fz := freezeV z2
  ⟨Mat.thaw a3, Mat.thaw v1, thawV fd, st.b, thawV fz⟩

/-- the body of the double loop over `ip < iq` in sweep number `iter` -/
def pairStep (L : SolverLeaves α) (iter : Nat) (thresh : α) (st : SolverState n α) (pq : Fin n × Fin n) : SolverState n α :=
  let p := pq.1
  let q := pq.2
  let g := L.hundred * L.abs (st.a p q)
  if decide (iter > 4) && L.eq (L.abs (st.d p) + g) (L.abs (st.d p)) && L.eq (L.abs (st.d q) + g) (L.abs (st.d q)) then
    { st with a := setM (setM st.a q p zero) p q zero }
  else if L.gt (L.abs (st.a p q)) thresh then rotation L st p q
  else st

/-- the index pairs `ip < iq` in loop order -/
def pairs (n : Nat) : List (Fin n × Fin n) :=
  (List.finRange n).flatMap (fun p => (List.finRange n).filterMap (fun q => if p < q then some (p, q) else none))

/-- `sum += norm(a[ip][iq])` over the upper triangle -/
def offSum (L : SolverLeaves α) (a : Mat n n α) : α :=
  (pairs n).foldl (fun acc pq => acc + L.abs (a pq.1 pq.2)) zero

/-- `b[ip] += z[ip]; eval[ip] = b[ip]; z[ip] = 0` -/
def endSweep (st : SolverState n α) : SolverState n α :=
  let fb := freezeV (fun i => st.b i + st.z i)
  { st with b := thawV fb, d := thawV fb, z := fun _ => zero }

/-- one pass of the `for (iter…)` loop body after the `sum == 0` test -/
def sweep (L : SolverLeaves α) (iter : Nat) (sum : α) (st : SolverState n α) : SolverState n α :=
  let thresh := if iter < 4 then L.fifth * sum / Arith.ofNat (n*n) else zero
  endSweep ((pairs n).foldl (pairStep L iter thresh) st)

/-- `fuel` further iterations starting at sweep number `iter`; `return` when the off-diagonal sum is zero -/
def iterate (L : SolverLeaves α) : Nat → Nat → SolverState n α → SolverState n α
  | 0, _, st => st
  | fuel+1, iter, st =>
    let sum := offSum L st.a
    if Arith.eq0 sum then st else iterate L fuel (iter+1) (sweep L iter sum st)

def initState (a : Mat n n α) : SolverState n α :=
  ⟨a, Mat.identity, fun i => a i i, fun i => a i i, fun _ => zero⟩

/-- `Jacobi (a, evec, eval)`: 50 sweeps at most -/
def jacobi (L : SolverLeaves α) (a : Mat n n α) : SolverState n α := iterate L 50 0 (initState a)

end Epsic.Jacobi

/-! ### The n×n complex Hermitian solver (the same templates at `T = std::complex<U>`)

`norm(a[ip][iq])` resolves to `std::norm` (the *squared* modulus) for complex elements and to `fabs` for the real
eigenvalues; `myconj` is the complex conjugate; the column pass uses `(s, tau)`, the row passes use their conjugates. -/
namespace Epsic.Jacobi
open Epsic
variable {α : Type} [Arith α] {n : Nat}

/-- `rotate_Jacobi` for complex elements: `x[i][j] -= conj(s)*(h+g*conj(tau)); x[k][l] += s*(g-h*tau)` -/
def rotatePairC (x : Mat n n (Cx α)) (s tau : Cx α) (i j k l : Fin n) : Mat n n (Cx α) :=
  let g := x i j
  let h := x k l
  setM (setM x i j (g - s.conj*(h + g*tau.conj))) k l (h + s*(g - h*tau))

def colPassC (x : Mat n n (Cx α)) (s tau : Cx α) (p q : Fin n) : Mat.Frozen n n (Cx α) :=
  foldStored (fun acc j => rotatePairC acc s tau j p j q) (List.finRange n) x
def rowPassC (x : Mat n n (Cx α)) (s tau : Cx α) (p q : Fin n) : Mat.Frozen n n (Cx α) :=
  foldStored (fun acc j => rotatePairC acc s tau p j q j) (List.finRange n) x

structure CSolverState (n : Nat) (α : Type) where
  a : Mat n n (Cx α)
  v : Mat n n (Cx α)
  d : Vec n α
  b : Vec n α
  z : Vec n α

def rotationC (sqrtFn : α → R α) (ltZero : α → Bool) (st : CSolverState n α) (p q : Fin n) : R (CSolverState n α) := do
  let r ← calculateComplex sqrtFn ltZero (st.d p) (st.d q) (st.a p q)
  let d1 := setV st.d p (st.d p - r.correction)
  let d2 := setV d1 q (d1 q + r.correction)
  let a1 := colPassC st.a r.s r.tau p q
  let a2 := rowPassC (Mat.thaw a1) r.s.conj r.tau.conj p q
  let a3 := Mat.freeze (setM (setM (Mat.thaw a2) p q zero) q p zero)
  let v1 := rowPassC st.v r.s.conj r.tau.conj p q
  let z1 := setV st.z p (st.z p - r.correction)
  let z2 := setV z1 q (z1 q + r.correction)
  let fd := freezeV d2
  let fz := freezeV z2
  pure ⟨Mat.thaw a3, Mat.thaw v1, thawV fd, st.b, thawV fz⟩

def pairStepC (L : SolverLeaves α) (sqrtFn : α → R α) (iter : Nat) (thresh : α) (st : CSolverState n α) (pq : Fin n × Fin n) :
    R (CSolverState n α) :=
  let p := pq.1
  let q := pq.2
  let g := L.hundred * (st.a p q).norm
  if decide (iter > 4) && L.eq (L.abs (st.d p) + g) (L.abs (st.d p)) && L.eq (L.abs (st.d q) + g) (L.abs (st.d q)) then
    pure { st with a := setM (setM st.a q p zero) p q zero }
  else if L.gt (st.a p q).norm thresh then rotationC sqrtFn L.ltZero st p q
  else pure st

def offSumC (a : Mat n n (Cx α)) : α :=
  (pairs n).foldl (fun acc pq => acc + (a pq.1 pq.2).norm) zero

def endSweepC (st : CSolverState n α) : CSolverState n α :=
  let fb := freezeV (fun i => st.b i + st.z i)
  { st with b := thawV fb, d := thawV fb, z := fun _ => zero }

def sweepC (L : SolverLeaves α) (sqrtFn : α → R α) (iter : Nat) (sum : α) (st : CSolverState n α) : R (CSolverState n α) := do
  let thresh := if iter < 4 then L.fifth * sum / Arith.ofNat (n*n) else zero
  let st' ← (pairs n).foldlM (pairStepC L sqrtFn iter thresh) st
  pure (endSweepC st')

def iterateC (L : SolverLeaves α) (sqrtFn : α → R α) : Nat → Nat → CSolverState n α → R (CSolverState n α)
  | 0, _, st => pure st
  | fuel+1, iter, st =>
    let sum := offSumC st.a
    if Arith.eq0 sum then pure st
    else match sweepC L sqrtFn iter sum st with
      | .error e => .error e
      | .ok st' => iterateC L sqrtFn fuel (iter+1) st'

def initStateC (a : Mat n n (Cx α)) : CSolverState n α :=
  ⟨a, Mat.identity, fun i => (a i i).re, fun i => (a i i).re, fun _ => zero⟩

/-- `Jacobi (a, evec, eval)` for a complex Hermitian matrix -/
def jacobiC (L : SolverLeaves α) (sqrtFn : α → R α) (a : Mat n n (Cx α)) : R (CSolverState n α) :=
  iterateC L sqrtFn 50 0 (initStateC a)

end Epsic.Jacobi
