import EpsicModel.Quat
/-! `calculate_Jacobi` (`src/util/Jacobi.h`): the rotation parameters of one Jacobi step, for a real
symmetric and for a complex Hermitian 2×2 pivot block.  `abs`, `sqrt` and the comparisons are
parameters (leaves); the n×n sweep itself is not modelled (it is exercised through the residual
oracle of the harness). -/
namespace Epsic.Jacobi
open Epsic
variable {α : Type} [Arith α]

structure RealRot (α : Type) where
  s : α
  tau : α
  correction : α

/-- real symmetric: `h = q-p; g = 100|pq|; if (|h|+g == |h|) t = pq/h; else { theta = 0.5*h/pq;
t = 1/(|theta| + sqrt(1+theta²)); if (theta < 0) t = -t; } c = 1/sqrt(1+t²); s = t c;
tau = s/(1+c); correction = t pq` -/
def calculateReal (absF : α → α) (sqrtF : α → α) (eqF : α → α → Bool) (ltZero : α → Bool) (hundred : α)
    (p q pq : α) : RealRot α :=
  let h := q - p
  let g := hundred * absF pq
  let t :=
    if eqF (absF h + g) (absF h) then pq / h
    else
      let theta := half * h / pq
      let t0 := one / (absF theta + sqrtF (one + theta*theta))
      if ltZero theta then -t0 else t0
  let c := one / sqrtF (one + t*t)
  let s := t * c
  ⟨s, s / (one + c), t * pq⟩

structure CxRot (α : Type) where
  s : Cx α
  tau : Cx α
  correction : α

/-- complex Hermitian: `Sq = 0.5(p-q); Su = Re pq; Sv = -Im pq; rotation = eigen(0,Sq,Su,Sv);
c = rotation.s0; s = (-rotation.s3, -rotation.s2); tau = conj(s)/(1+c);
correction = 2 (c Re(s conj(pq)) + Sq Re(s conj(s)))` -/
def calculateComplex (sqrtFn : α → R α) (ltZero : α → Bool) (p q : α) (pq : Cx α) : R (CxRot α) := do
  let sq := half * (p - q)
  let su := pq.re
  let sv := -pq.im
  let rot ← Quat.eigenH sqrtFn ltZero ⟨zero, sq, su, sv⟩
  let c := rot.s0
  let s : Cx α := ⟨-rot.s3, -rot.s2⟩
  let d := one + c
  let tau : Cx α := ⟨s.conj.re / d, s.conj.im / d⟩
  let corr := two * (c * (s * pq.conj).re + sq * (s * s.conj).re)
  pure ⟨s, tau, corr⟩

end Epsic.Jacobi
