import EpsicModel.Jones
import EpsicModel.Quat
/-! `Pauli.h`, `Basis.h`, `Stokes.h`, `Spinor.h`, `Minkowski.h`:
conversions between Stokes parameters, quaternions, Jones and Mueller matrices. -/
namespace Epsic

/-! ### `Basis<T>` -/

structure Basis (α : Type) where
  /-- `Signal::Basis` enumerator: Circular=0, Linear=1, Elliptical=2 -/
  code : Nat
  into : Mat 3 3 α
  outof : Mat 3 3 α

namespace Basis
variable {α : Type} [Arith α]

def rows3 (r0 r1 r2 : Vec 3 α) : Mat 3 3 α := fun i => match i with | 0 => r0 | 1 => r1 | 2 => r2

def ofInto (code : Nat) (m : Mat 3 3 α) : Basis α := ⟨code, m, Mat.transpose m⟩
/-- `set_basis (Signal::Linear)` -/
def linear : Basis α := ofInto 1 (rows3 (Vec.basis 0) (Vec.basis 1) (Vec.basis 2))
/-- `set_basis (Signal::Circular)` -/
def circular : Basis α := ofInto 0 (rows3 (Vec.basis 1) (Vec.basis 2) (Vec.basis 0))
/-- `set_basis (orientation, ellipticity)` with `cos 2o, sin 2o, cos 2e, sin 2e` as leaves -/
def elliptical (c2o s2o c2e s2e : α) : Basis α :=
  ofInto 2 (rows3 (v3 (c2o*c2e) s2o (-(c2o)*s2e))
                  (v3 (-(s2o)*c2e) c2o (s2o*s2e))
                  (v3 s2e zero c2e))
/-- `get_in(vect) = into * vect` -/
def getIn (b : Basis α) (v : Vec 3 α) : Vec 3 α := Mat.mulVec b.into v
/-- `get_out(vect) = outof * vect` -/
def getOut (b : Basis α) (v : Vec 3 α) : Vec 3 α := Mat.mulVec b.outof v
/-- the same on complex vectors: the real basis row is cast to complex, then dotted -/
def castC (m : Mat 3 3 α) : Mat 3 3 (Cx α) := fun i j => Cx.ofReal (m i j)
def getInC (b : Basis α) (v : Vec 3 (Cx α)) : Vec 3 (Cx α) := Mat.mulVec (castC b.into) v
def getOutC (b : Basis α) (v : Vec 3 (Cx α)) : Vec 3 (Cx α) := Mat.mulVec (castC b.outof) v
def basisVector (b : Basis α) (i : Fin 3) : Vec 3 α := b.into i

/-- a basis-setting operation, for histories on the process-wide `Pauli::basis()` -/
inductive Op (α : Type) where
  | lin | circ | ell (c2o s2o c2e s2e : α)
  /-- `set_basis (Signal::Elliptical)`: the code is recorded, then the `switch` refuses it with an exception (which the
  caller catches); the matrices and angles are left as they were -/
  | refused
/-- a refused setting: only the enumerator changes -/
def refuse (b : Basis α) : Basis α := { b with code := 2 }
def apply (b : Basis α) : Op α → Basis α
  | .lin => linear | .circ => circular | .ell a b c d => elliptical a b c d | .refused => refuse b
end Basis

/-! ### Stokes vectors -/
abbrev Stokes (β : Type) := Vec 4 β

namespace Stokes
variable {β : Type} [Arith β]
def getVector (s : Stokes β) : Vec 3 β := v3 (s 1) (s 2) (s 3)
def ofScalarVector (a : β) (v : Vec 3 β) : Stokes β := v4 a (v 0) (v 1) (v 2)
def sqrVect (s : Stokes β) : β := Vec.normsq (getVector s)
def invariant (s : Stokes β) : β := s 0 * s 0 - sqrVect s
end Stokes

/-! ### conversions -/
namespace Pauli
variable {α : Type} [Arith α]

/-- `convert(Quaternion<complex<T>,Hermitian>)` -/
def convertHC (q : Quat (Cx α)) : Jones α :=
  ⟨q.s0+q.s1, q.s2 - q.s3.ci, q.s2 + q.s3.ci, q.s0-q.s1⟩
/-- `convert(Quaternion<complex<T>,Unitary>)` -/
def convertUC (q : Quat (Cx α)) : Jones α :=
  ⟨q.s0 + q.s1.ci, q.s3 + q.s2.ci, -q.s3 + q.s2.ci, q.s0 - q.s1.ci⟩
/-- `convert(Quaternion<T,Hermitian>)` -/
def convertHR (q : Quat α) : Jones α :=
  ⟨⟨q.s0+q.s1, zero⟩, ⟨q.s2, -q.s3⟩, ⟨q.s2, q.s3⟩, ⟨q.s0-q.s1, zero⟩⟩
/-- `convert(Quaternion<T,Unitary>)`: `T + ci(T)` -/
def convertUR (q : Quat α) : Jones α :=
  ⟨⟨q.s0, q.s1⟩, ⟨q.s3, q.s2⟩, ⟨-q.s3, q.s2⟩, ⟨q.s0, -q.s1⟩⟩
/-- `convert(Jones)`: Jones matrix to Hermitian biquaternion -/
def toHermitian (j : Jones α) : Quat (Cx α) :=
  ⟨Cx.smul half (j.j00 + j.j11), Cx.smul half (j.j00 - j.j11),
   Cx.smul half (j.j01 + j.j10), Cx.smul half (j.j01 - j.j10).ci⟩
/-- `unitary(Jones)`: Jones matrix to Unitary biquaternion -/
def toUnitary (j : Jones α) : Quat (Cx α) :=
  ⟨Cx.smul half (j.j00 + j.j11), Cx.smul (-half) (j.j00 - j.j11).ci,
   Cx.smul (-half) (j.j01 + j.j10).ci, Cx.smul half (j.j01 - j.j10)⟩
/-- `Pauli::matrix(i)` : `q[i] = 1; convert(q)` -/
def matrix (i : Fin 4) : Jones α := convertHR ((Quat.ofScalar zero).set i one)

/-- `natural(stokes)` -/
def natural (b : Basis α) (s : Stokes α) : Quat α :=
  Quat.ofScalarVector (s 0) (b.getOut (Stokes.getVector s))
/-- `standard(q)` -/
def standard (b : Basis α) (q : Quat α) : Stokes α :=
  Stokes.ofScalarVector q.s0 (b.getIn q.getVector)
/-- `convert(Stokes<T>)`: `convert (T(0.5) * q)` -/
def convertStokes (b : Basis α) (s : Stokes α) : Jones α :=
  convertHR (Quat.smul (natural b s) half)
/-- `convert(Stokes<complex<T>>)` -/
def convertStokesC (b : Basis α) (s : Stokes (Cx α)) : Jones α :=
  let q : Quat (Cx α) := Quat.ofScalarVector (s 0) (b.getOutC (Stokes.getVector s))
  convertHC (Quat.smul q (half : Cx α))
/-- `coherency(Quaternion<T,Hermitian>)` -/
def coherencyQ (b : Basis α) (q : Quat α) : Stokes α :=
  Stokes.ofScalarVector (two * q.s0) (Vec.smul (b.getIn q.getVector) two)
/-- `coherency(Quaternion<complex<T>,Hermitian>)` (complex Stokes parameters) -/
def coherencyQC (b : Basis α) (q : Quat (Cx α)) : Stokes (Cx α) :=
  Stokes.ofScalarVector ((two : Cx α) * q.s0) (Vec.smul (b.getInC q.getVector) (two : Cx α))
/-- `real_coherency`: throws when `imagGuard (norm imag) (norm real)` fires -/
def realCoherency (imagGuard : α → α → Bool) (b : Basis α) (q : Quat (Cx α)) : R (Stokes α) :=
  if imagGuard (Quat.normR (Quat.imagQ q)) (Quat.normR (Quat.realQ q))
  then .error (.throw "non-zero imaginary component")
  else .ok (coherencyQ b (Quat.realQ q))
/-- `coherency(Jones)` -/
def coherency (imagGuard : α → α → Bool) (b : Basis α) (j : Jones α) : R (Stokes α) :=
  realCoherency imagGuard b (toHermitian j)
/-- `complex_coherency(Jones)` -/
def complexCoherency (b : Basis α) (j : Jones α) : Stokes (Cx α) := coherencyQC b (toHermitian j)
/-- `transform(Stokes<T>, Jones)` -/
def transform (g : α → α → Bool) (b : Basis α) (s : Stokes α) (j : Jones α) : R (Stokes α) :=
  coherency g b (j * convertStokes b s * j.herm)
/-- `transform(Stokes<complex<T>>, Jones)` -/
def transformC (b : Basis α) (s : Stokes (Cx α)) (j : Jones α) : Stokes (Cx α) :=
  complexCoherency b (j * convertStokesC b s * j.herm)

/-- `Mueller(J)`: row `r` is `coherency(herm(J) * convert(e_r) * J)` -/
def mueller (g : α → α → Bool) (b : Basis α) (j : Jones α) : R (Mat 4 4 α) := do
  let row (r : Fin 4) : R (Stokes α) := coherency g b (j.herm * convertStokes b (Vec.basis r) * j)
  let r0 ← row 0; let r1 ← row 1; let r2 ← row 2; let r3 ← row 3
  pure (fun i => match i with | 0 => r0 | 1 => r1 | 2 => r2 | 3 => r3)
/-- `Mueller(J, Jgrad)` -/
def muellerGrad (g : α → α → Bool) (b : Basis α) (j jg : Jones α) : R (Mat 4 4 α) := do
  let row (r : Fin 4) : R (Stokes α) :=
    let rho := convertStokes b (Vec.basis r)
    coherency g b (jg.herm * rho * j + j.herm * rho * jg)
  let r0 ← row 0; let r1 ← row 1; let r2 ← row 2; let r3 ← row 3
  pure (fun i => match i with | 0 => r0 | 1 => r1 | 2 => r2 | 3 => r3)
/-- `transform(Matrix<4,4>, Jones rho)`: `convert (M * complex_coherency(rho))` -/
def transformM (b : Basis α) (m : Mat 4 4 α) (rho : Jones α) : Jones α :=
  let mc : Mat 4 4 (Cx α) := fun i j => Cx.ofReal (m i j)
  convertStokesC b (Mat.mulVec mc (complexCoherency b rho))

/-- `polar(d,h,u,J)` with the complex and real square roots as leaves -/
def polar (csqrt : Cx α → R (Cx α)) (sqrtFn : α → R α) (o : Quat.OrdLeaves α) (j : Jones α) :
    R (Cx α × Quat α × Quat α) := do
  let d ← csqrt j.det
  let j1 ← j.sdivC d
  let h ← Quat.sqrtH sqrtFn o (Quat.realQ (toHermitian (j1 * j1.herm)))
  let hi ← Quat.invHR h
  let j2 := convertHR hi * j1
  pure (d, h, Quat.realQ (toUnitary j2))

end Pauli

/-! ### spinors -/
structure Spinor (α : Type) where
  x : Cx α
  y : Cx α
deriving Repr, BEq

namespace Spinor
variable {α : Type} [Arith α]
/-- `Jones * Spinor` -/
def apply (j : Jones α) (e : Spinor α) : Spinor α := ⟨j.j00*e.x + j.j01*e.y, j.j10*e.x + j.j11*e.y⟩
def add (a b : Spinor α) : Spinor α := ⟨a.x+b.x, a.y+b.y⟩
/-- `operator*=(U scale)` with a real scale -/
def smulR (e : Spinor α) (s : α) : Spinor α := ⟨⟨e.x.re*s, e.x.im*s⟩, ⟨e.y.re*s, e.y.im*s⟩⟩
/-- `complex * Spinor` -/
def smulC (c : Cx α) (e : Spinor α) : Spinor α := ⟨e.x*c, e.y*c⟩
/-- `compute_stokes(stokes, e)` -/
def computeStokes (e : Spinor α) : Stokes α :=
  let vx := e.x.norm
  let vy := e.y.norm
  let c := e.x.conj * e.y
  v4 (vx+vy) (vx-vy) (two*c.re) (two*c.im)
end Spinor

/-! ### `Minkowski::inner`, `Minkowski::outer` -/
namespace Minkowski
variable {α : Type} [Arith α]
/-- `result = A[0]*B[0]; for i in 1..3: result -= A[i]*B[i]` -/
def inner (a b : Vec 4 α) : α := a 0 * b 0 - a 1 * b 1 - a 2 * b 2 - a 3 * b 3
/-- `result = ::outer(A,B); inv = 0.5*inner; result[0][0] -= inv; result[i][i] += inv (i=1..3)` -/
def outer (a b : Vec 4 α) : Mat 4 4 α := fun i j =>
  let o := a i * b j
  let inv := half * inner a b
  if i = j then (if i.val = 0 then o - inv else o + inv) else o
end Minkowski

end Epsic
