/-! `true_math::finite`, `true_math::signbit` (`src/util/true_math.c`) on IEEE encodings, and their
liftings to complex numbers, vectors, Jones matrices and estimates.  Core Lean only. -/
namespace Epsic.TrueMath

/-- IEEE binary64: finite iff the 11-bit exponent field is not all ones -/
def finite64 (b : BitVec 64) : Bool := (b >>> 52) &&& 0x7ff != 0x7ff
def signbit64 (b : BitVec 64) : Bool := b.msb
/-- IEEE binary32 -/
def finite32 (b : BitVec 32) : Bool := (b >>> 23) &&& 0xff != 0xff
def signbit32 (b : BitVec 32) : Bool := b.msb
/-- x87 extended (80 bits: sign, 15-bit exponent, 64-bit significand) -/
def finite80 (b : BitVec 80) : Bool := (b >>> 64) &&& 0x7fff != 0x7fff
def signbit80 (b : BitVec 80) : Bool := b.msb

/-- a container is finite iff every component is (`&&` over the components, in storage order) -/
def finiteAll {n : Nat} (fin : BitVec n → Bool) (xs : List (BitVec n)) : Bool := xs.all fin
/-- `finite(Estimate)` looks at the value only -/
def finiteEst {n : Nat} (fin : BitVec n → Bool) (val _var : BitVec n) : Bool := fin val

end Epsic.TrueMath
