/-! Text input/output of values (`operator<<` / `operator>>` of `Vector.h`, `Estimate.h`,
`Conventions.C`, and `std::complex`'s extractor, which `Vector<N,complex>` nests).  Core Lean only.

A `std::istream` over a string is modelled by `IS`: the whole text, the read position and the state
bits.  The primitives follow libstdc++'s formatted and unformatted input functions: the sentry
(`!good()` sets `failbit`; whitespace skipping that reaches the end sets `eofbit|failbit`),
`operator>>(char&)`, `peek`, `get`, `unget`, `putback`, `tellg`, `seekg`, `operator>>(std::string&)`,
and the lexical part of `num_get` for `double` and `int` in the "C" locale.

Numbers are kept as their *lexemes* (`List Char`): the model decides which characters form a number
and whether `strtod` would accept them; the numeric value of a lexeme (`strtod`) is a leaf the
correspondence check evaluates outside Lean. -/
namespace Epsic.Text

abbrev Lex := List Char

/-- the characters already read (most recent first), the characters still to be read, the state bits -/
structure IS where
  before : List Char := []
  buf : List Char
  fail : Bool := false
  eof : Bool := false
  bad : Bool := false
deriving Repr

def IS.pos (s : IS) : Nat := s.before.length
def IS.good (s : IS) : Bool := !s.fail && !s.eof && !s.bad
/-- `is.fail()` is `failbit | badbit` -/
def IS.failed (s : IS) : Bool := s.fail || s.bad
/-- move `n` characters from the unread to the read part -/
def IS.advance (s : IS) (n : Nat) : IS := { s with before := (s.buf.take n).reverse ++ s.before, buf := s.buf.drop n }

def isSpace (c : Char) : Bool := c == ' ' || c == '\n' || c == '\t' || c == '\r' || c == '\x0b' || c == '\x0c'
def isDigit (c : Char) : Bool := '0' ≤ c && c ≤ '9'
def isSign (c : Char) : Bool := c == '+' || c == '-'

abbrev M := StateM IS

/-- `istream::sentry`: returns whether extraction may proceed -/
def sentry (skipws : Bool) : M Bool := fun s =>
  if !s.good then (false, { s with fail := true })
  else if skipws then
    let s' := s.advance (s.buf.takeWhile isSpace).length
    if s'.buf.isEmpty then (false, { s' with eof := true, fail := true }) else (true, s')
  else (true, s)

/-- `is >> c` for `char c` (the argument is the previous content of `c`, kept on failure) -/
def readChar (old : Char) : M Char := fun s =>
  match sentry true s with
  | (false, s1) => (old, s1)
  | (true, s1) =>
    match s1.buf with
    | c :: _ => (c, s1.advance 1)
    | [] => (old, { s1 with eof := true, fail := true })

/-- `is.peek()`: `none` is `EOF` -/
def peek : M (Option Char) := fun s =>
  match sentry false s with
  | (false, s1) => (none, s1)
  | (true, s1) =>
    match s1.buf with
    | c :: _ => (some c, s1)
    | [] => (none, { s1 with eof := true })

/-- `is.get()` -/
def getc : M (Option Char) := fun s =>
  match sentry false s with
  | (false, s1) => (none, s1)
  | (true, s1) =>
    match s1.buf with
    | c :: _ => (some c, s1.advance 1)
    | [] => (none, { s1 with eof := true, fail := true })

/-- `is.unget()` / `is.putback(c)` of the character just read (C++11: clears `eofbit` first) -/
def unget : M Unit := fun s =>
  match sentry false { s with eof := false } with
  | (false, s1) => ((), s1)
  | (true, s1) =>
    match s1.before with
    | [] => ((), { s1 with bad := true })
    | c :: bs => ((), { s1 with before := bs, buf := c :: s1.buf })

/-- `expect(is, c)` of `Estimate.h` -/
def expect (c : Char) : M Bool := fun s =>
  match peek s with
  | (some d, s1) => if d == c then (true, (getc s1).2) else (false, { s1 with fail := true })
  | (none, s1) => (false, { s1 with fail := true })

/-! ### `num_get` for floating point: the characters accumulated, then the `strtod` acceptance test -/

/-- digits, at most one `.` before any exponent, one `e|E` after at least one digit, optionally followed
by a sign: the loop of `num_get::_M_extract_float`.  Returns the accumulated characters (reversed) and
what is left. -/
def scanBody : List Char → (dec sci mant afterE : Bool) → List Char → List Char × List Char
  | [], _, _, _, _, acc => (acc, [])
  | c :: cs, dec, sci, mant, afterE, acc =>
    if afterE && isSign c then scanBody cs dec sci mant false (c :: acc)
    else if isDigit c then scanBody cs dec sci true false (c :: acc)
    else if c == '.' then (if !dec && !sci then scanBody cs true sci mant false (c :: acc) else (acc, c :: cs))
    else if (c == 'e' || c == 'E') then
      (if !sci && mant then scanBody cs dec true mant true (c :: acc) else (acc, c :: cs))
    else (acc, c :: cs)

def scanFloat (l : List Char) : List Char × List Char :=
  match l with
  | c :: cs => if isSign c then let r := scanBody cs false false false false [c]; (r.1.reverse, r.2)
               else let r := scanBody l false false false false []; (r.1.reverse, r.2)
  | [] => ([], [])

/-- would `strtod` consume the whole of the accumulated text?
`[sign] (digits [. digits*] | . digits+) [(e|E) [sign] digits+]` -/
def stripSign (l : List Char) : List Char := match l with | c :: cs => if isSign c then cs else l | [] => l
def validExp (l : List Char) : Bool :=
  match l with
  | [] => true
  | c :: cs => (c == 'e' || c == 'E') &&
    (let cs' := stripSign cs
     !cs'.isEmpty && cs'.all isDigit)
def validMant (l : List Char) : Bool :=
  match l.dropWhile isDigit with
  | '.' :: r' => (!(l.takeWhile isDigit).isEmpty || !(r'.takeWhile isDigit).isEmpty) && validExp (r'.dropWhile isDigit)
  | r => !(l.takeWhile isDigit).isEmpty && validExp r
def validFloat (l : List Char) : Bool := validMant (stripSign l)

def zeroLex : Lex := ['0']

/-! the one numeric fact `num_get` itself acts on: a result of `±HUGE_VAL` (the decimal value rounds
beyond the largest double) is replaced by `±max` and sets `failbit`.  Decided exactly on the lexeme. -/
def digitsVal (l : List Char) : Nat := l.foldl (fun a c => a * 10 + (c.toNat - '0'.toNat)) 0
/-- half-way between the largest double and `2^1024`; decimal values at or above it round to infinity -/
def overflowBound : Nat := 2 ^ 1024 - 2 ^ 970
/-- for a lexeme accepted by `validFloat` -/
def overflows (l : List Char) : Bool :=
  let l := stripSign l
  let ip := l.takeWhile isDigit
  let r := l.dropWhile isDigit
  let (fp, r) := match r with | '.' :: r' => (r'.takeWhile isDigit, r'.dropWhile isDigit) | _ => ([], r)
  let (eneg, eds) : Bool × List Char := match r with
    | _ :: '-' :: ds => (true, ds) | _ :: '+' :: ds => (false, ds) | _ :: ds => (false, ds) | [] => (false, [])
  let d := digitsVal (ip ++ fp)
  if d == 0 then false else
  -- a decimal exponent with more than four digits decides by its sign alone
  let edsNZ := eds.dropWhile (· == '0')
  if edsNZ.length > 4 then !eneg else
  let e : Int := (if eneg then -(digitsVal eds : Int) else (digitsVal eds : Int)) - fp.length
  if e > 400 then true
  else if e ≥ 0 then d * 10 ^ e.toNat ≥ overflowBound
  else d ≥ overflowBound * 10 ^ (-e).toNat
def maxLex (neg : Bool) : Lex := (if neg then "-" else "").toList ++ "1.7976931348623157e308".toList

/-- `is >> x` for `double x`: on a failed conversion the value is zero (C++11); on overflow it is the
largest finite value of the same sign, and `failbit` is set -/
def extractFloat (old : Lex) : M Lex := fun s =>
  match sentry true s with
  | (false, s1) => (old, s1)
  | (true, s1) =>
    let acc := (scanFloat s1.buf).1
    let rest := (scanFloat s1.buf).2
    let s' := { s1.advance acc.length with eof := rest.isEmpty }
    if validFloat acc then
      if overflows acc then (maxLex (acc.head? == some '-'), { s' with fail := true })
      else (acc, s')
    else (zeroLex, { s' with fail := true })

/-- `is >> n` for `int n`: optional sign and decimal digits; returns the lexeme (overflow is outside
the inputs the check generates and would set `failbit`) -/
def extractInt (old : Lex) : M Lex := fun s =>
  match sentry true s with
  | (false, s1) => (old, s1)
  | (true, s1) =>
    let (sg, body) : List Char × List Char := match s1.buf with
      | c :: cs => if isSign c then ([c], cs) else ([], s1.buf)
      | [] => ([], [])
    let ds := body.takeWhile isDigit
    let rest := body.dropWhile isDigit
    let s' := { s1.advance (sg.length + ds.length) with eof := rest.isEmpty }
    if ds.isEmpty then (zeroLex, { s' with fail := true }) else (sg ++ ds, s')

/-- `is >> str` for `std::string str` (empty when nothing is extracted) -/
def extractWord : M (List Char) := fun s =>
  match sentry true s with
  | (false, s1) => ([], s1)
  | (true, s1) =>
    let w := s1.buf.takeWhile (fun c => !isSpace c)
    let rest := s1.buf.dropWhile (fun c => !isSpace c)
    (w, { s1.advance w.length with eof := rest.isEmpty })

/-- `is.tellg()`: -1 when `fail()` -/
def tellg : M (Option Nat) := do let s ← get; return (if s.failed then none else some s.pos)
/-- `is.seekg(pos)` (C++11: clears `eofbit`; nothing happens when `fail()`) -/
def seekg (p : Option Nat) : M Unit := modify fun s =>
  let s := { s with eof := false }
  if s.failed then s else match p with
    | some n => let all := s.before.reverse ++ s.buf; { s with before := (all.take n).reverse, buf := all.drop n }
    | none => { s with fail := true }

/-! ### `Estimate` -/
/-- after the repair, a failed extraction of the error returns before the destination is written
(before: only the bracketed form returned, through the failing `expect(')')`) -/
def currentEstimateChecksError : Bool := true

/-- `operator>> (istream&, Estimate&)`; the destination is `(value, error)` as lexemes.
`open_brace` is uninitialised in the C++ when the stream is already at its end; any value leads to the
same result because every later step fails, so the model uses `'\x00'`. -/
def estimateTail (checksError bracketed : Bool) (dest : Lex × Lex) : M (Lex × Lex) := do
  let value ← extractFloat ['?']
  if !(← expect '+') then return dest
  if !(← expect '-') then return dest
  let error ← extractFloat ['?']
  if checksError && (← get).failed then return dest
  if bracketed then
    if !(← expect ')') then return dest
  return (value, error)
def estimateIn (checksError : Bool) (dest : Lex × Lex) : M (Lex × Lex) := do
  let ob ← readChar '\x00'
  let bracketed ← (if ob != '(' then do unget; pure false else pure true)
  estimateTail checksError bracketed dest

def estimateOut (v e : Lex) : List Char := ['('] ++ v ++ ['+', '-'] ++ e ++ [')']

/-! ### `std::complex` (libstdc++ 12 extractor) -/
def complexIn (dest : Lex × Lex) : M (Lex × Lex) := do
  let ch ← readChar '\x00'
  if (← get).failed then modify (fun s => { s with fail := true }); return dest
  if ch == '(' then
    let u ← extractFloat ['?']
    if (← get).failed then modify (fun s => { s with fail := true }); return dest
    let ch2 ← readChar ch
    if (← get).failed then modify (fun s => { s with fail := true }); return dest
    if ch2 == ')' then return (u, zeroLex)
    else if ch2 == ',' then
      let v ← extractFloat ['?']
      if (← get).failed then modify (fun s => { s with fail := true }); return dest
      let ch3 ← readChar ch2
      if (← get).failed then modify (fun s => { s with fail := true }); return dest
      if ch3 == ')' then return (u, v)
      else unget; modify (fun s => { s with fail := true }); return dest
    else unget; modify (fun s => { s with fail := true }); return dest
  else
    unget
    let u ← extractFloat ['?']
    if (← get).failed then modify (fun s => { s with fail := true }); return dest
    return (u, zeroLex)

def complexOut (re im : Lex) : List Char := ['('] ++ re ++ [','] ++ im ++ [')']

/-! ### `Vector<N,T>` -/
/-- the loop `is >> c >> v[i]; if (c != ',') { fail; return }` over the elements after the first; `c`
keeps its previous content when its extraction fails.  Returns `none` for the character when the
operator returned from inside the loop; elements that were not reached keep their previous content. -/
def vectorLoop {δ : Type} (elemIn : δ → M δ) : Char → List δ → List δ → M (Option Char × List δ)
  | c, done, [] => pure (some c, done)
  | c, done, d :: rest => do
    let c' ← readChar c
    let d' ← elemIn d
    if c' != ',' then
      modify (fun s => { s with fail := true })
      return (none, done ++ d' :: rest)
    vectorLoop elemIn c' (done ++ [d']) rest

/-- `operator>> (istream&, Vector<N,T>&)`, `N = dest.length ≥ 1` -/
def vectorIn {δ : Type} (elemIn : δ → M δ) (dest : List δ) : M (List δ) := do
  let c ← readChar '\x00'
  if c != '(' then
    modify (fun s => { s with fail := true })
    return dest
  match dest with
  | [] => return dest
  | d0 :: ds =>
    let d0' ← elemIn d0
    let (oc, out) ← vectorLoop elemIn c [d0'] ds
    match oc with
    | none => return out
    | some c1 =>
      let c2 ← readChar c1
      if c2 != ')' then modify (fun s => { s with fail := true })
      return out

def intercalate (sep : List Char) : List (List Char) → List Char
  | [] => []
  | [x] => x
  | x :: xs => x ++ sep ++ intercalate sep xs
def vectorOut (elems : List (List Char)) : List Char := ['('] ++ intercalate [','] elems ++ [')']
/-- `Matrix`: rows as vectors, `"[row0,\n row1…]"` -/
def matrixOut (rows : List (List Char)) : List Char := ['['] ++ intercalate [',', '\n', ' '] rows ++ [']']
def jonesOut (e : List (List Char)) : List Char := ['['] ++ e.flatten ++ [']']
def quatOut (unitary : Bool) (e : List (List Char)) : List Char :=
  ['[', (if unitary then 'u' else 'h'), ':'] ++ intercalate [','] e ++ [']']

/-! ### conventions -/
/-- `Signal::Basis`: Circular = 0, Linear = 1, Elliptical = 2 -/
def basisOut : Nat → List Char
  | 0 => "cir".toList | 1 => "lin".toList | 2 => "ell".toList | _ => []
def keywordBasis (w : List Char) : Option Nat :=
  if w == "lin".toList || w == "Linear".toList then some 1
  else if w == "cir".toList || w == "circ".toList || w == "Circular".toList then some 0
  else if w == "ell".toList || w == "Elliptical".toList then some 2
  else none
/-- decimal value of a signed digit string -/
def lexToInt (l : Lex) : Int :=
  let (neg, ds) := match l with | '-' :: r => (true, r) | '+' :: r => (false, r) | _ => (false, l)
  let n := ds.foldl (fun a c => a * 10 + (c.toNat - '0'.toNat)) 0
  if neg then - (n : Int) else (n : Int)
/-- after the repair a numeric code outside 0..2 sets `failbit` (before: neither a value nor the bit) -/
def currentBasisRejectsUnknownCode : Bool := true
def basisIn (rejects : Bool) (dest : Int) : M Int := do
  let p ← tellg
  let w ← extractWord
  match keywordBasis w with
  | some b => return b
  | none =>
    seekg p
    let code ← extractInt ['-', '1']
    if !(← get).failed then
      let k := lexToInt code
      if k == 0 || k == 1 || k == 2 then return k
      else
        if rejects then modify (fun s => { s with fail := true })
        return dest
    else return dest

/-- `input<T>` of `Conventions.C` (`Hand`, `Argument`): the code is stored whatever it is -/
def signIn : M Int := do
  let code ← extractInt zeroLex
  let k := lexToInt code
  if k.natAbs != 1 then modify (fun s => { s with fail := true })
  return k
/-- `output<T>`: `showpos` integer -/
def signOut (k : Int) : List Char := (if k ≥ 0 then "+" else "-").toList ++ (toString k.natAbs).toList

def run {α : Type} (m : M α) (text : List Char) : α × IS := m { buf := text }

end Epsic.Text
