import EpsicModel.Sim
/-! The command-line program (`src/epsic.cpp`): the `getopt` loop with its `B`-prefix routing, the
validity test on `-s`, and `mode_setup::setup_mode` (which decorators end up around which mode).
Core Lean only.  Numeric conversions of argument text (`atof`, `atoi`, `sscanf`) are leaves. -/
namespace Epsic.Cli
open Epsic

/-- `mode_setup` (the fields reachable from the documented options) -/
structure Setup (α : Type) where
  mean : Vec 4 α
  beta : α
  smoothMod : Nat
  squareMod : Nat

inductive Dual (α : Type) where
  | none | superposed | composite (f : α) | disjoint (f : α) | coherent (c : α)

structure Config (α : Type) where
  dual : Dual α
  nint : Nat
  nlag : Nat
  rho : Option α
  a : Setup α
  b : Setup α
  theoryOnly : Bool
  meansOnly : Bool

inductive Outcome (α : Type) where
  | ok (c : Config α)
  /-- `return -1` after "Invalid Stokes parameters (p>I)" -/
  | invalidStokes
  /-- `return -1` after "Error parsing … as 4-vector" -/
  | parseError
  /-- `-h`: usage, `return 0` -/
  | usage

/-- the conversions of argument text -/
structure Leaves (α : Type) where
  atof : String → α
  atoi : String → Nat
  /-- `sscanf (arg, "%lf,%lf,%lf,%lf", …) == 4` -/
  scan4 : String → Option (Vec 4 α)
  /-- `stokes.abs_vect() > i` -/
  invalid : Vec 4 α → Bool

variable {α : Type} [Arith α]

def Setup.default : Setup α := ⟨fun i => if i.val = 0 then one else zero, zero, 0, 0⟩
def Config.default : Config α := ⟨.none, 1, 0, none, Setup.default, Setup.default, false, false⟩

/-- the routing decision of the loop body: an argument that starts with `B` configures `setup_B` and
loses its first character -/
def route (optarg : String) : Bool × String :=
  match optarg.toList with
  | 'B' :: r => (true, String.ofList r)
  | _ => (false, optarg)

def updSetup (c : Config α) (toB : Bool) (f : Setup α → Setup α) : Config α :=
  if toB then { c with b := f c.b } else { c with a := f c.a }

/-- one iteration of the `getopt` loop: option character and its argument (`""` when it takes none) -/
def step (L : Leaves α) (c : Config α) (opt : Char) (optarg : String) : Outcome α :=
  let (toB, usearg) := route optarg
  match opt with
  | 'h' => .usage
  | 'n' => .ok { c with nint := L.atoi optarg }
  | 'S' => .ok { c with dual := .superposed }
  | 'C' => .ok { c with dual := .composite (L.atof optarg) }
  | 'D' => .ok { c with dual := .disjoint (L.atof optarg) }
  | 'c' => .ok { c with dual := .coherent (L.atof optarg) }
  | 's' =>
    match L.scan4 usearg with
    | none => .parseError
    | some v => if L.invalid v then .invalidStokes else .ok (updSetup c toB (fun s => { s with mean := v }))
  | 'l' => .ok (updSetup c toB (fun s => { s with beta := L.atof usearg }))
  | 'b' => .ok (updSetup c toB (fun s => { s with smoothMod := L.atoi usearg }))
  | 'r' => .ok (updSetup c toB (fun s => { s with squareMod := L.atoi usearg }))
  | 'k' => .ok { c with rho := some (L.atof optarg) }
  | 'X' => .ok { c with nlag := L.atoi optarg }
  | 't' => .ok { c with theoryOnly := true }
  | 'd' => .ok { c with meansOnly := true }
  | _ => .ok c          -- f, N, H, w: no effect on the model that is built

/-- the whole loop over the (option, argument) pairs `getopt` delivers; the first `return` ends it -/
def run (L : Leaves α) : Config α → List (Char × String) → Outcome α
  | c, [] => .ok c
  | c, (o, a) :: rest =>
    match step L c o a with
    | .ok c' => run L c' rest
    | other => other

/-- the options that take an argument (`"fhH:k:N:n:Sc:C:dD:s:l:b:r:X:tw:"`) -/
def takesArg (o : Char) : Bool := "HkNncCDslbrXw".toList.contains o
def knownOpt (o : Char) : Bool := "fhHkNnScCdDslbrXtw".toList.contains o

/-- `getopt` over `argv[1..]` for the separated (`-n 4`) and attached (`-n4`) forms; clusters of
argument-less options and unknown options are outside the inputs the check generates (`none`) -/
def tokenize : List String → Option (List (Char × String))
  | [] => some []
  | t :: rest =>
    match t.toList with
    | ['-', o] =>
      if !knownOpt o then none
      else if takesArg o then
        match rest with
        | a :: rest' => (tokenize rest').map (fun l => (o, a) :: l)
        | [] => none
      else (tokenize rest).map (fun l => (o, "") :: l)
    | '-' :: o :: more =>
      if knownOpt o && takesArg o then (tokenize rest).map (fun l => (o, String.ofList more) :: l) else none
    | _ => none

/-! ### `mode_setup::setup_mode`: which decorators wrap the mode -/
inductive Stack (α : Type) where
  | plain
  | modulated (beta : α)
  | boxcar (beta : α) (w : Nat)
  | square (beta : α) (w : Nat)

/-- covariant or log-normal first (a covariant mode keeps the default index 1 when `-l` is absent), then
the boxcar filter on the modulator, then the rectangular impulse, which is built on the *unsmoothed*
modulator and therefore replaces the boxcar when both are requested -/
def stackOf (covariant : Bool) (s : Setup α) : Stack α :=
  let hasMod := covariant || !(Arith.eq0 s.beta)
  let eff := if covariant && Arith.eq0 s.beta then one else s.beta
  if !hasMod then .plain
  else if s.squareMod > 1 then .square eff s.squareMod
  else if s.smoothMod > 1 then .boxcar eff s.smoothMod
  else .modulated eff

end Epsic.Cli
