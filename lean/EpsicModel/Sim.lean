import EpsicModel.Pauli
/-! The simulator library (`src/mode.cpp`, `sample.cpp`, `modulated.h`, `square_modulated_mode.cpp`,
`covariant.cpp`): field generation from explicit deviates, predicted moments, sample-mean statistics,
amplitude-modulation state machines. -/
namespace Epsic.Sim
open Epsic

variable {α : Type} [Arith α]

/-! ### a single mode (`mode.cpp`) -/

/-- `mode::set_Stokes`: `polarizer = convert (sqrt (natural (mean)))` -/
def setStokes (sqrtFn : α → R α) (o : Quat.OrdLeaves α) (b : Basis α) (s : Stokes α) : R (Jones α) := do
  let root ← Quat.sqrtH sqrtFn o (Pauli.natural b s)
  pure (Pauli.convertHR root)

/-- `mode::get_field`: four deviates, `rms = 0.5`: `x = (rms g0, rms g1)`, `y = (rms g2, rms g3)`, `polarizer * e` -/
def getField (polarizer : Jones α) (g : Vec 4 α) : Spinor α :=
  Spinor.apply polarizer ⟨⟨half * g 0, half * g 1⟩, ⟨half * g 2, half * g 3⟩⟩

/-- `mode::get_covariance` = `Minkowski::outer (mean, mean)` -/
def modeCov (s : Stokes α) : Mat 4 4 α := Minkowski.outer s s
/-- `mode::get_crosscovariance (ilag)`: zero for `ilag > 0`, the covariance at lag 0 -/
def modeXCov (cov : Mat 4 4 α) (ilag : Nat) : Mat 4 4 α := if ilag > 0 then Mat.ofScalar zero else cov

/-! ### sample means (`sample.cpp`), entry by entry (every matrix operation there is element-wise) -/

/-- `sample::get_covariance(mode*, n)` for one matrix entry: `c` is the mode's covariance entry,
`x l` its cross-covariance entry at instance lag `l`; `nSq` is the divisor `sample_size*sample_size`
as the source computes it -/
def sampleCovEntry (c : α) (x : Nat → α) (n : Nat) (nSq : α) : α :=
  let r0 := c * Arith.ofNat n
  let r := (List.range (n - 1)).foldl (fun acc k => acc + x (k+1) * (two * Arith.ofNat (n - (k+1)))) r0
  r / nSq
/-- `sample::get_crosscovariance(mode*, at_lag, n)` for one entry -/
def sampleXCovEntry (x : Nat → α) (lag n : Nat) (nSq : α) : α :=
  let r := (List.range n).foldl (fun acc i =>
    (List.range n).foldl (fun acc2 j =>
      let a := lag * n + i
      acc2 + x (if a ≥ j then a - j else j - a)) acc) zero
  r / nSq
/-- the divisor before the repair: `unsigned` product, modulo 2³² -/
def nSqWrapped (n : Nat) : α := Arith.ofNat ((n * n) % 4294967296)
/-- the divisor after the repair: `double(sample_size) * sample_size` -/
def nSqScalar (n : Nat) : α := (Arith.ofNat n : α) * Arith.ofNat n

/-! ### amplitude modulation (`modulated.h`) -/

/-- `modulated_mode::get_covariance`: `C (μ² + s²) + outer(S,S) s²` -/
def modulatedCov (c : Mat 4 4 α) (s : Stokes α) (mu var : α) : Mat 4 4 α :=
  fun i j => c i j * (mu*mu + var) + (s i * s j) * var
def modulatedMean (s : Stokes α) (mu : α) : Stokes α := fun i => mu * s i
/-- `modulated_mode::transform`: `sqrt(mod) * field`, `r` is the `sqrt(mod)` leaf -/
def modTransform (r : α) (e : Spinor α) : Spinor α := Spinor.smulR e r

/-- log-normal factor: `exp (log_sigma * (g - 0.5*log_sigma))`; `expF` is the leaf -/
def lognormalArg (logSigma g : α) : α := logSigma * (g - half * logSigma)

/-- boxcar smoothing state: ring buffer and write position -/
structure Boxcar (α : Type) where
  buf : List α
  cur : Nat
/-- `setup()`: `current = 0; instances.resize(smooth); for (i=1..smooth-1) instances[i] = source()` —
the first `smooth-1` draws fill slots `1 … smooth-1`; slot 0 is zero -/
def Boxcar.setup (w : Nat) (draws : List α) : Boxcar α := ⟨zero :: draws.take (w - 1), 0⟩
/-- one output: store the new draw at `cur`, advance, return the mean of the buffer -/
def Boxcar.step (w : Nat) (b : Boxcar α) (d : α) : Boxcar α × α :=
  let buf := b.buf.set b.cur d
  let sum := buf.foldl (· + ·) zero
  (⟨buf, (b.cur + 1) % w⟩, sum / Arith.ofNat w)
/-- the boxcar-modulated cross-covariance factor at lag `l`: `(w-l)/w * var` for `l < w` -/
def boxcarXCorr (w l : Nat) (var : α) : α :=
  if l ≥ w then zero else (Arith.ofNat (w - l) : α) / Arith.ofNat w * var

/-- sample-and-hold state (`square_modulated_mode`): `(current, value)` -/
structure Hold (α : Type) where
  cur : Nat
  value : α
/-- `modulation()`: refresh when `current == width`; `draw` is consumed only then -/
def Hold.step (w : Nat) (h : Hold α) (draw : α) : Hold α × α × Bool :=
  if h.cur == w then (⟨1, draw⟩, draw, true) else (⟨h.cur + 1, h.value⟩, h.value, false)

/-- `square_modulated_mode::compute_cross_correlation(sample_size)`: the table of within-sample
lag correlations, computed exactly as the nested loops of the source do (counts are small naturals;
only the final quotient is a scalar).  `fuel` bounds the two `while` loops. -/
def crossCorrelationTable (w n : Nat) : Array α := Id.run do
  if n ≤ w then return Array.replicate w one
  let mut matrix : Array Nat := Array.replicate (n*n) 0
  let mut cur := 0
  let mut populations := 0
  -- while (cur != width)
  for _ in [0:(w+1)] do
    if populations > 0 ∧ cur == w then break
    let mut ioff := 0
    -- while (ioff < sample_size)
    for _ in [0:(n+1)] do
      if ioff ≥ n then break
      let mut stop := w
      if ioff + stop > n then stop := n - ioff
      if cur == w then cur := 0
      -- for (; cur < end; cur++)
      for _ in [0:(w+1)] do
        if cur ≥ stop then break
        for col in [cur:stop] do
          let idx := ioff*n + (ioff + col - cur)
          matrix := matrix.modify idx (· + 1)
        ioff := ioff + 1
        cur := cur + 1
    populations := populations + 1
  let mut table : Array α := Array.replicate w zero
  for ilag in [0:w] do
    let nrow := n - ilag
    let mut sum := 0
    for irow in [0:nrow] do
      sum := sum + matrix[irow*n + (irow + ilag)]!
    table := table.set! ilag ((Arith.ofNat sum : α) / Arith.ofNat (nrow * populations))
  return table

/-- which repairs the current source contains -/
def currentNSqRepaired : Bool := true
def currentLag0Repaired : Bool := true

end Epsic.Sim
