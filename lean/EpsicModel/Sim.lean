import EpsicModel.Pauli
/-! The simulator library (`src/mode.cpp`, `sample.cpp`, `modulated.h`, `square_modulated_mode.cpp`,
`covariant.cpp`): field generation from explicit deviates, predicted moments, sample-mean statistics,
amplitude-modulation state machines. -/
namespace Epsic.Sim
open Epsic

variable {α : Type} [Arith α]

/-! ### a single mode (`mode.cpp`) -/

/-- `mode::set_Stokes`: `polarizer = convert (sqrt (natural (mean)))` -/
def setStokes (sqrtFn : α → R α) (o : Quat.OrdLeaves α) (b : Basis α) (s : Stokes α) : R (Jones α) := do
  let root ← Quat.sqrtH sqrtFn o (Pauli.natural b s)
  pure (Pauli.convertHR root)

/-- `mode::get_field`: four deviates, `rms = 0.5`: `x = (rms g0, rms g1)`, `y = (rms g2, rms g3)`, `polarizer * e` -/
def getField (polarizer : Jones α) (g : Vec 4 α) : Spinor α :=
  Spinor.apply polarizer ⟨⟨half * g 0, half * g 1⟩, ⟨half * g 2, half * g 3⟩⟩

/-- `mode::get_covariance` = `Minkowski::outer (mean, mean)` -/
def modeCov (s : Stokes α) : Mat 4 4 α := Minkowski.outer s s
/-- `mode::get_crosscovariance (ilag)`: zero for `ilag > 0`, the covariance at lag 0 -/
def modeXCov (cov : Mat 4 4 α) (ilag : Nat) : Mat 4 4 α := if ilag > 0 then Mat.ofScalar zero else cov

/-! ### sample means (`sample.cpp`), entry by entry (every matrix operation there is element-wise) -/

/-- `sample::get_covariance(mode*, n)` for one matrix entry: `c` is the mode's covariance entry,
`x l` its cross-covariance entry at instance lag `l`; `nSq` is the divisor `sample_size*sample_size`
as the source computes it -/
def sampleCovEntry (c : α) (x : Nat → α) (n : Nat) (nSq : α) : α :=
  let r0 := c * Arith.ofNat n
  let r := (List.range (n - 1)).foldl (fun acc k => acc + x (k+1) * (two * Arith.ofNat (n - (k+1)))) r0
  r / nSq
/-- `sample::get_crosscovariance(mode*, at_lag, n)` for one entry -/
def sampleXCovEntry (x : Nat → α) (lag n : Nat) (nSq : α) : α :=
  let r := (List.range n).foldl (fun acc i =>
    (List.range n).foldl (fun acc2 j =>
      let a := lag * n + i
      acc2 + x (if a ≥ j then a - j else j - a)) acc) zero
  r / nSq
/-- the divisor before the repair: `unsigned` product, modulo 2³² -/
def nSqWrapped (n : Nat) : α := Arith.ofNat ((n * n) % 4294967296)
/-- the divisor after the repair: `double(sample_size) * sample_size` -/
def nSqScalar (n : Nat) : α := (Arith.ofNat n : α) * Arith.ofNat n

/-! ### amplitude modulation (`modulated.h`) -/

/-- `modulated_mode::get_covariance`: `C (μ² + s²) + outer(S,S) s²` -/
def modulatedCov (c : Mat 4 4 α) (s : Stokes α) (mu var : α) : Mat 4 4 α :=
  fun i j => c i j * (mu*mu + var) + (s i * s j) * var
def modulatedMean (s : Stokes α) (mu : α) : Stokes α := fun i => mu * s i
/-- `modulated_mode::transform`: `sqrt(mod) * field`, `r` is the `sqrt(mod)` leaf -/
def modTransform (r : α) (e : Spinor α) : Spinor α := Spinor.smulR e r

/-- log-normal factor: `exp (log_sigma * (g - 0.5*log_sigma))`; `expF` is the leaf -/
def lognormalArg (logSigma g : α) : α := logSigma * (g - half * logSigma)

/-- boxcar smoothing state: ring buffer and write position -/
structure Boxcar (α : Type) where
  buf : List α
  cur : Nat
/-- `setup()`: `current = 0; instances.resize(smooth); for (i=1..smooth-1) instances[i] = source()` —
the first `smooth-1` draws fill slots `1 … smooth-1`; slot 0 is zero -/
def Boxcar.setup (w : Nat) (draws : List α) : Boxcar α := ⟨zero :: draws.take (w - 1), 0⟩
/-- one output: store the new draw at `cur`, advance, return the mean of the buffer -/
def Boxcar.step (w : Nat) (b : Boxcar α) (d : α) : Boxcar α × α :=
  let buf := b.buf.set b.cur d
  let sum := buf.foldl (· + ·) zero
  (⟨buf, (b.cur + 1) % w⟩, sum / Arith.ofNat w)
/-- the boxcar-modulated cross-covariance factor at lag `l`: `(w-l)/w * var` for `l < w` -/
def boxcarXCorr (w l : Nat) (var : α) : α :=
  if l ≥ w then zero else (Arith.ofNat (w - l) : α) / Arith.ofNat w * var

/-- sample-and-hold state (`square_modulated_mode`): `(current, value)` -/
structure Hold (α : Type) where
  cur : Nat
  value : α
/-- `modulation()`: refresh when `current == width`; `draw` is consumed only then -/
def Hold.step (w : Nat) (h : Hold α) (draw : α) : Hold α × α × Bool :=
  if h.cur == w then (⟨1, draw⟩, draw, true) else (⟨h.cur + 1, h.value⟩, h.value, false)

/-- `square_modulated_mode::compute_cross_correlation(sample_size)`: the table of within-sample
lag correlations, computed exactly as the nested loops of the source do (counts are small naturals;
only the final quotient is a scalar).  `fuel` bounds the two `while` loops. -/
def crossCorrelationTable (w n : Nat) : Array α := Id.run do
  if n ≤ w then return Array.replicate w one
  let mut matrix : Array Nat := Array.replicate (n*n) 0
  let mut cur := 0
  let mut populations := 0
  -- while (cur != width)
  for _ in [0:(w+1)] do
    if populations > 0 ∧ cur == w then break
    let mut ioff := 0
    -- while (ioff < sample_size)
    for _ in [0:(n+1)] do
      if ioff ≥ n then break
      let mut stop := w
      if ioff + stop > n then stop := n - ioff
      if cur == w then cur := 0
      -- for (; cur < end; cur++)
      for _ in [0:(w+1)] do
        if cur ≥ stop then break
        for col in [cur:stop] do
          let idx := ioff*n + (ioff + col - cur)
          matrix := matrix.modify idx (· + 1)
        ioff := ioff + 1
        cur := cur + 1
    populations := populations + 1
  let mut table : Array α := Array.replicate w zero
  for ilag in [0:w] do
    let nrow := n - ilag
    let mut sum := 0
    for irow in [0:nrow] do
      sum := sum + matrix[irow*n + (irow + ilag)]!
    table := table.set! ilag ((Arith.ofNat sum : α) / Arith.ofNat (nrow * populations))
  return table

/-! ### covariant mode pairs (`covariant.cpp`) -/

/-- `sqrt(Matrix<2,2>)`: `s = sqrt(det); t = sqrt(trace + 2 s); (C + s I)/t`; `clamp` is what is applied
to the determinant before the root (identity before the repair, `max(·,0)` after) -/
def sqrt22 (sqrtF : α → α) (clamp : α → α) (c00 c01 c10 c11 : α) : α × α × α × α :=
  let det := clamp (c00*c11 - c01*c10)
  let tr := c00 + c11
  let s := sqrtF det
  let t := sqrtF (tr + two*s)
  ((s + c00)/t, (zero + c01)/t, (zero + c10)/t, (s + c11)/t)

structure CovModel (α : Type) where
  ls0 : α
  ls1 : α
  m00 : α
  m01 : α
  m10 : α
  m11 : α

inductive BuildResult (α : Type) where
  | ok (m : CovModel α) | tooLarge | tooSmall

/-- `bivariate_lognormal_modes::build()`; `ls0, ls1` are the `log_sigma` values set by `set_beta` -/
def covBuild (expF logF sqrtF : α → α) (gt lt : α → α → Bool) (clamp : α → α) (rho ls0 ls1 : α) : BuildResult α :=
  let c00 := ls0*ls0
  let c11 := ls1*ls1
  let beta0 := sqrtF (expF c00 - one)
  let beta1 := sqrtF (expF c11 - one)
  let denom := beta0*beta1
  let maxC := (expF (ls0*ls1) - one) / denom
  let minC := (expF ((-ls0)*ls1) - one) / denom
  if gt rho maxC then .tooLarge
  else if lt rho minC then .tooSmall
  else
    let c01 := logF (rho*beta0*beta1 + one)
    let (a, b, c, d) := sqrt22 sqrtF clamp c00 c01 c01 c11
    .ok ⟨ls0, ls1, a, b, c, d⟩
/-- `get_modulation`: two deviates through the correlator, then `exp(· − ½ σ²)` -/
def covDraw (expF : α → α) (m : CovModel α) (g0 g1 : α) : α × α :=
  let a0 := (zero + m.m00*g0) + m.m01*g1
  let a1 := (zero + m.m10*g0) + m.m11*g1
  (expF (a0 - half*m.ls0*m.ls0), expF (a1 - half*m.ls1*m.ls1))

/-- the coordinator: pending queues of the two modes and the draws made so far -/
structure Coord (β : Type) where
  qA : List β
  qB : List β
  draws : List (β × β)
/-- `covariant_mode::modulation()` for mode `i` (`false` = A, `true` = B); `next` is the joint draw that
`coordinator->get()` would make now.  Returns the new state, the delivered value, whether a draw was made -/
def Coord.request {β : Type} (c : Coord β) (isB : Bool) (next : β × β) : Coord β × Option β × Bool :=
  let needDraw := if isB then c.qB.isEmpty else c.qA.isEmpty
  let c1 : Coord β := if needDraw then ⟨c.qA ++ [next.1], c.qB ++ [next.2], c.draws ++ [next]⟩ else c
  if isB then (⟨c1.qA, c1.qB.tail, c1.draws⟩, c1.qB.head?, needDraw)
  else (⟨c1.qA.tail, c1.qB, c1.draws⟩, c1.qA.head?, needDraw)

/-- the coordinator on a generator that a third consumer also draws from: `pos` deviates have been taken from the generator so
far, `starts` are the positions at which the joint draws began -/
structure Shared (β : Type) where
  c : Coord β
  gotA : List β
  gotB : List β
  pos : Nat
  starts : List Nat

def Shared.init {β : Type} : Shared β := ⟨⟨[], [], []⟩, [], [], 0, []⟩

/-- one step: `none` = the third consumer takes one deviate; `some isB` = a request from mode A / B, which makes the joint draw
`joint (d pos) (d (pos+1))` from the next two deviates of the stream `d` when its queue is empty -/
def sharedStep {β : Type} (d : Nat → β) (joint : β → β → β × β) (s : Shared β) : Option Bool → Shared β
  | none => { s with pos := s.pos + 1 }
  | some isB =>
    let r := s.c.request isB (joint (d s.pos) (d (s.pos + 1)))
    { c := r.1
      gotA := (match r.2.1 with | some x => if isB then s.gotA else s.gotA ++ [x] | none => s.gotA)
      gotB := (match r.2.1 with | some x => if isB then s.gotB ++ [x] else s.gotB | none => s.gotB)
      pos := if r.2.2 then s.pos + 2 else s.pos
      starts := if r.2.2 then s.starts ++ [s.pos] else s.starts }

def sharedRun {β : Type} (d : Nat → β) (joint : β → β → β × β) (ops : List (Option Bool)) : Shared β :=
  ops.foldl (sharedStep d joint) Shared.init

/-! ### dual-mode samples (`superposed.cpp`, `composite.cpp`, `disjoint.cpp`, `coherent.cpp`) -/

/-- what a (possibly decorated) mode reports -/
structure ModeTheory (α : Type) where
  mean : Stokes α
  cov : Mat 4 4 α
  xcov : Nat → Mat 4 4 α

def sampleCovM (m : ModeTheory α) (n : Nat) : Mat 4 4 α :=
  fun i j => sampleCovEntry (m.cov i j) (fun l => m.xcov l i j) n (nSqScalar n)
def sampleXCovM (m : ModeTheory α) (lag n : Nat) : Mat 4 4 α :=
  fun i j => sampleXCovEntry (fun l => m.xcov l i j) lag n (nSqScalar n)
def vouter (a b : Stokes α) : Mat 4 4 α := fun i j => a i * b j

/-- `combination::get_crosscovariance` for `ilag > 0` (lag 0 is the covariance) -/
def combinationXCov (a b : ModeTheory α) (lag n : Nat) : Mat 4 4 α :=
  fun i j => sampleXCovM a lag n i j + sampleXCovM b lag n i j

def superposedMean (a b : ModeTheory α) : Stokes α := fun i => a.mean i + b.mean i
/-- `superposed::get_covariance` (Eq. 42): `κ` is the covariance of the two unit-mean modulation factors -/
def superposedCov (a b : ModeTheory α) (kappa : α) (n : Nat) : Mat 4 4 α :=
  let f1 := (one + kappa) / Arith.ofNat n
  let f2 := kappa / Arith.ofNat n
  let x : Mat 4 4 α := fun i j => Minkowski.outer a.mean b.mean i j * f1 + vouter a.mean b.mean i j * f2
  fun i j => (sampleCovM a n i j + sampleCovM b n i j) + (x i j + x j i)

/-- the two instance counts of a composite sample: `nA = unsigned (A_fraction * sample_size)` is a leaf -/
def compositeCountB (repaired : Bool) (nA n : Nat) (buggy : Nat) : Nat := if repaired then n - nA else buggy
def currentCompositeCountsRepaired : Bool := true
def currentCompositeZeroGuard : Bool := true
def compositeMean (a b : ModeTheory α) (nA n : Nat) : Stokes α :=
  fun i => (a.mean i * Arith.ofNat nA + b.mean i * Arith.ofNat (n - nA)) / Arith.ofNat n
/-- `composite::get_covariance` (Eq. 59); `minF` is `std::min (f_A, f_B)` -/
def compositeCov (guard : Bool) (a b : ModeTheory α) (kappa : α) (nA n : Nat) : Mat 4 4 α :=
  let nB := n - nA
  let fA : α := Arith.ofNat nA / Arith.ofNat n
  let fB : α := Arith.ofNat nB / Arith.ofNat n
  let minF : α := Arith.ofNat (min nA nB) / Arith.ofNat n
  let cA : Mat 4 4 α := if guard && nA == 0 then (fun _ _ => zero) else sampleCovM a nA
  let cB : Mat 4 4 α := if guard && nB == 0 then (fun _ _ => zero) else sampleCovM b nB
  let e : Mat 4 4 α := fun i j => vouter a.mean b.mean i j * (minF * kappa / Arith.ofNat n)
  fun i j => ((cA i j * (fA * fA) + cB i j * (fB * fB)) + e i j) + e j i

def disjointMean (a b : ModeTheory α) (f : α) : Stokes α := fun i => f * a.mean i + (one - f) * b.mean i
/-- `disjoint::get_covariance` (Eq. 39) -/
def disjointCov (a b : ModeTheory α) (f : α) (n : Nat) : Mat 4 4 α :=
  let diff : Stokes α := fun i => a.mean i - b.mean i
  fun i j => (sampleCovM a n i j * f + sampleCovM b n i j * (one - f)) + vouter diff diff i j * (f * (one - f))
/-- `disjoint::get_crosscovariance` for `ilag > 0` -/
def disjointXCov (a b : ModeTheory α) (f : α) (lag : Nat) : Mat 4 4 α :=
  fun i j => a.xcov lag i j * (f * f) + b.xcov lag i j * ((one - f) * (one - f))

def coherentCov (a b : ModeTheory α) (n : Nat) : Mat 4 4 α :=
  let x : Mat 4 4 α := fun i j => Minkowski.outer a.mean b.mean i j / Arith.ofNat n
  fun i j => (sampleCovM a n i j + sampleCovM b n i j) + (x i j + x j i)

/-! generators on an explicit deviate stream (plain modes); `fieldOf P g` is one `get_field` -/
def stokesZero : Stokes α := fun _ => zero
def stokesAdd (a b : Stokes α) : Stokes α := fun i => a i + b i
def stokesDivN (a : Stokes α) (n : Nat) : Stokes α := fun i => a i / Arith.ofNat n
def take4 (l : List α) : Vec 4 α × List α :=
  let a := l.toArray
  ((fun i => a.getD i.val zero), l.drop 4)

/-- `superposed::get_Stokes`: per instance one field of A then one of B, detected together -/
def superposedStep (field : Jones α → Vec 4 α → Spinor α) (pA pB : Jones α) (acc : Stokes α × List α × Nat) (_ : Nat) :
    Stokes α × List α × Nat :=
  let gA := (take4 acc.2.1).1
  let r1 := (take4 acc.2.1).2
  let gB := (take4 r1).1
  let r2 := (take4 r1).2
  let e := Spinor.add (field pA gA) (field pB gB)
  (stokesAdd acc.1 (Spinor.computeStokes e), r2, acc.2.2 + 8)
def superposedGen (field : Jones α → Vec 4 α → Spinor α) (pA pB : Jones α) (n : Nat) (devs : List α) : Stokes α × Nat :=
  let r := (List.range n).foldl (superposedStep field pA pB) (stokesZero, devs, 0)
  (stokesDivN r.1 n, r.2.2)

/-- `composite::get_Stokes`: both modes draw in every iteration up to the larger count; an instance is
added only below the mode's own count -/
def compositeStep (field : Jones α → Vec 4 α → Spinor α) (pA pB : Jones α) (nA nB : Nat) (acc : Stokes α × List α × Nat) (i : Nat) :
    Stokes α × List α × Nat :=
  let gA := (take4 acc.2.1).1
  let r1 := (take4 acc.2.1).2
  let s1 := if i < nA then stokesAdd acc.1 (Spinor.computeStokes (field pA gA)) else acc.1
  let gB := (take4 r1).1
  let r2 := (take4 r1).2
  let s2 := if i < nB then stokesAdd s1 (Spinor.computeStokes (field pB gB)) else s1
  (s2, r2, acc.2.2 + 8)
def compositeGen (field : Jones α → Vec 4 α → Spinor α) (pA pB : Jones α) (nA nB n : Nat) (devs : List α) : Stokes α × Nat :=
  let r := (List.range (max nA nB)).foldl (compositeStep field pA pB nA nB) (stokesZero, devs, 0)
  (stokesDivN r.1 n, r.2.2)

/-- `disjoint::get_Stokes`: one uniform deviate selects the mode for the whole sample -/
def disjointStep (field : Jones α → Vec 4 α → Spinor α) (p : Jones α) (acc : Stokes α × List α × Nat) (_ : Nat) :
    Stokes α × List α × Nat :=
  let g := (take4 acc.2.1).1
  let r1 := (take4 acc.2.1).2
  (stokesAdd acc.1 (Spinor.computeStokes (field p g)), r1, acc.2.2 + 4)
def disjointGen (field : Jones α → Vec 4 α → Spinor α) (pA pB : Jones α) (selectA : Bool) (n : Nat) (devs : List α) : Stokes α × Nat :=
  let r := (List.range n).foldl (disjointStep field (if selectA then pA else pB)) (stokesZero, devs, 0)
  (stokesDivN r.1 n, r.2.2)

def currentSqrt22Clamped : Bool := true

/-- which repairs the current source contains -/
def currentNSqRepaired : Bool := true
def currentLag0Repaired : Bool := true

end Epsic.Sim
