import EpsicModel.Cx
/-! `Vector<N,T>` and `Matrix<R,C,T>` (`src/util/Vector.h`, `Matrix.h`) as functions on `Fin`.
Every loop of the C++ source is a left fold over `List.finRange`. -/
namespace Epsic

abbrev Vec (n : Nat) (α : Type) := Fin n → α
abbrev Mat (r c : Nat) (α : Type) := Fin r → Fin c → α

/-- `T r = 0; for (i<n) r += f i` -/
def sumFin {α : Type} [Arith α] (n : Nat) (f : Fin n → α) : α :=
  (List.finRange n).foldl (fun acc i => acc + f i) zero

def v2 {α : Type} (a b : α) : Vec 2 α := fun i => match i with | 0 => a | 1 => b
def v3 {α : Type} (a b c : α) : Vec 3 α := fun i => match i with | 0 => a | 1 => b | 2 => c
def v4 {α : Type} (a b c d : α) : Vec 4 α := fun i => match i with | 0 => a | 1 => b | 2 => c | 3 => d

namespace Vec
variable {α : Type} [Arith α] {n : Nat}

def zeroV : Vec n α := fun _ => zero
def add (a b : Vec n α) : Vec n α := fun i => a i + b i
def sub (a b : Vec n α) : Vec n α := fun i => a i - b i
def neg (a : Vec n α) : Vec n α := fun i => - a i
/-- `operator*=(scalar)` on a distinct scalar: `x[i] *= a` -/
def smul (a : Vec n α) (s : α) : Vec n α := fun i => a i * s
/-- `operator/=(scalar)` on a distinct scalar: `x[i] /= a` -/
def sdivRaw (a : Vec n α) (s : α) : Vec n α := fun i => a i / s
def sdiv (a : Vec n α) (s : α) : R (Vec n α) :=
  if n ≠ 0 ∧ Arith.isZero s then .error .div0 else .ok (sdivRaw a s)
/-- dot product `operator*(Vector,Vector)` -/
def dot (a b : Vec n α) : α := sumFin n (fun i => a i * b i)
/-- `Vector::basis(i)` -/
def basis (i : Fin n) : Vec n α := fun j => if j = i then one else zero
/-- `operator=(scalar)`: scalar in slot 0, zero elsewhere -/
def ofScalar (s : α) : Vec n α := fun j => if j.val = 0 then s else zero
/-- `normsq(Vector<N,T>)` for real `T`: sum of squares -/
def normsq (a : Vec n α) : α := sumFin n (fun i => a i * a i)
/-- `normsq(Vector<N,complex<T>>)` -/
def normsqC (a : Vec n (Cx α)) : α := sumFin n (fun i => (a i).norm)

/-- `cross(a,b)`: `result[i] = a[j]*b[k] - a[k]*b[j]`, `j=(i+1)%3`, `k=(i+2)%3` -/
def cross (a b : Vec 3 α) : Vec 3 α := fun i =>
  let j : Fin 3 := ⟨(i.val+1) % 3, Nat.mod_lt _ (by decide)⟩
  let k : Fin 3 := ⟨(i.val+2) % 3, Nat.mod_lt _ (by decide)⟩
  a j * b k - a k * b j

def toList (a : Vec n α) : List α := (List.finRange n).map a

end Vec

namespace Mat
variable {α : Type} [Arith α] {r c : Nat}

def zeroM : Mat r c α := fun _ _ => zero
/-- `Matrix (T s)`: zero, then `x[i][i] = s` for `i < Rows`.  Only defined (in bounds) when
`Rows ≤ Columns`; see `scalarWrites` for the index set the loop touches. -/
def ofScalar (s : α) : Mat r c α := fun i j => if i.val = j.val then s else zero
/-- the (row, column) pairs the scalar-constructor loop writes: `(i,i)` for `i < bound` -/
def scalarWrites (bound : Nat) : List (Nat × Nat) := (List.range bound).map (fun i => (i, i))
def identity {n : Nat} : Mat n n α := fun i j => if i = j then one else zero
def add (a b : Mat r c α) : Mat r c α := fun i j => a i j + b i j
def sub (a b : Mat r c α) : Mat r c α := fun i j => a i j - b i j
def neg (a : Mat r c α) : Mat r c α := fun i j => - a i j
def smul (a : Mat r c α) (s : α) : Mat r c α := fun i j => a i j * s
def sdivRaw (a : Mat r c α) (s : α) : Mat r c α := fun i j => a i j / s
def sdiv (a : Mat r c α) (s : α) : R (Mat r c α) :=
  if r ≠ 0 ∧ c ≠ 0 ∧ Arith.isZero s then .error .div0 else .ok (sdivRaw a s)
/-- matrix × vector: `r[i] = m[i] * b` (row dot products) -/
def mulVec (m : Mat r c α) (b : Vec c α) : Vec r α := fun i => Vec.dot (m i) b
/-- vector × matrix: `r[j] += m[i][j] * b[i]` -/
def vecMul (b : Vec r α) (m : Mat r c α) : Vec c α := fun j => sumFin r (fun i => m i j * b i)
/-- matrix product: `r[i][j] += a[i][k]*b[k][j]` -/
def mul {k : Nat} (a : Mat r k α) (b : Mat k c α) : Mat r c α :=
  fun i j => sumFin k (fun l => a i l * b l j)
def trace {n : Nat} (m : Mat n n α) : α := sumFin n (fun i => m i i)
def transpose (m : Mat r c α) : Mat c r α := fun j i => m i j
def herm (m : Mat r c (Cx α)) : Mat c r (Cx α) := fun j i => (m i j).conj
/-- `outer(a,b)`: `result[i][j] = a[i]*b[j]` -/
def outer (a : Vec r α) (b : Vec c α) : Mat r c α := fun i j => a i * b j

/-- index arithmetic of `direct`: `result[ar*Br+br][ac*Bc+bc] = a[ar][ac]*b[br][bc]` -/
def direct {ar ac br bc : Nat} (a : Mat ar ac α) (b : Mat br bc α) : Mat (ar*br) (ac*bc) α :=
  fun i j =>
    have hb : 0 < br := Nat.pos_of_ne_zero (fun h => by have := i.isLt; simp [h] at this)
    have hc : 0 < bc := Nat.pos_of_ne_zero (fun h => by have := j.isLt; simp [h] at this)
    a ⟨i.val / br, by
        exact Nat.div_lt_of_lt_mul (Nat.lt_of_lt_of_eq i.isLt (Nat.mul_comm _ _))⟩
      ⟨j.val / bc, by
        exact Nat.div_lt_of_lt_mul (Nat.lt_of_lt_of_eq j.isLt (Nat.mul_comm _ _))⟩
    * b ⟨i.val % br, Nat.mod_lt _ hb⟩ ⟨j.val % bc, Nat.mod_lt _ hc⟩

/-- `partition(A, ul, ur, bl, br)` -/
def partUL {u l b r' : Nat} (A : Mat (u+b) (l+r') α) : Mat u l α :=
  fun i j => A ⟨i.val, by omega⟩ ⟨j.val, by omega⟩
def partUR {u l b r' : Nat} (A : Mat (u+b) (l+r') α) : Mat u r' α :=
  fun i j => A ⟨i.val, by omega⟩ ⟨j.val + l, by omega⟩
def partBL {u l b r' : Nat} (A : Mat (u+b) (l+r') α) : Mat b l α :=
  fun i j => A ⟨i.val + u, by omega⟩ ⟨j.val, by omega⟩
def partBR {u l b r' : Nat} (A : Mat (u+b) (l+r') α) : Mat b r' α :=
  fun i j => A ⟨i.val + u, by omega⟩ ⟨j.val + l, by omega⟩
/-- `compose(A, ul, ur, bl, br)` -/
def compose {u l b r' : Nat} (ul : Mat u l α) (ur : Mat u r' α) (bl : Mat b l α) (br : Mat b r' α) :
    Mat (u+b) (l+r') α := fun i j =>
  if hi : i.val < u then
    if hj : j.val < l then ul ⟨i.val, hi⟩ ⟨j.val, hj⟩ else ur ⟨i.val, hi⟩ ⟨j.val - l, by omega⟩
  else
    if hj : j.val < l then bl ⟨i.val - u, by omega⟩ ⟨j.val, hj⟩
    else br ⟨i.val - u, by omega⟩ ⟨j.val - l, by omega⟩

/-- `DatumTraits<Matrix<R,C,T>>::element(t,i) = t[i/C][i%C]` -/
def datumIndex (r c : Nat) (i : Fin (r*c)) : Fin r × Fin c :=
  have hc : 0 < c := Nat.pos_of_ne_zero (fun h => by have := i.isLt; simp [h] at this)
  (⟨i.val / c, by exact Nat.div_lt_of_lt_mul (Nat.lt_of_lt_of_eq i.isLt (Nat.mul_comm _ _))⟩,
   ⟨i.val % c, Nat.mod_lt _ hc⟩)

/-- materialise a matrix (driver efficiency only; `memo m = m`) -/
def memo (m : Mat r c α) : Mat r c α :=
  let arr : Array (Array α) := Array.ofFn (fun i : Fin r => Array.ofFn (fun j : Fin c => m i j))
  fun i j => (arr[i.val]?.bind (fun row => row[j.val]?)).getD (m i j)

def toList (m : Mat r c α) : List α := (List.finRange r).flatMap (fun i => (List.finRange c).map (m i))

/-- a matrix as stored data: the function representation re-evaluates its defining expression at every
lookup, so a model that iterates (the Jacobi solver) stores its matrices between steps.
`thaw (freeze m) = m` (`thaw_freeze`): storing changes nothing but the running time of the driver. -/
structure Frozen (r c : Nat) (α : Type) where
  arr : Array (Array α)
def freeze (m : Mat r c α) : Frozen r c α := ⟨Array.ofFn (fun i : Fin r => Array.ofFn (fun j : Fin c => m i j))⟩
def thaw (f : Frozen r c α) : Mat r c α := fun i j => ((f.arr[i.val]?).bind (fun row => row[j.val]?)).getD zero
@[simp] theorem thaw_freeze (m : Mat r c α) : thaw (freeze m) = m := by
  funext i j
  simp [thaw, freeze, i.isLt, j.isLt]

/-- `rotation(v, radians)` with `s = sin`, `c = cos` and `u = 1.0 - c` as leaves (all three are
computed in `double` by the C++; the matrix entries are then formed in the scalar type `T`) -/
def rotationU (v : Vec 3 α) (s c u : α) : Mat 3 3 α :=
  let r0 := v3 (v 0*v 0*u + c)     (v 1*v 0*u - v 2*s) (v 2*v 0*u + v 1*s)
  let r1 := v3 (v 0*v 1*u + v 2*s) (v 1*v 1*u + c)     (v 2*v 1*u - v 0*s)
  let r2 := v3 (v 0*v 2*u - v 1*s) (v 1*v 2*u + v 0*s) (v 2*v 2*u + c)
  fun i => match i with | 0 => r0 | 1 => r1 | 2 => r2
def rotation (v : Vec 3 α) (s c : α) : Mat 3 3 α := rotationU v s c (one - c)

end Mat
end Epsic
