import EpsicModel.Cx
/-! `Jones<T>` (`src/util/Jones.h`): four complex numbers `j00 j01 j10 j11`. -/
namespace Epsic

structure Jones (α : Type) where
  j00 : Cx α
  j01 : Cx α
  j10 : Cx α
  j11 : Cx α
deriving Repr, BEq, DecidableEq

namespace Jones
variable {α : Type} [Arith α]

/-- `Jones (T scalar)` / `operator=(T)` / `operator=(complex)` -/
def ofScalar (s : Cx α) : Jones α := ⟨s, zero, zero, s⟩
def identity : Jones α := ⟨one, zero, zero, one⟩
def zeroJ : Jones α := ⟨zero, zero, zero, zero⟩

def add (a b : Jones α) : Jones α := ⟨a.j00+b.j00, a.j01+b.j01, a.j10+b.j10, a.j11+b.j11⟩
def sub (a b : Jones α) : Jones α := ⟨a.j00-b.j00, a.j01-b.j01, a.j10-b.j10, a.j11-b.j11⟩
def neg (a : Jones α) : Jones α := ⟨-a.j00, -a.j01, -a.j10, -a.j11⟩

/-- `operator*=(const Jones&)` on distinct operands, hence `operator*` (which copies `a`). -/
def mul (a b : Jones α) : Jones α :=
  let t0 := a.j00 * b.j00 + a.j01 * b.j10
  let n01 := a.j00 * b.j01 + a.j01 * b.j11
  let t1 := a.j10 * b.j00 + a.j11 * b.j10
  let n11 := a.j10 * b.j01 + a.j11 * b.j11
  ⟨t0, n01, t1, n11⟩

instance : Add (Jones α) := ⟨add⟩
instance : Sub (Jones α) := ⟨sub⟩
instance : Mul (Jones α) := ⟨mul⟩
instance : Neg (Jones α) := ⟨neg⟩

/-- `operator*=(std::complex)` -/
def smulC (c : Cx α) (a : Jones α) : Jones α := ⟨a.j00*c, a.j01*c, a.j10*c, a.j11*c⟩
/-- `operator/=(std::complex)`: `a = 1; a /= au; j.. *= a` -/
def sdivC (a : Jones α) (c : Cx α) : R (Jones α) := do
  let r ← Cx.div one c
  pure (smulC r a)
/-- `operator*=(T)`: `std::complex<T>::operator*=(T)` scales both parts -/
def smulR (s : α) (a : Jones α) : Jones α :=
  ⟨⟨a.j00.re*s, a.j00.im*s⟩, ⟨a.j01.re*s, a.j01.im*s⟩, ⟨a.j10.re*s, a.j10.im*s⟩, ⟨a.j11.re*s, a.j11.im*s⟩⟩
/-- `operator/=(T)`: `d = 1.0/a; j.. *= d` -/
def sdivR (a : Jones α) (s : α) : R (Jones α) := do
  let d ← sdiv one s
  pure (smulR d a)

def det (j : Jones α) : Cx α := j.j00*j.j11 - j.j01*j.j10
def trace (j : Jones α) : Cx α := j.j00 + j.j11
def norm (j : Jones α) : α := j.j00.norm + j.j01.norm + j.j10.norm + j.j11.norm
def conj (j : Jones α) : Jones α := ⟨j.j00.conj, j.j01.conj, j.j10.conj, j.j11.conj⟩
def herm (j : Jones α) : Jones α := ⟨j.j00.conj, j.j10.conj, j.j01.conj, j.j11.conj⟩

/-- `inv(Jones)`: `d = 1/det; (d*j11, -d*j01, -d*j10, d*j00)` -/
def inv (j : Jones α) : R (Jones α) := do
  let d ← Cx.div one j.det
  pure ⟨d*j.j11, (-d)*j.j01, (-d)*j.j10, d*j.j00⟩

def isDiagonal [DecidableEq α] (j : Jones α) : Bool :=
  decide (j.j01 = (zero : Cx α)) && decide (j.j10 = (zero : Cx α))

/-- argument of the square root in `Jones::p()` : `1 - 4 d/(tr*tr)` with real parts -/
def pSq (j : Jones α) : R α := do
  let tr := j.trace.re
  let d := j.det.re
  let q ← sdiv ((two*two)*d) (tr*tr)
  pure (one - q)

/-- storage order: the four members are laid out `j00 j01 j10 j11` -/
def toList (j : Jones α) : List (Cx α) := [j.j00, j.j01, j.j10, j.j11]
/-- `operator[](n)`: `(&j00)[n]` -/
def get (j : Jones α) (n : Fin 4) : Cx α :=
  match n with | 0 => j.j00 | 1 => j.j01 | 2 => j.j10 | 3 => j.j11
def set (j : Jones α) (n : Fin 4) (v : Cx α) : Jones α :=
  match n with
  | 0 => {j with j00 := v} | 1 => {j with j01 := v} | 2 => {j with j10 := v} | 3 => {j with j11 := v}
/-- `operator()(ir,ic)`: `(&j00)[ir*2+ic]` -/
def rcIndex (ir ic : Fin 2) : Fin 4 := ⟨ir.val*2+ic.val, by omega⟩
def get2 (j : Jones α) (ir ic : Fin 2) : Cx α := j.get (rcIndex ir ic)

end Jones
end Epsic
