import EpsicModel.Vec
/-! `Quaternion<T,B>` (`src/util/Quaternion.h`).  One structure for real quaternions (`β = α`)
and biquaternions (`β = Cx α`); the basis tag `B` selects among the `…H` / `…U` functions. -/
namespace Epsic

structure Quat (β : Type) where
  s0 : β
  s1 : β
  s2 : β
  s3 : β
deriving Repr, BEq, DecidableEq

namespace Quat
variable {β : Type} [Arith β]

def ofScalar (a : β) : Quat β := ⟨a, zero, zero, zero⟩
def identity : Quat β := ⟨one, zero, zero, zero⟩
def add (a b : Quat β) : Quat β := ⟨a.s0+b.s0, a.s1+b.s1, a.s2+b.s2, a.s3+b.s3⟩
def sub (a b : Quat β) : Quat β := ⟨a.s0-b.s0, a.s1-b.s1, a.s2-b.s2, a.s3-b.s3⟩
def neg (a : Quat β) : Quat β := ⟨-a.s0, -a.s1, -a.s2, -a.s3⟩
/-- `operator+=(const T&)`: scalar addition touches `s0` only -/
def addScalar (a : Quat β) (s : β) : Quat β := ⟨a.s0+s, a.s1, a.s2, a.s3⟩
def subScalar (a : Quat β) (s : β) : Quat β := ⟨a.s0-s, a.s1, a.s2, a.s3⟩
/-- `operator*=(const T&)` with a distinct scalar -/
def smul (a : Quat β) (s : β) : Quat β := ⟨a.s0*s, a.s1*s, a.s2*s, a.s3*s⟩
/-- `operator/=(const T&)`: `d = 1; d /= a; s_i *= d` (`recip` is the scalar type's `1/a`) -/
def sdivWith (recip : β → R β) (a : Quat β) (s : β) : R (Quat β) := do
  let d ← recip s
  pure (smul a d)

instance : Add (Quat β) := ⟨add⟩
instance : Sub (Quat β) := ⟨sub⟩
instance : Neg (Quat β) := ⟨neg⟩

/-- product in the Unitary basis (any scalar type) -/
def mulU (a b : Quat β) : Quat β :=
  ⟨a.s0*b.s0 - a.s1*b.s1 - a.s2*b.s2 - a.s3*b.s3,
   a.s0*b.s1 + a.s1*b.s0 - a.s2*b.s3 + a.s3*b.s2,
   a.s0*b.s2 + a.s1*b.s3 + a.s2*b.s0 - a.s3*b.s1,
   a.s0*b.s3 - a.s1*b.s2 + a.s2*b.s1 + a.s3*b.s0⟩

def detH (j : Quat β) : β := j.s0*j.s0 - j.s1*j.s1 - j.s2*j.s2 - j.s3*j.s3
def detU (j : Quat β) : β := j.s0*j.s0 + j.s1*j.s1 + j.s2*j.s2 + j.s3*j.s3
/-- `trace = 2.0 * s0` -/
def trace (j : Quat β) : β := two * j.s0
/-- `norm` of a real quaternion: `2 Σ s_i²` -/
def normR (j : Quat β) : β := two * (j.s0*j.s0 + j.s1*j.s1 + j.s2*j.s2 + j.s3*j.s3)

/-- `inv`: `d = -1/det; (-d s0, d s1, d s2, d s3)`; `recipNeg x = -1/x` -/
def invWith (recipNeg : β → R β) (det : Quat β → β) (j : Quat β) : R (Quat β) := do
  let d ← recipNeg (det j)
  pure ⟨(-d)*j.s0, d*j.s1, d*j.s2, d*j.s3⟩

def toList (q : Quat β) : List β := [q.s0, q.s1, q.s2, q.s3]
def get (q : Quat β) (n : Fin 4) : β := match n with | 0 => q.s0 | 1 => q.s1 | 2 => q.s2 | 3 => q.s3
def set (q : Quat β) (n : Fin 4) (v : β) : Quat β :=
  match n with
  | 0 => {q with s0 := v} | 1 => {q with s1 := v} | 2 => {q with s2 := v} | 3 => {q with s3 := v}
def getVector (q : Quat β) : Vec 3 β := v3 q.s1 q.s2 q.s3
def ofScalarVector (s : β) (v : Vec 3 β) : Quat β := ⟨s, v 0, v 1, v 2⟩

end Quat

/-! ### real quaternions -/
namespace Quat
variable {α : Type} [Arith α]

def recipR (x : α) : R α := sdiv one x
def recipNegR (x : α) : R α := sdiv (-one) x
def sdivR (a : Quat α) (s : α) : R (Quat α) := sdivWith recipR a s
def invHR (j : Quat α) : R (Quat α) := invWith recipNegR detH j
def invUR (j : Quat α) : R (Quat α) := invWith recipNegR detU j
/-- `conj` of a real Hermitian quaternion: `myconj` is the identity on reals -/
def conjHR (j : Quat α) : Quat α := ⟨j.s0, j.s1, j.s2, -j.s3⟩
def conjUR (j : Quat α) : Quat α := ⟨j.s0, -j.s1, -j.s2, j.s3⟩
def hermHR (j : Quat α) : Quat α := j
def hermUR (j : Quat α) : Quat α := ⟨j.s0, -j.s1, -j.s2, -j.s3⟩

/-! ### biquaternions -/

def recipC (x : Cx α) : R (Cx α) := Cx.div one x
def recipNegC (x : Cx α) : R (Cx α) := Cx.div (-one) x
def sdivC (a : Quat (Cx α)) (s : Cx α) : R (Quat (Cx α)) := sdivWith recipC a s
def invHC (j : Quat (Cx α)) : R (Quat (Cx α)) := invWith recipNegC detH j
def invUC (j : Quat (Cx α)) : R (Quat (Cx α)) := invWith recipNegC detU j

/-- product of two biquaternions in the Hermitian basis -/
def mulH (a b : Quat (Cx α)) : Quat (Cx α) :=
  ⟨a.s0*b.s0 + a.s1*b.s1 + a.s2*b.s2 + a.s3*b.s3,
   a.s0*b.s1 + a.s1*b.s0 + (a.s2*b.s3).ci - (a.s3*b.s2).ci,
   a.s0*b.s2 - (a.s1*b.s3).ci + a.s2*b.s0 + (a.s3*b.s1).ci,
   a.s0*b.s3 + (a.s1*b.s2).ci - (a.s2*b.s1).ci + a.s3*b.s0⟩

def realQ (j : Quat (Cx α)) : Quat α := ⟨j.s0.re, j.s1.re, j.s2.re, j.s3.re⟩
def imagQ (j : Quat (Cx α)) : Quat α := ⟨j.s0.im, j.s1.im, j.s2.im, j.s3.im⟩
def ofReal (j : Quat α) : Quat (Cx α) := ⟨.ofReal j.s0, .ofReal j.s1, .ofReal j.s2, .ofReal j.s3⟩
def conjHC (j : Quat (Cx α)) : Quat (Cx α) := ⟨j.s0.conj, j.s1.conj, j.s2.conj, -j.s3.conj⟩
def conjUC (j : Quat (Cx α)) : Quat (Cx α) := ⟨j.s0.conj, -j.s1.conj, -j.s2.conj, j.s3.conj⟩
def hermHC (j : Quat (Cx α)) : Quat (Cx α) := ⟨j.s0.conj, j.s1.conj, j.s2.conj, j.s3.conj⟩
def hermUC (j : Quat (Cx α)) : Quat (Cx α) := ⟨j.s0.conj, -j.s1.conj, -j.s2.conj, -j.s3.conj⟩
/-- `norm` of a biquaternion: `2 Σ |s_i|²` -/
def normC (j : Quat (Cx α)) : α := two * (j.s0.norm + j.s1.norm + j.s2.norm + j.s3.norm)
/-- scalar multiple of a biquaternion by a real (`T * Quaternion<complex<T>>` is not used by the
library; `complex * biquaternion` is) -/
def smulC (a : Quat (Cx α)) (s : Cx α) : Quat (Cx α) := smul a s

/-! ### `sqrt(Quaternion<T,Hermitian>)` and `eigen` with the square root as a leaf -/

/-- order leaves used by `sqrt` and `eigen`: `x < 0`, `x ≤ y`, and `numeric_limits<T>::epsilon()` -/
structure OrdLeaves (α : Type) where
  ltZero : α → Bool
  le : α → α → Bool
  eps : α

/-- the determinant as `sqrt(h)` uses it: a value that is negative only by rounding
(`-d ≤ 4 ε s0²`) is replaced by zero -/
def clampDet (o : OrdLeaves α) (d s0 : α) : α :=
  if o.ltZero d && o.le (-d) ((two*two) * o.eps * s0 * s0) then zero else d

/-- `sqrt(h)` with the computed determinant as an explicit argument (so that theorems can
quantify over every value the floating-point subtraction might produce): `d` clamped;
`root_det = sqrt(d); scalar = sqrt(0.5*(s0+root_det)); if (scalar == 0) return 0;
return (scalar, vector/(2*scalar))` -/
def sqrtHWith (sqrtFn : α → R α) (o : OrdLeaves α) (dComputed : α) (h : Quat α) : R (Quat α) := do
  let rootDet ← sqrtFn (clampDet o dComputed h.s0)
  let scalar ← sqrtFn (half * (h.s0 + rootDet))
  if Arith.eq0 scalar then
    pure (ofScalar zero)
  else
    let d := two * scalar
    pure ⟨scalar, h.s1 / d, h.s2 / d, h.s3 / d⟩
/-- `sqrt(Quaternion<T,Hermitian>)`: the determinant is `det(h)` -/
def sqrtH (sqrtFn : α → R α) (o : OrdLeaves α) (h : Quat α) : R (Quat α) := sqrtHWith sqrtFn o (detH h) h

/-- `eigen(q)`: `p = norm(vector)`; identity when `p == 0`; otherwise two branches selected by
`q.s1 < 0 && q.s0 != 0`; in the second branch `p + s1` is evaluated as `(s2²+s3²)/(p-s1)` when
`s1 < 0` (reached only for `s0 == 0`), with the exact `-s1` axis mapped to the exchange rotation -/
def eigenH (sqrtFn : α → R α) (ltZero : α → Bool) (q : Quat α) : R (Quat α) := do
  let p ← sqrtFn (Vec.normsq q.getVector)
  if Arith.eq0 p then pure ⟨one, zero, zero, zero⟩
  else if ltZero q.s1 && !(Arith.eq0 q.s0) then
    let r ← sqrtFn (two*p*(p - q.s1))
    let m ← sdiv one r
    pure ⟨m*q.s3, (-m)*q.s2, (-m)*(p - q.s1), zero⟩
  else
    let perp := q.s2*q.s2 + q.s3*q.s3
    if ltZero q.s1 && Arith.eq0 perp then pure ⟨zero, zero, -one, zero⟩
    else
      let sum ← if ltZero q.s1 then sdiv perp (p - q.s1) else pure (p + q.s1)
      let r ← sqrtFn (two*p*sum)
      let m ← sdiv one r
      pure ⟨m*sum, zero, (-m)*q.s3, m*q.s2⟩

end Quat
end Epsic
