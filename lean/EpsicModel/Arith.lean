/-! Abstract scalar for the epsic model (core Lean only; no Mathlib).

The C++ templates of `src/util` are generic in their scalar type `T`.  The model is generic in
`α` with the operations collected in `Arith α`.  Instances:
* core `Rat` – exact; used by the compiled driver and compared for *equality* with the real
  templates instantiated at an exact GMP rational;
* `Float` – IEEE double; used by the driver for the double-only simulator code;
* any `Field K` (`EpsicProofs/FieldArith.lean`) – used by the theorems.
-/
namespace Epsic

/-- Error results shared by model and harness. -/
inductive Err where
  | div0 | sqrtNeg | sqrtIrr | singular1 | singular2 | domain | throw (msg : String)
deriving Repr, DecidableEq

def Err.toString : Err → String
  | .div0 => "div0" | .sqrtNeg => "sqrt-neg" | .sqrtIrr => "sqrt-irrational"
  | .singular1 => "singular1" | .singular2 => "singular2" | .domain => "domain"
  | .throw m => "throw:" ++ m

abbrev R (α : Type) := Except Err α

/-- The scalar operations the C++ templates use.  `isZero` is the test that decides whether a
division is an error in exact arithmetic (for `Float` it is constantly `false`: IEEE division
never traps). -/
class Arith (α : Type) extends Add α, Sub α, Mul α, Neg α, Div α where
  zero : α
  one : α
  two : α
  half : α
  isZero : α → Bool
  /-- the C++ test `x == 0` (a genuine comparison for every instance) -/
  eq0 : α → Bool
  /-- conversion of an `unsigned` / `int` count to the scalar type -/
  ofNat : Nat → α

export Arith (zero one two half)

instance : Arith Rat where
  zero := 0
  one := 1
  two := 2
  half := 1/2
  isZero x := x == 0
  eq0 x := x == 0
  ofNat n := (n : Rat)

instance : Arith Float where
  zero := 0
  one := 1
  two := 2
  half := 0.5
  isZero _ := false
  eq0 x := x == 0
  ofNat n := Float.ofNat n

/-- Division with the guard the exact-arithmetic C++ instantiation enforces. -/
def sdiv {α : Type} [Arith α] (a b : α) : R α :=
  if Arith.isZero b then .error .div0 else .ok (a / b)

end Epsic
