import EpsicModel.Arith
/-! Compound assignment under aliasing (property C16).

A C++ compound operator is transcribed as a sequence of assignments on a *store* (`Nat → α`,
slot ↦ scalar).  The destination object occupies slots `0 … n-1`; the right-hand operand is
given by the slot(s) it lives in, so the same program text covers "distinct object" (slots
`≥ n`) and every aliasing pattern (slots `< n`).  A scalar parameter taken **by value** is read
once before the loop (`Mode.val`); one taken **by reference** is re-read in every statement
(`Mode.ref`). -/
namespace Epsic.Alias

/-- a store: slot ↦ scalar.  (A structure rather than a bare function so that the compiled driver
evaluates every assigned value once, when the assignment is executed.) -/
structure Store (α : Type) where
  get : Nat → α

def upd {α : Type} (s : Store α) (i : Nat) (v : α) : Store α := ⟨fun j => if j = i then v else s.get j⟩

inductive Mode where
  | ref | val
deriving Repr, DecidableEq, BEq

/-- `for (i<n) x[i] = f (x[i], a)` where `a` lives in slot `a` -/
def loopScalar {α : Type} (m : Mode) (f : α → α → α) (n a : Nat) (s : Store α) : Store α :=
  match m with
  | .ref => (List.range n).foldl (fun st i => upd st i (f (st.get i) (st.get a))) s
  | .val => let v := s.get a; (List.range n).foldl (fun st i => upd st i (f (st.get i) v)) s

/-- `for (i<n) x[i] = f (x[i], y[i])` where `y` occupies slots `off … off+n-1` -/
def loopZip {α : Type} (f : α → α → α) (n off : Nat) (s : Store α) : Store α :=
  (List.range n).foldl (fun st i => upd st i (f (st.get i) (st.get (off + i)))) s

/-- reference semantics of the binary operators: every read refers to the original store -/
def binScalar {α : Type} (f : α → α → α) (n a : Nat) (s : Store α) : Store α :=
  ⟨fun i => if i < n then f (s.get i) (s.get a) else s.get i⟩
def binZip {α : Type} (f : α → α → α) (n off : Nat) (s : Store α) : Store α :=
  ⟨fun i => if i < n then f (s.get i) (s.get (off + i)) else s.get i⟩

section programs
variable {α : Type} [Arith α]

/-- `Vector::operator*=(const U& a)`, inherited by `Stokes` and (nested) by `Matrix` -/
def vecMulAssign (m : Mode) := loopScalar (α := α) m (· * ·)
/-- `Vector::operator/=(const U& a)` -/
def vecDivAssign (m : Mode) := loopScalar (α := α) m (· / ·)
/-- `Vector::operator+=(const Vector&)`, `-=` -/
def vecAddAssign := loopZip (α := α) (· + ·)
def vecSubAssign := loopZip (α := α) (· - ·)

/-- `Quaternion::operator*=(const T& a)`: `s0*=a; s1*=a; s2*=a; s3*=a` -/
def quatMulScalar (m : Mode) := loopScalar (α := α) m (· * ·) 4
/-- `Quaternion::operator/=(const T& a)`: `d = 1; d /= a;` then `s_i *= d` (always a snapshot) -/
def quatDivScalar (a : Nat) (s : Store α) : Store α :=
  let d := Arith.one / s.get a
  (List.range 4).foldl (fun st i => upd st i (st.get i * d)) s
/-- `Quaternion::operator+=(const T& s)`: `s0 += s` -/
def quatAddScalar (a : Nat) (s : Store α) : Store α := upd s 0 (s.get 0 + s.get a)
def quatSubScalar (a : Nat) (s : Store α) : Store α := upd s 0 (s.get 0 - s.get a)

/-- `Jones::operator*=(const Jones& j)` as written before the repair:
`temp = j00*j.j00 + j01*j.j10; j01 = j00*j.j01 + j01*j.j11; j00 = temp;
 temp = j10*j.j00 + j11*j.j10; j11 = j10*j.j01 + j11*j.j11; j10 = temp;`
Slots 0..3 hold `j00 j01 j10 j11` (any scalar type with `+ *`); the operand is in slots
`o … o+3`. -/
def jonesMulAssignSeq (o : Nat) (s : Store α) : Store α :=
  let t := s.get 0 * s.get o + s.get 1 * s.get (o+2)
  let s1 := upd s 1 (s.get 0 * s.get (o+1) + s.get 1 * s.get (o+3))
  let s2 := upd s1 0 t
  let t2 := s2.get 2 * s2.get o + s2.get 3 * s2.get (o+2)
  let s3 := upd s2 3 (s2.get 2 * s2.get (o+1) + s2.get 3 * s2.get (o+3))
  upd s3 2 t2
/-- the repaired form: all four products are formed from the original values first -/
def jonesMulAssignTmp (o : Nat) (s : Store α) : Store α :=
  let t00 := s.get 0 * s.get o + s.get 1 * s.get (o+2)
  let t01 := s.get 0 * s.get (o+1) + s.get 1 * s.get (o+3)
  let t10 := s.get 2 * s.get o + s.get 3 * s.get (o+2)
  let t11 := s.get 2 * s.get (o+1) + s.get 3 * s.get (o+3)
  upd (upd (upd (upd s 0 t00) 1 t01) 2 t10) 3 t11
/-- the binary product read from the original store -/
def jonesMulBin (o : Nat) (s : Store α) : Store α := ⟨fun i =>
  if i = 0 then s.get 0 * s.get o + s.get 1 * s.get (o+2)
  else if i = 1 then s.get 0 * s.get (o+1) + s.get 1 * s.get (o+3)
  else if i = 2 then s.get 2 * s.get o + s.get 3 * s.get (o+2)
  else if i = 3 then s.get 2 * s.get (o+1) + s.get 3 * s.get (o+3)
  else s.get i⟩

/-- `Estimate` : slot 0 = val, slot 1 = var; operand in slots `o`, `o+1` -/
def estAddAssign (o : Nat) (s : Store α) : Store α :=
  let s1 := upd s 0 (s.get 0 + s.get o)
  upd s1 1 (s1.get 1 + s1.get (o+1))
def estSubAssign (o : Nat) (s : Store α) : Store α :=
  let s1 := upd s 0 (s.get 0 - s.get o)
  upd s1 1 (s1.get 1 + s1.get (o+1))
/-- `var = val*val*d.var + d.val*d.val*var; val *= d.val` -/
def estMulAssign (o : Nat) (s : Store α) : Store α :=
  let s1 := upd s 1 (s.get 0 * s.get 0 * s.get (o+1) + s.get o * s.get o * s.get 1)
  upd s1 0 (s1.get 0 * s1.get o)
def estAddBin (o : Nat) (s : Store α) : Store α := ⟨fun i =>
  if i = 0 then s.get 0 + s.get o else if i = 1 then s.get 1 + s.get (o+1) else s.get i⟩
def estSubBin (o : Nat) (s : Store α) : Store α := ⟨fun i =>
  if i = 0 then s.get 0 - s.get o else if i = 1 then s.get 1 + s.get (o+1) else s.get i⟩
def estMulBin (o : Nat) (s : Store α) : Store α := ⟨fun i =>
  if i = 0 then s.get 0 * s.get o else if i = 1 then s.get 0 * s.get 0 * s.get (o+1) + s.get o * s.get o * s.get 1 else s.get i⟩

end programs

/-- which parameter mode the *current* source of /repo uses (flipped by the `fix:` commits) -/
def currentVectorScalarMode : Mode := .val
def currentQuatScalarMode : Mode := .val
def currentJonesMulSequential : Bool := false

end Epsic.Alias
