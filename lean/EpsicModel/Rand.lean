import EpsicModel.Arith
/-! Random sources (`src/util/BoxMuller.C`, `src/util/random.C`, `src/util/random.h`,
`random_value(Stokes)` of `src/util/Stokes.h`).  Core Lean only.

The generator is modelled over an explicit uniform stream (`List U`): the C++ code calls `drand48()`
/ `random()`, the model pops the head of the list.  The floating-point leaves of one Box–Muller pair
are collected in `PairOps`, so the stream logic is proved for every choice of them and run by the
driver with the IEEE single/double precision instance `floatOps`. -/
namespace Epsic.Rand

/-- leaves of the polar method: the rejection test and the two deviates of an accepted pair -/
structure PairOps (U D : Type) where
  reject : U → U → Bool
  first : U → U → D
  second : U → U → D

section stream
variable {U D : Type}

/-- the `do … while (w >= 1.0)` loop: consume uniforms two at a time until a pair is accepted -/
def drawPair (ops : PairOps U D) : List U → Option (D × D × List U)
  | u1 :: u2 :: rest => if ops.reject u1 u2 then drawPair ops rest else some (ops.first u1 u2, ops.second u1 u2, rest)
  | _ => none

/-- `BoxMuller::evaluate`: the state is `have_one_ready ? some one_ready : none` -/
def evaluate (ops : PairOps U D) (st : Option D) (us : List U) : Option (D × Option D × List U) :=
  match st with
  | some d => some (d, none, us)
  | none => match drawPair ops us with
    | some (a, b, rest) => some (a, some b, rest)
    | none => none

/-- `n` successive calls on one generator; stops early when the uniform stream is exhausted -/
def calls (ops : PairOps U D) : Nat → Option D → List U → List D × Option D × List U
  | 0, st, us => ([], st, us)
  | n+1, st, us => match evaluate ops st us with
    | none => ([], st, us)
    | some (d, st', us') => let r := calls ops n st' us'; (d :: r.1, r.2)

/-- specification: every deviate obtainable from a uniform stream, in order -/
def deviates (ops : PairOps U D) : List U → List D
  | u1 :: u2 :: rest => if ops.reject u1 u2 then deviates ops rest else ops.first u1 u2 :: ops.second u1 u2 :: deviates ops rest
  | _ => []
/-- the accepted pairs of a uniform stream -/
def accepted (ops : PairOps U D) : List U → List (D × D)
  | u1 :: u2 :: rest => if ops.reject u1 u2 then accepted ops rest else (ops.first u1 u2, ops.second u1 u2) :: accepted ops rest
  | _ => []

/-- two generators sharing one uniform source; `false` = generator A, `true` = generator B.
Returns the tagged outputs, the log of (generator, accepted pair) draws, the final states and stream. -/
structure Two (D U : Type) where
  outA : List D := []
  outB : List D := []
  log : List (Bool × D × D) := []
  stA : Option D := none
  stB : Option D := none
  us : List U
  stuck : Bool := false

def Two.step (ops : PairOps U D) (t : Two D U) (isB : Bool) : Two D U :=
  if t.stuck then t else
  match (if isB then t.stB else t.stA) with
  | some d => if isB then { t with outB := t.outB ++ [d], stB := none } else { t with outA := t.outA ++ [d], stA := none }
  | none => match drawPair ops t.us with
    | none => { t with stuck := true }
    | some (a, b, rest) =>
      if isB then { t with outB := t.outB ++ [a], stB := some b, us := rest, log := t.log ++ [(true, a, b)] }
      else { t with outA := t.outA ++ [a], stA := some b, us := rest, log := t.log ++ [(false, a, b)] }
def Two.run (ops : PairOps U D) (us : List U) (pat : List Bool) : Two D U := pat.foldl (Two.step ops) { us := us }
end stream

/-! ## the floating-point leaves of `BoxMuller::evaluate`

`float v1 = 2.0*drand48() - 1.0` (double arithmetic, rounded to single on assignment);
`w = v1*v1 + v2*v2` (single); `w = sqrt((-2.0 * log(w)) / w)`: `log` of a `float` argument in C++
is `logf`, the product and quotient are double, the result is rounded to single. -/
def toV (u : Float) : Float32 := (2.0 * u - 1.0).toFloat32
def wOf (v1 v2 : Float32) : Float32 := v1 * v1 + v2 * v2
def factor (w : Float32) : Float32 := (Float.sqrt ((-2.0 * (Float32.log w).toFloat) / w.toFloat)).toFloat32
/-- `while (w >= 1.0 || w == 0.0)` since the repair (before: `w >= 1.0` only, and the centre of the
square produced `log(0)/0`) -/
def currentRejectsZero : Bool := true
def rejectW (rejectsZero : Bool) (w : Float32) : Bool := decide (w ≥ 1.0) || (rejectsZero && w == 0.0)
def floatOps : PairOps Float Float32 where
  reject u1 u2 := rejectW currentRejectsZero (wOf (toV u1) (toV u2))
  first u1 u2 := toV u1 * factor (wOf (toV u1) (toV u2))
  second u1 u2 := toV u2 * factor (wOf (toV u1) (toV u2))

/-! ## `drand48`: the 48-bit linear congruential generator of SVID/POSIX -/
def lcgA : Nat := 0x5DEECE66D
def lcgC : Nat := 0xB
/-- `srand48(seed)`: high 32 bits from the seed's low 32 bits, low 16 bits `0x330E` -/
def srand48 (seed : Int) : Nat := ((seed % 4294967296).toNat) * 65536 + 0x330E
def lcgNext (x : Nat) : Nat := (lcgA * x + lcgC) % 281474976710656
/-- first `n` states after seeding -/
def lcgStates : Nat → Nat → List Nat
  | 0, _ => []
  | n+1, x => lcgNext x :: lcgStates n (lcgNext x)
/-- `drand48()` returns the new state scaled by `2^-48` (exact in double) -/
def lcgToFloat (x : Nat) : Float := Float.ofNat x / 281474976710656.0
/-- `BoxMuller(seed)` seeds the source only for a non-zero seed -/
def ctorSeeds (seed : Int) : Option Int := if seed = 0 then none else some seed

/-! ## `random_double`, `random_value`, `random_value(Stokes)` -/
section values
variable {α : Type} [Arith α]
/-- `double(random()) / RAND_MAX` -/
def randomDouble (r rmax : α) : α := r / rmax
/-- `(random_double() - 0.5) * 2.0 * scale` -/
def randomValue (u scale : α) : α := (u - half) * two * scale
/-- the sanity check of `random_value(Stokes)`: `invariant < -1e-10 * I * I` throws (before the repair
the tolerance was the absolute `-1e-10`).  The code now takes `max(1e-10, 64 eps_T)` for the element type `T` of the
vector; this is the `T = double` instance, for which the maximum is `1e-10`; the single-precision instantiations are
covered by an implementation oracle only (`o.c18.scaletypes`) -/
def stokesThrows (inv i : Float) : Bool := decide (inv < -1e-10 * i * i)
/-- the intermediate quantities of `random_value (Stokes<T>&, scale, max_polarization)` -/
structure StokesDraw (α : Type) where
  s : Fin 4 → α
  fraction : α
  modp : α
  invariant : α
def sqrVect (v1 v2 v3 : α) : α := v1*v1 + v2*v2 + v3*v3
def randomStokes (sqrtF : α → α) (u0 u1 u2 u3 scale maxpol : α) : StokesDraw α :=
  let fp := (randomValue u0 half + half) * maxpol
  -- the direction is drawn at unit scale (before the repair: at `scale`, whose square under/overflows)
  let v1 := randomValue u1 one
  let v2 := randomValue u2 one
  let v3 := randomValue u3 one
  let modp := sqrtF (sqrVect v1 v2 v3)
  let sc := scale * (fp / modp)
  let p1 := v1 * sc
  let p2 := v2 * sc
  let p3 := v3 * sc
  { s := fun i => match i with | 0 => scale | 1 => p1 | 2 => p2 | 3 => p3,
    fraction := fp, modp := modp, invariant := scale*scale - sqrVect p1 p2 p3 }
end values

end Epsic.Rand
