import EpsicModel.Arith
import EpsicModel.Cx
import EpsicModel.Jones
import EpsicModel.Vec
import EpsicModel.Quat
import EpsicModel.Pauli
import EpsicModel.Alias
import EpsicModel.Gauss
