import EpsicDriver.OpsSim
import EpsicDriver.OpsRand
/-! Model side of harness group "simreal" (`harness/h_simreal.cpp`): the covariant coordinator on the real Box-Muller generator,
shared with a third consumer.  The model is the composition of the Box-Muller stream model (`Rand.calls`, group "rand") with the
coordinator model on a shared position counter (`Sim.sharedRun`, the subject of `C08.shared_pairing`). -/
namespace Epsic.Driver
open Epsic Epsic.Sim Epsic.Rand

def opsSimReal : List (String × Rd (List String)) := [
  ("cov.shared", do
      let rho ← hexFloat; let b0 ← hexFloat; let b1 ← hexFloat; let pat ← tok
      let us ← restFloats
      let ops : List (Option Bool) := pat.toList.map (fun ch => if ch == 'x' then none else some (ch == 'B'))
      let ls0 := logSigmaOf b0; let ls1 := logSigmaOf b1
      match covBuild Float.exp Float.log Float.sqrt (fun a b => a > b) (fun a b => a < b) clampCur rho ls0 ls1 with
      | .tooLarge => throw (.throw "bivariate_lognormal_modes::build maximum correlation exceeded")
      | .tooSmall => throw (.throw "bivariate_lognormal_modes::build minimum correlation exceeded")
      | .ok m =>
        -- how many deviates the interleaving takes does not depend on their values
        let total := (sharedRun (fun _ => (0.0 : Float)) (fun a b => (a, b)) ops).pos
        let r := calls floatOps total none us
        if r.1.length < total then exhausted "uniform-exhausted" else
        let dv := r.1.toArray
        let d : Nat → Float := fun p => (dv.getD p 0.0).toFloat
        let s := sharedRun d (covDraw Float.exp m) ops
        -- delivered factors back in request order
        let (outs, _, _) := ops.foldl (fun (acc : List Float × Nat × Nat) op =>
          match op with
          | none => acc
          | some false => (acc.1 ++ [s.gotA.getD acc.2.1 0.0], acc.2.1 + 1, acc.2.2)
          | some true => (acc.1 ++ [s.gotB.getD acc.2.2 0.0], acc.2.1, acc.2.2 + 1)) ([], 0, 0)
        pure (outs.map hx ++ [toString (us.length - r.2.2.length)]))]
end Epsic.Driver
