import EpsicDriver.OpsSim
import EpsicModel.Cli
/-! Model side of harness group "cli" (`harness/h_cli.cpp`): `cli.run <cfg> @ <argv…> # <lexeme=hex …>`.
The model reads only the argument vector and the table of numeric conversions. -/
namespace Epsic.Driver
open Epsic Epsic.Sim Epsic.Cli

def splitAt (l : List String) (sep : String) : List String × List String :=
  (l.takeWhile (· != sep), (l.dropWhile (· != sep)).drop 1)

def lookupNum (tab : List (String × Float)) (s : String) : Float :=
  match tab.find? (fun p => p.1 == s) with | some p => p.2 | none => 0.0
def atoiStr (s : String) : Nat := (s.toList.takeWhile Char.isDigit).foldl (fun a c => a*10 + (c.toNat - 48)) 0
def leavesF (tab : List (String × Float)) : Leaves Float where
  atof := lookupNum tab
  atoi := atoiStr
  scan4 s :=
    match s.splitOn "," with
    | [a, b, c, d] => if [a, b, c, d].all (fun x => tab.any (fun p => p.1 == x)) then
        some (fun i => match i with | 0 => lookupNum tab a | 1 => lookupNum tab b | 2 => lookupNum tab c | 3 => lookupNum tab d) else none
    | _ => none
  invalid v := Float.sqrt ((v 1 * v 1 + v 2 * v 2) + v 3 * v 3) > v 0

def kindOfStack (n : Nat) : Stack Float → ModKind
  | .plain => .plain
  | .modulated b => .lognormal b
  | .boxcar b w => .boxcar b w
  | .square b w => .square b w n
def effVar (covariant : Bool) (s : Setup Float) : Float :=
  let eff := if covariant && s.beta == 0.0 then 1.0 else s.beta
  lnVar (logSigmaOf eff)

def dualTok : Dual Float → String
  | .none => "none" | .superposed => "superposed"
  | .composite f => "composite:" ++ hx f | .disjoint f => "disjoint:" ++ hx f | .coherent c => "coherent:" ++ hx c
def setupToks (s : Setup Float) : List String :=
  vecHex s.mean ++ [hx s.beta, toString s.smoothMod, toString s.squareMod]
def cfgToks (c : Config Float) : List String :=
  [dualTok c.dual, toString c.nint, toString c.nlag, (match c.rho with | some r => hx r | none => "none")] ++ setupToks c.a ++ setupToks c.b

def theoryToks (c : Config Float) : List String :=
  let cov := c.rho.isSome
  let n := c.nint
  let a := modeTheoryOf (kindOfStack n (stackOf cov c.a)) c.a.mean
  let b := modeTheoryOf (kindOfStack n (stackOf cov c.b)) c.b.mean
  let kappa : Float := match c.rho with | some r => r * Float.sqrt (effVar true c.a * effVar true c.b) | none => 0.0
  let lags (covm : Mat 4 4 Float) (x : Nat → Mat 4 4 Float) : List String :=
    (List.range c.nlag).flatMap (fun l => matHex (if l == 0 then covm else x l))
  match c.dual with
  | .none =>
    let covm := sampleCovM a n
    vecHex a.mean ++ matHex covm ++ (List.range c.nlag).flatMap (fun l => matHex (sampleXCovM a l n))
  | .superposed =>
    let covm := superposedCov a b kappa n
    vecHex (superposedMean a b) ++ matHex covm ++ lags covm (fun l => combinationXCov a b l n)
  | .composite f =>
    let nA := truncU (f * Float.ofNat n)
    let covm := compositeCov currentCompositeZeroGuard a b kappa nA n
    vecHex (compositeMean a b nA n) ++ matHex covm ++ lags covm (fun l => combinationXCov a b l n)
  | .disjoint f =>
    let covm := disjointCov a b f n
    vecHex (disjointMean a b f) ++ matHex covm ++ lags covm (fun l => disjointXCov a b f l)
  | .coherent _ =>
    let covm := coherentCov a b n
    vecHex (superposedMean a b) ++ matHex covm ++ lags covm (fun l => combinationXCov a b l n)

def opsCli : List (String × Rd (List String)) := [
  ("cli.run", do
    let all ← get
    set ([] : List String)
    let (_, rest) := splitAt all "@"
    let (argv, tabToks) := splitAt rest "#"
    let tab : List (String × Float) := tabToks.filterMap (fun t =>
      match t.splitOn "=" with
      | [l, h] => (parseHex64? h).map (fun u => (l, Float.ofBits u))
      | _ => none)
    match tokenize argv with
    | none => perr "argv outside the modelled getopt forms"
    | some opts =>
      match run (leavesF tab) Config.default opts with
      | .ok c => pure (cfgToks c ++ theoryToks c)
      | .invalidStokes => pure ["reject"]
      | .parseError => pure ["parse-error"]
      | .usage => pure ["usage"])
]
end Epsic.Driver
