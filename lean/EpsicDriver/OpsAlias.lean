import EpsicDriver.Proto
/-! Model side of harness group "alias" (`harness/h_alias.cpp`): the aliasing IR of
`EpsicModel/Alias.lean` executed on the same operands.  Every op prints the store after the
compound assignment followed by the binary-operator reference result. -/
namespace Epsic.Driver
open Epsic Epsic.Alias

def mkStore {α : Type} [Inhabited α] (l : List α) : Store α := let a := l.toArray; ⟨fun i => a[i]!⟩
def readStore {α : Type} (s : Store α) (n : Nat) : List α := (List.range n).map s.get
def flatC (l : List (Cx Rat)) : List Rat := l.flatMap (fun z => [z.re, z.im])

/-- scalar compound op on a flat container of `n` rationals; alias slot `k` (`k ≥ n`: distinct) -/
def scalarOp (n : Nat) (mode : Mode) : Rd (List Rat) := do
  let op ← tok; let k ← nat
  let v ← listOf n rat
  let extra ← if k ≥ n then (do let e ← rat; pure [e]) else pure []
  let a := if k ≥ n then n else k
  let s := mkStore (v ++ extra)
  if op == "div" && s.get a == 0 then throw .div0
  let (r, b) ← match op with
    | "mul" => pure (vecMulAssign mode n a s, binScalar (· * ·) n a s)
    | "div" => pure (vecDivAssign mode n a s, binScalar (· / ·) n a s)
    | _ => perr "op"
  pure (readStore r n ++ readStore b n)

def zipOp (n : Nat) : Rd (List Rat) := do
  let op ← tok; let al ← tok
  let v ← listOf n rat
  let other ← if al == "same" then pure [] else listOf n rat
  let off := if al == "same" then 0 else n
  let s := mkStore (v ++ other)
  let (r, b) ← match op with
    | "add" => pure (vecAddAssign n off s, binZip (· + ·) n off s)
    | "sub" => pure (vecSubAssign n off s, binZip (· - ·) n off s)
    | _ => perr "op"
  pure (readStore r n ++ readStore b n)

def jonesMulCur (o : Nat) (s : Store (Cx Rat)) : Store (Cx Rat) :=
  if currentJonesMulSequential then jonesMulAssignSeq o s else jonesMulAssignTmp o s

def opsAlias : List (String × OpFn) := [
  ("al.vec", do let n ← nat; scalarOp n currentVectorScalarMode),
  ("al.vecvec", do let n ← nat; zipOp n),
  ("al.mat", do let r ← nat; let c ← nat; scalarOp (r*c) currentVectorScalarMode),
  ("al.matmat", do let r ← nat; let c ← nat; zipOp (r*c)),
  ("al.stokes", scalarOp 4 currentVectorScalarMode),
  ("al.stokesvec", zipOp 4),
  ("al.fracpol", do
      let v ← listOf 4 rat
      let s := mkStore v
      if s.get 0 == 0 then throw .div0
      pure (readStore (vecDivAssign currentVectorScalarMode 4 0 s) 4 ++ readStore (binScalar (· / ·) 4 0 s) 4)),
  ("al.jones", do
      let op ← tok; let al ← tok
      let j ← listOf 4 cx
      let other ← if al == "same" then pure [] else listOf 4 cx
      let off := if al == "same" then 0 else 4
      let s := mkStore (j ++ other)
      let (r, b) ← match op with
        | "add" => pure (loopZip (· + ·) 4 off s, binZip (· + ·) 4 off s)
        | "sub" => pure (loopZip (· - ·) 4 off s, binZip (· - ·) 4 off s)
        | "mul" => pure (jonesMulCur off s, jonesMulBin off s)
        | _ => perr "op"
      pure (flatC (readStore r 4) ++ flatC (readStore b 4))),
  ("al.jonesc", do
      -- `operator*=(const std::complex<U>& au)` copies `au` first; `/=` forms `1/au` first
      let op ← tok; let k ← nat
      let j ← listOf 4 cx
      let extra ← if k ≥ 4 then (do let e ← cx; pure [e]) else pure []
      let a := if k ≥ 4 then 4 else k
      let s := mkStore (j ++ extra)
      match op with
      | "mul" => pure (flatC (readStore (loopScalar .val (· * ·) 4 a s) 4) ++ flatC (readStore (binScalar (· * ·) 4 a s) 4))
      | "div" => do
          let d ← liftR (Cx.div one (s.get a))
          let r : Store (Cx Rat) := ⟨fun i => if i < 4 then s.get i * d else s.get i⟩
          pure (flatC (readStore r 4) ++ flatC (readStore r 4))
      | _ => perr "op"),
  ("al.jonesr", do
      let op ← tok; let k ← nat
      let j ← jones
      let extra ← if k ≥ 8 then rat else pure 0
      let parts := flat j
      let c := if k ≥ 8 then extra else parts.getD k 0
      match op with
      | "mul" => pure (flat (j.smulR c) ++ flat (j.smulR c))
      | "div" => do let r ← liftR (j.sdivR c); pure (flat r ++ flat r)
      | _ => perr "op"),
  ("al.quat", do
      let op ← tok; let k ← nat
      let q ← listOf 4 rat
      let extra ← if k ≥ 4 then (do let e ← rat; pure [e]) else pure []
      let a := if k ≥ 4 then 4 else k
      let s := mkStore (q ++ extra)
      let (r, b) ← match op with
        | "muls" => pure (quatMulScalar currentQuatScalarMode a s, binScalar (· * ·) 4 a s)
        | "divs" => if s.get a == 0 then throw .div0 else
            pure (quatDivScalar a s, binScalar (fun x y => x * (1 / y)) 4 a s)
        | "adds" => pure (quatAddScalar a s, ⟨fun i => if i = 0 then s.get 0 + s.get a else s.get i⟩)
        | "subs" => pure (quatSubScalar a s, ⟨fun i => if i = 0 then s.get 0 - s.get a else s.get i⟩)
        | _ => perr "op"
      pure (readStore r 4 ++ readStore b 4)),
  ("al.quatq", do
      let op ← tok; let al ← tok
      let q ← quat
      let other ← if al == "same" then pure q else quat
      let r ← match op with
        | "add" => pure (q + other) | "sub" => pure (q - other) | "mul" => pure (Quat.mulU q other)
        | _ => perr "op"
      pure (flat r ++ flat r)),
  ("al.biquat", do
      let op ← tok; let k ← nat
      let q ← listOf 4 cx
      let extra ← if k ≥ 4 then (do let e ← cx; pure [e]) else pure []
      let a := if k ≥ 4 then 4 else k
      let s := mkStore (q ++ extra)
      match op with
      | "muls" => pure (flatC (readStore (quatMulScalar currentQuatScalarMode a s) 4) ++ flatC (readStore (binScalar (· * ·) 4 a s) 4))
      | "divs" => do
          let d ← liftR (Cx.div one (s.get a))
          let r : Store (Cx Rat) := ⟨fun i => if i < 4 then s.get i * d else s.get i⟩
          pure (flatC (readStore r 4) ++ flatC (readStore r 4))
      | _ => perr "op"),
  ("al.biquatq", do
      let op ← tok; let al ← tok
      let q ← biquat
      let other ← if al == "same" then pure q else biquat
      let r ← match op with
        | "add" => pure (q + other) | "sub" => pure (q - other) | "mul" => pure (Quat.mulH q other)
        | _ => perr "op"
      pure (flat r ++ flat r)),
  ("al.est", do
      let op ← tok; let al ← tok
      let v ← listOf 2 rat
      let other ← if al == "same" then pure [] else listOf 2 rat
      let off := if al == "same" then 0 else 2
      let s := mkStore (v ++ other)
      let (r, b) ← match op with
        | "add" => pure (estAddAssign off s, estAddBin off s)
        | "sub" => pure (estSubAssign off s, estSubBin off s)
        | "mul" => pure (estMulAssign off s, estMulBin off s)
        | "div" => do
            -- `operator/=(d)` is `operator*=(d.inverse())`: the inverse is a temporary
            if s.get off == 0 then throw .div0
            let iv := 1 / s.get off
            let s' := mkStore ([s.get 0, s.get 1, iv, s.get (off+1) * iv*iv*iv*iv])
            pure (estMulAssign 2 s', estMulBin 2 s')
        | _ => perr "op"
      pure (readStore r 2 ++ readStore b 2)),
  ("al.spinor", do
      let op ← tok; let al ← tok
      let e ← listOf 2 cx
      let other ← if al == "same" then pure [] else listOf 2 cx
      let off := if al == "same" then 0 else 2
      let s := mkStore (e ++ other)
      if op != "add" then perr "op" else
      pure (flatC (readStore (loopZip (· + ·) 2 off s) 2) ++ flatC (readStore (binZip (· + ·) 2 off s) 2))),
  ("al.spinors", do
      -- scalar taken by value; `x *= scale` / `x /= norm` scale both parts of each component
      let op ← tok; let k ← nat
      let v ← listOf 4 rat
      let extra ← if k ≥ 4 then rat else pure 0
      let c := if k ≥ 4 then extra else v.getD k 0
      match op with
      | "mul" => let r := v.map (· * c); pure (r ++ r)
      | "div" => if c == 0 then throw .div0 else let r := v.map (· / c); pure (r ++ r)
      | _ => perr "op"),
  ("al.spinorc", do
      -- complex scalar taken by value: every component is multiplied by the same copy
      let k ← nat
      let e ← listOf 2 cx
      let extra ← if k ≥ 2 then cx else pure (⟨0, 0⟩ : Cx Rat)
      let c : Cx Rat := if k ≥ 2 then extra else e.getD k ⟨0, 0⟩
      let r := e.map (· * c)
      pure (flatC r ++ flatC r))
]

end Epsic.Driver
