import EpsicDriver.Proto
import EpsicModel.TrueMath
/-! Model side of harness group "tm" (`harness/h_tm.cpp`). -/
namespace Epsic.Driver
open Epsic.TrueMath

def parseHexNat? (s : String) : Option Nat :=
  s.toList.foldlM (fun (acc : Nat) c => (hexDigit? c).map (fun d => acc*16 + d)) 0
def bits (n : Nat) : Rd (BitVec n) := do
  let t ← tok
  match parseHexNat? t with | some v => pure (BitVec.ofNat n v) | none => perr ("bad hex " ++ t)
def b01 (b : Bool) : String := if b then "1" else "0"

def opsTm : List (String × Rd (List String)) := [
  ("tm.d", do let x ← bits 64; pure [b01 (finite64 x), b01 (signbit64 x)]),
  ("tm.f", do let x ← bits 32; pure [b01 (finite32 x), b01 (signbit32 x)]),
  ("tm.ld", do let x ← bits 80; pure [b01 (finite80 x), b01 (signbit80 x)]),
  ("tm.cx", do let l ← listOf 2 (bits 64); pure [b01 (finiteAll finite64 l)]),
  ("tm.cxf", do let l ← listOf 2 (bits 32); pure [b01 (finiteAll finite32 l)]),
  ("tm.vec", do let n ← nat; let l ← listOf n (bits 64); pure [b01 (finiteAll finite64 l)]),
  ("tm.cvec", do let l ← listOf 4 (bits 64); pure [b01 (finiteAll finite64 l)]),
  ("tm.jones", do let l ← listOf 8 (bits 64); pure [b01 (finiteAll finite64 l)]),
  ("tm.est", do let v ← bits 64; let r ← bits 64; pure [b01 (finiteEst finite64 v r)]),
  ("tm.estf", do let v ← bits 32; let r ← bits 32; pure [b01 (finiteEst finite32 v r)]),
  ("tm.estld", do let v ← bits 80; let r ← bits 80; pure [b01 (finiteEst finite80 v r)]),
  -- the same predicates on literals written at the call site: the line carries the index of the literal (used by the
  -- harness) and its bit pattern (used here)
  ("tm.cvecf", do let l ← listOf 4 (bits 32); pure [b01 (finiteAll finite32 l)]),
  ("tm.cvecld", do let l ← listOf 4 (bits 80); pure [b01 (finiteAll finite80 l)]),
  ("tm.cstokes", do let l ← listOf 8 (bits 64); pure [b01 (finiteAll finite64 l)]),
  ("tm.stokes", do let l ← listOf 4 (bits 64); pure [b01 (finiteAll finite64 l)]),
  ("tm.stokesf", do let l ← listOf 4 (bits 32); pure [b01 (finiteAll finite32 l)]),
  ("tm.mat23", do let l ← listOf 6 (bits 64); pure [b01 (finiteAll finite64 l)]),
  ("tm.mat22", do let l ← listOf 4 (bits 64); pure [b01 (finiteAll finite64 l)]),
  ("tm.vecvec", do let l ← listOf 4 (bits 64); pure [b01 (finiteAll finite64 l)]),
  ("tm.kd", do let _ ← nat; let x ← bits 64; pure [b01 (finite64 x), b01 (signbit64 x)]),
  ("tm.kf", do let _ ← nat; let x ← bits 32; pure [b01 (finite32 x), b01 (signbit32 x)]),
  ("tm.kld", do let _ ← nat; let x ← bits 80; pure [b01 (finite80 x), b01 (signbit80 x)]),
  ("tm.kest", do let _ ← nat; let x ← bits 64; let o ← bits 64; pure [b01 (finiteEst finite64 x o), b01 (finiteEst finite64 o x)]),
  ("tm.kestf", do let _ ← nat; let x ← bits 32; let o ← bits 32; pure [b01 (finiteEst finite32 x o), b01 (finiteEst finite32 o x)]),
  ("tm.kcx", do let _ ← nat; let x ← bits 64; let o ← bits 64; pure [b01 (finiteAll finite64 [x, o]), b01 (finiteAll finite64 [o, x])])
]
end Epsic.Driver
