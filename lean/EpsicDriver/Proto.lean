import EpsicModel
/-! Line protocol of the model driver: token reader, exact rational printing, exact square roots. -/
namespace Epsic.Driver
open Epsic

/-- print like GMP's `mpq_class::get_str`: `p/q`, or `p` when `q = 1` -/
def ratStr (r : Rat) : String :=
  if r.den == 1 then toString r.num else toString r.num ++ "/" ++ toString r.den

def parseInt? (s : String) : Option Int :=
  if s.startsWith "-" then (s.drop 1).toNat?.map (fun n => - (Int.ofNat n))
  else if s.startsWith "+" then (s.drop 1).toNat?.map Int.ofNat
  else s.toNat?.map Int.ofNat

def parseRat? (s : String) : Option Rat :=
  match s.splitOn "/" with
  | [a] => (parseInt? a).map (fun n => (n : Rat))
  | [a, b] => do
      let n ← parseInt? a
      let d ← b.toNat?
      if d == 0 then none else some (mkRat n d)
  | _ => none

/-- exact dyadic value of an IEEE double given by its 16-hex-digit bit pattern -/
def bitsToRat (u : UInt64) : Option Rat :=
  let sign : Bool := (u >>> 63) != 0
  let e : Nat := ((u >>> 52) &&& 0x7ff).toNat
  let m : Nat := (u &&& 0xfffffffffffff).toNat
  if e == 0x7ff then none else
  let (mant, ex) : Nat × Int := if e == 0 then (m, -1074) else (m + 2^52, (e : Int) - 1075)
  let v : Rat := if ex ≥ 0 then ((mant * 2^ex.toNat : Nat) : Rat) else mkRat (mant : Int) (2^((-ex).toNat))
  some (if sign then -v else v)

def hexDigit? (c : Char) : Option Nat :=
  if '0' ≤ c ∧ c ≤ '9' then some (c.toNat - '0'.toNat)
  else if 'a' ≤ c ∧ c ≤ 'f' then some (c.toNat - 'a'.toNat + 10)
  else if 'A' ≤ c ∧ c ≤ 'F' then some (c.toNat - 'A'.toNat + 10)
  else none

def parseHex64? (s : String) : Option UInt64 :=
  s.toList.foldlM (fun (acc : Nat) c => (hexDigit? c).map (fun d => acc*16 + d)) 0 |>.map (fun n => UInt64.ofNat n)

abbrev Rd := StateT (List String) (Except Err)

def perr {α : Type} (m : String) : Rd α := throw (.throw ("protocol:" ++ m))

def tok : Rd String := do
  match (← get) with
  | [] => perr "missing argument"
  | t :: ts => set ts; pure t

def rat : Rd Rat := do
  let t ← tok
  match parseRat? t with | some r => pure r | none => perr ("bad rational " ++ t)
def nat : Rd Nat := do
  let t ← tok
  match t.toNat? with | some r => pure r | none => perr ("bad nat " ++ t)
def hexRat : Rd Rat := do
  let t ← tok
  match (parseHex64? t).bind bitsToRat with | some r => pure r | none => perr ("bad hex double " ++ t)
def hexFloat : Rd Float := do
  let t ← tok
  match parseHex64? t with | some u => pure (Float.ofBits u) | none => perr ("bad hex double " ++ t)
def fin (n : Nat) : Rd (Fin n) := do
  let k ← nat
  if h : k < n then pure ⟨k, h⟩ else perr "index out of range"
def cx : Rd (Cx Rat) := do let a ← rat; let b ← rat; pure ⟨a, b⟩
def jones : Rd (Jones Rat) := do let a ← cx; let b ← cx; let c ← cx; let d ← cx; pure ⟨a, b, c, d⟩
def quat : Rd (Quat Rat) := do let a ← rat; let b ← rat; let c ← rat; let d ← rat; pure ⟨a, b, c, d⟩
def biquat : Rd (Quat (Cx Rat)) := do let a ← cx; let b ← cx; let c ← cx; let d ← cx; pure ⟨a, b, c, d⟩
def listOf {α : Type} (n : Nat) (rd : Rd α) : Rd (List α) := (List.range n).mapM (fun _ => rd)
def vecOf {α : Type} [Inhabited α] (n : Nat) (rd : Rd α) : Rd (Vec n α) := do
  let l ← listOf n rd
  let arr := l.toArray
  pure (fun i => arr[i.val]!)
def vec (n : Nat) : Rd (Vec n Rat) := vecOf n rat
instance : Inhabited (Cx Rat) := ⟨⟨0, 0⟩⟩
def cvec (n : Nat) : Rd (Vec n (Cx Rat)) := vecOf n cx
def matOf {α : Type} [Inhabited α] (r c : Nat) (rd : Rd α) : Rd (Mat r c α) := do
  let l ← listOf (r*c) rd
  let arr := l.toArray
  pure (fun i j => arr[i.val*c + j.val]!)
def mat (r c : Nat) : Rd (Mat r c Rat) := matOf r c rat
def cmat (r c : Nat) : Rd (Mat r c (Cx Rat)) := matOf r c cx
def liftR {α : Type} (x : R α) : Rd α := match x with | .ok v => pure v | .error e => throw e

/-! output flattening -/
class Flat (α : Type) where
  flat : α → List Rat
export Flat (flat)
instance : Flat Rat := ⟨fun r => [r]⟩
instance : Flat Bool := ⟨fun b => [if b then 1 else 0]⟩
instance : Flat Nat := ⟨fun n => [(n : Rat)]⟩
instance : Flat (Cx Rat) := ⟨fun z => [z.re, z.im]⟩
instance : Flat (Jones Rat) := ⟨fun j => j.toList.flatMap (fun z => [z.re, z.im])⟩
instance : Flat (Quat Rat) := ⟨fun q => q.toList⟩
instance : Flat (Quat (Cx Rat)) := ⟨fun q => q.toList.flatMap (fun z => [z.re, z.im])⟩
instance {n : Nat} : Flat (Vec n Rat) := ⟨fun v => Vec.toList v⟩
instance {n : Nat} : Flat (Vec n (Cx Rat)) := ⟨fun v => (Vec.toList v).flatMap (fun z => [z.re, z.im])⟩
instance {r c : Nat} : Flat (Mat r c Rat) := ⟨fun m => Mat.toList m⟩
instance {r c : Nat} : Flat (Mat r c (Cx Rat)) := ⟨fun m => (Mat.toList m).flatMap (fun z => [z.re, z.im])⟩
instance {α β : Type} [Flat α] [Flat β] : Flat (α × β) := ⟨fun p => flat p.1 ++ flat p.2⟩

/-! exact leaves -/
def natSqrtExact? (n : Nat) : Option Nat := let r := Nat.sqrt n; if r*r == n then some r else none
def ratSqrt (x : Rat) : R Rat :=
  if x < 0 then .error .sqrtNeg else
  match natSqrtExact? x.num.natAbs, natSqrtExact? x.den with
  | some a, some b => .ok (mkRat (a : Int) b)
  | _, _ => .error .sqrtIrr
/-- principal square root of a complex rational, as the harness's exact `sqrt(complex<Rat>)` -/
def cxSqrt (z : Cx Rat) : R (Cx Rat) := do
  let m ← ratSqrt (z.re*z.re + z.im*z.im)
  if z.im == 0 then
    if z.re ≥ 0 then (do let r ← ratSqrt z.re; pure ⟨r, 0⟩) else (do let r ← ratSqrt (-z.re); pure ⟨0, r⟩)
  else do
    let re ← ratSqrt ((m + z.re)/2)
    let im ← ratSqrt ((m - z.re)/2)
    pure ⟨re, if z.im < 0 then -im else im⟩
/-- `real_coherency` guard with `numeric_limits<Rat>::epsilon() = 0` -/
def imagGuardRat (ni nr : Rat) : Bool := ni > 0 && ni * 100000 > nr

/-- order leaves at the exact scalar: `numeric_limits<Rat>::epsilon()` is 0 in the harness -/
def ordRat : Quat.OrdLeaves Rat := ⟨fun x => x < 0, fun a b => a ≤ b, 0⟩
/-- order leaves at `double`: ε = 2⁻⁵² -/
def ordFloat : Quat.OrdLeaves Float := ⟨fun x => x < 0, fun a b => a ≤ b, Float.ofBits 0x3cb0000000000000⟩

def outLine (x : Except Err (List Rat)) : String :=
  match x with
  | .ok l => l.foldl (fun s r => s ++ " " ++ ratStr r) "ok"
  | .error e => "err " ++ e.toString

abbrev OpFn := Rd (List Rat)

end Epsic.Driver
