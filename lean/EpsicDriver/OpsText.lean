import EpsicDriver.Proto
import EpsicModel.Text
/-! Model side of harness group "text" (`harness/h_text.cpp`).  Numbers are lexemes: output tokens
`n:<hex text>` (a number) and `q:<hex text>` (the square of a number) are evaluated by the check. -/
namespace Epsic.Driver
open Epsic Epsic.Text

def hexNib (n : Nat) : Char := if n < 10 then Char.ofNat (48 + n) else Char.ofNat (87 + n)
def encText (l : List Char) : String :=
  if l.isEmpty then "_" else String.ofList (l.flatMap (fun c => [hexNib (c.toNat / 16), hexNib (c.toNat % 16)]))
def decText (s : String) : Option (List Char) :=
  if s == "_" then some [] else
  let rec go : List Char → Option (List Char)
    | a :: b :: r => do
      let x ← hexDigit? a; let y ← hexDigit? b; let t ← go r
      pure (Char.ofNat (x * 16 + y) :: t)
    | [] => some []
    | _ => none
  go s.toList
def text : Rd (List Char) := do
  let t ← tok
  match decText t with | some l => pure l | none => perr ("bad text " ++ t)
def skip (n : Nat) : Rd Unit := do let _ ← listOf n tok; pure ()
def b01' (b : Bool) : String := if b then "1" else "0"
def stateOut (s : IS) : List String := [b01' s.failed, b01' s.eof, toString s.pos]
def numTok (l : Lex) : String := "n:" ++ encText l
def sqTok (l : Lex) : String := "q:" ++ encText l
def sentV : Lex := "777.5".toList
def sentE : Lex := "0.5".toList
def sentI : Lex := "-3.25".toList
def estShow (d : Lex × Lex) : List String := [numTok d.1, sqTok d.2]
def cxShow (d : Lex × Lex) : List String := [numTok d.1, numTok d.2]
def pairs (n : Nat) : Rd (List (Lex × Lex)) := listOf n (do let a ← text; let b ← text; pure (a, b))
def estIn := estimateIn currentEstimateChecksError

def opsText : List (String × Rd (List String)) := [
  ("t.rt.est", do
    skip 2; let v ← text; let e ← text
    let t := estimateOut v e
    let (d, s) := run (estIn (sentV, sentE)) t
    pure ([encText t] ++ estShow d ++ stateOut s)),
  ("t.rt.vecd", do
    let n ← nat; skip n; let ls ← listOf n text
    let t := vectorOut ls
    let (d, s) := run (vectorIn extractFloat (List.replicate n sentV)) t
    pure ([encText t] ++ d.map numTok ++ stateOut s)),
  ("t.rt.stokes", do
    skip 4; let ls ← listOf 4 text
    let t := vectorOut ls
    let (d, s) := run (vectorIn extractFloat (List.replicate 4 sentV)) t
    pure ([encText t] ++ d.map numTok ++ stateOut s)),
  ("t.rt.vece", do
    let n ← nat; skip (2*n); let ls ← pairs n
    let t := vectorOut (ls.map (fun p => estimateOut p.1 p.2))
    let (d, s) := run (vectorIn estIn (List.replicate n (sentV, sentE))) t
    pure ([encText t] ++ d.flatMap estShow ++ stateOut s)),
  ("t.rt.stokese", do
    skip 8; let ls ← pairs 4
    let t := vectorOut (ls.map (fun p => estimateOut p.1 p.2))
    let (d, s) := run (vectorIn estIn (List.replicate 4 (sentV, sentE))) t
    pure ([encText t] ++ d.flatMap estShow ++ stateOut s)),
  ("t.rt.vecc", do
    let n ← nat; skip (2*n); let ls ← pairs n
    let t := vectorOut (ls.map (fun p => complexOut p.1 p.2))
    let (d, s) := run (vectorIn complexIn (List.replicate n (sentV, sentI))) t
    pure ([encText t] ++ d.flatMap cxShow ++ stateOut s)),
  ("t.in.est", do
    let t ← text
    let (d, s) := run (estIn (sentV, sentE)) t
    pure (estShow d ++ stateOut s)),
  ("t.in.vecd", do
    let n ← nat; let t ← text
    let (d, s) := run (vectorIn extractFloat (List.replicate n sentV)) t
    pure (d.map numTok ++ stateOut s)),
  ("t.in.vece", do
    let n ← nat; let t ← text
    let (d, s) := run (vectorIn estIn (List.replicate n (sentV, sentE))) t
    pure (d.flatMap estShow ++ stateOut s)),
  ("t.in.vecc", do
    let n ← nat; let t ← text
    let (d, s) := run (vectorIn complexIn (List.replicate n (sentV, sentI))) t
    pure (d.flatMap cxShow ++ stateOut s)),
  ("t.in.basis", do
    let t ← text; let d0 ← nat
    let (d, s) := run (basisIn currentBasisRejectsUnknownCode (d0 : Int)) t
    pure ([toString d] ++ stateOut s)),
  ("t.in.hand", do
    let t ← text
    let (d, s) := run signIn t
    pure ([toString d] ++ stateOut s)),
  ("t.in.arg", do
    let t ← text
    let (d, s) := run signIn t
    pure ([toString d] ++ stateOut s)),
  ("t.out.basis", do let k ← nat; pure [encText (basisOut k)]),
  ("t.out.hand", do let t ← tok; match parseInt? t with | some k => pure [encText (signOut k)] | none => perr "int"),
  ("t.out.arg", do let t ← tok; match parseInt? t with | some k => pure [encText (signOut k)] | none => perr "int"),
  ("t.out.matrix", do
    skip 6; let ls ← listOf 6 text
    pure [encText (matrixOut [vectorOut (ls.take 3), vectorOut (ls.drop 3)])]),
  ("t.out.jones", do
    skip 8; let ls ← pairs 4
    pure [encText (jonesOut (ls.map (fun p => complexOut p.1 p.2)))]),
  ("t.out.quath", do skip 4; let ls ← listOf 4 text; pure [encText (quatOut false ls)]),
  ("t.out.quatu", do skip 4; let ls ← listOf 4 text; pure [encText (quatOut true ls)]),
  ("t.leaf", do
    skip 1; let l ← text
    let (d, s) := run (extractFloat sentV) l
    pure ([encText l, numTok d] ++ stateOut s))
]
end Epsic.Driver
