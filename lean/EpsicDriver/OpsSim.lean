import EpsicDriver.Proto
import EpsicDriver.OpsEig
/-! Model side of harness group "sim" (`harness/h_sim.cpp`), at `Float`. -/
namespace Epsic.Driver
open Epsic Epsic.Sim

def hx (f : Float) : String := hexOfFloat f
def floats (n : Nat) : Rd (List Float) := listOf n hexFloat
def stokesF : Rd (Stokes Float) := do
  let l ← floats 4
  let a := l.toArray
  pure (fun i => a[i.val]!)
def matHex (m : Mat 4 4 Float) : List String := (Mat.toList m).map hx
def vecHex {n : Nat} (v : Vec n Float) : List String := (Vec.toList v).map hx
def linF : Basis Float := Basis.linear

/-- the stub pattern matrix of the harness -/
def patternF (i j : Fin 4) : Float :=
  1.0 + 0.25 * Float.ofNat i.val + 0.0625 * Float.ofNat j.val + (if i = j then 1.0 else 0.0)

def nSqCur (n : Nat) : Float := if currentNSqRepaired then nSqScalar n else nSqWrapped n

def stubCov (cv : Float) (xs : Array Float) (n : Nat) : Mat 4 4 Float := fun i j =>
  sampleCovEntry (patternF i j * cv) (fun l => patternF i j * (if l < xs.size then xs[l]! else 0.0)) n (nSqCur n)
def stubXCov (xs : Array Float) (lag n : Nat) : Mat 4 4 Float := fun i j =>
  sampleXCovEntry (fun l => patternF i j * (if l < xs.size then xs[l]! else 0.0)) lag n (nSqCur n)

def opsSim : List (String × Rd (List String)) := [
  ("md.polarizer", do
      let s ← stokesF
      match setStokes fsqrt ordFloat linF s with
      | .ok p => pure (((p.toList).flatMap (fun z => [z.re, z.im])).map hx)
      | .error e => throw e),
  ("md.field", do
      let s ← stokesF; let g ← floats 4
      let ga := g.toArray
      match setStokes fsqrt ordFloat linF s with
      | .error e => throw e
      | .ok p =>
        -- `std::complex<double> x (rms * gasdev(), rms * gasdev())`: the order in which the two calls are
        -- evaluated is unspecified in C++; g++ evaluates the arguments right to left, so the *first* deviate
        -- drawn becomes the imaginary part.  (Immaterial for the statistics: the deviates are iid.)
        let perm : Fin 4 → Nat := fun i => match i with | 0 => 1 | 1 => 0 | 2 => 3 | 3 => 2
        let e := getField p (fun i => ga[perm i]!)
        let st := Spinor.computeStokes e
        pure ([hx e.x.re, hx e.x.im, hx e.y.re, hx e.y.im] ++ vecHex st ++ ["4"])),
  ("md.theory", do
      let s ← stokesF
      let c := modeCov s
      pure (vecHex s ++ matHex c ++ matHex (modeXCov c 0) ++ matHex (modeXCov c 1) ++ matHex (modeXCov c 7))),
  ("sm.cov", do
      let n ← nat; let cv ← hexFloat; let k ← nat; let xs ← floats k
      pure (matHex (stubCov cv xs.toArray n))),
  ("sm.xcov", do
      let n ← nat; let lag ← nat; let _ ← hexFloat; let k ← nat; let xs ← floats k
      pure (matHex (stubXCov xs.toArray lag n))),
  ("sm.single", do
      let n ← nat; let cv ← hexFloat; let k ← nat; let xs ← floats k
      let xa := xs.toArray
      -- `n` instances (1,1,0,0) summed, then divided by n
      let acc : Float := (List.range n).foldl (fun a _ => a + 1.0) 0.0
      let m := acc / Float.ofNat n
      pure ([toString n, hx m, hx m, hx (0.0 / Float.ofNat n), hx (0.0 / Float.ofNat n)]
        ++ matHex (stubCov cv xa n) ++ matHex (stubXCov xa 0 n) ++ matHex (stubXCov xa 1 n)))
]

end Epsic.Driver
