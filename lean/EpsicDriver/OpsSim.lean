import EpsicDriver.Proto
import EpsicDriver.OpsEig
/-! Model side of harness group "sim" (`harness/h_sim.cpp`), at `Float`. -/
namespace Epsic.Driver
open Epsic Epsic.Sim

def hx (f : Float) : String := hexOfFloat f
def fmax (a b : Float) : Float := if a < b then b else a
def floats (n : Nat) : Rd (List Float) := listOf n hexFloat
def stokesF : Rd (Stokes Float) := do
  let l ← floats 4
  let a := l.toArray
  pure (fun i => a[i.val]!)
def matHex (m : Mat 4 4 Float) : List String := (Mat.toList m).map hx
def vecHex {n : Nat} (v : Vec n Float) : List String := (Vec.toList v).map hx
def linF : Basis Float := Basis.linear

/-- the stub pattern matrix of the harness -/
def patternF (i j : Fin 4) : Float :=
  1.0 + 0.25 * Float.ofNat i.val + 0.0625 * Float.ofNat j.val + (if i = j then 1.0 else 0.0)

def nSqCur (n : Nat) : Float := if currentNSqRepaired then nSqScalar n else nSqWrapped n

def stubCov (cv : Float) (xs : Array Float) (n : Nat) : Mat 4 4 Float := fun i j =>
  sampleCovEntry (patternF i j * cv) (fun l => patternF i j * (if l < xs.size then xs[l]! else 0.0)) n (nSqCur n)
def stubXCov (xs : Array Float) (lag n : Nat) : Mat 4 4 Float := fun i j =>
  sampleXCovEntry (fun l => patternF i j * (if l < xs.size then xs[l]! else 0.0)) lag n (nSqCur n)

/-- a modulated mode as the harness's `make_mode` builds it -/
inductive ModKind where
  | plain | lognormal (beta : Float) | boxcar (beta : Float) (w : Nat) | square (beta : Float) (w n : Nat)

def modKind : Rd ModKind := do
  match (← tok) with
  | "plain" => pure .plain
  | "lognormal" => do let b ← hexFloat; pure (.lognormal b)
  | "boxcar" => do let b ← hexFloat; let w ← nat; pure (.boxcar b w)
  | "square" => do let b ← hexFloat; let w ← nat; let n ← nat; pure (.square b w n)
  | _ => perr "mode kind"

/-- `set_beta`: `log_sigma = sqrt( log( beta*beta + 1.0 ) )` -/
def logSigmaOf (beta : Float) : Float := Float.sqrt (Float.log (beta*beta + 1.0))
def lnVar (ls : Float) : Float := Float.exp (ls*ls) - 1.0
def lnFactor (ls g : Float) : Float := Float.exp (lognormalArg ls g)

/-- (mod mean, mod variance) reported by each kind -/
def modMoments : ModKind → Float × Float
  | .plain => (1.0, 0.0)
  | .lognormal b => (1.0, lnVar (logSigmaOf b))
  | .boxcar b w => (1.0, lnVar (logSigmaOf b) / Float.ofNat w)
  | .square b _ _ => (1.0, lnVar (logSigmaOf b))

def zero44 : Mat 4 4 Float := fun _ _ => 0.0
/-- reported cross-covariance of the top mode at instance lag `l` -/
def kindXCov (k : ModKind) (s : Stokes Float) (l : Nat) : Mat 4 4 Float :=
  let (mu, var) := modMoments k
  let cov := match k with | .plain => modeCov s | _ => modulatedCov (modeCov s) s mu var
  let outerSS : Mat 4 4 Float := fun i j => s i * s j
  match k with
  | .plain => if l > 0 then zero44 else cov
  | .lognormal _ => if l > 0 then zero44 else cov
  | .boxcar _ w =>
      if l == 0 && currentLag0Repaired then cov
      else if l ≥ w then zero44
      else fun i j => outerSS i j * (Float.ofNat (w - l) / Float.ofNat w * var)
  | .square _ w n =>
      if l == 0 && currentLag0Repaired then cov
      else if l ≥ w then zero44
      else
        let table : Array Float := crossCorrelationTable w n
        fun i j => outerSS i j * (table[l]! * var)

def clampCur (x : Float) : Float := if currentSqrt22Clamped then (if x < 0.0 then 0.0 else x) else x

def opsSim : List (String × Rd (List String)) := [
  ("cov.seq", do
      let rho ← hexFloat; let b0 ← hexFloat; let b1 ← hexFloat; let pat ← tok
      let rest ← get
      let devs ← listOf (rest.filter (fun t => !t.startsWith "#")).length hexFloat
      let dv := devs.toArray
      let ls0 := logSigmaOf b0; let ls1 := logSigmaOf b1
      let var0 := lnVar ls0; let var1 := lnVar ls1
      let header := [hx 1.0, hx var0, hx 1.0, hx var1, hx rho, hx (rho * Float.sqrt (var0 * var1))]
      if pat.isEmpty then pure (header ++ ["0"]) else
      match covBuild Float.exp Float.log Float.sqrt (fun a b => a > b) (fun a b => a < b) clampCur rho ls0 ls1 with
      | .tooLarge => throw (.throw "bivariate_lognormal_modes::build maximum correlation exceeded")
      | .tooSmall => throw (.throw "bivariate_lognormal_modes::build minimum correlation exceeded")
      | .ok m =>
        let (_, outs, used) := pat.toList.foldl (fun (acc : Coord Float × List Float × Nat) ch =>
          let (c, os, u) := acc
          let next := covDraw Float.exp m (dv.getD u 0.0) (dv.getD (u+1) 0.0)
          let (c', v, drew) := c.request (ch == 'B') next
          (c', os ++ [v.getD 0.0], if drew then u + 2 else u)) ((⟨[], [], []⟩ : Coord Float), [], 0)
        pure (header ++ outs.map hx ++ [toString used])),
  ("mod.seq", do
      let k ← modKind; let m ← nat
      let rest ← get
      let devs ← listOf (rest.filter (fun t => !t.startsWith "#")).length hexFloat
      let dv := devs.toArray
      match k with
      | .plain => perr "no modulation"
      | .lognormal b =>
          let ls := logSigmaOf b
          pure (((List.range m).map (fun i => hx (lnFactor ls dv[i]!))) ++ [toString m])
      | .boxcar b w =>
          let ls := logSigmaOf b
          let draws := devs.map (lnFactor ls)
          let st0 : Boxcar Float := Boxcar.setup w draws
          let rest := draws.drop (w - 1)
          let (_, outs) := (List.range m).foldl (fun (acc : Boxcar Float × List Float) i =>
            let (st, o) := Boxcar.step w acc.1 (rest.getD i 0.0); (st, acc.2 ++ [o])) (st0, [])
          pure (outs.map hx ++ [toString (w - 1 + m)])
      | .square b w _ =>
          let ls := logSigmaOf b
          let (_, outs, used) := (List.range m).foldl (fun (acc : Hold Float × List Float × Nat) _ =>
            let (st, o, took) := Hold.step w acc.1 (lnFactor ls (dv.getD acc.2.2 0.0))
            (st, acc.2.1 ++ [o], if took then acc.2.2 + 1 else acc.2.2)) ((⟨w, 0.0⟩ : Hold Float), [], 0)
          pure (outs.map hx ++ [toString used])),
  ("mod.stats", do
      let s ← stokesF; let k ← modKind; let big ← nat
      let (mu, var) := modMoments k
      let cov := match k with | .plain => modeCov s | _ => modulatedCov (modeCov s) s mu var
      let mean : Stokes Float := match k with | .plain => s | _ => fun i => s i * mu
      pure ([hx mu, hx var] ++ vecHex mean ++ matHex cov ++ ((List.range (big+1)).flatMap (fun l => matHex (kindXCov k s l))))),
  ("mod.transform", do
      let m ← hexFloat; let xr ← hexFloat; let xi ← hexFloat; let yr ← hexFloat; let yi ← hexFloat
      let e : Spinor Float := ⟨⟨xr, xi⟩, ⟨yr, yi⟩⟩
      let t := modTransform (Float.sqrt m) e
      let s0 := Spinor.computeStokes e; let s1 := Spinor.computeStokes t
      let worst := (List.finRange 4).foldl (fun w i => fmax w (Float.abs (s1 i - m * s0 i) / fmax (Float.abs (m * s0 0)) 1e-300)) 0.0
      pure ([hx t.x.re, hx t.x.im, hx t.y.re, hx t.y.im, hx worst])),
  ("md.polarizer", do
      let s ← stokesF
      match setStokes fsqrt ordFloat linF s with
      | .ok p => pure (((p.toList).flatMap (fun z => [z.re, z.im])).map hx)
      | .error e => throw e),
  ("md.field", do
      let s ← stokesF; let g ← floats 4
      let ga := g.toArray
      match setStokes fsqrt ordFloat linF s with
      | .error e => throw e
      | .ok p =>
        -- `std::complex<double> x (rms * gasdev(), rms * gasdev())`: the order in which the two calls are
        -- evaluated is unspecified in C++; g++ evaluates the arguments right to left, so the *first* deviate
        -- drawn becomes the imaginary part.  (Immaterial for the statistics: the deviates are iid.)
        let perm : Fin 4 → Nat := fun i => match i with | 0 => 1 | 1 => 0 | 2 => 3 | 3 => 2
        let e := getField p (fun i => ga[perm i]!)
        let st := Spinor.computeStokes e
        pure ([hx e.x.re, hx e.x.im, hx e.y.re, hx e.y.im] ++ vecHex st ++ ["4"])),
  ("md.theory", do
      let s ← stokesF
      let c := modeCov s
      pure (vecHex s ++ matHex c ++ matHex (modeXCov c 0) ++ matHex (modeXCov c 1) ++ matHex (modeXCov c 7))),
  ("sm.cov", do
      let n ← nat; let cv ← hexFloat; let k ← nat; let xs ← floats k
      pure (matHex (stubCov cv xs.toArray n))),
  ("sm.xcov", do
      let n ← nat; let lag ← nat; let _ ← hexFloat; let k ← nat; let xs ← floats k
      pure (matHex (stubXCov xs.toArray lag n))),
  ("sm.single", do
      let n ← nat; let cv ← hexFloat; let k ← nat; let xs ← floats k
      let xa := xs.toArray
      -- `n` instances (1,1,0,0) summed, then divided by n
      let acc : Float := (List.range n).foldl (fun a _ => a + 1.0) 0.0
      let m := acc / Float.ofNat n
      pure ([toString n, hx m, hx m, hx (0.0 / Float.ofNat n), hx (0.0 / Float.ofNat n)]
        ++ matHex (stubCov cv xa n) ++ matHex (stubXCov xa 0 n) ++ matHex (stubXCov xa 1 n)))
]

/-! ### C05: dual-mode samples -/
def modeTheoryOf (k : ModKind) (s : Stokes Float) : ModeTheory Float :=
  let (mu, var) := modMoments k
  let cov := match k with | .plain => modeCov s | _ => modulatedCov (modeCov s) s mu var
  let mean : Stokes Float := match k with | .plain => s | _ => fun i => s i * mu
  ⟨mean, cov, kindXCov k s⟩
def truncU (x : Float) : Nat := x.toUInt32.toNat
def permField (p : Jones Float) (g : Vec 4 Float) : Spinor Float :=
  let perm : Fin 4 → Fin 4 := fun i => match i with | 0 => 1 | 1 => 0 | 2 => 3 | 3 => 2
  getField p (fun i => g (perm i))
def stubField (isB : Bool) (_ : Jones Float) (_ : Vec 4 Float) : Spinor Float :=
  if isB then ⟨⟨0.0, 0.0⟩, ⟨2.0, 0.0⟩⟩ else ⟨⟨1.0, 0.0⟩, ⟨0.0, 0.0⟩⟩
def jA : Jones Float := ⟨⟨1.0, 0.0⟩, ⟨0.0, 0.0⟩, ⟨0.0, 0.0⟩, ⟨0.0, 0.0⟩⟩
def jB : Jones Float := ⟨⟨2.0, 0.0⟩, ⟨0.0, 0.0⟩, ⟨0.0, 0.0⟩, ⟨0.0, 0.0⟩⟩
/-- a stub is recognised by its "polarizer": `jA` delivers the field (1,0), `jB` the field (0,2) -/
def stubFieldOf (p : Jones Float) (_ : Vec 4 Float) : Spinor Float :=
  if p.j00.re == 2.0 then ⟨⟨0.0, 0.0⟩, ⟨2.0, 0.0⟩⟩ else ⟨⟨1.0, 0.0⟩, ⟨0.0, 0.0⟩⟩
def selectsA (r : Nat) (f : Float) : Bool := Float.ofNat r / 2147483647.0 < f

def opsDual : List (String × Rd (List String)) := [
  ("du.counts", do
      let kind ← tok; let f ← hexFloat; let n ← nat
      let rest ← get
      let r ← (if rest.isEmpty then pure 0 else nat)
      match kind with
      | "superposed" =>
        let (st, _) := superposedGen stubFieldOf jA jB n []
        pure ([toString n, toString n] ++ vecHex st ++ ["0"])
      | "composite" =>
        let nA := truncU (f * Float.ofNat n)
        let nB := compositeCountB currentCompositeCountsRepaired nA n (truncU (Float.ofNat n - f))
        let (st, _) := compositeGen stubFieldOf jA jB nA nB n []
        pure ([toString (max nA nB), toString (max nA nB)] ++ vecHex st ++ ["0"])
      | "disjoint" =>
        let sa := selectsA r f
        let (st, _) := disjointGen stubFieldOf jA jB sa n []
        pure ([toString (if sa then n else 0), toString (if sa then 0 else n)] ++ vecHex st ++ ["1"])
      | _ => perr "dual kind"),
  ("du.theory", do
      let kind ← tok; let f ← hexFloat; let n ← nat; let kappa ← hexFloat; let lag ← nat
      let sa ← stokesF; let ka ← modKind; let sb ← stokesF; let kb ← modKind
      let a := modeTheoryOf ka sa; let b := modeTheoryOf kb sb
      match kind with
      | "superposed" =>
        let cov := superposedCov a b kappa n
        pure (vecHex (superposedMean a b) ++ matHex cov ++ matHex (if lag == 0 then cov else combinationXCov a b lag n))
      | "composite" =>
        let nA := truncU (f * Float.ofNat n)
        let cov := compositeCov currentCompositeZeroGuard a b kappa nA n
        pure (vecHex (compositeMean a b nA n) ++ matHex cov ++ matHex (if lag == 0 then cov else combinationXCov a b lag n))
      | "disjoint" =>
        let cov := disjointCov a b f n
        pure (vecHex (disjointMean a b f) ++ matHex cov ++ matHex (if lag == 0 then cov else disjointXCov a b f lag))
      | "coherent" =>
        let cov := coherentCov a b n
        pure (vecHex (superposedMean a b) ++ matHex cov ++ matHex (if lag == 0 then cov else combinationXCov a b lag n))
      | _ => perr "dual kind"),
  ("du.gen", do
      let kind ← tok; let f ← hexFloat; let n ← nat; let r ← nat
      let sa ← stokesF; let sb ← stokesF
      let rest ← get
      let devs ← listOf (rest.filter (fun t => !t.startsWith "#")).length hexFloat
      match setStokes fsqrt ordFloat linF sa, setStokes fsqrt ordFloat linF sb with
      | .ok pa, .ok pb =>
        let need (k : Nat) : Rd Unit := if devs.length < k then throw (.throw "normal-deviates-exhausted") else pure ()
        match kind with
        | "superposed" => do
          need (8*n)
          let (st, used) := superposedGen permField pa pb n devs
          pure (vecHex st ++ [toString used, "0"])
        | "composite" => do
          let nA := truncU (f * Float.ofNat n)
          let nB := compositeCountB currentCompositeCountsRepaired nA n (truncU (Float.ofNat n - f))
          need (8 * max nA nB)
          let (st, used) := compositeGen permField pa pb nA nB n devs
          pure (vecHex st ++ [toString used, "0"])
        | "disjoint" => do
          need (4*n)
          let (st, used) := disjointGen permField pa pb (selectsA r f) n devs
          pure (vecHex st ++ [toString used, "1"])
        | _ => perr "dual kind"
      | .error e, _ => throw e
      | _, .error e => throw e)
]

end Epsic.Driver
