import EpsicDriver.Proto
import EpsicDriver.OpsAlg
/-! Model side of harness group "lin" (`harness/h_lin.cpp`): vectors, matrices, Gauss–Jordan,
rotation, Basis objects (properties C13, C14). -/
namespace Epsic.Driver
open Epsic

def ratAbs (x : Rat) : Rat := if x < 0 then -x else x
def pickRat {n c : Nat} : Gauss.Pick n c Rat := Gauss.pickMax ratAbs (fun a b => a ≥ b) 0
def pickCx {n c : Nat} : Gauss.Pick n c (Cx Rat) := Gauss.pickMax (fun z => z.norm) (fun a b => a ≥ b) 0

def vecOps (n : Nat) (op : String) : Rd (List Rat) := do
  match op with
  | "add" => do let a ← vec n; let b ← vec n; pure (flat (Vec.add a b))
  | "sub" => do let a ← vec n; let b ← vec n; pure (flat (Vec.sub a b))
  | "neg" => do let a ← vec n; pure (flat (Vec.neg a))
  | "smul" => do let a ← vec n; let c ← rat; pure (flat (Vec.smul a c) ++ flat (Vec.smul a c))
  | "sdiv" => do let a ← vec n; let c ← rat; let r ← liftR (Vec.sdiv a c); pure (flat r)
  | "dot" => do let a ← vec n; let b ← vec n; pure [Vec.dot a b]
  | "normsq" => do let a ← vec n; pure [Vec.normsq a]
  | "eq" => do
      let a ← vec n; let b ← vec n
      let e := (Vec.toList a) == (Vec.toList b)
      pure (flat e ++ flat (!e))
  | "basis" => do
      let i ← fin n
      pure (flat (Vec.basis i : Vec n Rat) ++ flat (Vec.zeroV : Vec n Rat) ++ [(n : Rat)])
  | "assign" => do let _ ← vec n; let s ← rat; pure (flat (Vec.ofScalar s : Vec n Rat))
  | "get" => do
      let a ← vec n; let i ← fin n; let v ← rat
      let a' : Vec n Rat := fun j => if j = i then v else a j
      pure ([a i, a i, a i] ++ flat a' ++ [(n : Rat)])
  | "cdot" => do let a ← cvec n; let b ← cvec n; pure (flat (Vec.dot a b))
  | "cnormsq" => do let a ← cvec n; pure [Vec.normsqC a]
  | "cparts" => do
      let a ← cvec n
      pure (flat (fun i => (a i).re : Vec n Rat) ++ flat (fun i => (a i).im : Vec n Rat) ++ flat (fun i => (a i).conj : Vec n (Cx Rat)))
  | _ => perr "vec op"

def matOps (r c : Nat) (op : String) : Rd (List Rat) := do
  match op with
  | "add" => do let a ← mat r c; let b ← mat r c; pure (flat (Mat.add a b))
  | "sub" => do let a ← mat r c; let b ← mat r c; pure (flat (Mat.sub a b))
  | "neg" => do let a ← mat r c; pure (flat (Mat.neg a))
  | "smul" => do let a ← mat r c; let s ← rat; pure (flat (Mat.smul a s))
  | "sdiv" => do let a ← mat r c; let s ← rat; let x ← liftR (Mat.sdiv a s); pure (flat x)
  | "mulvec" => do let m ← mat r c; let v ← vec c; pure (flat (Mat.mulVec m v))
  | "vecmul" => do let v ← vec r; let m ← mat r c; pure (flat (Mat.vecMul v m))
  | "transpose" => do let m ← mat r c; pure (flat (Mat.transpose m))
  | "herm" => do let m ← cmat r c; pure (flat (Mat.herm m))
  | "hermr" => do let m ← mat r c; pure (flat (Mat.transpose m))
  | "outer" => do let a ← vec r; let b ← vec c; pure (flat (Mat.outer a b))
  | "scalar" => do let s ← rat; pure (flat (Mat.ofScalar s : Mat r c Rat))
  | "zero" => pure (flat (Mat.zeroM : Mat r c Rat))
  | "normsq" => do let m ← mat r c; pure [sumFin r (fun i => Vec.normsq (m i))]
  | "datum" => do
      let m ← mat r c; let i ← fin (r*c); let v ← rat
      let (a, b) := Mat.datumIndex r c i
      let m' : Mat r c Rat := fun x y => if x = a ∧ y = b then v else m x y
      pure ([m a b] ++ flat m' ++ [((r*c : Nat) : Rat)])
  | _ => perr "mat op"

def sqOps (n : Nat) (op : String) : Rd (List Rat) := do
  match op with
  | "trace" => do let m ← mat n n; pure [Mat.trace m]
  | "ctrace" => do let m ← cmat n n; pure (flat (Mat.trace m))
  | "identity" => pure (flat (Mat.identity : Mat n n Rat))
  | "inv" => do let m ← mat n n; let x ← liftR (Gauss.inv pickRat m); pure (flat x)
  | "cinv" => do let m ← cmat n n; let x ← liftR (Gauss.inv pickCx m); pure (flat x)
  | "gj" => do
      let a ← mat n n; let b ← mat n 2
      let (a', b') ← liftR (Gauss.gaussJordan pickRat a b); pure (flat a' ++ flat b')
  | "gjid" => do
      let a ← mat n n
      let (a', b') ← liftR (Gauss.gaussJordan pickRat a (Mat.identity : Mat n n Rat)); pure (flat a' ++ flat b')
  | _ => perr "sq op"

def opsLin : List (String × OpFn) := [
  ("v", do let n ← nat; let op ← tok; vecOps n op),
  ("m", do let r ← nat; let c ← nat; let op ← tok; matOps r c op),
  ("sq", do let n ← nat; let op ← tok; sqOps n op),
  ("mul", do let r ← nat; let k ← nat; let c ← nat; let a ← mat r k; let b ← mat k c; pure (flat (Mat.mul a b))),
  ("cmul", do let r ← nat; let k ← nat; let c ← nat; let a ← cmat r k; let b ← cmat k c; pure (flat (Mat.mul a b))),
  ("direct", do
      let ar ← nat; let ac ← nat; let br ← nat; let bc ← nat
      let a ← mat ar ac; let b ← mat br bc
      pure (flat (Mat.direct a b))),
  ("part", do
      let u ← nat; let l ← nat; let b ← nat; let r ← nat; let op ← tok
      if op == "partition" then do
        let m ← mat (u+b) (l+r)
        pure (flat (Mat.partUL m : Mat u l Rat) ++ flat (Mat.partUR m : Mat u r Rat) ++ flat (Mat.partBL m : Mat b l Rat) ++ flat (Mat.partBR m : Mat b r Rat))
      else do
        let ul ← mat u l; let ur ← mat u r; let bl ← mat b l; let br ← mat b r
        pure (flat (Mat.compose ul ur bl br))),
  ("partsym", do
      let m ← nat; let op ← tok
      if op == "partitionsym" then do
        let a ← mat (1+m) (1+m)
        let ul : Mat 1 1 Rat := Mat.partUL a
        let ur : Mat 1 m Rat := Mat.partUR a
        let br : Mat m m Rat := Mat.partBR a
        pure ([ul 0 0] ++ flat (ur 0) ++ flat br)
      else do
        let var ← rat; let cv ← vec m; let cm ← mat m m
        let ul : Mat 1 1 Rat := fun _ _ => var
        let ur : Mat 1 m Rat := fun _ j => cv j
        let bl : Mat m 1 Rat := fun i _ => cv i
        pure (flat (Mat.compose ul ur bl cm))),
  ("cross", do let a ← vec 3; let b ← vec 3; pure (flat (Vec.cross a b))),
  ("dirac", do
      let i ← fin 4; let j ← fin 4
      let si : Mat 2 2 (Cx Rat) := fun r c => (Pauli.matrix i : Jones Rat).get2 r c
      let sj : Mat 2 2 (Cx Rat) := fun r c => (Pauli.matrix j : Jones Rat).get2 r c
      let d : Mat (2*2) (2*2) (Cx Rat) := Mat.direct si sj
      pure (flat d)),
  ("rotation", do
      let v ← vec 3; let _ ← tok; let s ← hexFloat; let c ← hexFloat
      -- `u = 1.0 - c` is a double subtraction in the C++: the generic `one - c` at `Float`
      let u : Float := one - c
      match bitsToRat s.toBits, bitsToRat c.toBits, bitsToRat u.toBits with
      | some s', some c', some u' => pure (flat (Mat.rotationU v s' c' u'))
      | _, _, _ => perr "non-finite leaf"),
  ("rotation.apply", do
      let v ← vec 3; let _ ← tok; let s ← hexFloat; let c ← hexFloat; let x ← vec 3
      let u : Float := one - c
      match bitsToRat s.toBits, bitsToRat c.toBits, bitsToRat u.toBits with
      | some s', some c', some u' => pure (flat (Mat.mulVec (Mat.rotationU v s' c' u') x))
      | _, _, _ => perr "non-finite leaf"),
  ("basis.obj", do
      let n ← nat
      -- default-constructed Basis is linear; orientation/ellipticity are recorded as given
      let rec go (k : Nat) (b : Basis Rat) (o e : Rat) : Rd (Basis Rat × Rat × Rat) :=
        match k with
        | 0 => pure (b, o, e)
        | k+1 => do
          let t ← tok
          match t with
          | "lin" => go k Basis.linear 0 0
          | "cir" => do
              -- 0.25*M_PI
              let q := (bitsToRat (0.25 * 3.14159265358979323846 : Float).toBits).getD 0
              go k Basis.circular q q
          | "ell" => do
              let o' ← hexRat; let e' ← hexRat
              let c2o ← hexFloat; let s2o ← hexFloat; let c2e ← hexFloat; let s2e ← hexFloat
              match basisToRat (Basis.elliptical c2o s2o c2e s2e) with
              | some b' => go k b' o' e'
              | none => perr "non-finite basis"
          | "bad" => go k (Basis.refuse b) o e
          | _ => perr "basis"
      let (b, o, e) ← go n Basis.linear 0 0
      let x ← vec 3
      pure ([(b.code : Rat), o, e] ++ flat (b.basisVector 0) ++ flat (b.basisVector 1) ++ flat (b.basisVector 2)
        ++ flat (b.getIn x) ++ flat (b.getOut x) ++ flat (b.getOut (b.getIn x))))
]

end Epsic.Driver
