import EpsicDriver.Proto
/-! Model side of harness group "est" (`harness/h_est.cpp`): Estimate / MeanEstimate / MeanRadian. -/
namespace Epsic.Driver
open Epsic

def hexOfFloat (f : Float) : String :=
  let n := f.toBits.toNat
  let digits := (Nat.toDigits 16 n)
  String.ofList (List.replicate (16 - digits.length) '0' ++ digits)

def est : Rd (Est Rat) := do let v ← rat; let r ← rat; pure ⟨v, r⟩
def estF : Rd (Est Float) := do let v ← hexFloat; let r ← hexFloat; pure ⟨v, r⟩
def flatE (e : Est Rat) : List Rat := [e.val, e.var]
def flatEF (e : Est Float) : List String := [hexOfFloat e.val, hexOfFloat e.var]

instance : Inhabited (Est Rat) := ⟨⟨0, 0⟩⟩
instance : Inhabited (Est Float) := ⟨⟨0, 0⟩⟩
instance : Inhabited (MeanEst.Tree Rat) := ⟨.leaf ⟨0, 0⟩⟩

/-- prefix-encoded merge tree: `L k` | `N <tree> <tree>` -/
partial def readTree (items : Array (Est Rat)) : Rd (MeanEst.Tree Rat) := do
  match (← tok) with
  | "L" => do
      let k ← nat
      match items[k]? with | some d => pure (.leaf d) | none => perr "leaf index"
  | "N" => do let l ← readTree items; let r ← readTree items; pure (.node l r)
  | _ => perr "tree"

def opsEstRat : List (String × OpFn) := [
  ("e.add", do let a ← est; let b ← est; pure (flatE (Est.add a b))),
  ("e.sub", do let a ← est; let b ← est; pure (flatE (Est.sub a b))),
  ("e.mul", do let a ← est; let b ← est; pure (flatE (Est.mul a b))),
  ("e.div", do let a ← est; let b ← est; let r ← liftR (Est.div a b); pure (flatE r)),
  ("e.neg", do let a ← est; pure (flatE (Est.neg a))),
  ("e.inverse", do let a ← est; let r ← liftR (Est.inverse a); pure (flatE r)),
  ("e.cmul", do
      let ar ← est; let ai ← est; let br ← est; let bi ← est
      let (re, im) := Est.cmul ar ai br bi
      pure (flatE re ++ flatE im)),
  ("e.access", do let a ← est; pure [a.val, a.var, a.val, 9, 1, 7]),
  ("me.fold", do
      let n ← nat; let l ← listOf n est
      let m := MeanEst.accumulate l
      pure ([m.normVal, m.invVar] ++ flatE m.get)),
  ("me.tree", do
      let n ← nat; let l ← listOf n est
      let t ← readTree l.toArray
      let m := MeanEst.evalTree t
      pure ([m.normVal, m.invVar] ++ flatE m.get))
]

/-- libm leaves, shared with the C++ through the same `libm.so` -/
def fabsF (x : Float) : Float := x.abs
def copysignF (x y : Float) : Float :=
  let neg := (y.toBits >>> 63) != 0
  let ax := x.abs
  if neg then -ax else ax

def opsEstFloat : List (String × Rd (List String)) := [
  ("ef.exp", do let u ← estF; pure (flatEF (Est.expE u (Float.exp u.val)))),
  ("ef.log", do let u ← estF; pure (flatEF (Est.logE u (Float.log u.val)))),
  ("ef.sqrt", do let u ← estF; pure (flatEF (Est.sqrtE u (Float.sqrt u.val) (fabsF u.val)))),
  ("ef.sin", do let u ← estF; pure (flatEF (Est.sinE u (Float.sin u.val)))),
  ("ef.cos", do let u ← estF; pure (flatEF (Est.cosE u (Float.cos u.val)))),
  ("ef.acos", do let u ← estF; pure (flatEF (Est.acosE u (Float.acos u.val) (Float.sqrt (1.0 - u.val*u.val))))),
  ("ef.atan", do let u ← estF; pure (flatEF (Est.atanE u (Float.atan u.val)))),
  ("ef.sinh", do let u ← estF; pure (flatEF (Est.sinhE u (Float.sinh u.val)))),
  ("ef.cosh", do let u ← estF; pure (flatEF (Est.coshE u (Float.cosh u.val)))),
  ("ef.atanh", do let u ← estF; pure (flatEF (Est.atanhE u (Float.atanh u.val)))),
  ("ef.atan2", do let s ← estF; let c ← estF; pure (flatEF (Est.atan2E s c (Float.atan2 s.val c.val)))),
  ("ef.copysign", do let u ← estF; let v ← estF; pure (flatEF (Est.copysignE u (copysignF u.val v.val)))),
  ("ef.arith", do
      let a ← estF; let b ← estF
      let q := match Est.div a b with | .ok r => r | .error _ => ⟨0, 0⟩
      let i := match Est.inverse a with | .ok r => r | .error _ => ⟨0, 0⟩
      pure (flatEF (Est.add a b) ++ flatEF (Est.sub a b) ++ flatEF (Est.mul a b) ++ flatEF q ++ flatEF (Est.neg a) ++ flatEF i)),
  ("ef.invariant", do
      let l ← listOf 4 estF
      let a := l.toArray
      let s : Vec 4 (Est Float) := fun i => a[i.val]!
      pure (flatEF (if currentInvariantRepaired then Est.invariantNew s else Est.invariantOld s))),
  ("mr.fold", do
      let n ← nat; let l ← listOf n estF
      let entries := l.map (fun d => (⟨d, Float.cos d.val, Float.sin d.val⟩ : MeanRad.Entry Float))
      let m := MeanRad.accumulate entries
      pure (flatEF (m.get Float.atan2) ++ flatEF m.cosine.get ++ flatEF m.sine.get)),
  ("mr.merge", do
      let n1 ← nat; let n2 ← nat; let l1 ← listOf n1 estF; let l2 ← listOf n2 estF
      let mk (l : List (Est Float)) := MeanRad.accumulate (l.map (fun d => (⟨d, Float.cos d.val, Float.sin d.val⟩ : MeanRad.Entry Float)))
      let m := MeanRad.merge (mk l1) (mk l2)
      pure (flatEF (m.get Float.atan2) ++ flatEF m.cosine.get ++ flatEF m.sine.get))
]

end Epsic.Driver
