import EpsicDriver.Proto
import EpsicDriver.OpsEst
import EpsicModel.Rand
/-! Model side of harness group "rand" (`harness/h_rand.cpp`). -/
namespace Epsic.Driver
open Epsic Epsic.Rand

def restFloats : Rd (List Float) := do
  let ts ← get
  set ([] : List String)
  ts.mapM (fun t => match parseHex64? t with | some u => pure (Float.ofBits u) | none => perr ("bad hex double " ++ t))
def int : Rd Int := do
  let t ← tok
  match parseInt? t with | some r => pure r | none => perr ("bad int " ++ t)
def restInts : Rd (List Int) := do
  let ts ← get
  set ([] : List String)
  ts.mapM (fun t => match parseInt? t with | some r => pure r | none => perr ("bad int " ++ t))
def hx32 (d : Float32) : String := hexOfFloat d.toFloat
def rmaxF : Float := 2147483647.0
def uOf (r : Int) : Float := randomDouble (Float.ofInt r) rmaxF
def exhausted {α : Type} (w : String) : Rd α := throw (.throw w)

def opsRand : List (String × Rd (List String)) := [
  ("bm.seq", do
    let n ← nat; let us ← restFloats
    let r := calls floatOps n none us
    if r.1.length < n then exhausted "uniform-exhausted"
    else pure (r.1.map hx32 ++ [toString (us.length - r.2.2.length)])),
  ("bm.two", do
    let pat ← tok; let us ← restFloats
    let bs := pat.toList.map (fun c => c != 'A')
    -- outputs in call order
    let step := fun (acc : Two Float32 Float × List Float32) (isB : Bool) =>
      let t' := Two.step floatOps acc.1 isB
      if t'.stuck then (t', acc.2) else
      let o := if isB then t'.outB.getLast? else t'.outA.getLast?
      (t', acc.2 ++ o.toList)
    let r := bs.foldl step ({ us := us }, [])
    if r.1.stuck then exhausted "uniform-exhausted"
    else pure (r.2.map hx32 ++ [toString (us.length - r.1.us.length)])),
  ("bm.real", do
    let s ← int; let n ← nat
    if s = 0 then perr "bm.real needs a non-zero seed" else
    -- generous supply: the acceptance rate is pi/4, so 4n+64 uniforms are ample; exhaustion is reported
    let us := (lcgStates (4*n + 64) (srand48 s)).map lcgToFloat
    let r := calls floatOps n none us
    if r.1.length < n then exhausted "uniform-exhausted"
    else pure (r.1.map hx32 ++ [toString (us.length - r.2.2.length)])),
  ("bm.seed", do
    let s ← int
    pure [match ctorSeeds s with | none => "none" | some v => toString v]),
  ("lcg.seq", do
    let s ← int; let n ← nat
    pure ((lcgStates n (srand48 s)).map (fun x => hexOfFloat (lcgToFloat x)))),
  ("rnd.double", do let r ← int; pure [hexOfFloat (uOf r)]),
  ("rnd.value", do let sc ← hexFloat; let r ← int; pure [hexOfFloat (randomValue (uOf r) sc)]),
  ("rnd.cvalue", do let sc ← hexFloat; let r1 ← int; let r2 ← int
                    pure [hexOfFloat (randomValue (uOf r1) sc), hexOfFloat (randomValue (uOf r2) sc)]),
  ("rnd.vector", do
    let sc ← hexFloat; let rs ← restInts
    if rs.length < 7 then exhausted "random-exhausted"
    else pure ((rs.take 7).map (fun r => hexOfFloat (randomValue (uOf r) sc)) ++ ["7"])),
  ("rnd.stokes", do
    let sc ← hexFloat; let mp ← hexFloat; let rs ← restInts
    match rs with
    | r0 :: r1 :: r2 :: r3 :: _ =>
      let d := randomStokes Float.sqrt (uOf r0) (uOf r1) (uOf r2) (uOf r3) sc mp.toFloat32.toFloat
      if stokesThrows d.invariant (d.s 0) then throw (.throw "random_value (Stokes) invariant less than zero")
      else pure ([0, 1, 2, 3].map (fun i => hexOfFloat (d.s i)) ++ ["4"])
    | _ => exhausted "random-exhausted")
]
end Epsic.Driver
