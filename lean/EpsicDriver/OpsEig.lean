import EpsicDriver.Proto
import EpsicDriver.OpsEst
/-! Model side of harness group "eig" (`harness/h_eig.cpp`). -/
namespace Epsic.Driver
open Epsic Epsic.Pauli

def fsqrt (x : Float) : R Float := .ok (Float.sqrt x)
def quatF : Rd (Quat Float) := do let a ← hexFloat; let b ← hexFloat; let c ← hexFloat; let d ← hexFloat; pure ⟨a, b, c, d⟩
def cxF : Rd (Cx Float) := do let a ← hexFloat; let b ← hexFloat; pure ⟨a, b⟩
def jonesF : Rd (Jones Float) := do let a ← cxF; let b ← cxF; let c ← cxF; let d ← cxF; pure ⟨a, b, c, d⟩
def flatQF (q : Quat Float) : List String := q.toList.map hexOfFloat
def flatCF (z : Cx Float) : List String := [hexOfFloat z.re, hexOfFloat z.im]

def readFloats : Nat → Rd (List Float)
  | 0 => pure []
  | k+1 => do let x ← hexFloat; let r ← readFloats k; pure (x :: r)

def opsEigRat : List (String × OpFn) := [
  ("q.sqrt", do let h ← quat; let r ← liftR (Quat.sqrtH ratSqrt ordRat h); pure (flat r)),
  ("j.polar", do let j ← jones; let (d, h, u) ← liftR (polar cxSqrt ratSqrt ordRat j); pure (flat d ++ flat h ++ flat u)),
  ("q.eigen", do let h ← quat; let r ← liftR (Quat.eigenH ratSqrt (fun x => x < 0) h); pure (flat r))
]

def opsEigFloat : List (String × Rd (List String)) := [
  ("qd.sqrt", do
      let h ← quatF
      match Quat.sqrtH fsqrt ordFloat h with | .ok r => pure (flatQF r) | .error e => throw e),
  ("qd.eigen", do
      let h ← quatF
      match Quat.eigenH fsqrt (fun x => x < 0) h with | .ok r => pure (flatQF r) | .error e => throw e),
  ("jd.polar", do
      let j ← jonesF
      let d ← cxF          -- the libm `csqrt(det J)` leaf
      match polar (fun _ => .ok d) fsqrt ordFloat j with
      | .ok (d', h, u) => pure (flatCF d' ++ flatQF h ++ flatQF u)
      | .error e => throw e),
  ("jac.real2", do
      let p ← hexFloat; let q ← hexFloat; let pq ← hexFloat
      let r := Jacobi.calculateReal Float.abs Float.sqrt (fun a b => a == b) (fun x => x < 0) 100.0 p q pq
      pure [hexOfFloat r.s, hexOfFloat r.tau, hexOfFloat r.correction]),
  ("jac.real", do
      let n ← nat
      let vals ← readFloats (n*(n+1)/2)
      -- upper triangle, row by row
      let idx (i j : Nat) : Nat := let (i, j) := if i ≤ j then (i, j) else (j, i); i*n - i*(i-1)/2 + (j - i)
      let arr := vals.toArray
      let a : Mat n n Float := fun i j => arr.getD (idx i.val j.val) 0
      let L : Jacobi.SolverLeaves Float := ⟨Float.abs, Float.sqrt, (fun a b => a == b), (fun x => x < 0), (fun a b => a > b), 100.0, 0.2⟩
      let fa := Mat.freeze a
      let st := Jacobi.jacobi L (Mat.thaw fa)
      pure ((Vec.toList st.d).map hexOfFloat ++ (Mat.toList st.v).map hexOfFloat)),
  ("jac.complex", do
      let n ← nat
      -- per row i: the real diagonal element, then (re, im) of the elements right of it
      let vals ← readFloats (n*n)
      let arr := vals.toArray
      let rowStart (i : Nat) : Nat := i*(2*n - i)        -- Σ_{r<i} (1 + 2(n-1-r))
      let a : Mat n n (Cx Float) := fun i j =>
        if i.val = j.val then ⟨arr.getD (rowStart i.val) 0, 0⟩
        else if i.val < j.val then ⟨arr.getD (rowStart i.val + 1 + 2*(j.val - i.val - 1)) 0, arr.getD (rowStart i.val + 2 + 2*(j.val - i.val - 1)) 0⟩
        else ⟨arr.getD (rowStart j.val + 1 + 2*(i.val - j.val - 1)) 0, -(arr.getD (rowStart j.val + 2 + 2*(i.val - j.val - 1)) 0)⟩
      let L : Jacobi.SolverLeaves Float := ⟨Float.abs, Float.sqrt, (fun a b => a == b), (fun x => x < 0), (fun a b => a > b), 100.0, 0.2⟩
      let fa := Mat.freeze a
      match Jacobi.jacobiC L fsqrt (Mat.thaw fa) with
      | .ok st => pure ((Vec.toList st.d).map hexOfFloat ++ (Mat.toList st.v).flatMap flatCF)
      | .error e => throw e),
  ("jac.complex2", do
      let p ← hexFloat; let q ← hexFloat; let pq ← cxF
      match Jacobi.calculateComplex fsqrt (fun x => x < 0) p q pq with
      | .ok r => pure (flatCF r.s ++ flatCF r.tau ++ [hexOfFloat r.correction])
      | .error e => throw e)
]

end Epsic.Driver
