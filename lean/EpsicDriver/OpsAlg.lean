import EpsicDriver.Proto
/-! Model side of harness group "alg" (`harness/h_alg.cpp`): same op names, same argument order. -/
namespace Epsic.Driver
open Epsic Epsic.Pauli

/-- exact rational value of every entry of a `Float` basis (the C++ `Basis<double>` holds doubles;
templates instantiated at the exact scalar convert each entry exactly) -/
def basisToRat (b : Basis Float) : Option (Basis Rat) := do
  let conv (m : Mat 3 3 Float) : Option (Mat 3 3 Rat) := do
    let l ← (Mat.toList m).mapM (fun f => bitsToRat f.toBits)
    let arr := l.toArray
    pure (fun i j => arr[i.val*3 + j.val]!)
  let i ← conv b.into
  let o ← conv b.outof
  pure ⟨b.code, i, o⟩

def basisArg : Rd (Basis Rat) := do
  match (← tok) with
  | "lin" => pure Basis.linear
  | "cir" => pure Basis.circular
  | "ell" => do
      let _ ← tok; let _ ← tok
      -- the four libm leaf values; the products that fill the matrix are IEEE double products,
      -- i.e. the generic model definition instantiated at `Float`
      let c2o ← hexFloat; let s2o ← hexFloat; let c2e ← hexFloat; let s2e ← hexFloat
      match basisToRat (Basis.elliptical c2o s2o c2e s2e) with
      | some b => pure b
      | none => perr "non-finite basis"
  | t => perr ("basis " ++ t)

def showBasis (b : Basis Rat) : List Rat :=
  [(b.code : Rat)] ++ flat (b.basisVector 0) ++ flat (b.basisVector 1) ++ flat (b.basisVector 2)
    ++ flat (b.getOut (Vec.basis 0)) ++ flat (b.getOut (Vec.basis 1)) ++ flat (b.getOut (Vec.basis 2))

def g := imagGuardRat

def opsAlg : List (String × OpFn) := [
  -- Jones algebra
  ("j.add", do let a ← jones; let b ← jones; pure (flat (a+b))),
  ("j.sub", do let a ← jones; let b ← jones; pure (flat (a-b))),
  ("j.mul", do let a ← jones; let b ← jones; pure (flat (a*b))),
  ("j.mulassign", do let a ← jones; let b ← jones; pure (flat (a*b))),
  ("j.addassign", do let a ← jones; let b ← jones; pure (flat (a+b))),
  ("j.subassign", do let a ← jones; let b ← jones; pure (flat (a-b))),
  ("j.neg", do let a ← jones; pure (flat (-a))),
  ("j.smulc", do let a ← jones; let c ← cx; pure (flat (a.smulC c))),
  ("j.csmul", do let c ← cx; let a ← jones; pure (flat (a.smulC c))),
  ("j.smulr", do let a ← jones; let c ← rat; pure (flat (a.smulR c))),
  ("j.rsmul", do let c ← rat; let a ← jones; pure (flat (a.smulR c))),
  ("j.divc", do let a ← jones; let c ← cx; let r ← liftR (a.sdivC c); pure (flat r)),
  ("j.divr", do let a ← jones; let c ← rat; let r ← liftR (a.sdivR c); pure (flat r)),
  ("j.inv", do let a ← jones; let r ← liftR a.inv; pure (flat r)),
  ("j.det", do let a ← jones; pure (flat a.det)),
  ("j.trace", do let a ← jones; pure (flat a.trace)),
  ("j.norm", do let a ← jones; pure (flat a.norm)),
  ("j.conj", do let a ← jones; pure (flat a.conj)),
  ("j.herm", do let a ← jones; pure (flat a.herm)),
  ("j.identity", pure (flat (Jones.identity : Jones Rat))),
  ("j.ofscalar", do let c ← rat; pure (flat (Jones.ofScalar (Cx.ofReal c)))),
  ("j.assignc", do let _ ← jones; let c ← cx; pure (flat (Jones.ofScalar c))),
  ("j.isdiag", do let a ← jones; pure (flat a.isDiagonal)),
  ("j.p", do let a ← jones; let q ← liftR a.pSq; let r ← liftR (ratSqrt q); pure [r]),
  ("j.eq", do let a ← jones; let b ← jones; pure (flat (a == b) ++ flat (a != b))),
  ("j.tomatrix", do let a ← jones; pure (flat a)),
  ("j.frommatrix", do let m ← cmat 2 2; pure (flat m)),
  ("j.matmul", do
      let a ← jones
      let b ← jones
      let ma : Mat 2 2 (Cx Rat) := fun i j => a.get2 i j
      let mb : Mat 2 2 (Cx Rat) := fun i j => b.get2 i j
      pure (flat (Mat.mul ma mb))),
  ("j.get", do let a ← jones; let n ← fin 4; pure (flat (a.get n) ++ flat (a.get n))),
  ("j.get2", do let a ← jones; let r ← fin 2; let c ← fin 2; pure (flat (a.get2 r c) ++ flat (a.get2 r c))),
  ("j.set", do let a ← jones; let n ← fin 4; let v ← cx; pure (flat (a.set n v))),
  ("j.set2", do let a ← jones; let r ← fin 2; let c ← fin 2; let v ← cx; pure (flat (a.set (Jones.rcIndex r c) v))),
  ("j.size", pure [4, 4]),
  ("j.datum", do let a ← jones; let n ← fin 4; let v ← cx; pure (flat (a.get n) ++ flat (a.set n v))),
  -- quaternions
  ("b.mulH", do let a ← biquat; let b ← biquat; pure (flat (Quat.mulH a b))),
  ("b.mulU", do let a ← biquat; let b ← biquat; pure (flat (Quat.mulU a b))),
  ("q.mulU", do let a ← quat; let b ← quat; pure (flat (Quat.mulU a b))),
  ("b.mulassignU", do let a ← biquat; let b ← biquat; pure (flat (Quat.mulU a b))),
  ("b.mulassignH", do let a ← biquat; let b ← biquat; pure (flat (Quat.mulH a b))),
  ("b.add", do let a ← biquat; let b ← biquat; pure (flat (a+b))),
  ("b.sub", do let a ← biquat; let b ← biquat; pure (flat (a-b))),
  ("b.neg", do let a ← biquat; pure (flat (-a))),
  ("q.add", do let a ← quat; let b ← quat; pure (flat (a+b))),
  ("q.sub", do let a ← quat; let b ← quat; pure (flat (a-b))),
  ("b.smul", do let a ← biquat; let c ← cx; pure (flat (Quat.smul a c))),
  ("b.csmul", do let c ← cx; let a ← biquat; pure (flat (Quat.smul a c))),
  ("q.smul", do let a ← quat; let c ← rat; pure (flat (Quat.smul a c))),
  ("b.sdiv", do let a ← biquat; let c ← cx; let r ← liftR (Quat.sdivC a c); pure (flat r)),
  ("q.sdiv", do let a ← quat; let c ← rat; let r ← liftR (Quat.sdivR a c); pure (flat r)),
  ("q.smul.self", do
      let a ← quat
      let k ← fin 4
      pure (flat (Quat.smul a (a.get k)))),
  ("q.sdiv.self", do
      let a ← quat
      let k ← fin 4
      let r ← liftR (Quat.sdivR a (a.get k))
      pure (flat r)),
  ("b.smul.self", do
      let a ← biquat
      let k ← fin 4
      pure (flat (Quat.smul a (a.get k)))),
  ("b.sdiv.self", do
      let a ← biquat
      let k ← fin 4
      let r ← liftR (Quat.sdivC a (a.get k))
      pure (flat r)),
  ("q.addscalar", do
      let a ← quat
      let c ← rat
      let a1 := a.addScalar c
      pure (flat a1 ++ flat ((a1.subScalar c).subScalar c))),
  ("b.conjH", do let a ← biquat; pure (flat (Quat.conjHC a))),
  ("b.conjU", do let a ← biquat; pure (flat (Quat.conjUC a))),
  ("b.hermH", do let a ← biquat; pure (flat (Quat.hermHC a))),
  ("b.hermU", do let a ← biquat; pure (flat (Quat.hermUC a))),
  ("q.conjH", do let a ← quat; pure (flat (Quat.conjHR a))),
  ("q.conjU", do let a ← quat; pure (flat (Quat.conjUR a))),
  ("q.hermH", do let a ← quat; pure (flat (Quat.hermHR a))),
  ("q.hermU", do let a ← quat; pure (flat (Quat.hermUR a))),
  ("b.invH", do let a ← biquat; let r ← liftR (Quat.invHC a); pure (flat r)),
  ("b.invU", do let a ← biquat; let r ← liftR (Quat.invUC a); pure (flat r)),
  ("q.invH", do let a ← quat; let r ← liftR (Quat.invHR a); pure (flat r)),
  ("q.invU", do let a ← quat; let r ← liftR (Quat.invUR a); pure (flat r)),
  ("b.detH", do let a ← biquat; pure (flat (Quat.detH a))),
  ("b.detU", do let a ← biquat; pure (flat (Quat.detU a))),
  ("q.detH", do let a ← quat; pure (flat (Quat.detH a))),
  ("q.detU", do let a ← quat; pure (flat (Quat.detU a))),
  ("b.trace", do let a ← biquat; pure (flat (Quat.trace a))),
  ("q.trace", do let a ← quat; pure (flat (Quat.trace a))),
  ("b.norm", do let a ← biquat; pure (flat (Quat.normC a))),
  ("q.norm", do let a ← quat; pure (flat (Quat.normR a))),
  ("b.real", do let a ← biquat; pure (flat (Quat.realQ a))),
  ("b.imag", do let a ← biquat; pure (flat (Quat.imagQ a))),
  ("q.identity", pure (flat (Quat.identity : Quat Rat) ++ flat (Quat.identity : Quat Rat))),
  ("q.get", do
      let a ← quat
      let n ← fin 4
      pure (flat (a.get n) ++ flat (a.get n) ++ [a.s0] ++ flat a.getVector)),
  ("q.set", do let a ← quat; let n ← fin 4; let v ← rat; pure (flat (a.set n v))),
  ("q.datum", do let a ← quat; let n ← fin 4; let v ← rat; pure (flat (a.set n v) ++ [4])),
  ("q.scalarvector", do
      let s ← rat
      let v ← vec 3
      pure (flat (Quat.ofScalarVector s v) ++ flat (Quat.ofScalarVector s v))),
  -- conversions
  ("cv.HC", do let a ← biquat; pure (flat (convertHC a))),
  ("cv.UC", do let a ← biquat; pure (flat (convertUC a))),
  ("cv.HR", do let a ← quat; pure (flat (convertHR a))),
  ("cv.UR", do let a ← quat; pure (flat (convertUR a))),
  ("cv.toH", do let a ← jones; pure (flat (toHermitian a))),
  ("cv.toU", do let a ← jones; pure (flat (toUnitary a))),
  ("pauli.matrix", do let i ← fin 4; pure (flat (Pauli.matrix i : Jones Rat))),
  ("mx.JQh", do let j ← jones; let q ← biquat; pure (flat (j * convertHC q))),
  ("mx.JQu", do let j ← jones; let q ← biquat; pure (flat (j * convertUC q))),
  ("mx.JqhR", do let j ← jones; let q ← quat; pure (flat (j * convertHR q))),
  ("mx.JquR", do let j ← jones; let q ← quat; pure (flat (j * convertUR q))),
  ("mx.QhJ", do let q ← biquat; let j ← jones; pure (flat (convertHC q * j) ++ [0, 0, 0, 0, 0, 0, 0, 0])),
  ("mx.QuJ", do let q ← biquat; let j ← jones; pure (flat (convertUC q * j) ++ [0, 0, 0, 0, 0, 0, 0, 0])),
  ("mx.qhRJ", do let q ← quat; let j ← jones; pure (flat (convertHR q * j))),
  ("mx.quRJ", do let q ← quat; let j ← jones; pure (flat (convertUR q * j))),
  ("mx.qhqu", do let q ← quat; let u ← quat; pure (flat (convertHR q * convertUR u))),
  ("mx.quqh", do let u ← quat; let q ← quat; pure (flat (convertUR u * convertHR q))),
  -- Stokes / coherency / Mueller
  ("basis.show", do let b ← basisArg; pure (showBasis b)),
  ("basis.seq", do
      let n ← nat
      -- a history on the process-wide basis (linear at the start of the line); "bad" is a refused setting
      let rec go (k : Nat) (b : Basis Rat) : Rd (Basis Rat) :=
        match k with
        | 0 => pure b
        | k+1 => do
          let saved ← get
          match (← tok) with
          | "bad" => go k (Basis.refuse b)
          | _ => do set saved; let b' ← basisArg; go k b'
      let b ← go n Basis.linear
      pure (showBasis b)),
  ("basis.inout", do
      let b ← basisArg
      let v ← vec 3
      pure (flat (b.getIn v) ++ flat (b.getOut v) ++ flat (b.getOut (b.getIn v)))),
  ("st.convert", do let b ← basisArg; let s ← vec 4; pure (flat (convertStokes b s))),
  ("st.convertC", do let b ← basisArg; let s ← cvec 4; pure (flat (convertStokesC b s))),
  ("st.natural", do let b ← basisArg; let s ← vec 4; pure (flat (natural b s))),
  ("st.standard", do let b ← basisArg; let q ← quat; pure (flat (standard b q))),
  ("st.coherency", do let b ← basisArg; let j ← jones; let r ← liftR (coherency g b j); pure (flat r)),
  ("st.coherencyQ", do let b ← basisArg; let q ← quat; pure (flat (coherencyQ b q))),
  ("st.ccoherency", do let b ← basisArg; let j ← jones; pure (flat (complexCoherency b j))),
  ("st.roundtrip", do
      let b ← basisArg
      let s ← vec 4
      let rho := convertStokes b s
      let c ← liftR (coherency g b rho)
      pure (flat c ++ flat rho.trace ++ flat rho.det ++ [Stokes.invariant s])),
  ("st.roundtripC", do
      let b ← basisArg
      let s ← cvec 4
      let rho := convertStokesC b s
      pure (flat (complexCoherency b rho) ++ flat rho.trace ++ flat rho.det)),
  ("st.transform", do
      let b ← basisArg
      let s ← vec 4
      let j ← jones
      let r ← liftR (transform g b s j); pure (flat r)),
  ("st.transformC", do let b ← basisArg; let s ← cvec 4; let j ← jones; pure (flat (transformC b s j))),
  ("st.mueller", do let b ← basisArg; let j ← jones; let r ← liftR (mueller g b j); pure (flat r)),
  ("st.muellergrad", do
      let b ← basisArg
      let j ← jones
      let jg ← jones
      let r ← liftR (muellerGrad g b j jg); pure (flat r)),
  ("st.transformM", do let b ← basisArg; let m ← mat 4 4; let j ← jones; pure (flat (transformM b m j))),
  ("st.invariant", do
      let s ← vec 4
      pure ([Stokes.invariant s, Stokes.sqrVect s, s 0] ++ flat (Stokes.getVector s))),
  ("sp.apply", do
      let j ← jones
      let x ← cx
      let y ← cx
      let f := Spinor.apply j ⟨x, y⟩; pure (flat f.x ++ flat f.y)),
  -- sqrt / polar / eigen
  ("q.sqrt", do let h ← quat; let r ← liftR (Quat.sqrtH ratSqrt ordRat h); pure (flat r)),
  ("j.polar", do
      let j ← jones
      let (d, h, u) ← liftR (polar cxSqrt ratSqrt ordRat j)
      pure (flat d ++ flat h ++ flat u)),
  ("q.eigen", do let h ← quat; let r ← liftR (Quat.eigenH ratSqrt (fun x => x < 0) h); pure (flat r)),
  -- Minkowski
  ("mk.inner", do let a ← vec 4; let b ← vec 4; pure [Minkowski.inner a b]),
  ("mk.outer", do let a ← vec 4; let b ← vec 4; pure (flat (Minkowski.outer a b))),
  ("mk.innerS", do let a ← vec 4; let b ← vec 4; pure [Minkowski.inner a b, Stokes.invariant a])
]

end Epsic.Driver
