import EpsicDriver
import Std.Data.HashMap
/-! `epsic_driver <group>`: reads operation lines on stdin, prints one result line per operation.
Imports the core-only model; no Mathlib. -/
open Epsic Epsic.Driver

abbrev OpS := Rd (List String)
def ratOps (t : List (String × OpFn)) : List (String × OpS) :=
  t.map (fun (n, f) => (n, (do let l ← f; pure (l.map ratStr) : OpS)))

def table (group : String) : Option (List (String × OpS)) :=
  match group with
  | "alg" => some (ratOps opsAlg)
  | "alias" => some (ratOps opsAlias)
  | "lin" => some (ratOps opsLin)
  | "est" => some (ratOps opsEstRat ++ opsEstFloat)
  | "eig" => some (ratOps opsEigRat ++ opsEigFloat)
  | "sim" => some (opsSim ++ opsDual)
  | "tm" => some opsTm
  | "rand" => some opsRand
  | "simreal" => some opsSimReal
  | "text" => some opsText
  | "cli" => some opsCli
  | _ => none

def outLineS (x : Except Err (List String)) : String :=
  match x with
  | .ok l => l.foldl (fun s r => s ++ " " ++ r) "ok"
  | .error e => "err " ++ e.toString

def runLine (ops : Std.HashMap String OpS) (line : String) : String :=
  match (line.trimAscii.toString.splitOn " ").filter (· ≠ "") with
  | [] => "err empty"
  | name :: args =>
    match ops.get? name with
    | none => "err unknown-op"
    | some f => outLineS ((f.run args).map (·.1))

partial def loop (ops : Std.HashMap String OpS) (h : IO.FS.Stream) (out : IO.FS.Stream) : IO Unit := do
  let line ← h.getLine
  if line.isEmpty then return ()
  let l := line.trimAscii.toString
  if l.isEmpty || l.startsWith "#" then out.putStrLn l else out.putStrLn (runLine ops l)
  loop ops h out

def main (args : List String) : IO UInt32 := do
  match args with
  | [grp] =>
    match table grp with
    | none => IO.eprintln s!"unknown group {grp}"; return 2
    | some t =>
      let ops : Std.HashMap String OpS := Std.HashMap.ofList t
      loop ops (← IO.getStdin) (← IO.getStdout)
      return 0
  | _ => IO.eprintln "usage: epsic_driver <group>"; return 2
