import EpsicDriver.Proto
import EpsicDriver.OpsAlg
import EpsicDriver.OpsAlias
import EpsicDriver.OpsLin
import EpsicDriver.OpsEst
import EpsicDriver.OpsEig
import EpsicDriver.OpsSim
import EpsicDriver.OpsTm
