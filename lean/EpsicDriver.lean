import EpsicDriver.Proto
import EpsicDriver.OpsAlg
