import EpsicProofs.Lemmas.GaussJordan
import Mathlib.Algebra.Field.MinimalAxioms
import Mathlib.Algebra.Order.Field.Basic
import Mathlib.Tactic.Linarith
import Mathlib.Tactic.Positivity
set_option linter.unusedSectionVars false
set_option linter.unusedVariables false
set_option linter.unusedSimpArgs false
/-! `std::complex<T>` over an ordered field is a field, and the model's scalar instance for it is that
field's instance: every theorem stated over an arbitrary field applies to the complex instantiation of
the templates (used here for the Gauss–Jordan inverse of complex matrices). -/
namespace Epsic
variable {K : Type} [Field K] [LinearOrder K] [IsStrictOrderedRing K] [DecidableEq K]

/-- `std::complex<T>` over an ordered field, as a type of its own that carries the field structure -/
def CxF (K : Type) := Cx K

namespace CxF
instance : Add (CxF K) := ⟨fun a b => Cx.add a b⟩
instance : Mul (CxF K) := ⟨fun a b => Cx.mul a b⟩
instance : Neg (CxF K) := ⟨fun a => Cx.neg a⟩
instance : Zero (CxF K) := ⟨(⟨0, 0⟩ : Cx K)⟩
instance : One (CxF K) := ⟨(⟨1, 0⟩ : Cx K)⟩
instance : Inv (CxF K) := ⟨fun a => Cx.divRaw (⟨1, 0⟩ : Cx K) a⟩

instance : DecidableEq (CxF K) := inferInstanceAs (DecidableEq (Cx K))
def re (z : CxF K) : K := Cx.re z
def im (z : CxF K) : K := Cx.im z
@[ext] theorem ext {a b : CxF K} (h1 : a.re = b.re) (h2 : a.im = b.im) : a = b := Cx.ext' h1 h2
@[simp] theorem add_re (a b : CxF K) : (a + b).re = a.re + b.re := rfl
@[simp] theorem add_im (a b : CxF K) : (a + b).im = a.im + b.im := rfl
@[simp] theorem mul_re (a b : CxF K) : (a * b).re = a.re*b.re - a.im*b.im := rfl
@[simp] theorem mul_im (a b : CxF K) : (a * b).im = a.re*b.im + a.im*b.re := rfl
@[simp] theorem neg_re (a : CxF K) : (-a).re = -a.re := rfl
@[simp] theorem neg_im (a : CxF K) : (-a).im = -a.im := rfl
@[simp] theorem zero_re : (0 : CxF K).re = 0 := rfl
@[simp] theorem zero_im : (0 : CxF K).im = 0 := rfl
@[simp] theorem one_re : (1 : CxF K).re = 1 := rfl
@[simp] theorem one_im : (1 : CxF K).im = 0 := rfl
theorem inv_re (a : CxF K) : (a⁻¹).re = a.re / (a.re*a.re + a.im*a.im) := by
  show (1 * Cx.re a + 0 * Cx.im a) / (Cx.re a * Cx.re a + Cx.im a * Cx.im a) = _
  simp [re, im]
theorem inv_im (a : CxF K) : (a⁻¹).im = -a.im / (a.re*a.re + a.im*a.im) := by
  show (0 * Cx.re a - 1 * Cx.im a) / (Cx.re a * Cx.re a + Cx.im a * Cx.im a) = _
  simp [re, im]

theorem norm_ne_zero (a : CxF K) (h : a ≠ 0) : a.re*a.re + a.im*a.im ≠ 0 := by
  intro hz
  apply h
  have h1 : a.re * a.re = 0 := by nlinarith [mul_self_nonneg a.re, mul_self_nonneg a.im]
  have h2 : a.im * a.im = 0 := by nlinarith [mul_self_nonneg a.re, mul_self_nonneg a.im]
  ext
  · simpa using mul_self_eq_zero.mp h1
  · simpa using mul_self_eq_zero.mp h2

instance : Field (CxF K) := Field.ofMinimalAxioms (CxF K)
  (by intro a b c; ext <;> simp <;> ring)
  (by intro a; ext <;> simp)
  (by intro a; ext <;> simp)
  (by intro a b c; ext <;> simp <;> ring)
  (by intro a b; ext <;> simp <;> ring)
  (by intro a; ext <;> simp)
  (by intro a ha
      have hn := norm_ne_zero a ha
      ext
      · simp only [mul_re, inv_re, inv_im, one_re]
        rw [show a.re * (a.re / (a.re * a.re + a.im * a.im)) - a.im * (-a.im / (a.re * a.re + a.im * a.im))
          = (a.re * a.re + a.im * a.im) / (a.re * a.re + a.im * a.im) by ring]
        exact div_self hn
      · simp only [mul_im, inv_re, inv_im, one_im]; ring)
  (by ext <;> simp [inv_re, inv_im])
  (by intro a b c; ext <;> simp <;> ring)
  ⟨0, 1, by intro h; have := congrArg re h; simp at this⟩

theorem sub_re (a b : CxF K) : (a - b).re = a.re - b.re := by rw [sub_eq_add_neg]; simp; ring
theorem sub_im (a b : CxF K) : (a - b).im = a.im - b.im := by rw [sub_eq_add_neg]; simp; ring
theorem div_re (a b : CxF K) : (a / b).re = (a.re*b.re + a.im*b.im) / (b.re*b.re + b.im*b.im) := by
  rw [div_eq_mul_inv]; simp only [mul_re, inv_re, inv_im]; ring
theorem div_im (a b : CxF K) : (a / b).im = (a.im*b.re - a.re*b.im) / (b.re*b.re + b.im*b.im) := by
  rw [div_eq_mul_inv]; simp only [mul_im, inv_re, inv_im]; ring
theorem natCast_re (n : ℕ) : ((n : CxF K)).re = n := by
  induction n with
  | zero => simp
  | succ n ih => rw [Nat.cast_succ, add_re, ih]; simp
theorem natCast_im (n : ℕ) : ((n : CxF K)).im = 0 := by
  induction n with
  | zero => simp
  | succ n ih => rw [Nat.cast_succ, add_im, ih]; simp
theorem eq_zero_iff (z : CxF K) : z = 0 ↔ z.re = 0 ∧ z.im = 0 :=
  ⟨fun h => by rw [h]; simp, fun h => by ext <;> simp [h.1, h.2]⟩
theorem norm_eq_zero_iff (z : CxF K) : z.re*z.re + z.im*z.im = 0 ↔ z = 0 := by
  constructor
  · intro h; by_contra hne; exact norm_ne_zero z hne h
  · intro h; rw [h]; simp
end CxF

/-- **the model's complex scalar is this field**: the `Arith` instance of `Cx K` that the templates
instantiated at `std::complex` use coincides with the field instance the theorems quantify over -/
theorem sub_inst_ext {α : Type} (i j : Sub α) (h : ∀ a b, i.sub a b = j.sub a b) : i = j := by
  cases i; cases j; congr; funext a b; exact h a b
theorem div_inst_ext {α : Type} (i j : Div α) (h : ∀ a b, i.div a b = j.div a b) : i = j := by
  cases i; cases j; congr; funext a b; exact h a b

theorem sub_bridge (a b : CxF K) : (Cx.sub a b : Cx K) = (a - b : CxF K) := by
  apply Cx.ext'
  · show Cx.re a - Cx.re b = CxF.re (a - b); rw [CxF.sub_re]; rfl
  · show Cx.im a - Cx.im b = CxF.im (a - b); rw [CxF.sub_im]; rfl
theorem div_bridge (a b : CxF K) : (Cx.divRaw a b : Cx K) = (a / b : CxF K) := by
  apply Cx.ext'
  · show (Cx.re a * Cx.re b + Cx.im a * Cx.im b) / (Cx.re b * Cx.re b + Cx.im b * Cx.im b) = CxF.re (a / b); rw [CxF.div_re]; rfl
  · show (Cx.im a * Cx.re b - Cx.re a * Cx.im b) / (Cx.re b * Cx.re b + Cx.im b * Cx.im b) = CxF.im (a / b); rw [CxF.div_im]; rfl

theorem cxArith_eq : (Cx.instArith : Arith (Cx K)) = (fieldArith (CxF K) : Arith (CxF K)) := by
  unfold fieldArith Cx.instArith
  congr 1
  · apply sub_inst_ext; intro a b; exact sub_bridge a b
  · apply div_inst_ext; intro a b; exact div_bridge a b
  · -- two
    show (⟨2, 0⟩ : Cx K) = ((2 : CxF K) : Cx K)
    have h : (2 : CxF K) = 1 + 1 := by norm_num
    apply Cx.ext'
    · show (2 : K) = CxF.re (2 : CxF K); rw [h, CxF.add_re]; simp; norm_num
    · show (0 : K) = CxF.im (2 : CxF K); rw [h, CxF.add_im]; simp
  · -- half
    show (⟨1/2, 0⟩ : Cx K) = ((1 / 2 : CxF K) : Cx K)
    have h2r : CxF.re (2 : CxF K) = 2 := by
      have h : (2 : CxF K) = 1 + 1 := by norm_num
      rw [h, CxF.add_re]; simp; norm_num
    have h2i : CxF.im (2 : CxF K) = 0 := by
      have h : (2 : CxF K) = 1 + 1 := by norm_num
      rw [h, CxF.add_im]; simp
    apply Cx.ext'
    · show (1/2 : K) = CxF.re (1 / 2 : CxF K); rw [CxF.div_re, h2r, h2i]; simp
    · show (0 : K) = CxF.im (1 / 2 : CxF K); rw [CxF.div_im, h2r, h2i]; simp
  · -- isZero
    have key : ∀ w : CxF K, decide (Cx.norm w = 0) = decide (w = 0) := by
      intro w
      have := CxF.norm_eq_zero_iff w
      simp only [decide_eq_decide]
      exact this
    funext z; exact key z
  · -- eq0
    have key : ∀ w : CxF K, (decide (Cx.re w = 0) && decide (Cx.im w = 0)) = decide (w = 0) := by
      intro w
      have hiff := CxF.eq_zero_iff w
      by_cases h : w = 0
      · have h' := hiff.mp h
        have h1 : Cx.re w = 0 := h'.1
        have h2 : Cx.im w = 0 := h'.2
        subst h
        simp only [decide_true]
        rw [show Cx.re (0 : CxF K) = 0 from rfl, show Cx.im (0 : CxF K) = 0 from rfl]; simp
      · have hn : ¬ (Cx.re w = 0 ∧ Cx.im w = 0) := fun hh => h (hiff.mpr hh)
        simp only [h, decide_false]
        by_cases hr : Cx.re w = 0
        · have hi : ¬ Cx.im w = 0 := fun hi => hn ⟨hr, hi⟩
          simp [hr, hi]
        · simp [hr]
    funext z; exact key z
  · -- ofNat
    funext n
    apply Cx.ext'
    · show (n : K) = CxF.re (n : CxF K); rw [CxF.natCast_re]
    · show (0 : K) = CxF.im (n : CxF K); rw [CxF.natCast_im]

/-! ### Gauss–Jordan over complex matrices -/
section complex_gj
variable {n : Nat}

theorem inv_two_sided_inst (I : Arith (CxF K)) (hI : I = fieldArith (CxF K)) (pick : Gauss.Pick n n (CxF K))
    (hpick : ∀ st r col, pick st = some (r, col) → st.used r = false ∧ st.used col = false)
    (m x : Mat n n (CxF K)) (h : @Gauss.inv (CxF K) I n pick m = .ok x) :
    @Mat.mul (CxF K) I n n n x m = @Mat.identity (CxF K) I n ∧ @Mat.mul (CxF K) I n n n m x = @Mat.identity (CxF K) I n := by
  subst hI
  obtain ⟨h1, h2⟩ := Gauss.inv_correct pick hpick m x h
  rw [← mul_eq, ← identity_eq] at h1 h2
  exact ⟨h1, h2⟩

/-- **the Gauss–Jordan inverse of a complex matrix is two-sided**, for the model instantiated at
`std::complex` over any ordered field (the scalar type the C++ templates use for complex matrices),
every size and every admissible pivot order -/
theorem complex_inv_two_sided (pick : Gauss.Pick n n (Cx K))
    (hpick : ∀ st r col, pick st = some (r, col) → st.used r = false ∧ st.used col = false)
    (m x : Mat n n (Cx K)) (h : Gauss.inv pick m = .ok x) :
    Mat.mul x m = Mat.identity ∧ Mat.mul m x = Mat.identity :=
  inv_two_sided_inst (K := K) Cx.instArith cxArith_eq pick hpick m x h

theorem inv_complete_inst {β : Type} (I : Arith (CxF K)) (hI : I = fieldArith (CxF K)) (mag : CxF K → β) (ge : β → β → Bool) (z : β)
    (hm : Gauss.MagSpec mag ge z) (m : Mat n n (CxF K)) (hdet : (toM m).det ≠ 0) :
    ∃ x, @Gauss.inv (CxF K) I n (Gauss.pickMax mag ge z) m = .ok x := by
  subst hI
  obtain ⟨x, hx, _⟩ := Gauss.inv_complete mag ge z hm m hdet
  exact ⟨x, hx⟩
/-- **every non-singular complex matrix is inverted** (determinant taken in the field `CxF K`) -/
theorem complex_inv_complete {β : Type} (mag : CxF K → β) (ge : β → β → Bool) (z : β) (hm : Gauss.MagSpec mag ge z)
    (m : Mat n n (CxF K)) (hdet : (toM m).det ≠ 0) :
    ∃ x : Mat n n (Cx K), @Gauss.inv (Cx K) Cx.instArith n (Gauss.pickMax mag ge z) m = .ok x :=
  inv_complete_inst (K := K) Cx.instArith cxArith_eq mag ge z hm m hdet
/-- the squared modulus, compared with `>=` from 0, is an admissible pivot magnitude for complex matrices -/
theorem magSpec_norm : Gauss.MagSpec (fun z : CxF K => z.re*z.re + z.im*z.im) (fun a b => decide (a ≥ b)) (0 : K) where
  ge_zero x := by simp; nlinarith [mul_self_nonneg x.re, mul_self_nonneg x.im]
  total a b := by simp; exact le_total b a
  trans a b c h1 h2 := by simp at *; exact le_trans h2 h1
  zero_max y h := by
    simp at h
    have : y.re*y.re + y.im*y.im = 0 := le_antisymm h (by nlinarith [mul_self_nonneg y.re, mul_self_nonneg y.im])
    exact (CxF.norm_eq_zero_iff y).mp this
end complex_gj
end Epsic
