import EpsicProofs.Lemmas.Algebra
import Mathlib.Algebra.BigOperators.Fin
import Mathlib.Data.Matrix.Basic
import Mathlib.Data.Matrix.Mul
/-! Folds of the model as `Finset` sums; small-dimension unrolling. -/
set_option linter.unusedSectionVars false
namespace Epsic
variable {K : Type} [Field K] [DecidableEq K]

theorem foldl_add_eq (l : List ι) (f : ι → K) (a : K) :
    l.foldl (fun acc i => acc + f i) a = a + (l.map f).sum := by
  induction l generalizing a with
  | nil => simp
  | cons x xs ih => simp [ih, add_assoc]

/-- the accumulation loop `r = 0; for i: r += f i` is the finite sum -/
theorem sumFin_eq_sum {n : Nat} (f : Fin n → K) : sumFin n f = ∑ i, f i := by
  unfold sumFin
  rw [foldl_add_eq, Fin.sum_univ_def]; simp

@[epsic] theorem sumFin_two (f : Fin 2 → K) : sumFin 2 f = f 0 + f 1 := by
  rw [sumFin_eq_sum, Fin.sum_univ_two]
@[epsic] theorem sumFin_three (f : Fin 3 → K) : sumFin 3 f = f 0 + f 1 + f 2 := by
  rw [sumFin_eq_sum, Fin.sum_univ_three]
@[epsic] theorem sumFin_four (f : Fin 4 → K) : sumFin 4 f = f 0 + f 1 + f 2 + f 3 := by
  rw [sumFin_eq_sum, Fin.sum_univ_four]

/-- the same for complex accumulators (component-wise) -/
theorem sumFin_cx_re {n : Nat} (f : Fin n → Cx K) : (sumFin n f).re = ∑ i, (f i).re := by
  unfold sumFin
  have : ∀ (l : List (Fin n)) (a : Cx K),
      (l.foldl (fun acc i => acc + f i) a).re = a.re + (l.map (fun i => (f i).re)).sum := by
    intro l; induction l with
    | nil => intro a; simp
    | cons x xs ih => intro a; simp [ih, add_assoc]
  rw [this, Fin.sum_univ_def]; simp
theorem sumFin_cx_im {n : Nat} (f : Fin n → Cx K) : (sumFin n f).im = ∑ i, (f i).im := by
  unfold sumFin
  have : ∀ (l : List (Fin n)) (a : Cx K),
      (l.foldl (fun acc i => acc + f i) a).im = a.im + (l.map (fun i => (f i).im)).sum := by
    intro l; induction l with
    | nil => intro a; simp
    | cons x xs ih => intro a; simp [ih, add_assoc]
  rw [this, Fin.sum_univ_def]; simp

attribute [epsic] Vec.add Vec.sub Vec.neg Vec.smul Vec.sdivRaw Vec.dot Vec.basis Vec.ofScalar Vec.normsq
  Vec.normsqC Vec.zeroV Mat.zeroM Mat.ofScalar Mat.identity Mat.add Mat.sub Mat.neg Mat.smul Mat.sdivRaw
  Mat.mulVec Mat.vecMul Mat.mul Mat.trace Mat.transpose Mat.herm Mat.outer v2 v3 v4

end Epsic
