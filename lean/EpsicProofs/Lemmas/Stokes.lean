import EpsicProofs.Lemmas.Linear
/-! Unfolding lemmas for bases, Stokes conversions and Minkowski forms. -/
set_option linter.unusedSectionVars false
namespace Epsic
variable {K : Type} [Field K] [DecidableEq K]

attribute [epsic] Basis.rows3 Basis.ofInto Basis.linear Basis.circular Basis.elliptical Basis.getIn Basis.getOut
  Basis.castC Basis.getInC Basis.getOutC Basis.basisVector
  Stokes.getVector Stokes.ofScalarVector Stokes.sqrVect Stokes.invariant
  Pauli.natural Pauli.standard Pauli.convertStokes Pauli.convertStokesC Pauli.coherencyQ Pauli.coherencyQC
  Pauli.complexCoherency Pauli.transformC Pauli.transformM
  Spinor.apply Spinor.add Spinor.smulR Spinor.smulC Spinor.computeStokes
  Minkowski.inner Minkowski.outer

/-- complex accumulation loops of length three / four -/
theorem sumFin_three_cx (f : Fin 3 → Cx K) : sumFin 3 f = f 0 + f 1 + f 2 := by
  apply Cx.ext'
  · rw [sumFin_cx_re, Fin.sum_univ_three]; rfl
  · rw [sumFin_cx_im, Fin.sum_univ_three]; rfl
theorem sumFin_four_cx (f : Fin 4 → Cx K) : sumFin 4 f = f 0 + f 1 + f 2 + f 3 := by
  apply Cx.ext'
  · rw [sumFin_cx_re, Fin.sum_univ_four]; rfl
  · rw [sumFin_cx_im, Fin.sum_univ_four]; rfl
attribute [epsic] sumFin_three_cx sumFin_four_cx

end Epsic
