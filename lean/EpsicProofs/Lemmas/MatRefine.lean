import EpsicProofs.Lemmas.Linear
import Mathlib.Data.Matrix.Basic
import Mathlib.Data.Matrix.Mul
import Mathlib.Data.Matrix.Block
import Mathlib.LinearAlgebra.Matrix.Trace
import Mathlib.LinearAlgebra.Matrix.NonsingularInverse
/-! Refinement of the model's loop-based vector/matrix operations to Mathlib's `Matrix`.
`Mat r c K` is definitionally `Matrix (Fin r) (Fin c) K`. -/
set_option linter.unusedSectionVars false
namespace Epsic
variable {K : Type} [Field K] [DecidableEq K]
open Matrix

/-- view a model matrix as a Mathlib matrix (the identity function) -/
def toM {r c : Nat} (m : Mat r c K) : Matrix (Fin r) (Fin c) K := m

theorem dot_eq {n : Nat} (a b : Vec n K) : Vec.dot a b = dotProduct a b := by
  simp [Vec.dot, sumFin_eq_sum, dotProduct]
theorem mul_eq {r k c : Nat} (a : Mat r k K) (b : Mat k c K) : toM (Mat.mul a b) = toM a * toM b := by
  funext i j
  show sumFin k (fun l => a i l * b l j) = (toM a * toM b) i j
  rw [sumFin_eq_sum, Matrix.mul_apply]; rfl
theorem mulVec_eq {r c : Nat} (m : Mat r c K) (v : Vec c K) : Mat.mulVec m v = (toM m) *ᵥ v := by
  funext i; simp [Mat.mulVec, dot_eq, Matrix.mulVec, toM]
theorem vecMul_eq {r c : Nat} (v : Vec r K) (m : Mat r c K) : Mat.vecMul v m = v ᵥ* (toM m) := by
  funext j; simp [Mat.vecMul, sumFin_eq_sum, Matrix.vecMul, dotProduct, toM, mul_comm]
theorem transpose_eq {r c : Nat} (m : Mat r c K) : toM (Mat.transpose m) = (toM m)ᵀ := rfl
theorem trace_eq {n : Nat} (m : Mat n n K) : Mat.trace m = Matrix.trace (toM m) := by
  show sumFin n (fun i => m i i) = Matrix.trace (toM m)
  rw [sumFin_eq_sum, Matrix.trace]; rfl
theorem add_eq {r c : Nat} (a b : Mat r c K) : toM (Mat.add a b) = toM a + toM b := rfl
theorem sub_eq {r c : Nat} (a b : Mat r c K) : toM (Mat.sub a b) = toM a - toM b := rfl
theorem neg_eq {r c : Nat} (a : Mat r c K) : toM (Mat.neg a) = - toM a := rfl
theorem identity_eq {n : Nat} : toM (Mat.identity : Mat n n K) = 1 := by
  funext i j; simp [toM, Mat.identity, Matrix.one_apply]
theorem outer_eq {r c : Nat} (a : Vec r K) (b : Vec c K) : toM (Mat.outer a b) = vecMulVec a b := by
  funext i j; simp [toM, Mat.outer, vecMulVec_apply]
theorem smul_eq {r c : Nat} (a : Mat r c K) (s : K) : toM (Mat.smul a s) = s • toM a := by
  funext i j
  show a i j * s = (s • toM a) i j
  rw [Matrix.smul_apply, smul_eq_mul, mul_comm]; rfl

end Epsic
