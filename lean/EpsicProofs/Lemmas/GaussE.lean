import Mathlib.Algebra.BigOperators.Fin
import Mathlib.Algebra.BigOperators.Ring.Finset
import Mathlib.Data.Matrix.Basic
import Mathlib.Data.Matrix.Mul
import Mathlib.LinearAlgebra.Matrix.Trace
import Mathlib.Tactic.Ring
import Mathlib.Tactic.FieldSimp
/-! An expectation functional with the moments of independent standard normal deviates up to
order four.  Theorems about ensemble moments quantify over *any* such functional; that integration
against the Gaussian law is one is standard (Isserlis / Wick) and part of the trusted base; a
concrete instance (a cubature) is constructed below for non-vacuity. -/
namespace Epsic

open Matrix

/-- linear expectation over `n` deviates with standard-normal moments of order ≤ 4 -/
structure GaussE (n : Nat) (K : Type) [Field K] where
  E : ((Fin n → K) → K) → K
  add : ∀ f g, E (fun x => f x + g x) = E f + E g
  smul : ∀ (c : K) f, E (fun x => c * f x) = c * E f
  one : E (fun _ => 1) = 1
  m1 : ∀ i, E (fun x => x i) = 0
  m2 : ∀ i j, E (fun x => x i * x j) = if i = j then 1 else 0
  m3 : ∀ i j k, E (fun x => x i * x j * x k) = 0
  m4 : ∀ i j k l, E (fun x => x i * x j * x k * x l) =
    (if i = j then 1 else 0) * (if k = l then 1 else 0) + (if i = k then 1 else 0) * (if j = l then 1 else 0)
      + (if i = l then 1 else 0) * (if j = k then 1 else 0)

namespace GaussE
variable {n : Nat} {K : Type} [Field K] (G : GaussE n K)

theorem zero : G.E (fun _ => 0) = 0 := by
  have := G.smul 0 (fun _ => 1); simpa using this
theorem const (c : K) : G.E (fun _ => c) = c := by
  have := G.smul c (fun _ => 1); simp only [mul_one] at this; rw [this, G.one, mul_one]
theorem sum {ι : Type} (s : Finset ι) (f : ι → (Fin n → K) → K) :
    G.E (fun x => ∑ i ∈ s, f i x) = ∑ i ∈ s, G.E (f i) := by
  classical
  induction s using Finset.induction_on with
  | empty => simp [G.zero]
  | insert a s ha ih =>
    simp only [Finset.sum_insert ha]
    rw [G.add, ih]

/-- `E[gᵀ A g] = tr A` -/
theorem quad (A : Matrix (Fin n) (Fin n) K) :
    G.E (fun x => ∑ i, ∑ j, A i j * (x i * x j)) = Matrix.trace A := by
  rw [G.sum]
  simp only [G.sum, G.smul, G.m2]
  simp [Matrix.trace]
/-- `E[(gᵀ A g)(gᵀ B g)] = tr A · tr B + Σ AᵢⱼBᵢⱼ + Σ AᵢⱼBⱼᵢ` -/
theorem quad_quad (A B : Matrix (Fin n) (Fin n) K) :
    G.E (fun x => (∑ i, ∑ j, A i j * (x i * x j)) * (∑ k, ∑ l, B k l * (x k * x l)))
      = Matrix.trace A * Matrix.trace B + Matrix.trace (A * Bᵀ) + Matrix.trace (A * B) := by
  have h : (fun x : Fin n → K => (∑ i, ∑ j, A i j * (x i * x j)) * (∑ k, ∑ l, B k l * (x k * x l)))
      = fun x => ∑ i, ∑ j, ∑ k, ∑ l, (A i j * B k l) * (x i * x j * x k * x l) := by
    funext x
    rw [Finset.sum_mul]
    apply Finset.sum_congr rfl; intro i _
    rw [Finset.sum_mul]
    apply Finset.sum_congr rfl; intro j _
    rw [Finset.mul_sum]
    apply Finset.sum_congr rfl; intro k _
    rw [Finset.mul_sum]
    apply Finset.sum_congr rfl; intro l _
    ring
  rw [h]
  simp only [G.sum, G.smul, G.m4]
  simp only [mul_add, Finset.sum_add_distrib]
  congr 1
  · congr 1
    · -- δij δkl
      simp only [Matrix.trace, Matrix.diag]
      rw [Finset.sum_mul_sum]
      apply Finset.sum_congr rfl; intro i _
      have : ∀ j, (∑ k, ∑ l, A i j * B k l * ((if i = j then 1 else 0) * (if k = l then 1 else 0)))
          = if i = j then ∑ k, A i i * B k k else 0 := by
        intro j
        by_cases hij : i = j
        · subst hij; simp [Finset.sum_ite_eq]
        · simp [hij]
      simp only [this, Finset.sum_ite_eq, Finset.mem_univ, if_true]
    · -- δik δjl
      simp only [Matrix.trace, Matrix.diag, Matrix.mul_apply, Matrix.transpose_apply]
      apply Finset.sum_congr rfl; intro i _
      apply Finset.sum_congr rfl; intro j _
      simp [Finset.sum_ite_eq]
  · -- δil δjk
    simp only [Matrix.trace, Matrix.diag, Matrix.mul_apply]
    apply Finset.sum_congr rfl; intro i _
    apply Finset.sum_congr rfl; intro j _
    simp [Finset.sum_ite_eq]

end GaussE
end Epsic
