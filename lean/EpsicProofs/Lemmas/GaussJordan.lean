import EpsicProofs.Lemmas.MatRefine
import Mathlib.Algebra.Order.Field.Basic
import Mathlib.Algebra.Order.AbsoluteValue.Basic
/-! Correctness of the Gauss–Jordan inverse (`EpsicModel/Gauss.lean`) for every size `n`, every
matrix and **every pivot strategy** that picks an unused row and an unused column. -/
set_option linter.unusedSectionVars false
set_option linter.unusedVariables false
namespace Epsic.Gauss
open Epsic Matrix
variable {K : Type} [Field K] [DecidableEq K] {n : Nat}

/-- a pivot strategy is admissible when it only returns unused rows and columns -/
def PickOK {c : Nat} (pick : Pick n c K) : Prop :=
  ∀ st r col, pick st = some (r, col) → st.used r = false ∧ st.used col = false

/-- the invariant: with `X = b · m`, the columns not yet used agree with `a`, the used ones are
unit columns -/
def Inv (m : Mat n n K) (st : State n n K) : Prop :=
  (∀ k, st.used k = false → ∀ j, st.a j k = (toM st.b * toM m) j k) ∧
  (∀ k, st.used k = true → ∀ j, (toM st.b * toM m) j k = if j = k then 1 else 0)

/-- the row operation of one step, on any matrix with `n` rows -/
def elim {p : Nat} (x : Mat n p K) (col : Fin n) (pivinv : K) (d : Fin n → K) : Mat n p K :=
  fun j k => if j = col then x col k * pivinv else x j k - (x col k * pivinv) * d j

theorem toM_mul_apply {p q : Nat} (x : Mat n p K) (M : Mat p q K) (i : Fin n) (j : Fin q) :
    (toM x * toM M) i j = ∑ l, x i l * M l j := by rw [Matrix.mul_apply]; rfl
theorem toM_apply {p : Nat} (x : Mat n p K) (i : Fin n) (j : Fin p) : toM x i j = x i j := rfl

theorem swapRows_mul {p q : Nat} (x : Mat n p K) (M : Mat p q K) (r s : Fin n) :
    toM (swapRows x r s) * toM M = toM (swapRows (toM x * toM M) r s) := by
  funext j k
  rw [toM_mul_apply, toM_apply]
  simp only [swapRows]
  split_ifs <;> rw [toM_mul_apply]

theorem elim_mul {p q : Nat} (x : Mat n p K) (M : Mat p q K) (col : Fin n) (pivinv : K) (d : Fin n → K) :
    toM (elim x col pivinv d) * toM M = toM (elim (toM x * toM M) col pivinv d) := by
  funext j k
  rw [toM_mul_apply, toM_apply]
  simp only [elim]
  split_ifs with h
  · rw [toM_mul_apply, Finset.sum_mul]; apply Finset.sum_congr rfl; intro l _; ring
  · rw [toM_mul_apply, toM_mul_apply, Finset.sum_mul, Finset.sum_mul, ← Finset.sum_sub_distrib]
    apply Finset.sum_congr rfl; intro l _; ring

/-- what `step` computes, when the pivot is non-zero -/
theorem step_ok (st : State n n K) (r col : Fin n) (st' : State n n K) (h : step st r col = .ok st') :
    swapRows st.a r col col col ≠ 0 ∧
    st'.b = elim (swapRows st.b r col) col (1 / swapRows st.a r col col col) (fun j => swapRows st.a r col j col) ∧
    (∀ j k, st'.a j k = if j = col then (if k = col then 1 else swapRows st.a r col col k) * (1 / swapRows st.a r col col col)
        else (if k = col then 0 else swapRows st.a r col j k)
          - ((if k = col then 1 else swapRows st.a r col col k) * (1 / swapRows st.a r col col col)) * swapRows st.a r col j col) ∧
    (∀ k, st'.used k = if k = col then true else st.used k) ∧
    st'.hist = st.hist ++ [(r, col)] := by
  unfold step at h
  by_cases hp : swapRows st.a r col col col = 0
  · simp [hp] at h
  · simp only [eq0_eq, hp, decide_false, Bool.false_eq_true, ↓reduceIte, one_eq, zero_eq] at h
    have := Except.ok.inj h
    subst this
    refine ⟨hp, ?_, ?_, ?_, rfl⟩
    · rfl
    · intro j k; rfl
    · intro k; rfl

theorem step_err (st : State n n K) (r col : Fin n) (hp : swapRows st.a r col col col = 0) :
    step st r col = .error .singular2 := by
  unfold step; simp [hp]

/-- one elimination step preserves the invariant -/
theorem step_inv (m : Mat n n K) (st st' : State n n K) (r col : Fin n)
    (hinv : Inv m st) (hr : st.used r = false) (hc : st.used col = false)
    (h : step st r col = .ok st') : Inv m st' := by
  obtain ⟨hp, hb, ha, hu, _⟩ := step_ok st r col st' h
  obtain ⟨I1, I2⟩ := hinv
  set X : Mat n n K := toM st.b * toM m with hX
  have hX' : toM st'.b * toM m = toM (elim (swapRows X r col) col (1 / swapRows st.a r col col col)
      (fun j => swapRows st.a r col j col)) := by
    rw [hb, elim_mul, swapRows_mul]; rfl
  -- on unused columns `a` and `X` agree also after the row swap
  have hsw : ∀ k, st.used k = false → ∀ j, swapRows st.a r col j k = swapRows X r col j k := by
    intro k hk j
    simp only [swapRows]
    split_ifs <;> exact I1 k hk _
  have hpiv : swapRows X r col col col = swapRows st.a r col col col := (hsw col hc col).symm
  constructor
  · -- columns still unused
    intro k hk j
    have hkc : k ≠ col := by
      intro e; rw [hu k, e] at hk; simp at hk
    have hk0 : st.used k = false := by rw [hu k] at hk; simpa [hkc] using hk
    rw [hX', ha j k]
    simp only [toM, elim, hkc, if_false]
    split_ifs with hj
    · rw [hsw k hk0 col]
    · rw [hsw k hk0 j, hsw k hk0 col]
  · -- used columns are unit columns
    intro k hk j
    rw [hX']
    simp only [toM, elim]
    by_cases hkc : k = col
    · subst hkc
      rw [hpiv, ← hsw k hc j]
      split_ifs with hj
      · subst hj; field_simp
      · have hjk : ¬ j = k := hj
        field_simp; ring
    · have hk1 : st.used k = true := by rw [hu k] at hk; simpa [hkc] using hk
      have hkr : k ≠ r := by intro e; rw [e, hr] at hk1; simp at hk1
      -- the swapped X still has the unit column k
      have hunit : ∀ j, swapRows X r col j k = if j = k then 1 else 0 := by
        intro j
        simp only [swapRows]
        split_ifs with h1 h2 h3 h4 h5
        · exact absurd (h1 ▸ h2 : r = k) (Ne.symm hkr)
        · rw [I2 k hk1 col]; simp [Ne.symm hkc]
        · exact absurd (h3 ▸ h4 : col = k) (Ne.symm hkc)
        · rw [I2 k hk1 r]; simp [Ne.symm hkr]
        · rw [I2 k hk1 j]; simp [h5]
        · rw [I2 k hk1 j]; simp [*]
      rw [hunit j, hunit col]
      have hck : ¬ col = k := fun e => hkc e.symm
      by_cases hj : j = col
      · have hjk : ¬ j = k := fun e => hck (hj ▸ e)
        simp [hj, hck]
      · by_cases hj2 : j = k
        · simp [hj, hj2, hck, hkc]
        · simp [hj, hj2, hck, hkc]

/-- number of used indices -/
def usedCount (st : State n n K) : Nat := (Finset.univ.filter (fun k => st.used k = true)).card

theorem usedCount_step (st st' : State n n K) (r col : Fin n) (hc : st.used col = false)
    (h : step st r col = .ok st') : usedCount st' = usedCount st + 1 := by
  obtain ⟨_, _, _, hu, _⟩ := step_ok st r col st' h
  unfold usedCount
  have : Finset.univ.filter (fun k => st'.used k = true)
      = insert col (Finset.univ.filter (fun k => st.used k = true)) := by
    ext k; simp only [Finset.mem_filter, Finset.mem_univ, true_and, Finset.mem_insert, hu k]
    by_cases hk : k = col <;> simp [hk]
  rw [this, Finset.card_insert_of_notMem]
  simp [hc]

/-- `run` preserves the invariant and counts the used indices -/
theorem run_inv (m : Mat n n K) (pick : Pick n n K) (hpick : PickOK pick) :
    ∀ (k : Nat) (st st' : State n n K), Inv m st → run pick k st = .ok st' →
      Inv m st' ∧ usedCount st' = usedCount st + k := by
  intro k
  induction k with
  | zero => intro st st' hinv h; simp only [run] at h; cases h; exact ⟨hinv, rfl⟩
  | succ k ih =>
    intro st st' hinv h
    simp only [run] at h
    cases hp : pick st with
    | none => simp [hp] at h
    | some p =>
      obtain ⟨r, col⟩ := p
      simp only [hp] at h
      obtain ⟨hr, hc⟩ := hpick st r col hp
      cases hs : step st r col with
      | error e => simp [hs] at h
      | ok st1 =>
        simp only [hs] at h
        obtain ⟨h1, h2⟩ := ih st1 st' (step_inv m st st1 r col hinv hr hc hs) h
        exact ⟨h1, by rw [h2, usedCount_step st st1 r col hc hs]; omega⟩

/-- **Main theorem.** Whatever admissible pivot order is used, a returned inverse is a two-sided
inverse. -/
theorem inv_correct (pick : Pick n n K) (hpick : PickOK pick) (m x : Mat n n K)
    (h : inv pick m = .ok x) : toM x * toM m = 1 ∧ toM m * toM x = 1 := by
  unfold inv gaussJordan at h
  cases hr : run pick n ⟨m, Mat.identity, fun _ => false, []⟩ with
  | error e => simp [hr] at h
  | ok st =>
    simp only [hr] at h
    have hx : x = st.b := by cases h; rfl
    have hinv0 : Inv m (⟨m, Mat.identity, fun _ => false, []⟩ : State n n K) := by
      constructor
      · intro k _ j
        show m j k = (toM (Mat.identity : Mat n n K) * toM m) j k
        rw [identity_eq, Matrix.one_mul]; rfl
      · intro k hk; simp at hk
    obtain ⟨⟨_, I2⟩, hcount⟩ := run_inv m pick hpick n _ st hinv0 hr
    have hcount0 : usedCount (⟨m, Mat.identity, fun _ => false, []⟩ : State n n K) = 0 := by
      simp [usedCount]
    have hall : ∀ k, st.used k = true := by
      have hcard : (Finset.univ.filter (fun k => st.used k = true)).card = (Finset.univ : Finset (Fin n)).card := by
        have := hcount; rw [hcount0] at this; simp only [usedCount] at this; simp [this]
      have := (Finset.card_eq_iff_eq_univ _).mp hcard
      intro k
      have hk : k ∈ Finset.univ.filter (fun k => st.used k = true) := by rw [this]; simp
      simpa using hk
    have hleft : toM st.b * toM m = 1 := by
      funext j k; rw [I2 k (hall k) j, Matrix.one_apply]
    rw [hx]
    exact ⟨hleft, mul_eq_one_comm.mp hleft⟩

/-- a singular matrix is never inverted: every admissible pivot order ends in an error -/
theorem inv_singular (pick : Pick n n K) (hpick : PickOK pick) (m : Mat n n K)
    (hdet : (toM m).det = 0) : ∃ e, inv pick m = .error e := by
  cases h : inv pick m with
  | error e => exact ⟨e, rfl⟩
  | ok x =>
    exfalso
    have := (inv_correct pick hpick m x h).1
    have hd := congrArg Matrix.det this
    rw [Matrix.det_mul, hdet, mul_zero, Matrix.det_one] at hd
    exact zero_ne_one hd

/-- the C++ pivot search (last largest magnitude among unused rows × unused columns) is admissible -/
theorem pickMax_ok {β : Type} (mag : K → β) (ge : β → β → Bool) (z : β) :
    PickOK (pickMax (n := n) (c := n) mag ge z) := by
  intro st r col h
  unfold pickMax at h
  -- every candidate is unused × unused, and the fold only ever returns candidates
  set cand : List (Fin n × Fin n) :=
    (List.finRange n).flatMap (fun j => if st.used j then [] else
      (List.finRange n).filterMap (fun k => if st.used k then none else some (j, k))) with hcand
  have hmem : ∀ p ∈ cand, st.used p.1 = false ∧ st.used p.2 = false := by
    intro p hp
    simp only [hcand, List.mem_flatMap, List.mem_finRange, true_and] at hp
    obtain ⟨j, hj⟩ := hp
    by_cases hu : st.used j = true
    · simp [hu] at hj
    · simp only [hu, Bool.false_eq_true, ↓reduceIte, List.mem_filterMap, List.mem_finRange, true_and] at hj
      obtain ⟨k, hk⟩ := hj
      by_cases hk2 : st.used k = true
      · simp [hk2] at hk
      · simp only [hk2, Bool.false_eq_true, ↓reduceIte, Option.some.injEq] at hk
        subst hk; simp_all
  have hfold : ∀ (l : List (Fin n × Fin n)) (acc : β × Option (Fin n × Fin n)),
      (∀ p ∈ l, p ∈ cand) → (∀ q, acc.2 = some q → q ∈ cand) →
      ∀ q, (l.foldl (fun (acc : β × Option (Fin n × Fin n)) p =>
        if ge (mag (st.a p.1 p.2)) acc.1 then (mag (st.a p.1 p.2), some p) else acc) acc).2 = some q → q ∈ cand := by
    intro l
    induction l with
    | nil => intro acc _ hacc q hq; exact hacc q hq
    | cons p ps ih =>
      intro acc hl hacc q hq
      simp only [List.foldl_cons] at hq
      apply ih _ (fun p' hp' => hl p' (List.mem_cons_of_mem _ hp')) _ q hq
      intro q' hq'
      split_ifs at hq' with hge
      · simp only [Option.some.injEq] at hq'; subst hq'; exact hl _ (List.mem_cons_self ..)
      · exact hacc q' hq'
  have := hfold cand (z, none) (fun p hp => hp) (by intro q hq; simp at hq) (r, col) h
  exact hmem _ this


/-! ## completeness: a non-singular matrix is always inverted -/
set_option linter.unusedSimpArgs false
/-- the inverse of the row operation `elim` -/
def elimInv {p : Nat} (x : Mat n p K) (col : Fin n) (piv : K) (d : Fin n → K) : Mat n p K :=
  fun j k => if j = col then x col k * piv else x j k + x col k * d j

theorem elimInv_mul {p q : Nat} (x : Mat n p K) (M : Mat p q K) (col : Fin n) (piv : K) (d : Fin n → K) :
    toM (elimInv x col piv d) * toM M = toM (elimInv (toM x * toM M) col piv d) := by
  funext j k
  rw [toM_mul_apply, toM_apply]
  simp only [elimInv]
  split_ifs with h
  · rw [toM_mul_apply, Finset.sum_mul]; apply Finset.sum_congr rfl; intro l _; ring
  · rw [toM_mul_apply, toM_mul_apply, Finset.sum_mul, ← Finset.sum_add_distrib]
    apply Finset.sum_congr rfl; intro l _; ring

theorem elim_elimInv {p : Nat} (x : Mat n p K) (col : Fin n) (piv pivinv : K) (d : Fin n → K) (h : piv * pivinv = 1) :
    elim (elimInv x col piv d) col pivinv d = x := by
  funext j k
  simp only [elim, elimInv]
  by_cases hj : j = col
  · subst hj; simp only [if_true]; rw [mul_assoc, h, mul_one]
  · simp only [hj, if_false, if_true]
    have : x col k * piv * pivinv = x col k := by rw [mul_assoc, h, mul_one]
    rw [this]; ring

theorem swapRows_swapRows {p : Nat} (x : Mat n p K) (r s : Fin n) : swapRows (swapRows x r s) r s = x := by
  funext i
  simp only [swapRows]
  by_cases h1 : i = r
  · subst h1
    by_cases h2 : s = i
    · subst h2; simp
    · simp [h2]
  · by_cases h2 : i = s
    · subst h2; simp [h1]
    · simp [h1, h2]

/-- the right operand has a right inverse: maintained by every elimination step -/
theorem step_rightInv (st st' : State n n K) (r col : Fin n) (h : step st r col = .ok st')
    (c : Matrix (Fin n) (Fin n) K) (hc : toM st.b * c = 1) :
    ∃ c', toM st'.b * c' = 1 := by
  obtain ⟨hp, hb, _, _, _⟩ := step_ok st r col st' h
  set piv := swapRows st.a r col col col with hpiv
  set d : Fin n → K := fun j => swapRows st.a r col j col with hd
  -- matrices of the two row operations and of their inverses
  let S : Matrix (Fin n) (Fin n) K := toM (swapRows (Mat.identity : Mat n n K) r col)
  let E : Matrix (Fin n) (Fin n) K := toM (elim (Mat.identity : Mat n n K) col (1 / piv) d)
  let Ei : Matrix (Fin n) (Fin n) K := toM (elimInv (Mat.identity : Mat n n K) col piv d)
  have hone : toM (Mat.identity : Mat n n K) = 1 := identity_eq
  have hS : ∀ x : Mat n n K, toM (swapRows x r col) = S * toM x := by
    intro x
    have := swapRows_mul (Mat.identity : Mat n n K) x r col
    rw [hone, Matrix.one_mul] at this
    exact this.symm
  have hE : ∀ x : Mat n n K, toM (elim x col (1 / piv) d) = E * toM x := by
    intro x
    have := elim_mul (Mat.identity : Mat n n K) x col (1 / piv) d
    rw [hone, Matrix.one_mul] at this
    exact this.symm
  have hSS : S * S = 1 := by
    have := hS (swapRows (Mat.identity : Mat n n K) r col)
    rw [swapRows_swapRows, hone] at this
    exact this.symm
  have hEEi : E * Ei = 1 := by
    have := hE (elimInv (Mat.identity : Mat n n K) col piv d)
    rw [elim_elimInv _ col piv (1 / piv) d (by field_simp), hone] at this
    exact this.symm
  refine ⟨c * (S * Ei), ?_⟩
  rw [hb, hE, hS]
  calc E * (S * toM st.b) * (c * (S * Ei)) = E * (S * (toM st.b * c) * S) * Ei := by simp only [Matrix.mul_assoc]
    _ = 1 := by rw [hc, Matrix.mul_one, hSS, Matrix.mul_one, hEEi]

/-- an unused row whose entries in all unused columns vanish makes `b · m`, hence `m`, singular -/
theorem stuck_singular (m : Mat n n K) (st : State n n K) (hinv : Inv m st)
    (c : Matrix (Fin n) (Fin n) K) (hc : toM st.b * c = 1) (j : Fin n) (hj : st.used j = false)
    (hz : ∀ k, st.used k = false → st.a j k = 0) : (toM m).det = 0 := by
  obtain ⟨I1, I2⟩ := hinv
  have hrow : ∀ k, (toM st.b * toM m) j k = 0 := by
    intro k
    by_cases hk : st.used k = true
    · rw [I2 k hk j]
      have : j ≠ k := by intro e; rw [e, hk] at hj; simp at hj
      simp [this]
    · have hk' : st.used k = false := by simpa using hk
      rw [← I1 k hk' j]; exact hz k hk'
  have hdetX : (toM st.b * toM m).det = 0 := Matrix.det_eq_zero_of_row_eq_zero j hrow
  rw [Matrix.det_mul] at hdetX
  have hdb : (toM st.b).det ≠ 0 := by
    intro h0
    have := congrArg Matrix.det hc
    rw [Matrix.det_mul, h0, zero_mul, Matrix.det_one] at this
    exact zero_ne_one this
  rcases mul_eq_zero.mp hdetX with h | h
  · exact absurd h hdb
  · exact h

/-- what the pivot search needs from the magnitude and its comparison -/
structure MagSpec {β : Type} (mag : K → β) (ge : β → β → Bool) (z : β) : Prop where
  ge_zero : ∀ x, ge (mag x) z = true
  total : ∀ a b, ge a b = true ∨ ge b a = true
  trans : ∀ a b c, ge a b = true → ge b c = true → ge a c = true
  zero_max : ∀ y, ge (mag 0) (mag y) = true → y = 0

/-- the candidates of the pivot search are exactly the pairs (unused row, unused column) -/
def candidates (st : State n n K) : List (Fin n × Fin n) :=
  (List.finRange n).flatMap (fun j => if st.used j then [] else
    (List.finRange n).filterMap (fun k => if st.used k then none else some (j, k)))
theorem mem_candidates (st : State n n K) (p : Fin n × Fin n) :
    p ∈ candidates st ↔ st.used p.1 = false ∧ st.used p.2 = false := by
  obtain ⟨a, b⟩ := p
  simp only [candidates, List.mem_flatMap, List.mem_finRange, true_and]
  constructor
  · rintro ⟨j, hj⟩
    by_cases hu : st.used j = true
    · simp [hu] at hj
    · simp only [hu, Bool.false_eq_true, ↓reduceIte, List.mem_filterMap, List.mem_finRange, true_and] at hj
      obtain ⟨k, hk⟩ := hj
      by_cases hk2 : st.used k = true
      · simp [hk2] at hk
      · simp only [hk2, Bool.false_eq_true, ↓reduceIte, Option.some.injEq, Prod.mk.injEq] at hk
        obtain ⟨rfl, rfl⟩ := hk
        exact ⟨by simpa using hu, by simpa using hk2⟩
  · rintro ⟨ha, hb⟩
    refine ⟨a, ?_⟩
    simp only [ha, Bool.false_eq_true, ↓reduceIte, List.mem_filterMap, List.mem_finRange, true_and]
    exact ⟨b, by simp [hb]⟩

/-- the fold of the pivot search returns a candidate of maximal magnitude -/
theorem fold_max {β : Type} (mag : K → β) (ge : β → β → Bool) (z : β) (hm : MagSpec mag ge z) (a : Mat n n K) :
    ∀ (l : List (Fin n × Fin n)) (acc : β × Option (Fin n × Fin n)),
      (acc.2 = none → acc.1 = z) → (∀ p, acc.2 = some p → acc.1 = mag (a p.1 p.2)) →
      let r := l.foldl (fun (acc : β × Option (Fin n × Fin n)) p =>
        if ge (mag (a p.1 p.2)) acc.1 then (mag (a p.1 p.2), some p) else acc) acc
      (∀ q ∈ l, ge r.1 (mag (a q.1 q.2)) = true) ∧ (∀ p, r.2 = some p → r.1 = mag (a p.1 p.2)) ∧
      ((acc.2 ≠ none ∨ l ≠ []) → r.2 ≠ none) ∧ ge r.1 acc.1 = true ∧ (∀ p, r.2 = some p → p ∈ l ∨ acc.2 = some p) := by
  intro l
  induction l with
  | nil =>
    intro acc h1 h2
    refine ⟨by simp, h2, by simp, ?_, fun p hp => Or.inr hp⟩
    rcases hm.total acc.1 acc.1 with h | h <;> exact h
  | cons p ps ih =>
    intro acc h1 h2
    simp only [List.foldl_cons]
    by_cases hge : ge (mag (a p.1 p.2)) acc.1 = true
    · simp only [hge, if_true]
      obtain ⟨i1, i2, i3, i4, i5⟩ := ih (mag (a p.1 p.2), some p) (by simp) (by intro q hq; simp at hq; rw [← hq])
      refine ⟨?_, i2, fun _ => i3 (Or.inl (by simp)), hm.trans _ _ _ i4 hge, ?_⟩
      · intro q hq
        rcases List.mem_cons.mp hq with rfl | hq
        · exact i4
        · exact i1 q hq
      · intro q hq
        rcases i5 q hq with h | h
        · exact Or.inl (List.mem_cons_of_mem _ h)
        · simp at h; exact Or.inl (h ▸ List.mem_cons_self ..)
    · have hfalse : ge (mag (a p.1 p.2)) acc.1 = false := by simpa using hge
      simp only [hfalse, Bool.false_eq_true, if_false]
      have hge' : ge acc.1 (mag (a p.1 p.2)) = true := by
        rcases hm.total (mag (a p.1 p.2)) acc.1 with h | h
        · exact absurd h hge
        · exact h
      have hsome : acc.2 ≠ none := by
        intro hnone
        rw [h1 hnone] at hge; exact hge (hm.ge_zero _)
      obtain ⟨i1, i2, i3, i4, i5⟩ := ih acc h1 h2
      refine ⟨?_, i2, fun _ => i3 (Or.inl hsome), i4, ?_⟩
      · intro q hq
        rcases List.mem_cons.mp hq with rfl | hq
        · exact hm.trans _ _ _ i4 hge'
        · exact i1 q hq
      · intro q hq
        rcases i5 q hq with h | h
        · exact Or.inl (List.mem_cons_of_mem _ h)
        · exact Or.inr h

theorem pickMax_eq_fold {β : Type} (mag : K → β) (ge : β → β → Bool) (z : β) (st : State n n K) :
    pickMax (n := n) (c := n) mag ge z st = ((candidates st).foldl (fun (acc : β × Option (Fin n × Fin n)) p =>
        if ge (mag (st.a p.1 p.2)) acc.1 then (mag (st.a p.1 p.2), some p) else acc) (z, none)).2 := rfl

/-- the pivot search: whenever an unused index exists it returns an (unused row, unused column) pair whose
entry has maximal magnitude among all such pairs -/
theorem pickMax_max {β : Type} (mag : K → β) (ge : β → β → Bool) (z : β) (hm : MagSpec mag ge z) (st : State n n K)
    (j : Fin n) (hj : st.used j = false) :
    ∃ r col, pickMax (n := n) (c := n) mag ge z st = some (r, col) ∧ st.used r = false ∧ st.used col = false ∧
      ∀ r' col', st.used r' = false → st.used col' = false → ge (mag (st.a r col)) (mag (st.a r' col')) = true := by
  have hne : candidates st ≠ [] := by
    intro h
    have : (j, j) ∈ candidates st := (mem_candidates st (j, j)).mpr ⟨hj, hj⟩
    rw [h] at this; simp at this
  obtain ⟨i1, i2, i3, _, i5⟩ := fold_max mag ge z hm st.a (candidates st) (z, none) (fun _ => rfl) (by intro p hp; simp at hp)
  rw [← pickMax_eq_fold] at i2 i3 i5
  cases hp : pickMax (n := n) (c := n) mag ge z st with
  | none => exact absurd hp (i3 (Or.inr hne))
  | some p =>
    obtain ⟨r, col⟩ := p
    have hmem : (r, col) ∈ candidates st := by
      rcases i5 (r, col) hp with h | h
      · exact h
      · simp at h
    obtain ⟨hr, hc⟩ := (mem_candidates st (r, col)).mp hmem
    refine ⟨r, col, rfl, hr, hc, ?_⟩
    intro r' col' hr' hc'
    have := i1 (r', col') ((mem_candidates st (r', col')).mpr ⟨hr', hc'⟩)
    rw [i2 (r, col) hp] at this
    exact this

theorem swapRows_pivot (x : Mat n n K) (r col : Fin n) : swapRows x r col col col = x r col := by
  simp only [swapRows]
  by_cases h : col = r
  · subst h; simp
  · simp [h]

theorem exists_unused (st : State n n K) (h : usedCount st < n) : ∃ j, st.used j = false := by
  by_contra hcon
  have hall : ∀ j, st.used j = true := by
    intro j; by_contra hj; exact hcon ⟨j, by simpa using hj⟩
  have : Finset.univ.filter (fun k => st.used k = true) = (Finset.univ : Finset (Fin n)) := by
    ext k; simp [hall k]
  unfold usedCount at h
  rw [this, Finset.card_univ, Fintype.card_fin] at h
  exact lt_irrefl _ h

/-- with the code's pivot search a non-singular matrix is never reported singular: every step finds a
non-zero pivot -/
theorem run_complete {β : Type} (mag : K → β) (ge : β → β → Bool) (z : β) (hm : MagSpec mag ge z) (m : Mat n n K)
    (hdet : (toM m).det ≠ 0) :
    ∀ (k : Nat) (st : State n n K), Inv m st → (∃ c, toM st.b * c = 1) → usedCount st + k = n →
      ∃ st', run (pickMax mag ge z) k st = .ok st' := by
  intro k
  induction k with
  | zero => intro st _ _ _; exact ⟨st, rfl⟩
  | succ k ih =>
    intro st hinv ⟨c, hc⟩ hcount
    obtain ⟨j, hj⟩ := exists_unused st (by omega)
    obtain ⟨r, col, hpick, hr, hcol, hmax⟩ := pickMax_max mag ge z hm st j hj
    simp only [run, hpick]
    have hpiv : swapRows st.a r col col col ≠ 0 := by
      rw [swapRows_pivot]
      intro h0
      apply hdet
      apply stuck_singular m st hinv c hc r hr
      intro k' hk'
      have := hmax r k' hr hk'
      rw [h0] at this
      exact hm.zero_max _ this
    cases hs : step st r col with
    | error e =>
      exfalso
      unfold step at hs
      simp [hpiv] at hs
    | ok st1 =>
      simp only []
      exact ih st1 (step_inv m st st1 r col hinv hr hcol hs) (step_rightInv st st1 r col hs c hc)
        (by rw [usedCount_step st st1 r col hcol hs]; omega)

/-- **completeness**: for every non-singular matrix the Gauss–Jordan inverse with the code's pivot
search returns (and by `inv_correct` what it returns is the two-sided inverse) -/
theorem inv_complete {β : Type} (mag : K → β) (ge : β → β → Bool) (z : β) (hm : MagSpec mag ge z) (m : Mat n n K)
    (hdet : (toM m).det ≠ 0) :
    ∃ x, inv (pickMax mag ge z) m = .ok x ∧ toM x * toM m = 1 ∧ toM m * toM x = 1 := by
  have hinv0 : Inv m (⟨m, Mat.identity, fun _ => false, []⟩ : State n n K) := by
    constructor
    · intro k _ j
      show m j k = (toM (Mat.identity : Mat n n K) * toM m) j k
      rw [identity_eq, Matrix.one_mul]; rfl
    · intro k hk; simp at hk
  have hcount0 : usedCount (⟨m, Mat.identity, fun _ => false, []⟩ : State n n K) = 0 := by simp [usedCount]
  obtain ⟨st', hrun⟩ := run_complete mag ge z hm m hdet n _ hinv0 ⟨1, by rw [identity_eq]; simp⟩ (by rw [hcount0]; simp)
  have hx : inv (pickMax mag ge z) m = .ok st'.b := by
    simp [inv, gaussJordan, hrun]
  exact ⟨st'.b, hx, inv_correct _ (pickMax_ok mag ge z) m st'.b hx⟩

/-- the magnitude the code uses (`fabs`, compared with `>=`, starting from 0) meets `MagSpec` over any ordered field -/
theorem magSpec_abs {F : Type} [Field F] [LinearOrder F] [IsStrictOrderedRing F] [DecidableEq F] :
    MagSpec (fun x : F => |x|) (fun a b => decide (a ≥ b)) (0 : F) where
  ge_zero x := by simp
  total a b := by simp; exact le_total b a
  trans a b c h1 h2 := by simp at *; exact le_trans h2 h1
  zero_max y h := by simpa using h
end Epsic.Gauss
