import EpsicProofs.Lemmas.MatRefine
/-! Correctness of the Gauss–Jordan inverse (`EpsicModel/Gauss.lean`) for every size `n`, every
matrix and **every pivot strategy** that picks an unused row and an unused column. -/
set_option linter.unusedSectionVars false
set_option linter.unusedVariables false
namespace Epsic.Gauss
open Epsic Matrix
variable {K : Type} [Field K] [DecidableEq K] {n : Nat}

/-- a pivot strategy is admissible when it only returns unused rows and columns -/
def PickOK {c : Nat} (pick : Pick n c K) : Prop :=
  ∀ st r col, pick st = some (r, col) → st.used r = false ∧ st.used col = false

/-- the invariant: with `X = b · m`, the columns not yet used agree with `a`, the used ones are
unit columns -/
def Inv (m : Mat n n K) (st : State n n K) : Prop :=
  (∀ k, st.used k = false → ∀ j, st.a j k = (toM st.b * toM m) j k) ∧
  (∀ k, st.used k = true → ∀ j, (toM st.b * toM m) j k = if j = k then 1 else 0)

/-- the row operation of one step, on any matrix with `n` rows -/
def elim {p : Nat} (x : Mat n p K) (col : Fin n) (pivinv : K) (d : Fin n → K) : Mat n p K :=
  fun j k => if j = col then x col k * pivinv else x j k - (x col k * pivinv) * d j

theorem toM_mul_apply {p q : Nat} (x : Mat n p K) (M : Mat p q K) (i : Fin n) (j : Fin q) :
    (toM x * toM M) i j = ∑ l, x i l * M l j := by rw [Matrix.mul_apply]; rfl
theorem toM_apply {p : Nat} (x : Mat n p K) (i : Fin n) (j : Fin p) : toM x i j = x i j := rfl

theorem swapRows_mul {p q : Nat} (x : Mat n p K) (M : Mat p q K) (r s : Fin n) :
    toM (swapRows x r s) * toM M = toM (swapRows (toM x * toM M) r s) := by
  funext j k
  rw [toM_mul_apply, toM_apply]
  simp only [swapRows]
  split_ifs <;> rw [toM_mul_apply]

theorem elim_mul {p q : Nat} (x : Mat n p K) (M : Mat p q K) (col : Fin n) (pivinv : K) (d : Fin n → K) :
    toM (elim x col pivinv d) * toM M = toM (elim (toM x * toM M) col pivinv d) := by
  funext j k
  rw [toM_mul_apply, toM_apply]
  simp only [elim]
  split_ifs with h
  · rw [toM_mul_apply, Finset.sum_mul]; apply Finset.sum_congr rfl; intro l _; ring
  · rw [toM_mul_apply, toM_mul_apply, Finset.sum_mul, Finset.sum_mul, ← Finset.sum_sub_distrib]
    apply Finset.sum_congr rfl; intro l _; ring

/-- what `step` computes, when the pivot is non-zero -/
theorem step_ok (st : State n n K) (r col : Fin n) (st' : State n n K) (h : step st r col = .ok st') :
    swapRows st.a r col col col ≠ 0 ∧
    st'.b = elim (swapRows st.b r col) col (1 / swapRows st.a r col col col) (fun j => swapRows st.a r col j col) ∧
    (∀ j k, st'.a j k = if j = col then (if k = col then 1 else swapRows st.a r col col k) * (1 / swapRows st.a r col col col)
        else (if k = col then 0 else swapRows st.a r col j k)
          - ((if k = col then 1 else swapRows st.a r col col k) * (1 / swapRows st.a r col col col)) * swapRows st.a r col j col) ∧
    (∀ k, st'.used k = if k = col then true else st.used k) ∧
    st'.hist = st.hist ++ [(r, col)] := by
  unfold step at h
  by_cases hp : swapRows st.a r col col col = 0
  · simp [hp] at h
  · simp only [eq0_eq, hp, decide_false, Bool.false_eq_true, ↓reduceIte, one_eq, zero_eq] at h
    have := Except.ok.inj h
    subst this
    refine ⟨hp, ?_, ?_, ?_, rfl⟩
    · rfl
    · intro j k; rfl
    · intro k; rfl

theorem step_err (st : State n n K) (r col : Fin n) (hp : swapRows st.a r col col col = 0) :
    step st r col = .error .singular2 := by
  unfold step; simp [hp]

/-- one elimination step preserves the invariant -/
theorem step_inv (m : Mat n n K) (st st' : State n n K) (r col : Fin n)
    (hinv : Inv m st) (hr : st.used r = false) (hc : st.used col = false)
    (h : step st r col = .ok st') : Inv m st' := by
  obtain ⟨hp, hb, ha, hu, _⟩ := step_ok st r col st' h
  obtain ⟨I1, I2⟩ := hinv
  set X : Mat n n K := toM st.b * toM m with hX
  have hX' : toM st'.b * toM m = toM (elim (swapRows X r col) col (1 / swapRows st.a r col col col)
      (fun j => swapRows st.a r col j col)) := by
    rw [hb, elim_mul, swapRows_mul]; rfl
  -- on unused columns `a` and `X` agree also after the row swap
  have hsw : ∀ k, st.used k = false → ∀ j, swapRows st.a r col j k = swapRows X r col j k := by
    intro k hk j
    simp only [swapRows]
    split_ifs <;> exact I1 k hk _
  have hpiv : swapRows X r col col col = swapRows st.a r col col col := (hsw col hc col).symm
  constructor
  · -- columns still unused
    intro k hk j
    have hkc : k ≠ col := by
      intro e; rw [hu k, e] at hk; simp at hk
    have hk0 : st.used k = false := by rw [hu k] at hk; simpa [hkc] using hk
    rw [hX', ha j k]
    simp only [toM, elim, hkc, if_false]
    split_ifs with hj
    · rw [hsw k hk0 col]
    · rw [hsw k hk0 j, hsw k hk0 col]
  · -- used columns are unit columns
    intro k hk j
    rw [hX']
    simp only [toM, elim]
    by_cases hkc : k = col
    · subst hkc
      rw [hpiv, ← hsw k hc j]
      split_ifs with hj
      · subst hj; field_simp
      · have hjk : ¬ j = k := hj
        field_simp; ring
    · have hk1 : st.used k = true := by rw [hu k] at hk; simpa [hkc] using hk
      have hkr : k ≠ r := by intro e; rw [e, hr] at hk1; simp at hk1
      -- the swapped X still has the unit column k
      have hunit : ∀ j, swapRows X r col j k = if j = k then 1 else 0 := by
        intro j
        simp only [swapRows]
        split_ifs with h1 h2 h3 h4 h5
        · exact absurd (h1 ▸ h2 : r = k) (Ne.symm hkr)
        · rw [I2 k hk1 col]; simp [Ne.symm hkc]
        · exact absurd (h3 ▸ h4 : col = k) (Ne.symm hkc)
        · rw [I2 k hk1 r]; simp [Ne.symm hkr]
        · rw [I2 k hk1 j]; simp [h5]
        · rw [I2 k hk1 j]; simp [*]
      rw [hunit j, hunit col]
      have hck : ¬ col = k := fun e => hkc e.symm
      by_cases hj : j = col
      · have hjk : ¬ j = k := fun e => hck (hj ▸ e)
        simp [hj, hck]
      · by_cases hj2 : j = k
        · simp [hj, hj2, hck, hkc]
        · simp [hj, hj2, hck, hkc]

/-- number of used indices -/
def usedCount (st : State n n K) : Nat := (Finset.univ.filter (fun k => st.used k = true)).card

theorem usedCount_step (st st' : State n n K) (r col : Fin n) (hc : st.used col = false)
    (h : step st r col = .ok st') : usedCount st' = usedCount st + 1 := by
  obtain ⟨_, _, _, hu, _⟩ := step_ok st r col st' h
  unfold usedCount
  have : Finset.univ.filter (fun k => st'.used k = true)
      = insert col (Finset.univ.filter (fun k => st.used k = true)) := by
    ext k; simp only [Finset.mem_filter, Finset.mem_univ, true_and, Finset.mem_insert, hu k]
    by_cases hk : k = col <;> simp [hk]
  rw [this, Finset.card_insert_of_notMem]
  simp [hc]

/-- `run` preserves the invariant and counts the used indices -/
theorem run_inv (m : Mat n n K) (pick : Pick n n K) (hpick : PickOK pick) :
    ∀ (k : Nat) (st st' : State n n K), Inv m st → run pick k st = .ok st' →
      Inv m st' ∧ usedCount st' = usedCount st + k := by
  intro k
  induction k with
  | zero => intro st st' hinv h; simp only [run] at h; cases h; exact ⟨hinv, rfl⟩
  | succ k ih =>
    intro st st' hinv h
    simp only [run] at h
    cases hp : pick st with
    | none => simp [hp] at h
    | some p =>
      obtain ⟨r, col⟩ := p
      simp only [hp] at h
      obtain ⟨hr, hc⟩ := hpick st r col hp
      cases hs : step st r col with
      | error e => simp [hs] at h
      | ok st1 =>
        simp only [hs] at h
        obtain ⟨h1, h2⟩ := ih st1 st' (step_inv m st st1 r col hinv hr hc hs) h
        exact ⟨h1, by rw [h2, usedCount_step st st1 r col hc hs]; omega⟩

/-- **Main theorem.** Whatever admissible pivot order is used, a returned inverse is a two-sided
inverse. -/
theorem inv_correct (pick : Pick n n K) (hpick : PickOK pick) (m x : Mat n n K)
    (h : inv pick m = .ok x) : toM x * toM m = 1 ∧ toM m * toM x = 1 := by
  unfold inv gaussJordan at h
  cases hr : run pick n ⟨m, Mat.identity, fun _ => false, []⟩ with
  | error e => simp [hr] at h
  | ok st =>
    simp only [hr] at h
    have hx : x = st.b := by cases h; rfl
    have hinv0 : Inv m (⟨m, Mat.identity, fun _ => false, []⟩ : State n n K) := by
      constructor
      · intro k _ j
        show m j k = (toM (Mat.identity : Mat n n K) * toM m) j k
        rw [identity_eq, Matrix.one_mul]; rfl
      · intro k hk; simp at hk
    obtain ⟨⟨_, I2⟩, hcount⟩ := run_inv m pick hpick n _ st hinv0 hr
    have hcount0 : usedCount (⟨m, Mat.identity, fun _ => false, []⟩ : State n n K) = 0 := by
      simp [usedCount]
    have hall : ∀ k, st.used k = true := by
      have hcard : (Finset.univ.filter (fun k => st.used k = true)).card = (Finset.univ : Finset (Fin n)).card := by
        have := hcount; rw [hcount0] at this; simp only [usedCount] at this; simp [this]
      have := (Finset.card_eq_iff_eq_univ _).mp hcard
      intro k
      have hk : k ∈ Finset.univ.filter (fun k => st.used k = true) := by rw [this]; simp
      simpa using hk
    have hleft : toM st.b * toM m = 1 := by
      funext j k; rw [I2 k (hall k) j, Matrix.one_apply]
    rw [hx]
    exact ⟨hleft, mul_eq_one_comm.mp hleft⟩

/-- a singular matrix is never inverted: every admissible pivot order ends in an error -/
theorem inv_singular (pick : Pick n n K) (hpick : PickOK pick) (m : Mat n n K)
    (hdet : (toM m).det = 0) : ∃ e, inv pick m = .error e := by
  cases h : inv pick m with
  | error e => exact ⟨e, rfl⟩
  | ok x =>
    exfalso
    have := (inv_correct pick hpick m x h).1
    have hd := congrArg Matrix.det this
    rw [Matrix.det_mul, hdet, mul_zero, Matrix.det_one] at hd
    exact zero_ne_one hd

/-- the C++ pivot search (last largest magnitude among unused rows × unused columns) is admissible -/
theorem pickMax_ok {β : Type} (mag : K → β) (ge : β → β → Bool) (z : β) :
    PickOK (pickMax (n := n) (c := n) mag ge z) := by
  intro st r col h
  unfold pickMax at h
  -- every candidate is unused × unused, and the fold only ever returns candidates
  set cand : List (Fin n × Fin n) :=
    (List.finRange n).flatMap (fun j => if st.used j then [] else
      (List.finRange n).filterMap (fun k => if st.used k then none else some (j, k))) with hcand
  have hmem : ∀ p ∈ cand, st.used p.1 = false ∧ st.used p.2 = false := by
    intro p hp
    simp only [hcand, List.mem_flatMap, List.mem_finRange, true_and] at hp
    obtain ⟨j, hj⟩ := hp
    by_cases hu : st.used j = true
    · simp [hu] at hj
    · simp only [hu, Bool.false_eq_true, ↓reduceIte, List.mem_filterMap, List.mem_finRange, true_and] at hj
      obtain ⟨k, hk⟩ := hj
      by_cases hk2 : st.used k = true
      · simp [hk2] at hk
      · simp only [hk2, Bool.false_eq_true, ↓reduceIte, Option.some.injEq] at hk
        subst hk; simp_all
  have hfold : ∀ (l : List (Fin n × Fin n)) (acc : β × Option (Fin n × Fin n)),
      (∀ p ∈ l, p ∈ cand) → (∀ q, acc.2 = some q → q ∈ cand) →
      ∀ q, (l.foldl (fun (acc : β × Option (Fin n × Fin n)) p =>
        if ge (mag (st.a p.1 p.2)) acc.1 then (mag (st.a p.1 p.2), some p) else acc) acc).2 = some q → q ∈ cand := by
    intro l
    induction l with
    | nil => intro acc _ hacc q hq; exact hacc q hq
    | cons p ps ih =>
      intro acc hl hacc q hq
      simp only [List.foldl_cons] at hq
      apply ih _ (fun p' hp' => hl p' (List.mem_cons_of_mem _ hp')) _ q hq
      intro q' hq'
      split_ifs at hq' with hge
      · simp only [Option.some.injEq] at hq'; subst hq'; exact hl _ (List.mem_cons_self ..)
      · exact hacc q' hq'
  have := hfold cand (z, none) (fun p hp => hp) (by intro q hq; simp at hq) (r, col) h
  exact hmem _ this

end Epsic.Gauss
