import EpsicProofs.Attr
import EpsicProofs.FieldArith
/-! Unfolding lemmas for Jones matrices, quaternions and the Pauli conversions. -/
set_option linter.unusedSectionVars false
namespace Epsic
variable {K : Type} [Field K] [DecidableEq K]

namespace Jones
@[ext] theorem ext' {a b : Jones K} (h0 : a.j00 = b.j00) (h1 : a.j01 = b.j01)
    (h2 : a.j10 = b.j10) (h3 : a.j11 = b.j11) : a = b := by cases a; cases b; simp_all
@[epsic] theorem add_def (a b : Jones K) : a + b = Jones.add a b := rfl
@[epsic] theorem sub_def (a b : Jones K) : a - b = Jones.sub a b := rfl
@[epsic] theorem mul_def (a b : Jones K) : a * b = Jones.mul a b := rfl
@[epsic] theorem neg_def (a : Jones K) : -a = Jones.neg a := rfl
attribute [epsic] Jones.add Jones.sub Jones.mul Jones.neg Jones.smulC Jones.smulR Jones.det Jones.trace
  Jones.norm Jones.conj Jones.herm Jones.ofScalar Jones.identity Jones.zeroJ Jones.get Jones.set
  Jones.get2 Jones.rcIndex Jones.toList
end Jones

namespace Quat
@[ext] theorem ext' {β : Type} {a b : Quat β} (h0 : a.s0 = b.s0) (h1 : a.s1 = b.s1)
    (h2 : a.s2 = b.s2) (h3 : a.s3 = b.s3) : a = b := by cases a; cases b; simp_all
@[epsic] theorem add_def {β : Type} [Arith β] (a b : Quat β) : a + b = Quat.add a b := rfl
@[epsic] theorem sub_def {β : Type} [Arith β] (a b : Quat β) : a - b = Quat.sub a b := rfl
@[epsic] theorem neg_def {β : Type} [Arith β] (a : Quat β) : -a = Quat.neg a := rfl
attribute [epsic] Quat.add Quat.sub Quat.neg Quat.smul Quat.mulU Quat.mulH Quat.detH Quat.detU
  Quat.trace Quat.normR Quat.normC Quat.realQ Quat.imagQ Quat.ofReal Quat.conjHC Quat.conjUC
  Quat.hermHC Quat.hermUC Quat.conjHR Quat.conjUR Quat.hermHR Quat.hermUR Quat.ofScalar
  Quat.identity Quat.addScalar Quat.subScalar Quat.get Quat.set Quat.getVector Quat.ofScalarVector
  Quat.smulC Quat.toList
end Quat

attribute [epsic] Pauli.convertHC Pauli.convertUC Pauli.convertHR Pauli.convertUR Pauli.toHermitian
  Pauli.toUnitary Pauli.matrix

attribute [epsic] Cx.add_re Cx.add_im Cx.sub_re Cx.sub_im Cx.mul_re Cx.mul_im Cx.neg_re Cx.neg_im
  Cx.conj_re Cx.conj_im Cx.ci_re Cx.ci_im Cx.smul_re Cx.smul_im Cx.ofReal_re Cx.ofReal_im
  Cx.ciReal_re Cx.ciReal_im Cx.zero_re Cx.zero_im Cx.one_re Cx.one_im Cx.two_re Cx.two_im
  Cx.half_re Cx.half_im Cx.mk_re Cx.mk_im Cx.divRaw_re Cx.divRaw_im
  zero_eq one_eq two_eq half_eq

end Epsic
