import EpsicProofs.Lemmas.MatRefine
import Mathlib.Algebra.Order.Field.Basic
import Mathlib.Tactic.Positivity
import Mathlib.Tactic.Linarith
import Mathlib.Algebra.Order.BigOperators.Group.Finset
import Mathlib.Algebra.Order.AbsoluteValue.Basic
/-! The n×n real symmetric Jacobi solver (`EpsicModel.Jacobi`): every rotation is an exact plane rotation,
the invariants `a = V A₀ Vᵀ`, `V Vᵀ = 1`, `eval = diag a` hold after every step of every sweep. -/
set_option linter.unusedSectionVars false
set_option linter.unusedVariables false
set_option linter.unusedSimpArgs false
namespace Epsic.Jacobi
open Epsic
variable {K : Type} [Field K] [LinearOrder K] [IsStrictOrderedRing K] [DecidableEq K] {n : Nat}

structure LeafSpec (L : SolverLeaves K) : Prop where
  abs_eq : ∀ x, L.abs x = |x|
  sqrt_sq : ∀ x, 0 ≤ x → L.sqrt x * L.sqrt x = x
  sqrt_nonneg : ∀ x, 0 ≤ x → 0 ≤ L.sqrt x
  eq_eq : ∀ a b, L.eq a b = decide (a = b)
  lt_eq : ∀ x, L.ltZero x = decide (x < 0)
  gt_eq : ∀ a b, L.gt a b = decide (a > b)
  hundred_pos : 0 < L.hundred
  fifth_nonneg : 0 ≤ L.fifth

theorem sqrt_pos_of (L : SolverLeaves K) (hL : LeafSpec L) (x : K) (hx : 0 < x) : 0 < L.sqrt x := by
  have h1 := hL.sqrt_sq x hx.le
  have h2 := hL.sqrt_nonneg x hx.le
  rcases h2.lt_or_eq with h | h
  · exact h
  · rw [← h] at h1; simp at h1; linarith

/-- the smaller root of `t² + 2θt − 1 = 0` as the code computes it -/
theorem tan_root (L : SolverLeaves K) (hL : LeafSpec L) (θ : K) :
    let t0 := 1 / (L.abs θ + L.sqrt (1 + θ*θ))
    let t := if L.ltZero θ then -t0 else t0
    t*t + 2*θ*t - 1 = 0 := by
  intro t0 t
  have hpos : 0 < 1 + θ*θ := by nlinarith [mul_self_nonneg θ]
  have hw := hL.sqrt_sq _ hpos.le
  have hw0 := sqrt_pos_of L hL _ hpos
  have hden : 0 < L.abs θ + L.sqrt (1 + θ*θ) := by rw [hL.abs_eq]; have := abs_nonneg θ; linarith
  have ht0 : t0 * (L.abs θ + L.sqrt (1 + θ*θ)) = 1 := by simp only [t0]; exact one_div_mul_cancel hden.ne'
  have habs2 : L.abs θ * L.abs θ = θ*θ := by rw [hL.abs_eq]; exact abs_mul_abs_self θ
  -- t0² + 2|θ| t0 − 1 = 0
  have key : t0*t0 + 2*L.abs θ*t0 - 1 = 0 := by
    have : t0*t0 + 2*L.abs θ*t0 - 1 = t0*t0*(1 + θ*θ - L.sqrt (1 + θ*θ) * L.sqrt (1 + θ*θ)) + (t0 * (L.abs θ + L.sqrt (1 + θ*θ)) - 1) * (t0 * (L.abs θ + L.sqrt (1 + θ*θ)) + 1 ) - t0*t0*(θ*θ - L.abs θ * L.abs θ) - 2*t0*L.abs θ*(t0 * (L.abs θ + L.sqrt (1 + θ*θ)) - 1) := by ring
    rw [this, hw, ht0, habs2]; ring
  by_cases hθ : θ < 0
  · have : t = -t0 := by simp only [t, hL.lt_eq, hθ, decide_true, if_true]
    rw [this]
    have ha : L.abs θ = -θ := by rw [hL.abs_eq]; exact abs_of_neg hθ
    rw [ha] at key; linear_combination key
  · have : t = t0 := by simp only [t, hL.lt_eq, hθ, decide_false]; simp
    rw [this]
    have ha : L.abs θ = θ := by rw [hL.abs_eq]; exact abs_of_nonneg (not_lt.mp hθ)
    rw [ha] at key; linear_combination key

end Epsic.Jacobi
namespace Epsic.Jacobi
open Epsic
variable {K : Type} [Field K] [LinearOrder K] [IsStrictOrderedRing K] [DecidableEq K] {n : Nat}

/-- `calculate_Jacobi` (real) on a non-zero off-diagonal element: the rotation parameters -/
theorem calc_spec (L : SolverLeaves K) (hL : LeafSpec L) (p q pq : K) (hpq : pq ≠ 0) :
    ∃ c t : K, 0 < c ∧ c*c*(1 + t*t) = 1 ∧ t*t*pq + t*(q - p) - pq = 0 ∧
      calculateReal L.abs L.sqrt L.eq L.ltZero L.hundred p q pq = ⟨t*c, t*c/(1 + c), t*pq⟩ := by
  have hg : 0 < L.hundred * L.abs pq := mul_pos hL.hundred_pos (by rw [hL.abs_eq]; exact abs_pos.mpr hpq)
  have hbr : L.eq (L.abs (q - p) + L.hundred * L.abs pq) (L.abs (q - p)) = false := by
    rw [hL.eq_eq]; simp only [decide_eq_false_iff_not]; intro h; linarith
  have hroot := tan_root L hL (1/2 * (q - p) / pq)
  simp only at hroot
  set t0 := 1 / (L.abs (1/2 * (q - p) / pq) + L.sqrt (1 + 1/2 * (q - p) / pq * (1/2 * (q - p) / pq))) with ht0
  set t := (if L.ltZero (1/2 * (q - p) / pq) then -t0 else t0) with ht
  have hpos : 0 < 1 + t*t := by nlinarith [mul_self_nonneg t]
  have hw := hL.sqrt_sq _ hpos.le
  have hw0 := sqrt_pos_of L hL _ hpos
  refine ⟨1 / L.sqrt (1 + t*t), t, by positivity, ?_, ?_, ?_⟩
  · have hne := hw0.ne'
    have : (1 / L.sqrt (1 + t*t)) * (1 / L.sqrt (1 + t*t)) * (1 + t*t) = (1 + t*t) / (L.sqrt (1 + t*t) * L.sqrt (1 + t*t)) := by field_simp
    rw [this, hw]; exact div_self hpos.ne'
  · have : t*t*pq + t*(q - p) - pq = pq * (t*t + 2*(1/2 * (q - p) / pq)*t - 1) := by field_simp
    rw [this, hroot]; ring
  · simp only [calculateReal, hbr, Bool.false_eq_true, if_false, one_eq, half_eq]
    rfl
end Epsic.Jacobi

namespace Epsic.Jacobi
open Epsic
variable {K : Type} [Field K] [DecidableEq K] {n : Nat}

theorem thaw_foldStored {β : Type} (f : Mat n n K → β → Mat n n K) (l : List β) (x : Mat n n K) :
    Mat.thaw (foldStored f l x) = l.foldl f x := by
  unfold foldStored
  induction l generalizing x with
  | nil => simp
  | cons a l ih => simp only [List.foldl_cons, Mat.thaw_freeze]; exact ih (f x a)

/-- the transform `rotate_Jacobi` applies to the pair `(col p, col q)` of a vector -/
def pairT (s tau : K) (p q : Fin n) (r : Fin n → K) : Fin n → K :=
  fun b => if b = p then r p - s*(r q + r p*tau) else if b = q then r q + s*(r p - r q*tau) else r b

theorem rotatePair_row (x : Mat n n K) (s tau : K) (p q j : Fin n) (hpq : p ≠ q) :
    rotatePair x s tau j p j q = fun a b => if a = j then pairT s tau p q (x j) b else x a b := by
  funext a b
  unfold rotatePair setM pairT
  by_cases ha : a = j <;> by_cases hbq : b = q <;> by_cases hbp : b = p <;> simp_all
theorem rotatePair_col (x : Mat n n K) (s tau : K) (p q j : Fin n) (hpq : p ≠ q) :
    rotatePair x s tau p j q j = fun a b => if b = j then pairT s tau p q (fun a' => x a' j) a else x a b := by
  funext a b
  unfold rotatePair setM pairT
  by_cases hb : b = j <;> by_cases haq : a = q <;> by_cases hap : a = p <;> simp_all

theorem fold_rows (T : (Fin n → K) → Fin n → K) (l : List (Fin n)) (hl : l.Nodup) (x : Mat n n K) :
    l.foldl (fun acc j => (fun a b => if a = j then T (acc j) b else acc a b)) x
      = fun a b => if a ∈ l then T (x a) b else x a b := by
  induction l generalizing x with
  | nil => simp
  | cons j l ih =>
    rw [List.foldl_cons, ih (List.nodup_cons.mp hl).2]
    funext a b
    have hj : j ∉ l := (List.nodup_cons.mp hl).1
    by_cases ha : a = j
    · subst ha; simp [hj]
    · by_cases hal : a ∈ l
      · have : (fun b => if a = j then T (x j) b else x a b) = x a := by funext b; simp [ha]
        simp [hal, ha, this]
      · simp [hal, ha]

theorem fold_cols (T : (Fin n → K) → Fin n → K) (l : List (Fin n)) (hl : l.Nodup) (x : Mat n n K) :
    l.foldl (fun acc j => (fun a b => if b = j then T (fun a' => acc a' j) a else acc a b)) x
      = fun a b => if b ∈ l then T (fun a' => x a' b) a else x a b := by
  induction l generalizing x with
  | nil => simp
  | cons j l ih =>
    rw [List.foldl_cons, ih (List.nodup_cons.mp hl).2]
    funext a b
    have hj : j ∉ l := (List.nodup_cons.mp hl).1
    by_cases hb : b = j
    · subst hb; simp [hj]
    · by_cases hbl : b ∈ l
      · have : (fun a' => if b = j then T (fun a'' => x a'' j) a' else x a' b) = fun a' => x a' b := by funext b; simp [hb]
        simp [hbl, hb, this]
      · simp [hbl, hb]

theorem colPass_eq (x : Mat n n K) (s tau : K) (p q : Fin n) (hpq : p ≠ q) :
    Mat.thaw (colPass x s tau p q) = fun a b => pairT s tau p q (x a) b := by
  unfold colPass
  rw [thaw_foldStored]
  have : (fun (acc : Mat n n K) j => rotatePair acc s tau j p j q) = fun acc j => (fun a b => if a = j then pairT s tau p q (acc j) b else acc a b) := by
    funext acc j; exact rotatePair_row acc s tau p q j hpq
  rw [this, fold_rows _ _ (List.nodup_finRange n)]
  funext a b; simp [List.mem_finRange]

theorem rowPass_eq (x : Mat n n K) (s tau : K) (p q : Fin n) (hpq : p ≠ q) :
    Mat.thaw (rowPass x s tau p q) = fun a b => pairT s tau p q (fun a' => x a' b) a := by
  unfold rowPass
  rw [thaw_foldStored]
  have : (fun (acc : Mat n n K) j => rotatePair acc s tau p j q j) = fun acc j => (fun a b => if b = j then pairT s tau p q (fun a' => acc a' j) a else acc a b) := by
    funext acc j; exact rotatePair_col acc s tau p q j hpq
  rw [this, fold_cols _ _ (List.nodup_finRange n)]
  funext a b; simp [List.mem_finRange]

end Epsic.Jacobi

namespace Epsic.Jacobi
open Epsic
variable {K : Type} [Field K] [DecidableEq K] {n : Nat}

/-- the bilinear form `uᵀ A w` and the dot product, as finite sums -/
def bil (A : Mat n n K) (u w : Fin n → K) : K := ∑ k, ∑ l, u k * A k l * w l
def dotS (u w : Fin n → K) : K := ∑ k, u k * w k

theorem bil_left (A : Mat n n K) (x y : K) (u u' w : Fin n → K) :
    bil A (fun k => x * u k + y * u' k) w = x * bil A u w + y * bil A u' w := by
  simp only [bil, Finset.mul_sum, ← Finset.sum_add_distrib]
  refine Finset.sum_congr rfl (fun k _ => Finset.sum_congr rfl (fun l _ => ?_)); ring
theorem bil_right (A : Mat n n K) (x y : K) (u w w' : Fin n → K) :
    bil A u (fun k => x * w k + y * w' k) = x * bil A u w + y * bil A u w' := by
  simp only [bil, Finset.mul_sum, ← Finset.sum_add_distrib]
  refine Finset.sum_congr rfl (fun k _ => Finset.sum_congr rfl (fun l _ => ?_)); ring
theorem dot_left (x y : K) (u u' w : Fin n → K) :
    dotS (fun k => x * u k + y * u' k) w = x * dotS u w + y * dotS u' w := by
  simp only [dotS, Finset.mul_sum, ← Finset.sum_add_distrib]
  refine Finset.sum_congr rfl (fun k _ => ?_); ring
theorem dot_right (x y : K) (u w w' : Fin n → K) :
    dotS u (fun k => x * w k + y * w' k) = x * dotS u w + y * dotS u w' := by
  simp only [dotS, Finset.mul_sum, ← Finset.sum_add_distrib]
  refine Finset.sum_congr rfl (fun k _ => ?_); ring
theorem bil_symm (A : Mat n n K) (hA : ∀ i j, A i j = A j i) (u w : Fin n → K) : bil A u w = bil A w u := by
  unfold bil
  rw [Finset.sum_comm]
  refine Finset.sum_congr rfl (fun k _ => Finset.sum_congr rfl (fun l _ => ?_)); rw [hA l k]; ring

/-- the plane rotation by `(c, s)` of the components `p`, `q` of a vector -/
def rotV (c s : K) (p q : Fin n) (f : Fin n → K) : Fin n → K :=
  fun a => if a = p then c * f p + (-s) * f q else if a = q then s * f p + c * f q else f a
/-- ... of the rows `p`, `q` of a matrix -/
def rotRows (c s : K) (p q : Fin n) (v : Mat n n K) : Mat n n K := fun a b => rotV c s p q (fun a' => v a' b) a

theorem rotRows_p (c s : K) (p q : Fin n) (v : Mat n n K) :
    rotRows c s p q v p = fun b => c * v p b + (-s) * v q b := by funext b; simp [rotRows, rotV]
theorem rotRows_q (c s : K) (p q : Fin n) (hpq : p ≠ q) (v : Mat n n K) :
    rotRows c s p q v q = fun b => s * v p b + c * v q b := by funext b; simp [rotRows, rotV, hpq.symm]
theorem rotRows_other (c s : K) (p q i : Fin n) (h1 : i ≠ p) (h2 : i ≠ q) (v : Mat n n K) :
    rotRows c s p q v i = v i := by funext b; simp [rotRows, rotV, h1, h2]

theorem bil_rot_left (A : Mat n n K) (c s : K) (p q : Fin n) (hpq : p ≠ q) (v : Mat n n K) (w : Fin n → K) (i : Fin n) :
    bil A (rotRows c s p q v i) w = rotV c s p q (fun a => bil A (v a) w) i := by
  by_cases hi : i = p
  · subst hi; rw [rotRows_p, bil_left]; simp [rotV]
  · by_cases hi2 : i = q
    · subst hi2; rw [rotRows_q _ _ _ _ hpq, bil_left]; simp [rotV, hi]
    · rw [rotRows_other _ _ _ _ _ hi hi2]; simp [rotV, hi, hi2]
theorem bil_rot_right (A : Mat n n K) (c s : K) (p q : Fin n) (hpq : p ≠ q) (v : Mat n n K) (u : Fin n → K) (j : Fin n) :
    bil A u (rotRows c s p q v j) = rotV c s p q (fun a => bil A u (v a)) j := by
  by_cases hi : j = p
  · subst hi; rw [rotRows_p, bil_right]; simp [rotV]
  · by_cases hi2 : j = q
    · subst hi2; rw [rotRows_q _ _ _ _ hpq, bil_right]; simp [rotV, hi]
    · rw [rotRows_other _ _ _ _ _ hi hi2]; simp [rotV, hi, hi2]
theorem dot_rot_left (c s : K) (p q : Fin n) (hpq : p ≠ q) (v : Mat n n K) (w : Fin n → K) (i : Fin n) :
    dotS (rotRows c s p q v i) w = rotV c s p q (fun a => dotS (v a) w) i := by
  by_cases hi : i = p
  · subst hi; rw [rotRows_p, dot_left]; simp [rotV]
  · by_cases hi2 : i = q
    · subst hi2; rw [rotRows_q _ _ _ _ hpq, dot_left]; simp [rotV, hi]
    · rw [rotRows_other _ _ _ _ _ hi hi2]; simp [rotV, hi, hi2]
theorem dot_rot_right (c s : K) (p q : Fin n) (hpq : p ≠ q) (v : Mat n n K) (u : Fin n → K) (j : Fin n) :
    dotS u (rotRows c s p q v j) = rotV c s p q (fun a => dotS u (v a)) j := by
  by_cases hi : j = p
  · subst hi; rw [rotRows_p, dot_right]; simp [rotV]
  · by_cases hi2 : j = q
    · subst hi2; rw [rotRows_q _ _ _ _ hpq, dot_right]; simp [rotV, hi]
    · rw [rotRows_other _ _ _ _ _ hi hi2]; simp [rotV, hi, hi2]

/-- conjugation: the form of the rotated rows is the twice-rotated matrix of the form -/
theorem bil_rot (A : Mat n n K) (c s : K) (p q : Fin n) (hpq : p ≠ q) (v : Mat n n K) (i j : Fin n) :
    bil A (rotRows c s p q v i) (rotRows c s p q v j)
      = rotV c s p q (fun a => rotV c s p q (fun b => bil A (v a) (v b)) j) i := by
  rw [bil_rot_left A c s p q hpq]
  congr 1; funext a
  exact bil_rot_right A c s p q hpq v (v a) j

/-- a rotation keeps an orthonormal family orthonormal -/
theorem dot_rot (c s : K) (hc : c*c + s*s = 1) (p q : Fin n) (hpq : p ≠ q) (v : Mat n n K)
    (hv : ∀ i j, dotS (v i) (v j) = if i = j then 1 else 0) (i j : Fin n) :
    dotS (rotRows c s p q v i) (rotRows c s p q v j) = if i = j then 1 else 0 := by
  rw [dot_rot_left c s p q hpq]
  have : (fun a => dotS (v a) (rotRows c s p q v j)) = fun a => rotV c s p q (fun b => if a = b then (1:K) else 0) j := by
    funext a; rw [dot_rot_right c s p q hpq]; congr 1; funext b; exact hv a b
  rw [this]
  have hqp : q ≠ p := hpq.symm
  by_cases hi : i = p <;> by_cases hi2 : i = q <;> by_cases hj : j = p <;> by_cases hj2 : j = q <;>
    (have hj' : (p = j) = (j = p) := propext eq_comm
     have hj2' : (q = j) = (j = q) := propext eq_comm
     simp_all [rotV]) <;> first | linear_combination hc | (try ring_nf) 
end Epsic.Jacobi
namespace Epsic.Jacobi
open Epsic
variable {K : Type} [Field K] [LinearOrder K] [IsStrictOrderedRing K] [DecidableEq K] {n : Nat}

/-- the pair update of `rotate_Jacobi` is the plane rotation by `(c, s)` when `tau = s/(1+c)` -/
theorem rotate_first (g h s c : K) (hc : c*c + s*s = 1) (h1 : 1 + c ≠ 0) :
    g - s*(h + g*(s/(1+c))) = c*g - s*h := by
  field_simp
  linear_combination (-g) * hc
theorem rotate_second (g h s c : K) (hc : c*c + s*s = 1) (h1 : 1 + c ≠ 0) :
    h + s*(g - h*(s/(1+c))) = s*g + c*h := by
  field_simp
  linear_combination (-h) * hc

theorem pairT_eq_rotV (c t : K) (hc0 : 0 < c) (hc : c*c*(1 + t*t) = 1) (p q : Fin n) (r : Fin n → K) :
    pairT (t*c) (t*c/(1 + c)) p q r = rotV c (t*c) p q r := by
  have h1 : 1 + c ≠ 0 := by positivity
  have hcs : c*c + (t*c)*(t*c) = 1 := by linear_combination hc
  funext b
  unfold pairT rotV
  by_cases hb : b = p
  · simp only [hb, if_true]; rw [rotate_first _ _ _ c hcs h1]; ring
  · by_cases hb2 : b = q
    · subst hb2; simp only [hb, if_false, if_true]; rw [rotate_second _ _ _ c hcs h1]
    · simp only [hb, hb2, if_false]

/-- the invariants of the solver state with respect to the input matrix `A₀` -/
structure Inv (A₀ : Mat n n K) (st : SolverState n K) : Prop where
  conj : ∀ i j, st.a i j = bil A₀ (st.v i) (st.v j)
  orth : ∀ i j, dotS (st.v i) (st.v j) = if i = j then 1 else 0
  diag : ∀ i, st.d i = st.a i i
  acc : ∀ i, st.b i + st.z i = st.d i

theorem Inv.symm {A₀ : Mat n n K} (hA : ∀ i j, A₀ i j = A₀ j i) {st : SolverState n K} (h : Inv A₀ st) (i j : Fin n) :
    st.a i j = st.a j i := by rw [h.conj, h.conj, bil_symm A₀ hA]

/-- what `JacobiRotation` computes on a non-zero off-diagonal element -/
theorem rotation_eq (L : SolverLeaves K) (hL : LeafSpec L) (st : SolverState n K) (p q : Fin n) (hpq : p ≠ q)
    (hne : st.a p q ≠ 0) :
    ∃ c t : K, 0 < c ∧ c*c*(1 + t*t) = 1 ∧ t*t*st.a p q + t*(st.d q - st.d p) - st.a p q = 0 ∧
      rotation L st p q =
        ⟨setM (setM (rotRows c (t*c) p q (fun a b => rotV c (t*c) p q (st.a a) b)) p q 0) q p 0,
         rotRows c (t*c) p q st.v,
         setV (setV st.d p (st.d p - t * st.a p q)) q (st.d q + t * st.a p q),
         st.b,
         setV (setV st.z p (st.z p - t * st.a p q)) q (st.z q + t * st.a p q)⟩ := by
  obtain ⟨c, t, hc0, hc, ht, hcalc⟩ := calc_spec L hL (st.d p) (st.d q) (st.a p q) hne
  refine ⟨c, t, hc0, hc, ht, ?_⟩
  have hqp : q ≠ p := hpq.symm
  simp only [rotation, hcalc, Mat.thaw_freeze, thawV_freezeV, colPass_eq _ _ _ _ _ hpq, rowPass_eq _ _ _ _ _ hpq,
    pairT_eq_rotV c t hc0 hc, zero_eq]
  congr 1
  · funext a; simp [setV, hqp]
  · funext a; simp [setV, hqp]

end Epsic.Jacobi
namespace Epsic.Jacobi
open Epsic
variable {K : Type} [Field K] [LinearOrder K] [IsStrictOrderedRing K] [DecidableEq K] {n : Nat}

/-- a Jacobi rotation on a non-zero off-diagonal element preserves the invariants -/
theorem rotation_inv (L : SolverLeaves K) (hL : LeafSpec L) (A₀ : Mat n n K) (hA : ∀ i j, A₀ i j = A₀ j i)
    (st : SolverState n K) (h : Inv A₀ st) (p q : Fin n) (hpq : p ≠ q) (hne : st.a p q ≠ 0) :
    Inv A₀ (rotation L st p q) := by
  obtain ⟨c, t, hc0, hc, ht, heq⟩ := rotation_eq L hL st p q hpq hne
  rw [heq]
  have hqp : q ≠ p := hpq.symm
  have hsym := h.symm hA
  have hcs : c*c + (t*c)*(t*c) = 1 := by linear_combination hc
  have hdp := h.diag p
  have hdq := h.diag q
  -- the twice-rotated matrix is the form of the rotated rows
  have hconj : ∀ i j, rotRows c (t*c) p q (fun a b => rotV c (t*c) p q (st.a a) b) i j
      = bil A₀ (rotRows c (t*c) p q st.v i) (rotRows c (t*c) p q st.v j) := by
    intro i j
    rw [bil_rot A₀ c (t*c) p q hpq]
    simp only [rotRows]
    congr 1; funext a; congr 1; funext b; exact h.conj a b
  -- the annihilated elements
  have hz1 : rotRows c (t*c) p q (fun a b => rotV c (t*c) p q (st.a a) b) p q = 0 := by
    simp only [rotRows, rotV, if_true, hqp, if_false]
    rw [hsym q p, ← hdp, ← hdq]
    linear_combination (-(c*c)) * ht
  have hz2 : rotRows c (t*c) p q (fun a b => rotV c (t*c) p q (st.a a) b) q p = 0 := by
    simp only [rotRows, rotV, if_true, hqp, if_false]
    rw [hsym q p, ← hdp, ← hdq]
    linear_combination (-(c*c)) * ht
  refine ⟨?_, ?_, ?_, ?_⟩
  · intro i j
    simp only [setM]
    by_cases h1 : i = q ∧ j = p
    · rw [if_pos h1, ← hconj, h1.1, h1.2, hz2]
    · rw [if_neg h1]
      by_cases h2 : i = p ∧ j = q
      · rw [if_pos h2, ← hconj, h2.1, h2.2, hz1]
      · rw [if_neg h2, hconj]
  · intro i j; exact dot_rot c (t*c) hcs p q hpq st.v h.orth i j
  · intro i
    simp only [setM, setV]
    by_cases hi : i = q
    · subst hi
      simp only [if_true, hpq, false_and, and_false, if_false, hqp, true_and]
      simp only [rotRows, rotV, if_true, hqp, if_false]
      rw [hsym i p, ← hdp, ← hdq]
      linear_combination (c*c*t) * ht - (st.d i + t * st.a p i) * hc
    · by_cases hi2 : i = p
      · subst hi2
        simp only [hi, if_false, if_true, false_and, and_false]
        simp only [rotRows, rotV, if_true, hqp, if_false]
        rw [hsym q i, ← hdp, ← hdq]
        linear_combination (-(c*c*t)) * ht + (t * st.a i q - st.d i) * hc
      · simp only [hi, hi2, if_false, false_and]
        simp only [rotRows, rotV, hi, hi2, if_false]
        exact h.diag i
  · intro i
    simp only [setV]
    have := h.acc i; have hp := h.acc p; have hq := h.acc q
    by_cases hi : i = q
    · subst hi; simp only [if_true]; linear_combination hq
    · by_cases hi2 : i = p
      · subst hi2; simp only [hi, if_false, if_true]; linear_combination hp
      · simp only [hi, hi2, if_false]; exact this

end Epsic.Jacobi
namespace Epsic.Jacobi
open Epsic
variable {K : Type} [Field K] [LinearOrder K] [IsStrictOrderedRing K] [DecidableEq K] {n : Nat}

theorem fold_abs_ge {ι : Type} (f : ι → K) (l : List ι) (acc : K) :
    acc ≤ l.foldl (fun a x => a + |f x|) acc := by
  induction l generalizing acc with
  | nil => simp
  | cons x l ih => simp only [List.foldl_cons]; exact le_trans (by have := abs_nonneg (f x); linarith) (ih _)

theorem fold_abs_zero {ι : Type} (f : ι → K) (l : List ι) (acc : K) (hacc : 0 ≤ acc)
    (h : l.foldl (fun a x => a + |f x|) acc = 0) : acc = 0 ∧ ∀ x ∈ l, f x = 0 := by
  induction l generalizing acc with
  | nil => simpa using h
  | cons x l ih =>
    simp only [List.foldl_cons] at h
    have hx := abs_nonneg (f x)
    obtain ⟨h1, h2⟩ := ih (acc + |f x|) (by linarith) h
    have h3 : |f x| = 0 := by linarith
    refine ⟨by linarith, ?_⟩
    intro y hy
    rcases List.mem_cons.mp hy with rfl | hy
    · exact abs_eq_zero.mp h3
    · exact h2 y hy

theorem offSum_eq (L : SolverLeaves K) (hL : LeafSpec L) (a : Mat n n K) :
    offSum L a = (pairs n).foldl (fun acc pq => acc + |a pq.1 pq.2|) 0 := by
  unfold offSum
  congr 1
  funext acc pq; rw [hL.abs_eq]

theorem offSum_nonneg (L : SolverLeaves K) (hL : LeafSpec L) (a : Mat n n K) : 0 ≤ offSum L a := by
  rw [offSum_eq L hL]; exact fold_abs_ge _ _ _

theorem mem_pairs (p q : Fin n) : (p, q) ∈ pairs n ↔ p < q := by
  unfold pairs
  simp only [List.mem_flatMap, List.mem_finRange, List.mem_filterMap, true_and]
  constructor
  · rintro ⟨a, b, hb⟩
    by_cases hab : a < b
    · simp only [hab, if_true, Option.some.injEq, Prod.mk.injEq] at hb
      rw [← hb.1, ← hb.2]; exact hab
    · simp [hab] at hb
  · intro h; exact ⟨p, q, by simp [h]⟩

/-- at the `sum == 0` exit every off-diagonal element of a symmetric `a` is zero -/
theorem offSum_zero (L : SolverLeaves K) (hL : LeafSpec L) (a : Mat n n K) (h : offSum L a = 0) (p q : Fin n) (hpq : p < q) :
    a p q = 0 := by
  rw [offSum_eq L hL] at h
  exact (fold_abs_zero (fun pq : Fin n × Fin n => a pq.1 pq.2) _ 0 le_rfl h).2 (p, q) ((mem_pairs p q).mpr hpq)

theorem pairStep_inv (L : SolverLeaves K) (hL : LeafSpec L) (A₀ : Mat n n K) (hA : ∀ i j, A₀ i j = A₀ j i)
    (iter : Nat) (thresh : K) (hth : 0 ≤ thresh) (st : SolverState n K) (h : Inv A₀ st) (pq : Fin n × Fin n) (hpq : pq.1 ≠ pq.2) :
    Inv A₀ (pairStep L iter thresh st pq) := by
  unfold pairStep
  simp only
  split
  · rename_i hcond
    simp only [Bool.and_eq_true, decide_eq_true_eq, hL.eq_eq, hL.abs_eq] at hcond
    have hg : L.hundred * |st.a pq.1 pq.2| = 0 := by linarith [hcond.1.2]
    have ha : st.a pq.1 pq.2 = 0 := by
      rcases mul_eq_zero.mp hg with h1 | h1
      · exact absurd h1 hL.hundred_pos.ne'
      · exact abs_eq_zero.mp h1
    have ha' : st.a pq.2 pq.1 = 0 := by rw [← h.symm hA]; exact ha
    have : setM (setM st.a pq.2 pq.1 zero) pq.1 pq.2 zero = st.a := by
      funext a b; unfold setM
      by_cases h1 : a = pq.1 ∧ b = pq.2
      · rw [if_pos h1, h1.1, h1.2, ha]; rfl
      · rw [if_neg h1]
        by_cases h2 : a = pq.2 ∧ b = pq.1
        · rw [if_pos h2, h2.1, h2.2, ha']; rfl
        · rw [if_neg h2]
    rw [this]; exact h
  · split
    · rename_i _ hgt
      rw [hL.gt_eq, hL.abs_eq, decide_eq_true_eq] at hgt
      have hne : st.a pq.1 pq.2 ≠ 0 := by
        intro h0; rw [h0, abs_zero] at hgt; exact absurd hgt (not_lt.mpr hth)
      exact rotation_inv L hL A₀ hA st h pq.1 pq.2 hpq hne
    · exact h

theorem foldl_pairStep_inv (L : SolverLeaves K) (hL : LeafSpec L) (A₀ : Mat n n K) (hA : ∀ i j, A₀ i j = A₀ j i)
    (iter : Nat) (thresh : K) (hth : 0 ≤ thresh) (l : List (Fin n × Fin n)) (hl : ∀ x ∈ l, x.1 ≠ x.2)
    (st : SolverState n K) (h : Inv A₀ st) : Inv A₀ (l.foldl (pairStep L iter thresh) st) := by
  induction l generalizing st with
  | nil => exact h
  | cons x l ih =>
    simp only [List.foldl_cons]
    exact ih (fun y hy => hl y (List.mem_cons_of_mem _ hy)) _ (pairStep_inv L hL A₀ hA iter thresh hth st h x (hl x (List.mem_cons_self ..)))

theorem endSweep_inv (A₀ : Mat n n K) (st : SolverState n K) (h : Inv A₀ st) : Inv A₀ (endSweep st) := by
  unfold endSweep
  simp only [thawV_freezeV]
  refine ⟨h.conj, h.orth, ?_, ?_⟩
  · intro i; show st.b i + st.z i = st.a i i; rw [h.acc, h.diag]
  · intro i; show st.b i + st.z i + zero = st.b i + st.z i; simp

theorem sweep_inv (L : SolverLeaves K) (hL : LeafSpec L) (A₀ : Mat n n K) (hA : ∀ i j, A₀ i j = A₀ j i)
    (iter : Nat) (sum : K) (hsum : 0 ≤ sum) (st : SolverState n K) (h : Inv A₀ st) : Inv A₀ (sweep L iter sum st) := by
  unfold sweep
  apply endSweep_inv
  apply foldl_pairStep_inv L hL A₀ hA
  · split
    · simp only [ofNat_eq]; exact div_nonneg (mul_nonneg hL.fifth_nonneg hsum) (Nat.cast_nonneg _)
    · simp
  · intro x hx; exact ne_of_lt ((mem_pairs x.1 x.2).mp hx)
  · exact h

theorem iterate_inv (L : SolverLeaves K) (hL : LeafSpec L) (A₀ : Mat n n K) (hA : ∀ i j, A₀ i j = A₀ j i)
    (fuel iter : Nat) (st : SolverState n K) (h : Inv A₀ st) : Inv A₀ (iterate L fuel iter st) := by
  induction fuel generalizing iter st with
  | zero => exact h
  | succ k ih =>
    unfold iterate
    simp only
    split
    · exact h
    · exact ih _ _ (sweep_inv L hL A₀ hA iter _ (offSum_nonneg L hL _) st h)

end Epsic.Jacobi
namespace Epsic.Jacobi
open Epsic
variable {K : Type} [Field K] [LinearOrder K] [IsStrictOrderedRing K] [DecidableEq K] {n : Nat}

theorem init_inv (A₀ : Mat n n K) : Inv A₀ (initState A₀) := by
  unfold initState
  refine ⟨?_, ?_, fun i => rfl, fun i => by simp⟩
  · intro i j
    simp only [bil, Mat.identity, one_eq, zero_eq, ite_mul, one_mul, zero_mul, mul_ite, mul_one, mul_zero,
      Finset.sum_ite_eq, Finset.mem_univ, if_true]
  · intro i j
    simp only [dotS, Mat.identity, one_eq, zero_eq, ite_mul, one_mul, zero_mul, Finset.sum_ite_eq, Finset.mem_univ, if_true]
    simp [eq_comm]

/-- **Invariants of the real symmetric Jacobi solver, for every dimension, every symmetric input and every number of
sweeps**: whatever `Jacobi` returns, its eigenvector matrix is orthonormal, the working matrix is the input conjugated by
it, and the eigenvalue vector is the diagonal of the working matrix. -/
theorem jacobi_inv (L : SolverLeaves K) (hL : LeafSpec L) (A₀ : Mat n n K) (hA : ∀ i j, A₀ i j = A₀ j i) :
    Inv A₀ (jacobi L A₀) := iterate_inv L hL A₀ hA 50 0 _ (init_inv A₀)

theorem bil_eq_mul (A V : Matrix (Fin n) (Fin n) K) (i j : Fin n) : bil A (V i) (V j) = (V * A * V.transpose) i j := by
  simp only [bil, Matrix.mul_apply, Matrix.transpose_apply, Finset.sum_mul]
  rw [Finset.sum_comm]
theorem dot_eq_mul (V : Matrix (Fin n) (Fin n) K) (i j : Fin n) : dotS (V i) (V j) = (V * V.transpose) i j := by
  simp only [dotS, Matrix.mul_apply, Matrix.transpose_apply]

/-- the same in matrix form: `E Eᵀ = 1` and `E A Eᵀ` is the working matrix, always; when the solver returns through its
`sum == 0` exit (all off-diagonal elements zero) `E A Eᵀ = diag(λ)`, i.e. the rows of `E` are eigenvectors:
`A Eᵀ = Eᵀ diag(λ)`. -/
theorem jacobi_correct (L : SolverLeaves K) (hL : LeafSpec L) (A₀ : Matrix (Fin n) (Fin n) K) (hA : A₀.transpose = A₀) :
    let st := jacobi L A₀
    let E : Matrix (Fin n) (Fin n) K := st.v
    E * E.transpose = 1 ∧ E * A₀ * E.transpose = (st.a : Matrix (Fin n) (Fin n) K) ∧
    (offSum L st.a = 0 → E * A₀ * E.transpose = Matrix.diagonal st.d ∧ A₀ * E.transpose = E.transpose * Matrix.diagonal st.d) := by
  intro st E
  have hA' : ∀ i j, A₀ i j = A₀ j i := fun i j => by conv_lhs => rw [← hA, Matrix.transpose_apply]
  have h := jacobi_inv L hL A₀ hA'
  have h1 : E * E.transpose = 1 := by
    ext i j; rw [← dot_eq_mul, h.orth, Matrix.one_apply]
  have h2 : E * A₀ * E.transpose = (st.a : Matrix (Fin n) (Fin n) K) := by
    ext i j; rw [← bil_eq_mul]; exact (h.conj i j).symm
  refine ⟨h1, h2, ?_⟩
  intro hz
  have hd : E * A₀ * E.transpose = Matrix.diagonal st.d := by
    rw [h2]; ext i j
    rw [Matrix.diagonal_apply]
    by_cases hij : i = j
    · subst hij; simp only [if_true]; exact (h.diag i).symm
    · rw [if_neg hij]
      rcases lt_or_gt_of_ne hij with hlt | hgt
      · exact offSum_zero L hL st.a hz i j hlt
      · rw [h.symm hA']; exact offSum_zero L hL st.a hz j i hgt
  refine ⟨hd, ?_⟩
  have h3 : E.transpose * E = 1 := mul_eq_one_comm.mp h1
  calc A₀ * E.transpose = (E.transpose * E) * A₀ * E.transpose := by rw [h3, Matrix.one_mul]
    _ = E.transpose * (E * A₀ * E.transpose) := by simp only [Matrix.mul_assoc]
    _ = E.transpose * Matrix.diagonal st.d := by rw [hd]

end Epsic.Jacobi
