import EpsicProofs.Lemmas.JacobiSweep
import EpsicProofs.Lemmas.Stokes
import EpsicProofs.Lemmas.CxField
/-! The n×n complex Hermitian Jacobi solver (`EpsicModel.Jacobi`, `jacobiC`): every rotation is an exact unitary plane
rotation (`c = m (P + Sq)`, `s = −m·a_pq` from the closed form of `eigen` on a traceless Hermitian quaternion), the invariants
`a = E A₀ Eᴴ`, `E Eᴴ = 1`, `eval = diag a` hold after every step of every sweep, and the solver never fails.  Complex scalars
are read in the field `CxF K` (`Lemmas/CxField.lean`). -/
set_option linter.unusedSectionVars false
set_option linter.unnecessarySeqFocus false
set_option linter.unusedVariables false
set_option linter.unusedSimpArgs false
namespace Epsic.Jacobi
open Epsic
variable {K : Type} [Field K] [LinearOrder K] [IsStrictOrderedRing K] [DecidableEq K] {n : Nat}

/-- the square-root leaf of the complex solver: total and exact on non-negative arguments -/
structure SqrtTotal (sqrtFn : K → R K) : Prop where
  ok : ∀ x, 0 ≤ x → ∃ r, sqrtFn x = .ok r ∧ r * r = x ∧ 0 ≤ r

/-- `eigen` of a traceless Hermitian quaternion `(0, a, b, c)` with `(b, c) ≠ 0`: the second branch, explicitly -/
theorem eigenH_traceless (sqrtFn : K → R K) (hs : SqrtTotal sqrtFn) (a b c : K) (hperp : b*b + c*c ≠ 0) :
    ∃ P m : K, 0 < P ∧ P*P = a*a + b*b + c*c ∧ 0 < P + a ∧ 0 < m ∧ m*m*(2*P*(P + a)) = 1 ∧
      Quat.eigenH sqrtFn (fun x => decide (x < 0)) ⟨0, a, b, c⟩ = .ok ⟨m*(P + a), 0, (-m)*c, m*b⟩ := by
  have hperp_pos : 0 < b*b + c*c := lt_of_le_of_ne (by nlinarith [mul_self_nonneg b, mul_self_nonneg c]) (Ne.symm hperp)
  have hns : Vec.normsq (Quat.getVector (⟨0, a, b, c⟩ : Quat K)) = a*a + b*b + c*c := by
    simp [Vec.normsq, sumFin_three, Quat.getVector, v3]
  obtain ⟨P, hP, hPP, hP0⟩ := hs.ok (a*a + b*b + c*c) (by nlinarith [mul_self_nonneg a])
  have hPpos : 0 < P := by
    rcases hP0.lt_or_eq with h | h
    · exact h
    · rw [← h] at hPP; nlinarith [mul_self_nonneg a]
  have hPa : 0 < P + a := by
    by_contra hneg
    have h1 : P ≤ -a := by linarith [not_lt.mp hneg]
    nlinarith [mul_self_nonneg a]
  have hPma : 0 < P - a := by
    by_contra hneg
    have h1 : P ≤ a := by linarith [not_lt.mp hneg]
    nlinarith [mul_self_nonneg a]
  obtain ⟨r, hr, hrr, hr0⟩ := hs.ok (2*P*(P + a)) (by positivity)
  have hrpos : 0 < r := by
    rcases hr0.lt_or_eq with h | h
    · exact h
    · rw [← h] at hrr; have : 0 < 2*P*(P + a) := by positivity
      linarith
  refine ⟨P, 1/r, hPpos, hPP, hPa, by positivity, ?_, ?_⟩
  · rw [← hrr]; field_simp
  · unfold Quat.eigenH
    rw [hns]
    have hPne : P ≠ 0 := hPpos.ne'
    have hrne : r ≠ 0 := hrpos.ne'
    have hdiv : (b*b + c*c) / (P - a) = P + a := by
      field_simp; linear_combination -hPP
    by_cases ha : a < 0
    · simp [hP, bind, Except.bind, hPne, ha, hperp, sdiv, hPma.ne', hdiv, hr, hrne, pure, Except.pure]
    · simp [hP, bind, Except.bind, hPne, ha, hperp, sdiv, hr, hrne, pure, Except.pure]
end Epsic.Jacobi
namespace Epsic.Jacobi
open Epsic
variable {K : Type} [Field K] [LinearOrder K] [IsStrictOrderedRing K] [DecidableEq K] {n : Nat}

/-- `calculate_Jacobi` (complex) on a non-zero off-diagonal element: `c = m (P + Sq)`, `s = −m·pq` -/
theorem calcC_spec (sqrtFn : K → R K) (hs : SqrtTotal sqrtFn) (p q : K) (pq : Cx K) (hpq : pq.re*pq.re + pq.im*pq.im ≠ 0) :
    ∃ P m : K, 0 < P ∧ P*P = (1/2*(p - q))*(1/2*(p - q)) + pq.re*pq.re + pq.im*pq.im ∧ 0 < P + 1/2*(p - q) ∧ 0 < m ∧
      m*m*(2*P*(P + 1/2*(p - q))) = 1 ∧
      calculateComplex sqrtFn (fun x => decide (x < 0)) p q pq =
        .ok ⟨⟨-(m*pq.re), -(m*pq.im)⟩,
             ⟨-(m*pq.re) / (1 + m*(P + 1/2*(p - q))), m*pq.im / (1 + m*(P + 1/2*(p - q)))⟩,
             2 * (m*(P + 1/2*(p - q)) * (-(m*pq.re)*pq.re - (-(m*pq.im))*(-pq.im)) + 1/2*(p - q) * ((m*pq.re)*(m*pq.re) + (m*pq.im)*(m*pq.im)))⟩ := by
  have hperp : pq.re*pq.re + (-pq.im)*(-pq.im) ≠ 0 := by intro h; apply hpq; linear_combination h
  obtain ⟨P, m, hP, hPP, hPa, hm, hmm, heig⟩ := eigenH_traceless sqrtFn hs (1/2*(p - q)) pq.re (-pq.im) hperp
  refine ⟨P, m, hP, by linear_combination hPP, hPa, hm, hmm, ?_⟩
  unfold calculateComplex
  simp only [half_eq, zero_eq, one_eq, two_eq, heig, bind, Except.bind, pure, Except.pure]
  congr 1
  simp only [CxRot.mk.injEq]
  refine ⟨?_, ?_, ?_⟩
  · apply Cx.ext' <;> simp
  · apply Cx.ext' <;> simp
  · simp
end Epsic.Jacobi
namespace Epsic.Jacobi
open Epsic
variable {K : Type} [Field K] [LinearOrder K] [IsStrictOrderedRing K] [DecidableEq K] {n : Nat}

/-! ### complex scalars as the field `CxF K`: conjugation, real embedding -/
def conjF (z : CxF K) : CxF K := Cx.conj z
def ofR (x : K) : CxF K := (⟨x, 0⟩ : Cx K)
@[simp] theorem conjF_re (z : CxF K) : (conjF z).re = z.re := rfl
@[simp] theorem conjF_im (z : CxF K) : (conjF z).im = -z.im := rfl
@[simp] theorem ofR_re (x : K) : (ofR x : CxF K).re = x := rfl
@[simp] theorem ofR_im (x : K) : (ofR x : CxF K).im = 0 := rfl
theorem conjF_add (a b : CxF K) : conjF (a + b) = conjF a + conjF b := by ext <;> simp <;> ring
theorem conjF_mul (a b : CxF K) : conjF (a * b) = conjF a * conjF b := by ext <;> simp <;> ring
theorem conjF_zero : conjF (0 : CxF K) = 0 := by ext <;> simp
theorem conjF_conjF (a : CxF K) : conjF (conjF a) = a := by ext <;> simp
theorem conjF_ofR (x : K) : conjF (ofR x : CxF K) = ofR x := by ext <;> simp
theorem conjF_neg (a : CxF K) : conjF (-a) = -conjF a := by ext <;> simp
theorem conjF_sum {ι : Type} (s : Finset ι) (f : ι → CxF K) : conjF (∑ i ∈ s, f i) = ∑ i ∈ s, conjF (f i) := by
  classical
  induction s using Finset.induction_on with
  | empty => simp [conjF_zero]
  | insert a s ha ih => rw [Finset.sum_insert ha, Finset.sum_insert ha, conjF_add, ih]

/-- the sesquilinear form `u A wᴴ` and the Hermitian dot product -/
def sesq (A : Mat n n (CxF K)) (u w : Fin n → CxF K) : CxF K := ∑ k, ∑ l, u k * A k l * conjF (w l)
def dotC (u w : Fin n → CxF K) : CxF K := ∑ k, u k * conjF (w k)

theorem sesq_left (A : Mat n n (CxF K)) (x y : CxF K) (u u' w : Fin n → CxF K) :
    sesq A (fun k => x * u k + y * u' k) w = x * sesq A u w + y * sesq A u' w := by
  simp only [sesq, Finset.mul_sum, ← Finset.sum_add_distrib]
  refine Finset.sum_congr rfl (fun k _ => Finset.sum_congr rfl (fun l _ => ?_)); ring
theorem sesq_right (A : Mat n n (CxF K)) (x y : CxF K) (u w w' : Fin n → CxF K) :
    sesq A u (fun k => x * w k + y * w' k) = conjF x * sesq A u w + conjF y * sesq A u w' := by
  simp only [sesq, Finset.mul_sum, ← Finset.sum_add_distrib, conjF_add, conjF_mul]
  refine Finset.sum_congr rfl (fun k _ => Finset.sum_congr rfl (fun l _ => ?_)); ring
theorem dotC_left (x y : CxF K) (u u' w : Fin n → CxF K) :
    dotC (fun k => x * u k + y * u' k) w = x * dotC u w + y * dotC u' w := by
  simp only [dotC, Finset.mul_sum, ← Finset.sum_add_distrib]
  refine Finset.sum_congr rfl (fun k _ => ?_); ring
theorem dotC_right (x y : CxF K) (u w w' : Fin n → CxF K) :
    dotC u (fun k => x * w k + y * w' k) = conjF x * dotC u w + conjF y * dotC u w' := by
  simp only [dotC, Finset.mul_sum, ← Finset.sum_add_distrib, conjF_add, conjF_mul]
  refine Finset.sum_congr rfl (fun k _ => ?_); ring
/-- for a Hermitian `A` the form is Hermitian -/
theorem sesq_herm (A : Mat n n (CxF K)) (hA : ∀ i j, A i j = conjF (A j i)) (u w : Fin n → CxF K) :
    sesq A u w = conjF (sesq A w u) := by
  unfold sesq
  rw [conjF_sum, Finset.sum_comm]
  refine Finset.sum_congr rfl (fun k _ => ?_)
  rw [conjF_sum]
  refine Finset.sum_congr rfl (fun l _ => ?_)
  rw [conjF_mul, conjF_mul, conjF_conjF, ← hA]; ring

/-- plane "rotation" of the components `p`, `q` of a vector with general coefficients -/
def rotVC (c u w : CxF K) (p q : Fin n) (f : Fin n → CxF K) : Fin n → CxF K :=
  fun a => if a = p then c * f p + u * f q else if a = q then w * f p + c * f q else f a
def rotRowsC (c u w : CxF K) (p q : Fin n) (v : Mat n n (CxF K)) : Mat n n (CxF K) :=
  fun a b => rotVC c u w p q (fun a' => v a' b) a

theorem rotRowsC_p (c u w : CxF K) (p q : Fin n) (v : Mat n n (CxF K)) :
    rotRowsC c u w p q v p = fun b => c * v p b + u * v q b := by funext b; simp [rotRowsC, rotVC]
theorem rotRowsC_q (c u w : CxF K) (p q : Fin n) (hpq : p ≠ q) (v : Mat n n (CxF K)) :
    rotRowsC c u w p q v q = fun b => w * v p b + c * v q b := by funext b; simp [rotRowsC, rotVC, hpq.symm]
theorem rotRowsC_other (c u w : CxF K) (p q i : Fin n) (h1 : i ≠ p) (h2 : i ≠ q) (v : Mat n n (CxF K)) :
    rotRowsC c u w p q v i = v i := by funext b; simp [rotRowsC, rotVC, h1, h2]

theorem sesq_rot_left (A : Mat n n (CxF K)) (c u w : CxF K) (p q : Fin n) (hpq : p ≠ q) (v : Mat n n (CxF K))
    (x : Fin n → CxF K) (i : Fin n) :
    sesq A (rotRowsC c u w p q v i) x = rotVC c u w p q (fun a => sesq A (v a) x) i := by
  by_cases hi : i = p
  · subst hi; rw [rotRowsC_p, sesq_left]; simp [rotVC]
  · by_cases hi2 : i = q
    · subst hi2; rw [rotRowsC_q _ _ _ _ _ hpq, sesq_left]; simp [rotVC, hi]
    · rw [rotRowsC_other _ _ _ _ _ _ hi hi2]; simp [rotVC, hi, hi2]
theorem sesq_rot_right (A : Mat n n (CxF K)) (c u w : CxF K) (p q : Fin n) (hpq : p ≠ q) (v : Mat n n (CxF K))
    (y : Fin n → CxF K) (j : Fin n) :
    sesq A y (rotRowsC c u w p q v j) = rotVC (conjF c) (conjF u) (conjF w) p q (fun a => sesq A y (v a)) j := by
  by_cases hi : j = p
  · subst hi; rw [rotRowsC_p, sesq_right]; simp [rotVC]
  · by_cases hi2 : j = q
    · subst hi2; rw [rotRowsC_q _ _ _ _ _ hpq, sesq_right]; simp [rotVC, hi]
    · rw [rotRowsC_other _ _ _ _ _ _ hi hi2]; simp [rotVC, hi, hi2]
theorem dotC_rot_left (c u w : CxF K) (p q : Fin n) (hpq : p ≠ q) (v : Mat n n (CxF K)) (x : Fin n → CxF K) (i : Fin n) :
    dotC (rotRowsC c u w p q v i) x = rotVC c u w p q (fun a => dotC (v a) x) i := by
  by_cases hi : i = p
  · subst hi; rw [rotRowsC_p, dotC_left]; simp [rotVC]
  · by_cases hi2 : i = q
    · subst hi2; rw [rotRowsC_q _ _ _ _ _ hpq, dotC_left]; simp [rotVC, hi]
    · rw [rotRowsC_other _ _ _ _ _ _ hi hi2]; simp [rotVC, hi, hi2]
theorem dotC_rot_right (c u w : CxF K) (p q : Fin n) (hpq : p ≠ q) (v : Mat n n (CxF K)) (y : Fin n → CxF K) (j : Fin n) :
    dotC y (rotRowsC c u w p q v j) = rotVC (conjF c) (conjF u) (conjF w) p q (fun a => dotC y (v a)) j := by
  by_cases hi : j = p
  · subst hi; rw [rotRowsC_p, dotC_right]; simp [rotVC]
  · by_cases hi2 : j = q
    · subst hi2; rw [rotRowsC_q _ _ _ _ _ hpq, dotC_right]; simp [rotVC, hi]
    · rw [rotRowsC_other _ _ _ _ _ _ hi hi2]; simp [rotVC, hi, hi2]

/-- conjugation of the form by the rotated rows -/
theorem sesq_rot (A : Mat n n (CxF K)) (c u w : CxF K) (p q : Fin n) (hpq : p ≠ q) (v : Mat n n (CxF K)) (i j : Fin n) :
    sesq A (rotRowsC c u w p q v i) (rotRowsC c u w p q v j)
      = rotVC c u w p q (fun a => rotVC (conjF c) (conjF u) (conjF w) p q (fun b => sesq A (v a) (v b)) j) i := by
  rw [sesq_rot_left A c u w p q hpq]
  congr 1; funext a
  exact sesq_rot_right A c u w p q hpq v (v a) j

/-- a unitary plane rotation (`c` real, `u = −s`, `w = s̄`, `c² + |s|² = 1`) keeps an orthonormal family orthonormal -/
theorem dotC_rot (c : K) (s : CxF K) (hc : c*c + s.re*s.re + s.im*s.im = 1) (p q : Fin n) (hpq : p ≠ q) (v : Mat n n (CxF K))
    (hv : ∀ i j, dotC (v i) (v j) = if i = j then 1 else 0) (i j : Fin n) :
    dotC (rotRowsC (ofR c) (-s) (conjF s) p q v i) (rotRowsC (ofR c) (-s) (conjF s) p q v j) = if i = j then 1 else 0 := by
  rw [dotC_rot_left _ _ _ p q hpq]
  have : (fun a => dotC (v a) (rotRowsC (ofR c) (-s) (conjF s) p q v j))
      = fun a => rotVC (conjF (ofR c)) (conjF (-s)) (conjF (conjF s)) p q (fun b => if a = b then (1 : CxF K) else 0) j := by
    funext a; rw [dotC_rot_right _ _ _ p q hpq]; congr 1; funext b; exact hv a b
  rw [this]
  have hqp : q ≠ p := hpq.symm
  by_cases hi : i = p <;> by_cases hi2 : i = q <;> by_cases hj : j = p <;> by_cases hj2 : j = q <;>
    (have hj' : (p = j) = (j = p) := propext eq_comm
     have hj2' : (q = j) = (j = q) := propext eq_comm
     simp_all [rotVC]) <;>
    (ext <;> simp <;> first | linear_combination hc | ring_nf)
end Epsic.Jacobi
namespace Epsic.Jacobi
open Epsic
section generic
variable {α : Type} [Arith α] {n : Nat}

theorem thaw_foldStored' {β : Type} (f : Mat n n α → β → Mat n n α) (l : List β) (x : Mat n n α) :
    Mat.thaw (foldStored f l x) = l.foldl f x := by
  unfold foldStored
  induction l generalizing x with
  | nil => simp
  | cons a l ih => simp only [List.foldl_cons, Mat.thaw_freeze]; exact ih (f x a)

theorem fold_rows' (T : (Fin n → α) → Fin n → α) (l : List (Fin n)) (hl : l.Nodup) (x : Mat n n α) :
    l.foldl (fun acc j => (fun a b => if a = j then T (acc j) b else acc a b)) x
      = fun a b => if a ∈ l then T (x a) b else x a b := by
  induction l generalizing x with
  | nil => simp
  | cons j l ih =>
    rw [List.foldl_cons, ih (List.nodup_cons.mp hl).2]
    funext a b
    have hj : j ∉ l := (List.nodup_cons.mp hl).1
    by_cases ha : a = j
    · subst ha; simp [hj]
    · by_cases hal : a ∈ l
      · simp [hal, ha]
      · simp [hal, ha]

theorem fold_cols' (T : (Fin n → α) → Fin n → α) (l : List (Fin n)) (hl : l.Nodup) (x : Mat n n α) :
    l.foldl (fun acc j => (fun a b => if b = j then T (fun a' => acc a' j) a else acc a b)) x
      = fun a b => if b ∈ l then T (fun a' => x a' b) a else x a b := by
  induction l generalizing x with
  | nil => simp
  | cons j l ih =>
    rw [List.foldl_cons, ih (List.nodup_cons.mp hl).2]
    funext a b
    have hj : j ∉ l := (List.nodup_cons.mp hl).1
    by_cases hb : b = j
    · subst hb; simp [hj]
    · by_cases hbl : b ∈ l
      · simp [hbl, hb]
      · simp [hbl, hb]

/-- the transform `rotate_Jacobi` (complex) applies to the pair `(p, q)` of a vector -/
def pairTC (s tau : Cx α) (p q : Fin n) (r : Fin n → Cx α) : Fin n → Cx α :=
  fun b => if b = p then r p - s.conj*(r q + r p*tau.conj) else if b = q then r q + s*(r p - r q*tau) else r b

theorem rotatePairC_row (x : Mat n n (Cx α)) (s tau : Cx α) (p q j : Fin n) (hpq : p ≠ q) :
    rotatePairC x s tau j p j q = fun a b => if a = j then pairTC s tau p q (x j) b else x a b := by
  funext a b
  unfold rotatePairC setM pairTC
  by_cases ha : a = j <;> by_cases hbq : b = q <;> by_cases hbp : b = p <;> simp_all
theorem rotatePairC_col (x : Mat n n (Cx α)) (s tau : Cx α) (p q j : Fin n) (hpq : p ≠ q) :
    rotatePairC x s tau p j q j = fun a b => if b = j then pairTC s tau p q (fun a' => x a' j) a else x a b := by
  funext a b
  unfold rotatePairC setM pairTC
  by_cases hb : b = j <;> by_cases haq : a = q <;> by_cases hap : a = p <;> simp_all

theorem colPassC_eq (x : Mat n n (Cx α)) (s tau : Cx α) (p q : Fin n) (hpq : p ≠ q) :
    Mat.thaw (colPassC x s tau p q) = fun a b => pairTC s tau p q (x a) b := by
  unfold colPassC
  rw [thaw_foldStored']
  have : (fun (acc : Mat n n (Cx α)) j => rotatePairC acc s tau j p j q)
      = fun acc j => (fun a b => if a = j then pairTC s tau p q (acc j) b else acc a b) := by
    funext acc j; exact rotatePairC_row acc s tau p q j hpq
  rw [this, fold_rows' _ _ (List.nodup_finRange n)]
  funext a b; simp [List.mem_finRange]
theorem rowPassC_eq (x : Mat n n (Cx α)) (s tau : Cx α) (p q : Fin n) (hpq : p ≠ q) :
    Mat.thaw (rowPassC x s tau p q) = fun a b => pairTC s tau p q (fun a' => x a' b) a := by
  unfold rowPassC
  rw [thaw_foldStored']
  have : (fun (acc : Mat n n (Cx α)) j => rotatePairC acc s tau p j q j)
      = fun acc j => (fun a b => if b = j then pairTC s tau p q (fun a' => acc a' j) a else acc a b) := by
    funext acc j; exact rotatePairC_col acc s tau p q j hpq
  rw [this, fold_cols' _ _ (List.nodup_finRange n)]
  funext a b; simp [List.mem_finRange]
end generic
end Epsic.Jacobi
namespace Epsic.Jacobi
open Epsic
variable {K : Type} [Field K] [LinearOrder K] [IsStrictOrderedRing K] [DecidableEq K] {n : Nat}

/-- `tau = conj(s)/(1+c)` as the code computes it (component-wise division by the real `1+c`) -/
def tauOf (s : Cx K) (c : K) : Cx K := ⟨s.conj.re / (1 + c), s.conj.im / (1 + c)⟩
theorem tauOf_conj (s : Cx K) (c : K) : (tauOf s c).conj = tauOf s.conj c := by
  apply Cx.ext' <;> simp [tauOf, Cx.conj] <;> ring

/-- reading a model value as an element of the field -/
def toF (z : Cx K) : CxF K := z
@[simp] theorem toF_re (z : Cx K) : (toF z).re = z.re := rfl
@[simp] theorem toF_im (z : Cx K) : (toF z).im = z.im := rfl

theorem pair_first (c : K) (s g h : Cx K) (hc : c*c + s.re*s.re + s.im*s.im = 1) (h1 : 1 + c ≠ 0) :
    toF (g - s.conj * (h + g * (tauOf s c).conj)) = ofR c * toF g + -conjF (toF s) * toF h := by
  ext
  · simp [tauOf, Cx.conj]; field_simp; linear_combination (-g.re) * hc
  · simp [tauOf, Cx.conj]; field_simp; linear_combination (-g.im) * hc
theorem pair_second (c : K) (s g h : Cx K) (hc : c*c + s.re*s.re + s.im*s.im = 1) (h1 : 1 + c ≠ 0) :
    toF (h + s * (g - h * tauOf s c)) = toF s * toF g + ofR c * toF h := by
  ext
  · simp [tauOf, Cx.conj]; field_simp; linear_combination (-h.re) * hc
  · simp [tauOf, Cx.conj]; field_simp; linear_combination (-h.im) * hc

/-- the pair update with `(s, tau)` is the unitary plane rotation -/
theorem pairTC_eq_rotVC (c : K) (s : Cx K) (hc : c*c + s.re*s.re + s.im*s.im = 1) (h1 : 1 + c ≠ 0) (p q : Fin n)
    (r : Fin n → Cx K) :
    (fun b => toF (pairTC s (tauOf s c) p q r b)) = rotVC (ofR c) (-conjF (toF s)) (toF s) p q (fun b => toF (r b)) := by
  funext b
  unfold pairTC rotVC
  by_cases hb : b = p
  · simp only [hb, if_true]; exact pair_first c s (r p) (r q) hc h1
  · by_cases hb2 : b = q
    · subst hb2; simp only [hb, if_false, if_true]; exact pair_second c s (r p) (r b) hc h1
    · simp only [hb, hb2, if_false]
end Epsic.Jacobi
namespace Epsic.Jacobi
open Epsic
variable {K : Type} [Field K] [LinearOrder K] [IsStrictOrderedRing K] [DecidableEq K] {n : Nat}

/-- the parameters of a complex rotation: `c = m (P + Sq)`, `s = −m·pq` with `P² = Sq² + |pq|²`, `m² 2P(P+Sq) = 1` -/
structure RotParams (dp dq : K) (pq : Cx K) (P m : K) : Prop where
  Ppos : 0 < P
  PP : P*P = (1/2*(dp - dq))*(1/2*(dp - dq)) + pq.re*pq.re + pq.im*pq.im
  Pa : 0 < P + 1/2*(dp - dq)
  mpos : 0 < m
  mm : m*m*(2*P*(P + 1/2*(dp - dq))) = 1

def rotC (dp dq : K) (P m : K) : K := m*(P + 1/2*(dp - dq))
def rotS (pq : Cx K) (m : K) : Cx K := ⟨-(m*pq.re), -(m*pq.im)⟩
def rotCorr (dp dq : K) (pq : Cx K) (P m : K) : K :=
  2 * (rotC dp dq P m * ((rotS pq m) * pq.conj).re + 1/2*(dp - dq) * ((rotS pq m) * (rotS pq m).conj).re)

theorem RotParams.unit {dp dq : K} {pq : Cx K} {P m : K} (h : RotParams dp dq pq P m) :
    rotC dp dq P m * rotC dp dq P m + (rotS pq m).re*(rotS pq m).re + (rotS pq m).im*(rotS pq m).im = 1 := by
  simp only [rotC, rotS]
  linear_combination h.mm - (m*m) * h.PP
theorem RotParams.cpos {dp dq : K} {pq : Cx K} {P m : K} (h : RotParams dp dq pq P m) : 0 < rotC dp dq P m :=
  mul_pos h.mpos h.Pa

theorem calcC_eq (sqrtFn : K → R K) (hs : SqrtTotal sqrtFn) (dp dq : K) (pq : Cx K) (hpq : pq.re*pq.re + pq.im*pq.im ≠ 0) :
    ∃ P m : K, RotParams dp dq pq P m ∧
      calculateComplex sqrtFn (fun x => decide (x < 0)) dp dq pq =
        .ok ⟨rotS pq m, tauOf (rotS pq m) (rotC dp dq P m), rotCorr dp dq pq P m⟩ := by
  obtain ⟨P, m, h1, h2, h3, h4, h5, h6⟩ := calcC_spec sqrtFn hs dp dq pq hpq
  refine ⟨P, m, ⟨h1, h2, h3, h4, h5⟩, ?_⟩
  rw [h6]
  congr 1
  simp only [CxRot.mk.injEq, rotS, rotC, rotCorr, tauOf, Cx.conj]
  refine ⟨trivial, ?_, ?_⟩
  · apply Cx.ext' <;> simp
  · simp
end Epsic.Jacobi
namespace Epsic.Jacobi
open Epsic
variable {K : Type} [Field K] [LinearOrder K] [IsStrictOrderedRing K] [DecidableEq K] {n : Nat}

/-- what `JacobiRotation` (complex) computes on a non-zero off-diagonal element -/
theorem rotationC_eq (sqrtFn : K → R K) (hs : SqrtTotal sqrtFn) (st : CSolverState n K) (p q : Fin n) (hpq : p ≠ q)
    (hne : (st.a p q).re*(st.a p q).re + (st.a p q).im*(st.a p q).im ≠ 0) :
    ∃ P m : K, RotParams (st.d p) (st.d q) (st.a p q) P m ∧
      rotationC sqrtFn (fun x => decide (x < 0)) st p q = .ok
        (let s := rotS (st.a p q) m
         let c := rotC (st.d p) (st.d q) P m
         let tau := tauOf s c
         let corr := rotCorr (st.d p) (st.d q) (st.a p q) P m
         ⟨setM (setM (fun a b => pairTC s.conj tau.conj p q (fun a' => pairTC s tau p q (st.a a') b) a) p q zero) q p zero,
          fun a b => pairTC s.conj tau.conj p q (fun a' => st.v a' b) a,
          setV (setV st.d p (st.d p - corr)) q (st.d q + corr),
          st.b,
          setV (setV st.z p (st.z p - corr)) q (st.z q + corr)⟩) := by
  obtain ⟨P, m, hR, hcalc⟩ := calcC_eq sqrtFn hs (st.d p) (st.d q) (st.a p q) hne
  refine ⟨P, m, hR, ?_⟩
  have hqp : q ≠ p := hpq.symm
  simp only [rotationC, hcalc, bind, Except.bind, pure, Except.pure, Mat.thaw_freeze, thawV_freezeV,
    colPassC_eq _ _ _ _ _ hpq, rowPassC_eq _ _ _ _ _ hpq]
  congr 2
  · funext a; simp [setV, hqp]
  · funext a; simp [setV, hqp]

/-- the invariants of the complex solver state with respect to the Hermitian input `A₀` -/
structure InvC (A₀ : Mat n n (CxF K)) (st : CSolverState n K) : Prop where
  conj : ∀ i j, toF (st.a i j) = sesq A₀ (fun k => toF (st.v i k)) (fun k => toF (st.v j k))
  orth : ∀ i j, dotC (fun k => toF (st.v i k)) (fun k => toF (st.v j k)) = if i = j then 1 else 0
  diag : ∀ i, toF (st.a i i) = ofR (st.d i)
  acc : ∀ i, st.b i + st.z i = st.d i

theorem InvC.herm {A₀ : Mat n n (CxF K)} (hA : ∀ i j, A₀ i j = conjF (A₀ j i)) {st : CSolverState n K} (h : InvC A₀ st)
    (i j : Fin n) : toF (st.a i j) = conjF (toF (st.a j i)) := by
  rw [h.conj, h.conj, sesq_herm A₀ hA]
end Epsic.Jacobi
namespace Epsic.Jacobi
open Epsic
variable {K : Type} [Field K] [LinearOrder K] [IsStrictOrderedRing K] [DecidableEq K] {n : Nat}

theorem rotationC_inv (sqrtFn : K → R K) (hs : SqrtTotal sqrtFn) (A₀ : Mat n n (CxF K)) (hA : ∀ i j, A₀ i j = conjF (A₀ j i))
    (st : CSolverState n K) (h : InvC A₀ st) (p q : Fin n) (hpq : p ≠ q)
    (hne : (st.a p q).re*(st.a p q).re + (st.a p q).im*(st.a p q).im ≠ 0) :
    ∃ st', rotationC sqrtFn (fun x => decide (x < 0)) st p q = .ok st' ∧ InvC A₀ st' := by
  obtain ⟨P, m, hR, heq⟩ := rotationC_eq sqrtFn hs st p q hpq hne
  refine ⟨_, heq, ?_⟩
  have hqp : q ≠ p := hpq.symm
  set s := rotS (st.a p q) m with hs_def
  set c := rotC (st.d p) (st.d q) P m with hc_def
  set corr := rotCorr (st.d p) (st.d q) (st.a p q) P m with hcorr
  have hunit : c*c + s.re*s.re + s.im*s.im = 1 := hR.unit
  have hunit' : c*c + s.conj.re*s.conj.re + s.conj.im*s.conj.im = 1 := by simp [Cx.conj]; linear_combination hunit
  have h1c : 1 + c ≠ 0 := by have := hR.cpos; positivity
  have hherm := h.herm hA
  -- the two passes as plane rotations
  have hcol : ∀ a b, toF (pairTC s (tauOf s c) p q (st.a a) b)
      = rotVC (ofR c) (-conjF (toF s)) (toF s) p q (fun b' => toF (st.a a b')) b := by
    intro a b; exact congrFun (pairTC_eq_rotVC c s hunit h1c p q (st.a a)) b
  have hrow : ∀ (x : Mat n n (Cx K)) a b, toF (pairTC s.conj (tauOf s c).conj p q (fun a' => x a' b) a)
      = rotVC (ofR c) (-(toF s)) (conjF (toF s)) p q (fun a' => toF (x a' b)) a := by
    intro x a b
    rw [tauOf_conj]
    have := congrFun (pairTC_eq_rotVC c s.conj hunit' h1c p q (fun a' => x a' b)) a
    rw [this]
    have e1 : conjF (toF s.conj) = toF s := by ext <;> simp [Cx.conj]
    have e2 : toF s.conj = conjF (toF s) := by ext <;> simp [Cx.conj]
    rw [e1, e2]
  -- new eigenvector rows and new working matrix (before the two elements are set to zero)
  have hv' : ∀ a, (fun k => toF (pairTC s.conj (tauOf s c).conj p q (fun a' => st.v a' k) a))
      = rotRowsC (ofR c) (-(toF s)) (conjF (toF s)) p q (fun a' k => toF (st.v a' k)) a := by
    intro a; funext k; rw [hrow]; rfl
  have ha2 : ∀ i j, toF (pairTC s.conj (tauOf s c).conj p q (fun a' => pairTC s (tauOf s c) p q (st.a a') j) i)
      = sesq A₀ (rotRowsC (ofR c) (-(toF s)) (conjF (toF s)) p q (fun a' k => toF (st.v a' k)) i)
               (rotRowsC (ofR c) (-(toF s)) (conjF (toF s)) p q (fun a' k => toF (st.v a' k)) j) := by
    intro i j
    rw [hrow, sesq_rot A₀ _ _ _ p q hpq]
    congr 1; funext a
    rw [hcol, conjF_ofR, conjF_neg, conjF_conjF]
    congr 1; funext b; exact h.conj a b
  refine ⟨?_, ?_, ?_, ?_⟩
  · -- conjugation, with the two annihilated elements
    have hz_pq : toF (pairTC s.conj (tauOf s c).conj p q (fun a' => pairTC s (tauOf s c) p q (st.a a') q) p) = 0 := by
      rw [hrow]; simp only [rotVC, if_true]
      rw [hcol, hcol]; simp only [rotVC, if_true, hqp, if_false]
      rw [h.diag p, h.diag q, hherm q p]
      ext
      · simp [hs_def, hc_def, rotS, rotC]; linear_combination (m*m*(st.a p q).re) * hR.PP
      · simp [hs_def, hc_def, rotS, rotC]; linear_combination (m*m*(st.a p q).im) * hR.PP
    have hz_qp : toF (pairTC s.conj (tauOf s c).conj p q (fun a' => pairTC s (tauOf s c) p q (st.a a') p) q) = 0 := by
      rw [hrow]; simp only [rotVC, if_true, hqp, if_false]
      rw [hcol, hcol]; simp only [rotVC, if_true, hqp, if_false]
      rw [h.diag p, h.diag q, hherm q p]
      ext
      · simp [hs_def, hc_def, rotS, rotC]; linear_combination (m*m*(st.a p q).re) * hR.PP
      · simp [hs_def, hc_def, rotS, rotC]; linear_combination (-(m*m*(st.a p q).im)) * hR.PP
    intro i j
    simp only [setM]
    by_cases h1 : i = q ∧ j = p
    · rw [if_pos h1, h1.1, h1.2, hv' q, hv' p, ← ha2, hz_qp]; rfl
    · rw [if_neg h1]
      by_cases h2 : i = p ∧ j = q
      · rw [if_pos h2, h2.1, h2.2, hv' p, hv' q, ← ha2, hz_pq]; rfl
      · rw [if_neg h2, hv' i, hv' j]; exact ha2 i j
  · intro i j
    simp only []
    rw [hv' i, hv' j]
    exact dotC_rot c (toF s) hunit p q hpq _ h.orth i j
  · intro i
    simp only [setM, setV]
    by_cases hi : i = q
    · subst hi
      simp only [if_true, hpq, false_and, and_false, if_false, hqp, true_and]
      rw [hrow]; simp only [rotVC, if_true, hqp, if_false]
      rw [hcol, hcol]; simp only [rotVC, if_true, hqp, if_false]
      rw [h.diag p, h.diag i, hherm i p]
      ext
      · simp [hcorr, rotCorr, Cx.conj]; linear_combination (st.d i) * hunit
      · simp [hcorr, rotCorr, Cx.conj]; ring
    · by_cases hi2 : i = p
      · subst hi2
        simp only [hi, if_false, if_true, false_and, and_false]
        rw [hrow]; simp only [rotVC, if_true]
        rw [hcol, hcol]; simp only [rotVC, if_true, hqp, if_false]
        rw [h.diag i, h.diag q, hherm q i]
        ext
        · simp [hcorr, rotCorr, Cx.conj]; linear_combination (st.d i) * hunit
        · simp [hcorr, rotCorr, Cx.conj]; ring
      · simp only [hi, hi2, if_false, false_and]
        rw [hrow]; simp only [rotVC, hi, hi2, if_false]
        rw [hcol]; simp only [rotVC, hi, hi2, if_false]
        exact h.diag i
  · intro i
    simp only [setV]
    have := h.acc i; have hp := h.acc p; have hq := h.acc q
    by_cases hi : i = q
    · subst hi; simp only [if_true]; linear_combination hq
    · by_cases hi2 : i = p
      · subst hi2; simp only [hi, if_false, if_true]; linear_combination hp
      · simp only [hi, hi2, if_false]; exact this
end Epsic.Jacobi
namespace Epsic.Jacobi
open Epsic
variable {K : Type} [Field K] [LinearOrder K] [IsStrictOrderedRing K] [DecidableEq K] {n : Nat}

theorem fold_nonneg_ge {ι : Type} (g : ι → K) (hg : ∀ x, 0 ≤ g x) (l : List ι) (acc : K) :
    acc ≤ l.foldl (fun a x => a + g x) acc := by
  induction l generalizing acc with
  | nil => simp
  | cons x l ih => simp only [List.foldl_cons]; exact le_trans (by have := hg x; linarith) (ih _)
theorem fold_nonneg_zero {ι : Type} (g : ι → K) (hg : ∀ x, 0 ≤ g x) (l : List ι) (acc : K) (hacc : 0 ≤ acc)
    (h : l.foldl (fun a x => a + g x) acc = 0) : acc = 0 ∧ ∀ x ∈ l, g x = 0 := by
  induction l generalizing acc with
  | nil => simpa using h
  | cons x l ih =>
    simp only [List.foldl_cons] at h
    have hx := hg x
    obtain ⟨h1, h2⟩ := ih (acc + g x) (by linarith) h
    refine ⟨by linarith, ?_⟩
    intro y hy
    rcases List.mem_cons.mp hy with rfl | hy
    · linarith
    · exact h2 y hy

theorem norm_nonneg' (z : Cx K) : 0 ≤ z.norm := by
  unfold Cx.norm; nlinarith [mul_self_nonneg z.re, mul_self_nonneg z.im]
theorem norm_zero_iff (z : Cx K) : z.norm = 0 ↔ toF z = 0 := by
  unfold Cx.norm
  constructor
  · intro h
    have h1 : z.re * z.re = 0 := by nlinarith [mul_self_nonneg z.re, mul_self_nonneg z.im]
    have h2 : z.im * z.im = 0 := by nlinarith [mul_self_nonneg z.re, mul_self_nonneg z.im]
    ext
    · simpa using mul_self_eq_zero.mp h1
    · simpa using mul_self_eq_zero.mp h2
  · intro h
    have h1 : z.re = 0 := by have := congrArg CxF.re h; simpa using this
    have h2 : z.im = 0 := by have := congrArg CxF.im h; simpa using this
    rw [h1, h2]; ring

theorem offSumC_nonneg (a : Mat n n (Cx K)) : 0 ≤ offSumC a :=
  fold_nonneg_ge (fun pq : Fin n × Fin n => (a pq.1 pq.2).norm) (fun _ => norm_nonneg' _) _ _
theorem offSumC_zero (a : Mat n n (Cx K)) (h : offSumC a = 0) (p q : Fin n) (hpq : p < q) : toF (a p q) = 0 := by
  have := (fold_nonneg_zero (fun pq : Fin n × Fin n => (a pq.1 pq.2).norm) (fun _ => norm_nonneg' _) _ 0 le_rfl h).2 (p, q)
    ((mem_pairs p q).mpr hpq)
  exact (norm_zero_iff _).mp this

theorem pairStepC_inv (L : SolverLeaves K) (hL : LeafSpec L) (sqrtFn : K → R K) (hs : SqrtTotal sqrtFn) (hlt : L.ltZero = fun x => decide (x < 0))
    (A₀ : Mat n n (CxF K)) (hA : ∀ i j, A₀ i j = conjF (A₀ j i))
    (iter : Nat) (thresh : K) (hth : 0 ≤ thresh) (st : CSolverState n K) (h : InvC A₀ st) (pq : Fin n × Fin n) (hpq : pq.1 ≠ pq.2) :
    ∃ st', pairStepC L sqrtFn iter thresh st pq = .ok st' ∧ InvC A₀ st' := by
  unfold pairStepC
  simp only
  split
  · rename_i hcond
    simp only [Bool.and_eq_true, decide_eq_true_eq, hL.eq_eq, hL.abs_eq] at hcond
    have hg : L.hundred * (st.a pq.1 pq.2).norm = 0 := by linarith [hcond.1.2]
    have hn : (st.a pq.1 pq.2).norm = 0 := by
      rcases mul_eq_zero.mp hg with h1 | h1
      · exact absurd h1 hL.hundred_pos.ne'
      · exact h1
    have ha : toF (st.a pq.1 pq.2) = 0 := (norm_zero_iff _).mp hn
    have ha' : toF (st.a pq.2 pq.1) = 0 := by rw [h.herm hA, ha, conjF_zero]
    have e1 : st.a pq.1 pq.2 = zero := ha
    have e2 : st.a pq.2 pq.1 = zero := ha'
    have : setM (setM st.a pq.2 pq.1 zero) pq.1 pq.2 zero = st.a := by
      funext a b; unfold setM
      by_cases h1 : a = pq.1 ∧ b = pq.2
      · rw [if_pos h1, h1.1, h1.2, e1]
      · rw [if_neg h1]
        by_cases h2 : a = pq.2 ∧ b = pq.1
        · rw [if_pos h2, h2.1, h2.2, e2]
        · rw [if_neg h2]
    rw [this]; exact ⟨st, rfl, h⟩
  · split
    · rename_i _ hgt
      rw [hL.gt_eq, decide_eq_true_eq] at hgt
      have hne : (st.a pq.1 pq.2).re*(st.a pq.1 pq.2).re + (st.a pq.1 pq.2).im*(st.a pq.1 pq.2).im ≠ 0 := by
        intro h0; have : (st.a pq.1 pq.2).norm = 0 := h0
        rw [this] at hgt; exact absurd hgt (not_lt.mpr hth)
      rw [hlt]
      exact rotationC_inv sqrtFn hs A₀ hA st h pq.1 pq.2 hpq hne
    · exact ⟨st, rfl, h⟩

theorem foldlM_pairStepC_inv (L : SolverLeaves K) (hL : LeafSpec L) (sqrtFn : K → R K) (hs : SqrtTotal sqrtFn) (hlt : L.ltZero = fun x => decide (x < 0))
    (A₀ : Mat n n (CxF K)) (hA : ∀ i j, A₀ i j = conjF (A₀ j i))
    (iter : Nat) (thresh : K) (hth : 0 ≤ thresh) (l : List (Fin n × Fin n)) (hl : ∀ x ∈ l, x.1 ≠ x.2)
    (st : CSolverState n K) (h : InvC A₀ st) :
    ∃ st', l.foldlM (pairStepC L sqrtFn iter thresh) st = .ok st' ∧ InvC A₀ st' := by
  induction l generalizing st with
  | nil => exact ⟨st, rfl, h⟩
  | cons x l ih =>
    obtain ⟨st1, h1, hi1⟩ := pairStepC_inv L hL sqrtFn hs hlt A₀ hA iter thresh hth st h x (hl x (List.mem_cons_self ..))
    obtain ⟨st2, h2, hi2⟩ := ih (fun y hy => hl y (List.mem_cons_of_mem _ hy)) st1 hi1
    refine ⟨st2, ?_, hi2⟩
    rw [List.foldlM_cons, h1]; exact h2

theorem endSweepC_inv (A₀ : Mat n n (CxF K)) (st : CSolverState n K) (h : InvC A₀ st) : InvC A₀ (endSweepC st) := by
  unfold endSweepC
  simp only [thawV_freezeV]
  refine ⟨h.conj, h.orth, ?_, ?_⟩
  · intro i; show toF (st.a i i) = ofR (st.b i + st.z i); rw [h.acc, h.diag]
  · intro i; show st.b i + st.z i + zero = st.b i + st.z i; simp

theorem sweepC_inv (L : SolverLeaves K) (hL : LeafSpec L) (sqrtFn : K → R K) (hs : SqrtTotal sqrtFn) (hlt : L.ltZero = fun x => decide (x < 0))
    (A₀ : Mat n n (CxF K)) (hA : ∀ i j, A₀ i j = conjF (A₀ j i))
    (iter : Nat) (sum : K) (hsum : 0 ≤ sum) (st : CSolverState n K) (h : InvC A₀ st) :
    ∃ st', sweepC L sqrtFn iter sum st = .ok st' ∧ InvC A₀ st' := by
  unfold sweepC
  have hth : 0 ≤ (if iter < 4 then L.fifth * sum / Arith.ofNat (n*n) else (zero : K)) := by
    split
    · simp only [ofNat_eq]; exact div_nonneg (mul_nonneg hL.fifth_nonneg hsum) (Nat.cast_nonneg _)
    · simp
  obtain ⟨st1, h1, hi1⟩ := foldlM_pairStepC_inv L hL sqrtFn hs hlt A₀ hA iter _ hth (pairs n)
    (fun x hx => ne_of_lt ((mem_pairs x.1 x.2).mp hx)) st h
  refine ⟨endSweepC st1, ?_, endSweepC_inv A₀ st1 hi1⟩
  simp only [h1, bind, Except.bind, pure, Except.pure]

theorem iterateC_inv (L : SolverLeaves K) (hL : LeafSpec L) (sqrtFn : K → R K) (hs : SqrtTotal sqrtFn) (hlt : L.ltZero = fun x => decide (x < 0))
    (A₀ : Mat n n (CxF K)) (hA : ∀ i j, A₀ i j = conjF (A₀ j i))
    (fuel iter : Nat) (st : CSolverState n K) (h : InvC A₀ st) :
    ∃ st', iterateC L sqrtFn fuel iter st = .ok st' ∧ InvC A₀ st' := by
  induction fuel generalizing iter st with
  | zero => exact ⟨st, rfl, h⟩
  | succ k ih =>
    unfold iterateC
    simp only
    split
    · exact ⟨st, rfl, h⟩
    · obtain ⟨st1, h1, hi1⟩ := sweepC_inv L hL sqrtFn hs hlt A₀ hA iter _ (offSumC_nonneg _) st h
      rw [h1]; exact ih _ st1 hi1
end Epsic.Jacobi
namespace Epsic.Jacobi
open Epsic
variable {K : Type} [Field K] [LinearOrder K] [IsStrictOrderedRing K] [DecidableEq K] {n : Nat}

theorem initC_inv (A₀ : Mat n n (Cx K)) (hA : ∀ i j, toF (A₀ i j) = conjF (toF (A₀ j i))) :
    InvC (fun i j => toF (A₀ i j)) (initStateC A₀) := by
  unfold initStateC
  have hid : ∀ i k : Fin n, toF ((Mat.identity : Mat n n (Cx K)) i k) = if i = k then 1 else 0 := by
    intro i k; unfold Mat.identity; split <;> rfl
  refine ⟨?_, ?_, ?_, fun i => by simp⟩
  · intro i j
    simp only [sesq, hid, ite_mul, one_mul, zero_mul, conjF_zero, mul_zero, Finset.sum_ite_eq, Finset.mem_univ, if_true]
    have : ∀ j l : Fin n, conjF (if j = l then (1 : CxF K) else 0) = if j = l then 1 else 0 := by
      intro j l; split
      · ext <;> simp
      · exact conjF_zero
    simp only [this, mul_ite, mul_one, mul_zero, Finset.sum_ite_eq, Finset.mem_univ, if_true]
    rw [Finset.sum_eq_single i (by intro b _ hb; simp [Ne.symm hb]) (by simp)]
    simp
  · intro i j
    have : ∀ j l : Fin n, conjF (if j = l then (1 : CxF K) else 0) = if j = l then 1 else 0 := by
      intro j l; split
      · ext <;> simp
      · exact conjF_zero
    simp only [dotC, hid, this, ite_mul, one_mul, zero_mul, Finset.sum_ite_eq, Finset.mem_univ, if_true]
    simp [eq_comm]
  · intro i
    have := hA i i
    ext
    · simp
    · have h2 := congrArg CxF.im this
      simp at h2
      simp; linarith

/-- **Invariants of the complex Hermitian Jacobi solver, for every dimension, every Hermitian input and every number of
sweeps**: the solver returns (the square-root leaf never fails), its eigenvector matrix has orthonormal rows, the working
matrix is the input conjugated by it, and the eigenvalue vector is the (real) diagonal of the working matrix. -/
theorem jacobiC_inv (L : SolverLeaves K) (hL : LeafSpec L) (sqrtFn : K → R K) (hs : SqrtTotal sqrtFn) (hlt : L.ltZero = fun x => decide (x < 0))
    (A₀ : Mat n n (Cx K)) (hA : ∀ i j, toF (A₀ i j) = conjF (toF (A₀ j i))) :
    ∃ st, jacobiC L sqrtFn A₀ = .ok st ∧ InvC (fun i j => toF (A₀ i j)) st :=
  iterateC_inv L hL sqrtFn hs hlt _ hA 50 0 _ (initC_inv A₀ hA)

/-- at the `sum == 0` exit the working matrix is diagonal -/
theorem InvC.diagonal_of_offSum_zero {A₀ : Mat n n (CxF K)} (hA : ∀ i j, A₀ i j = conjF (A₀ j i)) {st : CSolverState n K}
    (h : InvC A₀ st) (hz : offSumC st.a = 0) (i j : Fin n) :
    sesq A₀ (fun k => toF (st.v i k)) (fun k => toF (st.v j k)) = if i = j then ofR (st.d i) else 0 := by
  rw [← h.conj]
  by_cases hij : i = j
  · subst hij; simp only [if_true]; exact h.diag i
  · rw [if_neg hij]
    rcases lt_or_gt_of_ne hij with hlt | hgt
    · exact offSumC_zero st.a hz i j hlt
    · rw [h.herm hA, offSumC_zero st.a hz j i hgt, conjF_zero]
end Epsic.Jacobi
namespace Epsic.Jacobi
open Epsic
variable {K : Type} [Field K] [LinearOrder K] [IsStrictOrderedRing K] [DecidableEq K] {n : Nat}

theorem sesq_eq_mul (A V : Matrix (Fin n) (Fin n) (CxF K)) (i j : Fin n) :
    sesq A (V i) (V j) = (V * A * (V.map conjF).transpose) i j := by
  simp only [sesq, Matrix.mul_apply, Matrix.transpose_apply, Matrix.map_apply, Finset.sum_mul]
  rw [Finset.sum_comm]
theorem dotC_eq_mul (V : Matrix (Fin n) (Fin n) (CxF K)) (i j : Fin n) :
    dotC (V i) (V j) = (V * (V.map conjF).transpose) i j := by
  simp only [dotC, Matrix.mul_apply, Matrix.transpose_apply, Matrix.map_apply]

/-- matrix form: with `E` the returned eigenvector matrix and `Eᴴ` its conjugate transpose, `E Eᴴ = 1` and `E A Eᴴ` is the
working matrix, always; at the `sum == 0` exit `E A Eᴴ = diag(λ)` with real `λ`, and `A Eᴴ = Eᴴ diag(λ)` -/
theorem jacobiC_correct (L : SolverLeaves K) (hL : LeafSpec L) (sqrtFn : K → R K) (hs : SqrtTotal sqrtFn) (hlt : L.ltZero = fun x => decide (x < 0))
    (A₀ : Mat n n (Cx K)) (hA : ∀ i j, toF (A₀ i j) = conjF (toF (A₀ j i))) :
    ∃ st, jacobiC L sqrtFn A₀ = .ok st ∧
      (let A : Matrix (Fin n) (Fin n) (CxF K) := fun i j => toF (A₀ i j)
       let E : Matrix (Fin n) (Fin n) (CxF K) := fun i j => toF (st.v i j)
       let EH : Matrix (Fin n) (Fin n) (CxF K) := (E.map conjF).transpose
       E * EH = 1 ∧ E * A * EH = (fun i j => toF (st.a i j)) ∧
       (offSumC st.a = 0 → E * A * EH = Matrix.diagonal (fun i => ofR (st.d i)) ∧ A * EH = EH * Matrix.diagonal (fun i => ofR (st.d i)))) := by
  obtain ⟨st, hst, h⟩ := jacobiC_inv L hL sqrtFn hs hlt A₀ hA
  refine ⟨st, hst, ?_⟩
  intro A E EH
  have h1 : E * EH = 1 := by
    apply Matrix.ext; intro i j; rw [← dotC_eq_mul, Matrix.one_apply]; exact h.orth i j
  have h2 : E * A * EH = (fun i j => toF (st.a i j)) := by
    apply Matrix.ext; intro i j; rw [← sesq_eq_mul]; exact (h.conj i j).symm
  refine ⟨h1, h2, ?_⟩
  intro hz
  have hd : E * A * EH = Matrix.diagonal (fun i => ofR (st.d i)) := by
    apply Matrix.ext; intro i j; rw [← sesq_eq_mul, Matrix.diagonal_apply]
    exact h.diagonal_of_offSum_zero hA hz i j
  refine ⟨hd, ?_⟩
  have h3 : EH * E = 1 := mul_eq_one_comm.mp h1
  calc A * EH = (EH * E) * A * EH := by rw [h3, Matrix.one_mul]
    _ = EH * (E * A * EH) := by simp only [Matrix.mul_assoc]
    _ = EH * Matrix.diagonal (fun i => ofR (st.d i)) := by rw [hd]
end Epsic.Jacobi
