import Mathlib.Tactic.Attr.Register
/-- simp set that unfolds the epsic model down to scalar components -/
register_simp_attr epsic
