import EpsicProofs.Lemmas.RotationCerts
import EpsicProofs.Lemmas.MatRefine
import EpsicProofs.Lemmas.Stokes
import Mathlib.LinearAlgebra.Matrix.Determinant.Basic
import Mathlib.Analysis.SpecialFunctions.Trigonometric.Basic
/-! # C14 — rotation and basis matrices are proper orthogonal for every angle and axis

`Mat.rotation v s c` is `rotation(axis, radians)` with `s = sin`, `c = cos` as leaves.  The
algebraic theorems hold over any field for any `s, c` with `s² + c² = 1` and any axis with
`|v|² = 1`; the `ℝ` corollaries instantiate `s, c` with `Real.sin, Real.cos` of *every* angle. -/
set_option linter.unusedSectionVars false
set_option linter.unusedVariables false
namespace Epsic.C14
open Epsic Matrix
variable {K : Type} [Field K] [DecidableEq K]

def unitAxis (v : Vec 3 K) : Prop := v 0 * v 0 + v 1 * v 1 + v 2 * v 2 = 1

macro "rot_unfold" : tactic =>
  `(tactic| simp [Mat.rotation, Mat.rotationU, Mat.mul, Mat.transpose, Mat.identity, Mat.mulVec, Vec.dot, Vec.cross,
      Vec.add, Vec.smul, sumFin_three, v3])

/-! ## orthogonal, determinant +1, axis fixed, Rodrigues, additive composition -/
theorem rotation_orthogonal (v : Vec 3 K) (s c : K) (hv : unitAxis v) (hsc : s*s + c*c = 1) :
    Mat.mul (Mat.rotation v s c) (Mat.transpose (Mat.rotation v s c)) = Mat.identity := by
  funext i j
  fin_cases i <;> fin_cases j <;> rot_unfold <;>
  first
  | linear_combination RotationCerts.orth_00 (v 0) (v 1) (v 2) s c hv hsc
  | linear_combination RotationCerts.orth_01 (v 0) (v 1) (v 2) s c hv hsc
  | linear_combination RotationCerts.orth_02 (v 0) (v 1) (v 2) s c hv hsc
  | linear_combination RotationCerts.orth_10 (v 0) (v 1) (v 2) s c hv hsc
  | linear_combination RotationCerts.orth_11 (v 0) (v 1) (v 2) s c hv hsc
  | linear_combination RotationCerts.orth_12 (v 0) (v 1) (v 2) s c hv hsc
  | linear_combination RotationCerts.orth_20 (v 0) (v 1) (v 2) s c hv hsc
  | linear_combination RotationCerts.orth_21 (v 0) (v 1) (v 2) s c hv hsc
  | linear_combination RotationCerts.orth_22 (v 0) (v 1) (v 2) s c hv hsc
theorem rotation_det (v : Vec 3 K) (s c : K) (hv : unitAxis v) (hsc : s*s + c*c = 1) :
    (toM (Mat.rotation v s c)).det = 1 := by
  rw [Matrix.det_fin_three]
  simp [toM, Mat.rotation, Mat.rotationU, v3]
  linear_combination RotationCerts.det (v 0) (v 1) (v 2) s c hv hsc
theorem rotation_axis_fixed (v : Vec 3 K) (s c : K) (hv : unitAxis v) (hsc : s*s + c*c = 1) :
    Mat.mulVec (Mat.rotation v s c) v = v := by
  funext i
  fin_cases i <;> rot_unfold <;>
  first
  | linear_combination RotationCerts.axis_0 (v 0) (v 1) (v 2) s c hv hsc
  | linear_combination RotationCerts.axis_1 (v 0) (v 1) (v 2) s c hv hsc
  | linear_combination RotationCerts.axis_2 (v 0) (v 1) (v 2) s c hv hsc
/-- Rodrigues' formula `R x = c x + s (v × x) + (1−c)(v·x) v`: an identity in every argument
(the right-handed sense is the sign of the `v × x` term) -/
theorem rotation_rodrigues (v x : Vec 3 K) (s c : K) :
    Mat.mulVec (Mat.rotation v s c) x
      = Vec.add (Vec.add (Vec.smul x c) (Vec.smul (Vec.cross v x) s)) (Vec.smul v ((1 - c) * Vec.dot v x)) := by
  funext i
  fin_cases i <;> rot_unfold <;> ring
/-- the same with `u = 1.0 - c` as a separate (rounded) leaf, as the double-precision code has it -/
theorem rotationU_rodrigues (v x : Vec 3 K) (s c u : K) :
    Mat.mulVec (Mat.rotationU v s c u) x
      = Vec.add (Vec.add (Vec.smul x c) (Vec.smul (Vec.cross v x) s)) (Vec.smul v (u * Vec.dot v x)) := by
  funext i
  fin_cases i <;> rot_unfold <;> ring
/-- rotations about a common unit axis compose by the angle-addition formulas -/
theorem rotation_compose (v : Vec 3 K) (s c s2 c2 : K) (hv : unitAxis v) :
    Mat.mul (Mat.rotation v s c) (Mat.rotation v s2 c2) = Mat.rotation v (s*c2 + c*s2) (c*c2 - s*s2) := by
  funext i j
  fin_cases i <;> fin_cases j <;> rot_unfold <;>
  first
  | linear_combination RotationCerts.comp_00 (v 0) (v 1) (v 2) s c s2 c2 hv
  | linear_combination RotationCerts.comp_01 (v 0) (v 1) (v 2) s c s2 c2 hv
  | linear_combination RotationCerts.comp_02 (v 0) (v 1) (v 2) s c s2 c2 hv
  | linear_combination RotationCerts.comp_10 (v 0) (v 1) (v 2) s c s2 c2 hv
  | linear_combination RotationCerts.comp_11 (v 0) (v 1) (v 2) s c s2 c2 hv
  | linear_combination RotationCerts.comp_12 (v 0) (v 1) (v 2) s c s2 c2 hv
  | linear_combination RotationCerts.comp_20 (v 0) (v 1) (v 2) s c s2 c2 hv
  | linear_combination RotationCerts.comp_21 (v 0) (v 1) (v 2) s c s2 c2 hv
  | linear_combination RotationCerts.comp_22 (v 0) (v 1) (v 2) s c s2 c2 hv

/-! ## every real angle (multiples of π/2, beyond 2π, negative …) -/
noncomputable def rotationReal (v : Vec 3 ℝ) (θ : ℝ) : Mat 3 3 ℝ := Mat.rotation v (Real.sin θ) (Real.cos θ)
theorem sin_cos_unit (θ : ℝ) : Real.sin θ * Real.sin θ + Real.cos θ * Real.cos θ = 1 := by
  have := Real.sin_sq_add_cos_sq θ; nlinarith [this]
theorem rotationReal_orthogonal (v : Vec 3 ℝ) (θ : ℝ) (hv : unitAxis v) :
    Mat.mul (rotationReal v θ) (Mat.transpose (rotationReal v θ)) = Mat.identity :=
  rotation_orthogonal v _ _ hv (sin_cos_unit θ)
theorem rotationReal_det (v : Vec 3 ℝ) (θ : ℝ) (hv : unitAxis v) : (toM (rotationReal v θ)).det = 1 :=
  rotation_det v _ _ hv (sin_cos_unit θ)
theorem rotationReal_axis (v : Vec 3 ℝ) (θ : ℝ) (hv : unitAxis v) : Mat.mulVec (rotationReal v θ) v = v :=
  rotation_axis_fixed v _ _ hv (sin_cos_unit θ)
/-- composition is additive in the angle -/
theorem rotationReal_add (v : Vec 3 ℝ) (θ₁ θ₂ : ℝ) (hv : unitAxis v) :
    Mat.mul (rotationReal v θ₁) (rotationReal v θ₂) = rotationReal v (θ₁ + θ₂) := by
  unfold rotationReal
  rw [rotation_compose v _ _ _ _ hv, Real.sin_add, Real.cos_add]
/-- full turns change nothing -/
theorem rotationReal_periodic (v : Vec 3 ℝ) (θ : ℝ) : rotationReal v (θ + 2 * Real.pi) = rotationReal v θ := by
  unfold rotationReal; rw [Real.sin_add_two_pi, Real.cos_add_two_pi]

/-! ## polarisation bases -/
/-- a basis object is well formed: `outof` is the transpose of `into`, rows orthonormal, det +1 -/
def WF (b : Basis K) : Prop :=
  b.outof = Mat.transpose b.into ∧ Mat.mul b.into (Mat.transpose b.into) = Mat.identity ∧ (toM b.into).det = 1

theorem linear_wf : WF (Basis.linear : Basis K) := by
  refine ⟨rfl, ?_, ?_⟩
  · funext i j
    fin_cases i <;> fin_cases j <;> simp [epsic]
  · rw [Matrix.det_fin_three]; simp [toM, epsic]
theorem circular_wf : WF (Basis.circular : Basis K) := by
  refine ⟨rfl, ?_, ?_⟩
  · funext i j
    fin_cases i <;> fin_cases j <;> simp [epsic]
  · rw [Matrix.det_fin_three]; simp [toM, epsic]
theorem elliptical_wf (co so ce se : K) (hA : co*co + so*so = 1) (hB : ce*ce + se*se = 1) :
    WF (Basis.elliptical co so ce se) := by
  refine ⟨rfl, ?_, ?_⟩
  · funext i j
    fin_cases i <;> fin_cases j <;> simp [epsic] <;>
    first
    | linear_combination RotationCerts.borth_00 co so ce se hA hB
    | linear_combination RotationCerts.borth_01 co so ce se hA hB
    | linear_combination RotationCerts.borth_02 co so ce se hA hB
    | linear_combination RotationCerts.borth_10 co so ce se hA hB
    | linear_combination RotationCerts.borth_11 co so ce se hA hB
    | linear_combination RotationCerts.borth_12 co so ce se hA hB
    | linear_combination RotationCerts.borth_20 co so ce se hA hB
    | linear_combination RotationCerts.borth_21 co so ce se hA hB
    | linear_combination RotationCerts.borth_22 co so ce se hA hB
  · rw [Matrix.det_fin_three]; simp [toM, epsic]
    linear_combination RotationCerts.bdet co so ce se hA hB

/-- converting a vector into a well-formed basis and back returns it (both ways) -/
theorem getOut_getIn (b : Basis K) (h : WF b) (x : Vec 3 K) : b.getOut (b.getIn x) = x := by
  obtain ⟨ho, horth0, _⟩ := h
  have horth : toM b.into * (toM b.into)ᵀ = 1 := by rw [← transpose_eq, ← mul_eq, horth0, identity_eq]
  have h2 : (toM b.into)ᵀ * toM b.into = 1 := mul_eq_one_comm.mp horth
  simp only [Basis.getOut, Basis.getIn, ho]
  rw [mulVec_eq, mulVec_eq, transpose_eq, Matrix.mulVec_mulVec, h2, Matrix.one_mulVec]
theorem getIn_getOut (b : Basis K) (h : WF b) (x : Vec 3 K) : b.getIn (b.getOut x) = x := by
  obtain ⟨ho, horth0, _⟩ := h
  have horth : toM b.into * (toM b.into)ᵀ = 1 := by rw [← transpose_eq, ← mul_eq, horth0, identity_eq]
  simp only [Basis.getOut, Basis.getIn, ho]
  rw [mulVec_eq, mulVec_eq, transpose_eq, Matrix.mulVec_mulVec, horth, Matrix.one_mulVec]

/-- well-formedness of a basis-setting operation: elliptical leaves lie on the unit circle -/
def OpWF : Basis.Op K → Prop
  | .lin => True | .circ => True
  | .ell co so ce se => co*co + so*so = 1 ∧ ce*ce + se*se = 1
  | .refused => True
theorem apply_wf (b : Basis K) (h0 : WF b) (op : Basis.Op K) (h : OpWF op) : WF (b.apply op) := by
  cases op with
  | lin => exact linear_wf
  | circ => exact circular_wf
  | ell co so ce se => exact elliptical_wf co so ce se h.1 h.2
  | refused => exact h0
/-- **every sequence of basis changes on one object — refused settings included — leaves it well formed** -/
theorem history_wf (ops : List (Basis.Op K)) (b0 : Basis K) (h0 : WF b0) (h : ∀ op ∈ ops, OpWF op) :
    WF (ops.foldl Basis.apply b0) := by
  induction ops generalizing b0 with
  | nil => exact h0
  | cons op ops ih =>
    simp only [List.foldl_cons]
    exact ih _ (apply_wf b0 h0 op (h op (List.mem_cons_self ..))) (fun o ho => h o (List.mem_cons_of_mem _ ho))

/-- the circular basis coincides with orientation = ellipticity = π/4
(`cos 2o = cos 2e = 0`, `sin 2o = sin 2e = 1`) -/
theorem circular_eq_elliptical : (Basis.elliptical (0:K) 1 0 1).into = (Basis.circular : Basis K).into := by
  funext i j; fin_cases i <;> fin_cases j <;> simp [epsic]
theorem circular_eq_elliptical_real :
    (Basis.elliptical (Real.cos (2 * (Real.pi/4))) (Real.sin (2 * (Real.pi/4)))
      (Real.cos (2 * (Real.pi/4))) (Real.sin (2 * (Real.pi/4)))).into = (Basis.circular : Basis ℝ).into := by
  have h : 2 * (Real.pi/4) = Real.pi/2 := by ring
  rw [h, Real.cos_pi_div_two, Real.sin_pi_div_two]; exact circular_eq_elliptical
/-- for every orientation and ellipticity the real basis is well formed -/
theorem elliptical_real_wf (o e : ℝ) :
    WF (Basis.elliptical (Real.cos (2*o)) (Real.sin (2*o)) (Real.cos (2*e)) (Real.sin (2*e))) := by
  apply elliptical_wf
  · have := Real.sin_sq_add_cos_sq (2*o); nlinarith [this]
  · have := Real.sin_sq_add_cos_sq (2*e); nlinarith [this]

/-! non-vacuity: a rational unit axis and a rational point of the circle -/
example : unitAxis (v3 (2/3 : ℚ) (1/3) (2/3)) ∧ ((3/5 : ℚ)*(3/5) + (4/5)*(4/5) = 1) := by
  constructor
  · simp [unitAxis, v3]; norm_num
  · norm_num

end Epsic.C14
