import EpsicModel.Sim
/-! # C05 — predicted moments of dual-mode samples -/
namespace Epsic.C05
open Epsic Epsic.Sim
theorem current_composite_counts_repaired : currentCompositeCountsRepaired = true := rfl
end Epsic.C05
