import EpsicProofs.Props.C01
import Mathlib.Tactic.Linarith
import Mathlib.Tactic.FinCases
import Mathlib.Algebra.Order.Floor.Ring
import Mathlib.Algebra.Order.Field.Basic
import Mathlib.Data.Rat.Floor
import Mathlib.Tactic.Positivity
import Mathlib.Tactic.FieldSimp
import Mathlib.Algebra.BigOperators.Intervals
/-! # C05 — predicted moments of dual-mode samples equal the moments of what is generated

* **superposed**: for any expectation functional with standard-normal moments of order ≤ 4 over the
  eight deviates of one instance (`GaussE 8 K`), any polarizers that are roots of the two coherency
  matrices and any joint law of the two unit-mean modulation factors with variances `vA`, `vB` and
  covariance `κ` (`ModE`): the ensemble mean is `A + B` (`superposed_mean`) and the ensemble
  covariance is exactly `Sim.superposedCov` — Eq. 42–43 with the intensity-covariance terms
  (`inst_second`, `superposed_cov`); for `n` uncorrelated instances the prediction is that divided by
  `n` (`superposed_cov_n`); the generator makes instance `i` from its own eight deviates
  (`superposed_gen`).
* **composite**: the generator sums exactly `n_A` instances of A and `n_B` of B while both modes draw
  `max(n_A,n_B)` times (`composite_gen`); Eq. 59 for uncorrelated instances (`composite_cov_iid`); a mode
  without instances contributes nothing and nothing is divided by zero (`composite_cov_noA`).
* **disjoint**: law of total covariance = Eq. 39 (`disjoint_total_cov`); the whole sample comes from
  the selected mode (`disjoint_gen`); the selection probability equals the fraction to the resolution of
  the uniform source (`selection_probability`).
* **coherent**: the ensemble mean equals `A + B` at every coherence for pure states, for any phase set
  whose cosines and sines sum to zero (`coherent_instance`, `coherent_mean`); at zero coherence the
  ensemble covariance equals the predicted covariance (`coherent_cov_zero`, from C01's fourth moments of the
  coupling mode and a polynomial identity for pure states). -/
set_option linter.unusedSectionVars false
set_option linter.unusedVariables false
set_option linter.unusedSimpArgs false
set_option linter.unusedTactic false
set_option linter.unnecessarySeqFocus false
namespace Epsic.C05

open Epsic Matrix Epsic.C01
variable {K : Type} [Field K] [DecidableEq K] [CharZero K]

def lo (i : Fin 4) : Fin 8 := ⟨i.val, by omega⟩
def hi (i : Fin 4) : Fin 8 := ⟨i.val + 4, by omega⟩
/-- the 4×8 matrix taking the eight deviates of one superposed instance (four for mode A, then four for
mode B) to the real field vector of `√m_A e_A + √m_B e_B` (`rA = √m_A`, `rB = √m_B`) -/
def T8 (PA PB : Jones K) (rA rB : K) : Matrix (Fin 4) (Fin 8) K := fun i j =>
  if h : j.val < 4 then rA * Tmat PA i ⟨j.val, h⟩ else rB * Tmat PB i ⟨j.val - 4, by omega⟩

def quadF8 (A : Matrix (Fin 8) (Fin 8) K) (x : Fin 8 → K) : K := x ⬝ᵥ (A *ᵥ x)
theorem quadF8_eq_sum (A : Matrix (Fin 8) (Fin 8) K) (x : Fin 8 → K) :
    quadF8 A x = ∑ i, ∑ j, A i j * (x i * x j) := by
  simp only [quadF8, dotProduct, Matrix.mulVec, Finset.mul_sum]
  apply Finset.sum_congr rfl; intro i _; apply Finset.sum_congr rfl; intro j _; ring
theorem quadF_lin8 (A : Matrix (Fin 4) (Fin 4) K) (T : Matrix (Fin 4) (Fin 8) K) (g : Fin 8 → K) :
    quadF A (T *ᵥ g) = quadF8 (Tᵀ * A * T) g := by
  simp only [quadF, quadF8]
  rw [Matrix.mulVec_mulVec, ← Matrix.mulVec_mulVec, Matrix.dotProduct_mulVec, Matrix.vecMul_mulVec,
    ← Matrix.dotProduct_mulVec, Matrix.mulVec_mulVec]

/-- one superposed instance: the field of A scaled by `rA` plus the field of B scaled by `rB` -/
def instField (PA PB : Jones K) (rA rB : K) (g : Fin 8 → K) : Spinor K :=
  Spinor.add (Spinor.smulR (Sim.getField PA (fun i => g (lo i))) rA) (Spinor.smulR (Sim.getField PB (fun i => g (hi i))) rB)

theorem realField_inst (PA PB : Jones K) (rA rB : K) (g : Fin 8 → K) :
    realField (instField PA PB rA rB g) = T8 PA PB rA rB *ᵥ g := by
  funext i
  have hA := congrFun (realField_getField PA (fun i => g (lo i))) 
  have hB := congrFun (realField_getField PB (fun i => g (hi i)))
  simp only [Matrix.mulVec, dotProduct, Fin.sum_univ_four] at hA hB
  have e : realField (instField PA PB rA rB g) i
      = rA * realField (Sim.getField PA (fun i => g (lo i))) i + rB * realField (Sim.getField PB (fun i => g (hi i))) i := by
    fin_cases i <;> simp [realField, instField, Spinor.add, Spinor.smulR, epsic] <;> ring
  rw [e, hA, hB]
  simp only [Matrix.mulVec, dotProduct, Fin.sum_univ_eight, T8, lo, hi]
  simp
  ring

theorem T8_TT (PA PB : Jones K) (rA rB : K) :
    T8 PA PB rA rB * (T8 PA PB rA rB)ᵀ = (rA*rA) • (Tmat PA * (Tmat PA)ᵀ) + (rB*rB) • (Tmat PB * (Tmat PB)ᵀ) := by
  funext i k
  simp only [Matrix.mul_apply, Matrix.transpose_apply, Matrix.add_apply, Matrix.smul_apply, smul_eq_mul, Fin.sum_univ_eight,
    Fin.sum_univ_four, T8]
  simp
  ring

/-- the covariance of the real field vector of the superposition -/
def W8 (SA SB : Stokes K) (rA rB : K) : Matrix (Fin 4) (Fin 4) K := (rA*rA) • Wmat SA + (rB*rB) • Wmat SB

theorem T8_TT_W (PA PB : Jones K) (SA SB : Stokes K) (hA : IsRoot PA SA) (hB : IsRoot PB SB) (rA rB : K) :
    T8 PA PB rA rB * (T8 PA PB rA rB)ᵀ = W8 SA SB rA rB := by
  rw [T8_TT, TT_eq_W PA SA hA, TT_eq_W PB SB hB]; rfl

theorem inst_quadratic (PA PB : Jones K) (rA rB : K) (g : Fin 8 → K) (k : Fin 4) :
    Spinor.computeStokes (instField PA PB rA rB g) k = quadF8 ((T8 PA PB rA rB)ᵀ * sig k * T8 PA PB rA rB) g := by
  rw [computeStokes_eq, realField_inst, quadF_lin8]

theorem trace_sig_W8 (SA SB : Stokes K) (rA rB : K) (k : Fin 4) :
    Matrix.trace (sig k * W8 SA SB rA rB) = rA*rA * SA k + rB*rB * SB k := by
  simp only [W8, Matrix.mul_add, Matrix.mul_smul, Matrix.trace_add, Matrix.trace_smul, smul_eq_mul, trace_sig_W]

theorem Wmat_add (S T : Stokes K) : Wmat (fun i => S i + T i) = Wmat S + Wmat T := by
  funext i j; fin_cases i <;> fin_cases j <;> simp [Wmat] <;> ring
theorem outer_add (S T : Stokes K) (k l : Fin 4) :
    Minkowski.outer (fun i => S i + T i) (fun i => S i + T i) k l
      = Minkowski.outer S S k l + Minkowski.outer S T k l + Minkowski.outer T S k l + Minkowski.outer T T k l := by
  fin_cases k <;> fin_cases l <;> simp [Minkowski.outer, Minkowski.inner] <;> ring
/-- the mixed fourth-moment traces are the two Minkowski outer products of the two means (by
polarisation of the single-mode identity of C01) -/
theorem trace_sig_W_sig_W_mixed (S T : Stokes K) (k l : Fin 4) :
    2 * Matrix.trace (sig k * Wmat S * (sig l * Wmat T)) + 2 * Matrix.trace (sig k * Wmat T * (sig l * Wmat S))
      = Minkowski.outer S T k l + Minkowski.outer T S k l := by
  have h := trace_sig_W_sig_W (fun i => S i + T i) k l
  rw [Wmat_add, outer_add] at h
  have hS := trace_sig_W_sig_W S k l
  have hT := trace_sig_W_sig_W T k l
  simp only [Matrix.mul_add, Matrix.add_mul, Matrix.trace_add] at h
  linear_combination h - hS - hT

theorem sig_symm' (k : Fin 4) : (sig k : Matrix (Fin 4) (Fin 4) K)ᵀ = sig k := sig_symm k

/-- conditional on the two amplitude factors: **mean of one superposed instance** -/
theorem inst_mean (G : GaussE 8 K) (PA PB : Jones K) (SA SB : Stokes K) (hA : IsRoot PA SA) (hB : IsRoot PB SB) (rA rB : K) (k : Fin 4) :
    G.E (fun g => Spinor.computeStokes (instField PA PB rA rB g) k) = rA*rA * SA k + rB*rB * SB k := by
  simp only [inst_quadratic, quadF8_eq_sum]
  rw [G.quad, Matrix.trace_mul_comm, ← Matrix.mul_assoc, T8_TT_W PA PB SA SB hA hB, Matrix.trace_mul_comm, trace_sig_W8]

/-- conditional on the two amplitude factors: **second moments of one superposed instance** -/
theorem inst_second (G : GaussE 8 K) (PA PB : Jones K) (SA SB : Stokes K) (hA : IsRoot PA SA) (hB : IsRoot PB SB) (rA rB : K) (k l : Fin 4) :
    G.E (fun g => Spinor.computeStokes (instField PA PB rA rB g) k * Spinor.computeStokes (instField PA PB rA rB g) l)
      = (rA*rA * SA k + rB*rB * SB k) * (rA*rA * SA l + rB*rB * SB l)
        + (rA*rA)*(rA*rA) * Minkowski.outer SA SA k l + (rB*rB)*(rB*rB) * Minkowski.outer SB SB k l
        + (rA*rA)*(rB*rB) * (Minkowski.outer SA SB k l + Minkowski.outer SB SA k l) := by
  simp only [inst_quadratic, quadF8_eq_sum]
  rw [G.quad_quad]
  set T := T8 PA PB rA rB with hT
  have hk : Matrix.trace (Tᵀ * sig k * T) = rA*rA * SA k + rB*rB * SB k := by
    rw [Matrix.trace_mul_comm, ← Matrix.mul_assoc, T8_TT_W PA PB SA SB hA hB, Matrix.trace_mul_comm, trace_sig_W8]
  have hl : Matrix.trace (Tᵀ * sig l * T) = rA*rA * SA l + rB*rB * SB l := by
    rw [Matrix.trace_mul_comm, ← Matrix.mul_assoc, T8_TT_W PA PB SA SB hA hB, Matrix.trace_mul_comm, trace_sig_W8]
  have hTr : (Tᵀ * sig l * T)ᵀ = Tᵀ * sig l * T := by
    rw [Matrix.transpose_mul, Matrix.transpose_mul, Matrix.transpose_transpose, sig_symm, Matrix.mul_assoc]
  have hkl : Matrix.trace (Tᵀ * sig k * T * (Tᵀ * sig l * T))
      = Matrix.trace (sig k * W8 SA SB rA rB * (sig l * W8 SA SB rA rB)) := by
    rw [← T8_TT_W PA PB SA SB hA hB rA rB]
    calc Matrix.trace (Tᵀ * sig k * T * (Tᵀ * sig l * T))
        = Matrix.trace (Tᵀ * (sig k * (T * Tᵀ) * (sig l * T))) := by
          simp only [Matrix.mul_assoc]
      _ = Matrix.trace (sig k * (T * Tᵀ) * (sig l * T) * Tᵀ) := Matrix.trace_mul_comm _ _
      _ = Matrix.trace (sig k * (T * Tᵀ) * (sig l * (T * Tᵀ))) := by
          simp only [Matrix.mul_assoc]
  rw [hTr, hk, hl, hkl]
  have hAA := trace_sig_W_sig_W SA k l
  have hBB := trace_sig_W_sig_W SB k l
  have hAB := trace_sig_W_sig_W_mixed SA SB k l
  simp only [W8, Matrix.mul_add, Matrix.add_mul, Matrix.mul_smul, Matrix.smul_mul, Matrix.trace_add, Matrix.trace_smul, smul_eq_mul]
  linear_combination ((rA*rA)*(rA*rA)) * hAA + ((rB*rB)*(rB*rB)) * hBB + ((rA*rA)*(rB*rB)) * hAB

/-! ### the modulation factors -/
/-- a linear expectation over the pair of modulation factors `(m_A, m_B)` with unit means, variances
`vA`, `vB` and covariance `kappa` (what `covariant_coordinator` / independent modulators report) -/
structure ModE (K : Type) [Field K] where
  vA : K
  vB : K
  kappa : K
  E : (K × K → K) → K
  add : ∀ f g, E (fun m => f m + g m) = E f + E g
  smul : ∀ (c : K) f, E (fun m => c * f m) = c * E f
  mA : E (fun m => m.1) = 1
  mB : E (fun m => m.2) = 1
  mAA : E (fun m => m.1 * m.1) = 1 + vA
  mBB : E (fun m => m.2 * m.2) = 1 + vB
  mAB : E (fun m => m.1 * m.2) = 1 + kappa

theorem ModE.quadratic (M : ModE K) (a b c : K) :
    M.E (fun m => a * (m.1 * m.1) + b * (m.2 * m.2) + c * (m.1 * m.2)) = a * (1 + M.vA) + b * (1 + M.vB) + c * (1 + M.kappa) := by
  rw [M.add, M.add, M.smul, M.smul, M.smul, M.mAA, M.mBB, M.mAB]
theorem ModE.linear (M : ModE K) (a b : K) : M.E (fun m => a * m.1 + b * m.2) = a + b := by
  rw [M.add, M.smul, M.smul, M.mA, M.mB]; ring

/-- the theory of a (possibly modulated) mode with unit-mean modulation of variance `v` -/
def modeTheory (S : Stokes K) (v : K) : Sim.ModeTheory K :=
  ⟨S, Sim.modulatedCov (Sim.modeCov S) S 1 v, fun l => if l = 0 then Sim.modulatedCov (Sim.modeCov S) S 1 v else Mat.ofScalar 0⟩

/-- the second moment of one superposed instance given the factors, as a polynomial in `(m_A, m_B)` -/
def condSecond (SA SB : Stokes K) (k l : Fin 4) (m : K × K) : K :=
  (m.1 * SA k + m.2 * SB k) * (m.1 * SA l + m.2 * SB l)
    + m.1*m.1 * Minkowski.outer SA SA k l + m.2*m.2 * Minkowski.outer SB SB k l
    + m.1*m.2 * (Minkowski.outer SA SB k l + Minkowski.outer SB SA k l)

/-- `inst_second` in terms of the factors `m = r²` -/
theorem inst_second_cond (G : GaussE 8 K) (PA PB : Jones K) (SA SB : Stokes K) (hA : IsRoot PA SA) (hB : IsRoot PB SB) (rA rB : K) (k l : Fin 4) :
    G.E (fun g => Spinor.computeStokes (instField PA PB rA rB g) k * Spinor.computeStokes (instField PA PB rA rB g) l)
      = condSecond SA SB k l (rA*rA, rB*rB) := by
  rw [inst_second G PA PB SA SB hA hB]; simp only [condSecond]

theorem outer_swap (a b : Stokes K) (i j : Fin 4) : Minkowski.outer a b i j = Minkowski.outer b a j i := by
  fin_cases i <;> fin_cases j <;> simp [Minkowski.outer, Minkowski.inner] <;> ring

/-- **ensemble mean of a superposed instance = predicted mean** (`superposed::get_mean`) -/
theorem superposed_mean (M : ModE K) (SA SB : Stokes K) (k : Fin 4) :
    M.E (fun m => m.1 * SA k + m.2 * SB k) = Sim.superposedMean (modeTheory SA M.vA) (modeTheory SB M.vB) k := by
  have := M.linear (SA k) (SB k)
  simp only [Sim.superposedMean, modeTheory]
  rw [← this]; congr 1; funext m; ring

/-- **ensemble covariance of a superposed instance = predicted covariance** (`superposed::get_covariance`,
Eq. 42–43, sample size 1), for every pair of Stokes vectors, every pair of modulation variances and every
intensity covariance -/
theorem superposed_cov (M : ModE K) (SA SB : Stokes K) (k l : Fin 4) :
    M.E (condSecond SA SB k l) - (SA k + SB k) * (SA l + SB l)
      = Sim.superposedCov (modeTheory SA M.vA) (modeTheory SB M.vB) M.kappa 1 k l := by
  have h : condSecond SA SB k l = fun m =>
      (SA k * SA l + Minkowski.outer SA SA k l) * (m.1 * m.1) + (SB k * SB l + Minkowski.outer SB SB k l) * (m.2 * m.2)
        + (SA k * SB l + SB k * SA l + (Minkowski.outer SA SB k l + Minkowski.outer SB SA k l)) * (m.1 * m.2) := by
    funext m; simp only [condSecond]; ring
  rw [h, M.quadratic]
  simp only [Sim.superposedCov, Sim.sampleCovM, Sim.sampleCovEntry, Sim.nSqScalar, modeTheory, Sim.modulatedCov, Sim.modeCov, Sim.vouter,
    List.range_zero, List.foldl_nil, ofNat_eq, one_eq, two_eq]
  simp
  rw [outer_swap SB SA k l]
  ring

/-! ### sample means of independent instances -/
theorem foldl_zero_terms (l : List Nat) (f : Nat → K) (hf : ∀ k, f k = 0) (a : K) :
    l.foldl (fun acc k => acc + f k) a = a := by
  induction l generalizing a with
  | nil => rfl
  | cons x xs ih => simp [List.foldl_cons, hf x, ih]
/-- for a mode whose instances are uncorrelated (zero cross-covariance at every non-zero lag) the
covariance of the mean of `n` instances is the instance covariance divided by `n` -/
theorem sampleCov_iid (c : K) (n : Nat) (hn : 0 < n) :
    Sim.sampleCovEntry c (fun l => if l = 0 then c else 0) n (Sim.nSqScalar n) = c / n := by
  have hn' : (n : K) ≠ 0 := by exact_mod_cast hn.ne'
  simp only [Sim.sampleCovEntry, Sim.nSqScalar, ofNat_eq, two_eq]
  rw [foldl_zero_terms _ (fun k => (if k + 1 = 0 then c else 0) * (2 * ((n - (k+1) : Nat) : K))) (by intro k; simp)]
  field_simp
theorem sampleCovM_iid (S : Stokes K) (v : K) (n : Nat) (hn : 0 < n) (k l : Fin 4) :
    Sim.sampleCovM (modeTheory S v) n k l = (modeTheory S v).cov k l / n := by
  simp only [Sim.sampleCovM, modeTheory]
  have := sampleCov_iid (Sim.modulatedCov (Sim.modeCov S) S 1 v k l) n hn
  convert this using 2
  funext l'; by_cases h : l' = 0 <;> simp [h, Mat.ofScalar]

/-- **superposed sample of `n` independent instances**: the predicted covariance is the one-instance
covariance (which `superposed_cov` identifies with the ensemble covariance) divided by `n` -/
theorem superposed_cov_n (SA SB : Stokes K) (vA vB kappa : K) (n : Nat) (hn : 0 < n) (k l : Fin 4) :
    Sim.superposedCov (modeTheory SA vA) (modeTheory SB vB) kappa n k l
      = Sim.superposedCov (modeTheory SA vA) (modeTheory SB vB) kappa 1 k l / n := by
  have hn' : (n : K) ≠ 0 := by exact_mod_cast hn.ne'
  simp only [Sim.superposedCov, sampleCovM_iid SA vA n hn, sampleCovM_iid SB vB n hn, sampleCovM_iid SA vA 1 Nat.one_pos,
    sampleCovM_iid SB vB 1 Nat.one_pos, ofNat_eq, one_eq]
  field_simp
  ring

/-! ### composite samples -/
/-- **composite prediction (Eq. 59) for uncorrelated instances**: `(n_A C_A + n_B C_B)/n²` plus the
intensity-covariance term over the `min(n_A,n_B)` lock-step pairs -/
theorem composite_cov_iid (SA SB : Stokes K) (vA vB kappa : K) (nA n : Nat) (hA : 0 < nA) (hB : nA < n) (k l : Fin 4) :
    Sim.compositeCov true (modeTheory SA vA) (modeTheory SB vB) kappa nA n k l
      = ((nA : K) * (modeTheory SA vA).cov k l + ((n - nA : Nat) : K) * (modeTheory SB vB).cov k l
          + ((min nA (n - nA) : Nat) : K) * kappa * (SA k * SB l + SA l * SB k)) / ((n : K) * n) := by
  have hn' : (n : K) ≠ 0 := by have : 0 < n := by omega
                               exact_mod_cast this.ne'
  have hA' : (nA : K) ≠ 0 := by exact_mod_cast hA.ne'
  have hBpos : 0 < n - nA := by omega
  have hB' : ((n - nA : Nat) : K) ≠ 0 := by exact_mod_cast hBpos.ne'
  have e1 : (nA == 0) = false := by simp; omega
  have e2 : (n - nA == 0) = false := by simp; omega
  simp only [Sim.compositeCov, e1, e2, Bool.and_false, Bool.false_eq_true, if_false, sampleCovM_iid SA vA nA hA, sampleCovM_iid SB vB (n - nA) hBpos,
    ofNat_eq, Sim.vouter]
  simp only [modeTheory]
  field_simp
  ring
/-- a mode that contributes no instances contributes no covariance, and nothing is divided by zero -/
theorem composite_cov_noA (a b : Sim.ModeTheory K) (kappa : K) (n : Nat) (hn : 0 < n) (k l : Fin 4) :
    Sim.compositeCov true a b kappa 0 n k l = Sim.sampleCovM b n k l := by
  have hn' : (n : K) ≠ 0 := by exact_mod_cast hn.ne'
  have e2 : (n == 0) = false := by simp; omega
  simp [Sim.compositeCov, e2, hn']
theorem composite_mean_counts (a b : Sim.ModeTheory K) (nA n : Nat) (k : Fin 4) :
    Sim.compositeMean a b nA n k = ((nA : K) * a.mean k + ((n - nA : Nat) : K) * b.mean k) / n := by
  simp only [Sim.compositeMean, ofNat_eq]; ring

/-! ### disjoint samples -/
/-- **law of total covariance** for a sample that is entirely mode A with probability `f` and entirely
mode B otherwise: second moment of the mixture minus the product of the mixture means is Eq. 39 -/
theorem disjoint_total_cov (a b : Sim.ModeTheory K) (f : K) (n : Nat) (k l : Fin 4) :
    (f * (Sim.sampleCovM a n k l + a.mean k * a.mean l) + (1 - f) * (Sim.sampleCovM b n k l + b.mean k * b.mean l))
        - Sim.disjointMean a b f k * Sim.disjointMean a b f l
      = Sim.disjointCov a b f n k l := by
  simp only [Sim.disjointMean, Sim.disjointCov, Sim.vouter, one_eq]; ring
/-- successive disjoint samples of modes with uncorrelated instances are uncorrelated: the predicted
lagged cross-covariance vanishes -/
theorem disjoint_xcov_iid (SA SB : Stokes K) (vA vB f : K) (lag : Nat) (hl : 0 < lag) (k l : Fin 4) :
    Sim.disjointXCov (modeTheory SA vA) (modeTheory SB vB) f lag k l = 0 := by
  simp [Sim.disjointXCov, modeTheory, hl.ne', Mat.ofScalar]

/-! ### the uniform source of the disjoint selection -/

/-- **selection probability to the resolution of the uniform source**: `random()` takes the `M+1`
values `0 … M = RAND_MAX` with equal probability; the number of them with `random()/M < f` differs
from `f (M+1)` by at most one, for every fraction `f` in `[0,1]` -/
theorem selection_probability (f : ℚ) (M : ℕ) (hM : 0 < M) (h0 : 0 ≤ f) (h1 : f ≤ 1) :
    |(((Finset.range (M+1)).filter (fun r : ℕ => (r:ℚ)/M < f)).card : ℚ) / (M+1) - f| ≤ 1 / (M+1) := by
  have hMq : (0:ℚ) < M := by exact_mod_cast hM
  have hfM : 0 ≤ f * M := mul_nonneg h0 hMq.le
  have hceil : ⌈f * M⌉₊ ≤ M := by
    apply Nat.ceil_le.mpr
    calc f * M ≤ 1 * M := mul_le_mul_of_nonneg_right h1 hMq.le
      _ = M := one_mul _
  have hfilter : (Finset.range (M+1)).filter (fun r : ℕ => (r:ℚ)/M < f) = Finset.range ⌈f * M⌉₊ := by
    ext r
    simp only [Finset.mem_filter, Finset.mem_range]
    constructor
    · rintro ⟨_, h⟩
      rw [div_lt_iff₀ hMq] at h
      exact Nat.lt_ceil.mpr h
    · intro h
      refine ⟨by omega, ?_⟩
      rw [div_lt_iff₀ hMq]
      exact Nat.lt_ceil.mp h
  rw [hfilter, Finset.card_range]
  have hlo : f * M ≤ (⌈f * M⌉₊ : ℚ) := Nat.le_ceil _
  have hhi : (⌈f * M⌉₊ : ℚ) < f * M + 1 := Nat.ceil_lt_add_one hfM
  have hpos : (0:ℚ) < M + 1 := by positivity
  rw [abs_le]
  constructor
  · rw [le_sub_iff_add_le, ← sub_eq_neg_add, le_div_iff₀ hpos, sub_mul]
    have : 1 / ((M:ℚ) + 1) * (M + 1) = 1 := by field_simp
    rw [this]; nlinarith
  · rw [sub_le_iff_le_add, div_le_iff₀ hpos, add_mul]
    have : 1 / ((M:ℚ) + 1) * (M + 1) = 1 := by field_simp
    rw [this]; nlinarith

/-! ### the generators on an explicit deviate stream -/

open Finset

/-- the block of four deviates starting at position `p` of the stream -/
def block (devs : List K) (p : Nat) : Vec 4 K := (Sim.take4 (devs.drop p)).1

section gen
variable (field : Jones K → Vec 4 K → Spinor K) (pA pB : Jones K) (nA nB : Nat) (devs : List K)

/-- instance `i` of mode A in a composite sample is made from deviates `8i … 8i+3`, of mode B from `8i+4 … 8i+7` -/
def instA (i : Nat) : Stokes K := Spinor.computeStokes (field pA (block devs (8*i)))
def instB (i : Nat) : Stokes K := Spinor.computeStokes (field pB (block devs (8*i + 4)))

theorem drop4 (l : List K) : (Sim.take4 l).2 = l.drop 4 := rfl

theorem composite_fold (m : Nat) :
    (List.range m).foldl (Sim.compositeStep field pA pB nA nB) (Sim.stokesZero, devs, 0)
      = ((fun k => ∑ i ∈ range m, ((if i < nA then instA field pA devs i k else 0) + (if i < nB then instB field pB devs i k else 0))),
         devs.drop (8*m), 8*m) := by
  induction m with
  | zero => simp only [List.range_zero, List.foldl_nil, Finset.range_zero, Finset.sum_empty]; rfl
  | succ m ih =>
    rw [List.range_succ, List.foldl_append, ih]
    simp only [List.foldl_cons, List.foldl_nil, Sim.compositeStep, drop4, List.drop_drop]
    refine Prod.ext ?_ (Prod.ext ?_ ?_)
    · funext k
      simp only [Finset.sum_range_succ, instA, instB, block]
      have e : 4 + 8 * m = 8 * m + 4 := by omega
      by_cases ha : m < nA <;> by_cases hb : m < nB <;> simp [ha, hb, Sim.stokesAdd, e] <;> ring
    · simp only; rw [show 8 * m + 4 + 4 = 8 * (m + 1) by omega]
    · simp only; ring

/-- **composite generator**: exactly `n_A` instances of A and `n_B` of B are summed, the two modes
draw in lock-step `max(n_A,n_B)` times each (8 deviates per iteration), and the sum is divided by `n` -/
theorem composite_gen (n : Nat) (k : Fin 4) :
    (Sim.compositeGen field pA pB nA nB n devs).1 k
        = ((∑ i ∈ range nA, instA field pA devs i k) + (∑ i ∈ range nB, instB field pB devs i k)) / n ∧
    (Sim.compositeGen field pA pB nA nB n devs).2 = 8 * max nA nB := by
  simp only [Sim.compositeGen, composite_fold field pA pB nA nB devs (max nA nB)]
  refine ⟨?_, trivial⟩
  simp only [Sim.stokesDivN, ofNat_eq, Finset.sum_add_distrib]
  congr 1
  congr 1
  · rw [← Finset.sum_filter]
    congr 1; ext i; simp only [mem_filter, mem_range]; omega
  · rw [← Finset.sum_filter]
    congr 1; ext i; simp only [mem_filter, mem_range]; omega

/-- instance `i` of a superposed sample: fields of A (deviates `8i…8i+3`) and B (`8i+4…8i+7`) added before detection -/
def instS (i : Nat) : Stokes K :=
  Spinor.computeStokes (Spinor.add (field pA (block devs (8*i))) (field pB (block devs (8*i + 4))))
theorem superposed_fold (m : Nat) :
    (List.range m).foldl (Sim.superposedStep field pA pB) (Sim.stokesZero, devs, 0)
      = ((fun k => ∑ i ∈ range m, instS field pA pB devs i k), devs.drop (8*m), 8*m) := by
  induction m with
  | zero => simp only [List.range_zero, List.foldl_nil, Finset.range_zero, Finset.sum_empty]; rfl
  | succ m ih =>
    rw [List.range_succ, List.foldl_append, ih]
    simp only [List.foldl_cons, List.foldl_nil, Sim.superposedStep, drop4, List.drop_drop]
    refine Prod.ext ?_ (Prod.ext ?_ ?_)
    · funext k
      have e : 4 + 8 * m = 8 * m + 4 := by omega
      simp [Finset.sum_range_succ, instS, block, Sim.stokesAdd, e]
    · simp only; rw [show 8 * m + 4 + 4 = 8 * (m + 1) by omega]
    · simp only; ring
/-- **superposed generator**: the sample is the mean of `n` instances, instance `i` made from its own
eight deviates (so instances are functions of disjoint blocks of the stream) -/
theorem superposed_gen (n : Nat) (k : Fin 4) :
    (Sim.superposedGen field pA pB n devs).1 k = (∑ i ∈ range n, instS field pA pB devs i k) / n ∧
    (Sim.superposedGen field pA pB n devs).2 = 8 * n := by
  simp only [Sim.superposedGen, superposed_fold field pA pB devs n]
  exact ⟨by simp [Sim.stokesDivN, ofNat_eq], trivial⟩

def instD (p : Jones K) (i : Nat) : Stokes K := Spinor.computeStokes (field p (block devs (4*i)))
theorem disjoint_fold (p : Jones K) (m : Nat) :
    (List.range m).foldl (Sim.disjointStep field p) (Sim.stokesZero, devs, 0)
      = ((fun k => ∑ i ∈ range m, instD field devs p i k), devs.drop (4*m), 4*m) := by
  induction m with
  | zero => simp only [List.range_zero, List.foldl_nil, Finset.range_zero, Finset.sum_empty]; rfl
  | succ m ih =>
    rw [List.range_succ, List.foldl_append, ih]
    simp only [List.foldl_cons, List.foldl_nil, Sim.disjointStep, drop4, List.drop_drop]
    refine Prod.ext ?_ (Prod.ext ?_ ?_)
    · funext k
      simp [Finset.sum_range_succ, instD, block, Sim.stokesAdd]
    · simp only; rw [show 4 * m + 4 = 4 * (m + 1) by omega]
    · simp only; ring
/-- **disjoint generator**: the whole sample (all `n` instances, four deviates each) comes from the one
selected mode -/
theorem disjoint_gen (sel : Bool) (n : Nat) (k : Fin 4) :
    (Sim.disjointGen field pA pB sel n devs).1 k = (∑ i ∈ range n, instD field devs (if sel then pA else pB) i k) / n ∧
    (Sim.disjointGen field pA pB sel n devs).2 = 4 * n := by
  simp only [Sim.disjointGen, disjoint_fold field devs _ n]
  exact ⟨by simp [Sim.stokesDivN, ofNat_eq], trivial⟩
end gen

/-! ### coherent combinations: the mean at every coherence -/
/-- the sesquilinear cross terms `a† σ_k b` of two spinors -/
def crossM (a b : Spinor K) (k : Fin 4) : Cx K :=
  match k with
  | 0 => a.x.conj * b.x + a.y.conj * b.y
  | 1 => a.x.conj * b.x - a.y.conj * b.y
  | 2 => a.x.conj * b.y + a.y.conj * b.x
  | 3 => ⟨(a.x.conj * b.y - a.y.conj * b.x).im, -(a.x.conj * b.y - a.y.conj * b.x).re⟩

/-- `coherent::get_Stokes`, one instance: the Stokes parameters of `x·a + y·b` are linear in the Stokes
parameters `s` of the coupling amplitudes `(x, y)` -/
theorem coherent_instance (a b : Spinor K) (x y : Cx K) (k : Fin 4) :
    Spinor.computeStokes (Spinor.add (Spinor.smulC x a) (Spinor.smulC y b)) k
      = (1/2) * (Spinor.computeStokes ⟨x, y⟩ 0 + Spinor.computeStokes ⟨x, y⟩ 1) * Spinor.computeStokes a k
        + (1/2) * (Spinor.computeStokes ⟨x, y⟩ 0 - Spinor.computeStokes ⟨x, y⟩ 1) * Spinor.computeStokes b k
        + Spinor.computeStokes ⟨x, y⟩ 2 * (crossM a b k).re - Spinor.computeStokes ⟨x, y⟩ 3 * (crossM a b k).im := by
  fin_cases k <;> simp [Spinor.computeStokes, Spinor.add, Spinor.smulC, crossM, epsic, Cx.norm_def] <;> ring

/-- ensemble over the coupling mode's deviates, at a fixed phase: for pure states `a`, `b` of the two
modes (`compute_stokes(a) = A`, `compute_stokes(b) = B`) and a coupling polarizer that is a root of
`(2, 0, 2c·cs, 2c·sn)` -/
theorem coherent_mean_fixed_phase (G : GaussE 4 K) (P : Jones K) (c cs sn : K) (a b : Spinor K)
    (hP : IsRoot P (v4 2 0 (2*c*cs) (2*c*sn))) (k : Fin 4) :
    G.E (fun g => Spinor.computeStokes (Spinor.add (Spinor.smulC (Sim.getField P g).x a) (Spinor.smulC (Sim.getField P g).y b)) k)
      = Spinor.computeStokes a k + Spinor.computeStokes b k + 2 * c * (cs * (crossM a b k).re - sn * (crossM a b k).im) := by
  have h0 := mean_stokes G P _ hP 0
  have h1 := mean_stokes G P _ hP 1
  have h2 := mean_stokes G P _ hP 2
  have h3 := mean_stokes G P _ hP 3
  have e : (fun g => Spinor.computeStokes (Spinor.add (Spinor.smulC (Sim.getField P g).x a) (Spinor.smulC (Sim.getField P g).y b)) k)
      = fun g => ((1/2) * Spinor.computeStokes a k + (1/2) * Spinor.computeStokes b k) * Spinor.computeStokes (Sim.getField P g) 0
          + (((1/2) * Spinor.computeStokes a k - (1/2) * Spinor.computeStokes b k) * Spinor.computeStokes (Sim.getField P g) 1
          + ((crossM a b k).re * Spinor.computeStokes (Sim.getField P g) 2
          + (-(crossM a b k).im) * Spinor.computeStokes (Sim.getField P g) 3)) := by
    funext g
    have := coherent_instance a b (Sim.getField P g).x (Sim.getField P g).y k
    rw [show (⟨(Sim.getField P g).x, (Sim.getField P g).y⟩ : Spinor K) = Sim.getField P g from rfl] at this
    rw [this]; ring
  rw [e, G.add, G.add, G.add, G.smul, G.smul, G.smul, G.smul, h0, h1, h2, h3]
  simp [v4]
  ring

/-- **coherent combination: the ensemble mean equals the predicted mean `A + B` at every coherence**:
averaging over any set of phases whose cosines and sines sum to zero (the uniform phase; any `N ≥ 2`
equally spaced phases) removes the interference term -/
theorem coherent_mean (G : GaussE 4 K) (c : K) (a b : Spinor K) (N : Nat) (hN : (N : K) ≠ 0)
    (P : Fin N → Jones K) (cs sn : Fin N → K)
    (hP : ∀ i, IsRoot (P i) (v4 2 0 (2*c*cs i) (2*c*sn i))) (hcs : ∑ i, cs i = 0) (hsn : ∑ i, sn i = 0) (k : Fin 4) :
    (∑ i, G.E (fun g => Spinor.computeStokes (Spinor.add (Spinor.smulC (Sim.getField (P i) g).x a) (Spinor.smulC (Sim.getField (P i) g).y b)) k)) / N
      = Spinor.computeStokes a k + Spinor.computeStokes b k := by
  simp only [coherent_mean_fixed_phase G _ c _ _ a b (hP _) k]
  rw [Finset.sum_add_distrib, Finset.sum_const, Finset.card_univ, Fintype.card_fin, ← Finset.mul_sum, Finset.sum_sub_distrib,
    ← Finset.sum_mul, ← Finset.sum_mul, hcs, hsn]
  simp
  field_simp

/-- coefficients of one coherent instance in the Stokes parameters of the coupling amplitudes -/
def cohCoef (a b : Spinor K) (k : Fin 4) : Fin 4 → K := fun i => match i with
  | 0 => (1/2) * (Spinor.computeStokes a k + Spinor.computeStokes b k)
  | 1 => (1/2) * (Spinor.computeStokes a k - Spinor.computeStokes b k)
  | 2 => (crossM a b k).re
  | 3 => -(crossM a b k).im

theorem coherent_instance_sum (a b : Spinor K) (e : Spinor K) (k : Fin 4) :
    Spinor.computeStokes (Spinor.add (Spinor.smulC e.x a) (Spinor.smulC e.y b)) k
      = ∑ i, cohCoef a b k i * Spinor.computeStokes e i := by
  have := coherent_instance a b e.x e.y k
  rw [show (⟨e.x, e.y⟩ : Spinor K) = e from rfl] at this
  rw [this, Fin.sum_univ_four]
  simp only [cohCoef]; ring

/-- second moments of the coupling Stokes parameters at zero coherence (`S = (2,0,0,0)`): C01 gives
`E[s_i s_j] = S_i S_j + outer(S,S)_{ij}` -/
theorem coupling_second (G : GaussE 4 K) (P : Jones K) (hP : IsRoot P (v4 2 0 0 0)) (i j : Fin 4) :
    G.E (fun g => Spinor.computeStokes (Sim.getField P g) i * Spinor.computeStokes (Sim.getField P g) j)
      = (v4 (2:K) 0 0 0) i * (v4 (2:K) 0 0 0) j + Sim.modeCov (v4 (2:K) 0 0 0) i j := by
  have := cov_stokes G P _ hP i j
  linear_combination this

/-- ensemble second moment of one coherent instance at zero coherence -/
theorem coherent_second (G : GaussE 4 K) (P : Jones K) (hP : IsRoot P (v4 2 0 0 0)) (a b : Spinor K) (k l : Fin 4) :
    G.E (fun g => Spinor.computeStokes (Spinor.add (Spinor.smulC (Sim.getField P g).x a) (Spinor.smulC (Sim.getField P g).y b)) k
                * Spinor.computeStokes (Spinor.add (Spinor.smulC (Sim.getField P g).x a) (Spinor.smulC (Sim.getField P g).y b)) l)
      = ∑ i, ∑ j, cohCoef a b k i * cohCoef a b l j * ((v4 (2:K) 0 0 0) i * (v4 (2:K) 0 0 0) j + Sim.modeCov (v4 (2:K) 0 0 0) i j) := by
  have e : (fun g => Spinor.computeStokes (Spinor.add (Spinor.smulC (Sim.getField P g).x a) (Spinor.smulC (Sim.getField P g).y b)) k
                * Spinor.computeStokes (Spinor.add (Spinor.smulC (Sim.getField P g).x a) (Spinor.smulC (Sim.getField P g).y b)) l)
      = fun g => ∑ i, ∑ j, (cohCoef a b k i * cohCoef a b l j) *
          (Spinor.computeStokes (Sim.getField P g) i * Spinor.computeStokes (Sim.getField P g) j) := by
    funext g
    rw [coherent_instance_sum, coherent_instance_sum, Finset.sum_mul_sum]
    apply Finset.sum_congr rfl; intro i _; apply Finset.sum_congr rfl; intro j _; ring
  rw [e, G.sum]
  apply Finset.sum_congr rfl; intro i _
  rw [G.sum]
  apply Finset.sum_congr rfl; intro j _
  rw [G.smul, coupling_second G P hP]

set_option maxHeartbeats 4000000 in
/-- the zero-coherence covariance identity for pure states: what the Gaussian fourth moments give is
the predicted `coherent::get_covariance` (Eq. 42 without modulation) -/
theorem coherent_cov_identity (a b : Spinor K) (k l : Fin 4) :
    (∑ i, ∑ j, cohCoef a b k i * cohCoef a b l j * ((v4 (2:K) 0 0 0) i * (v4 (2:K) 0 0 0) j + Sim.modeCov (v4 (2:K) 0 0 0) i j))
        - (Spinor.computeStokes a k + Spinor.computeStokes b k) * (Spinor.computeStokes a l + Spinor.computeStokes b l)
      = Sim.coherentCov (modeTheory (Spinor.computeStokes a) 0) (modeTheory (Spinor.computeStokes b) 0) 1 k l := by
  simp only [Fin.sum_univ_four, Sim.coherentCov, Sim.sampleCovM, Sim.sampleCovEntry, Sim.nSqScalar, modeTheory, Sim.modulatedCov,
    Sim.modeCov, List.range_zero, List.foldl_nil, ofNat_eq, one_eq, two_eq]
  fin_cases k <;> fin_cases l <;>
    simp [cohCoef, crossM, v4, Minkowski.outer, Minkowski.inner, Spinor.computeStokes, epsic, Cx.norm_def] <;> ring

/-- **coherent combination at zero coherence: ensemble covariance = predicted covariance** (one instance,
pure states `a`, `b`, any `GaussE 4`, coupling polarizer a root of `(2,0,0,0)`) -/
theorem coherent_cov_zero (G : GaussE 4 K) (P : Jones K) (hP : IsRoot P (v4 2 0 0 0)) (a b : Spinor K) (k l : Fin 4) :
    G.E (fun g => Spinor.computeStokes (Spinor.add (Spinor.smulC (Sim.getField P g).x a) (Spinor.smulC (Sim.getField P g).y b)) k
                * Spinor.computeStokes (Spinor.add (Spinor.smulC (Sim.getField P g).x a) (Spinor.smulC (Sim.getField P g).y b)) l)
        - (Spinor.computeStokes a k + Spinor.computeStokes b k) * (Spinor.computeStokes a l + Spinor.computeStokes b l)
      = Sim.coherentCov (modeTheory (Spinor.computeStokes a) 0) (modeTheory (Spinor.computeStokes b) 0) 1 k l := by
  rw [coherent_second G P hP, coherent_cov_identity]

theorem current_repairs : Sim.currentCompositeCountsRepaired = true ∧ Sim.currentCompositeZeroGuard = true := ⟨rfl, rfl⟩
/-- before the repair the generator's second count was `unsigned (n - fraction)`: for `n = 8`, fraction ¼ it is 7, not 6 -/
example : Sim.compositeCountB false 2 8 7 = 7 ∧ Sim.compositeCountB true 2 8 7 = 6 := by decide
end Epsic.C05
