import EpsicProofs.Lemmas.Linear
/-! # C04 — Jones matrices obey the algebra of 2×2 complex matrices; element access

All algebraic statements are for every Jones matrix / scalar over any field of characteristic 0.
Access statements say that each accessor's index map is the identity onto storage order (hence a
bijection), for reading and for writing. -/
set_option linter.unusedSectionVars false
set_option linter.unusedVariables false
namespace Epsic.C04
open Epsic
variable {K : Type} [Field K] [DecidableEq K] [CharZero K]

macro "alg" : tactic =>
  `(tactic| ((first | ext | skip) <;> simp only [epsic, Cx.norm_def] <;> (try field_simp) <;> ring))

/-! ## ring laws -/
theorem add_assoc' (a b c : Jones K) : a + b + c = a + (b + c) := by alg
theorem add_comm' (a b : Jones K) : a + b = b + a := by alg
theorem add_zero' (a : Jones K) : a + Jones.zeroJ = a := by alg
theorem add_neg' (a : Jones K) : a + -a = Jones.zeroJ := by alg
theorem sub_eq_add_neg' (a b : Jones K) : a - b = a + -b := by alg
theorem mul_assoc' (a b c : Jones K) : a * b * c = a * (b * c) := by alg
theorem left_distrib' (a b c : Jones K) : a * (b + c) = a * b + a * c := by alg
theorem right_distrib' (a b c : Jones K) : (a + b) * c = a * c + b * c := by alg
theorem mul_one' (a : Jones K) : a * Jones.identity = a := by alg
theorem one_mul' (a : Jones K) : Jones.identity * a = a := by alg

/-! ## scalar multiplication and division commute with the product -/
theorem smulC_mul (c : Cx K) (a b : Jones K) : Jones.smulC c a * b = Jones.smulC c (a * b) := by alg
theorem mul_smulC (c : Cx K) (a b : Jones K) : a * Jones.smulC c b = Jones.smulC c (a * b) := by alg
theorem smulR_mul (r : K) (a b : Jones K) : Jones.smulR r a * b = Jones.smulR r (a * b) := by alg
theorem mul_smulR (r : K) (a b : Jones K) : a * Jones.smulR r b = Jones.smulR r (a * b) := by alg
theorem smulC_eq_mul_scalar (c : Cx K) (a : Jones K) : Jones.smulC c a = a * Jones.ofScalar c := by alg
theorem smulR_eq_smulC (r : K) (a : Jones K) : Jones.smulR r a = Jones.smulC (Cx.ofReal r) a := by alg
/-- division by a complex scalar: defined iff `|c|² ≠ 0`, and then commutes with the product -/
theorem sdivC_mul (c : Cx K) (a b : Jones K) :
    (fun x => x * b) <$> a.sdivC c = (a * b).sdivC c := by
  by_cases h : c.norm = 0
  · simp only [Jones.sdivC, Cx.div_err h]; rfl
  · simp only [Jones.sdivC, Cx.div_ok h]
    show Except.ok _ = Except.ok _
    congr 1; alg
theorem sdivC_smulC (c : Cx K) (a : Jones K) (h : c.norm ≠ 0) :
    Jones.smulC c <$> a.sdivC c = .ok a := by
  simp only [Jones.sdivC, Cx.div_ok h]
  show Except.ok _ = Except.ok _
  congr 1
  ext <;> simp only [epsic] <;> field_simp <;> (try simp only [epsic, Cx.norm_def]) <;> ring
theorem sdivR_mul (r : K) (a b : Jones K) :
    (fun x => x * b) <$> a.sdivR r = (a * b).sdivR r := by
  by_cases h : r = 0
  · simp only [Jones.sdivR, sdiv_err h]; rfl
  · simp only [Jones.sdivR, sdiv_ok h]
    show Except.ok _ = Except.ok _
    congr 1; alg
theorem sdivR_err (r : K) (a : Jones K) (h : r = 0) : a.sdivR r = .error .div0 := by
  simp only [Jones.sdivR, sdiv_err h]; rfl

/-! ## determinant, trace, characteristic equation -/
theorem det_mul (a b : Jones K) : (a * b).det = a.det * b.det := by alg
theorem det_identity : (Jones.identity : Jones K).det = one := by alg
theorem trace_add (a b : Jones K) : (a + b).trace = a.trace + b.trace := by alg
theorem trace_smulC (c : Cx K) (a : Jones K) : (Jones.smulC c a).trace = c * a.trace := by alg
theorem trace_mul_comm (a b : Jones K) : (a * b).trace = (b * a).trace := by alg
/-- Cayley–Hamilton: `J² − tr J · J + det J · 1 = 0` -/
theorem cayley_hamilton (a : Jones K) :
    a * a - Jones.smulC a.trace a + Jones.ofScalar a.det = Jones.zeroJ := by alg

/-! ## conjugate, Hermitian transpose, Frobenius norm -/
theorem conj_mul (a b : Jones K) : (a * b).conj = a.conj * b.conj := by alg
theorem conj_add (a b : Jones K) : (a + b).conj = a.conj + b.conj := by alg
theorem conj_conj (a : Jones K) : a.conj.conj = a := by alg
theorem herm_mul (a b : Jones K) : (a * b).herm = b.herm * a.herm := by alg
theorem herm_add (a b : Jones K) : (a + b).herm = a.herm + b.herm := by alg
theorem herm_herm (a : Jones K) : a.herm.herm = a := by alg
theorem norm_eq_trace (a : Jones K) : Cx.ofReal a.norm = (a * a.herm).trace := by alg

/-! ## inverse: two-sided whenever `|det|² ≠ 0`; the division error otherwise -/
theorem inv_ok (a : Jones K) (h : a.det.norm ≠ 0) : ∃ x, a.inv = .ok x ∧ a * x = Jones.identity ∧ x * a = Jones.identity := by
  refine ⟨_, by simp only [Jones.inv, Cx.div_ok h]; rfl, ?_, ?_⟩ <;>
  · simp only [epsic] at h
    ext <;> simp only [epsic] <;> field_simp <;> (try simp only [epsic, Cx.norm_def]) <;> ring
theorem inv_err (a : Jones K) (h : a.det.norm = 0) : a.inv = .error .div0 := by
  simp only [Jones.inv, Cx.div_err h]; rfl

/-! ## conversion to and from the generic 2×2 matrix type -/
def toMat (j : Jones K) : Mat 2 2 (Cx K) := fun r c => j.get2 r c
def ofMat (m : Mat 2 2 (Cx K)) : Jones K := ⟨m 0 0, m 0 1, m 1 0, m 1 1⟩
theorem ofMat_toMat (j : Jones K) : ofMat (toMat j) = j := by
  simp only [ofMat, toMat, Jones.get2, Jones.rcIndex]; rfl
theorem toMat_ofMat (m : Mat 2 2 (Cx K)) : toMat (ofMat m) = m := by
  funext r c; fin_cases r <;> fin_cases c <;> rfl
/-- the Jones product is the generic `Matrix<2,2,complex>` product of the casts -/
theorem toMat_mul (a b : Jones K) : toMat (a * b) = Mat.mul (toMat a) (toMat b) := by
  funext r c
  apply Cx.ext'
  · rw [Mat.mul, sumFin_cx_re, Fin.sum_univ_two]
    fin_cases r <;> fin_cases c <;> simp [toMat, Jones.get2, Jones.rcIndex, Jones.get, epsic]
  · rw [Mat.mul, sumFin_cx_im, Fin.sum_univ_two]
    fin_cases r <;> fin_cases c <;> simp [toMat, Jones.get2, Jones.rcIndex, Jones.get, epsic]

/-! ## diagonality test, degree of polarisation -/
theorem isDiagonal_iff (j : Jones K) : j.isDiagonal = true ↔ j.j01 = zero ∧ j.j10 = zero := by
  simp [Jones.isDiagonal]
/-- `p()² · tr² = tr² − 4 det` whenever the accessor's division is defined -/
theorem pSq_spec (j : Jones K) (x : K) (h : j.pSq = .ok x) :
    x * (j.trace.re * j.trace.re) = j.trace.re * j.trace.re - 4 * j.det.re := by
  unfold Jones.pSq at h
  by_cases ht : j.trace.re * j.trace.re = 0
  · simp [sdiv, ht, bind, Except.bind] at h
  · have ht' : j.trace.re ≠ 0 := fun h0 => ht (by rw [h0]; ring)
    simp [sdiv, ht, bind, Except.bind, pure, Except.pure] at h
    rw [← h]; field_simp; ring
theorem pSq_err (j : Jones K) (h : j.trace.re = 0) : j.pSq = .error .div0 := by
  simp [Jones.pSq, sdiv, h, bind, Except.bind]

/-! ## element access visits every stored scalar exactly once, in storage order -/
/-- `operator[]`: index `n` reads the `n`-th stored scalar -/
theorem get_eq_storage (j : Jones K) (n : Fin 4) : some (j.get n) = j.toList[n.val]? := by
  fin_cases n <;> rfl
/-- `operator()(r,c)` addresses slot `2r+c`, a bijection `Fin 2 × Fin 2 ≃ Fin 4` -/
theorem rcIndex_val (r c : Fin 2) : (Jones.rcIndex r c).val = 2 * r.val + c.val := by
  simp [Jones.rcIndex]; omega
theorem rcIndex_bijective : Function.Bijective (fun p : Fin 2 × Fin 2 => Jones.rcIndex p.1 p.2) := by
  constructor
  · intro ⟨a, b⟩ ⟨c, d⟩ h
    have := congrArg Fin.val h; simp [Jones.rcIndex] at this
    ext <;> simp <;> omega
  · intro n; fin_cases n
    exacts [⟨(0,0), rfl⟩, ⟨(0,1), rfl⟩, ⟨(1,0), rfl⟩, ⟨(1,1), rfl⟩]
theorem get_set_same (j : Jones K) (n : Fin 4) (v : Cx K) : (j.set n v).get n = v := by
  fin_cases n <;> rfl
theorem get_set_other (j : Jones K) (n m : Fin 4) (v : Cx K) (h : m ≠ n) : (j.set n v).get m = j.get m := by
  fin_cases n <;> fin_cases m <;> first | rfl | exact absurd rfl h
/-- quaternions: `operator[]`, `DatumTraits<Quaternion>::element` -/
theorem quat_get_eq_storage {β : Type} (q : Quat β) (n : Fin 4) : some (q.get n) = q.toList[n.val]? := by
  fin_cases n <;> rfl
theorem quat_get_set_same {β : Type} (q : Quat β) (n : Fin 4) (v : β) : (q.set n v).get n = v := by
  fin_cases n <;> rfl
theorem quat_get_set_other {β : Type} (q : Quat β) (n m : Fin 4) (v : β) (h : m ≠ n) :
    (q.set n v).get m = q.get m := by
  fin_cases n <;> fin_cases m <;> first | rfl | exact absurd rfl h
/-- `DatumTraits<Matrix<R,C,T>>::element(t,i) = t[i/C][i%C]` enumerates row-major storage:
the index map is a bijection with inverse `(r,c) ↦ r*C+c` -/
theorem datumIndex_inv (r c : Nat) (i : Fin (r*c)) :
    (Mat.datumIndex r c i).1.val * c + (Mat.datumIndex r c i).2.val = i.val := by
  simp only [Mat.datumIndex]
  rw [Nat.mul_comm]; exact Nat.div_add_mod _ _
theorem datumIndex_injective (r c : Nat) : Function.Injective (Mat.datumIndex r c) := by
  intro i j h
  have hi := datumIndex_inv r c i; have hj := datumIndex_inv r c j
  rw [h] at hi; exact Fin.ext (hi.symm.trans hj)
theorem datumIndex_surjective (r c : Nat) (a : Fin r) (b : Fin c) :
    ∃ i : Fin (r*c), Mat.datumIndex r c i = (a, b) := by
  have hlt : a.val * c + b.val < r * c := by
    calc a.val * c + b.val < a.val * c + c := by omega
      _ = (a.val + 1) * c := by ring
      _ ≤ r * c := Nat.mul_le_mul_right c a.isLt
  refine ⟨⟨a.val * c + b.val, hlt⟩, ?_⟩
  have hc : 0 < c := Nat.pos_of_ne_zero (fun h => by have := b.isLt; omega)
  simp only [Mat.datumIndex]
  ext
  · show (a.val * c + b.val) / c = a.val
    rw [Nat.mul_comm, Nat.mul_add_div hc, Nat.div_eq_of_lt b.isLt]; simp
  · show (a.val * c + b.val) % c = b.val
    rw [Nat.mul_comm, Nat.mul_add_mod, Nat.mod_eq_of_lt b.isLt]

/-! ## non-vacuity -/
example : (⟨⟨1,2⟩,⟨0,1⟩,⟨3,0⟩,⟨1,1⟩⟩ : Jones ℚ).det.norm ≠ 0 := by simp only [epsic, Cx.norm_def]; norm_num
example : (⟨⟨1,0⟩,⟨2,0⟩,⟨2,0⟩,⟨4,0⟩⟩ : Jones ℚ).det.norm = 0 := by simp only [epsic, Cx.norm_def]; norm_num

end Epsic.C04
