import EpsicProofs.Lemmas.Algebra
namespace Epsic.C04
end Epsic.C04
