import EpsicProofs.Lemmas.Stokes
import Mathlib.Data.List.Rotate
import Mathlib.Probability.Distributions.Gaussian.Real
/-! # C07 — amplitude-modulation models report the statistics of the factors they generate -/
set_option linter.unusedSectionVars false
set_option linter.unusedVariables false
namespace Epsic.C07
open Epsic

section algebra
variable {K : Type} [Field K] [DecidableEq K] [CharZero K]

/-- modulating a field by `√m` multiplies its instantaneous Stokes parameters by `m` -/
theorem stokes_of_modulated_field (r : K) (e : Spinor K) (k : Fin 4) :
    Spinor.computeStokes (Sim.modTransform r e) k = (r * r) * Spinor.computeStokes e k := by
  fin_cases k <;> simp [Sim.modTransform, epsic, Cx.norm_def] <;> ring
/-- predicted mean of a modulated mode: `μ S` -/
theorem modulated_mean (S : Stokes K) (mu : K) (k : Fin 4) : Sim.modulatedMean S mu k = mu * S k := rfl
/-- predicted covariance of a modulated mode.  For a factor `m` independent of the field, with
`E m = μ`, `E m² = μ² + s²`, and instantaneous Stokes parameters with mean `S` and covariance `C`:
`E[m Sᵢ · m Sⱼ] − E[m Sᵢ] E[m Sⱼ] = (μ²+s²)(Cᵢⱼ + SᵢSⱼ) − μ² SᵢSⱼ`, which is what the mode reports:
`(μ²+s²) C + s² S Sᵀ` -/
theorem modulated_covariance (C : Mat 4 4 K) (S : Stokes K) (mu s2 : K) (i j : Fin 4) :
    (mu*mu + s2) * (C i j + S i * S j) - (mu * S i) * (mu * S j) = Sim.modulatedCov C S mu s2 i j := by
  simp only [Sim.modulatedCov]; ring
end algebra

/-! ## log-normal factors: mean 1 and variance `exp σ² − 1 = β²`, against Mathlib's Gaussian measure -/
section lognormal
open MeasureTheory ProbabilityTheory Real

/-- `∫ exp(σ (g − σ/2)) dγ(g) = 1` for the standard normal `γ` -/
theorem lognormal_mean (σ : ℝ) :
    ∫ g, Real.exp (Sim.lognormalArg σ g) ∂(gaussianReal 0 1) = 1 := by
  have h := congrFun (mgf_id_gaussianReal (μ := 0) (v := 1)) σ
  simp only [mgf, id] at h
  have e : ∀ g : ℝ, Real.exp (Sim.lognormalArg σ g) = Real.exp (-(σ * σ / 2)) * Real.exp (σ * g) := by
    intro g; rw [← Real.exp_add]; congr 1; simp [Sim.lognormalArg]; ring
  simp only [e]
  rw [integral_const_mul, h, ← Real.exp_add]
  simp; ring_nf
/-- second moment `exp σ²`, hence variance `exp σ² − 1` -/
theorem lognormal_second_moment (σ : ℝ) :
    ∫ g, Real.exp (Sim.lognormalArg σ g) ^ 2 ∂(gaussianReal 0 1) = Real.exp (σ * σ) := by
  have h := congrFun (mgf_id_gaussianReal (μ := 0) (v := 1)) (2 * σ)
  simp only [mgf, id] at h
  have e : ∀ g : ℝ, Real.exp (Sim.lognormalArg σ g) ^ 2 = Real.exp (-(σ * σ)) * Real.exp (2 * σ * g) := by
    intro g; rw [← Real.exp_add, ← Real.exp_nat_mul]; congr 1; simp [Sim.lognormalArg]; ring
  simp only [e]
  rw [integral_const_mul, h, ← Real.exp_add]
  congr 1; simp; ring
/-- with `σ² = log(β² + 1)` the reported variance `exp σ² − 1` is the squared modulation index -/
theorem lognormal_variance_is_beta_sq (β : ℝ) :
    Real.exp (Real.sqrt (Real.log (β*β + 1)) * Real.sqrt (Real.log (β*β + 1))) - 1 = β * β := by
  have hpos : 0 < β*β + 1 := by nlinarith [mul_self_nonneg β]
  have hlog : 0 ≤ Real.log (β*β + 1) := Real.log_nonneg (by nlinarith [mul_self_nonneg β])
  rw [Real.mul_self_sqrt hlog, Real.exp_log hpos]; ring
end lognormal

/-! ## boxcar smoothing: the ring buffer is a sliding window (for every history) -/
section boxcar
variable {K : Type} [Field K] [DecidableEq K]

theorem rotate_set (l : List K) (i : Nat) (d : K) (hi : i < l.length) :
    (l.set i d).rotate i = d :: (l.rotate i).tail := by
  rw [List.rotate_eq_drop_append_take (by simp; omega), List.rotate_eq_drop_append_take (by omega)]
  rw [List.take_set_of_le (le_refl i), List.drop_set]
  simp only [Nat.sub_self, lt_irrefl, ↓reduceIte]
  have hd : List.drop i l ≠ [] := by simp; omega
  cases hdl : List.drop i l with
  | nil => exact absurd hdl hd
  | cons x xs => simp [List.set]

/-- the window seen through the ring buffer after a step: the previous window without its oldest
element, followed by the new draw -/
theorem step_window (w : Nat) (b : Sim.Boxcar K) (d : K) (hw : 0 < w) (hlen : b.buf.length = w) (hcur : b.cur < w) :
    let b' := (Sim.Boxcar.step w b d).1
    b'.buf.rotate b'.cur = (b.buf.rotate b.cur).tail ++ [d] ∧ b'.buf.length = w ∧ b'.cur < w := by
  simp only [Sim.Boxcar.step]
  refine ⟨?_, by simp [hlen], Nat.mod_lt _ hw⟩
  rw [List.rotate_mod_length_aux]
  · rw [← List.rotate_rotate, rotate_set _ _ _ (by omega)]
    simp [List.rotate_cons_succ]
  · simp [hlen]
where
  List.rotate_mod_length_aux {l : List K} {n m : Nat} (h : l.length = m) : l.rotate (n % m) = l.rotate n := by
    subst h; exact List.rotate_mod l n
/-- the value returned by a step is the mean of the window after the step -/
theorem step_output (w : Nat) (b : Sim.Boxcar K) (d : K) :
    (Sim.Boxcar.step w b d).2 = ((Sim.Boxcar.step w b d).1.buf.rotate (Sim.Boxcar.step w b d).1.cur).sum / (w : K) := by
  simp only [Sim.Boxcar.step, ofNat_eq, zero_eq]
  congr 1
  rw [(List.rotate_perm _ _).sum_eq]
  have : ∀ (l : List K) (a : K), l.foldl (· + ·) a = a + l.sum := by
    intro l; induction l with
    | nil => intro a; simp
    | cons x xs ih => intro a; simp [ih, add_assoc]
  rw [this]; simp

/-- run the smoother over a list of draws, collecting the windows -/
def windows (w : Nat) : Sim.Boxcar K → List K → List (List K)
  | _, [] => []
  | b, d :: ds => let b' := (Sim.Boxcar.step w b d).1; (b'.buf.rotate b'.cur) :: windows w b' ds
/-- **refinement**: after the set-up draws `pre` (`w − 1` of them) the `k`-th window is the `w`
consecutive draws `k … k+w−1` of the whole draw sequence `pre ++ ds` — for every history -/
theorem windows_are_sliding (w : Nat) (hw : 0 < w) (pre ds : List K) (hpre : pre.length = w - 1) :
    ∀ (k : Nat) (hk : k < ds.length),
      (windows w (Sim.Boxcar.setup w pre) ds)[k]? = some (((pre ++ ds).drop k).take w) := by
  -- generalise: any state whose window is `x :: rest` with `rest` the last `w-1` draws
  have gen : ∀ (ds : List K) (b : Sim.Boxcar K) (x : K) (rest : List K), b.buf.length = w → b.cur < w →
      b.buf.rotate b.cur = x :: rest → rest.length = w - 1 →
      ∀ k, k < ds.length → (windows w b ds)[k]? = some (((rest ++ ds).drop k).take w) := by
    intro ds
    induction ds with
    | nil => intro b x rest _ _ _ _ k hk; simp at hk
    | cons d ds ih =>
      intro b x rest hlen hcur hwin hrest k hk
      obtain ⟨h1, h2, h3⟩ := step_window w b d hw hlen hcur
      try simp only at h1 h2 h3
      rw [hwin, List.tail_cons] at h1
      cases k with
      | zero =>
        simp only [windows, List.getElem?_cons_zero, h1, List.drop_zero]
        congr 1
        have hlen' : (rest ++ [d]).length = w := by simp [hrest]; omega
        have happ : rest ++ d :: ds = (rest ++ [d]) ++ ds := by simp
        rw [happ, List.take_left' hlen']
      | succ k =>
        simp only [windows, List.getElem?_cons_succ]
        cases hr : rest with
        | nil =>
          -- w = 1: the window is just the newest draw
          have hw1 : w = 1 := by rw [hr] at hrest; simp at hrest; omega
          rw [hr] at h1
          have := ih (Sim.Boxcar.step w b d).1 d [] h2 h3 (by simpa using h1) (by simp [hw1]) k (by simpa using hk)
          simpa [hr] using this
        | cons y ys =>
          rw [hr] at h1
          have := ih (Sim.Boxcar.step w b d).1 y (ys ++ [d]) h2 h3 (by simpa using h1)
            (by rw [hr] at hrest; simp at hrest ⊢; omega) k (by simpa using hk)
          rw [this]; simp
  intro k hk
  have hsetup : (Sim.Boxcar.setup w pre : Sim.Boxcar K).buf = 0 :: pre := by
    simp [Sim.Boxcar.setup, List.take_of_length_le (le_of_eq hpre)]
  have hcur0 : (Sim.Boxcar.setup w pre : Sim.Boxcar K).cur = 0 := rfl
  exact gen ds _ 0 pre (by rw [hsetup]; simp [hpre]; omega) (by rw [hcur0]; exact hw)
    (by rw [hcur0, hsetup]; simp) hpre k hk

/-- consequently, for independent draws with mean `μ` and variance `s²`: the smoothed factor has mean
`μ`, variance `s²/w`, and two outputs `l` steps apart share `w − l` draws: covariance `s² (w−l)/w²` -/
theorem boxcar_moments (w l : Nat) (hw : 0 < w) (hl : l < w) (s2 : K) [CharZero K] :
    ((w : K) * s2) / ((w : K) * w) = s2 / w ∧
    (((w - l : Nat) : K) * s2) / ((w : K) * w) = Sim.boxcarXCorr w l (s2 / w) := by
  have hw' : (w : K) ≠ 0 := Nat.cast_ne_zero.mpr (Nat.pos_iff_ne_zero.mp hw)
  constructor
  · field_simp
  · simp only [Sim.boxcarXCorr, ofNat_eq, zero_eq]
    have : ¬ l ≥ w := by omega
    simp only [this, ↓reduceIte]; field_simp
theorem boxcar_uncorrelated_beyond_width (w l : Nat) (hl : w ≤ l) (v : K) : Sim.boxcarXCorr w l v = 0 := by
  simp [Sim.boxcarXCorr, hl]
end boxcar

/-! ## sample and hold: the `k`-th output is draw `⌊k/w⌋` -/
section hold
variable {K : Type}
/-- run the hold filter for `m` outputs from the initial state `(current = w)`; `draws` is consumed
one element per refresh -/
def holdRun (w : Nat) : Nat → Sim.Hold K → List K → List K
  | 0, _, _ => []
  | m+1, h, ds =>
    match ds with
    | [] => []
    | d :: rest =>
      let r := Sim.Hold.step w h d
      r.2.1 :: holdRun w m r.1 (if r.2.2 then rest else ds)
/-- first output refreshes and returns the first draw; within a block the value is held -/
theorem hold_first (w : Nat) (d : K) (v : K) : (Sim.Hold.step w ⟨w, v⟩ d) = (⟨1, d⟩, d, true) := by
  simp [Sim.Hold.step]
theorem hold_within_block (w c : Nat) (hc : c ≠ w) (d v : K) :
    (Sim.Hold.step w ⟨c, v⟩ d) = (⟨c + 1, v⟩, v, false) := by
  simp [Sim.Hold.step, hc]
theorem holdRun_spec (w : Nat) (hw : 0 < w) (dflt : K) : ∀ (m c : Nat) (val : K) (ds : List K), 1 ≤ c → c ≤ w → m ≤ ds.length →
    holdRun w m ⟨c, val⟩ ds = (List.range m).map (fun t => if t < w - c then val else ds.getD ((t - (w - c)) / w) dflt) := by
  intro m
  induction m with
  | zero => intro c val ds _ _ _; simp [holdRun]
  | succ m ih =>
    intro c val ds hc1 hcw hlen
    cases ds with
    | nil => simp at hlen
    | cons d rest =>
      simp only [List.length_cons] at hlen
      rw [List.range_succ_eq_map, List.map_cons, List.map_map]
      by_cases hcw' : c = w
      · subst hcw'
        have hstep : Sim.Hold.step c ⟨c, val⟩ d = (⟨1, d⟩, d, true) := hold_first c d val
        simp only [holdRun, hstep, if_true]
        rw [ih 1 d rest (le_refl 1) hw (by omega)]
        simp only [Nat.sub_self, Nat.not_lt_zero, if_false, Nat.sub_zero, Nat.zero_div, List.getD_cons_zero, List.cons.injEq, true_and]
        apply List.map_congr_left
        intro t _
        simp only [Function.comp, Nat.not_lt_zero, if_false, Nat.sub_zero]
        by_cases ht : t < c - 1
        · have h0 : (t + 1) / c = 0 := Nat.div_eq_of_lt (by omega)
          simp [ht, h0]
        · have h1 : (t + 1) / c = (t - (c - 1)) / c + 1 := by
            have : t + 1 = (t - (c - 1)) + c := by omega
            rw [this, Nat.add_div_right _ hw]
          simp [ht, h1]
      · have hstep : Sim.Hold.step w ⟨c, val⟩ d = (⟨c + 1, val⟩, val, false) := hold_within_block w c hcw' d val
        simp only [holdRun, hstep, Bool.false_eq_true, if_false]
        rw [ih (c + 1) val (d :: rest) (by omega) (by omega) (by simp; omega)]
        have h0 : 0 < w - c := by omega
        simp only [h0, if_true, List.cons.injEq, true_and, Bool.false_eq_true, if_false]
        apply List.map_congr_left
        intro t _
        simp only [Function.comp]
        by_cases ht : t < w - (c + 1)
        · have : t + 1 < w - c := by omega
          simp [ht, this]
        · have : ¬ (t + 1 < w - c) := by omega
          have hidx : (t + 1 - (w - c)) = (t - (w - (c + 1))) := by omega
          simp [ht, this, hidx]

/-- **the k-th factor delivered by the rectangular model is draw ⌊k/w⌋**, for every width, every number of requests and every
source of draws (started as the constructor leaves it: `current == width`) -/
theorem hold_kth_output (w : Nat) (hw : 0 < w) (dflt v : K) (m : Nat) (ds : List K) (hlen : m ≤ ds.length) :
    holdRun w m ⟨w, v⟩ ds = (List.range m).map (fun t => ds.getD (t / w) dflt) := by
  rw [holdRun_spec w hw dflt m w v ds hw (le_refl w) hlen]
  apply List.map_congr_left; intro t _; simp
end hold

/-! ## the rectangular model's reported correlations: exact when aligned, refuted otherwise -/
/-- the full claim for the rectangular model: the reported within-sample lag correlation equals the
exact same-block fraction over the phase cycle -/
def SquareClaim (w n l : Nat) (reported exact : ℚ) : Prop := reported = exact
/-- counterexample `(w, n) = (3, 2)`, lag 1: the model reports correlation 1 (because `n ≤ w`), the
generator's adjacent instances share a block in only 2 of the 3 alignments -/
theorem square_counterexample :
    (Sim.crossCorrelationTable 3 2 : Array ℚ)[1]! = 1 ∧ ((2 : ℚ) / 3 ≠ 1) := by
  constructor
  · decide +kernel
  · norm_num

end Epsic.C07
