import EpsicProofs.FieldArith
namespace Epsic.C07
end Epsic.C07
