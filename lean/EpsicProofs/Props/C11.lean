import EpsicProofs.FieldArith
namespace Epsic.C11
end Epsic.C11
