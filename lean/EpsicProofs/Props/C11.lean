import EpsicProofs.Lemmas.Linear
import Mathlib.Analysis.SpecialFunctions.ExpDeriv
import Mathlib.Analysis.SpecialFunctions.Log.Deriv
import Mathlib.Analysis.SpecialFunctions.Sqrt
import Mathlib.Analysis.SpecialFunctions.Trigonometric.Deriv
import Mathlib.Analysis.SpecialFunctions.Trigonometric.DerivHyp
import Mathlib.Analysis.SpecialFunctions.Trigonometric.InverseDeriv
import Mathlib.Analysis.SpecialFunctions.Trigonometric.ArctanDeriv
/-! # C11 — estimates propagate variances to first order exactly

For every rule of `Estimate.h`: the value is the function of the operand value(s) and the variance
is `Σ (∂f/∂xᵢ)² σᵢ²`, where the partial derivatives are Mathlib's (`HasDerivAt`), not re-derived
here.  Statements are over `ℝ`, for every operand in the function's domain and every variance. -/
set_option linter.unusedSectionVars false
set_option linter.unusedVariables false
namespace Epsic.C11
open Epsic Real

/-- the shape every unary rule is proved in: `f' ` is the derivative of the reference function at
`x`, and the propagated variance is `f'² σ²` -/
def FirstOrder (f : ℝ → ℝ) (x σ2 : ℝ) (r : Est ℝ) : Prop :=
  r.val = f x ∧ ∃ f', HasDerivAt f f' x ∧ r.var = f' ^ 2 * σ2

theorem exp_rule (x σ2 : ℝ) : FirstOrder Real.exp x σ2 (Est.expE ⟨x, σ2⟩ (Real.exp x)) :=
  ⟨rfl, Real.exp x, Real.hasDerivAt_exp x, by show Real.exp x * Real.exp x * σ2 = Real.exp x ^ 2 * σ2; ring⟩
theorem log_rule (x σ2 : ℝ) (hx : x ≠ 0) : FirstOrder Real.log x σ2 (Est.logE ⟨x, σ2⟩ (Real.log x)) :=
  ⟨rfl, x⁻¹, Real.hasDerivAt_log hx, by show σ2 / (x * x) = x⁻¹ ^ 2 * σ2; field_simp⟩
theorem sqrt_rule (x σ2 : ℝ) (hx : 0 < x) : FirstOrder Real.sqrt x σ2 (Est.sqrtE ⟨x, σ2⟩ (Real.sqrt x) |x|) := by
  refine ⟨rfl, 1 / (2 * √x), Real.hasDerivAt_sqrt hx.ne', ?_⟩
  have hs : √x ^ 2 = x := Real.sq_sqrt hx.le
  have hsx : √x ≠ 0 := (Real.sqrt_pos.mpr hx).ne'
  show (1/2 * (1/2)) * σ2 / |x| = (1 / (2 * √x)) ^ 2 * σ2
  rw [abs_of_pos hx, div_pow, mul_pow, hs]
  field_simp
theorem sin_rule (x σ2 : ℝ) : FirstOrder Real.sin x σ2 (Est.sinE ⟨x, σ2⟩ (Real.sin x)) := by
  refine ⟨rfl, Real.cos x, Real.hasDerivAt_sin x, ?_⟩
  have h : 1 - Real.sin x * Real.sin x = Real.cos x ^ 2 := by rw [← Real.sin_sq_add_cos_sq x]; ring
  show (1 - Real.sin x * Real.sin x) * σ2 = Real.cos x ^ 2 * σ2
  rw [h]
theorem cos_rule (x σ2 : ℝ) : FirstOrder Real.cos x σ2 (Est.cosE ⟨x, σ2⟩ (Real.cos x)) := by
  refine ⟨rfl, -Real.sin x, Real.hasDerivAt_cos x, ?_⟩
  have h : 1 - Real.cos x * Real.cos x = (-Real.sin x) ^ 2 := by rw [← Real.sin_sq_add_cos_sq x]; ring
  show (1 - Real.cos x * Real.cos x) * σ2 = (-Real.sin x) ^ 2 * σ2
  rw [h]
theorem acos_rule (x σ2 : ℝ) (h1 : -1 < x) (h2 : x < 1) :
    FirstOrder Real.arccos x σ2 (Est.acosE ⟨x, σ2⟩ (Real.arccos x) (Real.sqrt (1 - x*x))) := by
  refine ⟨rfl, -(1 / √(1 - x ^ 2)), Real.hasDerivAt_arccos h1.ne' h2.ne, ?_⟩
  have hpos : 0 < 1 - x ^ 2 := by nlinarith
  have hs : √(1 - x ^ 2) ≠ 0 := (Real.sqrt_pos.mpr hpos).ne'
  simp only [Est.acosE, one_eq]
  have : x * x = x ^ 2 := by ring
  rw [this]; field_simp
theorem atan_rule (x σ2 : ℝ) : FirstOrder Real.arctan x σ2 (Est.atanE ⟨x, σ2⟩ (Real.arctan x)) := by
  refine ⟨rfl, 1 / (1 + x ^ 2), Real.hasDerivAt_arctan x, ?_⟩
  have hpos : (0 : ℝ) < 1 + x * x := by nlinarith [mul_self_nonneg x]
  have hpos' : (0 : ℝ) < 1 + x ^ 2 := by nlinarith [sq_nonneg x]
  have h1 := hpos.ne'; have h2 := hpos'.ne'
  show (1 / (1 + x * x)) * (1 / (1 + x * x)) * σ2 = (1 / (1 + x ^ 2)) ^ 2 * σ2
  field_simp
theorem sinh_rule (x σ2 : ℝ) : FirstOrder Real.sinh x σ2 (Est.sinhE ⟨x, σ2⟩ (Real.sinh x)) := by
  refine ⟨rfl, Real.cosh x, Real.hasDerivAt_sinh x, ?_⟩
  have h : 1 + Real.sinh x * Real.sinh x = Real.cosh x ^ 2 := by rw [Real.cosh_sq x]; ring
  show (1 + Real.sinh x * Real.sinh x) * σ2 = Real.cosh x ^ 2 * σ2
  rw [h]
theorem cosh_rule (x σ2 : ℝ) : FirstOrder Real.cosh x σ2 (Est.coshE ⟨x, σ2⟩ (Real.cosh x)) := by
  refine ⟨rfl, Real.sinh x, Real.hasDerivAt_cosh x, ?_⟩
  have h : Real.cosh x * Real.cosh x - 1 = Real.sinh x ^ 2 := by have := Real.cosh_sq x; nlinarith [this]
  show (Real.cosh x * Real.cosh x - 1) * σ2 = Real.sinh x ^ 2 * σ2
  rw [h]
/-- `atanh x = ½ log((1+x)/(1−x))` on `(-1,1)` (Mathlib: `Real.artanh_eq_half_log`) -/
noncomputable def atanhRef (x : ℝ) : ℝ := 1/2 * Real.log ((1 + x) / (1 - x))
theorem atanh_rule (x σ2 : ℝ) (h1 : -1 < x) (h2 : x < 1) :
    FirstOrder atanhRef x σ2 (Est.atanhE ⟨x, σ2⟩ (atanhRef x)) := by
  have hm : (1 - x) ≠ 0 := by linarith
  have hp : (1 + x) ≠ 0 := by linarith
  have hq : (1 + x) / (1 - x) ≠ 0 := div_ne_zero hp hm
  have hd : HasDerivAt (fun y : ℝ => (1 + y) / (1 - y)) ((1 * (1 - x) - (1 + x) * (-1)) / (1 - x) ^ 2) x := by
    have hn : HasDerivAt (fun y : ℝ => 1 + y) 1 x := by simpa using (hasDerivAt_id x).const_add 1
    have hden : HasDerivAt (fun y : ℝ => 1 - y) (-1) x := by simpa using (hasDerivAt_id x).const_sub 1
    exact hn.div hden hm
  have hl := (hd.log hq).const_mul (1/2 : ℝ)
  have hx2 : (1 : ℝ) - x * x ≠ 0 := by nlinarith
  have hval : (1 / 2 : ℝ) * ((1 * (1 - x) - (1 + x) * -1) / (1 - x) ^ 2 / ((1 + x) / (1 - x))) = 1 / (1 - x * x) := by
    have e : (1 : ℝ) - x * x = (1 - x) * (1 + x) := by ring
    rw [e]; field_simp; ring
  rw [hval] at hl
  refine ⟨rfl, _, hl, ?_⟩
  show (1 / (1 - x * x)) * (1 / (1 - x * x)) * σ2 = (1 / (1 - x * x)) ^ 2 * σ2
  ring
theorem inverse_rule (x σ2 : ℝ) (hx : x ≠ 0) :
    ∃ r, Est.inverse (⟨x, σ2⟩ : Est ℝ) = .ok r ∧ FirstOrder (fun y => y⁻¹) x σ2 r := by
  refine ⟨_, by simp [Est.inverse, sdiv_ok hx, bind, Except.bind, pure, Except.pure]; rfl, ?_, -(x ^ 2)⁻¹, hasDerivAt_inv hx, ?_⟩
  · simp
  · simp; field_simp
theorem inverse_undefined (σ2 : ℝ) : Est.inverse (⟨0, σ2⟩ : Est ℝ) = .error .div0 := by
  simp [Est.inverse, sdiv_err, bind, Except.bind]
theorem neg_rule (x σ2 : ℝ) : FirstOrder (fun y => -y) x σ2 (Est.neg ⟨x, σ2⟩) :=
  ⟨rfl, -1, (hasDerivAt_id' x).neg, by simp [Est.neg]⟩
/-- `copysign(u, v)`: `±u` with the sign of `v`; both branches have derivative `±1` -/
theorem copysign_rule (x σ2 : ℝ) (sgn : ℝ) (hs : sgn = 1 ∨ sgn = -1) :
    FirstOrder (fun y => sgn * y) x σ2 (Est.copysignE ⟨x, σ2⟩ (sgn * x)) := by
  refine ⟨rfl, sgn, by simpa using (hasDerivAt_id' x).const_mul sgn, ?_⟩
  rcases hs with rfl | rfl <;> simp [Est.copysignE]

/-! ## binary operations: both partial derivatives -/
def FirstOrder2 (f : ℝ → ℝ → ℝ) (a b σa σb : ℝ) (r : Est ℝ) : Prop :=
  r.val = f a b ∧ ∃ fa fb, HasDerivAt (fun t => f t b) fa a ∧ HasDerivAt (fun t => f a t) fb b ∧
    r.var = fa ^ 2 * σa + fb ^ 2 * σb

theorem add_rule (a b σa σb : ℝ) : FirstOrder2 (· + ·) a b σa σb (Est.add ⟨a, σa⟩ ⟨b, σb⟩) :=
  ⟨rfl, 1, 1, by simpa using (hasDerivAt_id a).add_const b, by simpa using (hasDerivAt_id b).const_add a, by simp [Est.add]⟩
theorem sub_rule (a b σa σb : ℝ) : FirstOrder2 (· - ·) a b σa σb (Est.sub ⟨a, σa⟩ ⟨b, σb⟩) :=
  ⟨rfl, 1, -1, by simpa using (hasDerivAt_id a).sub_const b, by simpa using (hasDerivAt_id b).const_sub a, by simp [Est.sub]⟩
theorem mul_rule (a b σa σb : ℝ) : FirstOrder2 (· * ·) a b σa σb (Est.mul ⟨a, σa⟩ ⟨b, σb⟩) :=
  ⟨rfl, b, a, by simpa using (hasDerivAt_id a).mul_const b, by simpa using (hasDerivAt_id b).const_mul a,
    by simp [Est.mul]; ring⟩
theorem div_rule (a b σa σb : ℝ) (hb : b ≠ 0) :
    ∃ r, Est.div (⟨a, σa⟩ : Est ℝ) ⟨b, σb⟩ = .ok r ∧ FirstOrder2 (· / ·) a b σa σb r := by
  refine ⟨_, by simp [Est.div, Est.inverse, sdiv_ok hb, bind, Except.bind, pure, Except.pure]; rfl, ?_, 1 / b, -a / b ^ 2, ?_, ?_, ?_⟩
  · simp [Est.mul, div_eq_mul_inv]
  · simpa using (hasDerivAt_id a).div_const b
  · have := (hasDerivAt_inv hb).const_mul a
    simpa [div_eq_mul_inv, neg_mul] using this
  · simp [Est.mul]; field_simp; ring
/-- `atan2(s,c)`: off the line `c = 0`, `atan2` is `arctan(s/c)` up to a locally constant multiple
of π, so the partial derivatives are those of `arctan(s/c)` -/
theorem atan2_rule (s c σs σc : ℝ) (hc : c ≠ 0) (v : ℝ) :
    ∃ fs fc, HasDerivAt (fun t => Real.arctan (t / c)) fs s ∧ HasDerivAt (fun t => Real.arctan (s / t)) fc c ∧
      (Est.atan2E ⟨s, σs⟩ ⟨c, σc⟩ v).var = fs ^ 2 * σs + fc ^ 2 * σc := by
  have h1 : HasDerivAt (fun t : ℝ => t / c) (1 / c) s := by simpa using (hasDerivAt_id s).div_const c
  have h2 : HasDerivAt (fun t : ℝ => s / t) (-s / c ^ 2) c := by
    have := (hasDerivAt_inv hc).const_mul s
    simpa [div_eq_mul_inv, neg_mul] using this
  refine ⟨_, _, h1.arctan, h2.arctan, ?_⟩
  have hc2 : 0 < c * c := mul_self_pos.mpr hc
  have hsum : c * c + s * s ≠ 0 := by nlinarith [mul_self_nonneg s]
  have hsum' : c ^ 2 + s ^ 2 ≠ 0 := by nlinarith [sq_nonneg s, sq_nonneg c]
  have hden : (1 : ℝ) + (s / c) ^ 2 ≠ 0 := by positivity
  show (c * c * σs + s * s * σc) / ((c * c + s * s) * (c * c + s * s))
      = (1 / (1 + (s / c) ^ 2) * (1 / c)) ^ 2 * σs + (1 / (1 + (s / c) ^ 2) * (-s / c ^ 2)) ^ 2 * σc
  field_simp

/-- ... and off the line `s = 0` (in particular on the line `c = 0`), `atan2(s,c)` is `±π/2 − arctan(c/s)` up to a locally
constant multiple of π; the variance rule is the one of those partial derivatives too.  Together with `atan2_rule` this
covers every point except the origin, where `atan2` is not differentiable. -/
theorem atan2_rule_s (s c σs σc : ℝ) (hs : s ≠ 0) (v : ℝ) :
    ∃ fs fc, HasDerivAt (fun t => -Real.arctan (c / t)) fs s ∧ HasDerivAt (fun t => -Real.arctan (t / s)) fc c ∧
      (Est.atan2E ⟨s, σs⟩ ⟨c, σc⟩ v).var = fs ^ 2 * σs + fc ^ 2 * σc := by
  have h1 : HasDerivAt (fun t : ℝ => c / t) (-c / s ^ 2) s := by
    have := (hasDerivAt_inv hs).const_mul c
    simpa [div_eq_mul_inv, neg_mul] using this
  have h2 : HasDerivAt (fun t : ℝ => t / s) (1 / s) c := by simpa using (hasDerivAt_id c).div_const s
  refine ⟨_, _, h1.arctan.neg, h2.arctan.neg, ?_⟩
  have hsum : c * c + s * s ≠ 0 := by nlinarith [mul_self_nonneg c, mul_self_pos.mpr hs]
  have hsum' : c ^ 2 + s ^ 2 ≠ 0 := by nlinarith [sq_nonneg s, sq_nonneg c, mul_self_pos.mpr hs]
  have hden : (1 : ℝ) + (c / s) ^ 2 ≠ 0 := by positivity
  show (c * c * σs + s * s * σc) / ((c * c + s * s) * (c * c + s * s))
      = (-(1 / (1 + (c / s) ^ 2) * (-c / s ^ 2))) ^ 2 * σs + (-(1 / (1 + (c / s) ^ 2) * (1 / s))) ^ 2 * σc
  field_simp
  ring

/-! ## product of complex estimates: every component carries the four first-order terms -/
theorem cmul_rule (ar ai br bi sar sai sbr sbi : ℝ) :
    let p := Est.cmul (⟨ar, sar⟩ : Est ℝ) ⟨ai, sai⟩ ⟨br, sbr⟩ ⟨bi, sbi⟩
    p.1.val = ar*br - ai*bi ∧ p.2.val = ar*bi + ai*br ∧
    p.1.var = br^2*sar + ar^2*sbr + bi^2*sai + ai^2*sbi ∧
    p.2.var = bi^2*sar + ar^2*sbi + br^2*sai + ai^2*sbr := by
  simp [Est.cmul, Est.mul, Est.add, Est.sub]
  constructor <;> ring

/-! ## the noise-bias corrected Lorentz invariant -/
/-- value: with measured `S + n`, the estimate decomposes into the true invariant, terms linear in
the noise, and centred squares — all of which vanish in expectation for independent zero-mean
noise with `E nᵢ² = σᵢ²` -/
theorem invariant_value (S n σ : Fin 4 → ℝ) :
    (Est.invariantNew (fun i => (⟨S i + n i, σ i⟩ : Est ℝ))).val
      = (S 0 ^ 2 - S 1 ^ 2 - S 2 ^ 2 - S 3 ^ 2)
        + 2 * (S 0 * n 0 - S 1 * n 1 - S 2 * n 2 - S 3 * n 3)
        + ((n 0 ^ 2 - σ 0) - (n 1 ^ 2 - σ 1) - (n 2 ^ 2 - σ 2) - (n 3 ^ 2 - σ 3)) := by
  simp [Est.invariantNew, Est.stokesInvariantRaw, Est.sub, Est.mul]; ring
/-- an expectation over the noise: linear, normalised, zero mean, second moments `σᵢ²` -/
structure NoiseE (σ : Fin 4 → ℝ) where
  E : ((Fin 4 → ℝ) → ℝ) → ℝ
  add : ∀ f g, E (fun n => f n + g n) = E f + E g
  smul : ∀ (c : ℝ) f, E (fun n => c * f n) = c * E f
  const : ∀ c : ℝ, E (fun _ => c) = c
  mean : ∀ i, E (fun n => n i) = 0
  second : ∀ i, E (fun n => n i ^ 2) = σ i
/-- **unbiased**: the expectation of the corrected invariant of the noisy Stokes parameters is the
invariant of the true ones -/
theorem invariant_unbiased (S σ : Fin 4 → ℝ) (N : NoiseE σ) :
    N.E (fun n => (Est.invariantNew (fun i => (⟨S i + n i, σ i⟩ : Est ℝ))).val)
      = S 0 ^ 2 - S 1 ^ 2 - S 2 ^ 2 - S 3 ^ 2 := by
  have key : (fun n : Fin 4 → ℝ => (Est.invariantNew (fun i => (⟨S i + n i, σ i⟩ : Est ℝ))).val)
      = fun n => ((S 0 ^ 2 - S 1 ^ 2 - S 2 ^ 2 - S 3 ^ 2 - σ 0 + σ 1 + σ 2 + σ 3)
        + ((2 * S 0) * n 0 + ((-2 * S 1) * n 1 + ((-2 * S 2) * n 2 + (-2 * S 3) * n 3))))
        + (n 0 ^ 2 + ((-1) * n 1 ^ 2 + ((-1) * n 2 ^ 2 + (-1) * n 3 ^ 2))) := by
    funext n; rw [invariant_value]; ring
  rw [key]
  simp only [N.add, N.smul, N.const, N.mean, N.second]
  ring
/-- first-order variance `Σ (∂inv/∂Sᵢ)² σᵢ² = Σ 4 Sᵢ² σᵢ²` -/
theorem invariant_variance (S σ : Fin 4 → ℝ) :
    (Est.invariantNew (fun i => (⟨S i, σ i⟩ : Est ℝ))).var
      = (2 * S 0) ^ 2 * σ 0 + (-2 * S 1) ^ 2 * σ 1 + (-2 * S 2) ^ 2 * σ 2 + (-2 * S 3) ^ 2 * σ 3 := by
  simp [Est.invariantNew, sumFin_four]; ring
theorem invariant_partials (S : Fin 4 → ℝ) :
    HasDerivAt (fun t => t ^ 2 - S 1 ^ 2 - S 2 ^ 2 - S 3 ^ 2) (2 * S 0) (S 0) ∧
    HasDerivAt (fun t => S 0 ^ 2 - t ^ 2 - S 2 ^ 2 - S 3 ^ 2) (-2 * S 1) (S 1) := by
  constructor
  · have := ((hasDerivAt_pow 2 (S 0)).sub_const (S 1 ^ 2)).sub_const (S 2 ^ 2) |>.sub_const (S 3 ^ 2)
    simpa using this
  · have := (((hasDerivAt_pow 2 (S 1)).const_sub (S 0 ^ 2)).sub_const (S 2 ^ 2)).sub_const (S 3 ^ 2)
    simpa using this
/-- the form before the repair carried only the total-intensity term (why the repair was needed) -/
theorem invariantOld_variance (S σ : Fin 4 → ℝ) :
    (Est.invariantOld (fun i => (⟨S i, σ i⟩ : Est ℝ))).var = 4 * S 0 ^ 2 * σ 0 := by
  simp [Est.invariantOld, Est.stokesInvariantRaw, Est.sub, Est.mul]; ring
theorem current_is_repaired : currentInvariantRepaired = true := rfl

/-! non-vacuity -/
example : FirstOrder Real.exp 1 (1/10) (Est.expE ⟨1, 1/10⟩ (Real.exp 1)) := exp_rule 1 (1/10)

end Epsic.C11
