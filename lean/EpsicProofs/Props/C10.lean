import EpsicProofs.Lemmas.EigenCerts
import EpsicProofs.Lemmas.JacobiSweep
import EpsicProofs.Lemmas.JacobiSweepC
import Mathlib.Analysis.Real.Sqrt
import EpsicProofs.Lemmas.Stokes
import Mathlib.Algebra.Order.Field.Basic
import Mathlib.Tactic.Positivity
import Mathlib.Tactic.Linarith
/-! # C10 — eigen-decompositions diagonalise every Hermitian input (quaternion part; Jacobi rotation)

`Quat.eigenH` is `eigen(Quaternion<T,Hermitian>)` with the square root as a leaf.  Over any
linearly ordered field, for **every** Hermitian quaternion on which the leaf square roots exist:
the result has unit determinant and `R ρ R† = diag(s0+p, s0−p)` with `p = |vector| ≥ 0` (larger
eigenvalue first) — in every branch, including zero polarisation and the axis-aligned inputs. -/
set_option linter.unusedSectionVars false
set_option linter.unusedVariables false
namespace Epsic.C10
open Epsic Epsic.Pauli
variable {K : Type} [Field K] [LinearOrder K] [IsStrictOrderedRing K] [DecidableEq K]

/-- what a square-root leaf guarantees when it returns -/
def SqrtSpec (sqrtFn : K → R K) : Prop := ∀ x r, sqrtFn x = .ok r → r * r = x ∧ 0 ≤ r

def diagJ (a b : K) : Jones K := ⟨⟨a, 0⟩, ⟨0, 0⟩, ⟨0, 0⟩, ⟨b, 0⟩⟩
/-- the statement proved for every branch -/
def Diagonalises (q R : Quat K) (p : K) : Prop :=
  Quat.detU R = 1 ∧ p * p = q.s1*q.s1 + q.s2*q.s2 + q.s3*q.s3 ∧ 0 ≤ p ∧
  convertUR R * convertHR q * (convertUR R).herm = diagJ (q.s0 + p) (q.s0 - p)

theorem normsq_vec (q : Quat K) : Vec.normsq q.getVector = q.s1*q.s1 + q.s2*q.s2 + q.s3*q.s3 := by
  simp [Vec.normsq, sumFin_three, Quat.getVector, v3]

/-- first branch (`s1 < 0 ∧ s0 ≠ 0`) -/
theorem branch1 (q : Quat K) (p m : K) (hp : p*p = q.s1*q.s1 + q.s2*q.s2 + q.s3*q.s3) (hp0 : 0 ≤ p)
    (hm : m*m*(2*p*(p - q.s1)) = 1) :
    Diagonalises q ⟨m*q.s3, (-m)*q.s2, (-m)*(p - q.s1), 0⟩ p := by
  refine ⟨?_, hp, hp0, ?_⟩
  · simp only [Quat.detU]
    linear_combination EigenCerts.b1_det q.s0 q.s1 q.s2 q.s3 p m hp hm
  · ext <;> simp [epsic, diagJ]
    · linear_combination EigenCerts.b1_re00 q.s0 q.s1 q.s2 q.s3 p m hp hm
    · linear_combination EigenCerts.b1_im00 q.s0 q.s1 q.s2 q.s3 p m hp hm
    · linear_combination EigenCerts.b1_re01 q.s0 q.s1 q.s2 q.s3 p m hp hm
    · linear_combination EigenCerts.b1_im01 q.s0 q.s1 q.s2 q.s3 p m hp hm
    · linear_combination EigenCerts.b1_re10 q.s0 q.s1 q.s2 q.s3 p m hp hm
    · linear_combination EigenCerts.b1_im10 q.s0 q.s1 q.s2 q.s3 p m hp hm
    · linear_combination EigenCerts.b1_re11 q.s0 q.s1 q.s2 q.s3 p m hp hm
    · linear_combination EigenCerts.b1_im11 q.s0 q.s1 q.s2 q.s3 p m hp hm
/-- second branch, with `sum = p + s1` however it was evaluated -/
theorem branch2 (q : Quat K) (p m : K) (hp : p*p = q.s1*q.s1 + q.s2*q.s2 + q.s3*q.s3) (hp0 : 0 ≤ p)
    (hm : m*m*(2*p*(p + q.s1)) = 1) :
    Diagonalises q ⟨m*(p + q.s1), 0, (-m)*q.s3, m*q.s2⟩ p := by
  refine ⟨?_, hp, hp0, ?_⟩
  · simp only [Quat.detU]
    linear_combination EigenCerts.b2_det q.s0 q.s1 q.s2 q.s3 p m hp hm
  · ext <;> simp [epsic, diagJ]
    · linear_combination EigenCerts.b2_re00 q.s0 q.s1 q.s2 q.s3 p m hp hm
    · linear_combination EigenCerts.b2_im00 q.s0 q.s1 q.s2 q.s3 p m hp hm
    · linear_combination EigenCerts.b2_re01 q.s0 q.s1 q.s2 q.s3 p m hp hm
    · linear_combination EigenCerts.b2_im01 q.s0 q.s1 q.s2 q.s3 p m hp hm
    · linear_combination EigenCerts.b2_re10 q.s0 q.s1 q.s2 q.s3 p m hp hm
    · linear_combination EigenCerts.b2_im10 q.s0 q.s1 q.s2 q.s3 p m hp hm
    · linear_combination EigenCerts.b2_re11 q.s0 q.s1 q.s2 q.s3 p m hp hm
    · linear_combination EigenCerts.b2_im11 q.s0 q.s1 q.s2 q.s3 p m hp hm
/-- zero polarisation: the identity, and `ρ` is already `diag(s0, s0)` -/
theorem degenerate (q : Quat K) (h : q.s1*q.s1 + q.s2*q.s2 + q.s3*q.s3 = 0) :
    Diagonalises q ⟨1, 0, 0, 0⟩ 0 := by
  have h1 : q.s1 = 0 := by nlinarith [mul_self_nonneg q.s1, mul_self_nonneg q.s2, mul_self_nonneg q.s3]
  have h2 : q.s2 = 0 := by nlinarith [mul_self_nonneg q.s1, mul_self_nonneg q.s2, mul_self_nonneg q.s3]
  have h3 : q.s3 = 0 := by nlinarith [mul_self_nonneg q.s1, mul_self_nonneg q.s2, mul_self_nonneg q.s3]
  refine ⟨by simp [Quat.detU], by simp [h1, h2, h3], le_refl _, ?_⟩
  ext <;> simp [epsic, diagJ, h1, h2, h3]
/-- exactly along the `-s1` axis (reached for `s0 = 0`): the exchange rotation -/
theorem axis_exchange (q : Quat K) (h1 : q.s1 < 0) (h2 : q.s2 = 0) (h3 : q.s3 = 0) :
    Diagonalises q ⟨0, 0, -1, 0⟩ (-q.s1) := by
  refine ⟨by simp [Quat.detU], by simp [h2, h3], by linarith, ?_⟩
  ext <;> simp [epsic, diagJ, h2, h3] <;> ring

/-- **every result of `eigen` diagonalises its input**, whatever branch was taken -/
theorem eigen_correct (sqrtFn : K → R K) (hs : SqrtSpec sqrtFn) (q R : Quat K)
    (h : Quat.eigenH sqrtFn (fun x => decide (x < 0)) q = .ok R) : ∃ p, Diagonalises q R p := by
  unfold Quat.eigenH at h
  cases hpv : sqrtFn (Vec.normsq q.getVector) with
  | error e => simp [hpv, bind, Except.bind] at h
  | ok p =>
    obtain ⟨hpp, hp0⟩ := hs _ _ hpv
    rw [normsq_vec] at hpp
    simp only [hpv, bind, Except.bind, eq0_eq] at h
    by_cases hpz : p = 0
    · simp only [hpz, decide_true, ↓reduceIte, pure, Except.pure] at h
      have hR : R = ⟨1, 0, 0, 0⟩ := by cases h; rfl
      subst hR
      exact ⟨0, degenerate q (by rw [← hpp, hpz]; ring)⟩
    · have hppos : 0 < p := lt_of_le_of_ne hp0 (Ne.symm hpz)
      simp only [hpz, decide_false, Bool.false_eq_true, ↓reduceIte] at h
      by_cases hb : q.s1 < 0 ∧ q.s0 ≠ 0
      · -- first branch
        simp only [hb.1, hb.2, decide_true, decide_false, Bool.not_false, Bool.and_self, ↓reduceIte, two_eq] at h
        cases hr : sqrtFn (2 * p * (p - q.s1)) with
        | error e => simp [hr] at h
        | ok r =>
          obtain ⟨hrr, hr0⟩ := hs _ _ hr
          have hpos : 0 < 2 * p * (p - q.s1) := by nlinarith
          have hrne : r ≠ 0 := by intro e; rw [e] at hrr; linarith
          simp only [hr, sdiv, isZero_eq, hrne, decide_false, Bool.false_eq_true, ↓reduceIte, one_eq, zero_eq, pure, Except.pure] at h
          have hR : R = ⟨1 / r * q.s3, -(1 / r) * q.s2, -(1 / r) * (p - q.s1), 0⟩ := by cases h; rfl
          subst hR
          exact ⟨p, branch1 q p (1 / r) hpp hp0 (by rw [← hrr]; field_simp)⟩
      · -- second branch
        have hcond : (decide (q.s1 < 0) && !decide (q.s0 = 0)) = false := by
          by_cases h1 : q.s1 < 0 <;> by_cases h0 : q.s0 = 0 <;> simp_all
        simp only [hcond, Bool.false_eq_true, ↓reduceIte] at h
        by_cases hax : q.s1 < 0 ∧ q.s2 * q.s2 + q.s3 * q.s3 = 0
        · simp only [hax.1, hax.2, decide_true, Bool.and_self, ↓reduceIte, pure, Except.pure, zero_eq, one_eq] at h
          have hR : R = ⟨0, 0, -1, 0⟩ := by cases h; rfl
          subst hR
          have h2 : q.s2 = 0 := by nlinarith [mul_self_nonneg q.s2, mul_self_nonneg q.s3, hax.2]
          have h3 : q.s3 = 0 := by nlinarith [mul_self_nonneg q.s2, mul_self_nonneg q.s3, hax.2]
          exact ⟨-q.s1, axis_exchange q hax.1 h2 h3⟩
        · have hcond2 : (decide (q.s1 < 0) && decide (q.s2 * q.s2 + q.s3 * q.s3 = 0)) = false := by
            by_cases h1 : q.s1 < 0 <;> by_cases h0 : q.s2 * q.s2 + q.s3 * q.s3 = 0 <;> simp_all
          simp only [hcond2, Bool.false_eq_true, ↓reduceIte] at h
          have hsumpos : 0 < p + q.s1 := by
            by_cases h1 : q.s1 < 0
            · have hperp : q.s2 * q.s2 + q.s3 * q.s3 ≠ 0 := fun e => hax ⟨h1, e⟩
              have hperp' : 0 < q.s2 * q.s2 + q.s3 * q.s3 :=
                lt_of_le_of_ne (by nlinarith [mul_self_nonneg q.s2, mul_self_nonneg q.s3]) (Ne.symm hperp)
              have : (p + q.s1) * (p - q.s1) = q.s2 * q.s2 + q.s3 * q.s3 := by linear_combination hpp
              have hpm : 0 < p - q.s1 := by linarith
              by_contra hneg
              have hneg' : p + q.s1 ≤ 0 := not_lt.mp hneg
              nlinarith
            · have h1' : 0 ≤ q.s1 := not_lt.mp h1
              linarith
          have hpos : 0 < 2 * p * (p + q.s1) := by positivity
          -- the common tail of both sub-cases
          have tail : ∀ r, sqrtFn (2 * p * (p + q.s1)) = .ok r →
              R = ⟨1 / r * (p + q.s1), 0, -(1 / r) * q.s3, 1 / r * q.s2⟩ → ∃ p, Diagonalises q R p := by
            intro r hr hR
            obtain ⟨hrr, hr0⟩ := hs _ _ hr
            have hrne : r ≠ 0 := by intro e; rw [e] at hrr; linarith
            subst hR
            exact ⟨p, branch2 q p (1 / r) hpp hp0 (by rw [← hrr]; field_simp)⟩
          by_cases h1 : q.s1 < 0
          · have hne : p - q.s1 ≠ 0 := by linarith
            have hv : (q.s2 * q.s2 + q.s3 * q.s3) / (p - q.s1) = p + q.s1 := by
              field_simp; linear_combination -hpp
            simp only [h1, decide_true, ↓reduceIte, sdiv, isZero_eq, hne, decide_false, Bool.false_eq_true, hv,
              two_eq, one_eq, zero_eq, pure, Except.pure] at h
            cases hr : sqrtFn (2 * p * (p + q.s1)) with
            | error e => simp [hr] at h
            | ok r =>
              obtain ⟨hrr, hr0⟩ := hs _ _ hr
              have hrne : r ≠ 0 := by intro e; rw [e] at hrr; linarith
              simp only [hr, hrne, decide_false, Bool.false_eq_true, ↓reduceIte] at h
              exact tail r hr (by cases h; rfl)
          · simp only [h1, decide_false, Bool.false_eq_true, ↓reduceIte, pure, Except.pure, two_eq, one_eq, zero_eq,
              sdiv, isZero_eq] at h
            cases hr : sqrtFn (2 * p * (p + q.s1)) with
            | error e => simp [hr] at h
            | ok r =>
              obtain ⟨hrr, hr0⟩ := hs _ _ hr
              have hrne : r ≠ 0 := by intro e; rw [e] at hrr; linarith
              simp only [hr, hrne, decide_false, Bool.false_eq_true, ↓reduceIte] at h
              exact tail r hr (by cases h; rfl)

/-- the larger eigenvalue comes first -/
theorem larger_first (q R : Quat K) (p : K) (h : Diagonalises q R p) : q.s0 - p ≤ q.s0 + p := by
  have := h.2.2.1; linarith

/-- why the repair was needed: before it, zero polarisation made the second branch divide by
`sqrt(2·0·(0+s1)) = 0` -/
theorem old_degenerate_divides_by_zero (s0 : K) : sdiv (1 : K) (0 : K) = .error .div0 := sdiv_err rfl

/-! non-vacuity: `q = (1, 3, 0, 4)` has `p = 5`, `2p(p+s1) = 80` … use `q = (0, 3, 4, 0)`: `p = 5`,
`2·5·8 = 80`; a rational instance is `q = (2, 0, 3, 4)`: `p = 5`, `2p·p = 50` (irrational), so the
instance below takes the `s1`-axis: `q = (7, 2, 0, 0)`, `p = 2`, `2p(p+s1) = 16`, `m = 1/4`. -/
example : Diagonalises (⟨7, 2, 0, 0⟩ : Quat ℚ) ⟨(1/4)*(2+2), 0, -(1/4)*0, (1/4)*0⟩ 2 :=
  branch2 ⟨7, 2, 0, 0⟩ 2 (1/4) (by norm_num) (by norm_num) (by norm_num)

/-! ## The n×n real symmetric Jacobi solver (`Jacobi.jacobi` = `Jacobi (a, evec, eval)`)

The model runs the whole solver (thresholds, skip/zero branch, rotations, the eigenvalue bookkeeping through `b` and `z`,
up to 50 sweeps) and is compared bit for bit with the C++ at `Float`.  Over any linearly ordered field in which the
leaves are exact (`LeafSpec`): for **every dimension, every symmetric input, and whatever number of sweeps is executed** -/

/-- every rotation the solver performs is on a non-zero element, and its parameters are an exact plane rotation
`(c, s = t c)`, `c² + s² = 1`, with `t` the root of `t² a_pq + t (d_q − d_p) − a_pq = 0` that annihilates `a_pq` -/
theorem jacobi_rotation_parameters (L : Jacobi.SolverLeaves K) (hL : Jacobi.LeafSpec L) (p q pq : K) (hpq : pq ≠ 0) :
    ∃ c t : K, 0 < c ∧ c*c*(1 + t*t) = 1 ∧ t*t*pq + t*(q - p) - pq = 0 ∧
      Jacobi.calculateReal L.abs L.sqrt L.eq L.ltZero L.hundred p q pq = ⟨t*c, t*c/(1 + c), t*pq⟩ :=
  Jacobi.calc_spec L hL p q pq hpq

/-- the invariants hold in the state `Jacobi` returns: `a = E A₀ Eᵀ` entry by entry, the rows of `E` are orthonormal,
`eval = diag a`, and `b + z = eval` -/
theorem jacobi_invariants {n : Nat} (L : Jacobi.SolverLeaves K) (hL : Jacobi.LeafSpec L) (A₀ : Mat n n K)
    (hA : ∀ i j, A₀ i j = A₀ j i) : Jacobi.Inv A₀ (Jacobi.jacobi L A₀) :=
  Jacobi.jacobi_inv L hL A₀ hA

/-- ... and after any number of sweeps from any state that satisfies them (so also for every intermediate state) -/
theorem jacobi_invariants_every_sweep {n : Nat} (L : Jacobi.SolverLeaves K) (hL : Jacobi.LeafSpec L) (A₀ : Mat n n K)
    (hA : ∀ i j, A₀ i j = A₀ j i) (fuel iter : Nat) (st : Jacobi.SolverState n K) (h : Jacobi.Inv A₀ st) :
    Jacobi.Inv A₀ (Jacobi.iterate L fuel iter st) :=
  Jacobi.iterate_inv L hL A₀ hA fuel iter st h

/-- matrix form: `E Eᵀ = 1` and `E A Eᵀ` is the working matrix, always; at the `sum == 0` exit
`E A Eᵀ = diag(λ)` and `A Eᵀ = Eᵀ diag(λ)` (the rows of `E` are eigenvectors for the returned eigenvalues) -/
theorem jacobi_eigendecomposition {n : Nat} (L : Jacobi.SolverLeaves K) (hL : Jacobi.LeafSpec L)
    (A₀ : Matrix (Fin n) (Fin n) K) (hA : A₀.transpose = A₀) :
    let st := Jacobi.jacobi L A₀
    let E : Matrix (Fin n) (Fin n) K := st.v
    E * E.transpose = 1 ∧ E * A₀ * E.transpose = (st.a : Matrix (Fin n) (Fin n) K) ∧
    (Jacobi.offSum L st.a = 0 →
      E * A₀ * E.transpose = Matrix.diagonal st.d ∧ A₀ * E.transpose = E.transpose * Matrix.diagonal st.d) :=
  Jacobi.jacobi_correct L hL A₀ hA

/-! ## The n×n complex Hermitian solver (`Jacobi.jacobiC`)

Modelled in full and compared bit for bit with the C++ at `Float` as well.  Over any linearly ordered field with exact leaves
and a square root that is total and exact on non-negative arguments (`SqrtTotal`), complex scalars read in the field `CxF K` -/

/-- the rotation parameters on a non-zero element, in closed form: `c = m (P + Sq)`, `s = −m·a_pq`, `tau = s̄/(1+c)`,
with `P² = Sq² + |a_pq|²`, `m² 2P(P+Sq) = 1` (so `c² + |s|² = 1`, `c > 0`) -/
theorem jacobi_complex_rotation_parameters (sqrtFn : K → R K) (hs : Jacobi.SqrtTotal sqrtFn) (dp dq : K) (pq : Cx K)
    (hpq : pq.re*pq.re + pq.im*pq.im ≠ 0) :
    ∃ P m : K, Jacobi.RotParams dp dq pq P m ∧
      Jacobi.calculateComplex sqrtFn (fun x => decide (x < 0)) dp dq pq =
        .ok ⟨Jacobi.rotS pq m, Jacobi.tauOf (Jacobi.rotS pq m) (Jacobi.rotC dp dq P m), Jacobi.rotCorr dp dq pq P m⟩ :=
  Jacobi.calcC_eq sqrtFn hs dp dq pq hpq

/-- for every dimension, every Hermitian input and whatever number of sweeps runs: the solver returns, `a = E A₀ Eᴴ`
entry by entry, the rows of `E` are orthonormal, `eval` is the real diagonal of `a`, `b + z = eval` -/
theorem jacobi_complex_invariants {n : Nat} (L : Jacobi.SolverLeaves K) (hL : Jacobi.LeafSpec L) (sqrtFn : K → R K)
    (hs : Jacobi.SqrtTotal sqrtFn) (hlt : L.ltZero = fun x => decide (x < 0)) (A₀ : Mat n n (Cx K))
    (hA : ∀ i j, Jacobi.toF (A₀ i j) = Jacobi.conjF (Jacobi.toF (A₀ j i))) :
    ∃ st, Jacobi.jacobiC L sqrtFn A₀ = .ok st ∧ Jacobi.InvC (fun i j => Jacobi.toF (A₀ i j)) st :=
  Jacobi.jacobiC_inv L hL sqrtFn hs hlt A₀ hA

/-- matrix form, and the eigen-decomposition at the `sum == 0` exit: `E A Eᴴ = diag(λ)`, `λ` real, `A Eᴴ = Eᴴ diag(λ)` -/
theorem jacobi_complex_eigendecomposition {n : Nat} (L : Jacobi.SolverLeaves K) (hL : Jacobi.LeafSpec L) (sqrtFn : K → R K)
    (hs : Jacobi.SqrtTotal sqrtFn) (hlt : L.ltZero = fun x => decide (x < 0)) (A₀ : Mat n n (Cx K))
    (hA : ∀ i j, Jacobi.toF (A₀ i j) = Jacobi.conjF (Jacobi.toF (A₀ j i))) :
    ∃ st, Jacobi.jacobiC L sqrtFn A₀ = .ok st ∧
      (let A : Matrix (Fin n) (Fin n) (CxF K) := fun i j => Jacobi.toF (A₀ i j)
       let E : Matrix (Fin n) (Fin n) (CxF K) := fun i j => Jacobi.toF (st.v i j)
       let EH : Matrix (Fin n) (Fin n) (CxF K) := (E.map Jacobi.conjF).transpose
       E * EH = 1 ∧ E * A * EH = (fun i j => Jacobi.toF (st.a i j)) ∧
       (Jacobi.offSumC st.a = 0 → E * A * EH = Matrix.diagonal (fun i => Jacobi.ofR (st.d i)) ∧
          A * EH = EH * Matrix.diagonal (fun i => Jacobi.ofR (st.d i)))) :=
  Jacobi.jacobiC_correct L hL sqrtFn hs hlt A₀ hA

/-- storing a matrix between steps (`Mat.freeze`/`Mat.thaw`, used by the model so that the driver runs in linear time)
changes nothing -/
theorem stored_matrix_is_the_matrix {n : Nat} (m : Mat n n K) : Mat.thaw (Mat.freeze m) = m := Mat.thaw_freeze m

/-! non-vacuity: the real numbers with `Real.sqrt` satisfy `LeafSpec`; the solver's first rotation on
`[[2,1],[1,2]]` has `θ = 0`, `t = 1`, `c = 1/√2`. -/
noncomputable def realLeaves : Jacobi.SolverLeaves ℝ :=
  ⟨fun x => |x|, Real.sqrt, fun a b => decide (a = b), fun x => decide (x < 0), fun a b => decide (a > b), 100, 1/5⟩
example : Jacobi.LeafSpec realLeaves :=
  ⟨fun _ => rfl, fun x hx => Real.mul_self_sqrt hx, fun x _ => Real.sqrt_nonneg x, fun _ _ => rfl, fun _ => rfl,
   fun _ _ => rfl, by norm_num [realLeaves], by norm_num [realLeaves]⟩

noncomputable def realSqrtFn : ℝ → R ℝ := fun x => .ok (Real.sqrt x)
example : Jacobi.SqrtTotal realSqrtFn :=
  ⟨fun x hx => ⟨Real.sqrt x, rfl, Real.mul_self_sqrt hx, Real.sqrt_nonneg x⟩⟩
example : realLeaves.ltZero = fun x => decide (x < 0) := rfl

end Epsic.C10
