import EpsicProofs.FieldArith
namespace Epsic.C10
end Epsic.C10
