import EpsicProofs.Lemmas.Stokes
/-! # C15 — Minkowski forms equal the Gaussian fourth-moment traces they stand for -/
set_option linter.unusedSectionVars false
set_option linter.unusedVariables false
namespace Epsic.C15
open Epsic Epsic.Pauli
variable {K : Type} [Field K] [DecidableEq K] [CharZero K]

/-- coherency matrix of a Stokes vector (linear basis) -/
def rho (a : Vec 4 K) : Jones K := convertStokes Basis.linear a
/-- the Pauli basis -/
def sigma (i : Fin 4) : Jones K := Pauli.matrix i

macro "comp" : tactic =>
  `(tactic| (simp [epsic, Cx.norm_def] <;> (try field_simp) <;> ring))

/-! ## inner product -/
theorem inner_formula (a b : Vec 4 K) :
    Minkowski.inner a b = a 0 * b 0 - (a 1 * b 1 + a 2 * b 2 + a 3 * b 3) := by
  simp only [Minkowski.inner]; ring
theorem inner_symm (a b : Vec 4 K) : Minkowski.inner a b = Minkowski.inner b a := by
  simp only [Minkowski.inner]; ring
theorem inner_add_left (a c b : Vec 4 K) :
    Minkowski.inner (Vec.add a c) b = Minkowski.inner a b + Minkowski.inner c b := by
  simp only [Minkowski.inner, Vec.add]; ring
theorem inner_smul_left (s : K) (a b : Vec 4 K) :
    Minkowski.inner (Vec.smul a s) b = s * Minkowski.inner a b := by
  simp only [Minkowski.inner, Vec.smul]; ring
theorem inner_add_right (a b c : Vec 4 K) :
    Minkowski.inner a (Vec.add b c) = Minkowski.inner a b + Minkowski.inner a c := by
  simp only [Minkowski.inner, Vec.add]; ring
theorem inner_smul_right (s : K) (a b : Vec 4 K) :
    Minkowski.inner a (Vec.smul b s) = s * Minkowski.inner a b := by
  simp only [Minkowski.inner, Vec.smul]; ring
/-- the inner product of a vector with itself is its Lorentz invariant -/
theorem inner_self (a : Vec 4 K) : Minkowski.inner a a = Stokes.invariant a := by
  simp only [Minkowski.inner, Stokes.invariant, Stokes.sqrVect, Stokes.getVector, Vec.normsq, sumFin_three, v3]
  ring

/-! ## outer product -/
theorem outer_add_left (a c b : Vec 4 K) (i j : Fin 4) :
    Minkowski.outer (Vec.add a c) b i j = Minkowski.outer a b i j + Minkowski.outer c b i j := by
  simp only [Minkowski.outer, Minkowski.inner, Vec.add]
  split_ifs <;> (try simp only [half_eq]) <;> ring
theorem outer_smul_left (s : K) (a b : Vec 4 K) (i j : Fin 4) :
    Minkowski.outer (Vec.smul a s) b i j = s * Minkowski.outer a b i j := by
  simp only [Minkowski.outer, Minkowski.inner, Vec.smul]
  split_ifs <;> (try simp only [half_eq]) <;> ring
theorem outer_add_right (a b c : Vec 4 K) (i j : Fin 4) :
    Minkowski.outer a (Vec.add b c) i j = Minkowski.outer a b i j + Minkowski.outer a c i j := by
  simp only [Minkowski.outer, Minkowski.inner, Vec.add]
  split_ifs <;> (try simp only [half_eq]) <;> ring
theorem outer_smul_right (s : K) (a b : Vec 4 K) (i j : Fin 4) :
    Minkowski.outer a (Vec.smul b s) i j = s * Minkowski.outer a b i j := by
  simp only [Minkowski.outer, Minkowski.inner, Vec.smul]
  split_ifs <;> (try simp only [half_eq]) <;> ring
/-- `outer(A,B)ᵀ = outer(B,A)` -/
theorem outer_transpose (a b : Vec 4 K) (i j : Fin 4) :
    Minkowski.outer a b j i = Minkowski.outer b a i j := by
  simp only [Minkowski.outer, Minkowski.inner]
  by_cases h : i = j
  · subst h; simp only [if_true]; split_ifs <;> ring
  · have h' : ¬ j = i := fun e => h e.symm
    simp only [h, h', if_false]; ring

/-- the coherency matrix in the linear basis, explicitly -/
theorem rho_eq (a : Vec 4 K) :
    rho a = ⟨⟨(a 0 + a 1)/2, 0⟩, ⟨a 2 / 2, -(a 3 / 2)⟩, ⟨a 2 / 2, a 3 / 2⟩, ⟨(a 0 - a 1)/2, 0⟩⟩ := by
  ext <;> simp [rho, epsic] <;> ring
theorem sigma_eq (i : Fin 4) : (sigma i : Jones K) =
    match i with
    | 0 => ⟨⟨1,0⟩, ⟨0,0⟩, ⟨0,0⟩, ⟨1,0⟩⟩ | 1 => ⟨⟨1,0⟩, ⟨0,0⟩, ⟨0,0⟩, ⟨-1,0⟩⟩
    | 2 => ⟨⟨0,0⟩, ⟨1,0⟩, ⟨1,0⟩, ⟨0,0⟩⟩ | 3 => ⟨⟨0,0⟩, ⟨0,-1⟩, ⟨0,1⟩, ⟨0,0⟩⟩ := by
  fin_cases i <;> (ext <;> simp [sigma, epsic])

set_option maxHeartbeats 1600000 in
/-- `outer(A,A)` has entries `trace(σ_i ρ_A σ_j ρ_A)` -/
theorem outer_self_trace (a : Vec 4 K) (i j : Fin 4) :
    (sigma i * rho a * sigma j * rho a).trace = Cx.ofReal (Minkowski.outer a a i j) := by
  rw [rho_eq, sigma_eq, sigma_eq]
  fin_cases i <;> fin_cases j <;> apply Cx.ext' <;>
    simp [Jones.mul_def, Jones.mul, Jones.trace, Minkowski.outer, Minkowski.inner] <;> ring
set_option maxHeartbeats 3200000 in
/-- `outer(A,B) + outer(B,A)` has entries `trace(σ_i ρ_A σ_j ρ_B) + trace(σ_i ρ_B σ_j ρ_A)` -/
theorem outer_sum_trace (a b : Vec 4 K) (i j : Fin 4) :
    (sigma i * rho a * sigma j * rho b).trace + (sigma i * rho b * sigma j * rho a).trace
      = Cx.ofReal (Minkowski.outer a b i j + Minkowski.outer b a i j) := by
  rw [rho_eq, rho_eq, sigma_eq, sigma_eq]
  fin_cases i <;> fin_cases j <;> apply Cx.ext' <;>
    simp [Jones.mul_def, Jones.mul, Jones.trace, Minkowski.outer, Minkowski.inner] <;> ring

/-! non-vacuity: a concrete vector with non-zero invariant and a non-trivial outer product -/
example : Minkowski.inner (v4 (3:ℚ) 1 2 2) (v4 3 1 2 2) = 0 := by
  simp only [Minkowski.inner, v4]; norm_num
example : Minkowski.outer (v4 (2:ℚ) 1 0 0) (v4 1 0 1 0) 1 2 = 1 := by
  simp [Minkowski.outer, v4]

end Epsic.C15
