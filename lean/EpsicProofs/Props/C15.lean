import EpsicProofs.Lemmas.Algebra
namespace Epsic.C15
end Epsic.C15
