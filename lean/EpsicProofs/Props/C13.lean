import EpsicProofs.Lemmas.GaussJordan
import EpsicProofs.Lemmas.CxField
import Mathlib.LinearAlgebra.Matrix.Determinant.Basic
/-! # C13 — fixed-size vectors and matrices obey the laws of linear algebra

The loop-based operations of `Vector.h` / `Matrix.h` (model: `EpsicModel/Vec.lean`) are refined to
Mathlib's `Matrix` for **every shape**; the laws then hold for every shape and every element
value over a field.  The Gauss–Jordan inverse is proved correct for every size and every pivot
order (`Lemmas/GaussJordan.lean`). -/
set_option linter.unusedSectionVars false
set_option linter.unusedVariables false
namespace Epsic.C13
open Epsic Matrix
variable {K : Type} [Field K] [DecidableEq K]

/-! ## products are associative and distributive; matrix–vector products agree with the matrix
product and the transpose -/
theorem mul_assoc' {r k l c : Nat} (a : Mat r k K) (b : Mat k l K) (d : Mat l c K) :
    Mat.mul (Mat.mul a b) d = Mat.mul a (Mat.mul b d) := by
  have := Matrix.mul_assoc (toM a) (toM b) (toM d)
  rw [← mul_eq, ← mul_eq, ← mul_eq, ← mul_eq] at this; exact this
theorem mul_add' {r k c : Nat} (a : Mat r k K) (b d : Mat k c K) :
    Mat.mul a (Mat.add b d) = Mat.add (Mat.mul a b) (Mat.mul a d) := by
  have := Matrix.mul_add (toM a) (toM b) (toM d)
  rw [← add_eq, ← mul_eq, ← mul_eq, ← mul_eq, ← add_eq] at this; exact this
theorem add_mul' {r k c : Nat} (a b : Mat r k K) (d : Mat k c K) :
    Mat.mul (Mat.add a b) d = Mat.add (Mat.mul a d) (Mat.mul b d) := by
  have := Matrix.add_mul (toM a) (toM b) (toM d)
  rw [← add_eq, ← mul_eq, ← mul_eq, ← mul_eq, ← add_eq] at this; exact this
theorem mul_identity {r c : Nat} (a : Mat r c K) : Mat.mul a Mat.identity = a := by
  have := Matrix.mul_one (toM a); rw [← identity_eq, ← mul_eq] at this; exact this
theorem identity_mul {r c : Nat} (a : Mat r c K) : Mat.mul Mat.identity a = a := by
  have := Matrix.one_mul (toM a); rw [← identity_eq, ← mul_eq] at this; exact this
theorem mulVec_mulVec {r k c : Nat} (a : Mat r k K) (b : Mat k c K) (v : Vec c K) :
    Mat.mulVec a (Mat.mulVec b v) = Mat.mulVec (Mat.mul a b) v := by
  rw [mulVec_eq, mulVec_eq, mulVec_eq, mul_eq, Matrix.mulVec_mulVec]
theorem vecMul_vecMul {r k c : Nat} (v : Vec r K) (a : Mat r k K) (b : Mat k c K) :
    Mat.vecMul (Mat.vecMul v a) b = Mat.vecMul v (Mat.mul a b) := by
  rw [vecMul_eq, vecMul_eq, vecMul_eq, mul_eq, Matrix.vecMul_vecMul]
/-- vector × matrix is matrix-transpose × vector -/
theorem vecMul_eq_mulVec_transpose {r c : Nat} (v : Vec r K) (a : Mat r c K) :
    Mat.vecMul v a = Mat.mulVec (Mat.transpose a) v := by
  rw [vecMul_eq, mulVec_eq, transpose_eq, Matrix.mulVec_transpose]
/-! ## transpose reverses products; trace, dot, outer -/
theorem transpose_mul {r k c : Nat} (a : Mat r k K) (b : Mat k c K) :
    Mat.transpose (Mat.mul a b) = Mat.mul (Mat.transpose b) (Mat.transpose a) := by
  have := Matrix.transpose_mul (toM a) (toM b)
  rw [← mul_eq, ← transpose_eq, ← transpose_eq, ← transpose_eq, ← mul_eq] at this; exact this
theorem transpose_transpose {r c : Nat} (a : Mat r c K) : Mat.transpose (Mat.transpose a) = a := rfl
theorem trace_mul_comm {r c : Nat} (a : Mat r c K) (b : Mat c r K) :
    Mat.trace (Mat.mul a b) = Mat.trace (Mat.mul b a) := by
  rw [trace_eq, trace_eq, mul_eq, mul_eq, Matrix.trace_mul_comm]
theorem trace_add {n : Nat} (a b : Mat n n K) : Mat.trace (Mat.add a b) = Mat.trace a + Mat.trace b := by
  rw [trace_eq, trace_eq, trace_eq, add_eq, Matrix.trace_add]
theorem dot_comm {n : Nat} (a b : Vec n K) : Vec.dot a b = Vec.dot b a := by
  rw [dot_eq, dot_eq, dotProduct_comm]
theorem dot_add_left {n : Nat} (a b d : Vec n K) : Vec.dot (Vec.add a b) d = Vec.dot a d + Vec.dot b d := by
  rw [dot_eq, dot_eq, dot_eq]; exact add_dotProduct a b d
theorem dot_smul_left {n : Nat} (a d : Vec n K) (s : K) : Vec.dot (Vec.smul a s) d = s * Vec.dot a d := by
  rw [dot_eq, dot_eq]
  have : Vec.smul a s = s • a := by funext i; simp [Vec.smul, mul_comm]
  rw [this, smul_dotProduct, smul_eq_mul]
theorem normsq_eq_dot {n : Nat} (a : Vec n K) : Vec.normsq a = Vec.dot a a := rfl
theorem outer_apply {r c : Nat} (a : Vec r K) (b : Vec c K) (i : Fin r) (j : Fin c) :
    Mat.outer a b i j = a i * b j := rfl
theorem trace_outer {n : Nat} (a b : Vec n K) : Mat.trace (Mat.outer a b) = Vec.dot a b := by
  rw [trace_eq, dot_eq]; simp only [Matrix.trace, dotProduct]; apply Finset.sum_congr rfl; intro i _; rfl
theorem outer_mulVec {r c : Nat} (a : Vec r K) (b d : Vec c K) :
    Mat.mulVec (Mat.outer a b) d = Vec.smul a (Vec.dot b d) := by
  funext i
  simp only [Mat.mulVec, Mat.outer, Vec.smul, dot_eq, dotProduct, Finset.mul_sum]
  apply Finset.sum_congr rfl; intro j _; ring

/-! ## cross product (3-vectors) -/
macro "cross_ring" : tactic =>
  `(tactic| (simp only [Vec.cross, Vec.dot, Vec.add, Vec.sub, Vec.neg, Vec.smul, Vec.normsq, sumFin_three] <;>
      (try simp) <;> ring))
theorem cross_perp_left (a b : Vec 3 K) : Vec.dot (Vec.cross a b) a = 0 := by cross_ring
theorem cross_perp_right (a b : Vec 3 K) : Vec.dot (Vec.cross a b) b = 0 := by cross_ring
theorem cross_anticomm (a b : Vec 3 K) : Vec.cross a b = Vec.neg (Vec.cross b a) := by
  funext i; fin_cases i <;> cross_ring
/-- Lagrange's identity -/
theorem cross_lagrange (a b : Vec 3 K) :
    Vec.normsq (Vec.cross a b) = Vec.normsq a * Vec.normsq b - Vec.dot a b * Vec.dot a b := by cross_ring
/-- vector triple product `a × (b × c) = b (a·c) − c (a·b)` -/
theorem cross_triple (a b d : Vec 3 K) :
    Vec.cross a (Vec.cross b d) = Vec.sub (Vec.smul b (Vec.dot a d)) (Vec.smul d (Vec.dot a b)) := by
  funext i; fin_cases i <;> cross_ring

/-! ## Kronecker product: index arithmetic and the mixed-product rule -/
theorem direct_apply {ar ac br bc : Nat} (a : Mat ar ac K) (b : Mat br bc K)
    (i : Fin ar) (i' : Fin br) (j : Fin ac) (j' : Fin bc) :
    Mat.direct a b (finProdFinEquiv (i, i')) (finProdFinEquiv (j, j')) = a i j * b i' j' := by
  simp only [Mat.direct, finProdFinEquiv, Equiv.coe_fn_mk]
  have hb : 0 < br := Nat.pos_of_ne_zero (fun h => by have := i'.isLt; omega)
  have hc : 0 < bc := Nat.pos_of_ne_zero (fun h => by have := j'.isLt; omega)
  congr 2 <;> ext <;> simp [Nat.add_mul_div_left _ _ hb, Nat.add_mul_div_left _ _ hc, Nat.div_eq_of_lt,
    Nat.add_mul_mod_self_left, Nat.mod_eq_of_lt]
/-- `direct` is Mathlib's Kronecker product re-indexed by `(i, i') ↦ i·Br + i'` -/
theorem direct_eq_kronecker {ar ac br bc : Nat} (a : Mat ar ac K) (b : Mat br bc K) :
    toM (Mat.direct a b) = Matrix.reindex finProdFinEquiv finProdFinEquiv
      (Matrix.kroneckerMap (· * ·) (toM a) (toM b)) := by
  funext x y
  obtain ⟨⟨i, i'⟩, rfl⟩ := finProdFinEquiv.surjective x
  obtain ⟨⟨j, j'⟩, rfl⟩ := finProdFinEquiv.surjective y
  simp only [Matrix.reindex_apply, Matrix.submatrix_apply, Equiv.symm_apply_apply, Matrix.kroneckerMap_apply]
  exact direct_apply a b i i' j j'
/-- mixed-product rule `(A ⊗ B)(C ⊗ D) = (AC) ⊗ (BD)` -/
theorem direct_mul_direct {ar k br l ac bc : Nat} (a : Mat ar k K) (b : Mat br l K) (c : Mat k ac K) (d : Mat l bc K) :
    Mat.mul (Mat.direct a b) (Mat.direct c d) = Mat.direct (Mat.mul a c) (Mat.mul b d) := by
  have h1 := direct_eq_kronecker a b
  have h2 := direct_eq_kronecker c d
  have h3 := direct_eq_kronecker (Mat.mul a c) (Mat.mul b d)
  have : toM (Mat.mul (Mat.direct a b) (Mat.direct c d)) = toM (Mat.direct (Mat.mul a c) (Mat.mul b d)) := by
    rw [mul_eq, h1, h2, h3, mul_eq, mul_eq]
    simp only [Matrix.reindex_apply]
    rw [Matrix.submatrix_mul_equiv]
    congr 1
    exact (Matrix.mul_kronecker_mul (toM a) (toM c) (toM b) (toM d)).symm
  exact this

/-! ## partition and compose are inverse operations -/
theorem partition_compose {u l b r : Nat} (ul : Mat u l K) (ur : Mat u r K) (bl : Mat b l K) (br : Mat b r K) :
    Mat.partUL (Mat.compose ul ur bl br) = ul ∧ Mat.partUR (Mat.compose ul ur bl br) = ur ∧
    Mat.partBL (Mat.compose ul ur bl br) = bl ∧ Mat.partBR (Mat.compose ul ur bl br) = br := by
  refine ⟨?_, ?_, ?_, ?_⟩ <;> funext i j <;>
    simp [Mat.partUL, Mat.partUR, Mat.partBL, Mat.partBR, Mat.compose, i.isLt, j.isLt]
theorem compose_partition {u l b r : Nat} (m : Mat (u+b) (l+r) K) :
    Mat.compose (Mat.partUL m) (Mat.partUR m) (Mat.partBL m) (Mat.partBR m) = m := by
  funext i j
  simp only [Mat.compose, Mat.partUL, Mat.partUR, Mat.partBL, Mat.partBR]
  split_ifs with hi hj hj <;> congr 1 <;> ext <;> simp <;> omega

/-! ## scalar constructor: the scalar on the leading diagonal, zero elsewhere, for every shape;
and the index-range obligation of the loop that writes it -/
theorem ofScalar_apply {r c : Nat} (s : K) (i : Fin r) (j : Fin c) :
    (Mat.ofScalar s : Mat r c K) i j = if i.val = j.val then s else 0 := rfl
/-- writing `(i,i)` for `i < min Rows Columns` stays inside the matrix … -/
theorem scalarWrites_in_range (r c : Nat) : ∀ p ∈ Mat.scalarWrites (min r c), p.1 < r ∧ p.2 < c := by
  intro p hp
  simp only [Mat.scalarWrites, List.mem_map, List.mem_range] at hp
  obtain ⟨i, hi, rfl⟩ := hp
  exact ⟨lt_of_lt_of_le hi (min_le_left _ _), lt_of_lt_of_le hi (min_le_right _ _)⟩
/-- … and covers the whole leading diagonal -/
theorem scalarWrites_covers (r c i : Nat) (hr : i < r) (hc : i < c) : (i, i) ∈ Mat.scalarWrites (min r c) := by
  simp only [Mat.scalarWrites, List.mem_map, List.mem_range]
  exact ⟨i, lt_min hr hc, rfl⟩
/-- the loop bound `Rows` (the source before the repair) leaves the matrix when `Rows > Columns` -/
theorem scalarWrites_rows_out_of_range (r c : Nat) (h : c < r) :
    ∃ p ∈ Mat.scalarWrites r, ¬ p.2 < c := by
  refine ⟨(c, c), ?_, by simp⟩
  simp only [Mat.scalarWrites, List.mem_map, List.mem_range]
  exact ⟨c, h, rfl⟩

/-! ## the Gauss–Jordan inverse -/
/-- whatever admissible pivot order is used, a returned inverse is two-sided -/
theorem inv_two_sided {n : Nat} (pick : Gauss.Pick n n K) (hpick : Gauss.PickOK pick) (m x : Mat n n K)
    (h : Gauss.inv pick m = .ok x) : Mat.mul x m = Mat.identity ∧ Mat.mul m x = Mat.identity := by
  obtain ⟨h1, h2⟩ := Gauss.inv_correct pick hpick m x h
  rw [← mul_eq, ← identity_eq] at h1 h2
  exact ⟨h1, h2⟩
/-- the pivot search of the source is admissible, for any magnitude function and comparison -/
theorem source_pivot_search_admissible {n : Nat} {β : Type} (mag : K → β) (ge : β → β → Bool) (z : β) :
    Gauss.PickOK (Gauss.pickMax (n := n) (c := n) mag ge z) := Gauss.pickMax_ok mag ge z
/-- **every non-singular matrix is inverted** by the code's pivot search (largest magnitude among unused
rows × unused columns): no spurious "singular" report, and the result is the two-sided inverse -/
theorem nonsingular_inverted {n : Nat} {β : Type} (mag : K → β) (ge : β → β → Bool) (z : β) (hm : Gauss.MagSpec mag ge z)
    (m : Mat n n K) (hdet : (toM m).det ≠ 0) :
    ∃ x, Gauss.inv (Gauss.pickMax mag ge z) m = .ok x ∧ toM x * toM m = 1 ∧ toM m * toM x = 1 :=
  Gauss.inv_complete mag ge z hm m hdet
/-- **complex matrices**: the same two clauses for the templates instantiated at `std::complex` (the model's
`Cx K` with its own scalar instance, shown in `Lemmas/CxField.lean` to be the field `CxF K`) -/
theorem complex_inverse_two_sided {K' : Type} [Field K'] [LinearOrder K'] [IsStrictOrderedRing K'] [DecidableEq K'] {n : Nat}
    (pick : Gauss.Pick n n (Cx K')) (hpick : ∀ st r col, pick st = some (r, col) → st.used r = false ∧ st.used col = false)
    (m x : Mat n n (Cx K')) (h : Gauss.inv pick m = .ok x) : Mat.mul x m = Mat.identity ∧ Mat.mul m x = Mat.identity :=
  complex_inv_two_sided pick hpick m x h
theorem complex_nonsingular_inverted {K' : Type} [Field K'] [LinearOrder K'] [IsStrictOrderedRing K'] [DecidableEq K'] {n : Nat}
    (m : Mat n n (CxF K')) (hdet : (toM m).det ≠ 0) :
    ∃ x : Mat n n (Cx K'), @Gauss.inv (Cx K') Cx.instArith n
      (Gauss.pickMax (fun z : CxF K' => z.re*z.re + z.im*z.im) (fun a b => decide (a ≥ b)) (0 : K')) m = .ok x :=
  complex_inv_complete _ _ _ magSpec_norm m hdet
/-- singular matrices are reported, never inverted -/
theorem singular_reported {n : Nat} (pick : Gauss.Pick n n K) (hpick : Gauss.PickOK pick) (m : Mat n n K)
    (hdet : (toM m).det = 0) : ∃ e, Gauss.inv pick m = .error e := Gauss.inv_singular pick hpick m hdet
theorem zero_row_reported {n : Nat} (pick : Gauss.Pick n n K) (hpick : Gauss.PickOK pick) (m : Mat n n K)
    (i : Fin n) (hrow : ∀ j, m i j = 0) : ∃ e, Gauss.inv pick m = .error e :=
  singular_reported pick hpick m (Matrix.det_eq_zero_of_row_eq_zero i hrow)
theorem zero_column_reported {n : Nat} (pick : Gauss.Pick n n K) (hpick : Gauss.PickOK pick) (m : Mat n n K)
    (j : Fin n) (hcol : ∀ i, m i j = 0) : ∃ e, Gauss.inv pick m = .error e :=
  singular_reported pick hpick m (Matrix.det_eq_zero_of_column_eq_zero j hcol)
theorem proportional_rows_reported {n : Nat} (pick : Gauss.Pick n n K) (hpick : Gauss.PickOK pick) (m : Mat n n K)
    (i i' : Fin n) (hne : i ≠ i') (hrow : m i = m i') : ∃ e, Gauss.inv pick m = .error e :=
  singular_reported pick hpick m (Matrix.det_zero_of_row_eq hne hrow)

/-! non-vacuity: a concrete matrix on which the inverse is defined (1×1, `[2] ↦ [1/2]`) -/
example : ∃ x, Gauss.inv (Gauss.pickMax (n := 1) (c := 1) (fun x : ℚ => x) (fun _ _ => true) 0)
    (fun _ _ => (2:ℚ)) = .ok x := ⟨_, rfl⟩

end Epsic.C13
