import EpsicProofs.Lemmas.Stokes
import EpsicProofs.Props.C03
import EpsicProofs.Props.C04
/-! # C02 — Stokes, coherency-matrix, Mueller and spinor pictures of a transformation agree -/
set_option linter.unusedSectionVars false
set_option linter.unusedVariables false
namespace Epsic.C02
open Epsic Epsic.Pauli
variable {K : Type} [Field K] [DecidableEq K] [CharZero K]

/-- the only property of the `real_coherency` guard the theorems use: it does not fire when the
imaginary part vanishes identically (`ni > 1e8·eps` is false for `ni = 0`) -/
def GuardOK (g : K → K → Bool) : Prop := ∀ nr, g 0 nr = false

/-! ## Hermitian arguments pass the guard -/
theorem imag_toHermitian_of_hermitian (j : Jones K) (h : j.herm = j) :
    Quat.imagQ (toHermitian j) = Quat.ofScalar 0 := by
  have h0 := congrArg Jones.j00 h; have h1 := congrArg Jones.j01 h
  have h2 := congrArg Jones.j10 h; have h3 := congrArg Jones.j11 h
  simp only [Jones.herm] at h0 h1 h2 h3
  have e0 := congrArg Cx.im h0; have e1r := congrArg Cx.re h1; have e1 := congrArg Cx.im h1
  have e3 := congrArg Cx.im h3
  simp only [epsic] at e0 e1 e1r e3
  ext <;> simp only [epsic]
  · have : j.j00.im = 0 := by linear_combination (-1/2 : K) * e0
    have : j.j11.im = 0 := by linear_combination (-1/2 : K) * e3
    simp [*]
  · have : j.j00.im = 0 := by linear_combination (-1/2 : K) * e0
    have : j.j11.im = 0 := by linear_combination (-1/2 : K) * e3
    simp [*]
  · linear_combination (-1/2 : K) * e1
  · linear_combination (-1/2 : K) * e1r
theorem coherency_of_hermitian (g : K → K → Bool) (hg : GuardOK g) (b : Basis K) (j : Jones K)
    (h : j.herm = j) : coherency g b j = .ok (coherencyQ b (Quat.realQ (toHermitian j))) := by
  simp only [coherency, realCoherency, imag_toHermitian_of_hermitian j h]
  have : Quat.normR (Quat.ofScalar (0:K)) = 0 := by simp [epsic]
  simp [this, hg _]
theorem convertStokes_hermitian (b : Basis K) (s : Stokes K) : (convertStokes b s).herm = convertStokes b s := by
  simp only [convertStokes]; exact C03.convertHR_hermitian _
theorem congruence_hermitian (j rho : Jones K) (h : rho.herm = rho) : (j * rho * j.herm).herm = j * rho * j.herm := by
  rw [C04.herm_mul, C04.herm_mul, C04.herm_herm, h, C04.mul_assoc']

/-- `transform(S,J)` is defined and equals the congruence `J ρ J†` read back as Stokes parameters -/
def T (b : Basis K) (s : Stokes K) (j : Jones K) : Stokes K :=
  coherencyQ b (Quat.realQ (toHermitian (j * convertStokes b s * j.herm)))
theorem transform_eq (g : K → K → Bool) (hg : GuardOK g) (b : Basis K) (s : Stokes K) (j : Jones K) :
    transform g b s j = .ok (T b s j) := by
  simp only [transform, T]
  exact coherency_of_hermitian g hg b _ (congruence_hermitian _ _ (convertStokes_hermitian b s))
/-- rows of the Mueller matrix -/
def M (b : Basis K) (j : Jones K) : Mat 4 4 K := fun r =>
  coherencyQ b (Quat.realQ (toHermitian (j.herm * convertStokes b (Vec.basis r) * j)))
theorem mueller_eq (g : K → K → Bool) (hg : GuardOK g) (b : Basis K) (j : Jones K) :
    mueller g b j = .ok (M b j) := by
  have hrow : ∀ r : Fin 4, coherency g b (j.herm * convertStokes b (Vec.basis r) * j) = .ok (M b j r) := by
    intro r
    have := coherency_of_hermitian g hg b (j.herm * convertStokes b (Vec.basis r) * j.herm.herm)
      (congruence_hermitian _ _ (convertStokes_hermitian b _))
    rw [C04.herm_herm] at this; exact this
  simp only [mueller, hrow, bind, Except.bind, pure, Except.pure]
  congr 1; funext i; fin_cases i <;> rfl
def MG (b : Basis K) (j jg : Jones K) : Mat 4 4 K := fun r =>
  coherencyQ b (Quat.realQ (toHermitian (jg.herm * convertStokes b (Vec.basis r) * j + j.herm * convertStokes b (Vec.basis r) * jg)))
theorem muellerGrad_eq (g : K → K → Bool) (hg : GuardOK g) (b : Basis K) (j jg : Jones K) :
    muellerGrad g b j jg = .ok (MG b j jg) := by
  have hrow : ∀ r : Fin 4, coherency g b (jg.herm * convertStokes b (Vec.basis r) * j + j.herm * convertStokes b (Vec.basis r) * jg)
      = .ok (MG b j jg r) := by
    intro r
    apply coherency_of_hermitian g hg
    rw [C04.herm_add, C04.herm_mul, C04.herm_mul, C04.herm_mul, C04.herm_mul, C04.herm_herm, C04.herm_herm,
      convertStokes_hermitian, C04.add_comm', C04.mul_assoc', C04.mul_assoc']
  simp only [muellerGrad, hrow, bind, Except.bind, pure, Except.pure]
  congr 1; funext i; fin_cases i <;> rfl


/-! ## the named bases: polynomial identities, for all Stokes vectors and all Jones matrices -/

macro "stokes_ring" : tactic =>
  `(tactic| (funext i; fin_cases i <;> simp [T, M, MG, epsic, Cx.norm_def] <;> ring))

section named
variable (s : Stokes K) (sc : Stokes (Cx K)) (j j1 j2 gj : Jones K) (t : K)

theorem roundtrip_linear : coherencyQ Basis.linear (Quat.realQ (toHermitian (convertStokes Basis.linear s))) = s := by stokes_ring
theorem roundtrip_circular : coherencyQ Basis.circular (Quat.realQ (toHermitian (convertStokes Basis.circular s))) = s := by stokes_ring
theorem trace_linear : (convertStokes Basis.linear s).trace = Cx.ofReal (s 0) := by
  apply Cx.ext' <;> simp [epsic] <;> ring
theorem trace_circular : (convertStokes Basis.circular s).trace = Cx.ofReal (s 0) := by
  apply Cx.ext' <;> simp [epsic] <;> ring
theorem det_linear : Cx.smul 4 (convertStokes Basis.linear s).det = Cx.ofReal (Stokes.invariant s) := by
  apply Cx.ext' <;> simp [epsic] <;> ring
theorem det_circular : Cx.smul 4 (convertStokes Basis.circular s).det = Cx.ofReal (Stokes.invariant s) := by
  apply Cx.ext' <;> simp [epsic] <;> ring

/-- complex Stokes parameters: round trip, trace, determinant -/
theorem roundtripC_linear : complexCoherency Basis.linear (convertStokesC Basis.linear sc) = sc := by
  funext i; fin_cases i <;> apply Cx.ext' <;> simp [epsic] <;> ring
theorem roundtripC_circular : complexCoherency Basis.circular (convertStokesC Basis.circular sc) = sc := by
  funext i; fin_cases i <;> apply Cx.ext' <;> simp [epsic] <;> ring
theorem traceC_linear : (convertStokesC Basis.linear sc).trace = sc 0 := by
  apply Cx.ext' <;> simp [epsic] <;> ring
theorem traceC_circular : (convertStokesC Basis.circular sc).trace = sc 0 := by
  apply Cx.ext' <;> simp [epsic] <;> ring
theorem detC_linear : Cx.smul 4 (convertStokesC Basis.linear sc).det = sc 0 * sc 0 - sc 1 * sc 1 - sc 2 * sc 2 - sc 3 * sc 3 := by
  apply Cx.ext' <;> simp [epsic] <;> ring
theorem detC_circular : Cx.smul 4 (convertStokesC Basis.circular sc).det = sc 0 * sc 0 - sc 1 * sc 1 - sc 2 * sc 2 - sc 3 * sc 3 := by
  apply Cx.ext' <;> simp [epsic] <;> ring

/-- transforming by `J` is multiplication by the Mueller matrix of `J` -/
theorem T_eq_mueller_linear : T Basis.linear s j = Mat.mulVec (M Basis.linear j) s := by stokes_ring
theorem T_eq_mueller_circular : T Basis.circular s j = Mat.mulVec (M Basis.circular j) s := by stokes_ring
/-- the Lorentz invariant is multiplied by `|det J|²` -/
theorem invariant_T_linear : Stokes.invariant (T Basis.linear s j) = j.det.norm * Stokes.invariant s := by
  simp [T, epsic, Cx.norm_def]; ring
theorem invariant_T_circular : Stokes.invariant (T Basis.circular s j) = j.det.norm * Stokes.invariant s := by
  simp [T, epsic, Cx.norm_def]; ring

set_option maxHeartbeats 4000000 in
/-- Mueller matrices compose like their Jones matrices -/
theorem M_mul_linear : M Basis.linear (j1 * j2) = Mat.mul (M Basis.linear j1) (M Basis.linear j2) := by
  funext r c; fin_cases r <;> fin_cases c <;> simp [M, epsic] <;> ring
set_option maxHeartbeats 4000000 in
theorem M_mul_circular : M Basis.circular (j1 * j2) = Mat.mul (M Basis.circular j1) (M Basis.circular j2) := by
  funext r c; fin_cases r <;> fin_cases c <;> simp [M, epsic] <;> ring
set_option maxHeartbeats 4000000 in
/-- the two-argument Mueller form is the exact directional derivative: an identity in `t` -/
theorem M_grad_linear (r c : Fin 4) : M Basis.linear (j + Jones.smulR t gj) r c
    = M Basis.linear j r c + t * MG Basis.linear j gj r c + t*t * M Basis.linear gj r c := by
  fin_cases r <;> fin_cases c <;> simp [M, MG, epsic] <;> ring
set_option maxHeartbeats 4000000 in
theorem M_grad_circular (r c : Fin 4) : M Basis.circular (j + Jones.smulR t gj) r c
    = M Basis.circular j r c + t * MG Basis.circular j gj r c + t*t * M Basis.circular gj r c := by
  fin_cases r <;> fin_cases c <;> simp [M, MG, epsic] <;> ring
end named

end Epsic.C02
