import EpsicProofs.Lemmas.Algebra
namespace Epsic.C02
end Epsic.C02
