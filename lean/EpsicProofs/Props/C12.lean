import EpsicProofs.FieldArith
import Mathlib.Data.List.Perm.Basic
import Mathlib.Algebra.BigOperators.Group.List.Basic
import Mathlib.Analysis.SpecialFunctions.Trigonometric.Basic
/-! # C12 — weighted-mean accumulators are independent of insertion order and grouping

`MeanEst.accumulate` is the sequential `operator+=` fold; `MeanEst.evalTree` an arbitrary binary
merge tree.  All statements are for every finite sequence (no length bound), every value and
every variance (including zero-variance entries, which carry no weight). -/
set_option linter.unusedSectionVars false
set_option linter.unusedVariables false
namespace Epsic.C12
open Epsic
variable {K : Type} [Field K] [DecidableEq K]

@[ext] theorem MeanEst.ext' {a b : MeanEst K} (h1 : a.normVal = b.normVal) (h2 : a.invVar = b.invVar) : a = b := by
  cases a; cases b; simp_all

/-! ## the accumulator is a commutative monoid under `merge`, and insertion is a merge -/
theorem merge_comm (a b : MeanEst K) : MeanEst.merge a b = MeanEst.merge b a := by
  ext <;> simp [MeanEst.merge, add_comm]
theorem merge_assoc (a b c : MeanEst K) : MeanEst.merge (MeanEst.merge a b) c = MeanEst.merge a (MeanEst.merge b c) := by
  ext <;> simp [MeanEst.merge, add_assoc]
theorem merge_empty (a : MeanEst K) : MeanEst.merge a MeanEst.empty = a := by
  ext <;> simp [MeanEst.merge, MeanEst.empty]
theorem empty_merge (a : MeanEst K) : MeanEst.merge MeanEst.empty a = a := by
  ext <;> simp [MeanEst.merge, MeanEst.empty]
theorem addEst_eq_merge (m : MeanEst K) (d : Est K) : MeanEst.addEst m d = MeanEst.merge m (MeanEst.ofEst d) := by
  simp only [MeanEst.addEst, MeanEst.ofEst, MeanEst.empty]
  by_cases h : d.var = 0
  · simp [h, MeanEst.merge]
  · ext <;> simp [h, MeanEst.merge]

theorem foldl_addEst (l : List (Est K)) (m : MeanEst K) :
    l.foldl MeanEst.addEst m = MeanEst.merge m (MeanEst.accumulate l) := by
  induction l generalizing m with
  | nil => simp [MeanEst.accumulate, merge_empty]
  | cons d ds ih =>
    simp only [List.foldl_cons, MeanEst.accumulate]
    rw [ih, ih (MeanEst.addEst MeanEst.empty d), addEst_eq_merge, addEst_eq_merge, empty_merge, merge_assoc]

/-- grouping: accumulating a concatenation is merging the two partial accumulators -/
theorem accumulate_append (l₁ l₂ : List (Est K)) :
    MeanEst.accumulate (l₁ ++ l₂) = MeanEst.merge (MeanEst.accumulate l₁) (MeanEst.accumulate l₂) := by
  simp only [MeanEst.accumulate, List.foldl_append]
  exact foldl_addEst l₂ _
theorem accumulate_cons (d : Est K) (l : List (Est K)) :
    MeanEst.accumulate (d :: l) = MeanEst.merge (MeanEst.ofEst d) (MeanEst.accumulate l) := by
  have := accumulate_append [d] l
  simpa [MeanEst.accumulate, MeanEst.ofEst] using this

/-- order: any permutation of the insertions gives the same accumulator -/
theorem accumulate_perm {l₁ l₂ : List (Est K)} (h : l₁.Perm l₂) : MeanEst.accumulate l₁ = MeanEst.accumulate l₂ := by
  induction h with
  | nil => rfl
  | cons d _ ih => rw [accumulate_cons, accumulate_cons, ih]
  | swap a b l =>
    rw [accumulate_cons, accumulate_cons, accumulate_cons, accumulate_cons, ← merge_assoc, ← merge_assoc,
      merge_comm (MeanEst.ofEst b)]
  | trans _ _ ih1 ih2 => exact ih1.trans ih2

/-- every binary merge tree equals the sequential accumulation of its leaves -/
theorem evalTree_eq (t : MeanEst.Tree K) : MeanEst.evalTree t = MeanEst.accumulate t.leaves := by
  induction t with
  | leaf d => simp [MeanEst.evalTree, MeanEst.Tree.leaves, MeanEst.accumulate, MeanEst.ofEst]
  | node l r ihl ihr => simp only [MeanEst.evalTree, MeanEst.Tree.leaves, accumulate_append, ihl, ihr]
/-- **all permutations and all merge trees of a multiset of estimates agree** -/
theorem order_and_grouping_independent (t₁ t₂ : MeanEst.Tree K) (h : t₁.leaves.Perm t₂.leaves) :
    MeanEst.evalTree t₁ = MeanEst.evalTree t₂ := by
  rw [evalTree_eq, evalTree_eq, accumulate_perm h]

/-! ## closed form: the inverse-variance weighted average of the entries with non-zero variance -/
theorem accumulate_normVal (l : List (Est K)) :
    (MeanEst.accumulate l).normVal = ((l.filter (fun d => d.var ≠ 0)).map (fun d => d.val / d.var)).sum := by
  induction l with
  | nil => simp [MeanEst.accumulate, MeanEst.empty]
  | cons d ds ih =>
    rw [accumulate_cons]
    simp only [MeanEst.merge, ih, MeanEst.ofEst, MeanEst.addEst, MeanEst.empty]
    by_cases h : d.var = 0
    · simp [h]
    · simp [h, div_eq_mul_inv]
theorem accumulate_invVar (l : List (Est K)) :
    (MeanEst.accumulate l).invVar = ((l.filter (fun d => d.var ≠ 0)).map (fun d => 1 / d.var)).sum := by
  induction l with
  | nil => simp [MeanEst.accumulate, MeanEst.empty]
  | cons d ds ih =>
    rw [accumulate_cons]
    simp only [MeanEst.merge, ih, MeanEst.ofEst, MeanEst.addEst, MeanEst.empty]
    by_cases h : d.var = 0
    · simp [h]
    · simp [h]
/-- the reported estimate: weighted average and reciprocal of the summed inverse variances -/
theorem get_weighted_mean (m : MeanEst K) (h : m.invVar ≠ 0) :
    m.get.val = m.normVal / m.invVar ∧ m.get.var = 1 / m.invVar := by
  simp [MeanEst.get, h, div_eq_mul_inv]
/-- an empty accumulator (or one that only saw zero-variance entries) yields zero with zero variance -/
theorem get_empty : (MeanEst.empty : MeanEst K).get = ⟨0, 0⟩ := by simp [MeanEst.get, MeanEst.empty]
theorem get_no_weight (m : MeanEst K) (h : m.invVar = 0) : m.get = ⟨0, 0⟩ := by simp [MeanEst.get, h]
theorem zero_variance_entry_ignored (m : MeanEst K) (d : Est K) (h : d.var = 0) : MeanEst.addEst m d = m := by
  simp [MeanEst.addEst, h]

/-! ## circular mean: the same order / grouping independence, component-wise -/
theorem MeanRad.ext' {a b : MeanRad K} (h1 : a.cosine = b.cosine) (h2 : a.sine = b.sine) : a = b := by
  cases a; cases b; simp_all
def cosList (l : List (MeanRad.Entry K)) : List (Est K) := l.map (fun e => Est.cosE e.d e.c)
def sinList (l : List (MeanRad.Entry K)) : List (Est K) := l.map (fun e => Est.sinE e.d e.s)
theorem rad_accumulate_components (l : List (MeanRad.Entry K)) :
    (MeanRad.accumulate l).cosine = MeanEst.accumulate (cosList l) ∧
    (MeanRad.accumulate l).sine = MeanEst.accumulate (sinList l) := by
  have : ∀ (m : MeanRad K), (l.foldl MeanRad.addEntry m).cosine = (cosList l).foldl MeanEst.addEst m.cosine ∧
      (l.foldl MeanRad.addEntry m).sine = (sinList l).foldl MeanEst.addEst m.sine := by
    induction l with
    | nil => intro m; simp [cosList, sinList]
    | cons e es ih => intro m; simpa [cosList, sinList, MeanRad.addEntry] using ih (MeanRad.addEntry m e)
  exact this MeanRad.empty
theorem rad_accumulate_append (l₁ l₂ : List (MeanRad.Entry K)) :
    MeanRad.accumulate (l₁ ++ l₂) = MeanRad.merge (MeanRad.accumulate l₁) (MeanRad.accumulate l₂) := by
  apply MeanRad.ext'
  · simp only [MeanRad.merge, (rad_accumulate_components _).1, cosList, List.map_append]; exact accumulate_append _ _
  · simp only [MeanRad.merge, (rad_accumulate_components _).2, sinList, List.map_append]; exact accumulate_append _ _
theorem rad_accumulate_perm {l₁ l₂ : List (MeanRad.Entry K)} (h : l₁.Perm l₂) :
    MeanRad.accumulate l₁ = MeanRad.accumulate l₂ := by
  apply MeanRad.ext'
  · rw [(rad_accumulate_components _).1, (rad_accumulate_components _).1]; exact accumulate_perm (h.map _)
  · rw [(rad_accumulate_components _).2, (rad_accumulate_components _).2]; exact accumulate_perm (h.map _)

/-- adding a multiple of 2π to an input changes neither leaf, hence nothing -/
theorem entry_two_pi_invariant (θ v : ℝ) (k : ℤ) :
    (⟨⟨θ + k * (2 * Real.pi), v⟩, Real.cos (θ + k * (2 * Real.pi)), Real.sin (θ + k * (2 * Real.pi))⟩ : MeanRad.Entry ℝ).c
      = Real.cos θ ∧
    (⟨⟨θ + k * (2 * Real.pi), v⟩, Real.cos (θ + k * (2 * Real.pi)), Real.sin (θ + k * (2 * Real.pi))⟩ : MeanRad.Entry ℝ).s
      = Real.sin θ := by
  constructor
  · exact Real.cos_add_int_mul_two_pi θ k
  · exact Real.sin_add_int_mul_two_pi θ k
/-- the accumulator only sees an angle through its cosine, sine and variance -/
theorem addEntry_depends_on_leaves (m : MeanRad K) (e₁ e₂ : MeanRad.Entry K)
    (hc : e₁.c = e₂.c) (hs : e₁.s = e₂.s) (hv : e₁.d.var = e₂.d.var) : MeanRad.addEntry m e₁ = MeanRad.addEntry m e₂ := by
  simp [MeanRad.addEntry, Est.cosE, Est.sinE, hc, hs, hv]

/-! ## the direction clause: stated in full, refuted on the code as it stands -/
/-- the full statement: the result's direction is that of the weighted vector sum
`(Σ cos θ/σ², Σ sin θ/σ²)` (expressed without `atan2`: the two vectors are positively proportional) -/
def DirectionClause (l : List (MeanRad.Entry K)) (resultCos resultSin : K) : Prop :=
  let sx := (l.map (fun e => e.c / e.d.var)).sum
  let sy := (l.map (fun e => e.s / e.d.var)).sum
  resultCos * sy = resultSin * sx
/-- witness: angles `0` and `π/2`, unit variances (leaves `(1,0)` and `(0,1)`).  Each informative
component has propagated variance `(1 - 1²)·1 = 0` and is dropped; both accumulators keep only a
zero value, so the mean is reported as `0 ± 0` although the vector sum points along `π/4`. -/
theorem direction_counterexample :
    let l : List (MeanRad.Entry ℚ) := [⟨⟨0, 1⟩, 1, 0⟩, ⟨⟨0, 1⟩, 0, 1⟩]
    (∀ at2, (MeanRad.accumulate l).get at2 = ⟨0, 0⟩) ∧
    ((l.map (fun e => e.c / e.d.var)).sum = 1 ∧ (l.map (fun e => e.s / e.d.var)).sum = 1) := by
  refine ⟨fun at2 => ?_, ?_⟩
  · simp [MeanRad.accumulate, MeanRad.addEntry, MeanRad.empty, MeanEst.empty, MeanEst.addEst, Est.cosE, Est.sinE,
      MeanRad.get]
  · simp
/-- what does hold: the two accumulators are the inverse-variance weighted means of the cosines
and of the sines with their *propagated* variances -/
theorem direction_partial (l : List (MeanRad.Entry K)) :
    (MeanRad.accumulate l).cosine.normVal
      = (((cosList l).filter (fun d => d.var ≠ 0)).map (fun d => d.val / d.var)).sum ∧
    (MeanRad.accumulate l).sine.normVal
      = (((sinList l).filter (fun d => d.var ≠ 0)).map (fun d => d.val / d.var)).sum := by
  rw [(rad_accumulate_components l).1, (rad_accumulate_components l).2]
  exact ⟨accumulate_normVal _, accumulate_normVal _⟩

/-! non-vacuity -/
example : (MeanEst.accumulate [(⟨1, 1⟩ : Est ℚ), ⟨3, 1/2⟩, ⟨7, 0⟩]).get = ⟨7/3, 1/3⟩ := by
  simp [MeanEst.accumulate, MeanEst.addEst, MeanEst.empty, MeanEst.get]; norm_num

end Epsic.C12
