import EpsicProofs.FieldArith
namespace Epsic.C12
end Epsic.C12
