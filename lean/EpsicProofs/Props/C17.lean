import EpsicProofs.FieldArith
import EpsicModel.Cli
/-! # C17 — the command-line simulator builds the requested model and reports its theory

`Cli.run` is the `getopt` loop of `src/epsic.cpp` over the (option, argument) pairs, `Cli.step` its body,
`Cli.stackOf` is `mode_setup::setup_mode`.  The theorems hold for **every** sequence of options and every
choice of the text-conversion leaves (`atof`, `atoi`, `sscanf`, the validity test). -/
set_option linter.unusedVariables false
set_option linter.unusedSectionVars false
namespace Epsic.C17
open Epsic Epsic.Cli
variable {α : Type} [Arith α]

/-! ## `B`-prefix routing -/
/-- one option whose argument starts with `B` leaves the first mode's setup untouched … -/
theorem step_B_keeps_A (L : Leaves α) (c c' : Config α) (o : Char) (arg : String)
    (hB : (route arg).1 = true) (h : step L c o arg = .ok c') : c'.a = c.a := by
  unfold step at h
  simp only [hB] at h
  split at h <;> first
    | (cases h; rfl)
    | (split at h
       · cases h
       · split at h
         · cases h
         · cases h; simp [updSetup])
    | (cases h; simp [updSetup])
    | cases h
/-- … and one whose argument does not leaves the second mode's setup untouched -/
theorem step_plain_keeps_B (L : Leaves α) (c c' : Config α) (o : Char) (arg : String)
    (hB : (route arg).1 = false) (h : step L c o arg = .ok c') : c'.b = c.b := by
  unfold step at h
  simp only [hB] at h
  split at h <;> first
    | (cases h; rfl)
    | (split at h
       · cases h
       · split at h
         · cases h
         · cases h; simp [updSetup])
    | (cases h; simp [updSetup])
    | cases h

/-- **arguments prefixed by `B` configure the second mode only**: whatever the sequence, if every
argument in it is `B`-prefixed the first mode's setup is the one before -/
theorem run_all_B_keeps_A (L : Leaves α) (args : List (Char × String)) (c c' : Config α)
    (hall : ∀ p ∈ args, (route p.2).1 = true) (h : run L c args = .ok c') : c'.a = c.a := by
  induction args generalizing c with
  | nil => simp [run] at h; cases h; rfl
  | cons p ps ih =>
    obtain ⟨o, a⟩ := p
    simp only [run] at h
    cases hs : step L c o a with
    | ok c1 =>
      rw [hs] at h
      have h1 := step_B_keeps_A L c c1 o a (hall (o, a) (by simp)) hs
      rw [ih c1 (fun q hq => hall q (by simp [hq])) h, h1]
    | invalidStokes => rw [hs] at h; cases h
    | parseError => rw [hs] at h; cases h
    | usage => rw [hs] at h; cases h
/-- **unprefixed arguments configure the first mode only** -/
theorem run_all_plain_keeps_B (L : Leaves α) (args : List (Char × String)) (c c' : Config α)
    (hall : ∀ p ∈ args, (route p.2).1 = false) (h : run L c args = .ok c') : c'.b = c.b := by
  induction args generalizing c with
  | nil => simp [run] at h; cases h; rfl
  | cons p ps ih =>
    obtain ⟨o, a⟩ := p
    simp only [run] at h
    cases hs : step L c o a with
    | ok c1 =>
      rw [hs] at h
      have h1 := step_plain_keeps_B L c c1 o a (hall (o, a) (by simp)) hs
      rw [ih c1 (fun q hq => hall q (by simp [hq])) h, h1]
    | invalidStokes => rw [hs] at h; cases h
    | parseError => rw [hs] at h; cases h
    | usage => rw [hs] at h; cases h

/-- what each per-mode option writes, and where: the routed setup receives the converted value of the
argument without its prefix -/
theorem step_l (L : Leaves α) (c : Config α) (arg : String) :
    step L c 'l' arg = .ok (updSetup c (route arg).1 (fun s => { s with beta := L.atof (route arg).2 })) := by
  simp [step]
theorem step_b (L : Leaves α) (c : Config α) (arg : String) :
    step L c 'b' arg = .ok (updSetup c (route arg).1 (fun s => { s with smoothMod := L.atoi (route arg).2 })) := by
  simp [step]
theorem route_B (s : List Char) : route (String.ofList ('B' :: s)) = (true, String.ofList s) := by
  simp [route]
theorem step_r (L : Leaves α) (c : Config α) (arg : String) :
    step L c 'r' arg = .ok (updSetup c (route arg).1 (fun s => { s with squareMod := L.atoi (route arg).2 })) := by
  simp [step]
/-! ## validity of `-s` -/
/-- **a Stokes vector with `|p| > I` is rejected** wherever it appears, provided the options before it were accepted -/
theorem run_rejects (L : Leaves α) (pre post : List (Char × String)) (c c1 : Config α) (arg : String) (v : Vec 4 α)
    (hpre : run L c pre = .ok c1) (hscan : L.scan4 (route arg).2 = some v) (hbad : L.invalid v = true) :
    ∃ o, run L c (pre ++ ('s', arg) :: post) = o ∧ (∀ cfg, o ≠ .ok cfg) := by
  induction pre generalizing c with
  | nil =>
    simp only [run] at hpre; cases hpre
    refine ⟨.invalidStokes, ?_, fun cfg h => by cases h⟩
    simp [run, step, hscan, hbad]
  | cons p ps ih =>
    obtain ⟨o, a⟩ := p
    simp only [run, List.cons_append] at hpre ⊢
    cases hs : step L c o a with
    | ok c2 => rw [hs] at hpre; simp only []; exact ih c2 hpre
    | invalidStokes => rw [hs] at hpre; cases hpre
    | parseError => rw [hs] at hpre; cases hpre
    | usage => rw [hs] at hpre; cases hpre
/-- **an accepted invocation contains only valid Stokes vectors** -/
theorem run_ok_all_valid (L : Leaves α) (args : List (Char × String)) (c c' : Config α) (h : run L c args = .ok c') :
    ∀ arg, ('s', arg) ∈ args → ∃ v, L.scan4 (route arg).2 = some v ∧ L.invalid v = false := by
  induction args generalizing c with
  | nil => intro arg hm; simp at hm
  | cons p ps ih =>
    obtain ⟨o, a⟩ := p
    intro arg hm
    simp only [run] at h
    cases hs : step L c o a with
    | ok c1 =>
      rw [hs] at h
      simp only [List.mem_cons, Prod.mk.injEq] at hm
      rcases hm with ⟨rfl, rfl⟩ | hm
      · simp only [step] at hs
        cases hsc : L.scan4 (route arg).2 with
        | none => simp [hsc] at hs
        | some v =>
          by_cases hb : L.invalid v = true
          · simp [hsc, hb] at hs
          · exact ⟨v, rfl, by simpa using hb⟩
      · exact ih c1 h arg hm
    | invalidStokes => rw [hs] at h; cases h
    | parseError => rw [hs] at h; cases h
    | usage => rw [hs] at h; cases h

/-! ## the sample type: the last of several flags wins -/
theorem last_dual_wins (L : Leaves α) (c : Config α) (f : String) :
    (∃ c', step L c 'S' "" = .ok c' ∧ c'.dual = .superposed) ∧
    (∃ c', step L c 'C' f = .ok c' ∧ c'.dual = .composite (L.atof f)) ∧
    (∃ c', step L c 'D' f = .ok c' ∧ c'.dual = .disjoint (L.atof f)) ∧
    (∃ c', step L c 'c' f = .ok c' ∧ c'.dual = .coherent (L.atof f)) := by
  refine ⟨⟨{ c with dual := .superposed }, by simp [step], rfl⟩, ⟨{ c with dual := .composite (L.atof f) }, by simp [step], rfl⟩,
    ⟨{ c with dual := .disjoint (L.atof f) }, by simp [step], rfl⟩, ⟨{ c with dual := .coherent (L.atof f) }, by simp [step], rfl⟩⟩

/-! ## `setup_mode`: the decorator stack -/
section stack
variable {K : Type} [Field K] [DecidableEq K]
/-- without `-l` and without `-k` nothing is modulated, whatever `-b` / `-r` say -/
theorem stack_plain (s : Setup K) (h : s.beta = 0) : stackOf false s = .plain := by
  simp [stackOf, h, fieldArith]
/-- log-normal alone -/
theorem stack_modulated (cov : Bool) (s : Setup K) (hb : s.beta ≠ 0) (h1 : s.smoothMod ≤ 1) (h2 : s.squareMod ≤ 1) :
    stackOf cov s = .modulated s.beta := by
  have e : Arith.eq0 s.beta = false := by simp [fieldArith, hb]
  simp [stackOf, e, hb, Nat.not_lt.mpr h1, Nat.not_lt.mpr h2]
/-- boxcar smoothing of the modulator -/
theorem stack_boxcar (cov : Bool) (s : Setup K) (hb : s.beta ≠ 0) (h1 : 1 < s.smoothMod) (h2 : s.squareMod ≤ 1) :
    stackOf cov s = .boxcar s.beta s.smoothMod := by
  have e : Arith.eq0 s.beta = false := by simp [fieldArith, hb]
  simp [stackOf, e, hb, h1, Nat.not_lt.mpr h2]
/-- rectangular impulses, built on the unsmoothed modulator (so they replace a boxcar requested with them) -/
theorem stack_square (cov : Bool) (s : Setup K) (hb : s.beta ≠ 0) (h2 : 1 < s.squareMod) :
    stackOf cov s = .square s.beta s.squareMod := by
  have e : Arith.eq0 s.beta = false := by simp [fieldArith, hb]
  simp [stackOf, e, hb, h2]
/-- a covariant mode without `-l` keeps the coordinator's default modulation index 1 -/
theorem stack_covariant_default (s : Setup K) (hb : s.beta = 0) (h1 : s.smoothMod ≤ 1) (h2 : s.squareMod ≤ 1) :
    stackOf true s = .modulated 1 := by
  simp [stackOf, hb, fieldArith, Nat.not_lt.mpr h1, Nat.not_lt.mpr h2]
end stack

/-! non-vacuity: a concrete invocation -/
def demoLeaves : Leaves ℚ where
  atof s := if s == "0.5" then 1/2 else if s == "2" then 2 else 0
  atoi s := if s == "3" then 3 else 0
  scan4 s := if s == "1,0,0,0" then some (fun i => if i.val = 0 then 1 else 0) else none
  invalid v := decide (v 0 < 0)
example : ∃ c, run demoLeaves Config.default [('S', ""), ('l', "0.5"), ('l', "B2"), ('b', "B3")] = .ok c ∧
    c.a.beta = 1/2 ∧ c.b.beta = 2 ∧ c.b.smoothMod = 3 ∧ c.a.smoothMod = 0 := by
  refine ⟨_, rfl, ?_, ?_, ?_, ?_⟩ <;> decide +kernel
end Epsic.C17
