import EpsicModel.Cli
/-! # C17 — the command-line simulator builds the requested model -/
namespace Epsic.C17
open Epsic Epsic.Cli
theorem route_plain (s : String) (h : s.startsWith "B" = false) : route s = (false, s) := by simp [route, h]
end Epsic.C17
