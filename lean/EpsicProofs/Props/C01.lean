import EpsicProofs.FieldArith
namespace Epsic.C01
end Epsic.C01
