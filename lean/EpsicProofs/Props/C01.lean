import EpsicProofs.Lemmas.GaussE
import EpsicProofs.Lemmas.Stokes
import EpsicProofs.Props.C09
import EpsicProofs.Props.C03
/-! # C01 — a mode's generated fields reproduce its Stokes mean and predicted covariance

`Sim.getField P g` is `mode::get_field` (four deviates `g`, `rms = ½`, polarizer `P`);
`Spinor.computeStokes` is `compute_stokes`; `Sim.modeCov S = Minkowski.outer S S` is the covariance the
mode reports.  For **any** expectation functional with standard-normal moments of order ≤ 4
(`GaussE 4 K`) and **any** polarizer with `P P† = convert(natural S)` (in particular the Hermitian
square root the code computes): the ensemble mean of the Stokes parameters is `S` and their ensemble
covariance is `Minkowski.outer S S`. -/
set_option linter.unusedSectionVars false
set_option linter.unusedVariables false
namespace Epsic.C01
open Epsic Matrix
variable {K : Type} [Field K] [DecidableEq K] [CharZero K]

/-- real 4-vector of a field instance: `(Re x, Im x, Re y, Im y)` -/
def realField (e : Spinor K) : Fin 4 → K := fun i => match i with | 0 => e.x.re | 1 => e.x.im | 2 => e.y.re | 3 => e.y.im
/-- the real 4×4 matrix taking the deviates to the real field vector -/
def Tmat (P : Jones K) : Matrix (Fin 4) (Fin 4) K := fun i j => (1/2 : K) * match i, j with
  | 0, 0 => P.j00.re | 0, 1 => -P.j00.im | 0, 2 => P.j01.re | 0, 3 => -P.j01.im
  | 1, 0 => P.j00.im | 1, 1 => P.j00.re | 1, 2 => P.j01.im | 1, 3 => P.j01.re
  | 2, 0 => P.j10.re | 2, 1 => -P.j10.im | 2, 2 => P.j11.re | 2, 3 => -P.j11.im
  | 3, 0 => P.j10.im | 3, 1 => P.j10.re | 3, 2 => P.j11.im | 3, 3 => P.j11.re
/-- the four quadratic forms of field detection: `S_k = rᵀ Σ_k r` -/
def sig (k : Fin 4) : Matrix (Fin 4) (Fin 4) K := fun i j => match k, i, j with
  | 0, 0, 0 => 1 | 0, 1, 1 => 1 | 0, 2, 2 => 1 | 0, 3, 3 => 1
  | 1, 0, 0 => 1 | 1, 1, 1 => 1 | 1, 2, 2 => -1 | 1, 3, 3 => -1
  | 2, 0, 2 => 1 | 2, 2, 0 => 1 | 2, 1, 3 => 1 | 2, 3, 1 => 1
  | 3, 0, 3 => 1 | 3, 3, 0 => 1 | 3, 1, 2 => -1 | 3, 2, 1 => -1
  | _, _, _ => 0
/-- the covariance of the real field vector when `P P† = convert(natural S)` -/
def Wmat (S : Stokes K) : Matrix (Fin 4) (Fin 4) K := fun i j => (1/4 : K) * match i, j with
  | 0, 0 => S 0 + S 1 | 0, 2 => S 2 | 0, 3 => S 3
  | 1, 1 => S 0 + S 1 | 1, 2 => -S 3 | 1, 3 => S 2
  | 2, 0 => S 2 | 2, 1 => -S 3 | 2, 2 => S 0 - S 1
  | 3, 0 => S 3 | 3, 1 => S 2 | 3, 3 => S 0 - S 1
  | _, _ => 0

def quadF (A : Matrix (Fin 4) (Fin 4) K) (x : Fin 4 → K) : K := x ⬝ᵥ (A *ᵥ x)
theorem quadF_eq_sum (A : Matrix (Fin 4) (Fin 4) K) (x : Fin 4 → K) :
    quadF A x = ∑ i, ∑ j, A i j * (x i * x j) := by
  simp only [quadF, dotProduct, Matrix.mulVec, Finset.mul_sum]
  apply Finset.sum_congr rfl; intro i _; apply Finset.sum_congr rfl; intro j _; ring
theorem quadF_lin (A T : Matrix (Fin 4) (Fin 4) K) (g : Fin 4 → K) : quadF A (T *ᵥ g) = quadF (Tᵀ * A * T) g := by
  simp only [quadF]
  rw [Matrix.mulVec_mulVec, ← Matrix.mulVec_mulVec, Matrix.dotProduct_mulVec, Matrix.vecMul_mulVec,
    ← Matrix.dotProduct_mulVec, Matrix.mulVec_mulVec]

/-- the generated field is linear in the deviates -/
theorem realField_getField (P : Jones K) (g : Fin 4 → K) : realField (Sim.getField P g) = Tmat P *ᵥ g := by
  funext i
  fin_cases i <;> simp [realField, Sim.getField, epsic, Tmat, Matrix.mulVec, dotProduct, Fin.sum_univ_four] <;> ring
/-- field detection is the quadratic form `Σ_k` of the real field vector -/
theorem computeStokes_eq (e : Spinor K) (k : Fin 4) : Spinor.computeStokes e k = quadF (sig k) (realField e) := by
  fin_cases k <;>
    simp [Spinor.computeStokes, quadF, sig, realField, Matrix.mulVec, dotProduct, Fin.sum_univ_four, epsic, Cx.norm_def] <;> ring
/-- hence each instantaneous Stokes parameter is a quadratic form in the deviates -/
theorem stokes_quadratic (P : Jones K) (g : Fin 4 → K) (k : Fin 4) :
    Spinor.computeStokes (Sim.getField P g) k = quadF ((Tmat P)ᵀ * sig k * Tmat P) g := by
  rw [computeStokes_eq, realField_getField, quadF_lin]

/-- what "the polarizer is a root of the coherency matrix" means entry-wise -/
def IsRoot (P : Jones K) (S : Stokes K) : Prop :=
  P * P.herm = Pauli.convertHR (Pauli.natural Basis.linear S)

theorem TT_eq_W (P : Jones K) (S : Stokes K) (h : IsRoot P S) : Tmat P * (Tmat P)ᵀ = Wmat S := by
  have h00 := congrArg (fun j => j.j00.re) h
  have h11 := congrArg (fun j => j.j11.re) h
  have hc := congrArg (fun j => j.j01.re) h
  have hd := congrArg (fun j => j.j01.im) h
  simp [epsic] at h00 h11 hc hd
  funext i j
  rw [Matrix.mul_apply, Fin.sum_univ_four]
  fin_cases i <;> fin_cases j <;> simp [Tmat, Wmat, Matrix.transpose_apply] <;>
  first
  | ring1
  | linear_combination (1/4 : K) * h00
  | linear_combination (1/4 : K) * h11
  | linear_combination (1/4 : K) * hc
  | linear_combination (1/4 : K) * hd
  | linear_combination (-1/4 : K) * hd

/-- traces against `W` reproduce the Stokes parameters … -/
theorem trace_sig_W (S : Stokes K) (k : Fin 4) : Matrix.trace (sig k * Wmat S) = S k := by
  simp only [Matrix.trace, Matrix.diag, Matrix.mul_apply, Fin.sum_univ_four]
  fin_cases k <;> simp [sig, Wmat] <;> ring
set_option maxHeartbeats 6400000 in
/-- … and the fourth-moment traces are the Minkowski outer product -/
theorem trace_sig_W_sig_W (S : Stokes K) (k l : Fin 4) :
    2 * Matrix.trace (sig k * Wmat S * (sig l * Wmat S)) = Minkowski.outer S S k l := by
  simp only [Matrix.trace, Matrix.diag, Matrix.mul_apply, Fin.sum_univ_four]
  fin_cases k <;> fin_cases l <;> simp [sig, Wmat, Minkowski.outer, Minkowski.inner] <;> ring
theorem sig_symm (k : Fin 4) : (sig k : Matrix (Fin 4) (Fin 4) K)ᵀ = sig k := by
  funext i j; fin_cases k <;> fin_cases i <;> fin_cases j <;> simp [sig, Matrix.transpose_apply]

/-- **ensemble mean of the generated Stokes parameters = the requested vector** -/
theorem mean_stokes (G : GaussE 4 K) (P : Jones K) (S : Stokes K) (h : IsRoot P S) (k : Fin 4) :
    G.E (fun g => Spinor.computeStokes (Sim.getField P g) k) = S k := by
  simp only [stokes_quadratic, quadF_eq_sum]
  rw [G.quad, Matrix.trace_mul_comm, ← Matrix.mul_assoc, TT_eq_W P S h, Matrix.trace_mul_comm, trace_sig_W]
/-- **ensemble covariance of the generated Stokes parameters = the reported covariance matrix** -/
theorem cov_stokes (G : GaussE 4 K) (P : Jones K) (S : Stokes K) (h : IsRoot P S) (k l : Fin 4) :
    G.E (fun g => Spinor.computeStokes (Sim.getField P g) k * Spinor.computeStokes (Sim.getField P g) l) - S k * S l
      = Sim.modeCov S k l := by
  simp only [stokes_quadratic, quadF_eq_sum]
  rw [G.quad_quad]
  have hk : Matrix.trace ((Tmat P)ᵀ * sig k * Tmat P) = S k := by
    rw [Matrix.trace_mul_comm, ← Matrix.mul_assoc, TT_eq_W P S h, Matrix.trace_mul_comm, trace_sig_W]
  have hl : Matrix.trace ((Tmat P)ᵀ * sig l * Tmat P) = S l := by
    rw [Matrix.trace_mul_comm, ← Matrix.mul_assoc, TT_eq_W P S h, Matrix.trace_mul_comm, trace_sig_W]
  have hT : ((Tmat P)ᵀ * sig l * Tmat P)ᵀ = (Tmat P)ᵀ * sig l * Tmat P := by
    rw [Matrix.transpose_mul, Matrix.transpose_mul, Matrix.transpose_transpose, sig_symm, Matrix.mul_assoc]
  have hkl : Matrix.trace ((Tmat P)ᵀ * sig k * Tmat P * ((Tmat P)ᵀ * sig l * Tmat P))
      = Matrix.trace (sig k * Wmat S * (sig l * Wmat S)) := by
    rw [← TT_eq_W P S h]
    calc Matrix.trace ((Tmat P)ᵀ * sig k * Tmat P * ((Tmat P)ᵀ * sig l * Tmat P))
        = Matrix.trace ((Tmat P)ᵀ * (sig k * (Tmat P * (Tmat P)ᵀ) * (sig l * Tmat P))) := by
          simp only [Matrix.mul_assoc]
      _ = Matrix.trace (sig k * (Tmat P * (Tmat P)ᵀ) * (sig l * Tmat P) * (Tmat P)ᵀ) := Matrix.trace_mul_comm _ _
      _ = Matrix.trace (sig k * (Tmat P * (Tmat P)ᵀ) * (sig l * (Tmat P * (Tmat P)ᵀ))) := by
          simp only [Matrix.mul_assoc]
  rw [hT, hk, hl, hkl]
  have := trace_sig_W_sig_W S k l
  simp only [Sim.modeCov]
  linear_combination this

/-- the polarizer the code builds is such a root: `sqrt(natural S)` squares back (C09) and is Hermitian -/
theorem setStokes_isRoot (sqrtFn : K → R K) [LinearOrder K] [IsStrictOrderedRing K]
    (hs : C10.SqrtSpec sqrtFn) (o : Quat.OrdLeaves K) (ho : C09.OrdSpec o)
    (S : Stokes K) (P : Jones K) (hI : 0 ≤ S 0) (hdet : 0 ≤ Quat.detH (Pauli.natural Basis.linear S))
    (h : Sim.setStokes sqrtFn o Basis.linear S = .ok P) : IsRoot P S := by
  unfold Sim.setStokes at h
  cases hr : Quat.sqrtH sqrtFn o (Pauli.natural Basis.linear S) with
  | error e => simp [hr, bind, Except.bind] at h
  | ok r =>
    simp only [hr, bind, Except.bind, pure, Except.pure] at h
    have hP : P = Pauli.convertHR r := by cases h; rfl
    have hs0 : 0 ≤ (Pauli.natural Basis.linear S).s0 := by simpa [epsic] using hI
    have := C09.sqrt_sq_matrix sqrtFn hs o ho _ r hs0 hdet hr
    unfold IsRoot
    rw [hP, C03.convertHR_hermitian]; exact this

/-- successive instances use disjoint deviates; the reported cross-covariance: zero at every
non-zero lag, the covariance at lag zero -/
theorem crosscov_lags (S : Stokes K) : Sim.modeXCov (Sim.modeCov S) 0 = Sim.modeCov S ∧
    ∀ l, 0 < l → Sim.modeXCov (Sim.modeCov S) l = Mat.ofScalar 0 := by
  constructor
  · simp [Sim.modeXCov]
  · intro l hl; simp [Sim.modeXCov, hl]

/-! non-vacuity: the cubature with nodes `0, ±1, ±2` and weights `1/2, 1/6, 1/12` per deviate has the
required moments; here the one-deviate moment equations it rests on -/
example : (2 * ((1:ℚ)/6 * 1 + 1/12 * 4) = 1) ∧ (2 * ((1:ℚ)/6 * 1 + 1/12 * 16) = 3) ∧ ((1:ℚ)/2 + 2 * (1/6 + 1/12) = 1) := by
  norm_num
example : IsRoot (⟨⟨1, 0⟩, ⟨0, 0⟩, ⟨0, 0⟩, ⟨1, 0⟩⟩ : Jones ℚ) (v4 1 0 0 0) := by
  unfold IsRoot; ext <;> simp [epsic]

end Epsic.C01
