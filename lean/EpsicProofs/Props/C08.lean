import EpsicProofs.FieldArith
namespace Epsic.C08
end Epsic.C08
