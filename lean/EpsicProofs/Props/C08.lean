import EpsicProofs.FieldArith
import Mathlib.Algebra.Order.Field.Basic
import Mathlib.Tactic.Linarith
import Mathlib.Tactic.Positivity
/-! # C08 — covariant mode pairs deliver jointly drawn factors

`Sim.Coord.request` is `covariant_mode::modulation()` (queue per mode, `coordinator->get()` when the
queue is empty).  The pairing theorem holds for **every** interleaving of requests of **every** length. -/
set_option linter.unusedSectionVars false
set_option linter.unusedVariables false
namespace Epsic.C08
open Epsic Epsic.Sim

section pairing
variable {β : Type}

/-- one request applied to (state, delivered-to-A, delivered-to-B); `src k` is the `k`-th joint draw -/
def stepFn (src : Nat → β × β) (acc : Coord β × List β × List β) (isB : Bool) : Coord β × List β × List β :=
  let r := acc.1.request isB (src acc.1.draws.length)
  match r.2.1 with
  | none => (r.1, acc.2.1, acc.2.2)
  | some x => if isB then (r.1, acc.2.1, acc.2.2 ++ [x]) else (r.1, acc.2.1 ++ [x], acc.2.2)
/-- run a list of requests; returns the final state and the values delivered to A and to B, in order -/
def run (src : Nat → β × β) (reqs : List Bool) : Coord β × List β × List β :=
  reqs.foldl (stepFn src) (⟨[], [], []⟩, [], [])

/-- the invariant: the draws made so far are the first `n` of the source; what A (B) has received
followed by what is still queued for A (B) is the list of first (second) components of those draws -/
def Inv (src : Nat → β × β) (st : Coord β × List β × List β) : Prop :=
  st.1.draws = (List.range st.1.draws.length).map src ∧
  st.2.1 ++ st.1.qA = st.1.draws.map Prod.fst ∧
  st.2.2 ++ st.1.qB = st.1.draws.map Prod.snd

theorem inv_init (src : Nat → β × β) : Inv src (⟨[], [], []⟩, [], []) := by simp [Inv]

theorem inv_step (src : Nat → β × β) (st : Coord β × List β × List β) (isB : Bool) (h : Inv src st) :
    Inv src (stepFn src st isB) := by
  obtain ⟨c, da, db⟩ := st
  obtain ⟨hd, ha, hb⟩ := h
  simp only at hd ha hb
  have hrange : ∀ n : Nat, List.map src (List.range (n + 1)) = List.map src (List.range n) ++ [src n] := by
    intro n; simp [List.range_succ]
  cases isB
  · -- request from A
    cases hq : c.qA with
    | nil =>
      simp only [stepFn, Coord.request, hq, List.isEmpty_nil, Bool.false_eq_true, ↓reduceIte, List.nil_append,
        List.head?_cons, List.tail_cons, Inv]
      refine ⟨?_, ?_, ?_⟩
      · simp only [List.length_append, List.length_singleton, hrange]; rw [← hd]
      · rw [hq] at ha; simp [← ha]
      · simp [← hb]
    | cons x xs =>
      simp only [stepFn, Coord.request, hq, List.isEmpty_cons, Bool.false_eq_true, ↓reduceIte, List.head?_cons, List.tail_cons, Inv]
      refine ⟨hd, ?_, hb⟩
      rw [hq] at ha; simp [← ha]
  · -- request from B
    cases hq : c.qB with
    | nil =>
      simp only [stepFn, Coord.request, hq, List.isEmpty_nil, ↓reduceIte, List.nil_append, List.head?_cons, List.tail_cons, Inv]
      refine ⟨?_, ?_, ?_⟩
      · simp only [List.length_append, List.length_singleton, hrange]; rw [← hd]
      · simp [← ha]
      · rw [hq] at hb; simp [← hb]
    | cons x xs =>
      simp only [stepFn, Coord.request, hq, List.isEmpty_cons, Bool.false_eq_true, ↓reduceIte, List.head?_cons, List.tail_cons, Inv]
      refine ⟨hd, ha, ?_⟩
      rw [hq] at hb; simp [← hb]

theorem inv_run (src : Nat → β × β) (reqs : List Bool) : Inv src (run src reqs) := by
  have key : ∀ (l : List Bool) (st : Coord β × List β × List β), Inv src st → Inv src (l.foldl (stepFn src) st) := by
    intro l
    induction l with
    | nil => intro st h; exact h
    | cons r rs ih => intro st h; exact ih _ (inv_step src st r h)
  exact key reqs _ (inv_init src)

/-- **pairing, for every interleaving**: the `k`-th factor delivered to A and the `k`-th delivered to
B are the two components of draw `k`; nothing is repeated, dropped or reordered -/
theorem pairing (src : Nat → β × β) (reqs : List Bool) (k : Nat) :
    (∀ x, (run src reqs).2.1[k]? = some x → x = (src k).1) ∧
    (∀ y, (run src reqs).2.2[k]? = some y → y = (src k).2) := by
  obtain ⟨hd, ha, hb⟩ := inv_run src reqs
  set st := run src reqs
  have hA : ∀ x, st.2.1[k]? = some x → (st.1.draws.map Prod.fst)[k]? = some x := by
    intro x hx; rw [← ha, List.getElem?_append_left (by
      have := List.getElem?_eq_some_iff.mp hx; exact this.1)]; exact hx
  have hB : ∀ y, st.2.2[k]? = some y → (st.1.draws.map Prod.snd)[k]? = some y := by
    intro y hy; rw [← hb, List.getElem?_append_left (by
      have := List.getElem?_eq_some_iff.mp hy; exact this.1)]; exact hy
  have hidx : ∀ (z : β) (f : β × β → β), (st.1.draws.map f)[k]? = some z → z = f (src k) := by
    intro z f hz
    rw [hd] at hz
    simp only [List.map_map, List.getElem?_map, Option.map_eq_some_iff] at hz
    obtain ⟨a, ha1, ha2⟩ := hz
    obtain ⟨hlt, heq⟩ := List.getElem?_eq_some_iff.mp ha1
    simp only [List.getElem_range] at heq
    rw [← ha2, ← heq]; rfl
  exact ⟨fun x hx => hidx x Prod.fst (hA x hx), fun y hy => hidx y Prod.snd (hB y hy)⟩
/-- every draw is enqueued exactly once for each mode: delivered ++ pending = the draws, in order -/
theorem each_draw_once (src : Nat → β × β) (reqs : List Bool) :
    (run src reqs).2.1 ++ (run src reqs).1.qA = (run src reqs).1.draws.map Prod.fst ∧
    (run src reqs).2.2 ++ (run src reqs).1.qB = (run src reqs).1.draws.map Prod.snd :=
  ⟨(inv_run src reqs).2.1, (inv_run src reqs).2.2⟩
end pairing

/-! ## the generator shared with other consumers

In the simulator every mode draws from the same `BoxMuller` object, so a joint draw may start at any position of the
deviate stream (`d p` is the `p`-th deviate the generator hands out, whoever asks: `C18.fresh_generator`, `C18.calls_append`). -/
section shared
variable {β : Type}

def SInv (d : Nat → β) (joint : β → β → β × β) (s : Shared β) : Prop :=
  s.c.draws = s.starts.map (fun p => joint (d p) (d (p + 1))) ∧
  s.gotA ++ s.c.qA = s.c.draws.map Prod.fst ∧
  s.gotB ++ s.c.qB = s.c.draws.map Prod.snd ∧
  (∀ p ∈ s.starts, p + 2 ≤ s.pos) ∧
  s.starts.Pairwise (fun p q => p + 2 ≤ q)

theorem sinv_init (d : Nat → β) (joint : β → β → β × β) : SInv d joint Shared.init := by
  simp [SInv, Shared.init]

theorem sinv_step (d : Nat → β) (joint : β → β → β × β) (s : Shared β) (op : Option Bool) (h : SInv d joint s) :
    SInv d joint (sharedStep d joint s op) := by
  obtain ⟨c, ga, gb, pos, starts⟩ := s
  obtain ⟨hd, ha, hb, hp, hw⟩ := h
  simp only at hd ha hb hp hw
  cases op with
  | none =>
    refine ⟨hd, ha, hb, ?_, hw⟩
    intro p hpm; have := hp p hpm; simp only [sharedStep]; omega
  | some isB =>
    have hpw : (starts ++ [pos]).Pairwise (fun p q => p + 2 ≤ q) := by
      rw [List.pairwise_append]
      refine ⟨hw, List.pairwise_singleton _ _, ?_⟩
      intro a ha' b hb'; simp only [List.mem_singleton] at hb'; subst hb'; exact hp a ha'
    have hpb : ∀ p ∈ starts ++ [pos], p + 2 ≤ pos + 2 := by
      intro p hpm; rcases List.mem_append.mp hpm with h1 | h1
      · have := hp p h1; omega
      · simp only [List.mem_singleton] at h1; omega
    cases isB
    · cases hq : c.qA with
      | nil =>
        simp only [sharedStep, Coord.request, hq, List.isEmpty_nil, Bool.false_eq_true, ↓reduceIte, List.nil_append,
          List.head?_cons, List.tail_cons, SInv]
        refine ⟨?_, ?_, ?_, hpb, hpw⟩
        · simp [hd]
        · rw [hq] at ha; simp [← ha]
        · simp [← hb]
      | cons x xs =>
        simp only [sharedStep, Coord.request, hq, List.isEmpty_cons, Bool.false_eq_true, ↓reduceIte, List.head?_cons, List.tail_cons, SInv]
        refine ⟨hd, ?_, hb, hp, hw⟩
        rw [hq] at ha; simp [← ha]
    · cases hq : c.qB with
      | nil =>
        simp only [sharedStep, Coord.request, hq, List.isEmpty_nil, ↓reduceIte, List.nil_append, List.head?_cons, List.tail_cons, SInv]
        refine ⟨?_, ?_, ?_, hpb, hpw⟩
        · simp [hd]
        · simp [← ha]
        · rw [hq] at hb; simp [← hb]
      | cons x xs =>
        simp only [sharedStep, Coord.request, hq, List.isEmpty_cons, Bool.false_eq_true, ↓reduceIte, List.head?_cons, List.tail_cons, SInv]
        refine ⟨hd, ha, ?_, hp, hw⟩
        rw [hq] at hb; simp [← hb]

theorem sinv_run (d : Nat → β) (joint : β → β → β × β) (ops : List (Option Bool)) : SInv d joint (sharedRun d joint ops) := by
  have key : ∀ (l : List (Option Bool)) (s : Shared β), SInv d joint s → SInv d joint (l.foldl (sharedStep d joint) s) := by
    intro l
    induction l with
    | nil => intro s h; exact h
    | cons r rs ih => intro s h; exact ih _ (sinv_step d joint s r h)
  exact key ops _ (sinv_init d joint)

/-- **pairing on a shared generator**: whatever a third consumer takes from the generator in between, the `k`-th factor
delivered to A and the `k`-th delivered to B are the two components of one joint draw, made from two *consecutive* deviates
`d p`, `d (p+1)` of the stream, and no deviate serves two draws (the start positions are at least 2 apart) -/
theorem shared_pairing (d : Nat → β) (joint : β → β → β × β) (ops : List (Option Bool)) (k : Nat) :
    let s := sharedRun d joint ops
    (∀ x, s.gotA[k]? = some x → ∃ p, s.starts[k]? = some p ∧ x = (joint (d p) (d (p + 1))).1) ∧
    (∀ y, s.gotB[k]? = some y → ∃ p, s.starts[k]? = some p ∧ y = (joint (d p) (d (p + 1))).2) ∧
    s.starts.Pairwise (fun p q => p + 2 ≤ q) ∧ (∀ p ∈ s.starts, p + 2 ≤ s.pos) := by
  intro s
  obtain ⟨hd, ha, hb, hp, hw⟩ := sinv_run d joint ops
  have hidx : ∀ (z : β) (f : β × β → β), (s.c.draws.map f)[k]? = some z → ∃ p, s.starts[k]? = some p ∧ z = f (joint (d p) (d (p + 1))) := by
    intro z f hz
    rw [hd] at hz
    simp only [List.map_map, List.getElem?_map, Option.map_eq_some_iff] at hz
    obtain ⟨p, hp1, hp2⟩ := hz
    exact ⟨p, hp1, hp2.symm⟩
  refine ⟨?_, ?_, hw, hp⟩
  · intro x hx
    apply hidx x Prod.fst
    rw [← ha, List.getElem?_append_left (List.getElem?_eq_some_iff.mp hx).1]; exact hx
  · intro y hy
    apply hidx y Prod.snd
    rw [← hb, List.getElem?_append_left (List.getElem?_eq_some_iff.mp hy).1]; exact hy

/-- non-vacuity: a third-party draw first (odd offset), then B, A, a third-party draw, A, B -/
example : (sharedRun (fun n => n) (fun a b => (10 * a, 100 * b)) [none, some true, some false, none, some false, some true]).starts = [1, 4]
  ∧ (sharedRun (fun n => n) (fun a b => (10 * a, 100 * b)) [none, some true, some false, none, some false, some true]).gotA = [10, 40]
  ∧ (sharedRun (fun n => n) (fun a b => (10 * a, 100 * b)) [none, some true, some false, none, some false, some true]).gotB = [200, 500] := by decide
end shared

/-! ## the matrix square root of the log-covariance -/
section root
variable {K : Type} [Field K] [LinearOrder K] [IsStrictOrderedRing K] [DecidableEq K]

/-- `((C + s I)/t)² = C` whenever `s² = det C` and `t² = tr C + 2 s ≠ 0` (Cayley–Hamilton) -/
theorem sqrt22_squares (c00 c01 c10 c11 s t : K) (hs : s * s = c00*c11 - c01*c10) (ht : t * t = c00 + c11 + 2 * s) (ht0 : t ≠ 0) :
    let m00 := (s + c00)/t; let m01 := (0 + c01)/t; let m10 := (0 + c10)/t; let m11 := (s + c11)/t
    m00*m00 + m01*m10 = c00 ∧ m00*m01 + m01*m11 = c01 ∧ m10*m00 + m11*m10 = c10 ∧ m10*m01 + m11*m11 = c11 := by
  have ht2 : t ^ 2 = c00 + c11 + 2 * s := by rw [sq]; exact ht
  refine ⟨?_, ?_, ?_, ?_⟩ <;> field_simp <;> rw [ht2] <;> nlinarith [hs]
/-- the model's `sqrt22` with exact leaves is that root -/
theorem sqrt22_model (sqrtF : K → K) (c00 c01 c10 c11 : K)
    (hs : sqrtF (c00*c11 - c01*c10) * sqrtF (c00*c11 - c01*c10) = c00*c11 - c01*c10)
    (ht : sqrtF (c00 + c11 + 2 * sqrtF (c00*c11 - c01*c10)) * sqrtF (c00 + c11 + 2 * sqrtF (c00*c11 - c01*c10))
      = c00 + c11 + 2 * sqrtF (c00*c11 - c01*c10))
    (ht0 : sqrtF (c00 + c11 + 2 * sqrtF (c00*c11 - c01*c10)) ≠ 0) :
    let r := Sim.sqrt22 sqrtF id c00 c01 c10 c11
    r.1*r.1 + r.2.1*r.2.2.1 = c00 ∧ r.1*r.2.1 + r.2.1*r.2.2.2 = c01 := by
  have := sqrt22_squares c00 c01 c10 c11 _ _ hs ht ht0
  simp only [Sim.sqrt22, id, two_eq, zero_eq] at this ⊢
  exact ⟨this.1, this.2.1⟩
/-- **edge definedness under adversarial rounding**: with the clamp, whatever value `d̃` the computed
determinant takes, the argument of the first root is non-negative; with a positive-definite-or-singular
log-covariance (`c00, c11 ≥ 0`, not both zero) the second root's argument is positive -/
theorem sqrt22_defined_any_rounding (dT c00 c11 s : K) (h00 : 0 ≤ c00) (h11 : 0 ≤ c11) (hpos : 0 < c00 + c11)
    (hs : 0 ≤ s) : 0 ≤ max dT 0 ∧ 0 < c00 + c11 + 2 * s := by
  constructor
  · exact le_max_right _ _
  · linarith
/-- without the clamp a determinant that rounds below zero has no real root -/
theorem no_root_of_negative (d r : K) (hd : d < 0) : r * r ≠ d := by
  intro h; nlinarith [mul_self_nonneg r]
theorem current_clamped : Sim.currentSqrt22Clamped = true := rfl

/-! ## acceptance: exactly the closed interval of admissible correlations -/
theorem accepted_iff (expF logF sqrtF : K → K) (clamp : K → K) (rho ls0 ls1 : K) :
    let beta0 := sqrtF (expF (ls0*ls0) - 1); let beta1 := sqrtF (expF (ls1*ls1) - 1)
    let maxC := (expF (ls0*ls1) - 1) / (beta0*beta1); let minC := (expF ((-ls0)*ls1) - 1) / (beta0*beta1)
    (∃ m, Sim.covBuild expF logF sqrtF (fun a b => decide (a > b)) (fun a b => decide (a < b)) clamp rho ls0 ls1 = .ok m)
      ↔ (minC ≤ rho ∧ rho ≤ maxC) := by
  intro beta0 beta1 maxC minC
  unfold Sim.covBuild
  simp only [one_eq, decide_eq_true_eq]
  constructor
  · rintro ⟨m, hm⟩
    split_ifs at hm with h1 h2
    exact ⟨not_lt.mp h2, not_lt.mp h1⟩
  · rintro ⟨h2, h1⟩
    rw [if_neg (not_lt.mpr h1), if_neg (not_lt.mpr h2)]
    exact ⟨_, rfl⟩
end root

/-! non-vacuity: the interleaving `A A B` -/
example : (run (fun k => ((k : ℚ), (k : ℚ) + 1/2)) [false, false, true]).2.1 = [0, 1] ∧
    (run (fun k => ((k : ℚ), (k : ℚ) + 1/2)) [false, false, true]).2.2 = [1/2] := by
  simp [run, stepFn, Coord.request]

end Epsic.C08
