import EpsicModel.Text
/-! # C19 — text output of values parses back to the same value

`Epsic.Text` models `std::istream` over a string and the extractors of `Vector.h`, `Estimate.h`,
`Conventions.C` (and `std::complex`).  Theorems (core Lean, no Mathlib):

* **round trips, for every value and every nesting**: `estimate_roundtrip`, `complex_roundtrip`,
  `vector_roundtrip` (generic in the element type, by induction on the number of elements), instantiated
  for `Vector<N,double>`, `Vector<N,Estimate>`, `Vector<N,complex>`; the number leaf is discharged by
  `printed_numOK`: every text of the shape the stream prints (`[-]digits[.digits][e±digits]`) is scanned
  back whole by the model of `num_get`, whatever follows it among `, ) +`.
  What remains a hypothesis: that text denotes a finite double (`overflows = false`), and that 17
  significant digits identify a double (a fact about `strtod`/`printf`, validated on the implementation).
* **a failed estimate extraction leaves the destination unchanged**, for every input text.
* **every documented spelling** of a convention maps to its enumerator; a numeric basis code outside
  `0..2` and a hand/argument code other than `±1` set the fail state, for every input text.
* the fail state is sticky through every primitive. -/
set_option linter.unusedSimpArgs false
set_option linter.unusedVariables false
namespace Epsic.C19
open Epsic Epsic.Text

def adv (s : IS) (x rest : List Char) : IS := { s with before := x.reverse ++ s.before, buf := rest }
theorem advance_eq (s : IS) (x rest : List Char) (h : s.buf = x ++ rest) : s.advance x.length = adv s x rest := by
  simp [IS.advance, adv, h]
@[simp] theorem good_adv (s : IS) (x rest : List Char) : (adv s x rest).good = s.good := rfl
@[simp] theorem buf_adv (s : IS) (x rest : List Char) : (adv s x rest).buf = rest := rfl
@[simp] theorem failed_adv (s : IS) (x rest : List Char) : (adv s x rest).failed = s.failed := rfl
theorem adv_adv (s : IS) (x y r1 r2 : List Char) : adv (adv s x r1) y r2 = adv s (x ++ y) r2 := by
  simp [adv]
theorem good_not_failed (s : IS) (h : s.good = true) : s.failed = false := by
  simp [IS.good, IS.failed] at *; simp [h]
theorem sentry_ok (s : IS) (c : Char) (r : List Char) (hg : s.good = true) (hb : s.buf = c :: r) (hc : isSpace c = false) :
    sentry true s = (true, s) := by
  simp [sentry, hg, hb, hc, IS.advance]
  cases s; simp_all
theorem sentry_noskip (s : IS) (hg : s.good = true) : sentry false s = (true, s) := by
  simp [sentry, hg]
theorem readChar_ok (s : IS) (old c : Char) (rest : List Char) (hg : s.good = true) (hb : s.buf = c :: rest)
    (hc : isSpace c = false) : readChar old s = (c, adv s [c] rest) := by
  simp [readChar, sentry_ok s c rest hg hb hc, hb, IS.advance, adv]
theorem expect_ok (s : IS) (c : Char) (rest : List Char) (hg : s.good = true) (hb : s.buf = c :: rest) :
    expect c s = (true, adv s [c] rest) := by
  simp [expect, peek, getc, sentry_noskip s hg, hb, IS.advance, adv]
structure NumOK (l rest : List Char) : Prop where
  nonspace : ∃ c l', l = c :: l' ∧ isSpace c = false
  scan : scanFloat (l ++ rest) = (l, rest)
  valid : validFloat l = true
  finite : overflows l = false
theorem extractFloat_ok (s : IS) (old l rest : List Char) (hg : s.good = true) (hb : s.buf = l ++ rest) (hn : NumOK l rest)
    (hr : rest ≠ []) : extractFloat old s = (l, adv s l rest) := by
  obtain ⟨c, l', hl, hc⟩ := hn.nonspace
  have hb' : s.buf = c :: (l' ++ rest) := by rw [hb, hl]; rfl
  have hre : rest.isEmpty = false := by cases rest <;> simp_all
  have hg' : s.eof = false := by simp [IS.good] at hg; simp [hg]
  unfold extractFloat
  rw [sentry_ok s c _ hg hb' hc]
  simp only [hb, hn.scan, hn.valid, hn.finite, if_true, advance_eq s l rest hb, hre]
  simp [adv, hg']

/-- **estimate round trip** -/
theorem estimate_roundtrip (ce : Bool) (s : IS) (dest : Lex × Lex) (v e rest : List Char) (hg : s.good = true)
    (hb : s.buf = estimateOut v e ++ rest)
    (hv : NumOK v ('+' :: '-' :: (e ++ ')' :: rest))) (he : NumOK e (')' :: rest)) :
    estimateIn ce dest s = ((v, e), adv s (estimateOut v e) rest) := by
  have hb1 : s.buf = '(' :: (v ++ '+' :: '-' :: (e ++ ')' :: rest)) := by simp [hb, estimateOut]
  have h1 := readChar_ok s '\x00' '(' _ hg hb1 (by decide)
  have h2 := extractFloat_ok (adv s ['('] _) ['?'] v _ (by simpa using hg) rfl hv (by simp)
  have h3 := expect_ok (adv (adv s ['('] (v ++ '+' :: '-' :: (e ++ ')' :: rest))) v ('+' :: '-' :: (e ++ ')' :: rest))) '+' _ (by simpa using hg) rfl
  have h4 := expect_ok (adv (adv (adv s ['('] (v ++ '+' :: '-' :: (e ++ ')' :: rest))) v ('+' :: '-' :: (e ++ ')' :: rest))) ['+'] ('-' :: (e ++ ')' :: rest))) '-' _ (by simpa using hg) rfl
  have h5 := extractFloat_ok (adv (adv (adv (adv s ['('] (v ++ '+' :: '-' :: (e ++ ')' :: rest))) v ('+' :: '-' :: (e ++ ')' :: rest))) ['+'] ('-' :: (e ++ ')' :: rest))) ['-'] (e ++ ')' :: rest)) ['?'] e _ (by simpa using hg) rfl he (by simp)
  have h6 := expect_ok (adv (adv (adv (adv (adv s ['('] (v ++ '+' :: '-' :: (e ++ ')' :: rest))) v ('+' :: '-' :: (e ++ ')' :: rest))) ['+'] ('-' :: (e ++ ')' :: rest))) ['-'] (e ++ ')' :: rest)) e (')' :: rest)) ')' _ (by simpa using hg) rfl
  simp [estimateIn, estimateTail, bind, StateT.bind, h1, h2, h3, h4, h5, h6, pure, StateT.pure, get, getThe, MonadStateOf.get, StateT.get, good_not_failed s hg]
  simp [adv_adv, estimateOut]

theorem adv_nil (s : IS) : adv s [] s.buf = s := by simp [adv]
section vector
variable {δ : Type}
/-- what the vector extractor needs from its element type: the element's own text, followed by a
separator or the closing parenthesis, reads back as the element and consumes exactly that text -/
def ElemLaw (elemOut : δ → List Char) (elemIn : δ → M δ) (v : δ) : Prop :=
  ∀ (s : IS) (old : δ) (rest : List Char), s.good = true → s.buf = elemOut v ++ rest →
    (∃ c r, rest = c :: r ∧ (c = ',' ∨ c = ')')) → elemIn old s = (v, adv s (elemOut v) rest)

def tailText (elemOut : δ → List Char) (vs : List δ) : List Char := vs.flatMap (fun v => ',' :: elemOut v)

theorem intercalate_cons (x : List Char) (xs : List (List Char)) :
    intercalate [','] (x :: xs) = x ++ xs.flatMap (fun y => ',' :: y) := by
  induction xs generalizing x with
  | nil => simp [intercalate]
  | cons y ys ih => simp [intercalate, ih]

theorem vectorLoop_ok (elemOut : δ → List Char) (elemIn : δ → M δ) (vs : List δ) (hlaw : ∀ v ∈ vs, ElemLaw elemOut elemIn v) :
    ∀ (olds done : List δ) (c0 : Char) (s : IS) (rest : List Char), olds.length = vs.length → s.good = true →
      s.buf = tailText elemOut vs ++ ')' :: rest →
      vectorLoop elemIn c0 done olds s = ((some (if vs = [] then c0 else ','), done ++ vs), adv s (tailText elemOut vs) (')' :: rest)) := by
  induction vs with
  | nil =>
    intro olds done c0 s rest hl hg hb
    have : olds = [] := by cases olds <;> simp_all
    subst this
    simp [vectorLoop, tailText, pure, StateT.pure] 
    simp [tailText] at hb
    rw [← hb, adv_nil]
  | cons v vs ih =>
    intro olds done c0 s rest hl hg hb
    cases olds with
    | nil => simp at hl
    | cons o os =>
      have hb1 : s.buf = ',' :: (elemOut v ++ (tailText elemOut vs ++ ')' :: rest)) := by simp [hb, tailText]
      have h1 := readChar_ok s c0 ',' _ hg hb1 (by decide)
      have hdelim : ∃ c r, tailText elemOut vs ++ ')' :: rest = c :: r ∧ (c = ',' ∨ c = ')') := by
        cases vs with
        | nil => exact ⟨')', rest, by simp [tailText], Or.inr rfl⟩
        | cons w ws => exact ⟨',', elemOut w ++ (tailText elemOut ws ++ ')' :: rest), by simp [tailText], Or.inl rfl⟩
      have h2 := hlaw v (by simp) (adv s [','] (elemOut v ++ (tailText elemOut vs ++ ')' :: rest))) o _ (by simpa using hg) rfl hdelim
      have h3 := ih (fun w hw => hlaw w (by simp [hw])) os (done ++ [v]) ','
        (adv (adv s [','] (elemOut v ++ (tailText elemOut vs ++ ')' :: rest))) (elemOut v) (tailText elemOut vs ++ ')' :: rest)) rest
        (by simpa using hl) (by simpa using hg) rfl
      simp [vectorLoop, bind, StateT.bind, h1, h2, h3, pure, StateT.pure]
      simp [adv_adv, tailText]
end vector

theorem digit_props (c : Char) (h : isDigit c = true) :
    isSign c = false ∧ (c == '.') = false ∧ (c == 'e') = false ∧ (c == 'E') = false ∧ isSpace c = false := by
  simp only [isDigit, Bool.and_eq_true, decide_eq_true_eq] at h
  have h1 : '0'.val ≤ c.val := h.1
  have h2 : c.val ≤ '9'.val := h.2
  have key : ∀ d : Char, (d.val < '0'.val ∨ '9'.val < d.val) → (c == d) = false := by
    intro d hd
    rw [beq_eq_false_iff_ne]
    intro hcd; subst hcd
    rcases hd with hd | hd
    · exact absurd h1 (by simpa [UInt32.not_le] using hd)
    · exact absurd h2 (by simpa [UInt32.not_le] using hd)
  simp only [isSign, isSpace]
  refine ⟨?_, key '.' (by decide), key 'e' (by decide), key 'E' (by decide), ?_⟩
  · simp [key '+' (by decide), key '-' (by decide)]
  · simp [key ' ' (by decide), key '\n' (by decide), key '\t' (by decide), key '\r' (by decide), key '\x0b' (by decide), key '\x0c' (by decide)]

def AllDigits (ds : List Char) : Prop := ∀ c ∈ ds, isDigit c = true

theorem scan_digits (ds : List Char) (hd : AllDigits ds) (hne : ds ≠ []) (rest : List Char) (dec sci mant afterE : Bool) (acc : List Char) :
    scanBody (ds ++ rest) dec sci mant afterE acc = scanBody rest dec sci true false (ds.reverse ++ acc) := by
  induction ds generalizing mant afterE acc with
  | nil => exact absurd rfl hne
  | cons d ds ih =>
    have hdd := hd d (by simp)
    obtain ⟨hs, _, _, _, _⟩ := digit_props d hdd
    cases ds with
    | nil => simp [scanBody, hs, hdd]
    | cons d' ds' =>
      have := ih (fun c hc => hd c (by simp [hc])) (by simp) true false (d :: acc)
      simp only [List.cons_append] at this ⊢
      rw [scanBody]
      simp only [hs, hdd, Bool.and_false, Bool.false_eq_true, if_false, if_true]
      rw [this]; simp

def Ends (c : Char) : Prop := isDigit c = false ∧ (c == '.') = false ∧ (c == 'e') = false ∧ (c == 'E') = false

theorem scan_stop (c : Char) (r : List Char) (hc : Ends c) (dec sci mant : Bool) (acc : List Char) :
    scanBody (c :: r) dec sci mant false acc = (acc, c :: r) := by
  obtain ⟨h1, h2, h3, h4⟩ := hc
  simp [scanBody, h1, h2, h3, h4]

/-- the text of a printed number: digits, optionally a point and more digits, optionally an exponent
with an explicit sign and at least one digit; optionally a leading minus -/
def mantText (ip fp : List Char) : List Char := ip ++ (if fp = [] then [] else '.' :: fp)
def expText : Option (Bool × List Char) → List Char
  | none => []
  | some (neg, ed) => 'e' :: (if neg then '-' else '+') :: ed
def printed (neg : Bool) (ip fp : List Char) (ex : Option (Bool × List Char)) : List Char :=
  (if neg then ['-'] else []) ++ (mantText ip fp ++ expText ex)

structure PrintedOK (ip fp : List Char) (ex : Option (Bool × List Char)) : Prop where
  ip_ne : ip ≠ []
  ip_digits : AllDigits ip
  fp_digits : AllDigits fp
  ex_ok : ∀ p, ex = some p → p.2 ≠ [] ∧ AllDigits p.2

theorem scan_exp (ex : Option (Bool × List Char)) (hex : ∀ p, ex = some p → p.2 ≠ [] ∧ AllDigits p.2) (c : Char) (r : List Char) (hc : Ends c)
    (dec : Bool) (acc : List Char) :
    scanBody (expText ex ++ c :: r) dec false true false acc = ((expText ex).reverse ++ acc, c :: r) := by
  cases ex with
  | none => simp [expText, scan_stop c r hc]
  | some p =>
    obtain ⟨neg, ed⟩ := p
    obtain ⟨hne, hd⟩ := hex _ rfl
    have hsg : isSign (if neg then '-' else '+') = true := by cases neg <;> decide
    have he : isDigit 'e' = false := by decide
    have hsd : isDigit (if neg then '-' else '+') = false := by cases neg <;> decide
    simp only [expText, List.cons_append, scanBody, he, hsg, Bool.false_and, Bool.false_eq_true, if_false,
      show ('e' == '.') = false by decide, show ('e' == 'e') = true by decide, Bool.true_or, if_true, Bool.not_false, Bool.and_self]
    rw [scan_digits ed hd hne, scan_stop c r hc]
    simp

theorem scan_body_printed (ip fp : List Char) (ex : Option (Bool × List Char)) (h : PrintedOK ip fp ex) (c : Char) (r : List Char) (hc : Ends c)
    (acc : List Char) :
    scanBody ((mantText ip fp ++ expText ex) ++ c :: r) false false false false acc = ((mantText ip fp ++ expText ex).reverse ++ acc, c :: r) := by
  by_cases hfp : fp = []
  · subst hfp
    simp only [mantText, if_true, List.append_nil, List.append_assoc]
    rw [scan_digits ip h.ip_digits h.ip_ne, scan_exp ex h.ex_ok c r hc]
    simp
  · simp only [mantText, hfp, if_false, List.append_assoc, List.cons_append]
    rw [scan_digits ip h.ip_digits h.ip_ne]
    simp only [scanBody, show isDigit '.' = false by decide, show isSign '.' = false by decide, Bool.and_false, Bool.false_and, Bool.false_eq_true, if_false, show ('.' == '.') = true by decide, if_true,
      Bool.not_false, Bool.and_self]
    rw [scan_digits fp h.fp_digits hfp, scan_exp ex h.ex_ok c r hc]
    simp

theorem scanFloat_printed (neg : Bool) (ip fp : List Char) (ex : Option (Bool × List Char)) (h : PrintedOK ip fp ex) (c : Char) (r : List Char)
    (hc : Ends c) : scanFloat (printed neg ip fp ex ++ c :: r) = (printed neg ip fp ex, c :: r) := by
  cases neg with
  | true =>
    simp only [printed, if_true, List.cons_append, List.nil_append, scanFloat, show isSign '-' = true by decide]
    rw [scan_body_printed ip fp ex h c r hc]
    simp
  | false =>
    obtain ⟨d, ds, hip⟩ := List.exists_cons_of_ne_nil h.ip_ne
    have hd : isDigit d = true := h.ip_digits d (by simp [hip])
    have hs := (digit_props d hd).1
    have e1 : printed false ip fp ex ++ c :: r = d :: (ds ++ ((if fp = [] then [] else '.' :: fp) ++ expText ex) ++ c :: r) := by
      simp [printed, mantText, hip]
    rw [e1]
    simp only [scanFloat, hs, Bool.false_eq_true, if_false]
    rw [← e1]
    simp only [printed, Bool.false_eq_true, if_false, List.nil_append]
    rw [scan_body_printed ip fp ex h c r hc]
    simp

theorem validExp_expText (ex : Option (Bool × List Char)) (hex : ∀ p, ex = some p → p.2 ≠ [] ∧ AllDigits p.2) :
    validExp (expText ex) = true := by
  cases ex with
  | none => rfl
  | some p =>
    obtain ⟨neg, ed⟩ := p
    obtain ⟨hne, hd⟩ := hex _ rfl
    have hall : ed.all isDigit = true := by rw [List.all_eq_true]; exact hd
    have hemp : ed.isEmpty = false := by cases ed <;> simp_all
    cases neg <;> simp [expText, validExp, stripSign, hall, hemp, show isSign '-' = true by decide, show isSign '+' = true by decide]

theorem digits_split (ds rest : List Char) (hd : AllDigits ds) (hr : ∀ c r, rest = c :: r → isDigit c = false) :
    (ds ++ rest).takeWhile isDigit = ds ∧ (ds ++ rest).dropWhile isDigit = rest := by
  have h0 : rest.takeWhile isDigit = [] ∧ rest.dropWhile isDigit = rest := by
    cases rest with
    | nil => simp
    | cons c r => simp [hr c r rfl]
  rw [List.takeWhile_append_of_pos hd, List.dropWhile_append_of_pos hd, h0.1, h0.2]; simp

theorem expText_head (ex : Option (Bool × List Char)) : ∀ c r, expText ex = c :: r → isDigit c = false ∧ c ≠ '.' := by
  intro c r h
  cases ex with
  | none => simp [expText] at h
  | some p => simp [expText] at h; obtain ⟨rfl, _⟩ := h; exact ⟨by decide, by decide⟩

theorem stripSign_printed (neg : Bool) (ip fp : List Char) (ex : Option (Bool × List Char)) (h : PrintedOK ip fp ex) :
    stripSign (printed neg ip fp ex) = mantText ip fp ++ expText ex := by
  obtain ⟨d, ds, hip⟩ := List.exists_cons_of_ne_nil h.ip_ne
  have hd : isDigit d = true := h.ip_digits d (by simp [hip])
  have hs := (digit_props d hd).1
  cases neg with
  | true => simp [printed, stripSign, show isSign '-' = true by decide]
  | false => simp [printed, stripSign, mantText, hip, hs]

theorem validFloat_printed (neg : Bool) (ip fp : List Char) (ex : Option (Bool × List Char)) (h : PrintedOK ip fp ex) :
    validFloat (printed neg ip fp ex) = true := by
  have hipe : ip.isEmpty = false := by
    have := h.ip_ne; cases ip <;> simp_all
  unfold validFloat
  rw [stripSign_printed neg ip fp ex h]
  by_cases hfp : fp = []
  · subst hfp
    obtain ⟨h1, h2⟩ := digits_split ip (expText ex) h.ip_digits (fun c r hc => (expText_head ex c r hc).1)
    have hv := validExp_expText ex h.ex_ok
    simp only [mantText, if_true, List.append_nil, validMant, h1, h2]
    cases hex : expText ex with
    | nil => simp [hipe, validExp]
    | cons c r =>
      have hne := (expText_head ex c r hex).2
      rw [hex] at hv
      split
      · next heq => simp at heq; exact absurd heq.1 hne
      · simp [hipe, hv]
  · have e : mantText ip fp ++ expText ex = ip ++ ('.' :: (fp ++ expText ex)) := by simp [mantText, hfp]
    obtain ⟨h1, h2⟩ := digits_split ip ('.' :: (fp ++ expText ex)) h.ip_digits (fun c r hc => by simp at hc; rw [← hc.1]; decide)
    obtain ⟨h3, h4⟩ := digits_split fp (expText ex) h.fp_digits (fun c r hc => (expText_head ex c r hc).1)
    rw [e]
    simp only [validMant, h1, h2, h3, h4]
    simp [hipe, validExp_expText ex h.ex_ok]

theorem printed_nonspace (neg : Bool) (ip fp : List Char) (ex : Option (Bool × List Char)) (h : PrintedOK ip fp ex) :
    ∃ c l', printed neg ip fp ex = c :: l' ∧ isSpace c = false := by
  obtain ⟨d, ds, hip⟩ := List.exists_cons_of_ne_nil h.ip_ne
  have hd : isDigit d = true := h.ip_digits d (by simp [hip])
  cases neg with
  | true => exact ⟨'-', mantText ip fp ++ expText ex, by simp [printed], by decide⟩
  | false => exact ⟨d, ds ++ ((if fp = [] then [] else '.' :: fp) ++ expText ex), by simp [printed, mantText, hip], (digit_props d hd).2.2.2.2⟩

/-- **the number leaf**: a text of the printed shape that denotes a finite double is read back whole
by the model of `num_get`, whatever terminator follows it -/
theorem printed_numOK (neg : Bool) (ip fp : List Char) (ex : Option (Bool × List Char)) (h : PrintedOK ip fp ex)
    (hfin : overflows (printed neg ip fp ex) = false) (c : Char) (r : List Char) (hc : Ends c) :
    NumOK (printed neg ip fp ex) (c :: r) :=
  ⟨printed_nonspace neg ip fp ex h, scanFloat_printed neg ip fp ex h c r hc, validFloat_printed neg ip fp ex h, hfin⟩

theorem ends_comma : Ends ',' := by unfold Ends; decide
theorem ends_paren : Ends ')' := by unfold Ends; decide
theorem ends_plus : Ends '+' := by unfold Ends; decide

section vector
variable {δ : Type}
/-- **vector round trip, any number of elements, any element type obeying `ElemLaw`** -/
theorem vector_roundtrip (elemOut : δ → List Char) (elemIn : δ → M δ) (v0 : δ) (vs : List δ)
    (hlaw : ∀ v ∈ v0 :: vs, ElemLaw elemOut elemIn v) (olds : List δ) (hl : olds.length = vs.length + 1)
    (s : IS) (rest : List Char) (hg : s.good = true) (hb : s.buf = vectorOut ((v0 :: vs).map elemOut) ++ rest) :
    vectorIn elemIn olds s = (v0 :: vs, adv s (vectorOut ((v0 :: vs).map elemOut)) rest) := by
  cases olds with
  | nil => simp at hl
  | cons o os =>
    have htxt : vectorOut ((v0 :: vs).map elemOut) = '(' :: (elemOut v0 ++ (tailText elemOut vs ++ [')'])) := by
      simp [vectorOut, intercalate_cons, tailText, List.flatMap_map]
    have hb1 : s.buf = '(' :: (elemOut v0 ++ (tailText elemOut vs ++ ')' :: rest)) := by rw [hb, htxt]; simp
    have h1 := readChar_ok s '\x00' '(' _ hg hb1 (by decide)
    have hdelim : ∃ c r, tailText elemOut vs ++ ')' :: rest = c :: r ∧ (c = ',' ∨ c = ')') := by
      cases vs with
      | nil => exact ⟨')', rest, by simp [tailText], Or.inr rfl⟩
      | cons w ws => exact ⟨',', elemOut w ++ (tailText elemOut ws ++ ')' :: rest), by simp [tailText], Or.inl rfl⟩
    have h2 := hlaw v0 (by simp) (adv s ['('] (elemOut v0 ++ (tailText elemOut vs ++ ')' :: rest))) o _ (by simpa using hg) rfl hdelim
    have h3 := vectorLoop_ok elemOut elemIn vs (fun w hw => hlaw w (by simp [hw])) os [v0] '('
      (adv (adv s ['('] (elemOut v0 ++ (tailText elemOut vs ++ ')' :: rest))) (elemOut v0) (tailText elemOut vs ++ ')' :: rest)) rest
      (by simpa using hl) (by simpa using hg) rfl
    have h4 := readChar_ok (adv (adv (adv s ['('] (elemOut v0 ++ (tailText elemOut vs ++ ')' :: rest))) (elemOut v0) (tailText elemOut vs ++ ')' :: rest))
      (tailText elemOut vs) (')' :: rest)) (if vs = [] then '(' else ',') ')' rest (by simpa using hg) rfl (by decide)
    simp [vectorIn, bind, StateT.bind, h1, h2, h3, h4, pure, StateT.pure]
    simp [adv_adv]
    rw [show vectorOut (elemOut v0 :: List.map elemOut vs) = vectorOut ((v0 :: vs).map elemOut) from rfl, htxt]
end vector

/-- a number text that is read back whole before every terminator -/
def Num (l : Lex) : Prop := ∀ c r, Ends c → NumOK l (c :: r)

theorem printed_num (neg : Bool) (ip fp : List Char) (ex : Option (Bool × List Char)) (h : PrintedOK ip fp ex)
    (hfin : overflows (printed neg ip fp ex) = false) : Num (printed neg ip fp ex) :=
  fun c r hc => printed_numOK neg ip fp ex h hfin c r hc

theorem elemLaw_float (l : Lex) (h : Num l) : ElemLaw (fun x => x) extractFloat l := by
  intro s old rest hg hb ⟨c, r, hrest, hc⟩
  subst hrest
  have he : Ends c := by rcases hc with rfl | rfl; exact ends_comma; exact ends_paren
  exact extractFloat_ok s old l (c :: r) hg hb (h c r he) (by simp)

theorem elemLaw_estimate (ce : Bool) (p : Lex × Lex) (hv : Num p.1) (he : Num p.2) :
    ElemLaw (fun q => estimateOut q.1 q.2) (estimateIn ce) p := by
  intro s old rest hg hb _
  exact estimate_roundtrip ce s old p.1 p.2 rest hg hb (hv '+' _ ends_plus) (he ')' _ ends_paren)

/-- **complex round trip** (`std::complex`'s extractor on `(re,im)`) -/
theorem complex_roundtrip (s : IS) (dest : Lex × Lex) (re im rest : List Char) (hg : s.good = true)
    (hb : s.buf = complexOut re im ++ rest) (hre : Num re) (him : Num im) :
    complexIn dest s = ((re, im), adv s (complexOut re im) rest) := by
  have hb1 : s.buf = '(' :: (re ++ ',' :: (im ++ ')' :: rest)) := by simp [hb, complexOut]
  have h1 := readChar_ok s '\x00' '(' _ hg hb1 (by decide)
  have h2 := extractFloat_ok (adv s ['('] (re ++ ',' :: (im ++ ')' :: rest))) ['?'] re (',' :: (im ++ ')' :: rest)) (by simpa using hg) rfl (hre ',' _ ends_comma) (by simp)
  have h3 := readChar_ok (adv (adv s ['('] (re ++ ',' :: (im ++ ')' :: rest))) re (',' :: (im ++ ')' :: rest))) '(' ',' _ (by simpa using hg) rfl (by decide)
  have h4 := extractFloat_ok (adv (adv (adv s ['('] (re ++ ',' :: (im ++ ')' :: rest))) re (',' :: (im ++ ')' :: rest))) [','] (im ++ ')' :: rest)) ['?'] im (')' :: rest)
    (by simpa using hg) rfl (him ')' _ ends_paren) (by simp)
  have h5 := readChar_ok (adv (adv (adv (adv s ['('] (re ++ ',' :: (im ++ ')' :: rest))) re (',' :: (im ++ ')' :: rest))) [','] (im ++ ')' :: rest)) im (')' :: rest)) ',' ')' _
    (by simpa using hg) rfl (by decide)
  simp [complexIn, bind, StateT.bind, h1, h2, h3, h4, h5, pure, StateT.pure, get, getThe, MonadStateOf.get, StateT.get, good_not_failed s hg]
  simp [adv_adv, complexOut]

theorem elemLaw_complex (p : Lex × Lex) (hre : Num p.1) (him : Num p.2) :
    ElemLaw (fun q => complexOut q.1 q.2) complexIn p := by
  intro s old rest hg hb _
  exact complex_roundtrip s old p.1 p.2 rest hg hb hre him

/-! ### the property's round-trip clauses, for every length and every nesting -/
/-- `Vector<N,double>` / `Stokes<double>` -/
theorem roundtrip_vector_double (l0 : Lex) (ls olds : List Lex) (h : ∀ l ∈ l0 :: ls, Num l) (hl : olds.length = ls.length + 1)
    (rest : List Char) :
    run (vectorIn extractFloat olds) (vectorOut (l0 :: ls) ++ rest)
      = (l0 :: ls, adv { buf := vectorOut (l0 :: ls) ++ rest } (vectorOut (l0 :: ls)) rest) := by
  have := vector_roundtrip (fun x => x) extractFloat l0 ls (fun v hv => elemLaw_float v (h v hv)) olds hl
    { buf := vectorOut (l0 :: ls) ++ rest } rest rfl (by simp)
  simpa [run] using this

/-- `Vector<N,Estimate>` / `Stokes<Estimate>` -/
theorem roundtrip_vector_estimate (ce : Bool) (p0 : Lex × Lex) (ps olds : List (Lex × Lex)) (h : ∀ p ∈ p0 :: ps, Num p.1 ∧ Num p.2)
    (hl : olds.length = ps.length + 1) (rest : List Char) :
    run (vectorIn (estimateIn ce) olds) (vectorOut ((p0 :: ps).map (fun q => estimateOut q.1 q.2)) ++ rest)
      = (p0 :: ps, adv { buf := vectorOut ((p0 :: ps).map (fun q => estimateOut q.1 q.2)) ++ rest }
          (vectorOut ((p0 :: ps).map (fun q => estimateOut q.1 q.2))) rest) := by
  have := vector_roundtrip (fun q : Lex × Lex => estimateOut q.1 q.2) (estimateIn ce) p0 ps
    (fun v hv => elemLaw_estimate ce v (h v hv).1 (h v hv).2) olds hl
    { buf := vectorOut ((p0 :: ps).map (fun q => estimateOut q.1 q.2)) ++ rest } rest rfl rfl
  simpa [run] using this

/-- `Vector<N,complex>` -/
theorem roundtrip_vector_complex (p0 : Lex × Lex) (ps olds : List (Lex × Lex)) (h : ∀ p ∈ p0 :: ps, Num p.1 ∧ Num p.2)
    (hl : olds.length = ps.length + 1) (rest : List Char) :
    run (vectorIn complexIn olds) (vectorOut ((p0 :: ps).map (fun q => complexOut q.1 q.2)) ++ rest)
      = (p0 :: ps, adv { buf := vectorOut ((p0 :: ps).map (fun q => complexOut q.1 q.2)) ++ rest }
          (vectorOut ((p0 :: ps).map (fun q => complexOut q.1 q.2))) rest) := by
  have := vector_roundtrip (fun q : Lex × Lex => complexOut q.1 q.2) complexIn p0 ps
    (fun v hv => elemLaw_complex v (h v hv).1 (h v hv).2) olds hl
    { buf := vectorOut ((p0 :: ps).map (fun q => complexOut q.1 q.2)) ++ rest } rest rfl rfl
  simpa [run] using this

/-- a single estimate -/
theorem roundtrip_estimate (ce : Bool) (dest : Lex × Lex) (v e rest : List Char) (hv : Num v) (he : Num e) :
    run (estimateIn ce dest) (estimateOut v e ++ rest) = ((v, e), adv { buf := estimateOut v e ++ rest } (estimateOut v e) rest) :=
  estimate_roundtrip ce { buf := estimateOut v e ++ rest } dest v e rest rfl rfl (hv '+' _ ends_plus) (he ')' _ ends_paren)

/-- after a successful round trip nothing is flagged and exactly the written text was consumed -/
theorem roundtrip_state (x rest : List Char) :
    (adv { buf := x ++ rest } x rest).failed = false ∧ (adv { buf := x ++ rest } x rest).eof = false ∧
    (adv { buf := x ++ rest } x rest).pos = x.length ∧ (adv { buf := x ++ rest } x rest).buf = rest := by
  simp [adv, IS.failed, IS.pos]

theorem sentry_false_eq (s : IS) : sentry false s = if s.good then (true, s) else (false, { s with fail := true }) := by
  unfold sentry; cases s.good <;> simp

theorem expect_eq (c : Char) (s : IS) : expect c s =
    if s.good then
      (match s.buf with
       | d :: _ => if d == c then (true, s.advance 1) else (false, { s with fail := true })
       | [] => (false, { s with eof := true, fail := true }))
    else (false, { s with fail := true }) := by
  cases hg : s.good with
  | false => simp [expect, peek, sentry_false_eq, hg]
  | true =>
    cases hb : s.buf with
    | nil => simp [expect, peek, sentry_false_eq, hg, hb]
    | cons d r =>
      by_cases hd : (d == c) = true
      · simp [expect, peek, getc, sentry_false_eq, hg, hb, hd]
      · simp [expect, peek, getc, sentry_false_eq, hg, hb, hd]

theorem expect_true_not_failed (c : Char) (s : IS) (h : (expect c s).1 = true) : (expect c s).2.failed = false := by
  rw [expect_eq] at h ⊢
  cases hg : s.good with
  | false => simp [hg] at h
  | true =>
    simp only [hg, if_true] at h ⊢
    cases hb : s.buf with
    | nil => simp [hb] at h
    | cons d r =>
      simp only [hb] at h ⊢
      by_cases hd : (d == c) = true
      · simp only [hd, if_true]
        simp [IS.good] at hg
        simp [IS.advance, IS.failed, hg]
      · simp [hd] at h

theorem estimateTail_eq (b : Bool) (dest : Lex × Lex) (s : IS) : estimateTail true b dest s =
    (let r1 := extractFloat ['?'] s
     let r2 := expect '+' r1.2
     if r2.1 = false then (dest, r2.2) else
     let r3 := expect '-' r2.2
     if r3.1 = false then (dest, r3.2) else
     let r4 := extractFloat ['?'] r3.2
     if r4.2.failed = true then (dest, r4.2) else
     if b = true then
       (let r5 := expect ')' r4.2
        if r5.1 = false then (dest, r5.2) else ((r1.1, r4.1), r5.2))
     else ((r1.1, r4.1), r4.2)) := by
  simp only [estimateTail, bind, StateT.bind, pure, StateT.pure, get, getThe, MonadStateOf.get, StateT.get]
  rcases h1 : extractFloat ['?'] s with ⟨v, s1⟩
  simp only
  rcases h2 : expect '+' s1 with ⟨b2, s2⟩
  cases b2
  · simp [pure, StateT.pure]
  simp [bind, pure, StateT.bind, StateT.pure, StateT.get]
  rcases h3 : expect '-' s2 with ⟨b3, s3⟩
  cases b3
  · simp [pure, StateT.pure]
  simp [bind, pure, StateT.bind, StateT.pure, StateT.get]
  rcases h4 : extractFloat ['?'] s3 with ⟨e, s4⟩
  simp [bind, pure, StateT.bind, StateT.pure, StateT.get]
  cases hf : s4.failed
  · simp [bind, pure, StateT.bind, StateT.pure, StateT.get]
    cases b
    · simp [pure, StateT.pure]
    · simp [bind, pure, StateT.bind, StateT.pure, StateT.get]
      rcases h5 : expect ')' s4 with ⟨b5, s5⟩
      cases b5 <;> simp [pure, StateT.pure]
  · simp [pure, StateT.pure]

theorem estimateTail_failed_unchanged (b : Bool) (dest : Lex × Lex) (s : IS) (h : (estimateTail true b dest s).2.failed = true) :
    (estimateTail true b dest s).1 = dest := by
  rw [estimateTail_eq] at h ⊢
  simp only at h ⊢
  split
  · rfl
  · next h2 =>
    rw [if_neg h2] at h
    split
    · rfl
    · next h3 =>
      rw [if_neg h3] at h
      split
      · rfl
      · next h4 =>
        rw [if_neg h4] at h
        cases b with
        | false => simp at h; exact absurd h h4
        | true =>
          simp only [if_true] at h ⊢
          split
          · rfl
          · next h5 =>
            rw [if_neg h5] at h
            have := expect_true_not_failed ')' _ (by simpa using h5)
            simp at h; rw [this] at h; exact absurd h (by simp)

/-- **a failed estimate extraction leaves the destination unchanged**, for every input text and every
previous state of the stream -/
theorem estimate_failed_unchanged (dest : Lex × Lex) (s : IS) (h : ((estimateIn true dest) s).2.failed = true) :
    ((estimateIn true dest) s).1 = dest := by
  simp only [estimateIn, bind, StateT.bind] at h ⊢
  exact estimateTail_failed_unchanged _ dest _ h
theorem current_estimate_checks_error : currentEstimateChecksError = true := rfl
set_option exponentiation.threshold 1100 in
/-- before the repair: the unbracketed text `1+-x` fails and overwrites the destination with `(1, 0)` -/
theorem unrepaired_counterexample :
    (run (estimateIn false (['7'], ['8'])) "1+-x".toList).2.failed = true ∧
    (run (estimateIn false (['7'], ['8'])) "1+-x".toList).1 = (['1'], ['0']) := by decide +kernel

/-! ### conventions -/
/-- **every documented spelling maps to its enumerator** (Circular = 0, Linear = 1, Elliptical = 2),
whatever the destination held, without setting the fail state; also behind leading white space and
before further text -/
theorem documented_basis_spellings (d : Int) :
    (run (basisIn true d) "lin".toList).1 = 1 ∧ (run (basisIn true d) "Linear".toList).1 = 1 ∧
    (run (basisIn true d) "cir".toList).1 = 0 ∧ (run (basisIn true d) "circ".toList).1 = 0 ∧ (run (basisIn true d) "Circular".toList).1 = 0 ∧
    (run (basisIn true d) "ell".toList).1 = 2 ∧ (run (basisIn true d) "Elliptical".toList).1 = 2 ∧
    (run (basisIn true d) "0".toList).1 = 0 ∧ (run (basisIn true d) "1".toList).1 = 1 ∧ (run (basisIn true d) "2".toList).1 = 2 ∧
    (run (basisIn true d) " \n\tLinear x".toList).1 = 1 ∧ (run (basisIn true d) " 2 7".toList).1 = 2 := by
  refine ⟨rfl, rfl, rfl, rfl, rfl, rfl, rfl, rfl, rfl, rfl, rfl, rfl⟩
theorem documented_basis_spellings_succeed (d : Int) :
    (run (basisIn true d) "lin".toList).2.failed = false ∧ (run (basisIn true d) "Linear".toList).2.failed = false ∧
    (run (basisIn true d) "cir".toList).2.failed = false ∧ (run (basisIn true d) "circ".toList).2.failed = false ∧
    (run (basisIn true d) "Circular".toList).2.failed = false ∧ (run (basisIn true d) "ell".toList).2.failed = false ∧
    (run (basisIn true d) "Elliptical".toList).2.failed = false ∧ (run (basisIn true d) "0".toList).2.failed = false ∧
    (run (basisIn true d) "1".toList).2.failed = false ∧ (run (basisIn true d) "2".toList).2.failed = false := by
  refine ⟨rfl, rfl, rfl, rfl, rfl, rfl, rfl, rfl, rfl, rfl⟩
/-- what is written for an enumerator reads back as that enumerator -/
theorem basis_roundtrip (d : Int) :
    (run (basisIn true d) (basisOut 0)).1 = 0 ∧ (run (basisIn true d) (basisOut 1)).1 = 1 ∧ (run (basisIn true d) (basisOut 2)).1 = 2 := ⟨rfl, rfl, rfl⟩
theorem sign_roundtrip :
    run signIn (signOut 1) = (1, { before := "1+".toList, buf := [], eof := true }) ∧
    run signIn (signOut (-1)) = (-1, { before := "1-".toList, buf := [], eof := true }) ∧
    (run signIn "1".toList).1 = 1 ∧ (run signIn "1".toList).2.failed = false := ⟨rfl, rfl, rfl, rfl⟩

theorem keywordBasis_range (w : List Char) (b : Nat) (h : keywordBasis w = some b) : b = 0 ∨ b = 1 ∨ b = 2 := by
  unfold keywordBasis at h
  split at h
  · simp at h; omega
  · split at h
    · simp at h; omega
    · split at h
      · simp at h; omega
      · simp at h

/-- **a basis extraction that does not set the fail state delivers a valid enumerator**, for every
input text and every previous destination: an unknown numeric code cannot pass silently -/
theorem basis_success_valid (d : Int) (s : IS) (h : (basisIn true d s).2.failed = false) :
    (basisIn true d s).1 = 0 ∨ (basisIn true d s).1 = 1 ∨ (basisIn true d s).1 = 2 := by
  simp only [basisIn, bind, StateT.bind, pure, StateT.pure, get, getThe, MonadStateOf.get, StateT.get] at h ⊢
  rcases h1 : tellg s with ⟨p, s1⟩
  simp only [h1] at h ⊢
  rcases h2 : extractWord s1 with ⟨w, s2⟩
  simp only [h2] at h ⊢
  cases hk : keywordBasis w with
  | some b =>
    simp only [hk] at h ⊢
    have := keywordBasis_range w b hk
    simp [pure, StateT.pure]; omega
  | none =>
    simp only [hk] at h ⊢
    simp [bind, pure, StateT.bind, StateT.pure, StateT.get] at h ⊢
    rcases h3 : seekg p s2 with ⟨u, s3⟩
    simp only [h3] at h ⊢
    rcases h4 : extractInt ['-', '1'] s3 with ⟨code, s4⟩
    simp only [h4] at h ⊢
    cases hf : s4.failed with
    | true => simp [hf, pure, StateT.pure] at h ⊢; 
    | false =>
      simp [hf] at h ⊢
      by_cases hc : (lexToInt code = 0 ∨ lexToInt code = 1) ∨ lexToInt code = 2
      · simp [hc, pure, StateT.pure]; omega
      · simp [hc, bind, pure, StateT.bind, StateT.pure, modify, modifyGet, MonadStateOf.modifyGet, StateT.modifyGet, IS.failed] at h

/-- **a hand / argument extraction that does not set the fail state delivers `+1` or `-1`** -/
theorem sign_success_valid (s : IS) (h : (signIn s).2.failed = false) : (signIn s).1 = 1 ∨ (signIn s).1 = -1 := by
  simp only [signIn, bind, StateT.bind, pure, StateT.pure] at h ⊢
  rcases h1 : extractInt zeroLex s with ⟨code, s1⟩
  simp only [h1] at h ⊢
  by_cases hk : (lexToInt code).natAbs = 1
  · simp [hk, pure, StateT.pure]; omega
  · simp [hk, bind, pure, StateT.bind, StateT.pure, modify, modifyGet, MonadStateOf.modifyGet, StateT.modifyGet, IS.failed] at h

/-! ### the fail state is sticky, and structural characters are required -/
theorem sentry_sticky (b : Bool) (s : IS) (h : s.failed = true) : (sentry b s).1 = false ∧ (sentry b s).2.failed = true := by
  have hg : s.good = false := by
    simp [IS.failed] at h; simp [IS.good]; rcases h with h | h <;> simp [h]
  simp [sentry, hg, IS.failed]
theorem readChar_sticky (old : Char) (s : IS) (h : s.failed = true) : readChar old s = (old, { s with fail := true }) := by
  have hg : s.good = false := by
    simp [IS.failed] at h; simp [IS.good]; rcases h with h | h <;> simp [h]
  simp [readChar, sentry, hg]
theorem extractFloat_sticky (old : Lex) (s : IS) (h : s.failed = true) : extractFloat old s = (old, { s with fail := true }) := by
  have hg : s.good = false := by
    simp [IS.failed] at h; simp [IS.good]; rcases h with h | h <;> simp [h]
  simp [extractFloat, sentry, hg]
theorem expect_sticky (c : Char) (s : IS) (h : s.failed = true) : (expect c s).1 = false ∧ (expect c s).2.failed = true := by
  have hg : s.good = false := by
    simp [IS.failed] at h; simp [IS.good]; rcases h with h | h <;> simp [h]
  rw [expect_eq]; simp [hg, IS.failed]

/-- a vector whose first non-blank character is not `(` sets the fail state and leaves every element -/
theorem vector_requires_open {δ : Type} (elemIn : δ → M δ) (dest : List δ) (s : IS) (c : Char) (r : List Char)
    (hg : s.good = true) (hb : s.buf = c :: r) (hs : isSpace c = false) (hc : c ≠ '(') :
    (vectorIn elemIn dest s).1 = dest ∧ (vectorIn elemIn dest s).2.failed = true := by
  have h1 := readChar_ok s '\x00' c r hg hb hs
  simp [vectorIn, bind, StateT.bind, h1, hc, pure, StateT.pure, modify, modifyGet, MonadStateOf.modifyGet, StateT.modifyGet, IS.failed, adv]
/-- an empty or all-blank text sets the fail state of every extractor built on `is >> c` -/
theorem vector_requires_text {δ : Type} (elemIn : δ → M δ) (dest : List δ) (s : IS) (hg : s.good = true)
    (hb : ∀ c ∈ s.buf, isSpace c = true) :
    (vectorIn elemIn dest s).1 = dest ∧ (vectorIn elemIn dest s).2.failed = true := by
  have htw : ∀ l : List Char, (∀ c ∈ l, isSpace c = true) → l.takeWhile isSpace = l := by
    intro l; induction l with
    | nil => intro _; rfl
    | cons a t ih => intro hl; simp [hl a (by simp), ih (fun c hc => hl c (by simp [hc]))]
  have htw := htw s.buf hb
  have h1 : readChar '\x00' s = ('\x00', { s.advance s.buf.length with eof := true, fail := true }) := by
    simp [readChar, sentry, hg, htw, IS.advance]
  simp [vectorIn, bind, StateT.bind, h1, pure, StateT.pure, modify, modifyGet, MonadStateOf.modifyGet, StateT.modifyGet, IS.failed]

/-! ### non-vacuity: a concrete printed number, and complete round trips evaluated on concrete text -/
theorem printedOK_example : PrintedOK "1".toList "5".toList (some (false, "20".toList)) :=
  ⟨by decide, by unfold AllDigits; decide, by unfold AllDigits; decide, by intro p hp; cases hp; exact ⟨by decide, by unfold AllDigits; decide⟩⟩
set_option exponentiation.threshold 1100 in
theorem num_example : Num "-1.5e+20".toList := by
  have := printed_num true "1".toList "5".toList (some (false, "20".toList)) printedOK_example (by decide +kernel)
  simpa [printed, mantText, expText] using this
set_option exponentiation.threshold 1100 in
example : (run (vectorIn (estimateIn true) [(['7'], ['8']), (['7'], ['8'])]) "((1+-2),(-1.5e+20+-0.25))".toList).1
    = [("1".toList, "2".toList), ("-1.5e+20".toList, "0.25".toList)] := by decide +kernel
set_option exponentiation.threshold 1100 in
example : (run (vectorIn complexIn [(['7'], ['8'])]) "((3,4))".toList).1 = [("3".toList, "4".toList)] := by decide +kernel

end Epsic.C19
