import EpsicModel.Text
/-! # C19 — text output of values parses back to the same value -/
namespace Epsic.C19
open Epsic Epsic.Text
theorem current_estimate_checks_error : currentEstimateChecksError = true := rfl
end Epsic.C19
