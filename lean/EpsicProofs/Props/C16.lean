import EpsicProofs.FieldArith
/-! # C16 — in-place operators equal their binary counterparts even when operands alias

`Alias.Store` models memory; a compound operator is the sequence of assignments the C++ source
performs, with the right-hand operand addressed by the slot(s) it occupies — so one theorem per
operator covers the distinct-object case and every aliasing pattern, for every length `n` and
every value.  The binary reference (`bin…`) reads only the *original* store. -/
set_option linter.unusedSectionVars false
set_option linter.unusedVariables false
namespace Epsic.C16
open Epsic Epsic.Alias

section generic
variable {α : Type}

theorem upd_get_same (s : Store α) (i : Nat) (v : α) : (upd s i v).get i = v := by simp [upd]
theorem upd_get_other (s : Store α) (i j : Nat) (v : α) (h : j ≠ i) : (upd s i v).get j = s.get j := by
  simp [upd, h]

/-- loop invariant of a by-value scalar loop: slots `< k` hold the result, the others are untouched -/
theorem loopVal_prefix (f : α → α → α) (v : α) (s : Store α) (k : Nat) :
    ∀ j, ((List.range k).foldl (fun st i => upd st i (f (st.get i) v)) s).get j
      = if j < k then f (s.get j) v else s.get j := by
  induction k with
  | zero => intro j; simp
  | succ k ih =>
    intro j
    rw [List.range_succ, List.foldl_append]
    simp only [List.foldl_cons, List.foldl_nil]
    by_cases hj : j = k
    · subst hj; rw [upd_get_same, ih]; simp
    · rw [upd_get_other _ _ _ _ hj, ih]
      by_cases h1 : j < k
      · simp [h1, Nat.lt_succ_of_lt h1]
      · have : ¬ j < k + 1 := by omega
        simp [h1, this]

/-- **by-value scalar operand: correct for every alias slot `a`, every length, every value** -/
theorem loopScalar_val (f : α → α → α) (n a : Nat) (s : Store α) :
    ∀ j, (loopScalar .val f n a s).get j = (binScalar f n a s).get j := by
  intro j; simp only [loopScalar, binScalar]; exact loopVal_prefix f (s.get a) s n j

/-- loop invariant of a by-reference scalar loop whose operand slot is outside the part already
overwritten (`a ≥ k`): the operand still has its original value -/
theorem loopRef_prefix (f : α → α → α) (a : Nat) (s : Store α) (k : Nat) (hk : k ≤ a ∨ True) :
    k ≤ a → ∀ j, ((List.range k).foldl (fun st i => upd st i (f (st.get i) (st.get a))) s).get j
      = if j < k then f (s.get j) (s.get a) else s.get j := by
  induction k with
  | zero => intro _ j; simp
  | succ k ih =>
    intro hka j
    have ih' := ih (Or.inr trivial) (by omega)
    rw [List.range_succ, List.foldl_append]
    simp only [List.foldl_cons, List.foldl_nil]
    have ha : ¬ a < k := by omega
    by_cases hj : j = k
    · subst hj; rw [upd_get_same, ih', ih']; simp [ha]
    · rw [upd_get_other _ _ _ _ hj, ih']
      by_cases h1 : j < k
      · simp [h1, Nat.lt_succ_of_lt h1]
      · have : ¬ j < k + 1 := by omega
        simp [h1, this]

/-- by-reference scalar operand: correct when the operand is a distinct object (slot `≥ n`) -/
theorem loopScalar_ref_distinct (f : α → α → α) (n a : Nat) (s : Store α) (h : n ≤ a) :
    ∀ j, (loopScalar .ref f n a s).get j = (binScalar f n a s).get j := by
  intro j; simp only [loopScalar, binScalar]; exact loopRef_prefix f a s n (Or.inr trivial) h j

/-- element-wise loops `x[i] = f(x[i], y[i])`: correct when `y` is `x` itself (`off = 0`) … -/
theorem loopZip_prefix_same (f : α → α → α) (s : Store α) (k : Nat) :
    ∀ j, ((List.range k).foldl (fun st i => upd st i (f (st.get i) (st.get i))) s).get j
      = if j < k then f (s.get j) (s.get j) else s.get j := by
  induction k with
  | zero => intro j; simp
  | succ k ih =>
    intro j
    rw [List.range_succ, List.foldl_append]
    simp only [List.foldl_cons, List.foldl_nil]
    by_cases hj : j = k
    · subst hj; rw [upd_get_same, ih]; simp
    · rw [upd_get_other _ _ _ _ hj, ih]
      by_cases h1 : j < k
      · simp [h1, Nat.lt_succ_of_lt h1]
      · have : ¬ j < k + 1 := by omega
        simp [h1, this]
theorem loopZip_same (f : α → α → α) (n : Nat) (s : Store α) :
    ∀ j, (loopZip f n 0 s).get j = (binZip f n 0 s).get j := by
  intro j; simp only [loopZip, binZip, Nat.zero_add]; rw [loopZip_prefix_same]
/-- … and when `y` is a distinct object (`off ≥ n`) -/
theorem loopZip_prefix_distinct (f : α → α → α) (off n : Nat) (hoff : n ≤ off) (s : Store α) (k : Nat) :
    k ≤ n → ∀ j, ((List.range k).foldl (fun st i => upd st i (f (st.get i) (st.get (off + i)))) s).get j
      = if j < k then f (s.get j) (s.get (off + j)) else s.get j := by
  induction k with
  | zero => intro _ j; simp
  | succ k ih =>
    intro hk j
    have ih' := ih (by omega)
    rw [List.range_succ, List.foldl_append]
    simp only [List.foldl_cons, List.foldl_nil]
    by_cases hj : j = k
    · subst hj; rw [upd_get_same, ih', ih']
      have : ¬ off + j < j := by omega
      simp [this]
    · rw [upd_get_other _ _ _ _ hj, ih']
      by_cases h1 : j < k
      · simp [h1, Nat.lt_succ_of_lt h1]
      · have : ¬ j < k + 1 := by omega
        simp [h1, this]
theorem loopZip_distinct (f : α → α → α) (n off : Nat) (h : n ≤ off) (s : Store α) :
    ∀ j, (loopZip f n off s).get j = (binZip f n off s).get j := by
  intro j; simp only [loopZip, binZip]; exact loopZip_prefix_distinct f off n h s n (Nat.le_refl _) j

end generic

/-! ## the operators of the library (current source = by-value scalars, temporaries in `Jones *=`) -/
section ops
variable {K : Type} [Field K] [DecidableEq K]

/-- `Vector/Stokes/Matrix *= scalar`, `/= scalar`: every alias slot, every length -/
theorem vecMulAssign_correct (n a : Nat) (s : Store K) (j : Nat) :
    (vecMulAssign currentVectorScalarMode n a s).get j = (binScalar (· * ·) n a s).get j :=
  loopScalar_val _ n a s j
theorem vecDivAssign_correct (n a : Nat) (s : Store K) (j : Nat) :
    (vecDivAssign currentVectorScalarMode n a s).get j = (binScalar (· / ·) n a s).get j :=
  loopScalar_val _ n a s j
/-- in particular: dividing a Stokes vector by its own total intensity gives the fractional
polarisation vector `(1, Q/I, U/I, V/I)` -/
theorem stokes_div_own_intensity (s : Store K) (hI : s.get 0 ≠ 0) :
    let r := vecDivAssign currentVectorScalarMode 4 0 s
    r.get 0 = 1 ∧ r.get 1 = s.get 1 / s.get 0 ∧ r.get 2 = s.get 2 / s.get 0 ∧ r.get 3 = s.get 3 / s.get 0 := by
  simp only [vecDivAssign_correct, binScalar]
  refine ⟨?_, ?_, ?_, ?_⟩ <;> simp [hI]
theorem vecAddAssign_same (n : Nat) (s : Store K) (j : Nat) :
    (vecAddAssign n 0 s).get j = (binZip (· + ·) n 0 s).get j := loopZip_same _ n s j
theorem vecSubAssign_same (n : Nat) (s : Store K) (j : Nat) :
    (vecSubAssign n 0 s).get j = (binZip (· - ·) n 0 s).get j := loopZip_same _ n s j
theorem vecAddAssign_distinct (n off : Nat) (h : n ≤ off) (s : Store K) (j : Nat) :
    (vecAddAssign n off s).get j = (binZip (· + ·) n off s).get j := loopZip_distinct _ n off h s j
theorem vecSubAssign_distinct (n off : Nat) (h : n ≤ off) (s : Store K) (j : Nat) :
    (vecSubAssign n off s).get j = (binZip (· - ·) n off s).get j := loopZip_distinct _ n off h s j

/-- `Quaternion *= scalar` -/
theorem quatMulScalar_correct (a : Nat) (s : Store K) (j : Nat) :
    (quatMulScalar currentQuatScalarMode a s).get j = (binScalar (· * ·) 4 a s).get j :=
  loopScalar_val _ 4 a s j
/-- `Quaternion /= scalar` (reciprocal formed first) -/
theorem quatDivScalar_correct (a : Nat) (s : Store K) (j : Nat) :
    (quatDivScalar a s).get j = (binScalar (fun x y => x * (1 / y)) 4 a s).get j := by
  simp only [quatDivScalar, binScalar]
  have := loopVal_prefix (fun x d => x * d) ((1:K) / s.get a) s 4 j
  simpa using this
theorem quatAddScalar_correct (a : Nat) (s : Store K) :
    (quatAddScalar a s).get 0 = s.get 0 + s.get a ∧ ∀ j, j ≠ 0 → (quatAddScalar a s).get j = s.get j := by
  constructor
  · simp [quatAddScalar, upd]
  · intro j hj; simp [quatAddScalar, upd, hj]
theorem quatSubScalar_correct (a : Nat) (s : Store K) :
    (quatSubScalar a s).get 0 = s.get 0 - s.get a ∧ ∀ j, j ≠ 0 → (quatSubScalar a s).get j = s.get j := by
  constructor
  · simp [quatSubScalar, upd]
  · intro j hj; simp [quatSubScalar, upd, hj]

/-- `Jones *= Jones` with temporaries: every operand position (same object `o = 0`, distinct
`o ≥ 4`, or any other overlap) -/
theorem jonesMulAssignTmp_correct (o : Nat) (s : Store K) (j : Nat) :
    (jonesMulAssignTmp o s).get j = (jonesMulBin o s).get j := by
  simp only [jonesMulAssignTmp, jonesMulBin, upd]
  by_cases h0 : j = 0 <;> by_cases h1 : j = 1 <;> by_cases h2 : j = 2 <;> by_cases h3 : j = 3 <;>
    simp_all
/-- the sequential form is correct for a distinct operand … -/
theorem jonesMulAssignSeq_distinct (o : Nat) (ho : 4 ≤ o) (s : Store K) (j : Nat) :
    (jonesMulAssignSeq o s).get j = (jonesMulBin o s).get j := by
  have e0 : o ≠ 0 := by omega
  have e1 : o ≠ 1 := by omega
  have e2 : o ≠ 2 := by omega
  have e3 : o ≠ 3 := by omega
  have f0 : o + 1 ≠ 0 := by omega
  have f1 : o + 1 ≠ 1 := by omega
  have f3 : o + 1 ≠ 3 := by omega
  have g0 : o + 2 ≠ 0 := by omega
  have g1 : o + 2 ≠ 1 := by omega
  have g3 : o + 2 ≠ 3 := by omega
  have k0 : o + 3 ≠ 0 := by omega
  have k1 : o + 3 ≠ 1 := by omega
  have k3 : o + 3 ≠ 3 := by omega
  simp only [jonesMulAssignSeq, jonesMulBin, upd]
  by_cases h0 : j = 0 <;> by_cases h1 : j = 1 <;> by_cases h2 : j = 2 <;> by_cases h3 : j = 3 <;>
    simp_all
/-- … and wrong when the operand is the object itself (why the repair was needed) -/
theorem jonesMulAssignSeq_self_counterexample :
    ∃ s : Store ℚ, (jonesMulAssignSeq 0 s).get 2 ≠ (jonesMulBin 0 s).get 2 := by
  refine ⟨⟨fun i => if i = 0 then 1 else if i = 1 then 2 else if i = 2 then 3 else 4⟩, ?_⟩
  simp [jonesMulAssignSeq, jonesMulBin, upd]
/-- by-reference scalar with an element alias is wrong (why the repair was needed):
`(2,4,6) /= element 0` gives `(1,4,6)`, not `(1,2,3)` -/
theorem loopScalar_ref_alias_counterexample :
    ∃ s : Store ℚ, (loopScalar .ref (· / ·) 3 0 s).get 1 ≠ (binScalar (· / ·) 3 0 s).get 1 := by
  refine ⟨⟨fun i => if i = 0 then 2 else if i = 1 then 4 else 6⟩, ?_⟩
  simp [loopScalar, binScalar, upd, List.range_succ]; norm_num

/-- `Estimate += -= *=`: same object (`o = 0`) or distinct (`o ≥ 2`) -/
theorem estAddAssign_correct (o : Nat) (ho : o = 0 ∨ 2 ≤ o) (s : Store K) (j : Nat) :
    (estAddAssign o s).get j = (estAddBin o s).get j := by
  simp only [estAddAssign, estAddBin, upd]
  rcases ho with rfl | ho
  · by_cases h0 : j = 0 <;> by_cases h1 : j = 1 <;> simp_all
  · have : o ≠ 0 := by omega
    have : o + 1 ≠ 0 := by omega
    have : o + 1 ≠ 1 := by omega
    by_cases h0 : j = 0 <;> by_cases h1 : j = 1 <;> simp_all
theorem estSubAssign_correct (o : Nat) (ho : o = 0 ∨ 2 ≤ o) (s : Store K) (j : Nat) :
    (estSubAssign o s).get j = (estSubBin o s).get j := by
  simp only [estSubAssign, estSubBin, upd]
  rcases ho with rfl | ho
  · by_cases h0 : j = 0 <;> by_cases h1 : j = 1 <;> simp_all
  · have : o ≠ 0 := by omega
    have : o + 1 ≠ 0 := by omega
    have : o + 1 ≠ 1 := by omega
    by_cases h0 : j = 0 <;> by_cases h1 : j = 1 <;> simp_all
theorem estMulAssign_correct (o : Nat) (ho : o = 0 ∨ 2 ≤ o) (s : Store K) (j : Nat) :
    (estMulAssign o s).get j = (estMulBin o s).get j := by
  simp only [estMulAssign, estMulBin, upd]
  rcases ho with rfl | ho
  · by_cases h0 : j = 0 <;> by_cases h1 : j = 1 <;> simp_all
  · have : o ≠ 0 := by omega
    have : o ≠ 1 := by omega
    have : o + 1 ≠ 0 := by omega
    have : o + 1 ≠ 1 := by omega
    by_cases h0 : j = 0 <;> by_cases h1 : j = 1 <;> simp_all

/-- the current source uses the repaired forms -/
theorem current_modes : currentVectorScalarMode = .val ∧ currentQuatScalarMode = .val ∧
    currentJonesMulSequential = false := ⟨rfl, rfl, rfl⟩

end ops
end Epsic.C16
