import EpsicProofs.FieldArith
namespace Epsic.C06
end Epsic.C06
