import EpsicProofs.Lemmas.Linear
import Mathlib.Algebra.BigOperators.Intervals
import Mathlib.Tactic.Linarith
/-! # C06 — sample-mean statistics follow exactly from per-instance (cross-)covariances

`Sim.sampleCovEntry` / `Sim.sampleXCovEntry` are `sample::get_covariance(mode*, n)` and
`sample::get_crosscovariance(mode*, lag, n)` for one matrix entry (all matrix operations there are
element-wise).  `X l` is the mode's per-instance cross-covariance at instance lag `l`.  For every
`n ≥ 1`, every sample lag and every sequence `X`. -/
set_option linter.unusedSectionVars false
set_option linter.unusedVariables false
namespace Epsic.C06
open Epsic Finset
variable {K : Type} [Field K] [DecidableEq K] [CharZero K]

/-- absolute instance lag between instance `i` of the later sample and instance `j` of the earlier -/
def alag (a j : Nat) : Nat := if a ≥ j then a - j else j - a

/-- the exact double sum over all pairs of instances -/
def doubleSum (X : Nat → K) (lag n : Nat) : K := ∑ i ∈ range n, ∑ j ∈ range n, X (alag (lag * n + i) j)

theorem foldl_range_add (n : Nat) (f : Nat → K) (a : K) :
    (List.range n).foldl (fun acc k => acc + f k) a = a + ∑ k ∈ range n, f k := by
  induction n generalizing a with
  | zero => simp
  | succ n ih => rw [List.range_succ, List.foldl_append]; simp [ih, Finset.sum_range_succ, add_assoc]

/-- the cross-covariance loop *is* the double sum divided by `n²` -/
theorem sampleXCov_eq (X : Nat → K) (lag n : Nat) :
    Sim.sampleXCovEntry X lag n (Sim.nSqScalar n) = doubleSum X lag n / ((n : K) * n) := by
  unfold Sim.sampleXCovEntry doubleSum Sim.nSqScalar
  simp only [zero_eq, ofNat_eq]
  congr 1
  have inner : ∀ (i : Nat) (acc : K), (List.range n).foldl (fun acc2 j =>
      acc2 + X (if lag * n + i ≥ j then lag * n + i - j else j - (lag * n + i))) acc
      = acc + ∑ j ∈ range n, X (alag (lag * n + i) j) := by
    intro i acc; rw [foldl_range_add]; rfl
  simp only [inner]
  have outer : ∀ (m : Nat) (a : K), (List.range m).foldl (fun acc i => acc + ∑ j ∈ range n, X (alag (lag * n + i) j)) a
      = a + ∑ i ∈ range m, ∑ j ∈ range n, X (alag (lag * n + i) j) := fun m a => foldl_range_add m _ a
  rw [outer]; simp

/-- the triangle identity behind `get_covariance`: the `n × n` square of instance pairs summed by
diagonals -/
theorem square_by_diagonals (X : Nat → K) (n : Nat) :
    ∑ i ∈ range n, ∑ j ∈ range n, X (alag i j)
      = (n : K) * X 0 + ∑ k ∈ range (n - 1), X (k + 1) * (2 * ((n - (k + 1) : Nat) : K)) := by
  induction n with
  | zero => simp
  | succ n ih =>
    -- peel the last row and the last column
    have hrow : ∀ i ∈ range n, ∑ j ∈ range (n + 1), X (alag i j) = ∑ j ∈ range n, X (alag i j) + X (n - i) := by
      intro i hi
      rw [Finset.sum_range_succ]
      have : i < n := Finset.mem_range.mp hi
      simp [alag, not_le.mpr this]
    have hlast : ∑ j ∈ range (n + 1), X (alag n j) = ∑ j ∈ range n, X (n - j) + X 0 := by
      rw [Finset.sum_range_succ]
      congr 1
      · apply Finset.sum_congr rfl; intro j hj
        have : j < n := Finset.mem_range.mp hj
        simp [alag, le_of_lt this]
      · simp [alag]
    rw [Finset.sum_range_succ, Finset.sum_congr rfl hrow, Finset.sum_add_distrib, ih, hlast]
    -- Σ_{i<n} X (n - i) = Σ_{k<n} X (k+1)
    have hrefl : ∑ i ∈ range n, X (n - i) = ∑ k ∈ range n, X (k + 1) := by
      rw [← Finset.sum_range_reflect]
      apply Finset.sum_congr rfl; intro k hk
      have : k < n := Finset.mem_range.mp hk
      congr 1; omega
    rw [hrefl]
    cases n with
    | zero => simp
    | succ m =>
      simp only [Nat.add_sub_cancel]
      rw [Finset.sum_range_succ (fun k => X (k + 1) * (2 * (((m + 1 + 1 - (k + 1) : Nat)) : K)))]
      have h1 : ∀ k ∈ range m, X (k + 1) * (2 * (((m + 1 + 1 - (k + 1) : Nat)) : K))
          = X (k + 1) * (2 * (((m + 1 - (k + 1) : Nat)) : K)) + 2 * X (k + 1) := by
        intro k hk
        have hk' : k < m := Finset.mem_range.mp hk
        have e1 : m + 1 + 1 - (k + 1) = (m + 1 - (k + 1)) + 1 := by omega
        rw [e1]; push_cast; ring
      rw [Finset.sum_congr rfl h1, Finset.sum_add_distrib, Finset.sum_range_succ (fun k => X (k + 1))]
      have e2 : m + 1 + 1 - (m + 1) = 1 := by omega
      rw [e2]
      simp only [← Finset.mul_sum]
      push_cast
      ring

/-- **predicted covariance of the sample mean = the double sum over all instance pairs / n²**
(when the mode's lag-0 cross-covariance is its covariance) -/
theorem sampleCov_eq (X : Nat → K) (n : Nat) :
    Sim.sampleCovEntry (X 0) X n (Sim.nSqScalar n) = doubleSum X 0 n / ((n : K) * n) := by
  unfold Sim.sampleCovEntry doubleSum Sim.nSqScalar
  simp only [ofNat_eq, two_eq, Nat.zero_mul, Nat.zero_add]
  congr 1
  rw [foldl_range_add, square_by_diagonals]
  ring
/-- **the predicted cross-covariance at lag zero equals the predicted covariance** -/
theorem xcov_lag0_eq_cov (X : Nat → K) (n : Nat) :
    Sim.sampleXCovEntry X 0 n (Sim.nSqScalar n) = Sim.sampleCovEntry (X 0) X n (Sim.nSqScalar n) := by
  rw [sampleXCov_eq, sampleCov_eq]
/-- for a mode whose lag-0 cross-covariance differs from its covariance (`c ≠ X 0`) the two disagree:
the defect the repair of the modulated modes removed -/
theorem lag0_mismatch_propagates (X : Nat → K) (c : K) (n : Nat) (hn : 0 < n) (hc : c ≠ X 0) :
    Sim.sampleCovEntry c X n (Sim.nSqScalar n) ≠ Sim.sampleCovEntry (X 0) X n (Sim.nSqScalar n) := by
  unfold Sim.sampleCovEntry Sim.nSqScalar
  simp only [ofNat_eq, two_eq, foldl_range_add]
  have hn' : (n : K) ≠ 0 := Nat.cast_ne_zero.mpr (Nat.pos_iff_ne_zero.mp hn)
  intro h
  have h2 : (n : K) * n ≠ 0 := mul_ne_zero hn' hn'
  rw [div_left_inj' h2] at h
  have : c * n = X 0 * n := by linear_combination h
  exact hc (mul_right_cancel₀ hn' this)

/-- the machine-integer side condition: the divisor the source used before the repair wraps to zero -/
theorem nSq_wraps_at_65536 : (Sim.nSqWrapped 65536 : ℚ) = 0 := by
  simp [Sim.nSqWrapped]
theorem nSq_agree_below (n : Nat) (h : n < 65536) : (Sim.nSqWrapped n : K) = Sim.nSqScalar n := by
  unfold Sim.nSqWrapped Sim.nSqScalar
  have : n * n < 4294967296 := by nlinarith
  rw [Nat.mod_eq_of_lt this]; simp
theorem current_repaired : Sim.currentNSqRepaired = true ∧ Sim.currentLag0Repaired = true := ⟨rfl, rfl⟩

/-- a sample of `n` instances is generated from exactly `n` draws: the mean of the first `n`
elements of the instance stream -/
def singleSample (n : Nat) (src : Nat → K) : K := (List.range n).foldl (fun acc i => acc + src i) 0 / n
theorem singleSample_eq (n : Nat) (src : Nat → K) : singleSample n src = (∑ i ∈ range n, src i) / n := by
  unfold singleSample; rw [foldl_range_add]; simp
theorem singleSample_uses_first_n (n : Nat) (src src' : Nat → K) (h : ∀ i < n, src i = src' i) :
    singleSample n src = singleSample n src' := by
  rw [singleSample_eq, singleSample_eq]
  congr 1; apply Finset.sum_congr rfl; intro i hi; exact h i (Finset.mem_range.mp hi)

/-! non-vacuity -/
example : doubleSum (fun l => if l = 0 then (2:ℚ) else if l = 1 then 1 else 0) 0 3 = 10 := by
  simp [doubleSum, alag, Finset.sum_range_succ]; norm_num

end Epsic.C06
