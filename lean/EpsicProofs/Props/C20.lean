import EpsicModel.TrueMath
/-! # C20 — non-finite values are detected (bit-level statement)

`finite` is false exactly when some component has an all-ones exponent field (NaN or infinity), for
containers of every length; the sign-bit predicate is the most significant bit, so it separates
`-0, -inf, -x` from `+0, +inf, +x`. -/
namespace Epsic.C20
open Epsic.TrueMath

/-- a binary64 value is NaN or ±infinity iff its exponent field is all ones -/
def isNanOrInf64 (b : BitVec 64) : Bool := ((b >>> 52) &&& 0x7ff) == 0x7ff
theorem finite64_iff (b : BitVec 64) : finite64 b = !isNanOrInf64 b := by
  simp [finite64, isNanOrInf64, bne]
theorem finite32_iff (b : BitVec 32) : finite32 b = !(((b >>> 23) &&& 0xff) == 0xff) := by
  simp [finite32, bne]
theorem finite80_iff (b : BitVec 80) : finite80 b = !(((b >>> 64) &&& 0x7fff) == 0x7fff) := by
  simp [finite80, bne]

/-- **containers of every length**: not finite iff some component is NaN or infinite -/
theorem finiteAll_false_iff {n : Nat} (fin : BitVec n → Bool) (xs : List (BitVec n)) :
    finiteAll fin xs = false ↔ ∃ x ∈ xs, fin x = false := by
  induction xs with
  | nil => simp [finiteAll]
  | cons x xs ih =>
    simp only [finiteAll, List.all_cons, Bool.and_eq_false_iff] at ih ⊢
    constructor
    · rintro (h | h)
      · exact ⟨x, List.mem_cons_self .., h⟩
      · obtain ⟨y, hy, hf⟩ := ih.mp h; exact ⟨y, List.mem_cons_of_mem _ hy, hf⟩
    · rintro ⟨y, hy, hf⟩
      rcases List.mem_cons.mp hy with rfl | hy
      · exact Or.inl hf
      · exact Or.inr (ih.mpr ⟨y, hy, hf⟩)
theorem finiteAll_true_iff {n : Nat} (fin : BitVec n → Bool) (xs : List (BitVec n)) :
    finiteAll fin xs = true ↔ ∀ x ∈ xs, fin x = true := by
  simp [finiteAll, List.all_eq_true]
/-- the estimate predicate ignores the variance -/
theorem finiteEst_ignores_variance {n : Nat} (fin : BitVec n → Bool) (v r r' : BitVec n) :
    finiteEst fin v r = finiteEst fin v r' := rfl

/-- special values (binary64) -/
theorem specials64 :
    finite64 0x7ff8000000000000#64 = false ∧ finite64 0x7ff0000000000000#64 = false ∧ finite64 0xfff0000000000000#64 = false ∧
    finite64 0x0000000000000000#64 = true ∧ finite64 0x8000000000000000#64 = true ∧ finite64 0x0000000000000001#64 = true ∧
    finite64 0x7fefffffffffffff#64 = true := by decide
/-- the sign bit separates negative zero, negative infinity and negative values from their positive counterparts -/
theorem signbit64_specials :
    signbit64 0x8000000000000000#64 = true ∧ signbit64 0x0000000000000000#64 = false ∧
    signbit64 0xfff0000000000000#64 = true ∧ signbit64 0x7ff0000000000000#64 = false ∧
    signbit64 0xbff0000000000000#64 = true ∧ signbit64 0x3ff0000000000000#64 = false := by decide
/-- negation (flipping the top bit) flips the sign-bit predicate and preserves finiteness -/
theorem signbit64_neg (b : BitVec 64) : signbit64 (b ^^^ 0x8000000000000000#64) = !signbit64 b := by
  have h : (0x8000000000000000#64).msb = true := by decide
  simp [signbit64, BitVec.msb_xor, h]

end Epsic.C20
