import EpsicProofs.FieldArith
import EpsicModel.Rand
import Mathlib.Algebra.Order.Field.Basic
import Mathlib.Tactic.Linarith
import Mathlib.Tactic.Positivity
import Mathlib.Tactic.FieldSimp
import Mathlib.Tactic.Ring
import Mathlib.Analysis.SpecialFunctions.Log.Basic
/-! # C18 — random sources honour their distributional and range contracts

`Rand.evaluate` is `BoxMuller::evaluate` over an explicit uniform stream.  The refinement theorems hold
for **every** uniform stream, **every** number of calls and **every** choice of the floating-point
leaves (`PairOps`); the range theorems are over an arbitrary ordered field. -/
set_option linter.unusedSectionVars false
set_option linter.unusedVariables false
namespace Epsic.C18
open Epsic Epsic.Rand

section stream
variable {U D : Type} (ops : PairOps U D)

theorem drawPair_none (us : List U) (h : drawPair ops us = none) : deviates ops us = [] ∧ accepted ops us = [] := by
  fun_induction drawPair ops us with
  | case1 u1 u2 rest hr ih => simp only [deviates, accepted, hr, if_true]; exact ih h
  | case2 u1 u2 rest hr => simp at h
  | case3 us hne => unfold deviates accepted; split <;> first | (exfalso; exact hne _ _ _ rfl) | exact ⟨rfl, rfl⟩

theorem drawPair_some (us : List U) (a b : D) (rest : List U) (h : drawPair ops us = some (a, b, rest)) :
    deviates ops us = a :: b :: deviates ops rest ∧ accepted ops us = (a, b) :: accepted ops rest := by
  fun_induction drawPair ops us with
  | case1 u1 u2 rest' hr ih => simp only [deviates, accepted, hr, if_true]; exact ih h
  | case2 u1 u2 rest' hr =>
    simp only [Option.some.injEq, Prod.mk.injEq] at h
    obtain ⟨rfl, rfl, rfl⟩ := h
    simp [deviates, accepted, hr]
  | case3 us hne => simp at h

/-- the loop consumes uniforms strictly two at a time: what is left is the input with an even number dropped -/
theorem drawPair_consumes_pairs (us : List U) (a b : D) (rest : List U) (h : drawPair ops us = some (a, b, rest)) :
    ∃ k, 0 < k ∧ rest = us.drop (2 * k) := by
  fun_induction drawPair ops us with
  | case1 u1 u2 rest' hr ih =>
    obtain ⟨k, hk, hk2⟩ := ih h
    exact ⟨k + 1, by omega, by rw [hk2]; simp [Nat.mul_add]⟩
  | case2 u1 u2 rest' hr =>
    simp only [Option.some.injEq, Prod.mk.injEq] at h
    exact ⟨1, by omega, by simp [h.2.2]⟩
  | case3 us hne => simp at h

/-- **stream refinement, any number of calls, any cache state**: the outputs of `n` successive calls are
the first `n` elements of (cached deviate, if any) followed by every deviate of the uniform stream in
order — two per accepted pair, none repeated, dropped or reordered -/
theorem calls_refine (n : Nat) (st : Option D) (us : List U) :
    (calls ops n st us).1 = (st.toList ++ deviates ops us).take n := by
  induction n generalizing st us with
  | zero => simp [calls]
  | succ n ih =>
    cases st with
    | some d => simp [calls, evaluate, ih]
    | none =>
      cases hp : drawPair ops us with
      | none => simp [calls, evaluate, hp, (drawPair_none ops us hp).1]
      | some r =>
        obtain ⟨a, b, rest⟩ := r
        simp [calls, evaluate, hp, ih, (drawPair_some ops us a b rest hp).1]

/-- a fresh generator: exactly the prefix of the transformed stream -/
theorem fresh_generator (n : Nat) (us : List U) : (calls ops n none us).1 = (deviates ops us).take n := by
  simpa using calls_refine ops n none us

/-- two deviates per accepted pair -/
theorem deviates_eq_accepted (us : List U) : deviates ops us = (accepted ops us).flatMap (fun p => [p.1, p.2]) := by
  fun_induction deviates ops us with
  | case1 u1 u2 rest hr ih => simp [accepted, hr, ih]
  | case2 u1 u2 rest hr ih => simp [accepted, hr, ih]
  | case3 us hne => unfold accepted; split <;> first | (exfalso; exact hne _ _ _ rfl) | rfl

/-- the cache state after `n` calls and the rest of the stream continue the same sequence: splitting a
history of calls anywhere gives the same outputs (long histories are concatenations of short ones) -/
theorem calls_append (n m : Nat) (st : Option D) (us : List U) (hn : (calls ops n st us).1.length = n) :
    (calls ops (n + m) st us).1 = (calls ops n st us).1 ++ (calls ops m (calls ops n st us).2.1 (calls ops n st us).2.2).1 := by
  induction n generalizing st us with
  | zero => simp [calls]
  | succ n ih =>
    rw [show n + 1 + m = (n + m) + 1 by omega]
    cases he : evaluate ops st us with
    | none => simp [calls, he] at hn
    | some r =>
      obtain ⟨d, st', us'⟩ := r
      simp only [calls, he] at hn ⊢
      have := ih st' us' (by simpa using hn)
      simp [this]

/-! ### several generators on one uniform source -/
/-- flatten the pairs the log attributes to one generator -/
def pairsOf (log : List (Bool × D × D)) (g : Bool) : List D :=
  (log.filter (fun e => e.1 == g)).flatMap (fun e => [e.2.1, e.2.2])

/-- invariant of the interleaved run -/
def Inv (us0 : List U) (t : Two D U) : Prop :=
  t.log.map (fun e => (e.2.1, e.2.2)) ++ accepted ops t.us = accepted ops us0 ∧
  t.outA ++ t.stA.toList = pairsOf t.log false ∧
  t.outB ++ t.stB.toList = pairsOf t.log true

theorem inv_init (us0 : List U) : Inv ops us0 { us := us0 } := by simp [Inv, pairsOf]

theorem inv_step (us0 : List U) (t : Two D U) (isB : Bool) (h : Inv ops us0 t) : Inv ops us0 (Two.step ops t isB) := by
  obtain ⟨hl, ha, hb⟩ := h
  unfold Two.step
  split
  · exact ⟨hl, ha, hb⟩
  · cases isB
    · -- generator A
      simp only [Bool.false_eq_true, if_false]
      cases hs : t.stA with
      | some d =>
        refine ⟨hl, ?_, hb⟩
        simp only [Option.toList_none, List.append_nil]
        rw [hs] at ha; simpa using ha
      | none =>
        simp only
        cases hp : drawPair ops t.us with
        | none => exact ⟨hl, by rw [hs] at ha; simpa using ha, hb⟩
        | some r =>
          obtain ⟨a, b, rest⟩ := r
          have hacc := (drawPair_some ops t.us a b rest hp).2
          refine ⟨?_, ?_, ?_⟩
          · simp only [List.map_append, List.map_cons, List.map_nil, List.append_assoc, List.cons_append, List.nil_append]
            rw [← hl, hacc]
          · rw [hs] at ha
            simp only [Option.toList_none, List.append_nil] at ha
            simp [pairsOf, List.filter_append, ← ha]
            simp [pairsOf] at ha; rw [ha]
          · simp only [pairsOf, List.filter_append, List.flatMap_append]
            simp [pairsOf] at hb; simpa using hb
    · -- generator B
      simp only [if_true]
      cases hs : t.stB with
      | some d =>
        refine ⟨hl, ha, ?_⟩
        simp only [Option.toList_none, List.append_nil]
        rw [hs] at hb; simpa using hb
      | none =>
        simp only
        cases hp : drawPair ops t.us with
        | none => exact ⟨hl, ha, by rw [hs] at hb; simpa using hb⟩
        | some r =>
          obtain ⟨a, b, rest⟩ := r
          have hacc := (drawPair_some ops t.us a b rest hp).2
          refine ⟨?_, ?_, ?_⟩
          · simp only [List.map_append, List.map_cons, List.map_nil, List.append_assoc, List.cons_append, List.nil_append]
            rw [← hl, hacc]
          · simp only [pairsOf, List.filter_append, List.flatMap_append]
            simp [pairsOf] at ha; simpa using ha
          · rw [hs] at hb
            simp only [Option.toList_none, List.append_nil] at hb
            simp [pairsOf, List.filter_append, ← hb]
            simp [pairsOf] at hb; rw [hb]

/-- **interleaved histories on several generators**: for every call pattern, the pairs drawn are — in
order, none skipped — the accepted pairs of the consumed part of the shared stream; each generator's
outputs (plus its cached deviate) are exactly both members of the pairs it drew, in order -/
theorem interleaved (us0 : List U) (pat : List Bool) : Inv ops us0 (Two.run ops us0 pat) := by
  have key : ∀ (l : List Bool) (t : Two D U), Inv ops us0 t → Inv ops us0 (l.foldl (Two.step ops) t) := by
    intro l; induction l with
    | nil => intro t h; exact h
    | cons r rs ih => intro t h; exact ih _ (inv_step ops us0 t r h)
  exact key pat _ (inv_init ops us0)
end stream

/-! ## the accepted region -/
/-- on the accepted region `0 < w < 1` the argument of the square root is positive, so both deviates of
an accepted pair are finite real numbers; at `w = 0` (the centre of the square, which the loop now
rejects) the quotient is `log 0 / 0` -/
theorem factor_arg_pos (w : ℝ) (h0 : 0 < w) (h1 : w < 1) : 0 < (-2 * Real.log w) / w := by
  have := Real.log_neg h0 h1
  exact div_pos (by linarith) h0
theorem current_rejects_zero : Rand.currentRejectsZero = true := rfl
/-- a pair is accepted by the repaired loop only if `w` is neither `>= 1` nor zero -/
theorem accepted_region (w : Float32) (h : Rand.rejectW true w = false) : ¬ (w ≥ 1.0) ∧ (w == 0.0) = false := by
  simp only [Rand.rejectW, Bool.true_and, Bool.or_eq_false_iff, decide_eq_false_iff_not] at h
  exact h

/-! ## the seed clause -/
/-- `drand48` state stays a 48-bit value -/
theorem lcg_range (x : Nat) : lcgNext x < 2 ^ 48 := by unfold lcgNext; omega
/-- the value returned is in `[0,1)` -/
theorem lcg_unit (x : Nat) : (0 : ℚ) ≤ (lcgNext x : ℚ) / 2 ^ 48 ∧ (lcgNext x : ℚ) / 2 ^ 48 < 1 := by
  have h := lcg_range x
  constructor
  · positivity
  · rw [div_lt_one (by positivity)]; exact_mod_cast h
/-- the seed determines the stream (reproducibility): only the low 32 bits of the seed matter -/
theorem seed_low32 (s : Int) : srand48 (s + 4294967296) = srand48 s := by
  unfold srand48; rw [Int.add_emod_right]
theorem ctor_seeds (s : Int) : ctorSeeds s = none ↔ s = 0 := by unfold ctorSeeds; split <;> simp_all
/-- the test suite's pinned seed: the first three uniforms of seed 13 (checked against libc by the correspondence run) -/
example : lcgStates 2 (srand48 13) = [138276847833345, 256023450772344] := by decide

/-! ## range contracts over an ordered field -/
section ranges
variable {K : Type} [Field K] [LinearOrder K] [IsStrictOrderedRing K] [DecidableEq K]

/-- `random()` returns `0 … RAND_MAX`, so `random_double` is in `[0,1]` -/
theorem randomDouble_unit (r M : K) (hM : 0 < M) (h0 : 0 ≤ r) (h1 : r ≤ M) :
    0 ≤ randomDouble r M ∧ randomDouble r M ≤ 1 := by
  unfold randomDouble
  exact ⟨div_nonneg h0 hM.le, (div_le_one hM).mpr h1⟩

/-- every component produced by `random_value` lies within plus/minus the scale -/
theorem randomValue_range (u s : K) (h0 : 0 ≤ u) (h1 : u ≤ 1) : |randomValue u s| ≤ |s| := by
  have : randomValue u s = (2 * u - 1) * s := by simp only [randomValue, half_eq, two_eq]; ring
  rw [this, abs_mul]
  have h : |2 * u - 1| ≤ 1 := abs_le.mpr ⟨by linarith, by linarith⟩
  calc |2 * u - 1| * |s| ≤ 1 * |s| := mul_le_mul_of_nonneg_right h (abs_nonneg s)
    _ = |s| := one_mul _

/-- the random polarized fraction is `random_double · max_polarization`, between zero and `max_polarization` -/
theorem fraction_eq (sqrtF : K → K) (u0 u1 u2 u3 s mp : K) :
    (randomStokes sqrtF u0 u1 u2 u3 s mp).fraction = u0 * mp := by
  simp only [randomStokes, randomValue, half_eq, two_eq]; ring
theorem fraction_range (sqrtF : K → K) (u0 u1 u2 u3 s mp : K) (h0 : 0 ≤ u0) (h1 : u0 ≤ 1) (hmp : 0 ≤ mp) :
    0 ≤ (randomStokes sqrtF u0 u1 u2 u3 s mp).fraction ∧ (randomStokes sqrtF u0 u1 u2 u3 s mp).fraction ≤ mp := by
  rw [fraction_eq]
  exact ⟨mul_nonneg h0 hmp, by calc u0 * mp ≤ 1 * mp := mul_le_mul_of_nonneg_right h1 hmp
                                  _ = mp := one_mul _⟩

/-- the polarization vector is the random direction rescaled by `scale · fraction / modp` -/
theorem randomStokes_vector (sqrtF : K → K) (u0 u1 u2 u3 s mp : K) :
    let d := randomStokes sqrtF u0 u1 u2 u3 s mp
    sqrVect (d.s 1) (d.s 2) (d.s 3)
      = sqrVect (randomValue u1 1) (randomValue u2 1) (randomValue u3 1) * (s * (d.fraction / d.modp)) ^ 2 := by
  simp only [randomStokes, sqrVect, one_eq]; ring

/-- the direction vector cannot vanish: `random()/RAND_MAX = 1/2` has no integer solution because
`RAND_MAX = 2^31 - 1` is odd, so each component `2u - 1` is non-zero -/
theorem direction_component_ne_zero (r : ℕ) : randomValue (randomDouble (r : ℚ) 2147483647) 1 ≠ 0 := by
  simp only [randomValue, randomDouble, half_eq, two_eq]
  intro h
  have h2 : (2 * r : ℚ) = 2147483647 := by field_simp at h; linarith
  have h3 : 2 * r = 2147483647 := by exact_mod_cast h2
  omega
theorem direction_sq_pos (v1 v2 v3 : K) (h : v1 ≠ 0) : 0 < sqrVect v1 v2 v3 := by
  unfold sqrVect
  have := mul_self_pos.mpr h
  nlinarith [mul_self_nonneg v2, mul_self_nonneg v3]

/-- **random Stokes vector**: total intensity is exactly the scale; with an exact square root of a
non-zero polarization vector the squared polarized intensity is `(scale · fraction)²`, so the polarized
intensity is `|scale| · fraction ∈ [0, max · |scale|]`, and the Lorentz invariant is
`scale² (1 − fraction²) ≥ 0` for `max ≤ 1` -/
theorem randomStokes_contract (sqrtF : K → K) (u0 u1 u2 u3 s mp : K) (h0 : 0 ≤ u0) (h1 : u0 ≤ 1) (hmp : 0 ≤ mp) (hmp1 : mp ≤ 1)
    (hsq : sqrtF (sqrVect (randomValue u1 1) (randomValue u2 1) (randomValue u3 1)) * sqrtF (sqrVect (randomValue u1 1) (randomValue u2 1) (randomValue u3 1))
        = sqrVect (randomValue u1 1) (randomValue u2 1) (randomValue u3 1))
    (hne : sqrtF (sqrVect (randomValue u1 1) (randomValue u2 1) (randomValue u3 1)) ≠ 0) :
    let d := randomStokes sqrtF u0 u1 u2 u3 s mp
    d.s 0 = s ∧
    sqrVect (d.s 1) (d.s 2) (d.s 3) = (s * d.fraction) ^ 2 ∧
    sqrVect (d.s 1) (d.s 2) (d.s 3) ≤ (mp * s) ^ 2 ∧
    d.invariant = s ^ 2 * (1 - d.fraction ^ 2) ∧ 0 ≤ d.invariant := by
  intro d
  obtain ⟨hfnn, hf1⟩ := fraction_range sqrtF u0 u1 u2 u3 s mp h0 h1 hmp
  have hmodp : d.modp = sqrtF (sqrVect (randomValue u1 1) (randomValue u2 1) (randomValue u3 1)) := rfl
  have key : sqrVect (d.s 1) (d.s 2) (d.s 3) = (s * d.fraction) ^ 2 := by
    have hm0 : d.modp ≠ 0 := by rw [hmodp]; exact hne
    have e := randomStokes_vector sqrtF u0 u1 u2 u3 s mp
    simp only at e
    rw [← hsq] at e
    change sqrVect (d.s 1) (d.s 2) (d.s 3) = d.modp * d.modp * (s * (d.fraction / d.modp)) ^ 2 at e
    rw [e]
    generalize d.modp = m at hm0 ⊢
    generalize d.fraction = f
    field_simp
  have hinv : d.invariant = s * s - sqrVect (d.s 1) (d.s 2) (d.s 3) := rfl
  have hf1' : d.fraction ^ 2 ≤ 1 := by
    have := pow_le_pow_left₀ hfnn (le_trans hf1 hmp1) 2
    simpa using this
  refine ⟨rfl, key, ?_, ?_, ?_⟩
  · rw [key]
    have : (s * d.fraction) ^ 2 = d.fraction ^ 2 * s ^ 2 := by ring
    rw [this, mul_pow]
    exact mul_le_mul_of_nonneg_right (pow_le_pow_left₀ hfnn hf1 2) (sq_nonneg s)
  · rw [hinv, key]; ring
  · rw [hinv, key]
    nlinarith [sq_nonneg s, mul_nonneg (sq_nonneg s) (sub_nonneg.mpr hf1')]
end ranges

/-! non-vacuity -/
example : (randomStokes (fun x : ℚ => if x = 9/4 then 3/2 else 0) 1 1 1 (3/4) 1 1).invariant = 0 := by
  simp [randomStokes, randomValue, sqrVect, half_eq, two_eq]; norm_num
example : calls (⟨fun a b => a + b ≥ 3, fun a _ => a, fun _ b => b⟩ : PairOps Nat Nat) 3 none [2, 2, 0, 1, 1, 1] = ([0, 1, 1], some 1, []) := by
  decide

end Epsic.C18
