import EpsicProofs.Lemmas.Algebra
/-! # C03 — quaternion and biquaternion types are isomorphic to Jones matrices
Theorems over an arbitrary field `K` (hence for every input). -/
set_option linter.unusedSectionVars false
namespace Epsic.C03
open Epsic Epsic.Pauli
variable {K : Type} [Field K] [DecidableEq K] [CharZero K]

/-- tactic: split into scalar components, unfold the model, close by `ring` -/
macro "alg" : tactic =>
  `(tactic| ((first | ext | skip) <;> simp only [epsic] <;> (try field_simp) <;> ring))

/-! ## the maps are mutually inverse -/
theorem toHermitian_convertHC (q : Quat (Cx K)) : toHermitian (convertHC q) = q := by alg
theorem convertHC_toHermitian (j : Jones K) : convertHC (toHermitian j) = j := by alg
theorem toUnitary_convertUC (q : Quat (Cx K)) : toUnitary (convertUC q) = q := by alg
theorem convertUC_toUnitary (j : Jones K) : convertUC (toUnitary j) = j := by alg

/-! ## products -/
theorem convertHC_mul (a b : Quat (Cx K)) :
    convertHC (Quat.mulH a b) = convertHC a * convertHC b := by alg
theorem convertUC_mul (a b : Quat (Cx K)) :
    convertUC (Quat.mulU a b) = convertUC a * convertUC b := by alg
end Epsic.C03
