import EpsicProofs.Lemmas.Algebra
/-! # C03 — quaternion and biquaternion types are isomorphic to Jones matrices

Every theorem is over an arbitrary field `K` of characteristic zero (so it holds for ℚ — the
instance the driver runs and the harness compares exactly — and for ℝ), for all arguments.
`convertHC/convertUC` are `convert(Quaternion<complex<T>,Hermitian|Unitary>)`, `toHermitian` is
`convert(Jones)`, `toUnitary` is `unitary(Jones)`, `convertHR/convertUR` the real overloads. -/
set_option linter.unusedSectionVars false
set_option linter.unusedVariables false
namespace Epsic.C03
open Epsic Epsic.Pauli
variable {K : Type} [Field K] [DecidableEq K] [CharZero K]

/-- split into scalar components, unfold the model, close by field arithmetic -/
macro "alg" : tactic =>
  `(tactic| ((first | ext | skip) <;> simp only [epsic, Cx.norm_def] <;> (try field_simp) <;> ring))

/-! ## the maps are mutually inverse -/
theorem toHermitian_convertHC (q : Quat (Cx K)) : toHermitian (convertHC q) = q := by alg
theorem convertHC_toHermitian (j : Jones K) : convertHC (toHermitian j) = j := by alg
theorem toUnitary_convertUC (q : Quat (Cx K)) : toUnitary (convertUC q) = q := by alg
theorem convertUC_toUnitary (j : Jones K) : convertUC (toUnitary j) = j := by alg

/-! ## sum, difference, negation, zero, identity, scalar multiples -/
theorem convertHC_add (a b : Quat (Cx K)) : convertHC (a + b) = convertHC a + convertHC b := by alg
theorem convertUC_add (a b : Quat (Cx K)) : convertUC (a + b) = convertUC a + convertUC b := by alg
theorem convertHC_sub (a b : Quat (Cx K)) : convertHC (a - b) = convertHC a - convertHC b := by alg
theorem convertUC_sub (a b : Quat (Cx K)) : convertUC (a - b) = convertUC a - convertUC b := by alg
theorem convertHC_neg (a : Quat (Cx K)) : convertHC (-a) = -convertHC a := by alg
theorem convertUC_neg (a : Quat (Cx K)) : convertUC (-a) = -convertUC a := by alg
theorem convertHC_zero : convertHC (Quat.ofScalar (zero : Cx K)) = Jones.zeroJ := by alg
theorem convertUC_zero : convertUC (Quat.ofScalar (zero : Cx K)) = Jones.zeroJ := by alg
theorem convertHC_identity : convertHC (Quat.identity : Quat (Cx K)) = Jones.identity := by alg
theorem convertUC_identity : convertUC (Quat.identity : Quat (Cx K)) = Jones.identity := by alg
theorem convertHC_smul (a : Quat (Cx K)) (c : Cx K) : convertHC (Quat.smul a c) = Jones.smulC c (convertHC a) := by alg
theorem convertUC_smul (a : Quat (Cx K)) (c : Cx K) : convertUC (Quat.smul a c) = Jones.smulC c (convertUC a) := by alg

/-! ## products -/
theorem convertHC_mul (a b : Quat (Cx K)) : convertHC (Quat.mulH a b) = convertHC a * convertHC b := by alg
theorem convertUC_mul (a b : Quat (Cx K)) : convertUC (Quat.mulU a b) = convertUC a * convertUC b := by alg
theorem convertUR_mul (a b : Quat K) : convertUR (Quat.mulU a b) = convertUR a * convertUR b := by alg

/-! ## determinant, trace, Frobenius norm, conjugate, Hermitian transpose -/
theorem det_convertHC (a : Quat (Cx K)) : (convertHC a).det = Quat.detH a := by alg
theorem det_convertUC (a : Quat (Cx K)) : (convertUC a).det = Quat.detU a := by alg
theorem trace_convertHC (a : Quat (Cx K)) : (convertHC a).trace = Quat.trace a := by alg
theorem trace_convertUC (a : Quat (Cx K)) : (convertUC a).trace = Quat.trace a := by alg
theorem norm_convertHC (a : Quat (Cx K)) : (convertHC a).norm = Quat.normC a := by alg
theorem norm_convertUC (a : Quat (Cx K)) : (convertUC a).norm = Quat.normC a := by alg
theorem conj_convertHC (a : Quat (Cx K)) : (convertHC a).conj = convertHC (Quat.conjHC a) := by alg
theorem conj_convertUC (a : Quat (Cx K)) : (convertUC a).conj = convertUC (Quat.conjUC a) := by alg
theorem herm_convertHC (a : Quat (Cx K)) : (convertHC a).herm = convertHC (Quat.hermHC a) := by alg
theorem herm_convertUC (a : Quat (Cx K)) : (convertUC a).herm = convertUC (Quat.hermUC a) := by alg

/-! ## inverse: defined exactly when the matrix inverse is, and mapped to it -/
theorem convertHC_inv (a : Quat (Cx K)) : convertHC <$> Quat.invHC a = (convertHC a).inv := by
  by_cases h : (Quat.detH a).norm = 0
  · have hd : (convertHC a).det.norm = 0 := by rw [det_convertHC]; exact h
    simp only [Quat.invHC, Quat.invWith, Quat.recipNegC, Jones.inv, Cx.div_err h, Cx.div_err hd]; rfl
  · have hd : (convertHC a).det.norm ≠ 0 := by rw [det_convertHC]; exact h
    simp only [Quat.invHC, Quat.invWith, Quat.recipNegC, Jones.inv, Cx.div_ok h, Cx.div_ok hd]
    show Except.ok _ = Except.ok _
    congr 1
    simp only [det_convertHC]
    simp only [epsic] at h
    ext <;> simp only [epsic] <;> field_simp <;> (try simp only [epsic, Cx.norm_def]) <;> ring
theorem convertUC_inv (a : Quat (Cx K)) : convertUC <$> Quat.invUC a = (convertUC a).inv := by
  by_cases h : (Quat.detU a).norm = 0
  · have hd : (convertUC a).det.norm = 0 := by rw [det_convertUC]; exact h
    simp only [Quat.invUC, Quat.invWith, Quat.recipNegC, Jones.inv, Cx.div_err h, Cx.div_err hd]; rfl
  · have hd : (convertUC a).det.norm ≠ 0 := by rw [det_convertUC]; exact h
    simp only [Quat.invUC, Quat.invWith, Quat.recipNegC, Jones.inv, Cx.div_ok h, Cx.div_ok hd]
    show Except.ok _ = Except.ok _
    congr 1
    simp only [det_convertUC]
    simp only [epsic] at h
    ext <;> simp only [epsic] <;> field_simp <;> (try simp only [epsic, Cx.norm_def]) <;> ring
/-- non-singular case spelled out: the inverse exists on both sides -/
theorem invHC_ok (a : Quat (Cx K)) (h : (Quat.detH a).norm ≠ 0) : ∃ x, Quat.invHC a = .ok x := by
  simp only [Quat.invHC, Quat.invWith, Quat.recipNegC, Cx.div_ok h]; exact ⟨_, rfl⟩
theorem invUC_ok (a : Quat (Cx K)) (h : (Quat.detU a).norm ≠ 0) : ∃ x, Quat.invUC a = .ok x := by
  simp only [Quat.invUC, Quat.invWith, Quat.recipNegC, Cx.div_ok h]; exact ⟨_, rfl⟩
/-- singular case: both sides report the division error -/
theorem inv_singular_H (a : Quat (Cx K)) (h : (Quat.detH a).norm = 0) :
    Quat.invHC a = .error .div0 ∧ (convertHC a).inv = .error .div0 := by
  have hd : (convertHC a).det.norm = 0 := by rw [det_convertHC]; exact h
  constructor
  · simp only [Quat.invHC, Quat.invWith, Quat.recipNegC, Cx.div_err h]; rfl
  · simp only [Jones.inv, Cx.div_err hd]; rfl
theorem inv_singular_U (a : Quat (Cx K)) (h : (Quat.detU a).norm = 0) :
    Quat.invUC a = .error .div0 ∧ (convertUC a).inv = .error .div0 := by
  have hd : (convertUC a).det.norm = 0 := by rw [det_convertUC]; exact h
  constructor
  · simp only [Quat.invUC, Quat.invWith, Quat.recipNegC, Cx.div_err h]; rfl
  · simp only [Jones.inv, Cx.div_err hd]; rfl

/-! ## real quaternions: the real overloads are the complex ones on real components -/
theorem convertHR_eq (q : Quat K) : convertHR q = convertHC (Quat.ofReal q) := by alg
theorem convertUR_eq (q : Quat K) : convertUR q = convertUC (Quat.ofReal q) := by alg
/-- a real Hermitian-basis quaternion always maps to a Hermitian matrix -/
theorem convertHR_hermitian (q : Quat K) : (convertHR q).herm = convertHR q := by alg
/-- a real Unitary-basis quaternion maps to a scaled unitary matrix: `J J† = det · 1` -/
theorem convertUR_scaled_unitary (q : Quat K) :
    convertUR q * (convertUR q).herm = Jones.ofScalar (Cx.ofReal (Quat.detU q)) := by alg
theorem herm_mul_convertUR (q : Quat K) :
    (convertUR q).herm * convertUR q = Jones.ofScalar (Cx.ofReal (Quat.detU q)) := by alg
theorem det_convertHR (q : Quat K) : (convertHR q).det = Cx.ofReal (Quat.detH q) := by alg
theorem det_convertUR (q : Quat K) : (convertUR q).det = Cx.ofReal (Quat.detU q) := by alg
theorem norm_convertHR (q : Quat K) : (convertHR q).norm = Quat.normR q := by alg
theorem norm_convertUR (q : Quat K) : (convertUR q).norm = Quat.normR q := by alg
theorem conj_convertHR (q : Quat K) : (convertHR q).conj = convertHR (Quat.conjHR q) := by alg
theorem conj_convertUR (q : Quat K) : (convertUR q).conj = convertUR (Quat.conjUR q) := by alg
theorem herm_convertUR (q : Quat K) : (convertUR q).herm = convertUR (Quat.hermUR q) := by alg
theorem realQ_ofReal (q : Quat K) : Quat.realQ (Quat.ofReal q) = q := by alg
theorem imagQ_ofReal (q : Quat K) : Quat.imagQ (Quat.ofReal q) = Quat.ofScalar 0 := by alg

/-! ## the four unit quaternions map to the identity and the Pauli matrices -/
def sigma0 : Jones K := ⟨⟨1,0⟩, ⟨0,0⟩, ⟨0,0⟩, ⟨1,0⟩⟩
def sigma1 : Jones K := ⟨⟨1,0⟩, ⟨0,0⟩, ⟨0,0⟩, ⟨-1,0⟩⟩
def sigma2 : Jones K := ⟨⟨0,0⟩, ⟨1,0⟩, ⟨1,0⟩, ⟨0,0⟩⟩
def sigma3 : Jones K := ⟨⟨0,0⟩, ⟨0,-1⟩, ⟨0,1⟩, ⟨0,0⟩⟩
def imagUnit : Cx K := ⟨0, 1⟩
theorem pauli_matrix_0 : (Pauli.matrix 0 : Jones K) = sigma0 := by simp only [sigma0]; alg
theorem pauli_matrix_1 : (Pauli.matrix 1 : Jones K) = sigma1 := by simp only [sigma1]; alg
theorem pauli_matrix_2 : (Pauli.matrix 2 : Jones K) = sigma2 := by simp only [sigma2]; alg
theorem pauli_matrix_3 : (Pauli.matrix 3 : Jones K) = sigma3 := by simp only [sigma3]; alg
theorem unitU_0 : convertUR (⟨1,0,0,0⟩ : Quat K) = sigma0 := by simp only [sigma0]; alg
theorem unitU_1 : convertUR (⟨0,1,0,0⟩ : Quat K) = Jones.smulC imagUnit sigma1 := by
  simp only [sigma1, imagUnit]; alg
theorem unitU_2 : convertUR (⟨0,0,1,0⟩ : Quat K) = Jones.smulC imagUnit sigma2 := by
  simp only [sigma2, imagUnit]; alg
theorem unitU_3 : convertUR (⟨0,0,0,1⟩ : Quat K) = Jones.smulC imagUnit sigma3 := by
  simp only [sigma3, imagUnit]; alg

/-! ## mixed products equal the products of the matrix images
(`Jones * Quaternion`, `Quaternion * Jones`, `Quaternion<A> * Quaternion<B>` are *defined* in
`Pauli.h` through `convert`; the content is that the images multiply like the quaternions) -/
theorem mixed_JQh (j : Jones K) (a b : Quat (Cx K)) :
    (j * convertHC a) * convertHC b = j * convertHC (Quat.mulH a b) := by alg
theorem mixed_JQu (j : Jones K) (a b : Quat (Cx K)) :
    (j * convertUC a) * convertUC b = j * convertUC (Quat.mulU a b) := by alg

/-! ## non-vacuity: a concrete non-trivial instance of the guarded statements -/
example : (Quat.detH (⟨⟨1,2⟩,⟨0,1⟩,⟨3,0⟩,⟨1,1⟩⟩ : Quat (Cx ℚ))).norm ≠ 0 := by
  simp only [epsic, Cx.norm_def]; norm_num
example : (Quat.detU (⟨⟨1,0⟩,⟨0,1⟩,⟨0,0⟩,⟨0,0⟩⟩ : Quat (Cx ℚ))).norm = 0 := by
  simp only [epsic, Cx.norm_def]; norm_num

end Epsic.C03
