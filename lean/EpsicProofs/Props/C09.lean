import EpsicProofs.Props.C10
import EpsicProofs.Props.C04
import EpsicProofs.Props.C03
/-! # C09 — Hermitian square root (and polar decomposition)

`Quat.sqrtH` is `sqrt(Quaternion<T,Hermitian>)` with the scalar square root as a leaf and the
order tests (`<`, `≤`, machine epsilon) as `OrdLeaves`.  Over any linearly ordered field. -/
set_option linter.unusedSectionVars false
set_option linter.unusedVariables false
namespace Epsic.C09
open Epsic Epsic.Pauli Epsic.C10
variable {K : Type} [Field K] [LinearOrder K] [IsStrictOrderedRing K] [DecidableEq K]

/-- the order leaves behave like `<`, `≤` and a non-negative epsilon -/
def OrdSpec (o : Quat.OrdLeaves K) : Prop :=
  (∀ x, o.ltZero x = decide (x < 0)) ∧ (∀ a b, o.le a b = decide (a ≤ b)) ∧ 0 ≤ o.eps
/-- the square-root leaf is defined on every non-negative argument -/
def SqrtTotal (sqrtFn : K → R K) : Prop := ∀ x, 0 ≤ x → ∃ r, sqrtFn x = .ok r

theorem clamp_of_nonneg (o : Quat.OrdLeaves K) (ho : OrdSpec o) (d s0 : K) (hd : 0 ≤ d) : Quat.clampDet o d s0 = d := by
  simp [Quat.clampDet, ho.1, not_lt.mpr hd]
theorem clamp_nonneg (o : Quat.OrdLeaves K) (ho : OrdSpec o) (d s0 : K)
    (hd : 0 ≤ d ∨ -d ≤ 4 * o.eps * s0 * s0) : 0 ≤ Quat.clampDet o d s0 := by
  unfold Quat.clampDet
  rw [ho.1, ho.2.1]
  by_cases h1 : d < 0
  · have h2 : -d ≤ 4 * o.eps * s0 * s0 := by
      rcases hd with h | h
      · exact absurd h (not_le.mpr h1)
      · exact h
    have h2' : -d ≤ 2 * 2 * o.eps * s0 * s0 := by
      calc -d ≤ 4 * o.eps * s0 * s0 := h2
        _ = 2 * 2 * o.eps * s0 * s0 := by ring
    simp [h1, h2']
  · simp [h1, not_lt.mp h1]

/-- **the square root squares back to its argument and is positive semi-definite**, for every
PSD Hermitian quaternion whose (computed) determinant is non-negative -/
theorem sqrt_sq (sqrtFn : K → R K) (hs : SqrtSpec sqrtFn) (o : Quat.OrdLeaves K) (ho : OrdSpec o)
    (h R : Quat K) (hs0 : 0 ≤ h.s0) (hdet : 0 ≤ Quat.detH h) (hres : Quat.sqrtH sqrtFn o h = .ok R) :
    (R.s0*R.s0 + (R.s1*R.s1 + R.s2*R.s2 + R.s3*R.s3) = h.s0 ∧ 2*R.s0*R.s1 = h.s1 ∧ 2*R.s0*R.s2 = h.s2 ∧ 2*R.s0*R.s3 = h.s3) ∧
    (0 ≤ R.s0 ∧ R.s1*R.s1 + R.s2*R.s2 + R.s3*R.s3 ≤ R.s0*R.s0) := by
  unfold Quat.sqrtH Quat.sqrtHWith at hres
  rw [clamp_of_nonneg o ho _ _ hdet] at hres
  cases hrd : sqrtFn (Quat.detH h) with
  | error e => simp [hrd, bind, Except.bind] at hres
  | ok rd =>
    obtain ⟨hrd2, hrd0⟩ := hs _ _ hrd
    simp only [hrd, bind, Except.bind] at hres
    generalize hsc : sqrtFn _ = y at hres
    cases y with
    | error e => simp at hres
    | ok sc =>
      obtain ⟨hsc2', hsc0⟩ := hs _ _ hsc
      have hsc2 : sc * sc = 1 / 2 * (h.s0 + rd) := by rw [hsc2']; simp [half_eq]
      simp only [eq0_eq] at hres
      have hdetdef : Quat.detH h = h.s0*h.s0 - h.s1*h.s1 - h.s2*h.s2 - h.s3*h.s3 := rfl
      by_cases hz : sc = 0
      · -- scalar = 0 forces h = 0
        simp only [hz, decide_true, ↓reduceIte, pure, Except.pure] at hres
        have hR : R = Quat.ofScalar 0 := by cases hres; rfl
        have hsum : h.s0 + rd = 0 := by rw [hz] at hsc2; linarith
        have h0 : h.s0 = 0 := by linarith
        have hrd' : rd = 0 := by linarith
        have hv : h.s1*h.s1 + h.s2*h.s2 + h.s3*h.s3 = 0 := by
          rw [hrd', hdetdef, h0] at hrd2; linarith
        have h1 : h.s1 = 0 := by nlinarith [mul_self_nonneg h.s1, mul_self_nonneg h.s2, mul_self_nonneg h.s3]
        have h2 : h.s2 = 0 := by nlinarith [mul_self_nonneg h.s1, mul_self_nonneg h.s2, mul_self_nonneg h.s3]
        have h3 : h.s3 = 0 := by nlinarith [mul_self_nonneg h.s1, mul_self_nonneg h.s2, mul_self_nonneg h.s3]
        subst hR
        simp [Quat.ofScalar, h0, h1, h2, h3]
      · simp only [hz, decide_false, Bool.false_eq_true, ↓reduceIte, two_eq, pure, Except.pure] at hres
        have hR : R = ⟨sc, h.s1 / (2 * sc), h.s2 / (2 * sc), h.s3 / (2 * sc)⟩ := by cases hres; rfl
        subst hR
        have hscpos : 0 < sc := lt_of_le_of_ne hsc0 (Ne.symm hz)
        -- |v|² = (s0 - rd)(s0 + rd) = (s0 - rd) · 2 sc²
        have hv : h.s1*h.s1 + h.s2*h.s2 + h.s3*h.s3 = (h.s0 - rd) * (2 * (sc*sc)) := by
          rw [hsc2]; rw [hdetdef] at hrd2; linear_combination hrd2
        have hquad : h.s1 / (2 * sc) * (h.s1 / (2 * sc)) + h.s2 / (2 * sc) * (h.s2 / (2 * sc)) + h.s3 / (2 * sc) * (h.s3 / (2 * sc))
            = (h.s0 - rd) / 2 := by
          have : h.s1 / (2 * sc) * (h.s1 / (2 * sc)) + h.s2 / (2 * sc) * (h.s2 / (2 * sc)) + h.s3 / (2 * sc) * (h.s3 / (2 * sc))
              = (h.s1*h.s1 + h.s2*h.s2 + h.s3*h.s3) / (4 * (sc*sc)) := by field_simp; ring
          rw [this, hv]; field_simp; ring
        refine ⟨⟨?_, ?_, ?_, ?_⟩, hsc0, ?_⟩
        · simp only; rw [hquad, hsc2]; ring
        · simp only; field_simp
        · simp only; field_simp
        · simp only; field_simp
        · simp only; rw [hquad, hsc2]
          have : h.s0 - rd ≤ h.s0 + rd := by linarith
          linarith
/-- as matrices: `convert(sqrt h)² = convert(h)` -/
theorem sqrt_sq_matrix (sqrtFn : K → R K) (hs : SqrtSpec sqrtFn) (o : Quat.OrdLeaves K) (ho : OrdSpec o)
    (h R : Quat K) (hs0 : 0 ≤ h.s0) (hdet : 0 ≤ Quat.detH h) (hres : Quat.sqrtH sqrtFn o h = .ok R) :
    convertHR R * convertHR R = convertHR h := by
  obtain ⟨⟨e0, e1, e2, e3⟩, _⟩ := sqrt_sq sqrtFn hs o ho h R hs0 hdet hres
  ext <;> simp [epsic] <;>
  first
  | ring1 | linear_combination e0 + e1 | linear_combination e0 - e1 | linear_combination e2 | linear_combination -e2
  | linear_combination e3 | linear_combination -e3 | linear_combination -(e0 + e1) | linear_combination -(e0 - e1)
/-- singular case `det h = 0` (100% polarised): scalar part `√(s0/2)` -/
theorem sqrt_singular (sqrtFn : K → R K) (hs : SqrtSpec sqrtFn) (o : Quat.OrdLeaves K) (ho : OrdSpec o)
    (h R : Quat K) (hs0 : 0 ≤ h.s0) (hdet : Quat.detH h = 0) (hres : Quat.sqrtH sqrtFn o h = .ok R) :
    R.s0 * R.s0 = h.s0 / 2 ∧ R.s1*R.s1 + R.s2*R.s2 + R.s3*R.s3 = R.s0*R.s0 := by
  obtain ⟨⟨e0, e1, e2, e3⟩, hr0, hle⟩ := sqrt_sq sqrtFn hs o ho h R hs0 (le_of_eq hdet.symm) hres
  have hd : h.s0*h.s0 - h.s1*h.s1 - h.s2*h.s2 - h.s3*h.s3 = 0 := hdet
  -- det h = (R0² - |Rv|²)²
  have hsq : (R.s0*R.s0 - (R.s1*R.s1 + R.s2*R.s2 + R.s3*R.s3)) ^ 2 = 0 := by
    have : h.s0*h.s0 - h.s1*h.s1 - h.s2*h.s2 - h.s3*h.s3
        = (R.s0*R.s0 - (R.s1*R.s1 + R.s2*R.s2 + R.s3*R.s3)) ^ 2 := by
      rw [← e0, ← e1, ← e2, ← e3]; ring
    rw [← this]; exact hd
  have hz : R.s0*R.s0 - (R.s1*R.s1 + R.s2*R.s2 + R.s3*R.s3) = 0 := pow_eq_zero_iff (by norm_num) |>.mp hsq
  constructor <;> linarith

/-- **definedness under adversarial rounding**: whatever value `d̃` the floating-point evaluation of
the determinant produced — non-negative, or negative by at most `4 ε s0²` — every square-root
argument is non-negative and no division by zero occurs -/
theorem sqrt_defined_any_rounding (sqrtFn : K → R K) (hs : SqrtSpec sqrtFn) (ht : SqrtTotal sqrtFn)
    (o : Quat.OrdLeaves K) (ho : OrdSpec o) (h : Quat K) (hs0 : 0 ≤ h.s0) (dT : K)
    (hd : 0 ≤ dT ∨ -dT ≤ 4 * o.eps * h.s0 * h.s0) : ∃ R, Quat.sqrtHWith sqrtFn o dT h = .ok R := by
  unfold Quat.sqrtHWith
  obtain ⟨rd, hrd⟩ := ht _ (clamp_nonneg o ho dT h.s0 hd)
  obtain ⟨_, hrd0⟩ := hs _ _ hrd
  have harg : (0 : K) ≤ 1 / 2 * (h.s0 + rd) := by positivity
  obtain ⟨sc, hsc⟩ := ht _ harg
  have hsc' : sqrtFn (half * (h.s0 + rd)) = .ok sc := by simpa [half_eq] using hsc
  simp only [hrd, bind, Except.bind, hsc']
  by_cases hz : sc = 0 <;> simp [hz, pure, Except.pure]
/-- without the clamp (ε = 0) a determinant that rounds below zero has no square root -/
theorem sqrt_undefined_without_clamp (sqrtFn : K → R K) (hs : SqrtSpec sqrtFn)
    (o : Quat.OrdLeaves K) (ho : OrdSpec o) (he : o.eps = 0) (h : Quat K) (dT : K) (hd : dT < 0) :
    ∀ R, Quat.sqrtHWith sqrtFn o dT h ≠ .ok R := by
  intro R hres
  unfold Quat.sqrtHWith at hres
  have hcl : Quat.clampDet o dT h.s0 = dT := by
    unfold Quat.clampDet; rw [ho.1, ho.2.1, he]
    have : ¬ (-dT ≤ 0) := by linarith
    simp [hd, this]
  rw [hcl] at hres
  cases hrd : sqrtFn dT with
  | error e => simp [hrd, bind, Except.bind] at hres
  | ok rd =>
    obtain ⟨h2, _⟩ := hs _ _ hrd
    nlinarith [mul_self_nonneg rd]

/-! non-vacuity: `h = (5/4, 3/4, 0, 0)`, a PSD quaternion with `det = 1` -/
example : (0:ℚ) ≤ (5/4) ∧ 0 ≤ Quat.detH (⟨5/4, 3/4, 0, 0⟩ : Quat ℚ) := by
  constructor
  · norm_num
  · simp only [Quat.detH]; norm_num


/-! ## polar decomposition -/
set_option linter.unusedSimpArgs false
macro "alg" : tactic =>
  `(tactic| ((first | ext | skip) <;> simp only [epsic, Cx.norm_def] <;> (try field_simp) <;> ring))

/-- the complex square-root leaf: whatever it returns squares to its argument -/
def CsqrtSpec (csqrt : Cx K → R (Cx K)) : Prop := ∀ z d, csqrt z = .ok d → d * d = z

/-- a Hermitian product is recovered from the real parts of its Hermitian-basis components -/
theorem hermitian_product_real (a : Jones K) : convertHR (Quat.realQ (toHermitian (a * a.herm))) = a * a.herm := by alg

theorem hq_s0_nonneg (a : Jones K) : 0 ≤ (Quat.realQ (toHermitian (a * a.herm))).s0 := by
  simp only [epsic]
  nlinarith [mul_self_nonneg a.j00.re, mul_self_nonneg a.j00.im, mul_self_nonneg a.j01.re, mul_self_nonneg a.j01.im,
    mul_self_nonneg a.j10.re, mul_self_nonneg a.j10.im, mul_self_nonneg a.j11.re, mul_self_nonneg a.j11.im]

theorem hq_det (a : Jones K) : Quat.detH (Quat.realQ (toHermitian (a * a.herm))) = a.det.norm := by
  simp only [epsic, Cx.norm_def]; ring

/-- **SU(2)**: a Jones matrix with `J J† = 1` and `det J = 1` has the form `[[a, b], [-b̄, ā]]`, so the real
parts of its unitary-basis components reproduce it -/
theorem su2_real (j : Jones K) (hu : j * j.herm = Jones.identity) (hd : j.det = one) :
    convertUR (Quat.realQ (toUnitary j)) = j := by
  have e1 := congrArg (fun m => m.j00.re) hu
  have e2 := congrArg (fun m => m.j11.re) hu
  have e3 := congrArg (fun m => m.j01.re) hu
  have e4 := congrArg (fun m => m.j01.im) hu
  have e5 := congrArg (fun m => m.re) hd
  have e6 := congrArg (fun m => m.im) hd
  simp only [epsic] at e1 e2 e3 e4 e5 e6
  have g1 : j.j11.re = j.j00.re := by
    linear_combination j.j00.re * e5 + j.j00.im * e6 - j.j11.re * e1 + j.j01.re * e3 + j.j01.im * e4
  have g2 : j.j11.im = -j.j00.im := by
    linear_combination j.j00.re * e6 - j.j00.im * e5 - j.j11.im * e1 + j.j01.im * e3 - j.j01.re * e4
  have g3 : j.j10.re = -j.j01.re := by
    linear_combination j.j00.re * e3 + j.j00.im * e4 - j.j10.re * e1 - j.j01.re * e5 - j.j01.im * e6
  have g4 : j.j10.im = j.j01.im := by
    linear_combination j.j00.im * e3 - j.j00.re * e4 - j.j10.im * e1 - j.j01.re * e6 + j.j01.im * e5
  ext <;> simp only [epsic] <;> first
    | linear_combination (-1/2 : K) * g1 | linear_combination (1/2 : K) * g1
    | linear_combination (-1/2 : K) * g2 | linear_combination (1/2 : K) * g2
    | linear_combination (-1/2 : K) * g3 | linear_combination (1/2 : K) * g3
    | linear_combination (-1/2 : K) * g4 | linear_combination (1/2 : K) * g4

theorem detU_of_su2 (j : Jones K) (hu : j * j.herm = Jones.identity) (hd : j.det = one) :
    Quat.detU (Quat.realQ (toUnitary j)) = 1 := by
  have h := su2_real j hu hd
  have e := congrArg (fun m => m.det.re) h
  have e5 := congrArg (fun m => m.re) hd
  simp only [epsic] at e e5 ⊢
  linear_combination e + e5

theorem norm_pos_of_ne (d : Cx K) (h : d.norm ≠ 0) : d.re*d.re + d.im*d.im ≠ 0 := by simpa [Cx.norm_def] using h

/-- dividing a matrix by a square root of its determinant gives unit determinant -/
theorem det_div_root (j : Jones K) (d : Cx K) (hd : d * d = j.det) (hnz : d.norm ≠ 0) :
    (Jones.smulC (Cx.divRaw one d) j).det = one := by
  have h1 := congrArg (fun z => z.re) hd
  have h2 := congrArg (fun z => z.im) hd
  have hn := norm_pos_of_ne d hnz
  simp only [epsic] at h1 h2
  have hn' : d.re ^ 2 + d.im ^ 2 ≠ 0 := by simpa [sq] using hn
  ext
  · simp only [epsic, Cx.norm_def]
    field_simp
    linear_combination (-(d.re^2 - d.im^2)) * h1 - (2 * d.re * d.im) * h2
  · simp only [epsic, Cx.norm_def]
    field_simp
    linear_combination (-(d.re^2 - d.im^2)) * h2 + (2 * d.re * d.im) * h1

theorem smulC_divRaw_cancel (j : Jones K) (d : Cx K) (hnz : d.norm ≠ 0) :
    Jones.smulC d (Jones.smulC (Cx.divRaw one d) j) = j := by
  have hn := norm_pos_of_ne d hnz
  have hn' : d.re ^ 2 + d.im ^ 2 ≠ 0 := by simpa [sq] using hn
  ext <;> simp only [epsic, Cx.norm_def] <;> field_simp <;> ring

/-- inverse of a Hermitian quaternion of unit determinant -/
theorem invHR_unit (h : Quat K) (hd : Quat.detH h = 1) :
    Quat.invHR h = .ok ⟨h.s0, -h.s1, -h.s2, -h.s3⟩ := by
  simp only [Quat.invHR, Quat.invWith, Quat.recipNegR, hd]
  rw [sdiv_ok (by norm_num : (1 : K) ≠ 0)]
  simp [bind, Except.bind, pure, Except.pure, one_eq]
theorem inv_mul_unit (h : Quat K) (hd : Quat.detH h = 1) :
    convertHR ⟨h.s0, -h.s1, -h.s2, -h.s3⟩ * convertHR h = Jones.identity ∧
    convertHR h * convertHR ⟨h.s0, -h.s1, -h.s2, -h.s3⟩ = Jones.identity := by
  simp only [epsic] at hd
  constructor <;> (ext <;> simp only [epsic] <;> first | ring1 | linear_combination hd)

/-- **polar decomposition**: whenever `polar` returns `(d, h, u)` for a Jones matrix `J`, then
`J = d · H · U` with `H = convert(h)` Hermitian positive semi-definite of unit determinant and
`U = convert(u)` unitary of unit determinant (`U U† = 1`), and `d² = det J` -/
theorem polar_spec (csqrt : Cx K → R (Cx K)) (hc : CsqrtSpec csqrt) (sqrtFn : K → R K) (hs : SqrtSpec sqrtFn)
    (o : Quat.OrdLeaves K) (ho : OrdSpec o) (j : Jones K) (d : Cx K) (h u : Quat K)
    (hres : Pauli.polar csqrt sqrtFn o j = .ok (d, h, u)) :
    d * d = j.det ∧
    j = Jones.smulC d (convertHR h * convertUR u) ∧
    Quat.detH h = 1 ∧ (0 ≤ h.s0 ∧ h.s1*h.s1 + h.s2*h.s2 + h.s3*h.s3 ≤ h.s0*h.s0) ∧
    Quat.detU u = 1 ∧ convertUR u * (convertUR u).herm = Jones.identity := by
  unfold Pauli.polar at hres
  cases hd : csqrt j.det with
  | error e => simp [hd, bind, Except.bind] at hres
  | ok d' =>
    simp only [hd, bind, Except.bind] at hres
    have hdd := hc _ _ hd
    cases hj1 : j.sdivC d' with
    | error e => simp [hj1] at hres
    | ok j1 =>
      simp only [hj1] at hres
      -- the division succeeded: d' ≠ 0 and j1 = j / d'
      have hnz : d'.norm ≠ 0 := by
        intro hz
        simp [Jones.sdivC, Cx.div_err hz, bind, Except.bind] at hj1
      have hj1' : j1 = Jones.smulC (Cx.divRaw one d') j := by
        simp [Jones.sdivC, Cx.div_ok hnz, bind, Except.bind, pure, Except.pure] at hj1
        exact hj1.symm
      set hq := Quat.realQ (toHermitian (j1 * j1.herm)) with hhq
      cases hh : Quat.sqrtH sqrtFn o hq with
      | error e => simp [hh] at hres
      | ok h' =>
        simp only [hh] at hres
        -- the Hermitian factor: H² = j1 j1†, PSD, unit determinant
        have hj1det : j1.det = one := by rw [hj1']; exact det_div_root j d' hdd hnz
        have hs0 : 0 ≤ hq.s0 := hq_s0_nonneg j1
        have hqdet : Quat.detH hq = 1 := by
          rw [hhq, hq_det, hj1det]; simp [Cx.norm_def]
        have hsq := sqrt_sq sqrtFn hs o ho hq h' hs0 (by rw [hqdet]; exact zero_le_one) hh
        have hH2 : convertHR h' * convertHR h' = j1 * j1.herm := by
          rw [sqrt_sq_matrix sqrtFn hs o ho hq h' hs0 (by rw [hqdet]; exact zero_le_one) hh, hhq, hermitian_product_real]
        obtain ⟨⟨q0, q1, q2, q3⟩, hpsd0, hpsd⟩ := hsq
        have hdetsq : Quat.detH h' * Quat.detH h' = 1 := by
          have : Quat.detH hq = 1 := hqdet
          simp only [epsic] at this ⊢
          rw [← this, ← q0, ← q1, ← q2, ← q3]; ring
        have hdetnn : 0 ≤ Quat.detH h' := by simp only [epsic]; linarith
        have hdet1 : Quat.detH h' = 1 := by nlinarith
        -- its inverse
        rw [invHR_unit h' hdet1] at hres
        simp only [pure, Except.pure, Except.ok.injEq, Prod.mk.injEq] at hres
        obtain ⟨rfl, rfl, hu⟩ := hres
        obtain ⟨hinvL, hinvR⟩ := inv_mul_unit h' hdet1
        set Hi := convertHR (⟨h'.s0, -h'.s1, -h'.s2, -h'.s3⟩ : Quat K) with hHi
        set j2 := Hi * j1 with hj2
        have hHiherm : Hi.herm = Hi := C03.convertHR_hermitian _
        -- the unitary factor
        have hj2u : j2 * j2.herm = Jones.identity := by
          rw [hj2, C04.herm_mul, hHiherm, C04.mul_assoc', ← C04.mul_assoc' j1, ← hH2, C04.mul_assoc' (convertHR h'), hinvR,
            C04.mul_one', hinvL]
        have hj2d : j2.det = one := by
          rw [hj2, C04.det_mul, hj1det, C03.det_convertHR]
          have : Quat.detH (⟨h'.s0, -h'.s1, -h'.s2, -h'.s3⟩ : Quat K) = 1 := by simp only [epsic] at hdet1 ⊢; linarith
          rw [this]; ext <;> simp [epsic]
        have hU : convertUR u = j2 := by rw [← hu]; exact su2_real j2 hj2u hj2d
        have hHj2 : convertHR h' * j2 = j1 := by
          rw [hj2, ← C04.mul_assoc', hinvR, C04.one_mul']
        refine ⟨hdd, ?_, hdet1, ⟨hpsd0, hpsd⟩, ?_, ?_⟩
        · rw [hU, hHj2, hj1']; exact (smulC_divRaw_cancel j d' hnz).symm
        · rw [← hu]; exact detU_of_su2 j2 hj2u hj2d
        · rw [hU]; exact hj2u

/-- non-vacuity: `polar` of twice the identity over ℚ with exact roots of 4 and 1 -/
example : Pauli.polar (fun z : Cx ℚ => if z = ⟨4, 0⟩ then .ok ⟨2, 0⟩ else .error .sqrtIrr)
    (fun x : ℚ => if x = 1 then .ok 1 else .error .sqrtIrr) ⟨fun x => decide (x < 0), fun a b => decide (a ≤ b), 0⟩
    (⟨⟨2, 0⟩, ⟨0, 0⟩, ⟨0, 0⟩, ⟨2, 0⟩⟩ : Jones ℚ) = .ok (⟨2, 0⟩, ⟨1, 0, 0, 0⟩, ⟨1, 0, 0, 0⟩) := by
  decide +kernel
end Epsic.C09
