import EpsicProofs.Props.C10
/-! # C09 — Hermitian square root (and polar decomposition)

`Quat.sqrtH` is `sqrt(Quaternion<T,Hermitian>)` with the scalar square root as a leaf and the
order tests (`<`, `≤`, machine epsilon) as `OrdLeaves`.  Over any linearly ordered field. -/
set_option linter.unusedSectionVars false
set_option linter.unusedVariables false
namespace Epsic.C09
open Epsic Epsic.Pauli Epsic.C10
variable {K : Type} [Field K] [LinearOrder K] [IsStrictOrderedRing K] [DecidableEq K]

/-- the order leaves behave like `<`, `≤` and a non-negative epsilon -/
def OrdSpec (o : Quat.OrdLeaves K) : Prop :=
  (∀ x, o.ltZero x = decide (x < 0)) ∧ (∀ a b, o.le a b = decide (a ≤ b)) ∧ 0 ≤ o.eps
/-- the square-root leaf is defined on every non-negative argument -/
def SqrtTotal (sqrtFn : K → R K) : Prop := ∀ x, 0 ≤ x → ∃ r, sqrtFn x = .ok r

theorem clamp_of_nonneg (o : Quat.OrdLeaves K) (ho : OrdSpec o) (d s0 : K) (hd : 0 ≤ d) : Quat.clampDet o d s0 = d := by
  simp [Quat.clampDet, ho.1, not_lt.mpr hd]
theorem clamp_nonneg (o : Quat.OrdLeaves K) (ho : OrdSpec o) (d s0 : K)
    (hd : 0 ≤ d ∨ -d ≤ 4 * o.eps * s0 * s0) : 0 ≤ Quat.clampDet o d s0 := by
  unfold Quat.clampDet
  rw [ho.1, ho.2.1]
  by_cases h1 : d < 0
  · have h2 : -d ≤ 4 * o.eps * s0 * s0 := by
      rcases hd with h | h
      · exact absurd h (not_le.mpr h1)
      · exact h
    have h2' : -d ≤ 2 * 2 * o.eps * s0 * s0 := by
      calc -d ≤ 4 * o.eps * s0 * s0 := h2
        _ = 2 * 2 * o.eps * s0 * s0 := by ring
    simp [h1, h2']
  · simp [h1, not_lt.mp h1]

/-- **the square root squares back to its argument and is positive semi-definite**, for every
PSD Hermitian quaternion whose (computed) determinant is non-negative -/
theorem sqrt_sq (sqrtFn : K → R K) (hs : SqrtSpec sqrtFn) (o : Quat.OrdLeaves K) (ho : OrdSpec o)
    (h R : Quat K) (hs0 : 0 ≤ h.s0) (hdet : 0 ≤ Quat.detH h) (hres : Quat.sqrtH sqrtFn o h = .ok R) :
    (R.s0*R.s0 + (R.s1*R.s1 + R.s2*R.s2 + R.s3*R.s3) = h.s0 ∧ 2*R.s0*R.s1 = h.s1 ∧ 2*R.s0*R.s2 = h.s2 ∧ 2*R.s0*R.s3 = h.s3) ∧
    (0 ≤ R.s0 ∧ R.s1*R.s1 + R.s2*R.s2 + R.s3*R.s3 ≤ R.s0*R.s0) := by
  unfold Quat.sqrtH Quat.sqrtHWith at hres
  rw [clamp_of_nonneg o ho _ _ hdet] at hres
  cases hrd : sqrtFn (Quat.detH h) with
  | error e => simp [hrd, bind, Except.bind] at hres
  | ok rd =>
    obtain ⟨hrd2, hrd0⟩ := hs _ _ hrd
    simp only [hrd, bind, Except.bind] at hres
    generalize hsc : sqrtFn _ = y at hres
    cases y with
    | error e => simp at hres
    | ok sc =>
      obtain ⟨hsc2', hsc0⟩ := hs _ _ hsc
      have hsc2 : sc * sc = 1 / 2 * (h.s0 + rd) := by rw [hsc2']; simp [half_eq]
      simp only [eq0_eq] at hres
      have hdetdef : Quat.detH h = h.s0*h.s0 - h.s1*h.s1 - h.s2*h.s2 - h.s3*h.s3 := rfl
      by_cases hz : sc = 0
      · -- scalar = 0 forces h = 0
        simp only [hz, decide_true, ↓reduceIte, pure, Except.pure] at hres
        have hR : R = Quat.ofScalar 0 := by cases hres; rfl
        have hsum : h.s0 + rd = 0 := by rw [hz] at hsc2; linarith
        have h0 : h.s0 = 0 := by linarith
        have hrd' : rd = 0 := by linarith
        have hv : h.s1*h.s1 + h.s2*h.s2 + h.s3*h.s3 = 0 := by
          rw [hrd', hdetdef, h0] at hrd2; linarith
        have h1 : h.s1 = 0 := by nlinarith [mul_self_nonneg h.s1, mul_self_nonneg h.s2, mul_self_nonneg h.s3]
        have h2 : h.s2 = 0 := by nlinarith [mul_self_nonneg h.s1, mul_self_nonneg h.s2, mul_self_nonneg h.s3]
        have h3 : h.s3 = 0 := by nlinarith [mul_self_nonneg h.s1, mul_self_nonneg h.s2, mul_self_nonneg h.s3]
        subst hR
        simp [Quat.ofScalar, h0, h1, h2, h3]
      · simp only [hz, decide_false, Bool.false_eq_true, ↓reduceIte, two_eq, pure, Except.pure] at hres
        have hR : R = ⟨sc, h.s1 / (2 * sc), h.s2 / (2 * sc), h.s3 / (2 * sc)⟩ := by cases hres; rfl
        subst hR
        have hscpos : 0 < sc := lt_of_le_of_ne hsc0 (Ne.symm hz)
        -- |v|² = (s0 - rd)(s0 + rd) = (s0 - rd) · 2 sc²
        have hv : h.s1*h.s1 + h.s2*h.s2 + h.s3*h.s3 = (h.s0 - rd) * (2 * (sc*sc)) := by
          rw [hsc2]; rw [hdetdef] at hrd2; linear_combination hrd2
        have hquad : h.s1 / (2 * sc) * (h.s1 / (2 * sc)) + h.s2 / (2 * sc) * (h.s2 / (2 * sc)) + h.s3 / (2 * sc) * (h.s3 / (2 * sc))
            = (h.s0 - rd) / 2 := by
          have : h.s1 / (2 * sc) * (h.s1 / (2 * sc)) + h.s2 / (2 * sc) * (h.s2 / (2 * sc)) + h.s3 / (2 * sc) * (h.s3 / (2 * sc))
              = (h.s1*h.s1 + h.s2*h.s2 + h.s3*h.s3) / (4 * (sc*sc)) := by field_simp; ring
          rw [this, hv]; field_simp; ring
        refine ⟨⟨?_, ?_, ?_, ?_⟩, hsc0, ?_⟩
        · simp only; rw [hquad, hsc2]; ring
        · simp only; field_simp
        · simp only; field_simp
        · simp only; field_simp
        · simp only; rw [hquad, hsc2]
          have : h.s0 - rd ≤ h.s0 + rd := by linarith
          linarith
/-- as matrices: `convert(sqrt h)² = convert(h)` -/
theorem sqrt_sq_matrix (sqrtFn : K → R K) (hs : SqrtSpec sqrtFn) (o : Quat.OrdLeaves K) (ho : OrdSpec o)
    (h R : Quat K) (hs0 : 0 ≤ h.s0) (hdet : 0 ≤ Quat.detH h) (hres : Quat.sqrtH sqrtFn o h = .ok R) :
    convertHR R * convertHR R = convertHR h := by
  obtain ⟨⟨e0, e1, e2, e3⟩, _⟩ := sqrt_sq sqrtFn hs o ho h R hs0 hdet hres
  ext <;> simp [epsic] <;>
  first
  | ring1 | linear_combination e0 + e1 | linear_combination e0 - e1 | linear_combination e2 | linear_combination -e2
  | linear_combination e3 | linear_combination -e3 | linear_combination -(e0 + e1) | linear_combination -(e0 - e1)
/-- singular case `det h = 0` (100% polarised): scalar part `√(s0/2)` -/
theorem sqrt_singular (sqrtFn : K → R K) (hs : SqrtSpec sqrtFn) (o : Quat.OrdLeaves K) (ho : OrdSpec o)
    (h R : Quat K) (hs0 : 0 ≤ h.s0) (hdet : Quat.detH h = 0) (hres : Quat.sqrtH sqrtFn o h = .ok R) :
    R.s0 * R.s0 = h.s0 / 2 ∧ R.s1*R.s1 + R.s2*R.s2 + R.s3*R.s3 = R.s0*R.s0 := by
  obtain ⟨⟨e0, e1, e2, e3⟩, hr0, hle⟩ := sqrt_sq sqrtFn hs o ho h R hs0 (le_of_eq hdet.symm) hres
  have hd : h.s0*h.s0 - h.s1*h.s1 - h.s2*h.s2 - h.s3*h.s3 = 0 := hdet
  -- det h = (R0² - |Rv|²)²
  have hsq : (R.s0*R.s0 - (R.s1*R.s1 + R.s2*R.s2 + R.s3*R.s3)) ^ 2 = 0 := by
    have : h.s0*h.s0 - h.s1*h.s1 - h.s2*h.s2 - h.s3*h.s3
        = (R.s0*R.s0 - (R.s1*R.s1 + R.s2*R.s2 + R.s3*R.s3)) ^ 2 := by
      rw [← e0, ← e1, ← e2, ← e3]; ring
    rw [← this]; exact hd
  have hz : R.s0*R.s0 - (R.s1*R.s1 + R.s2*R.s2 + R.s3*R.s3) = 0 := pow_eq_zero_iff (by norm_num) |>.mp hsq
  constructor <;> linarith

/-- **definedness under adversarial rounding**: whatever value `d̃` the floating-point evaluation of
the determinant produced — non-negative, or negative by at most `4 ε s0²` — every square-root
argument is non-negative and no division by zero occurs -/
theorem sqrt_defined_any_rounding (sqrtFn : K → R K) (hs : SqrtSpec sqrtFn) (ht : SqrtTotal sqrtFn)
    (o : Quat.OrdLeaves K) (ho : OrdSpec o) (h : Quat K) (hs0 : 0 ≤ h.s0) (dT : K)
    (hd : 0 ≤ dT ∨ -dT ≤ 4 * o.eps * h.s0 * h.s0) : ∃ R, Quat.sqrtHWith sqrtFn o dT h = .ok R := by
  unfold Quat.sqrtHWith
  obtain ⟨rd, hrd⟩ := ht _ (clamp_nonneg o ho dT h.s0 hd)
  obtain ⟨_, hrd0⟩ := hs _ _ hrd
  have harg : (0 : K) ≤ 1 / 2 * (h.s0 + rd) := by positivity
  obtain ⟨sc, hsc⟩ := ht _ harg
  have hsc' : sqrtFn (half * (h.s0 + rd)) = .ok sc := by simpa [half_eq] using hsc
  simp only [hrd, bind, Except.bind, hsc']
  by_cases hz : sc = 0 <;> simp [hz, pure, Except.pure]
/-- without the clamp (ε = 0) a determinant that rounds below zero has no square root -/
theorem sqrt_undefined_without_clamp (sqrtFn : K → R K) (hs : SqrtSpec sqrtFn)
    (o : Quat.OrdLeaves K) (ho : OrdSpec o) (he : o.eps = 0) (h : Quat K) (dT : K) (hd : dT < 0) :
    ∀ R, Quat.sqrtHWith sqrtFn o dT h ≠ .ok R := by
  intro R hres
  unfold Quat.sqrtHWith at hres
  have hcl : Quat.clampDet o dT h.s0 = dT := by
    unfold Quat.clampDet; rw [ho.1, ho.2.1, he]
    have : ¬ (-dT ≤ 0) := by linarith
    simp [hd, this]
  rw [hcl] at hres
  cases hrd : sqrtFn dT with
  | error e => simp [hrd, bind, Except.bind] at hres
  | ok rd =>
    obtain ⟨h2, _⟩ := hs _ _ hrd
    nlinarith [mul_self_nonneg rd]

/-! non-vacuity: `h = (5/4, 3/4, 0, 0)`, a PSD quaternion with `det = 1` -/
example : (0:ℚ) ≤ (5/4) ∧ 0 ≤ Quat.detH (⟨5/4, 3/4, 0, 0⟩ : Quat ℚ) := by
  constructor
  · norm_num
  · simp only [Quat.detH]; norm_num

end Epsic.C09
