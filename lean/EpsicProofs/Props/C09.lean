import EpsicProofs.FieldArith
namespace Epsic.C09
end Epsic.C09
