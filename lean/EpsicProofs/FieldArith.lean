import EpsicModel
import Mathlib.Tactic.Ring
import Mathlib.Tactic.FieldSimp
import Mathlib.Tactic.LinearCombination
/-! The model instantiated at an arbitrary field `K`: the `Arith` instance and the component
lemmas (`simp` normal form: everything is pushed down to `K`-valued components). -/
namespace Epsic

/-- every field is a scalar type of the model -/
@[reducible] instance fieldArith (K : Type) [Field K] [DecidableEq K] : Arith K where
  zero := 0
  one := 1
  two := 2
  half := 1/2
  isZero x := decide (x = 0)
  eq0 x := decide (x = 0)
  ofNat n := (n : K)

/-- The exact-rational instance the compiled driver runs *is* the field instance the theorems are
about (Mathlib's `Field ℚ` is built on core's `Rat` operations). -/
theorem ratArith_eq_fieldArith : (inferInstance : Arith Rat) = fieldArith ℚ := by
  unfold fieldArith inferInstance instArithRat
  congr 1 <;> funext x <;> simp [BEq.beq, decide_eq_decide]

section
variable {K : Type} [Field K] [DecidableEq K]

@[simp] theorem zero_eq : (zero : K) = 0 := rfl
@[simp] theorem one_eq : (one : K) = 1 := rfl
@[simp] theorem two_eq : (two : K) = 2 := rfl
@[simp] theorem half_eq : (half : K) = 1/2 := rfl
@[simp] theorem isZero_eq (x : K) : Arith.isZero x = decide (x = 0) := rfl
@[simp] theorem eq0_eq (x : K) : Arith.eq0 x = decide (x = 0) := rfl
@[simp] theorem ofNat_eq (n : Nat) : (Arith.ofNat n : K) = (n : K) := rfl

theorem sdiv_ok {a b : K} (h : b ≠ 0) : sdiv a b = .ok (a / b) := by simp [sdiv, h]
theorem sdiv_err {a b : K} (h : b = 0) : sdiv a b = .error .div0 := by simp [sdiv, h]

namespace Cx
@[ext] theorem ext' {a b : Cx K} (h1 : a.re = b.re) (h2 : a.im = b.im) : a = b := by
  cases a; cases b; simp_all
@[simp] theorem add_re (a b : Cx K) : (a + b).re = a.re + b.re := rfl
@[simp] theorem add_im (a b : Cx K) : (a + b).im = a.im + b.im := rfl
@[simp] theorem sub_re (a b : Cx K) : (a - b).re = a.re - b.re := rfl
@[simp] theorem sub_im (a b : Cx K) : (a - b).im = a.im - b.im := rfl
@[simp] theorem mul_re (a b : Cx K) : (a * b).re = a.re*b.re - a.im*b.im := rfl
@[simp] theorem mul_im (a b : Cx K) : (a * b).im = a.re*b.im + a.im*b.re := rfl
@[simp] theorem neg_re (a : Cx K) : (-a).re = -a.re := rfl
@[simp] theorem neg_im (a : Cx K) : (-a).im = -a.im := rfl
@[simp] theorem conj_re (a : Cx K) : a.conj.re = a.re := rfl
@[simp] theorem conj_im (a : Cx K) : a.conj.im = -a.im := rfl
@[simp] theorem ci_re (a : Cx K) : a.ci.re = -a.im := rfl
@[simp] theorem ci_im (a : Cx K) : a.ci.im = a.re := rfl
@[simp] theorem smul_re (s : K) (a : Cx K) : (Cx.smul s a).re = s * a.re := rfl
@[simp] theorem smul_im (s : K) (a : Cx K) : (Cx.smul s a).im = s * a.im := rfl
@[simp] theorem ofReal_re (x : K) : (Cx.ofReal x).re = x := rfl
@[simp] theorem ofReal_im (x : K) : (Cx.ofReal x).im = 0 := rfl
@[simp] theorem ciReal_re (x : K) : (Cx.ciReal x).re = 0 := rfl
@[simp] theorem ciReal_im (x : K) : (Cx.ciReal x).im = x := rfl
@[simp] theorem zero_re : (zero : Cx K).re = 0 := rfl
@[simp] theorem zero_im : (zero : Cx K).im = 0 := rfl
@[simp] theorem one_re : (one : Cx K).re = 1 := rfl
@[simp] theorem one_im : (one : Cx K).im = 0 := rfl
@[simp] theorem two_re : (two : Cx K).re = 2 := rfl
@[simp] theorem two_im : (two : Cx K).im = 0 := rfl
@[simp] theorem half_re : (half : Cx K).re = 1/2 := rfl
@[simp] theorem half_im : (half : Cx K).im = 0 := rfl
theorem norm_def (a : Cx K) : a.norm = a.re*a.re + a.im*a.im := rfl
@[simp] theorem divRaw_re (a b : Cx K) : (Cx.divRaw a b).re = (a.re*b.re + a.im*b.im) / b.norm := rfl
@[simp] theorem divRaw_im (a b : Cx K) : (Cx.divRaw a b).im = (a.im*b.re - a.re*b.im) / b.norm := rfl
@[simp] theorem isZero_cx (z : Cx K) : Arith.isZero z = decide (z.norm = 0) := rfl
theorem div_ok {a b : Cx K} (h : b.norm ≠ 0) : Cx.div a b = .ok (Cx.divRaw a b) := by
  simp [Cx.div, h]
theorem div_err {a b : Cx K} (h : b.norm = 0) : Cx.div a b = .error .div0 := by
  simp [Cx.div, h]
@[simp] theorem mk_re (a b : K) : (Cx.mk a b).re = a := rfl
@[simp] theorem mk_im (a b : K) : (Cx.mk a b).im = b := rfl
end Cx

end
end Epsic
