#!/bin/sh
set -e
cd "$(dirname "$0")/lean"
lake build EpsicModel EpsicDriver epsic_driver EpsicProofs
