// Harness driver, group "alg": Jones / Quaternion / Pauli / Stokes / Mueller / Minkowski
// templates of /repo instantiated at the exact rational scalar (properties C02 C03 C04 C09 C10 C15).
#include "common.h"
#include "Pauli.h"
#include "Minkowski.h"
#include "Spinor.h"

#define OP(name) ops[name] = [](Args& A, Out& O)

static const QBasis H = Hermitian;
static const QBasis U = Unitary;

// set the process-wide basis from a line argument: lin | cir | ell c2o s2o c2e s2e is not
// possible through the public interface (it takes angles), so elliptical settings pass the two
// angles as doubles (hex) and report the matrix the code built.
static double hexdouble (const std::string& s)
{
  unsigned long long u = std::stoull (s, 0, 16);
  double d; memcpy (&d, &u, 8); return d;
}

static void apply_basis (Args& A)
{
  std::string b = A.next();
  if (b == "lin") Pauli::basis().set_basis (Signal::Linear);
  else if (b == "cir") Pauli::basis().set_basis (Signal::Circular);
  else if (b == "ell") { double o = hexdouble(A.next()); double e = hexdouble(A.next());
    Pauli::basis().set_basis (o, e); }
  else throw ProtocolError ("basis");
}

struct BasisRestore { ~BasisRestore () { Pauli::basis().set_basis (Signal::Linear); } };

int main ()
{
  OpTable ops;

  // ---- Jones algebra (C04) ----
  OP("j.add") { auto a=A.jones(); auto b=A.jones(); O.put (Jones<Rat>(a+b)); };
  OP("j.sub") { auto a=A.jones(); auto b=A.jones(); O.put (Jones<Rat>(a-b)); };
  OP("j.mul") { auto a=A.jones(); auto b=A.jones(); O.put (Jones<Rat>(a*b)); };
  OP("j.mulassign") { auto a=A.jones(); auto b=A.jones(); a*=b; O.put (a); };
  OP("j.addassign") { auto a=A.jones(); auto b=A.jones(); a+=b; O.put (a); };
  OP("j.subassign") { auto a=A.jones(); auto b=A.jones(); a-=b; O.put (a); };
  OP("j.neg") { auto a=A.jones(); O.put (Jones<Rat>(-a)); };
  OP("j.smulc") { auto a=A.jones(); auto c=A.cx(); O.put (Jones<Rat>(a*c)); };
  OP("j.csmul") { auto c=A.cx(); auto a=A.jones(); O.put (Jones<Rat>(c*a)); };
  OP("j.smulr") { auto a=A.jones(); auto c=A.rat(); O.put (Jones<Rat>(a*c)); };
  OP("j.rsmul") { auto c=A.rat(); auto a=A.jones(); O.put (Jones<Rat>(c*a)); };
  OP("j.divc") { auto a=A.jones(); auto c=A.cx(); O.put (Jones<Rat>(a/c)); };
  OP("j.divr") { auto a=A.jones(); auto c=A.rat(); O.put (Jones<Rat>(a/c)); };
  OP("j.inv") { auto a=A.jones(); O.put (inv(a)); };
  OP("j.det") { auto a=A.jones(); O.put (det(a)); };
  OP("j.trace") { auto a=A.jones(); O.put (trace(a)); };
  OP("j.norm") { auto a=A.jones(); O.put (norm(a)); };
  OP("j.conj") { auto a=A.jones(); O.put (conj(a)); };
  OP("j.herm") { auto a=A.jones(); O.put (herm(a)); };
  OP("j.identity") { O.put (Jones<Rat>::identity()); };
  OP("j.ofscalar") { auto c=A.rat(); O.put (Jones<Rat>(c)); };
  OP("j.assignc") { auto a=A.jones(); auto c=A.cx(); a = c; O.put (a); };
  OP("j.isdiag") { auto a=A.jones(); O.put ((bool)a.is_diagonal()); };
  OP("j.p") { auto a=A.jones(); O.put (a.p()); };
  OP("j.eq") { auto a=A.jones(); auto b=A.jones(); O.put (a==b); O.put (a!=b); };
  OP("j.tomatrix") { auto a=A.jones(); Matrix<2,2,CRat> m = a; O.put (m); };
  OP("j.frommatrix") { auto m=A.cmat<2,2>(); Jones<Rat> j (m); O.put (j); };
  OP("j.matmul") { auto a=A.jones(); auto b=A.jones();
    Matrix<2,2,CRat> ma = a; Matrix<2,2,CRat> mb = b; Matrix<2,2,CRat> p = ma*mb; O.put (p); };
  OP("j.get") { auto a=A.jones(); unsigned n=A.nat(); const Jones<Rat>& c = a; O.put (c[n]); O.put (a[n]); };
  OP("j.get2") { auto a=A.jones(); unsigned r=A.nat(); unsigned c=A.nat(); const Jones<Rat>& k = a; O.put (k(r,c)); O.put (a(r,c)); };
  OP("j.set") { auto a=A.jones(); unsigned n=A.nat(); auto v=A.cx(); a[n] = v; O.put (a); };
  OP("j.set2") { auto a=A.jones(); unsigned r=A.nat(); unsigned c=A.nat(); auto v=A.cx(); a(r,c) = v; O.put (a); };
  OP("j.size") { Jones<Rat> a; O.put (a.size()); O.put (DatumTraits< Jones<Rat> >::ndim()); };
  OP("j.datum") { auto a=A.jones(); unsigned n=A.nat(); const Jones<Rat>& c = a;
    O.put (DatumTraits< Jones<Rat> >::element (c, n)); auto v=A.cx();
    DatumTraits< Jones<Rat> >::element (a, n) = v; O.put (a); };

  // ---- quaternions and biquaternions (C03) ----
  OP("b.mulH") { auto a=A.biquat<H>(); auto b=A.biquat<H>(); O.put (Quaternion<CRat,H>(a*b)); };
  OP("b.mulU") { auto a=A.biquat<U>(); auto b=A.biquat<U>(); O.put (Quaternion<CRat,U>(a*b)); };
  OP("q.mulU") { auto a=A.quat<U>(); auto b=A.quat<U>(); O.put (Quaternion<Rat,U>(a*b)); };
  OP("b.mulassignU") { auto a=A.biquat<U>(); auto b=A.biquat<U>(); a*=b; O.put (a); };
  OP("b.mulassignH") { auto a=A.biquat<H>(); auto b=A.biquat<H>(); a*=b; O.put (a); };
  OP("b.add") { auto a=A.biquat<H>(); auto b=A.biquat<H>(); O.put (Quaternion<CRat,H>(a+b)); };
  OP("b.sub") { auto a=A.biquat<H>(); auto b=A.biquat<H>(); O.put (Quaternion<CRat,H>(a-b)); };
  OP("b.neg") { auto a=A.biquat<H>(); O.put (Quaternion<CRat,H>(-a)); };
  OP("q.add") { auto a=A.quat<U>(); auto b=A.quat<U>(); O.put (Quaternion<Rat,U>(a+b)); };
  OP("q.sub") { auto a=A.quat<U>(); auto b=A.quat<U>(); O.put (Quaternion<Rat,U>(a-b)); };
  OP("b.smul") { auto a=A.biquat<H>(); auto c=A.cx(); O.put (Quaternion<CRat,H>(a*c)); };
  OP("b.csmul") { auto c=A.cx(); auto a=A.biquat<U>(); O.put (Quaternion<CRat,U>(c*a)); };
  OP("q.smul") { auto a=A.quat<H>(); auto c=A.rat(); O.put (Quaternion<Rat,H>(a*c)); };
  OP("b.sdiv") { auto a=A.biquat<H>(); auto c=A.cx(); O.put (Quaternion<CRat,H>(a/c)); };
  OP("q.sdiv") { auto a=A.quat<U>(); auto c=A.rat(); O.put (Quaternion<Rat,U>(a/c)); };
  OP("q.addscalar") { auto a=A.quat<U>(); auto c=A.rat(); a+=c; O.put (a); a-=c; a-=c; O.put (a); };
  OP("b.conjH") { auto a=A.biquat<H>(); O.put (conj(a)); };
  OP("b.conjU") { auto a=A.biquat<U>(); O.put (conj(a)); };
  OP("b.hermH") { auto a=A.biquat<H>(); O.put (herm(a)); };
  OP("b.hermU") { auto a=A.biquat<U>(); O.put (herm(a)); };
  OP("q.conjH") { auto a=A.quat<H>(); O.put (conj(a)); };
  OP("q.conjU") { auto a=A.quat<U>(); O.put (conj(a)); };
  OP("q.hermH") { auto a=A.quat<H>(); O.put (herm(a)); };
  OP("q.hermU") { auto a=A.quat<U>(); O.put (herm(a)); };
  OP("b.invH") { auto a=A.biquat<H>(); O.put (inv(a)); };
  OP("b.invU") { auto a=A.biquat<U>(); O.put (inv(a)); };
  OP("q.invH") { auto a=A.quat<H>(); O.put (inv(a)); };
  OP("q.invU") { auto a=A.quat<U>(); O.put (inv(a)); };
  OP("b.detH") { auto a=A.biquat<H>(); O.put (det(a)); };
  OP("b.detU") { auto a=A.biquat<U>(); O.put (det(a)); };
  OP("q.detH") { auto a=A.quat<H>(); O.put (det(a)); };
  OP("q.detU") { auto a=A.quat<U>(); O.put (det(a)); };
  OP("b.trace") { auto a=A.biquat<H>(); O.put (trace(a)); };
  OP("q.trace") { auto a=A.quat<U>(); O.put (trace(a)); };
  OP("b.norm") { auto a=A.biquat<H>(); O.put (norm(a)); };
  OP("q.norm") { auto a=A.quat<U>(); O.put (norm(a)); };
  OP("b.real") { auto a=A.biquat<H>(); O.put (real(a)); };
  OP("b.imag") { auto a=A.biquat<U>(); O.put (imag(a)); };
  OP("q.identity") { O.put (Quaternion<Rat,H>::identity()); O.put (Quaternion<Rat,U>::identity()); };
  OP("q.get") { auto a=A.quat<H>(); unsigned n=A.nat(); const Quaternion<Rat,H>& c = a; O.put (c[n]); O.put (a[n]);
    O.put (a.get_scalar()); O.put (a.get_vector()); };
  OP("q.set") { auto a=A.quat<U>(); unsigned n=A.nat(); auto v=A.rat(); a[n] = v; O.put (a); };
  OP("q.datum") { auto a=A.quat<H>(); unsigned n=A.nat(); auto v=A.rat();
    DatumTraits< Quaternion<Rat,H> >::element (a, n) = v; O.put (a); O.put (DatumTraits< Quaternion<Rat,H> >::ndim()); };
  OP("q.scalarvector") { auto s=A.rat(); auto v=A.vec<3>(); Quaternion<Rat,H> q (s, v); O.put (q);
    Quaternion<Rat,H> r; r.set_scalar (s); r.set_vector (v); O.put (r); };

  // ---- conversions (C03) ----
  OP("cv.HC") { auto a=A.biquat<H>(); O.put (convert(a)); };
  OP("cv.UC") { auto a=A.biquat<U>(); O.put (convert(a)); };
  OP("cv.HR") { auto a=A.quat<H>(); O.put (convert(a)); };
  OP("cv.UR") { auto a=A.quat<U>(); O.put (convert(a)); };
  OP("cv.toH") { auto a=A.jones(); O.put (convert(a)); };
  OP("cv.toU") { auto a=A.jones(); O.put (unitary(a)); };
  OP("pauli.matrix") { unsigned i=A.nat(); Jones<double> m = Pauli::matrix(i); Jones<Rat> r (m); O.put (r); };
  OP("mx.JQh") { auto j=A.jones(); auto q=A.biquat<H>(); O.put (Jones<Rat>(j*q)); };
  OP("mx.JQu") { auto j=A.jones(); auto q=A.biquat<U>(); O.put (Jones<Rat>(j*q)); };
  OP("mx.JqhR") { auto j=A.jones(); auto q=A.quat<H>(); O.put (Jones<Rat>(j*q)); };
  OP("mx.qhRJ") { auto q=A.quat<H>(); auto j=A.jones(); O.put (Jones<Rat>(q*j)); };
  OP("mx.JquR") { auto j=A.jones(); auto q=A.quat<U>(); O.put (Jones<Rat>(j*q)); };
  OP("mx.qhqu") { auto q=A.quat<H>(); auto u=A.quat<U>(); O.put (Jones<Rat>(q*u)); };
  OP("mx.quqh") { auto u=A.quat<U>(); auto q=A.quat<H>(); O.put (Jones<Rat>(u*q)); };
  OP("mx.quRJ") { auto q=A.quat<U>(); auto j=A.jones(); O.put (Jones<Rat>(q*j)); };

  // ---- Stokes / coherency / Mueller (C02); first argument sets the process-wide basis ----
  OP("basis.show") { BasisRestore r; apply_basis (A);
    O.put ((int) Pauli::basis().get_basis());
    for (unsigned i=0;i<3;i++) O.put (Vector<3,Rat>(Pauli::basis().get_basis_vector(i)));
    for (unsigned i=0;i<3;i++) O.put (Vector<3,Rat>(Pauli::basis().get_out(Vector<3,double>::basis(i)))); };
  OP("basis.seq") { BasisRestore r; unsigned n=A.nat(); for (unsigned i=0;i<n;i++) apply_basis (A);
    O.put ((int) Pauli::basis().get_basis());
    for (unsigned i=0;i<3;i++) O.put (Vector<3,Rat>(Pauli::basis().get_basis_vector(i)));
    for (unsigned i=0;i<3;i++) O.put (Vector<3,Rat>(Pauli::basis().get_out(Vector<3,double>::basis(i)))); };
  OP("basis.inout") { BasisRestore r; apply_basis (A); auto v=A.vec<3>();
    O.put (Pauli::basis().get_in(v)); O.put (Pauli::basis().get_out(v));
    O.put (Pauli::basis().get_out(Pauli::basis().get_in(v))); };
  OP("st.convert") { BasisRestore r; apply_basis (A); auto s=A.stokes(); O.put (convert(s)); };
  OP("st.convertC") { BasisRestore r; apply_basis (A); auto s=A.cstokes(); O.put (convert(s)); };
  OP("st.natural") { BasisRestore r; apply_basis (A); auto s=A.stokes(); O.put (natural(s)); };
  OP("st.standard") { BasisRestore r; apply_basis (A); auto q=A.quat<H>(); O.put (standard(q)); };
  OP("st.coherency") { BasisRestore r; apply_basis (A); auto j=A.jones(); O.put (coherency(j)); };
  OP("st.coherencyQ") { BasisRestore r; apply_basis (A); auto q=A.quat<H>(); O.put (coherency(q)); };
  OP("st.ccoherency") { BasisRestore r; apply_basis (A); auto j=A.jones(); O.put (complex_coherency(j)); };
  OP("st.roundtrip") { BasisRestore r; apply_basis (A); auto s=A.stokes(); Jones<Rat> rho = convert(s);
    O.put (coherency(rho)); O.put (trace(rho)); O.put (det(rho)); O.put (s.invariant()); };
  OP("st.roundtripC") { BasisRestore r; apply_basis (A); auto s=A.cstokes(); Jones<Rat> rho = convert(s);
    O.put (complex_coherency(rho)); O.put (trace(rho)); O.put (det(rho)); };
  OP("st.transform") { BasisRestore r; apply_basis (A); auto s=A.stokes(); auto j=A.jones(); O.put (transform(s,j)); };
  OP("st.transformC") { BasisRestore r; apply_basis (A); auto s=A.cstokes(); auto j=A.jones(); O.put (transform(s,j)); };
  OP("st.mueller") { BasisRestore r; apply_basis (A); auto j=A.jones(); O.put (Mueller(j)); };
  OP("st.muellergrad") { BasisRestore r; apply_basis (A); auto j=A.jones(); auto g=A.jones(); O.put (Mueller(j,g)); };
  OP("st.transformM") { BasisRestore r; apply_basis (A); auto m=A.mat<4,4>(); auto j=A.jones(); O.put (transform(m,j)); };
  OP("st.invariant") { auto s=A.stokes(); O.put (s.invariant()); O.put (s.sqr_vect()); O.put (s.get_scalar()); O.put (s.get_vector()); };
  OP("sp.apply") { auto j=A.jones(); auto x=A.cx(); auto y=A.cx(); Spinor<Rat> e (x,y); Spinor<Rat> f = j*e; O.put (f.x); O.put (f.y); };

  // ---- sqrt / polar / eigen (C09 C10) ----
  OP("q.sqrt") { auto h=A.quat<H>(); O.put (Quaternion<Rat,H>(sqrt(h))); };
  OP("j.polar") { auto j=A.jones(); CRat d; Quaternion<Rat,H> h; Quaternion<Rat,U> u; polar (d,h,u,j); O.put (d); O.put (h); O.put (u); };
  OP("q.eigen") { auto h=A.quat<H>(); O.put (Quaternion<Rat,U>(eigen(h))); };

  // ---- Minkowski (C15) ----
  OP("mk.inner") { auto a=A.vec<4>(); auto b=A.vec<4>(); O.put (Minkowski::inner(a,b)); };
  OP("mk.outer") { auto a=A.vec<4>(); auto b=A.vec<4>(); O.put (Minkowski::outer(a,b)); };
  OP("mk.innerS") { auto a=A.stokes(); auto b=A.stokes(); O.put (Minkowski::inner(a,b)); O.put (a.invariant()); };

  return run_stream (ops);
}
