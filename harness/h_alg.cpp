// Harness driver, group "alg": Jones / Quaternion / Pauli / Stokes / Mueller / Minkowski
// templates of /repo instantiated at the exact rational scalar (properties C02 C03 C04 C09 C10 C15).
#include "common.h"
#include <cstring>
#include <thread>
#include "Pauli.h"
#include "Minkowski.h"
#include "Spinor.h"

#define OP(name) ops[name] = [](Args& A, Out& O)

static const QBasis H = Hermitian;
static const QBasis U = Unitary;

// set the process-wide basis from a line argument: lin | cir | ell c2o s2o c2e s2e is not
// possible through the public interface (it takes angles), so elliptical settings pass the two
// angles as doubles (hex) and report the matrix the code built.
static double hexdouble (const std::string& s)
{
  unsigned long long u = std::stoull (s, 0, 16);
  double d; memcpy (&d, &u, 8); return d;
}

static void apply_basis (Args& A)
{
  std::string b = A.next();
  if (b == "lin") Pauli::basis().set_basis (Signal::Linear);
  else if (b == "cir") Pauli::basis().set_basis (Signal::Circular);
  else if (b == "ell") { double o = hexdouble(A.next()); double e = hexdouble(A.next());
    for (int k=0;k<4;k++) A.next();   // the four libm leaf values (read by the model side only)
    Pauli::basis().set_basis (o, e); }
  // a history of settings on the process-wide basis object, rejected ones included (the enumerator Elliptical is refused by set_basis(Signal::Basis) with an exception, which the caller catches)
  else if (b == "hist") { unsigned n = A.nat(); for (unsigned i=0;i<n;i++) apply_basis (A); }
  else if (b == "bad") { try { Pauli::basis().set_basis (Signal::Elliptical); } catch (std::exception&) { } }
  else throw ProtocolError ("basis");
}

// the element of a product that may come back as Jones<T> or as Jones<complex<T>> (biquaternion on the left)
static inline CRat elt (const CRat& z) { return z; }
static inline CRat elt (const std::complex<CRat>& z) { return CRat (z.real().real(), z.imag().real()); }
static inline Rat junk (const CRat&) { return Rat (0); }
static inline Rat junk (const std::complex<CRat>& z) { Rat a = z.real().imag(), b = z.imag().imag(); return a*a + b*b; }
template<typename X> static Jones<Rat> toJR (const Jones<X>& r) { return Jones<Rat> (elt (r.j00), elt (r.j01), elt (r.j10), elt (r.j11)); }
template<typename X> static Rat junkOf (const Jones<X>& r) { return junk (r.j00) + junk (r.j01) + junk (r.j10) + junk (r.j11); }

struct BasisRestore { ~BasisRestore () { Pauli::basis().set_basis (Signal::Linear); } };

int main ()
{
  OpTable ops;
  typedef Jones<Rat> JR;

  // ---- Jones algebra (C04) ----
  OP("j.add") { auto a=A.jones(); auto b=A.jones(); O.put (Jones<Rat>(a+b)); };
  OP("j.sub") { auto a=A.jones(); auto b=A.jones(); O.put (Jones<Rat>(a-b)); };
  OP("j.mul") { auto a=A.jones(); auto b=A.jones(); O.put (Jones<Rat>(a*b)); };
  OP("j.mulassign") { auto a=A.jones(); auto b=A.jones(); a*=b; O.put (a); };
  OP("j.addassign") { auto a=A.jones(); auto b=A.jones(); a+=b; O.put (a); };
  OP("j.subassign") { auto a=A.jones(); auto b=A.jones(); a-=b; O.put (a); };
  OP("j.neg") { auto a=A.jones(); O.put (Jones<Rat>(-a)); };
  OP("j.smulc") { auto a=A.jones(); auto c=A.cx(); O.put (Jones<Rat>(a*c)); };
  OP("j.csmul") { auto c=A.cx(); auto a=A.jones(); O.put (Jones<Rat>(c*a)); };
  OP("j.smulr") { auto a=A.jones(); auto c=A.rat(); O.put (Jones<Rat>(a*c)); };
  OP("j.rsmul") { auto c=A.rat(); auto a=A.jones(); O.put (Jones<Rat>(c*a)); };
  OP("j.divc") { auto a=A.jones(); auto c=A.cx(); O.put (Jones<Rat>(a/c)); };
  OP("j.divr") { auto a=A.jones(); auto c=A.rat(); O.put (Jones<Rat>(a/c)); };
  OP("j.inv") { auto a=A.jones(); O.put (inv(a)); };
  OP("j.det") { auto a=A.jones(); O.put (det(a)); };
  OP("j.trace") { auto a=A.jones(); O.put (trace(a)); };
  OP("j.norm") { auto a=A.jones(); O.put (norm(a)); };
  OP("j.conj") { auto a=A.jones(); O.put (conj(a)); };
  OP("j.herm") { auto a=A.jones(); O.put (herm(a)); };
  OP("j.identity") { O.put (Jones<Rat>::identity()); };
  OP("j.ofscalar") { auto c=A.rat(); O.put (Jones<Rat>(c)); };
  OP("j.assignc") { auto a=A.jones(); auto c=A.cx(); a = c; O.put (a); };
  OP("j.isdiag") { auto a=A.jones(); O.put ((bool)a.is_diagonal()); };
  OP("j.p") { auto a=A.jones(); O.put (a.p()); };
  OP("j.eq") { auto a=A.jones(); auto b=A.jones(); O.put (a==b); O.put (a!=b); };
  OP("j.tomatrix") { auto a=A.jones(); Matrix<2,2,CRat> m = a; O.put (m); };
  OP("j.frommatrix") { auto m=A.cmat<2,2>(); Jones<Rat> j (m); O.put (j); };
  OP("j.matmul") { auto a=A.jones(); auto b=A.jones();
    Matrix<2,2,CRat> ma = a; Matrix<2,2,CRat> mb = b; Matrix<2,2,CRat> p = ma*mb; O.put (p); };
  OP("j.get") { auto a=A.jones(); unsigned n=A.nat(); const Jones<Rat>& c = a; O.put (c[n]); O.put (a[n]); };
  OP("j.get2") { auto a=A.jones(); unsigned r=A.nat(); unsigned c=A.nat(); const Jones<Rat>& k = a; O.put (k(r,c)); O.put (a(r,c)); };
  OP("j.set") { auto a=A.jones(); unsigned n=A.nat(); auto v=A.cx(); a[n] = v; O.put (a); };
  OP("j.set2") { auto a=A.jones(); unsigned r=A.nat(); unsigned c=A.nat(); auto v=A.cx(); a(r,c) = v; O.put (a); };
  OP("j.size") { Jones<Rat> a; O.put (a.size()); O.put (DatumTraits< Jones<Rat> >::ndim()); };
  OP("j.datum") { auto a=A.jones(); unsigned n=A.nat(); const Jones<Rat>& c = a;
    O.put (DatumTraits< Jones<Rat> >::element (c, n)); auto v=A.cx();
    DatumTraits< Jones<Rat> >::element (a, n) = v; O.put (a); };

  // ---- quaternions and biquaternions (C03) ----
  OP("b.mulH") { auto a=A.biquat<H>(); auto b=A.biquat<H>(); O.put (Quaternion<CRat,H>(a*b)); };
  OP("b.mulU") { auto a=A.biquat<U>(); auto b=A.biquat<U>(); O.put (Quaternion<CRat,U>(a*b)); };
  OP("q.mulU") { auto a=A.quat<U>(); auto b=A.quat<U>(); O.put (Quaternion<Rat,U>(a*b)); };
  OP("b.mulassignU") { auto a=A.biquat<U>(); auto b=A.biquat<U>(); a*=b; O.put (a); };
  OP("b.mulassignH") { auto a=A.biquat<H>(); auto b=A.biquat<H>(); a*=b; O.put (a); };
  OP("b.add") { auto a=A.biquat<H>(); auto b=A.biquat<H>(); O.put (Quaternion<CRat,H>(a+b)); };
  OP("b.sub") { auto a=A.biquat<H>(); auto b=A.biquat<H>(); O.put (Quaternion<CRat,H>(a-b)); };
  OP("b.neg") { auto a=A.biquat<H>(); O.put (Quaternion<CRat,H>(-a)); };
  OP("q.add") { auto a=A.quat<U>(); auto b=A.quat<U>(); O.put (Quaternion<Rat,U>(a+b)); };
  OP("q.sub") { auto a=A.quat<U>(); auto b=A.quat<U>(); O.put (Quaternion<Rat,U>(a-b)); };
  OP("b.smul") { auto a=A.biquat<H>(); auto c=A.cx(); O.put (Quaternion<CRat,H>(a*c)); };
  OP("b.csmul") { auto c=A.cx(); auto a=A.biquat<U>(); O.put (Quaternion<CRat,U>(c*a)); };
  OP("q.smul") { auto a=A.quat<H>(); auto c=A.rat(); O.put (Quaternion<Rat,H>(a*c)); };
  OP("b.sdiv") { auto a=A.biquat<H>(); auto c=A.cx(); O.put (Quaternion<CRat,H>(a/c)); };
  OP("q.sdiv") { auto a=A.quat<U>(); auto c=A.rat(); O.put (Quaternion<Rat,U>(a/c)); };
  // scalar multiples with the scalar taken from the quaternion itself (through the mutable accessor)
  OP("q.smul.self") { auto a=A.quat<H>(); unsigned k=A.nat(); a *= a[k]; O.put (a); };
  OP("q.sdiv.self") { auto a=A.quat<U>(); unsigned k=A.nat(); a /= a[k]; O.put (a); };
  OP("b.smul.self") { auto a=A.biquat<U>(); unsigned k=A.nat(); a *= a[k]; O.put (a); };
  OP("b.sdiv.self") { auto a=A.biquat<H>(); unsigned k=A.nat(); a /= a[k]; O.put (a); };
  OP("o.c03.scalself") { auto a=A.biquat<H>(); unsigned k=A.nat(); CRat c = a[k]; JR j = convert(a);
    Quaternion<CRat,H> m = a; m *= m[k]; O.put (JR(convert(m) - j*c));
    if (c != CRat(0)) { Quaternion<CRat,H> d = a; d /= d[k]; O.put (JR(convert(d) - j/c)); } };
  OP("q.addscalar") { auto a=A.quat<U>(); auto c=A.rat(); a+=c; O.put (a); a-=c; a-=c; O.put (a); };
  OP("b.conjH") { auto a=A.biquat<H>(); O.put (conj(a)); };
  OP("b.conjU") { auto a=A.biquat<U>(); O.put (conj(a)); };
  OP("b.hermH") { auto a=A.biquat<H>(); O.put (herm(a)); };
  OP("b.hermU") { auto a=A.biquat<U>(); O.put (herm(a)); };
  OP("q.conjH") { auto a=A.quat<H>(); O.put (conj(a)); };
  OP("q.conjU") { auto a=A.quat<U>(); O.put (conj(a)); };
  OP("q.hermH") { auto a=A.quat<H>(); O.put (herm(a)); };
  OP("q.hermU") { auto a=A.quat<U>(); O.put (herm(a)); };
  OP("b.invH") { auto a=A.biquat<H>(); O.put (inv(a)); };
  OP("b.invU") { auto a=A.biquat<U>(); O.put (inv(a)); };
  OP("q.invH") { auto a=A.quat<H>(); O.put (inv(a)); };
  OP("q.invU") { auto a=A.quat<U>(); O.put (inv(a)); };
  OP("b.detH") { auto a=A.biquat<H>(); O.put (det(a)); };
  OP("b.detU") { auto a=A.biquat<U>(); O.put (det(a)); };
  OP("q.detH") { auto a=A.quat<H>(); O.put (det(a)); };
  OP("q.detU") { auto a=A.quat<U>(); O.put (det(a)); };
  OP("b.trace") { auto a=A.biquat<H>(); O.put (trace(a)); };
  OP("q.trace") { auto a=A.quat<U>(); O.put (trace(a)); };
  OP("b.norm") { auto a=A.biquat<H>(); O.put (norm(a)); };
  OP("q.norm") { auto a=A.quat<U>(); O.put (norm(a)); };
  OP("b.real") { auto a=A.biquat<H>(); O.put (real(a)); };
  OP("b.imag") { auto a=A.biquat<U>(); O.put (imag(a)); };
  OP("q.identity") { O.put (Quaternion<Rat,H>::identity()); O.put (Quaternion<Rat,U>::identity()); };
  OP("q.get") { auto a=A.quat<H>(); unsigned n=A.nat(); const Quaternion<Rat,H>& c = a; O.put (c[n]); O.put (a[n]);
    O.put (a.get_scalar()); O.put (a.get_vector()); };
  OP("q.set") { auto a=A.quat<U>(); unsigned n=A.nat(); auto v=A.rat(); a[n] = v; O.put (a); };
  OP("q.datum") { auto a=A.quat<H>(); unsigned n=A.nat(); auto v=A.rat();
    DatumTraits< Quaternion<Rat,H> >::element (a, n) = v; O.put (a); O.put (DatumTraits< Quaternion<Rat,H> >::ndim()); };
  OP("q.scalarvector") { auto s=A.rat(); auto v=A.vec<3>(); Quaternion<Rat,H> q (s, v); O.put (q);
    Quaternion<Rat,H> r; r.set_scalar (s); r.set_vector (v); O.put (r); };

  // ---- conversions (C03) ----
  OP("cv.HC") { auto a=A.biquat<H>(); O.put (convert(a)); };
  OP("cv.UC") { auto a=A.biquat<U>(); O.put (convert(a)); };
  OP("cv.HR") { auto a=A.quat<H>(); O.put (convert(a)); };
  OP("cv.UR") { auto a=A.quat<U>(); O.put (convert(a)); };
  OP("cv.toH") { auto a=A.jones(); O.put (convert(a)); };
  OP("cv.toU") { auto a=A.jones(); O.put (unitary(a)); };
  OP("pauli.matrix") { unsigned i=A.nat(); Jones<double> m = Pauli::matrix(i); Jones<Rat> r (m); O.put (r); };
  // scalars passed in another arithmetic type (the division template accepts any): J / k and J * k for an integer k given as
  // int, long, unsigned, short agree with the exact-rational scalar.  Output: residuals
  OP("o.c04.intscalar") { auto j=A.jones(); int k=A.integer(); Rat rk (k);
    JR ref = j; ref /= rk;
    O.put (JR(JR(j / k) - ref)); O.put (JR(JR(j / (long) k) - ref)); O.put (JR(JR(j / (short) k) - ref));
    if (k > 0) O.put (JR(JR(j / (unsigned) k) - ref));
    JR prod = j; prod *= rk; O.put (JR(JR(j * Rat(k)) - prod)); O.put (JR(JR(Rat(k) * j) - prod));
    JR back = j / k; back *= rk; O.put (JR(back - j)); };
  // the four basis matrices requested in a given order (the first request of a process may be any of them): each is the
  // matrix of its own index.  Output: entry-wise differences from sigma_0..sigma_3
  OP("o.c15.pauliorder") { std::string b = A.next(); BasisRestore r0;     // the basis in force while the (possibly first) requests are made: lin | cir | ell
    if (b == "cir") Pauli::basis().set_basis (Signal::Circular); else if (b == "ell") Pauli::basis().set_basis (0.4, -0.3); else if (b != "lin") throw ProtocolError ("basis");
    for (int t=0;t<4;t++) { unsigned i=A.nat(); Jones<double> m = Pauli::matrix(i); Jones<Rat> r (m);
      CRat z (0), one (1), mone (-1), I (Rat(0), Rat(1)), mI (Rat(0), Rat(-1));
      JR e = (i == 0) ? JR (one, z, z, one) : (i == 1) ? JR (one, z, z, mone) : (i == 2) ? JR (z, one, one, z) : JR (z, mI, I, z);
      O.put (JR(r - e)); } };
  OP("mx.JQh") { auto j=A.jones(); auto q=A.biquat<H>(); O.put (Jones<Rat>(j*q)); };
  OP("mx.JQu") { auto j=A.jones(); auto q=A.biquat<U>(); O.put (Jones<Rat>(j*q)); };
  // a biquaternion on the left of a Jones matrix (the product comes back as Jones<complex<T>>: the real and imaginary parts of its
  // elements are themselves complex numbers whose real parts carry the matrix)
  OP("mx.QhJ") { auto q=A.biquat<H>(); auto j=A.jones(); auto r = q*j; O.put (toJR (r)); Rat k = junkOf (r); for (int i=0;i<8;i++) O.put (Rat(i ? Rat(0) : k)); };
  OP("mx.QuJ") { auto q=A.biquat<U>(); auto j=A.jones(); auto r = q*j; O.put (toJR (r)); Rat k = junkOf (r); for (int i=0;i<8;i++) O.put (Rat(i ? Rat(0) : k)); };
  OP("mx.JqhR") { auto j=A.jones(); auto q=A.quat<H>(); O.put (Jones<Rat>(j*q)); };
  OP("mx.qhRJ") { auto q=A.quat<H>(); auto j=A.jones(); O.put (Jones<Rat>(q*j)); };
  OP("mx.JquR") { auto j=A.jones(); auto q=A.quat<U>(); O.put (Jones<Rat>(j*q)); };
  OP("mx.qhqu") { auto q=A.quat<H>(); auto u=A.quat<U>(); O.put (Jones<Rat>(q*u)); };
  OP("mx.quqh") { auto u=A.quat<U>(); auto q=A.quat<H>(); O.put (Jones<Rat>(u*q)); };
  OP("mx.quRJ") { auto q=A.quat<U>(); auto j=A.jones(); O.put (Jones<Rat>(q*j)); };

  // ---- Stokes / coherency / Mueller (C02); first argument sets the process-wide basis ----
  OP("basis.show") { BasisRestore r; apply_basis (A);
    O.put ((int) Pauli::basis().get_basis());
    for (unsigned i=0;i<3;i++) O.put (Vector<3,Rat>(Pauli::basis().get_basis_vector(i)));
    for (unsigned i=0;i<3;i++) O.put (Vector<3,Rat>(Pauli::basis().get_out(Vector<3,double>::basis(i)))); };
  OP("basis.seq") { BasisRestore r; unsigned n=A.nat(); for (unsigned i=0;i<n;i++) apply_basis (A);
    O.put ((int) Pauli::basis().get_basis());
    for (unsigned i=0;i<3;i++) O.put (Vector<3,Rat>(Pauli::basis().get_basis_vector(i)));
    for (unsigned i=0;i<3;i++) O.put (Vector<3,Rat>(Pauli::basis().get_out(Vector<3,double>::basis(i)))); };
  OP("basis.inout") { BasisRestore r; apply_basis (A); auto v=A.vec<3>();
    O.put (Pauli::basis().get_in(v)); O.put (Pauli::basis().get_out(v));
    O.put (Pauli::basis().get_out(Pauli::basis().get_in(v))); };
  OP("st.convert") { BasisRestore r; apply_basis (A); auto s=A.stokes(); O.put (convert(s)); };
  OP("st.convertC") { BasisRestore r; apply_basis (A); auto s=A.cstokes(); O.put (convert(s)); };
  OP("st.natural") { BasisRestore r; apply_basis (A); auto s=A.stokes(); O.put (natural(s)); };
  OP("st.standard") { BasisRestore r; apply_basis (A); auto q=A.quat<H>(); O.put (standard(q)); };
  OP("st.coherency") { BasisRestore r; apply_basis (A); auto j=A.jones(); O.put (coherency(j)); };
  OP("st.coherencyQ") { BasisRestore r; apply_basis (A); auto q=A.quat<H>(); O.put (coherency(q)); };
  OP("st.ccoherency") { BasisRestore r; apply_basis (A); auto j=A.jones(); O.put (complex_coherency(j)); };
  OP("st.roundtrip") { BasisRestore r; apply_basis (A); auto s=A.stokes(); Jones<Rat> rho = convert(s);
    O.put (coherency(rho)); O.put (trace(rho)); O.put (det(rho)); O.put (s.invariant()); };
  OP("st.roundtripC") { BasisRestore r; apply_basis (A); auto s=A.cstokes(); Jones<Rat> rho = convert(s);
    O.put (complex_coherency(rho)); O.put (trace(rho)); O.put (det(rho)); };
  OP("st.transform") { BasisRestore r; apply_basis (A); auto s=A.stokes(); auto j=A.jones(); O.put (transform(s,j)); };
  OP("st.transformC") { BasisRestore r; apply_basis (A); auto s=A.cstokes(); auto j=A.jones(); O.put (transform(s,j)); };
  OP("st.mueller") { BasisRestore r; apply_basis (A); auto j=A.jones(); O.put (Mueller(j)); };
  OP("st.muellergrad") { BasisRestore r; apply_basis (A); auto j=A.jones(); auto g=A.jones(); O.put (Mueller(j,g)); };
  OP("st.transformM") { BasisRestore r; apply_basis (A); auto m=A.mat<4,4>(); auto j=A.jones(); O.put (transform(m,j)); };
  OP("st.invariant") { auto s=A.stokes(); O.put (s.invariant()); O.put (s.sqr_vect()); O.put (s.get_scalar()); O.put (s.get_vector()); };
  OP("sp.apply") { auto j=A.jones(); auto x=A.cx(); auto y=A.cx(); Spinor<Rat> e (x,y); Spinor<Rat> f = j*e; O.put (f.x); O.put (f.y); };

  // ---- sqrt / polar / eigen (C09 C10) ----
  OP("q.sqrt") { auto h=A.quat<H>(); O.put (Quaternion<Rat,H>(sqrt(h))); };
  OP("j.polar") { auto j=A.jones(); CRat d; Quaternion<Rat,H> h; Quaternion<Rat,U> u; polar (d,h,u,j); O.put (d); O.put (h); O.put (u); };
  OP("q.eigen") { auto h=A.quat<H>(); O.put (Quaternion<Rat,U>(eigen(h))); };

  // ---- Minkowski (C15) ----
  OP("mk.inner") { auto a=A.vec<4>(); auto b=A.vec<4>(); O.put (Minkowski::inner(a,b)); };
  // oracle: the outer product is a VALUE: twelve results kept alive at once (bound to const references, which extends the life of
  // a returned temporary) and twelve calls inside one expression, against copies taken one call at a time.
  // Output: entries of the kept results that changed, then entries of the one-expression sum that differ from the sum of the copies
  OP("o.c15.manyouter") { std::vector< Vector<4,Rat> > a, b; for (unsigned i=0;i<12;i++) { a.push_back (A.vec<4>()); b.push_back (A.vec<4>()); }
    std::vector< Matrix<4,4,Rat> > want; for (unsigned i=0;i<12;i++) { Matrix<4,4,Rat> c = Minkowski::outer (a[i], b[i]); want.push_back (c); }
#define KEEP(i) const Matrix<4,4,Rat>& r##i = Minkowski::outer (a[i], b[i]);
    KEEP(0) KEEP(1) KEEP(2) KEEP(3) KEEP(4) KEEP(5) KEEP(6) KEEP(7) KEEP(8) KEEP(9) KEEP(10) KEEP(11)
#undef KEEP
    const Matrix<4,4,Rat>* kept[12] = { &r0, &r1, &r2, &r3, &r4, &r5, &r6, &r7, &r8, &r9, &r10, &r11 };
    long changed = 0; for (unsigned i=0;i<12;i++) for (unsigned r=0;r<4;r++) for (unsigned c=0;c<4;c++) if (!((*kept[i])[r][c] == want[i][r][c])) changed++;
#define CALL(i) Minkowski::outer (a[i], b[i])
    Matrix<4,4,Rat> sum = CALL(0) + CALL(1) + CALL(2) + CALL(3) + CALL(4) + CALL(5) + CALL(6) + CALL(7) + CALL(8) + CALL(9) + CALL(10) + CALL(11);
#undef CALL
    Matrix<4,4,Rat> ref = want[0]; for (unsigned i=1;i<12;i++) ref += want[i];
    long differ = 0; for (unsigned r=0;r<4;r++) for (unsigned c=0;c<4;c++) if (!(sum[r][c] == ref[r][c])) differ++;
    O.put (Rat (changed)); O.put (Rat (differ)); };
  OP("mk.outer") { auto a=A.vec<4>(); auto b=A.vec<4>(); O.put (Minkowski::outer(a,b)); };
  OP("mk.innerS") { auto a=A.stokes(); auto b=A.stokes(); O.put (Minkowski::inner(a,b)); O.put (a.invariant()); };


  // =====================================================================================
  // Oracle operations: the property itself evaluated on the implementation alone, in exact
  // arithmetic.  Every output value must be zero.
  // =====================================================================================
  typedef Quaternion<CRat,H> BH;  typedef Quaternion<CRat,U> BU;
  typedef Quaternion<Rat,H> QH;   typedef Quaternion<Rat,U> QU;

  // ---- C03 ----
  typedef Jones<Rat> JR0;
  OP("o.c03.roundH") { auto q=A.biquat<H>(); O.put (BH(convert(convert(q)) - q)); };
  OP("o.c03.roundU") { auto q=A.biquat<U>(); O.put (BU(unitary(convert(q)) - q)); };
  OP("o.c03.roundJ") { auto j=A.jones(); O.put (JR(convert(convert(j)) - j)); O.put (JR(convert(unitary(j)) - j)); };
  OP("o.c03.homH") { auto a=A.biquat<H>(); auto b=A.biquat<H>();
    O.put (JR(convert(BH(a*b)) - convert(a)*convert(b)));
    O.put (JR(convert(BH(a+b)) - (convert(a)+convert(b))));
    O.put (JR(convert(BH(a-b)) - (convert(a)-convert(b))));
    O.put (JR(convert(BH(-a)) - (-convert(a)))); };
  OP("o.c03.homU") { auto a=A.biquat<U>(); auto b=A.biquat<U>();
    O.put (JR(convert(BU(a*b)) - convert(a)*convert(b)));
    O.put (JR(convert(BU(a+b)) - (convert(a)+convert(b))));
    O.put (JR(convert(BU(a-b)) - (convert(a)-convert(b)))); };
  OP("o.c03.homUr") { auto a=A.quat<U>(); auto b=A.quat<U>();
    O.put (JR(convert(QU(a*b)) - convert(a)*convert(b)));
    O.put (JR(convert(QU(a+b)) - (convert(a)+convert(b)))); };
  OP("o.c03.scal") { auto a=A.biquat<H>(); auto u=A.biquat<U>(); auto c=A.cx();
    O.put (JR(convert(BH(a*c)) - convert(a)*c));
    O.put (JR(convert(BU(c*u)) - c*convert(u)));
    O.put (JR(convert(BH::identity()*c) - JR::identity()*c)); };
  OP("o.c03.funH") { auto a=A.biquat<H>(); JR j = convert(a);
    O.put (CRat(det(j) - det(a))); O.put (CRat(trace(j) - trace(a))); O.put (Rat(norm(j) - norm(a)));
    O.put (JR(conj(j) - convert(conj(a)))); O.put (JR(herm(j) - convert(herm(a))));
    if (det(a) != CRat(0)) O.put (JR(inv(j) - convert(inv(a)))); };
  OP("o.c03.funU") { auto a=A.biquat<U>(); JR j = convert(a);
    O.put (CRat(det(j) - det(a))); O.put (CRat(trace(j) - trace(a))); O.put (Rat(norm(j) - norm(a)));
    O.put (JR(conj(j) - convert(conj(a)))); O.put (JR(herm(j) - convert(herm(a))));
    if (det(a) != CRat(0)) O.put (JR(inv(j) - convert(inv(a)))); };
  OP("o.c03.real") { auto h=A.quat<H>(); auto u=A.quat<U>();
    JR jh = convert(h); O.put (JR(herm(jh) - jh));
    O.put (Rat(det(jh).real() - det(h))); O.put (det(jh).imag()); O.put (Rat(norm(jh) - norm(h)));
    JR ju = convert(u); O.put (JR(ju*herm(ju) - JR::identity()*CRat(det(u))));
    O.put (Rat(det(ju).real() - det(u))); O.put (det(ju).imag()); O.put (Rat(norm(ju) - norm(u)));
    O.put (JR(convert(conj(h)) - conj(jh))); O.put (JR(convert(herm(u)) - herm(ju))); O.put (JR(convert(conj(u)) - conj(ju)));
    if (det(h) != 0) O.put (JR(convert(inv(h))*jh - JR::identity()));
    if (det(u) != 0) O.put (JR(convert(inv(u))*ju - JR::identity())); };
  OP("o.c03.units") {
    CRat one(1), zero(0), i(0,1);
    JR sig[4] = { JR(one,zero,zero,one), JR(one,zero,zero,-one), JR(zero,one,one,zero), JR(zero,-i,i,zero) };
    for (unsigned k=0;k<4;k++) {
      QH h; h[k] = 1; O.put (JR(convert(h) - sig[k]));
      BH bh; bh[k] = one; O.put (JR(convert(bh) - sig[k]));
      O.put (JR(JR(Pauli::matrix(k)) - sig[k]));
      QU u; u[k] = 1; BU bu; bu[k] = one;
      JR expect = (k == 0) ? sig[0] : JR(sig[k]*i);
      O.put (JR(convert(u) - expect)); O.put (JR(convert(bu) - expect));
    } };
  OP("o.c03.mixed") { auto j=A.jones(); auto bh=A.biquat<H>(); auto bu=A.biquat<U>(); auto h=A.quat<H>(); auto u=A.quat<U>();
    O.put (JR(JR(j*bh) - j*convert(bh))); O.put (JR(JR(j*bu) - j*convert(bu)));
    O.put (JR(JR(j*h) - j*convert(h))); O.put (JR(JR(j*u) - j*convert(u)));
    O.put (JR(JR(h*j) - convert(h)*j)); O.put (JR(JR(u*j) - convert(u)*j));
    O.put (JR(JR(h*u) - convert(h)*convert(u))); O.put (JR(JR(u*h) - convert(u)*convert(h)));
    // a biquaternion on the left (the product may be returned as Jones<complex<T>>; see mx.QhJ)
    { auto r = bh*j; O.put (JR(toJR (r) - convert(bh)*j)); O.put (junkOf (r)); }
    { auto r = bu*j; O.put (JR(toJR (r) - convert(bu)*j)); O.put (junkOf (r)); }
  };

  // ---- C04 ----
  OP("o.c04.ring") { auto a=A.jones(); auto b=A.jones(); auto c=A.jones(); JR I = JR::identity();
    O.put (JR(JR(JR(a*b)*c) - JR(a*JR(b*c)))); O.put (JR(JR(a*JR(b+c)) - JR(JR(a*b)+JR(a*c))));
    O.put (JR(JR(JR(a+b)*c) - JR(JR(a*c)+JR(b*c)))); O.put (JR(JR(JR(a+b)+c) - JR(a+JR(b+c))));
    O.put (JR(JR(a*I) - a)); O.put (JR(JR(I*a) - a)); O.put (JR(JR(a+b) - JR(b+a))); O.put (JR(JR(a-b) - JR(a+JR(-b)))); };
  OP("o.c04.scalar") { auto a=A.jones(); auto b=A.jones(); auto c=A.cx(); auto r=A.rat();
    O.put (JR(JR(JR(a*c)*b) - JR(JR(a*b)*c))); O.put (JR(JR(a*JR(c*b)) - JR(c*JR(a*b))));
    O.put (JR(JR(JR(a*r)*b) - JR(JR(a*b)*r))); O.put (JR(JR(a*JR(r*b)) - JR(r*JR(a*b))));
    O.put (JR(JR(a*c) - JR(a*JR(c)))); 
    if (c != CRat(0)) { O.put (JR(JR(JR(a/c)*b) - JR(JR(a*b)/c))); O.put (JR(JR(JR(a/c)*c) - a)); }
    if (r != 0) { O.put (JR(JR(JR(a/r)*b) - JR(JR(a*b)/r))); O.put (JR(JR(JR(a/r)*r) - a)); } };
  OP("o.c04.dettrace") { auto a=A.jones(); auto b=A.jones(); auto c=A.cx();
    O.put (CRat(det(JR(a*b)) - det(a)*det(b))); O.put (CRat(trace(JR(a+b)) - (trace(a)+trace(b))));
    O.put (CRat(trace(JR(a*b)) - trace(JR(b*a)))); O.put (CRat(trace(JR(c*a)) - c*trace(a)));
    O.put (JR(JR(JR(a*a) - JR(a*trace(a))) + JR(JR::identity()*det(a)))); };
  OP("o.c04.conjherm") { auto a=A.jones(); auto b=A.jones();
    O.put (JR(conj(JR(a*b)) - JR(conj(a)*conj(b)))); O.put (JR(conj(JR(a+b)) - JR(conj(a)+conj(b))));
    O.put (JR(herm(JR(a*b)) - JR(herm(b)*herm(a)))); O.put (JR(herm(herm(a)) - a)); O.put (JR(conj(conj(a)) - a));
    CRat t = trace(JR(a*herm(a))); O.put (Rat(norm(a) - t.real())); O.put (t.imag()); };
  OP("o.c04.inv") { auto a=A.jones();
    if (det(a) != CRat(0)) { O.put (JR(JR(a*inv(a)) - JR::identity())); O.put (JR(JR(inv(a)*a) - JR::identity())); } };
  OP("o.c04.matrix") { auto a=A.jones(); auto b=A.jones();
    Matrix<2,2,CRat> ma = a; Matrix<2,2,CRat> mb = b;
    O.put (JR(JR(ma) - a)); Matrix<2,2,CRat> mab = JR(a*b); Matrix<2,2,CRat> prod = ma*mb;
    for (unsigned i=0;i<2;i++) for (unsigned k=0;k<2;k++) { O.put (CRat(mab[i][k] - prod[i][k])); O.put (CRat(ma[i][k] - a(i,k))); } };
  OP("o.c04.diag") { auto a=A.jones(); bool expect = (a.j01 == CRat(0)) && (a.j10 == CRat(0)); O.put (Rat(int(a.is_diagonal()) - int(expect))); };
  OP("o.c04.p") { auto a=A.jones(); Rat p = a.p(); Rat tr = trace(a).real(); Rat d = det(a).real();
    O.put (Rat(p*p*tr*tr - (tr*tr - 4*d))); O.put (Rat(p < 0 ? 1 : 0)); };

  // ---- C15 ----
  OP("o.c15.inner") { auto a=A.stokes(); auto b=A.stokes(); auto c=A.stokes(); auto s=A.rat();
    Rat dot = a[1]*b[1] + a[2]*b[2] + a[3]*b[3];
    O.put (Rat(Minkowski::inner(a,b) - (a[0]*b[0] - dot))); O.put (Rat(Minkowski::inner(a,b) - Minkowski::inner(b,a)));
    O.put (Rat(Minkowski::inner(a,a) - a.invariant()));
    Stokes<Rat> l = a + s*c;
    O.put (Rat(Minkowski::inner(l,b) - (Minkowski::inner(a,b) + s*Minkowski::inner(c,b)))); };
  OP("o.c15.outer") { auto a=A.stokes(); auto b=A.stokes(); auto c=A.stokes(); auto s=A.rat();
    Matrix<4,4,Rat> ab = Minkowski::outer(a,b); Matrix<4,4,Rat> ba = Minkowski::outer(b,a); Matrix<4,4,Rat> aa = Minkowski::outer(a,a);
    Pauli::basis().set_basis (Signal::Linear);
    JR ra = convert(a); JR rb = convert(b);
    for (unsigned i=0;i<4;i++) for (unsigned j=0;j<4;j++) {
      JR si (Pauli::matrix(i)); JR sj (Pauli::matrix(j));
      O.put (Rat(ab[i][j] - ba[j][i]));
      CRat t1 = trace (JR(JR(JR(si*ra)*sj)*ra)); O.put (Rat(aa[i][j] - t1.real())); O.put (t1.imag());
      CRat t2 = trace (JR(JR(JR(si*ra)*sj)*rb)) + trace (JR(JR(JR(si*rb)*sj)*ra));
      O.put (Rat(ab[i][j] + ba[i][j] - t2.real())); O.put (t2.imag());
    }
    Stokes<Rat> l = a + s*c; Matrix<4,4,Rat> lb = Minkowski::outer(l,b); Matrix<4,4,Rat> cb = Minkowski::outer(c,b);
    Matrix<4,4,Rat> bl = Minkowski::outer(b,l); Matrix<4,4,Rat> bc = Minkowski::outer(b,c);
    for (unsigned i=0;i<4;i++) for (unsigned j=0;j<4;j++) {
      O.put (Rat(lb[i][j] - (ab[i][j] + s*cb[i][j]))); O.put (Rat(bl[i][j] - (ba[i][j] + s*bc[i][j]))); } };

  // ---- C02 ----
  OP("o.c02.round") { BasisRestore r; apply_basis (A); auto s=A.stokes(); JR rho = convert(s);
    O.put (Stokes<Rat>(coherency(rho) - s)); O.put (CRat(trace(rho) - s[0])); O.put (CRat(Rat(4)*det(rho) - CRat(s.invariant())));
    O.put (Stokes<Rat>(standard(natural(s)) - s)); O.put (Stokes<Rat>(coherency(natural(s)) - Rat(2)*s)); };
  OP("o.c02.roundC") { BasisRestore r; apply_basis (A); auto s=A.cstokes(); JR rho = convert(s);
    O.put (Stokes<CRat>(complex_coherency(rho) - s)); O.put (CRat(trace(rho) - s[0]));
    CRat inv = s[0]*s[0] - s[1]*s[1] - s[2]*s[2] - s[3]*s[3]; O.put (CRat(CRat(4)*det(rho) - inv)); };
  OP("o.c02.transform") { BasisRestore r; apply_basis (A); auto s=A.stokes(); auto j=A.jones();
    Stokes<Rat> t = transform (s, j);
    O.put (Stokes<Rat>(t - coherency (JR(JR(j*convert(s))*herm(j)))));
    Matrix<4,4,Rat> M = Mueller (j); O.put (Stokes<Rat>(t - Stokes<Rat>(M*s)));
    O.put (Rat(t.invariant() - norm(det(j))*s.invariant())); };
  // the same Jones matrix under two successive bases: Mueller(J) is first evaluated in the first basis (any memory of that
  // result must not survive the change of basis), then every identity is checked in the second
  OP("o.c02.transform2") { BasisRestore r; apply_basis (A); auto s=A.stokes(); auto j=A.jones();
    Matrix<4,4,Rat> M0 = Mueller (j); Stokes<Rat> t0 = transform (s, j); (void) M0; (void) t0;
    apply_basis (A);
    Stokes<Rat> t = transform (s, j);
    O.put (Stokes<Rat>(t - coherency (JR(JR(j*convert(s))*herm(j)))));
    JR jcopy = j; Matrix<4,4,Rat> M = Mueller (jcopy); O.put (Stokes<Rat>(t - Stokes<Rat>(M*s)));
    O.put (Rat(t.invariant() - norm(det(j))*s.invariant())); };
  // the basis is process-wide: what the main thread set is what a second thread (started after the setting, joined before its
  // results are read: no concurrency) converts with.  Outputs (all zero): convert on the thread - convert on main; the round trip
  // main -> thread; transform and Mueller on the thread - on main; then the setting made on a thread seen from main
  OP("o.c02.thread") { BasisRestore r; apply_basis (A); auto s=A.stokes(); auto j=A.jones();
    JR c = convert (s); Stokes<Rat> t = transform (s, j); Matrix<4,4,Rat> M = Mueller (j);
    JR c2; Stokes<Rat> back, t2; Matrix<4,4,Rat> M2;
    { std::thread th ([&]() { c2 = convert (s); back = coherency (c); t2 = transform (s, j); M2 = Mueller (j); }); th.join (); }
    O.put (JR(c2 - c)); O.put (Stokes<Rat>(back - s)); O.put (Stokes<Rat>(t2 - t)); for (unsigned i=0;i<4;i++) for (unsigned k=0;k<4;k++) O.put (Rat(M2[i][k] - M[i][k]));
    // a second setting, made on a thread, then used on main: compared with the same setting made on main
    Args B1; while (!A.done()) B1.tok.push_back (A.next()); Args B2 = B1;
    { std::thread th ([&]() { apply_basis (B1); }); th.join (); } JR c3 = convert (s);
    apply_basis (B2); JR c4 = convert (s);
    O.put (JR(c3 - c4)); };
  // many settings of the process-wide basis between two uses: Mueller (J) is evaluated under the first basis, then N settings
  // are made (alternating between the named bases, the last one is the second basis), then every identity is checked: any
  // memory of the first evaluation keyed by a counter of settings that wraps would survive here
  OP("o.c02.manysettings") { BasisRestore r; unsigned long N = std::stoul (A.next()); apply_basis (A); auto s=A.stokes(); auto j=A.jones();
    Matrix<4,4,Rat> M0 = Mueller (j); Stokes<Rat> t0 = transform (s, j); JR g0 = j; Matrix<4,4,Rat> G0 = Mueller (j, g0); (void) M0; (void) t0; (void) G0;
    for (unsigned long i=1; i<N; i++) Pauli::basis().set_basis ((i & 1) ? Signal::Circular : Signal::Linear);
    apply_basis (A);
    Stokes<Rat> t = transform (s, j);
    O.put (Stokes<Rat>(t - coherency (JR(JR(j*convert(s))*herm(j)))));
    JR jcopy = j; Matrix<4,4,Rat> M = Mueller (jcopy); O.put (Stokes<Rat>(t - Stokes<Rat>(M*s)));
    Matrix<4,4,Rat> G = Mueller (j, jcopy); Stokes<Rat> gs = G*s; O.put (Stokes<Rat>(gs - Stokes<Rat>(t + t))); };
  OP("o.c02.transformC") { BasisRestore r; apply_basis (A); auto s=A.cstokes(); auto j=A.jones();
    Stokes<CRat> t = transform (s, j); Matrix<4,4,Rat> M = Mueller (j);
    for (unsigned i=0;i<4;i++) { CRat acc (0); for (unsigned k=0;k<4;k++) acc += CRat(M[i][k])*s[k]; O.put (CRat(t[i] - acc)); } };
  OP("o.c02.compose") { BasisRestore r; apply_basis (A); auto a=A.jones(); auto b=A.jones();
    Matrix<4,4,Rat> l = Mueller (JR(a*b)); Matrix<4,4,Rat> m = Mueller(a) * Mueller(b);
    for (unsigned i=0;i<4;i++) for (unsigned k=0;k<4;k++) O.put (Rat(l[i][k] - m[i][k])); };
  OP("o.c02.grad") { BasisRestore r; apply_basis (A); auto j=A.jones(); auto g=A.jones(); auto t=A.rat();
    Matrix<4,4,Rat> l = Mueller (JR(j + JR(g*t))); Matrix<4,4,Rat> m0 = Mueller(j); Matrix<4,4,Rat> m1 = Mueller(j,g); Matrix<4,4,Rat> m2 = Mueller(g);
    for (unsigned i=0;i<4;i++) for (unsigned k=0;k<4;k++) O.put (Rat(l[i][k] - (m0[i][k] + t*m1[i][k] + t*t*m2[i][k]))); };
  OP("o.c02.transformM") { BasisRestore r; apply_basis (A); auto j=A.jones(); auto rho=A.jones();
    O.put (JR(transform (Mueller(j), rho) - JR(JR(j*rho)*herm(j)))); };

  return run_stream (ops);
}
