// Harness driver, group "est" (properties C11, C12): Estimate / MeanEstimate / MeanRadian.
// `e.*`, `me.*`: exact rational instantiation.  `ef.*`, `mr.*`: double instantiation, IEEE bit
// patterns in and out (the model side runs the same rules at Float with the same libm).
#include "common.h"
#include <cstring>
#include <algorithm>
#include <cmath>

#define OP(name) ops[name] = [](Args& A, Out& O)
typedef Estimate<Rat> ER;
typedef Estimate<double> ED;
void est_cmul (const Rat* in, Rat* out);

static double hexdouble (const std::string& s)
{ unsigned long long u = std::stoull (s, 0, 16); double d; memcpy (&d, &u, 8); return d; }
static std::string dhex (double x) { unsigned long long u; memcpy (&u, &x, 8); char b[20]; snprintf (b, 20, "%016llx", u); return b; }
static ER rdE (Args& A) { Rat v=A.rat(); Rat r=A.rat(); return ER(v,r); }
static ED rdD (Args& A) { double v=hexdouble(A.next()); double r=hexdouble(A.next()); return ED(v,r); }
static void putE (Out& O, const ER& e) { O.put (e.val); O.put (e.var); }
static void putD (Out& O, const ED& e) { O.put (dhex(e.val)); O.put (dhex(e.var)); }

// all binary merge trees over items[lo,hi) in order
static void all_trees (const std::vector<ER>& items, unsigned lo, unsigned hi, std::vector< MeanEstimate<Rat> >& out)
{
  if (hi - lo == 1) { out.push_back (MeanEstimate<Rat>(items[lo])); return; }
  for (unsigned mid = lo+1; mid < hi; mid++) {
    std::vector< MeanEstimate<Rat> > L, R; all_trees (items, lo, mid, L); all_trees (items, mid, hi, R);
    for (auto& l : L) for (auto& r : R) { MeanEstimate<Rat> m = l; m += r; out.push_back (m); }
  }
}

// evaluate a prefix-encoded tree: `L k` | `N <tree> <tree>`
static MeanEstimate<Rat> eval_tree (Args& A, const std::vector<ER>& items)
{
  std::string t = A.next();
  if (t == "L") return MeanEstimate<Rat>(items.at (A.nat()));
  MeanEstimate<Rat> l = eval_tree (A, items); MeanEstimate<Rat> r = eval_tree (A, items); l += r; return l;
}

int main ()
{
  OpTable ops;

  // ---- exact Estimate arithmetic ----
  OP("e.add") { ER a=rdE(A), b=rdE(A); putE (O, a+b); };
  OP("e.sub") { ER a=rdE(A), b=rdE(A); putE (O, a-b); };
  OP("e.mul") { ER a=rdE(A), b=rdE(A); putE (O, a*b); };
  OP("e.div") { ER a=rdE(A), b=rdE(A); putE (O, a/b); };
  OP("e.neg") { ER a=rdE(A); putE (O, -a); };
  OP("e.inverse") { ER a=rdE(A); putE (O, a.inverse()); };
  OP("e.cmul") { Rat in[8], out[4]; for (int i=0;i<8;i++) in[i]=A.rat(); est_cmul (in, out); for (int i=0;i<4;i++) O.put (out[i]); };
  OP("e.access") { ER a=rdE(A); O.put (a.get_value()); O.put (a.get_variance()); O.put (Rat(a[0])); a.set_error (Rat(3)); O.put (a.var);
    O.put (DatumTraits<ER>::ndim()); DatumTraits<ER>::element (a, 0) = Rat(7); O.put (a.val); };
  OP("ef.invariant") { Stokes<ED> s; for (unsigned i=0;i<4;i++) s[i] = rdD(A); ED r = invariant (s); putD (O, r); };

  // ---- exact weighted means ----
  OP("me.fold") { unsigned n=A.nat(); MeanEstimate<Rat> m; for (unsigned i=0;i<n;i++) m += rdE(A);
    O.put (m.norm_val); O.put (m.inv_var); putE (O, m.get_Estimate()); };
  OP("me.tree") { unsigned n=A.nat(); std::vector<ER> items; for (unsigned i=0;i<n;i++) items.push_back (rdE(A));
    MeanEstimate<Rat> m = eval_tree (A, items); O.put (m.norm_val); O.put (m.inv_var); putE (O, m.get_Estimate()); };
  // oracle (history): assigning an Estimate (or an accumulator) to a used accumulator forgets the history: accumulate the first
  // k items, assign item k (mode 0: `m = estimate`, 1: `m = MeanEstimate(estimate)`, 2: copy-assign an accumulator holding it),
  // accumulate the rest; the result is the accumulator of items k.. alone.  Output: differences of the two sums
  OP("o.c12.assign") { unsigned n=A.nat(); unsigned k=A.nat(); unsigned mode=A.nat(); std::vector<ER> items; for (unsigned i=0;i<n;i++) items.push_back (rdE(A));
    MeanEstimate<Rat> m, f; for (unsigned i=0;i<k;i++) m += items[i];
    if (mode == 0) m = items[k]; else if (mode == 1) m = MeanEstimate<Rat> (items[k]); else { MeanEstimate<Rat> t; t += items[k]; m = t; }
    for (unsigned i=k+1;i<n;i++) m += items[i];
    for (unsigned i=k;i<n;i++) f += items[i];
    O.put (Rat(m.norm_val - f.norm_val)); O.put (Rat(m.inv_var - f.inv_var)); };
  // oracle: every permutation and every merge tree of the sequence gives the same accumulator, equal to the closed form
  OP("o.c12.orders") { unsigned n=A.nat(); std::vector<ER> items; for (unsigned i=0;i<n;i++) items.push_back (rdE(A));
    Rat sw (0), sx (0); for (auto& e : items) if (e.var != 0) { sw += Rat(1)/e.var; sx += e.val/e.var; }
    std::vector<unsigned> perm (n); for (unsigned i=0;i<n;i++) perm[i]=i;
    unsigned long count = 0; Rat worst (0);
    do {
      std::vector<ER> p; for (unsigned i=0;i<n;i++) p.push_back (items[perm[i]]);
      MeanEstimate<Rat> seq; for (auto& e : p) seq += e;
      if (seq.norm_val != sx || seq.inv_var != sw) worst = Rat(1);
      if (n >= 1) { std::vector< MeanEstimate<Rat> > trees; all_trees (p, 0, n, trees);
        for (auto& t : trees) { count++; if (t.norm_val != sx || t.inv_var != sw) worst = Rat(1); } }
    } while (std::next_permutation (perm.begin(), perm.end()));
    MeanEstimate<Rat> m; for (auto& e : items) m += e; ER g = m.get_Estimate();
    O.put (worst);
    if (sw != 0) { O.put (Rat(g.val - sx/sw)); O.put (Rat(g.var - Rat(1)/sw)); } else { O.put (g.val); O.put (g.var); }
    O.os << " #" << count; };
  // oracle: first-order variance of the bias-corrected invariant: sum 4 S_i^2 var_i ; value I^2-Q^2-U^2-V^2 - (vI - vQ - vU - vV)
  OP("o.c11.invariant") { Stokes<ED> s; for (unsigned i=0;i<4;i++) s[i] = rdD(A); ED r = invariant (s);
    long double val = (long double)s[0].val*s[0].val - (long double)s[1].val*s[1].val - (long double)s[2].val*s[2].val - (long double)s[3].val*s[3].val
      - ((long double)s[0].var - s[1].var - s[2].var - s[3].var);
    long double var = 0, scale = 0; for (unsigned i=0;i<4;i++) { var += 4.0L*s[i].val*s[i].val*s[i].var; scale += (long double)s[i].val*s[i].val + s[i].var; }
    O.put (dhex ((double) (fabsl (r.val - val) / std::max (scale, 1e-300L)))); O.put (dhex ((double) (fabsl (r.var - var) / std::max (fabsl(var), 1e-300L)))); };
  // oracle: exact first-order rules of the arithmetic operations (partial derivatives are rational)
  OP("o.c11.arith") { ER a=rdE(A), b=rdE(A);
    ER s = a+b; O.put (Rat(s.val-(a.val+b.val))); O.put (Rat(s.var-(a.var+b.var)));
    ER d = a-b; O.put (Rat(d.val-(a.val-b.val))); O.put (Rat(d.var-(a.var+b.var)));
    ER p = a*b; O.put (Rat(p.val-a.val*b.val)); O.put (Rat(p.var-(b.val*b.val*a.var + a.val*a.val*b.var)));
    ER n = -a; O.put (Rat(n.val+a.val)); O.put (Rat(n.var-a.var));
    if (b.val != 0) { ER q = a/b; O.put (Rat(q.val-a.val/b.val));
      O.put (Rat(q.var - (a.var/(b.val*b.val) + a.val*a.val*b.var/(b.val*b.val*b.val*b.val))));
      ER i = b.inverse(); O.put (Rat(i.val-Rat(1)/b.val)); O.put (Rat(i.var - b.var/(b.val*b.val*b.val*b.val))); } };

  // ---- double: elementary functions (values from libm, variances by the rules) ----
#define FUN1(name, fn) OP("ef." name) { ED u=rdD(A); putD (O, fn (u)); };
  FUN1("exp", exp) FUN1("log", log) FUN1("sqrt", sqrt) FUN1("sin", sin) FUN1("cos", cos) FUN1("acos", acos) FUN1("atan", atan)
  FUN1("sinh", sinh) FUN1("cosh", cosh) FUN1("atanh", atanh)
  OP("ef.atan2") { ED s=rdD(A), c=rdD(A); putD (O, atan2 (s, c)); };
  OP("ef.copysign") { ED u=rdD(A), v=rdD(A); putD (O, copysign (u, v)); };
  OP("ef.arith") { ED a=rdD(A), b=rdD(A); putD (O, a+b); putD (O, a-b); putD (O, a*b); putD (O, a/b); putD (O, -a); putD (O, a.inverse()); };
  // oracle: variance rule against an independent derivative (long double central difference); prints relative error
  // oracle: variance rule against an independent derivative: the analytic form evaluated in long double;
  // prints |var - f'(x)^2 var_x| / (var_x (1 + f'(x)^2))
  OP("o.c11.deriv") { std::string f = A.next(); ED u=rdD(A); ED r; long double x = u.val, d = 0;
#define DCASE(nm, fn, dexpr) if (f == nm) { r = fn (u); d = (dexpr); }
    DCASE("exp", exp, expl(x)) DCASE("log", log, 1.0L/x) DCASE("sqrt", sqrt, 1.0L/(2.0L*sqrtl(x))) DCASE("sin", sin, cosl(x)) DCASE("cos", cos, -sinl(x))
    DCASE("acos", acos, -1.0L/sqrtl((1.0L-x)*(1.0L+x))) DCASE("atan", atan, 1.0L/(1.0L+x*x)) DCASE("sinh", sinh, coshl(x)) DCASE("cosh", cosh, sinhl(x))
    DCASE("atanh", atanh, 1.0L/((1.0L-x)*(1.0L+x)))
    long double expect = d*d*(long double)u.var; long double rel = fabsl ((long double)r.var - expect) / ((long double)u.var * (1.0L + d*d));
    O.put (dhex ((double) rel)); O.put (dhex ((double) fabsl ((long double) r.val - ( f=="exp" ? expl(x) : f=="log" ? logl(x) : f=="sqrt" ? sqrtl(x) : f=="sin" ? sinl(x) : f=="cos" ? cosl(x)
      : f=="acos" ? acosl(x) : f=="atan" ? atanl(x) : f=="sinh" ? sinhl(x) : f=="cosh" ? coshl(x) : atanhl(x))) / (1.0L + fabsl((long double) r.val)))); };
  OP("o.c11.deriv2") { ED s=rdD(A), c=rdD(A); ED r = atan2 (s, c);
    long double x = s.val, y = c.val, n2 = x*x + y*y; long double dx = y/n2, dy = -x/n2;
    long double expect = dx*dx*(long double)s.var + dy*dy*(long double)c.var;
    long double rel = fabsl ((long double)r.var - expect) / (((long double)s.var + c.var) * (1.0L + dx*dx + dy*dy)); O.put (dhex ((double) rel)); };

  // oracle: inverse and quotient over the whole exponent range of double and float, against a long double reference
  // (var/x^4 and avar/x^2 + a^2 var/x^4); relative errors, 0 where the reference is outside the normal range of the type
  OP("o.c11.range") { double x = rdD(A).val; double var = rdD(A).val; double a = rdD(A).val; double avar = rdD(A).val;
    auto rel = [] (long double got, long double want, long double lo, long double hi) -> double {
      if (!(fabsl (want) > lo && fabsl (want) < hi)) return 0.0; return (double) (fabsl (got - want) / fabsl (want)); };
    { ED e (x, var), n (a, avar); ED i = e.inverse(); ED q = n / e; ED q2 = n; q2 /= e;
      long double lx = x, iv = (long double) var / (lx*lx) / (lx*lx), qv = (long double) avar / (lx*lx) + (long double) a * a * iv;
      putD (O, rel (i.val, 1.0L/lx, 1e-300L, 1e300L)); putD (O, rel (i.var, iv, 1e-290L, 1e290L)); putD (O, rel (q.var, qv, 1e-290L, 1e290L)); putD (O, rel (q2.var, qv, 1e-290L, 1e290L)); }
    { float fx = (float) x, fv = (float) var, fa = (float) a, fav = (float) avar; Estimate<float> e (fx, fv), n (fa, fav); Estimate<float> i = e.inverse(); Estimate<float> q = n / e;
      long double lx = fx, iv = (long double) fv / (lx*lx) / (lx*lx), qv = (long double) fav / (lx*lx) + (long double) fa * fa * iv;
      bool ok = fx != 0 && std::isfinite (fx) && std::fabs (fx) > 1e-36f && std::fabs (fx) < 1e36f;
      putD (O, ok ? rel (i.var, iv, 1e-30L, 1e30L) * 1e-6 : 0.0); putD (O, ok ? rel (q.var, qv, 1e-30L, 1e30L) * 1e-6 : 0.0); } };

  // ---- double: circular mean ----
  OP("mr.fold") { unsigned n=A.nat(); MeanRadian<double> m; bool first = true;
    for (unsigned i=0;i<n;i++) { ED d=rdD(A); if (first) { m = d; first = false; } else m += d; }
    putD (O, m.get_Estimate()); putD (O, m.get_cos()); putD (O, m.get_sin()); };
  OP("mr.merge") { unsigned n1=A.nat(); unsigned n2=A.nat(); MeanRadian<double> a, b; bool fa = true, fb = true;
    for (unsigned i=0;i<n1;i++) { ED d=rdD(A); if (fa) { a = d; fa = false; } else a += d; }
    for (unsigned i=0;i<n2;i++) { ED d=rdD(A); if (fb) { b = d; fb = false; } else b += d; }
    a += b; putD (O, a.get_Estimate()); putD (O, a.get_cos()); putD (O, a.get_sin()); };
  // oracle (history), circular mean: `m = estimate` on a used accumulator equals a fresh accumulator assigned the same estimate;
  // then both accumulate the rest.  Output: number of result components that differ (bitwise)
  OP("o.c12.rassign") { unsigned n=A.nat(); unsigned k=A.nat(); std::vector<ED> items; for (unsigned i=0;i<n;i++) items.push_back (rdD(A));
    MeanRadian<double> m, f; for (unsigned i=0;i<k;i++) { if (i == 0) m = items[i]; else m += items[i]; }
    if (k) { ED q0 = m.get_Estimate(), q1 = m.get_cos(), q2 = m.get_sin(); (void) q0; (void) q1; (void) q2; }   // the used accumulator has been queried
    m = items[k]; f = items[k];
    for (unsigned i=k+1;i<n;i++) { m += items[i]; f += items[i]; }
    ED a[3] = { m.get_Estimate(), m.get_cos(), m.get_sin() }; ED b[3] = { f.get_Estimate(), f.get_cos(), f.get_sin() };
    int bad = 0; for (int i=0;i<3;i++) { if (memcmp (&a[i].val, &b[i].val, 8) != 0 && !(a[i].val != a[i].val && b[i].val != b[i].val)) bad++;
      if (memcmp (&a[i].var, &b[i].var, 8) != 0 && !(a[i].var != a[i].var && b[i].var != b[i].var)) bad++; }
    O.put (bad); };
  // oracle (history), circular mean: an accumulator that has already been queried is copy-assigned another accumulator (or an
  // empty one): every query then answers for the new contents.  Output: number of differing result components (bitwise)
  OP("o.c12.rcopy") { unsigned n1=A.nat(); unsigned n2=A.nat(); MeanRadian<double> a, b; bool fa = true, fb = true;
    for (unsigned i=0;i<n1;i++) { ED d=rdD(A); if (fa) { a = d; fa = false; } else a += d; }
    for (unsigned i=0;i<n2;i++) { ED d=rdD(A); if (fb) { b = d; fb = false; } else b += d; }
    ED q0 = a.get_Estimate(); ED q1 = a.get_cos(); ED q2 = a.get_sin(); (void) q0; (void) q1; (void) q2;     // the queries before the assignment
    a = b;
    auto differs = [] (const ED& x, const ED& y) { int k = 0; if (memcmp (&x.val, &y.val, 8) != 0 && !(x.val != x.val && y.val != y.val)) k++;
      if (memcmp (&x.var, &y.var, 8) != 0 && !(x.var != x.var && y.var != y.var)) k++; return k; };
    int bad = differs (a.get_Estimate(), b.get_Estimate()) + differs (a.get_cos(), b.get_cos()) + differs (a.get_sin(), b.get_sin());
    ED viaEstimate (a); bad += differs (viaEstimate, b.get_Estimate());
    MeanRadian<double> c (a); bad += differs (c.get_Estimate(), b.get_Estimate());      // copy construction from the assigned accumulator
    a += ED (0.25, 0.5); b += ED (0.25, 0.5); bad += differs (a.get_Estimate(), b.get_Estimate());
    O.put (bad); };
  // oracle (grouping at scale): an accumulator merged with itself k times (`a += a`, or through a copy) holds 2^k copies of
  // its entries: the mean direction / value is unchanged and the variance is divided by 2^k, exactly (powers of two).
  // Output: number of violated relations
  OP("o.c12.doubling") { unsigned k = A.nat(); unsigned via = A.nat(); unsigned n = A.nat(); MeanRadian<double> a; MeanEstimate<double> m; bool first = true;
    for (unsigned i=0;i<n;i++) { ED d=rdD(A); if (first) { a = d; first = false; } else a += d; m += d; }
    ED a0 = a.get_Estimate(), s0 = a.get_sin(), c0 = a.get_cos(), m0 = m.get_Estimate();
    for (unsigned i=0;i<k;i++) { if (via) { MeanRadian<double> b = a; a += b; MeanEstimate<double> mb = m; m += mb; } else { a += a; m += m; } }
    ED a1 = a.get_Estimate(), s1 = a.get_sin(), c1 = a.get_cos(), m1 = m.get_Estimate(); double f = std::ldexp (1.0, -(int) k);
    int bad = 0; auto same = [] (double x, double y) { return memcmp (&x, &y, 8) == 0 || (x != x && y != y) || (x == 0 && y == 0); };
    if (!same (a1.val, a0.val)) bad++; if (!same (m1.val, m0.val)) bad++; if (!same (s1.val, s0.val)) bad++; if (!same (c1.val, c0.val)) bad++;
    if (!same (m1.var, m0.var * f)) bad++; if (!same (s1.var, s0.var * f)) bad++; if (!same (c1.var, c0.var * f)) bad++;
    if (a0.var > 0 && !(std::fabs (a1.var - a0.var * f) <= 1e-12 * a0.var * f)) bad++;
    O.put (bad); };
  // oracle: direction of the circular mean against the weighted vector sum (weights 1/var); prints |difference| mod 2 pi
  OP("o.c12.direction") { unsigned n=A.nat(); MeanRadian<double> m; bool first = true; long double sx = 0, sy = 0;
    for (unsigned i=0;i<n;i++) { ED d=rdD(A); if (first) { m = d; first = false; } else m += d;
      if (d.var != 0) { sx += cosl ((long double)d.val)/d.var; sy += sinl ((long double)d.val)/d.var; } }
    long double want = atan2l (sy, sx); long double got = m.get_Estimate().val; long double diff = fabsl (remainderl (got - want, 2*M_PIl));
    O.put (dhex ((double) diff)); O.put (dhex ((double) hypotl (sx, sy))); };

  // the same oracle under another name for inputs on which the direction clause does hold on the current code
  // (mirror-symmetric pairs {+a, -a} of equal variance), so that the recorded finding does not mask them
  OP("o.c12.mirror") { unsigned n=A.nat(); MeanRadian<double> m; bool first = true; long double sx = 0, sy = 0;
    for (unsigned i=0;i<n;i++) { ED d=rdD(A); if (first) { m = d; first = false; } else m += d;
      if (d.var != 0) { sx += cosl ((long double)d.val)/d.var; sy += sinl ((long double)d.val)/d.var; } }
    long double want = atan2l (sy, sx); long double got = m.get_Estimate().val; long double diff = fabsl (remainderl (got - want, 2*M_PIl));
    O.put (dhex ((double) diff)); O.put (dhex ((double) hypotl (sx, sy))); };

  // oracle: the circular mean accumulators are independent of order and grouping (to rounding): every permutation folded
  // sequentially and every two-way split merged; prints the largest relative deviation of the sine / cosine accumulators
  OP("o.c12.circ") { unsigned n=A.nat(); std::vector<ED> items; for (unsigned i=0;i<n;i++) items.push_back (rdD(A));
    auto fold = [](const std::vector<ED>& v, unsigned lo, unsigned hi) { MeanRadian<double> m; bool first = true;
      for (unsigned i=lo;i<hi;i++) { if (first) { m = v[i]; first = false; } else m += v[i]; } return m; };
    MeanRadian<double> ref = fold (items, 0, n); ED rc = ref.get_cos(), rs = ref.get_sin();
    double scale = 1e-300; for (auto& e : items) if (e.var != 0) scale += 1.0/e.var;
    auto dev = [&](MeanRadian<double>& m) { ED c = m.get_cos(), s2 = m.get_sin();
      double wref = rc.var != 0 ? 1.0/rc.var : 0, w = c.var != 0 ? 1.0/c.var : 0, vref = rs.var != 0 ? 1.0/rs.var : 0, v = s2.var != 0 ? 1.0/s2.var : 0;
      double d = std::fabs (c.val*w - rc.val*wref) + std::fabs (w - wref) + std::fabs (s2.val*v - rs.val*vref) + std::fabs (v - vref);
      return d; };
    double worst = 0; double wscale = 1e-300;
    { ED c = ref.get_cos(), s2 = ref.get_sin(); if (c.var != 0) wscale += 1.0/c.var; if (s2.var != 0) wscale += 1.0/s2.var; }
    std::vector<unsigned> perm (n); for (unsigned i=0;i<n;i++) perm[i]=i;
    do { std::vector<ED> p; for (unsigned i=0;i<n;i++) p.push_back (items[perm[i]]);
      MeanRadian<double> m = fold (p, 0, n); worst = std::max (worst, dev (m));
      for (unsigned k=1;k<n;k++) { MeanRadian<double> a = fold (p, 0, k), b = fold (p, k, n); a += b; worst = std::max (worst, dev (a)); }
    } while (std::next_permutation (perm.begin(), perm.end()));
    O.put (dhex (worst / wscale)); };

  return run_stream (ops);
}
