// the command-line program itself, compiled into the harness with its entry point renamed
#define main epsic_main
#include "epsic.cpp"
