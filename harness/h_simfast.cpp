// Harness driver, group "simfast" (property C06): the sample-mean workers at sample sizes whose double loops take billions of
// iterations (n >= 65536).  Built with -O2 and without sanitizers, used by the thorough tier only.
#include <cstring>
#include <cstdio>
#include <cmath>
#include <string>
#include <vector>
#include <sstream>
#include <iostream>
#include "mode.h"
#include "sample.h"
#include "modulated.h"
#include <numeric>

BoxMuller::BoxMuller (long) { have_one_ready = false; one_ready = 0; }
float BoxMuller::evaluate () { return 0.5f; }

static double rd (const std::string& s) { unsigned long long u = std::stoull (s, 0, 16); double d; memcpy (&d, &u, 8); return d; }
static std::string hx (double x) { unsigned long long u; memcpy (&u, &x, 8); char b[20]; snprintf (b, 20, "%016llx", u); return std::string (" ") + b; }

// every lag has the same cross-covariance c*P (and the covariance is c*P): the double sums are then n^2 equal terms
class flat_mode : public epsic::mode {
public:
  Matrix<4,4,double> P;
  flat_mode (double c) { for (unsigned i=0;i<4;i++) for (unsigned j=0;j<4;j++) P[i][j] = c * (1.0 + 0.25*i + 0.0625*j + (i==j ? 1.0 : 0.0)); }
  Matrix<4,4,double> get_covariance () const { return P; }
  Matrix<4,4,double> get_crosscovariance (unsigned) const { return P; }
};

int main ()
{
  std::string line;
  while (std::getline (std::cin, line)) {
    std::vector<std::string> t; { std::istringstream is (line); std::string x; while (is >> x) t.push_back (x); }
    if (t.empty()) { std::cout << "err empty\n"; continue; }
    try {
      // o.c06.bign n lag c: max relative error of get_covariance (mode, n) and get_crosscovariance (mode, lag, n) against c*P
      if (t[0] == "o.c06.bign") { unsigned n = std::stoul (t[1]); unsigned lag = std::stoul (t[2]); double c = rd (t[3]);
        flat_mode m (c); epsic::single smp (new epsic::mode); smp.sample_size = n;
        Matrix<4,4,double> cov = smp.sample::get_covariance (&m, n), xc = smp.sample::get_crosscovariance (&m, lag, n);
        double e1 = 0, e2 = 0; for (unsigned i=0;i<4;i++) for (unsigned j=0;j<4;j++) { e1 = std::max (e1, std::fabs (cov[i][j] - m.P[i][j]) / std::fabs (m.P[i][j]));
          double d = std::fabs (xc[i][j] - m.P[i][j]) / std::fabs (m.P[i][j]); if (!(d == d)) d = 1e300; e2 = std::max (e2, d); }
        std::cout << "ok" << hx (e1) << hx (e2) << "\n"; }
      // o.c07.bigsquare w n: the lag-correlation table of the rectangular model for a sample size beyond 32768 (the table the
      // code builds has n^2 entries: 8.6 GB at n = 32770) against an independent count: for every starting phase the code
      // visits, instances a and a+lag of a sample belong to the same impulse or not.  Output: max |difference| over the lags tried
      else if (t[0] == "o.c07.bigsquare") { unsigned w = std::stoul (t[1]); unsigned n = std::stoul (t[2]);
        epsic::mode base; base.set_Stokes (Stokes<double>(1,0,0,0)); epsic::lognormal_mode* ln = new epsic::lognormal_mode (&base, 1.0);
        double worst = 0;
        try { epsic::square_modulated_mode sq (ln, w, n);
          double var = ln->get_mod_variance();
          std::vector<unsigned> lags = { 1u, w/4, w/2, w - 1 };
          // phases visited: the phase at the start of a sample is (k n) mod w for k = 0 .. w/gcd(w,n) - 1
          unsigned g = std::gcd (w, n), pops = w / g;
          for (unsigned lag : lags) { if (lag == 0 || lag >= w) continue; unsigned long long same = 0;
            for (unsigned k=0; k<pops; k++) { unsigned long long ph = ((unsigned long long) k * n) % w;   // instances already used of the current impulse
              // instance a (0-based within the sample) belongs to impulse floor((ph + a) / w)
              for (unsigned a=0; a + lag < n; a++) if ((ph + a) / w == (ph + a + lag) / w) same++; }
            double expect = (double) same / ((double)(n - lag) * pops);
            double got = sq.get_crosscovariance (lag)[0][0] / var;       // unit intensity: the I,I entry is the factor covariance
            worst = std::max (worst, std::fabs (got - expect)); }
          std::cout << "ok" << hx (worst) << "\n"; }
        catch (std::bad_alloc&) { std::cout << "ok" << hx (0.0) << " #skipped-no-memory\n"; } }
      else std::cout << "err unknown-op\n";
    } catch (std::exception& e) { std::cout << "err throw:" << e.what() << "\n"; }
  }
  return 0;
}
