// Harness driver, group "mixed": mixed single/double precision operands (PromoteTraits).
// The embedding float -> double is exact, so every mixed-precision operation must return exactly
// (bit for bit) what the same operation returns after converting the float operand to double.
// Each op prints the mixed result followed by the all-double reference, as IEEE bit patterns.
// Arguments: `f` values are doubles that are exactly representable as float.
#include <cstring>
#include <cstdio>
#include <string>
#include <map>
#include <vector>
#include <sstream>
#include <iostream>
#include <functional>
#include <stdexcept>
#include "Jones.h"
#include "Quaternion.h"
#include "Minkowski.h"
#include "Matrix.h"
#include "Pauli.h"

struct A_ {
  std::vector<std::string> tok; size_t pos = 0;
  const std::string& next () { if (pos >= tok.size()) throw std::runtime_error("protocol:missing argument"); return tok[pos++]; }
  double d () { unsigned long long u = std::stoull (next(), 0, 16); double x; memcpy (&x, &u, 8); return x; }
  float f () { return (float) d(); }
  std::complex<double> cd () { double a=d(), b=d(); return std::complex<double>(a,b); }
  std::complex<float> cf () { float a=f(), b=f(); return std::complex<float>(a,b); }
};
struct O_ {
  std::ostringstream os;
  void put (double x) { unsigned long long u; memcpy (&u, &x, 8); char b[20]; snprintf (b, 20, " %016llx", u); os << b; }
  void put (std::complex<double> z) { put (z.real()); put (z.imag()); }
  void put (const Jones<double>& j) { put(j.j00); put(j.j01); put(j.j10); put(j.j11); }
  template<typename T, QBasis B> void put (const Quaternion<T,B>& q) { put(q.s0); put(q.s1); put(q.s2); put(q.s3); }
  template<unsigned N, typename T> void put (const Vector<N,T>& v) { for (unsigned i=0;i<N;i++) put (T(v[i])); }
  template<unsigned R, unsigned C, typename T> void put (const Matrix<R,C,T>& m) { for (unsigned i=0;i<R;i++) for (unsigned j=0;j<C;j++) put (T(m[i][j])); }
};
typedef std::function<void(A_&, O_&)> Fn;
#define OP(name) ops[name] = [](A_& A, O_& O)

template<typename T> Jones<T> rdJ (A_& A);
template<> Jones<double> rdJ<double> (A_& A) { auto a=A.cd(), b=A.cd(), c=A.cd(), d=A.cd(); return Jones<double>(a,b,c,d); }
template<> Jones<float> rdJ<float> (A_& A) { auto a=A.cf(), b=A.cf(), c=A.cf(), d=A.cf(); return Jones<float>(a,b,c,d); }
// promoted operands are built component by component, never through the library's own converting constructors
static std::complex<double> cdbl (const std::complex<float>& z) { return std::complex<double>((double) z.real(), (double) z.imag()); }
static Jones<double> promote (const Jones<float>& a) { return Jones<double>(cdbl (a.j00), cdbl (a.j01), cdbl (a.j10), cdbl (a.j11)); }
static const QBasis H = Hermitian; static const QBasis U = Unitary;

int main ()
{
  std::map<std::string, Fn> ops;

  // Jones<float> (op) Jones<double> and the reverse
  OP("mp.jones") { Jones<float> a = rdJ<float>(A); Jones<double> b = rdJ<double>(A); Jones<double> ad = promote (a);
    Jones<float> bf (b); Jones<float> bf2 (std::complex<float>((float) b.j00.real(), (float) b.j00.imag()), std::complex<float>((float) b.j01.real(), (float) b.j01.imag()),
                                          std::complex<float>((float) b.j10.real(), (float) b.j10.imag()), std::complex<float>((float) b.j11.real(), (float) b.j11.imag()));
    Jones<double> a_conv (a); Jones<double> a_asg; a_asg = a;
    O.put (a_conv); O.put (a_asg); O.put (promote (bf));
    O.put (Jones<double>(a+b)); O.put (Jones<double>(a-b)); O.put (Jones<double>(a*b));
    O.put (Jones<double>(b+a)); O.put (Jones<double>(b-a)); O.put (Jones<double>(b*a));
    O.put (ad); O.put (ad); O.put (promote (bf2));
    O.put (Jones<double>(ad+b)); O.put (Jones<double>(ad-b)); O.put (Jones<double>(ad*b));
    O.put (Jones<double>(b+ad)); O.put (Jones<double>(b-ad)); O.put (Jones<double>(b*ad)); };
  // Jones<double> scaled by complex<float>
  OP("mp.jonesc") { Jones<double> a = rdJ<double>(A); std::complex<float> c = A.cf(); std::complex<double> cd (c);
    O.put (Jones<double>(a*c)); O.put (Jones<double>(c*a)); O.put (Jones<double>(a/c));
    O.put (Jones<double>(a*cd)); O.put (Jones<double>(cd*a)); O.put (Jones<double>(a/cd)); };
  // quaternions
  OP("mp.quat") { float a0=A.f(), a1=A.f(), a2=A.f(), a3=A.f(); double b0=A.d(), b1=A.d(), b2=A.d(), b3=A.d(); Quaternion<float,U> a (a0,a1,a2,a3); Quaternion<double,U> b (b0,b1,b2,b3); Quaternion<double,U> ad ((double) a0, (double) a1, (double) a2, (double) a3);
    // cross-type assignment (double <- float) and the compound product float *= double (promoted product stored back in float)
    Quaternion<double,U> asg; asg = a; Quaternion<float,U> acc = a; acc *= b; Quaternion<float,U> acc2 = a; acc2 += b;
    O.put (asg); O.put (Quaternion<double,U>((double) acc.s0, (double) acc.s1, (double) acc.s2, (double) acc.s3));
    O.put (Quaternion<double,U>((double) acc2.s0, (double) acc2.s1, (double) acc2.s2, (double) acc2.s3));
    O.put (Quaternion<double,U>(a)); O.put (Quaternion<double,U>(a+b)); O.put (Quaternion<double,U>(a-b)); O.put (Quaternion<double,U>(a*b)); O.put (Quaternion<double,U>(b*a));
    { Quaternion<double,U> pr = ad*b; Quaternion<double,U> sm = ad+b;
      O.put (ad); O.put (Quaternion<double,U>((double)(float) pr.s0, (double)(float) pr.s1, (double)(float) pr.s2, (double)(float) pr.s3));
      O.put (Quaternion<double,U>((double)(float) sm.s0, (double)(float) sm.s1, (double)(float) sm.s2, (double)(float) sm.s3)); }
    O.put (ad); O.put (Quaternion<double,U>(ad+b)); O.put (Quaternion<double,U>(ad-b)); O.put (Quaternion<double,U>(ad*b)); O.put (Quaternion<double,U>(b*ad)); };
  OP("mp.biquat") { std::complex<float> a0=A.cf(), a1=A.cf(), a2=A.cf(), a3=A.cf(); std::complex<double> b0=A.cd(), b1=A.cd(), b2=A.cd(), b3=A.cd();
    Quaternion<std::complex<float>,H> a (a0,a1,a2,a3); Quaternion<std::complex<double>,H> b (b0,b1,b2,b3); Quaternion<std::complex<double>,H> ad (cdbl (a0), cdbl (a1), cdbl (a2), cdbl (a3));
    { Quaternion<double,H> rq (b0.real(), b1.real(), b2.real(), b3.real()); Quaternion<std::complex<double>,H> fromreal; fromreal = rq; O.put (fromreal);
      Quaternion<std::complex<double>,H> asg; asg = a; O.put (asg); }
    O.put (Quaternion<std::complex<double>,H>(a)); O.put (Quaternion<std::complex<double>,H>(a*b)); O.put (Quaternion<std::complex<double>,H>(b*a));
    O.put (Quaternion<std::complex<double>,H>(std::complex<double>(b0.real(),0), std::complex<double>(b1.real(),0), std::complex<double>(b2.real(),0), std::complex<double>(b3.real(),0)));
    O.put (ad);
    O.put (ad); O.put (Quaternion<std::complex<double>,H>(ad*b)); O.put (Quaternion<std::complex<double>,H>(b*ad)); };
  // Minkowski forms
  OP("mp.minkowski") { Vector<4,float> a; for (unsigned i=0;i<4;i++) a[i]=A.f(); Vector<4,double> b; for (unsigned i=0;i<4;i++) b[i]=A.d();
    Vector<4,double> ad; for (unsigned i=0;i<4;i++) ad[i] = (double) a[i];
    O.put (Vector<4,double>(a)); O.put ((double) Minkowski::inner(a,b)); O.put ((double) Minkowski::inner(b,a));
    O.put (Matrix<4,4,double>(Minkowski::outer(a,b))); O.put (Matrix<4,4,double>(Minkowski::outer(b,a)));
    O.put (ad); O.put ((double) Minkowski::inner(ad,b)); O.put ((double) Minkowski::inner(b,ad));
    O.put (Matrix<4,4,double>(Minkowski::outer(ad,b))); O.put (Matrix<4,4,double>(Minkowski::outer(b,ad))); };
  // outer / Kronecker products
  OP("mp.outer") { Vector<3,float> a; for (unsigned i=0;i<3;i++) a[i]=A.f(); Vector<2,double> b; for (unsigned i=0;i<2;i++) b[i]=A.d();
    Vector<3,double> ad; for (unsigned i=0;i<3;i++) ad[i] = (double) a[i];
    O.put (Matrix<3,2,double>(outer(a,b))); O.put (Matrix<2,3,double>(outer(b,a)));
    O.put (Matrix<3,2,double>(outer(ad,b))); O.put (Matrix<2,3,double>(outer(b,ad))); };
  OP("mp.direct") { Matrix<2,2,float> a; for (unsigned i=0;i<2;i++) for (unsigned j=0;j<2;j++) a[i][j]=A.f();
    Matrix<2,3,double> b; for (unsigned i=0;i<2;i++) for (unsigned j=0;j<3;j++) b[i][j]=A.d();
    Matrix<2,2,double> ad; for (unsigned i=0;i<2;i++) for (unsigned j=0;j<2;j++) ad[i][j]=a[i][j];
    O.put (Matrix<4,6,double>(direct(a,b))); O.put (Matrix<4,6,double>(direct(b,a)));
    O.put (Matrix<4,6,double>(direct(ad,b))); O.put (Matrix<4,6,double>(direct(b,ad))); };
  // Jones<double> * Quaternion<float>, transform of Stokes<double> by Jones<float>
  OP("mp.pauli") { Jones<double> j = rdJ<double>(A); float q0=A.f(), q1=A.f(), q2=A.f(), q3=A.f(); Quaternion<float,H> q (q0,q1,q2,q3); Quaternion<double,H> qd (q);
    double s0=A.d(), s1=A.d(), s2=A.d(), s3=A.d(); Stokes<double> s (s0,s1,s2,s3); Jones<float> jf = rdJ<float>(A); Jones<double> jfd = promote (jf);
    // (Jones<double> * Quaternion<float> converts the quaternion to a Jones<float> first, i.e. rounds in single
    //  precision by design, so it is not a promotion-consistency case)
    O.put (Stokes<double>(transform (s, jf)));
    O.put (Stokes<double>(transform (s, jfd))); };

  std::string line;
  while (std::getline (std::cin, line)) {
    A_ a; { std::istringstream is (line); std::string t; while (is >> t) a.tok.push_back (t); }
    if (a.tok.empty()) { std::cout << "err empty\n"; continue; }
    auto it = ops.find (a.next());
    if (it == ops.end()) { std::cout << "err unknown-op\n"; continue; }
    O_ o;
    try { it->second (a, o); std::cout << "ok" << o.os.str() << "\n"; }
    catch (std::exception& e) { std::cout << "err throw:" << e.what() << "\n"; }
  }
  return 0;
}
