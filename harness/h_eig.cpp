// Harness driver, group "eig" (properties C09, C10): Hermitian square root, polar decomposition,
// quaternion eigen-rotation, Jacobi rotations and solver.  `q.*`/`j.*`: exact rationals (inputs built
// as exact squares so that every root is rational).  `*d.*`: double, IEEE bit patterns in and out.
#include "common.h"
#include <cstring>
#include <cmath>
#include "Pauli.h"
#include "Jacobi.h"

#define OP(name) ops[name] = [](Args& A, Out& O)
static const QBasis H = Hermitian;
static const QBasis U = Unitary;
typedef std::complex<double> CD;

static double hexdouble (const std::string& s)
{ unsigned long long u = std::stoull (s, 0, 16); double d; memcpy (&d, &u, 8); return d; }
static std::string dhex (double x) { unsigned long long u; memcpy (&u, &x, 8); char b[20]; snprintf (b, 20, "%016llx", u); return b; }
static double rdD (Args& A) { return hexdouble (A.next()); }
static CD rdC (Args& A) { double a=rdD(A), b=rdD(A); return CD(a,b); }
static void putD (Out& O, double x) { O.put (dhex (x)); }
static void putC (Out& O, CD z) { putD (O, z.real()); putD (O, z.imag()); }
template<QBasis B> void putQ (Out& O, const Quaternion<double,B>& q) { putD(O,q.s0); putD(O,q.s1); putD(O,q.s2); putD(O,q.s3); }
static Jones<double> rdJ (Args& A) { CD a=rdC(A), b=rdC(A), c=rdC(A), d=rdC(A); return Jones<double>(a,b,c,d); }
static void putJ (Out& O, const Jones<double>& j) { putC(O,j.j00); putC(O,j.j01); putC(O,j.j10); putC(O,j.j11); }
template<QBasis B> Quaternion<double,B> rdQ (Args& A) { double a=rdD(A); double b=rdD(A); double c=rdD(A); double d=rdD(A); return Quaternion<double,B>(a,b,c,d); }
static bool fin (double x) { return std::isfinite (x); }

template<unsigned N> void jacobi_real (Args& A, Out& O, bool oracle)
{
  Matrix<N,N,double> a; for (unsigned i=0;i<N;i++) for (unsigned j=i;j<N;j++) { a[i][j] = rdD(A); a[j][i] = a[i][j]; }
  // the output arguments arrive with stale content (as when the caller re-uses them): the solver must overwrite all of it
  Matrix<N,N,double> a0 = a; Matrix<N,N,double> ev; Vector<N,double> ew; if (oracle) { for (unsigned i=0;i<N;i++) { ew[i] = -7.5; for (unsigned j=0;j<N;j++) ev[i][j] = 3.25 + i - 0.5*j; } }
  Jacobi (a, ev, ew);
  if (!oracle) { for (unsigned i=0;i<N;i++) putD (O, ew[i]); for (unsigned i=0;i<N;i++) for (unsigned j=0;j<N;j++) putD (O, ev[i][j]); return; }
  long double nrm = 0; for (unsigned i=0;i<N;i++) for (unsigned j=0;j<N;j++) nrm += (long double)a0[i][j]*a0[i][j]; nrm = sqrtl (nrm);
  bool finite = true; for (unsigned i=0;i<N;i++) { finite = finite && fin (ew[i]); for (unsigned j=0;j<N;j++) finite = finite && fin (ev[i][j]); }
  long double r1 = 0, r2 = 0;   // || E A E^T - diag || / ||A||,  || E E^T - 1 ||
  for (unsigned i=0;i<N;i++) for (unsigned j=0;j<N;j++) {
    long double s = 0, t = 0;
    for (unsigned k=0;k<N;k++) { t += (long double)ev[i][k]*ev[j][k]; for (unsigned l=0;l<N;l++) s += (long double)ev[i][k]*a0[k][l]*ev[j][l]; }
    r1 = std::max (r1, fabsl (s - (i==j ? (long double)ew[i] : 0.0L))); r2 = std::max (r2, fabsl (t - (i==j ? 1.0L : 0.0L))); }
  O.put (finite ? 1 : 0); putD (O, nrm > 0 ? (double)(r1/nrm) : (double) r1); putD (O, (double) r2);
}

template<unsigned N> void jacobi_complex (Args& A, Out& O, bool oracle)
{
  Matrix<N,N,CD> a; for (unsigned i=0;i<N;i++) { a[i][i] = CD (rdD(A), 0.0); for (unsigned j=i+1;j<N;j++) { a[i][j] = rdC(A); a[j][i] = std::conj (a[i][j]); } }
  Matrix<N,N,CD> a0 = a; Matrix<N,N,CD> ev; Vector<N,double> ew; if (oracle) { for (unsigned i=0;i<N;i++) { ew[i] = -7.5; for (unsigned j=0;j<N;j++) ev[i][j] = CD (3.25 + i - 0.5*j, 1.0 - j); } }
  Jacobi (a, ev, ew);
  if (!oracle) { for (unsigned i=0;i<N;i++) putD (O, ew[i]); for (unsigned i=0;i<N;i++) for (unsigned j=0;j<N;j++) putC (O, ev[i][j]); return; }
  long double nrm = 0; for (unsigned i=0;i<N;i++) for (unsigned j=0;j<N;j++) nrm += (long double) std::norm (a0[i][j]); nrm = sqrtl (nrm);
  bool finite = true; for (unsigned i=0;i<N;i++) { finite = finite && fin (ew[i]); for (unsigned j=0;j<N;j++) finite = finite && fin (ev[i][j].real()) && fin (ev[i][j].imag()); }
  long double r1 = 0, r2 = 0;
  for (unsigned i=0;i<N;i++) for (unsigned j=0;j<N;j++) {
    std::complex<long double> s = 0, t = 0;
    for (unsigned k=0;k<N;k++) { std::complex<long double> eik (ev[i][k].real(), ev[i][k].imag()), ejk (ev[j][k].real(), ev[j][k].imag());
      t += eik*std::conj(ejk);
      for (unsigned l=0;l<N;l++) { std::complex<long double> akl (a0[k][l].real(), a0[k][l].imag()), ejl (ev[j][l].real(), ev[j][l].imag()); s += eik*akl*std::conj(ejl); } }
    r1 = std::max (r1, std::abs (s - std::complex<long double>(i==j ? (long double)ew[i] : 0.0L, 0)));
    r2 = std::max (r2, std::abs (t - std::complex<long double>(i==j ? 1.0L : 0.0L, 0))); }
  O.put (finite ? 1 : 0); putD (O, nrm > 0 ? (double)(r1/nrm) : (double) r1); putD (O, (double) r2);
}

int main ()
{
  OpTable ops;

  // ---- exact ----
  OP("q.sqrt") { auto h=A.quat<H>(); O.put (Quaternion<Rat,H>(sqrt(h))); };
  OP("j.polar") { auto j=A.jones(); CRat d; Quaternion<Rat,H> h; Quaternion<Rat,U> u; polar (d,h,u,j); O.put (d); O.put (h); O.put (u); };
  OP("q.eigen") { auto h=A.quat<H>(); O.put (Quaternion<Rat,U>(eigen(h))); };
  OP("o.c09.sqrt") { auto h=A.quat<H>(); Quaternion<Rat,H> r = sqrt(h);
    // r*r as Hermitian matrices: (s, v)^2 = (s^2 + |v|^2, 2 s v)
    Jones<Rat> rr = convert(r)*convert(r); O.put (Jones<Rat>(rr - convert(h)));
    Rat vv = r.s1*r.s1 + r.s2*r.s2 + r.s3*r.s3; O.put (Rat((r.s0 >= 0 && r.s0*r.s0 >= vv) ? 0 : 1)); };
  OP("o.c09.polar") { auto j=A.jones(); CRat d; Quaternion<Rat,H> h; Quaternion<Rat,U> u; polar (d,h,u,j);
    O.put (CRat(d*d - det(j))); O.put (Rat(det(h) - 1)); O.put (Rat(det(u) - 1));
    O.put (Jones<Rat>(Jones<Rat>(Jones<Rat>(convert(h)*convert(u))*d) - j));
    Rat vv = h.s1*h.s1 + h.s2*h.s2 + h.s3*h.s3; O.put (Rat((h.s0 > 0 && h.s0*h.s0 > vv) ? 0 : 1)); };
  OP("o.c10.eigen") { auto q=A.quat<H>(); Quaternion<Rat,U> r = eigen(q); Jones<Rat> R = convert(r); Jones<Rat> rho = convert(q);
    Jones<Rat> d = R*rho*herm(R); Rat p2 = q.s1*q.s1 + q.s2*q.s2 + q.s3*q.s3;
    O.put (Rat(det(r) - 1)); O.put (d.j01); O.put (d.j10); O.put (d.j00.imag()); O.put (d.j11.imag());
    O.put (Rat((d.j00.real() >= d.j11.real()) ? 0 : 1));
    O.put (Rat((d.j00.real() - q.s0)*(d.j00.real() - q.s0) - p2)); O.put (Rat(d.j00.real() + d.j11.real() - 2*q.s0)); };

  // ---- double ----
  OP("qd.sqrt") { Quaternion<double,H> h = rdQ<H>(A); putQ (O, Quaternion<double,H>(sqrt(h))); };
  OP("qd.eigen") { Quaternion<double,H> h = rdQ<H>(A); putQ (O, Quaternion<double,U>(eigen(h))); };
  OP("leaf.csqrt") { CD z = rdC(A); putC (O, std::sqrt (z)); };
  OP("jd.polar") { Jones<double> j = rdJ(A); rdC(A); CD d; Quaternion<double,H> h; Quaternion<double,U> u; polar (d,h,u,j); putC (O, d); putQ (O, h); putQ (O, u); };
  OP("jac.real2") { double p=rdD(A); double q=rdD(A); double pq=rdD(A); double s, tau, corr; calculate_Jacobi (p, q, pq, s, tau, corr); putD(O,s); putD(O,tau); putD(O,corr); };
  OP("jac.complex2") { double p=rdD(A); double q=rdD(A); CD pq=rdC(A); CD s, tau; double corr; calculate_Jacobi (p, q, pq, s, tau, corr); putC(O,s); putC(O,tau); putD(O,corr); };
  // oracle: finite, positive semi-definite, squares back (relative to the largest component)
  OP("o.c09.sqrtd") { Quaternion<double,H> h = rdQ<H>(A); Quaternion<double,H> r = sqrt(h);
    bool finite = fin(r.s0) && fin(r.s1) && fin(r.s2) && fin(r.s3);
    long double s = r.s0, x = r.s1, y = r.s2, z = r.s3; long double vv = x*x + y*y + z*z;
    long double scale = std::max (fabsl ((long double)h.s0), 1e-300L);
    long double e = std::max (std::max (fabsl (s*s + vv - h.s0), fabsl (2*s*x - h.s1)), std::max (fabsl (2*s*y - h.s2), fabsl (2*s*z - h.s3))) / scale;
    bool psd = (s >= 0) && (sqrtl (vv) <= s * (1 + 1e-7L));
    O.put (finite ? 1 : 0); O.put (psd ? 1 : 0); putD (O, (double) e); };
  // the same at single and extended precision (the determinant clamp must follow the element type)
  OP("o.c09.sqrtf") { double in[4]; for (int i=0;i<4;i++) in[i] = rdD(A);
    { Quaternion<float,H> h ((float) in[0], (float) in[1], (float) in[2], (float) in[3]); Quaternion<float,H> r = sqrt(h);
      bool finite = std::isfinite (r.s0) && std::isfinite (r.s1) && std::isfinite (r.s2) && std::isfinite (r.s3);
      long double s = r.s0, x = r.s1, y = r.s2, z = r.s3, vv = x*x + y*y + z*z, scale = std::max (fabsl ((long double) h.s0), 1e-30L);
      long double e = std::max (std::max (fabsl (s*s + vv - h.s0), fabsl (2*s*x - h.s1)), std::max (fabsl (2*s*y - h.s2), fabsl (2*s*z - h.s3))) / scale;
      O.put (finite ? 1 : 0); O.put ((s >= 0 && sqrtl (vv) <= s * (1 + 1e-3L)) ? 1 : 0); putD (O, (double) e * 1e-7); }
    { Quaternion<long double,H> h (in[0], in[1], in[2], in[3]); Quaternion<long double,H> r = sqrt(h);
      bool finite = std::isfinite (r.s0) && std::isfinite (r.s1) && std::isfinite (r.s2) && std::isfinite (r.s3);
      long double s = r.s0, x = r.s1, y = r.s2, z = r.s3, vv = x*x + y*y + z*z, scale = std::max (fabsl (h.s0), 1e-300L);
      long double e = std::max (std::max (fabsl (s*s + vv - h.s0), fabsl (2*s*x - h.s1)), std::max (fabsl (2*s*y - h.s2), fabsl (2*s*z - h.s3))) / scale;
      O.put (finite ? 1 : 0); O.put ((s >= 0 && sqrtl (vv) <= s * (1 + 1e-7L)) ? 1 : 0); putD (O, (double) e); } };
  // oracle: polar decomposition reconstructs J; residual scaled by the squared condition number
  OP("o.c09.polard") { Jones<double> j = rdJ(A); CD d; Quaternion<double,H> h; Quaternion<double,U> u; polar (d,h,u,j);
    bool finite = fin(d.real()) && fin(d.imag()) && fin(h.s0) && fin(h.s1) && fin(h.s2) && fin(h.s3) && fin(u.s0) && fin(u.s1) && fin(u.s2) && fin(u.s3);
    Jones<double> rec = d * (convert(h) * convert(u)); double nj = sqrt (norm (j));
    double res = sqrt (norm (Jones<double>(rec - j))) / nj;
    // condition number of J from its singular values: s1^2+s2^2 = ||J||_F^2, s1 s2 = |det J|
    double p = sqrt (h.s1*h.s1 + h.s2*h.s2 + h.s3*h.s3);
    double t = norm (j) / (2 * std::abs (det(j))); double kappa = t + sqrt (std::max (t*t - 1.0, 0.0));
    CD dd = d*d - det(j); double e1 = std::abs (dd) / std::max (std::abs (det(j)), 1e-300);
    O.put (finite ? 1 : 0); putD (O, res / (kappa*kappa)); putD (O, e1); putD (O, std::fabs (det(h) - 1) / (kappa*kappa)); putD (O, std::fabs (det(u) - 1) / (kappa*kappa));
    // positive definite (in double this can only be resolved while kappa^2 stays below 1/epsilon)
    O.put ((h.s0 > 0 && (h.s0 > p || kappa > 1e7)) ? 1 : 0); };
  // the same with the process-wide polarisation basis set to something else first (polar, sqrt, eigen are functions of their
  // arguments alone; the basis only concerns the Stokes conversions)
  OP("o.c09.polarb") { std::string b = A.next(); if (b == "cir") Pauli::basis().set_basis (Signal::Circular); else if (b == "ell") { double o = rdD(A), e = rdD(A); Pauli::basis().set_basis (o, e); }
    Jones<double> j = rdJ(A); CD d; Quaternion<double,H> h; Quaternion<double,U> u; polar (d,h,u,j);
    Quaternion<double,H> hq (std::fabs (j.j00.real()) + 2, 0.5*j.j01.real(), 0.25*j.j01.imag(), 0.3*j.j10.real()); Quaternion<double,H> r = sqrt (hq); Quaternion<double,U> er = eigen (hq);
    Pauli::basis().set_basis (Signal::Linear);
    CD d2; Quaternion<double,H> h2; Quaternion<double,U> u2; polar (d2,h2,u2,j); Quaternion<double,H> r2 = sqrt (hq); Quaternion<double,U> er2 = eigen (hq);
    double x[18] = { d.real(), d.imag(), h.s0, h.s1, h.s2, h.s3, u.s0, u.s1, u.s2, u.s3, r.s0, r.s1, r.s2, r.s3, er.s0, er.s1, er.s2, er.s3 };
    double y[18] = { d2.real(), d2.imag(), h2.s0, h2.s1, h2.s2, h2.s3, u2.s0, u2.s1, u2.s2, u2.s3, r2.s0, r2.s1, r2.s2, r2.s3, er2.s0, er2.s1, er2.s2, er2.s3 };
    int bad = 0; for (int i=0;i<18;i++) if (memcmp (x+i, y+i, 8) != 0 && !(x[i] != x[i] && y[i] != y[i])) bad++;
    O.put (bad); };
  // oracle: quaternion eigen-rotation
  OP("o.c10.eigend") { Quaternion<double,H> q = rdQ<H>(A); Quaternion<double,U> r = eigen(q);
    bool finite = fin(r.s0) && fin(r.s1) && fin(r.s2) && fin(r.s3);
    Jones<double> R = convert(r); Jones<double> d = R*convert(q)*herm(R);
    double scale = std::max (std::fabs(q.s0) + sqrt (q.s1*q.s1+q.s2*q.s2+q.s3*q.s3), 1e-300);
    double off = (std::abs (d.j01) + std::abs (d.j10) + std::fabs (d.j00.imag()) + std::fabs (d.j11.imag())) / scale;
    O.put (finite ? 1 : 0); putD (O, std::fabs (det(r) - 1)); putD (O, off); O.put ((d.j00.real() >= d.j11.real() - 1e-12*scale) ? 1 : 0); };
  OP("o.c10.jacobi") { unsigned n=A.nat();
    switch (n) { case 2: jacobi_real<2>(A,O,true); break; case 3: jacobi_real<3>(A,O,true); break; case 4: jacobi_real<4>(A,O,true); break;
      case 5: jacobi_real<5>(A,O,true); break; case 6: jacobi_real<6>(A,O,true); break; case 7: jacobi_real<7>(A,O,true); break;
      case 8: jacobi_real<8>(A,O,true); break; default: throw ProtocolError ("n"); } };
  OP("o.c10.cjacobi") { unsigned n=A.nat();
    switch (n) { case 2: jacobi_complex<2>(A,O,true); break; case 3: jacobi_complex<3>(A,O,true); break; case 4: jacobi_complex<4>(A,O,true); break;
      case 5: jacobi_complex<5>(A,O,true); break; case 6: jacobi_complex<6>(A,O,true); break; case 8: jacobi_complex<8>(A,O,true); break;
      default: throw ProtocolError ("n"); } };
  OP("jac.real") { unsigned n=A.nat();
    switch (n) { case 2: jacobi_real<2>(A,O,false); break; case 3: jacobi_real<3>(A,O,false); break; case 4: jacobi_real<4>(A,O,false); break;
      case 5: jacobi_real<5>(A,O,false); break; case 6: jacobi_real<6>(A,O,false); break; case 7: jacobi_real<7>(A,O,false); break; case 8: jacobi_real<8>(A,O,false); break;
      default: throw ProtocolError ("n"); } };

  // history: a direct eigen() call on a quaternion with non-zero scalar part, then the complex solver on a matrix whose first
  // pivot block has the same polarisation vector (any memory of the first result must not leak into the second)
  OP("o.c10.eigenhist") { Quaternion<double,H> q = rdQ<H>(A); Quaternion<double,U> r = eigen(q); (void) r; unsigned n=A.nat();
    switch (n) { case 2: jacobi_complex<2>(A,O,true); break; case 3: jacobi_complex<3>(A,O,true); break; case 4: jacobi_complex<4>(A,O,true); break;
      default: throw ProtocolError ("n"); } };
  OP("jac.complex") { unsigned n=A.nat();
    switch (n) { case 2: jacobi_complex<2>(A,O,false); break; case 3: jacobi_complex<3>(A,O,false); break; case 4: jacobi_complex<4>(A,O,false); break;
      case 5: jacobi_complex<5>(A,O,false); break; case 6: jacobi_complex<6>(A,O,false); break; case 8: jacobi_complex<8>(A,O,false); break;
      default: throw ProtocolError ("n"); } };

  return run_stream (ops);
}
