// Harness driver, group "dbl": oracles that run the real templates at double / float only (properties C13, C14, C15).
// They are kept apart from the exact-rational harnesses so that a change which makes the templates unusable with the
// exact-rational scalar (a call to a <cmath> function on the element type, say) still leaves a harness that compiles, on which
// a failing input can be searched.
#include "common.h"
#include <cstring>
#include <limits>
#include <cmath>
#include "Minkowski.h"

#define OP(name) ops[name] = [](Args& A, Out& O)
static std::string dhexs (double x) { unsigned long long u; memcpy (&u, &x, 8); char b[20]; snprintf (b, 20, "%016llx", u); return b; }
static double hexdouble (const std::string& s) { unsigned long long u = std::stoull (s, 0, 16); double d; memcpy (&d, &u, 8); return d; }

int main ()
{
  OpTable ops;
  // oracle: complex<double> matrices at extreme overall scales (well-conditioned small-integer matrices times a scale):
  // the inverse exists and inv(m) m = 1 to rounding.  Output: flag (1 = inverted), max |inv(m) m - 1|
  OP("o.c13.cinvd") { unsigned n=A.nat(); double scale = hexdouble (A.next());
#define CINVD(N) if (n == N) { auto mr=A.cmat<N,N>(); Matrix<N,N,std::complex<double> > m; \
      for (unsigned i=0;i<N;i++) for (unsigned j=0;j<N;j++) m[i][j] = std::complex<double> ((double) mr[i][j].real() * scale, (double) mr[i][j].imag() * scale); \
      try { Matrix<N,N,std::complex<double> > x = inv (m); long double worst = 0; \
        for (unsigned i=0;i<N;i++) for (unsigned j=0;j<N;j++) { long double re = 0, im = 0; \
          for (unsigned k=0;k<N;k++) { long double a = x[i][k].real(), b = x[i][k].imag(), c = m[k][j].real(), d = m[k][j].imag(); re += a*c - b*d; im += a*d + b*c; } \
          re -= (i == j ? 1.0L : 0.0L); worst = std::max (worst, std::max (fabsl (re), fabsl (im))); } \
        O.put (1); O.put (dhexs ((double) worst)); } \
      catch (std::exception&) { O.put (0); O.put (dhexs (0.0)); } }
    CINVD(2) CINVD(3) CINVD(4) };
  // oracle: matrices with ONE non-zero entry per row and column, each a power of two times 1, i, -1 or -i, with exponents that
  // differ by up to 2000 binary orders inside one matrix (huge and tiny entries together): non-singular, and the inverse is exact
  // (entry 2^-e times the conjugate unit at the transposed place).  Complex and real.  Output: flags inverted (complex, real),
  // then the number of entries of the two inverses that are not exactly the expected ones
  OP("o.c13.monomial") { unsigned n=A.nat(); std::vector<unsigned> perm; std::vector<int> ex, un; for (unsigned i=0;i<n;i++) perm.push_back (A.nat()); for (unsigned i=0;i<n;i++) ex.push_back (A.integer()); for (unsigned i=0;i<n;i++) un.push_back (A.integer());
    static const std::complex<double> U[4] = { {1,0}, {0,1}, {-1,0}, {0,-1} };
#define MONO(N) if (n == N) { Matrix<N,N,std::complex<double> > m, want; Matrix<N,N,double> r, rwant; \
      for (unsigned i=0;i<N;i++) { m[i][perm[i]] = U[un[i] & 3] * std::ldexp (1.0, ex[i]); want[perm[i]][i] = std::conj (U[un[i] & 3]) * std::ldexp (1.0, -ex[i]); \
        r[i][perm[i]] = ((un[i] & 2) ? -1.0 : 1.0) * std::ldexp (1.0, ex[i]); rwant[perm[i]][i] = ((un[i] & 2) ? -1.0 : 1.0) * std::ldexp (1.0, -ex[i]); } \
      int okc = 1, okr = 1; long bad = 0; \
      try { Matrix<N,N,std::complex<double> > x = inv (m); for (unsigned i=0;i<N;i++) for (unsigned j=0;j<N;j++) if (!(x[i][j] == want[i][j])) bad++; } catch (std::exception&) { okc = 0; } \
      try { Matrix<N,N,double> x = inv (r); for (unsigned i=0;i<N;i++) for (unsigned j=0;j<N;j++) if (!(x[i][j] == rwant[i][j])) bad++; } catch (std::exception&) { okr = 0; } \
      O.put (okc); O.put (okr); O.put (Rat (bad)); }
    MONO(2) MONO(3) MONO(4)
#undef MONO
  };
  // the angle passed in another arithmetic type (int, long, float, long double; the parameter is a double) gives the matrix of
  // the same angle as a double, bit for bit.  Output: number of differing entries per type
  OP("o.c14.angletypes") { auto v=A.vec<3>(); int k = A.integer(); Vector<3,double> vd; for (unsigned i=0;i<3;i++) vd[i] = (double) v[i];
    Matrix<3,3,double> ref = rotation (vd, (double) k);
    auto diff = [&] (const Matrix<3,3,double>& m) { int bad = 0; for (unsigned i=0;i<3;i++) for (unsigned j=0;j<3;j++) { double x = m[i][j], y = ref[i][j]; if (memcmp (&x, &y, 8) != 0) bad++; } return bad; };
    Matrix<3,3,double> m1 = rotation (vd, k); Matrix<3,3,double> m2 = rotation (vd, (long) k); Matrix<3,3,double> m3 = rotation (vd, (float) k);
    Matrix<3,3,double> m4 = rotation (vd, (long double) k); Matrix<3,3,double> m5 = rotation (vd, (short) k);
    O.put (diff (m1)); O.put (diff (m2)); O.put (diff (m3)); O.put (diff (m4)); O.put (diff (m5)); };
  // dyadic operands (small integers times powers of two): every double and float operation is exact, so the
  // floating-point instantiations must return exactly the rational values, in either operand order
  OP("o.c15.dyadic") { auto a=A.stokes(); auto b=A.stokes();
    Vector<4,double> ad, bd; Vector<4,float> af, bf; for (unsigned i=0;i<4;i++) { ad[i] = (double) a[i]; bd[i] = (double) b[i]; af[i] = (float) ad[i]; bf[i] = (float) bd[i]; }
    Rat dot = a[1]*b[1] + a[2]*b[2] + a[3]*b[3]; Rat in = a[0]*b[0] - dot;
    O.put (Rat(Rat(Minkowski::inner(ad,bd)) - in)); O.put (Rat(Rat(Minkowski::inner(bd,ad)) - in));
    O.put (Rat(Rat((double) Minkowski::inner(af,bf)) - in)); O.put (Rat(Rat((double) Minkowski::inner(bf,af)) - in));
    Matrix<4,4,double> od = Minkowski::outer(ad,bd); Matrix<4,4,double> odt = Minkowski::outer(bd,ad);
    for (unsigned i=0;i<4;i++) for (unsigned j=0;j<4;j++) { Rat e = a[i]*b[j]; if (i == j) e += (i == 0 ? Rat(-1) : Rat(1)) * in / Rat(2);
      O.put (Rat(Rat(od[i][j]) - e)); O.put (Rat(Rat(odt[j][i]) - e)); } };

  // double-precision aliasing: x op= (reference to a component of x) against x op= (copy of that component), bit for bit, with
  // components of any magnitude (subnormal, tiny, ordinary, huge).  Output: number of differing components
  OP("o.c16.dalias") { std::string type = A.next(); std::string op = A.next(); unsigned k = A.nat(); std::vector<double> v; while (!A.done()) v.push_back (hexdouble (A.next()));
    auto differ = [] (const double* x, const double* y, unsigned n) { int bad = 0; for (unsigned i=0;i<n;i++) if (memcmp (x+i, y+i, 8) != 0 && !(x[i] != x[i] && y[i] != y[i])) bad++; return bad; };
    int bad = -1;
    if (type == "vec3") { Vector<3,double> a (v[0], v[1], v[2]), b = a; double c = a[k]; if (op == "mul") { a *= a[k]; b *= c; } else { a /= a[k]; b /= c; } bad = differ (&a[0], &b[0], 3); }
    else if (type == "stokes") { Stokes<double> a (v[0], v[1], v[2], v[3]), b = a; double c = a[k]; if (op == "mul") { a *= a[k]; b *= c; } else { a /= a[k]; b /= c; } bad = differ (&a[0], &b[0], 4); }
    else if (type == "mat22") { Matrix<2,2,double> a, b; for (unsigned i=0;i<2;i++) for (unsigned j=0;j<2;j++) a[i][j] = v[2*i+j]; b = a; double c = a[k/2][k%2];
      if (op == "mul") { a *= a[k/2][k%2]; b *= c; } else { a /= a[k/2][k%2]; b /= c; } bad = differ (&a[0][0], &b[0][0], 2) + differ (&a[1][0], &b[1][0], 2); }
    else if (type == "quatH" || type == "quatU") {
      if (type == "quatH") { Quaternion<double,Hermitian> a (v[0], v[1], v[2], v[3]), b = a; double c = a[k]; if (op == "mul") { a *= a[k]; b *= c; } else { a /= a[k]; b /= c; }
        double x[4] = { a.s0, a.s1, a.s2, a.s3 }, y[4] = { b.s0, b.s1, b.s2, b.s3 }; bad = differ (x, y, 4); }
      else { Quaternion<double,Unitary> a (v[0], v[1], v[2], v[3]), b = a; double c = a[k]; if (op == "mul") { a *= a[k]; b *= c; } else { a /= a[k]; b /= c; }
        double x[4] = { a.s0, a.s1, a.s2, a.s3 }, y[4] = { b.s0, b.s1, b.s2, b.s3 }; bad = differ (x, y, 4); } }
    else if (type == "jones") { typedef std::complex<double> C; Jones<double> a (C(v[0],v[1]), C(v[2],v[3]), C(v[4],v[5]), C(v[6],v[7])), b = a;
      double& ref = DatumTraits<C>::element (DatumTraits< Jones<double> >::element (a, k/2), k%2); double c = ref;
      if (op == "mul") { a *= ref; b *= c; } else { a /= ref; b /= c; }
      double x[8] = { a.j00.real(), a.j00.imag(), a.j01.real(), a.j01.imag(), a.j10.real(), a.j10.imag(), a.j11.real(), a.j11.imag() };
      double y[8] = { b.j00.real(), b.j00.imag(), b.j01.real(), b.j01.imag(), b.j10.real(), b.j10.imag(), b.j11.real(), b.j11.imag() }; bad = differ (x, y, 8); }
    else throw ProtocolError ("type");
    O.put (bad); };

  // scalars passed in another arithmetic type than the element type (the scalar operators are templates, or convert at the
  // call): with a small integer k given as int, long, short, unsigned, float the result is that of the double k, bit for bit.
  // Output: number of differing components, per container
  OP("o.c13.inttypes") { int k = A.integer(); const bool fits_short = (k >= -32768 && k <= 32767), fits_float = (k > -16777216 && k < 16777216); std::vector<double> v; while (!A.done()) v.push_back (hexdouble (A.next())); double dk = k;
    auto differ = [] (const double* x, const double* y, unsigned n) { int bad = 0; for (unsigned i=0;i<n;i++) if (memcmp (x+i, y+i, 8) != 0) bad++; return bad; };
    { Vector<3,double> a (v[0], v[1], v[2]); int bad = 0;
#define VCASE(expr_k, expr_d) { Vector<3,double> x = a, y = a; expr_k; expr_d; bad += differ (&x[0], &y[0], 3); }
      VCASE(x *= k, y *= dk) VCASE(x /= k, y /= dk) VCASE(x *= (long) k, y *= dk) if (fits_short) VCASE(x /= (short) k, y /= dk) if (fits_float) VCASE(x *= (float) k, y *= dk)
      VCASE(x = a * k, y = a * dk) VCASE(x = k * a, y = dk * a) VCASE(x = a / k, y = a / dk)
      if (k > 0) { VCASE(x *= (unsigned) k, y *= dk) VCASE(x /= (unsigned) k, y /= dk) }
#undef VCASE
      O.put (bad); }
    { Matrix<2,2,double> a; a[0][0] = v[0]; a[0][1] = v[1]; a[1][0] = v[2]; a[1][1] = v[3]; int bad = 0;
#define MCASE(expr_k, expr_d) { Matrix<2,2,double> x = a, y = a; expr_k; expr_d; bad += differ (&x[0][0], &y[0][0], 2) + differ (&x[1][0], &y[1][0], 2); }
      MCASE(x *= k, y *= dk) MCASE(x /= k, y /= dk) MCASE(x *= (long) k, y *= dk) if (fits_float) MCASE(x /= (float) k, y /= dk)
      if (k > 0) { MCASE(x *= (unsigned) k, y *= dk) }
#undef MCASE
      O.put (bad); }
    { Stokes<double> a (v[0], v[1], v[2], v[3]); int bad = 0;
#define SCASE(expr_k, expr_d) { Stokes<double> x = a, y = a; expr_k; expr_d; bad += differ (&x[0], &y[0], 4); }
      SCASE(x *= k, y *= dk) SCASE(x /= k, y /= dk) if (fits_short) SCASE(x *= (short) k, y *= dk)
#undef SCASE
      O.put (bad); }
    { int bad = 0;
#define QCASE(QB, expr_k, expr_d) { Quaternion<double,QB> a (v[0], v[1], v[2], v[3]); Quaternion<double,QB> x = a, y = a; expr_k; expr_d; \
        double xx[4] = { x.s0, x.s1, x.s2, x.s3 }, yy[4] = { y.s0, y.s1, y.s2, y.s3 }; bad += differ (xx, yy, 4); }
      QCASE(Hermitian, x *= k, y *= dk) QCASE(Hermitian, x /= k, y /= dk) QCASE(Unitary, x *= k, y *= dk) QCASE(Unitary, x /= k, y /= dk)
      // (the binary forms take their result type from PromoteTraits, which has no entry for integral types: float only)
      if (fits_float) { QCASE(Hermitian, x = a * (float) k, y = a * dk) QCASE(Unitary, x = a / (float) k, y = a / dk) QCASE(Hermitian, x = (float) k * a, y = dk * a) }
#undef QCASE
      O.put (bad); }
    { Estimate<double> a (v[0], std::fabs (v[1])); int bad = 0;
#define ECASE(expr_k, expr_d) { Estimate<double> x = a, y = a; expr_k; expr_d; double xx[2] = { x.val, x.var }, yy[2] = { y.val, y.var }; bad += differ (xx, yy, 2); }
      ECASE(x = a * k, y = a * dk) ECASE(x = a / k, y = a / dk) ECASE(x = a + k, y = a + dk) ECASE(x = a - k, y = a - dk)
      ECASE(x = k * a, y = dk * a) ECASE(x = k + a, y = dk + a) ECASE(x *= k, y *= dk) ECASE(x += k, y += dk) ECASE(x = a * (long) k, y = a * dk) ECASE(x = a * (long long) k, y = a * dk) if (k > 0) { ECASE(x = a * (unsigned) k, y = a * dk) ECASE(x = (unsigned long) k * a, y = dk * a) ECASE(x *= (unsigned) k, y *= dk) }
#undef ECASE
      O.put (bad); } };

  // weighted mean at extended precision with variances outside the range of double (10^e, |e| up to 4000): the accumulator
  // against the closed form evaluated in long double.  Output: relative errors of value and variance, and a flag (1 = an entry
  // with non-zero variance was taken into account)
  OP("o.c12.ldmean") { unsigned n = A.nat(); MeanEstimate<long double> m; long double sw = 0, sx = 0;
    for (unsigned i=0;i<n;i++) { long double x = hexdouble (A.next()); int e = A.integer(); long double var = powl (10.0L, (long double) e);
      m += Estimate<long double> (x, var); sw += 1.0L / var; sx += x / var; }
    Estimate<long double> r = m.get_Estimate(); long double mean = sx / sw, var = 1.0L / sw;
    O.put (dhexs ((double) (fabsl (r.val - mean) / std::max (fabsl (mean), 1e-4900L)))); O.put (dhexs ((double) (fabsl (r.var - var) / var)));
    O.put (dhexs (r.var > 0 ? 0.0 : 1.0)); };

  // Estimate<T,U> with a variance type narrower than the value type (Estimate<double,float>, Estimate<long double,double>; the
  // former is what PromoteTraits yields for Estimate<float> with double): every rule against the same rule evaluated at
  // Estimate<long double,long double>, where the reference variance lies well inside the range of U.  Output: max relative
  // error of the variances (scaled by the precision of U), number of values that differ from the reference beyond rounding
  OP("o.c11.narrowvar") { double x = hexdouble (A.next()), vx = hexdouble (A.next()), y = hexdouble (A.next()), vy = hexdouble (A.next());
    typedef Estimate<long double,long double> EL; EL lx (x, vx), ly (y, vy); double worst = 0; int badval = 0;
    auto cmp = [&] (long double val, long double var, const EL& ref, long double lo, long double hi, long double prec) {
      if (!(fabsl (ref.var) > lo && fabsl (ref.var) < hi)) return;
      double e = (double) (fabsl (var - ref.var) / fabsl (ref.var) / prec); if (!(e == e)) e = 1e300; worst = std::max (worst, e);
      if (fabsl (ref.val) > 0 && !(fabsl (val - ref.val) <= 1e-6L * fabsl (ref.val))) badval++; };
#define NV(TT, UU, LO, HI, PREC) if (std::isfinite ((UU) vx) && std::isfinite ((UU) vy) && (UU) vx > std::numeric_limits<UU>::min() && (UU) vy > std::numeric_limits<UU>::min() && fabsl ((long double)(UU) vx - vx) <= 1e-5L * vx) \
    { Estimate<TT,UU> ex ((TT) x, (UU) vx), ey ((TT) y, (UU) vy); Estimate<TT,UU> r; EL lx (x, (long double)(UU) vx), ly (y, (long double)(UU) vy); \
      r = atan2 (ex, ey); { EL q = atan2 (lx, ly); cmp (r.val, r.var, q, LO, HI, PREC); } \
      r = ex * ey; { EL q = lx * ly; cmp (r.val, r.var, q, LO, HI, PREC); } \
      if (y != 0) { r = ex / ey; EL q = lx / ly; cmp (r.val, r.var, q, LO, HI, PREC); } \
      r = ex + ey; { EL q = lx + ly; cmp (r.val, r.var, q, LO, HI, PREC); } \
      r = ex - ey; { EL q = lx - ly; cmp (r.val, r.var, q, LO, HI, PREC); } \
      if (x != 0) { r = ex.inverse(); EL q = lx.inverse(); cmp (r.val, r.var, q, LO, HI, PREC); } \
      if (x > 0) { r = sqrt (ex); EL q = sqrt (lx); cmp (r.val, r.var, q, LO, HI, PREC); r = log (ex); EL q2 = log (lx); cmp (r.val, r.var, q2, LO, HI, PREC); } }
    NV(double, float, 1e-30L, 1e30L, 1e-6L)
    NV(long double, double, 1e-290L, 1e290L, 1e-14L)
#undef NV
    O.put (dhexs (worst)); O.put (badval); };

  return run_stream (ops);
}
