// Harness driver, group "alias" (property C16): every compound-assignment operator of
// Vector / Stokes / Matrix / Jones / Quaternion / Estimate / Spinor, on real objects, with the
// right-hand operand either a distinct object or aliasing the destination (the object itself,
// or one of its elements obtained through the mutable accessor, i.e. by reference).
// Each op prints the result of the aliased call followed by the reference result obtained
// with a distinct copy of the operand (x op= copy).
#include "common.h"
#include "Spinor.h"

#define OP(name) ops[name] = [](Args& A, Out& O)
static const QBasis H = Hermitian;
static const QBasis U = Unitary;

template<unsigned N> void vec_scalar (Args& A, Out& O)
{
  std::string op = A.next(); unsigned k = A.nat();
  Vector<N,Rat> v = A.vec<N>(); Vector<N,Rat> w = v;
  Rat extra = (k >= N) ? A.rat() : Rat(0);
  Rat copy = (k >= N) ? extra : Rat(v[k]);
  if (op == "mul") { if (k >= N) v *= extra; else v *= v[k]; w *= copy; }
  else if (op == "div") { if (k >= N) v /= extra; else v /= v[k]; w /= copy; }
  else throw ProtocolError ("op");
  O.put (v); O.put (w);
}

template<unsigned N> void vec_vec (Args& A, Out& O)
{
  std::string op = A.next(); std::string al = A.next();
  Vector<N,Rat> v = A.vec<N>(); Vector<N,Rat> w = v;
  Vector<N,Rat> other = (al == "same") ? v : A.vec<N>();
  if (op == "add") { if (al == "same") v += v; else v += other; w += other; }
  else if (op == "sub") { if (al == "same") v -= v; else v -= other; w -= other; }
  else throw ProtocolError ("op");
  O.put (v); O.put (w);
}

template<unsigned R, unsigned C> void mat_scalar (Args& A, Out& O)
{
  std::string op = A.next(); unsigned k = A.nat();
  Matrix<R,C,Rat> m = A.mat<R,C>(); Matrix<R,C,Rat> w = m;
  Rat extra = (k >= R*C) ? A.rat() : Rat(0);
  Rat copy = (k >= R*C) ? extra : Rat(m[k/C][k%C]);
  if (op == "mul") { if (k >= R*C) m *= extra; else m *= m[k/C][k%C]; w *= copy; }
  else if (op == "div") { if (k >= R*C) m /= extra; else m /= m[k/C][k%C]; w /= copy; }
  else throw ProtocolError ("op");
  O.put (m); O.put (w);
}

template<unsigned R, unsigned C> void mat_mat (Args& A, Out& O)
{
  std::string op = A.next(); std::string al = A.next();
  Matrix<R,C,Rat> m = A.mat<R,C>(); Matrix<R,C,Rat> w = m;
  Matrix<R,C,Rat> other = (al == "same") ? m : A.mat<R,C>();
  if (op == "add") { if (al == "same") m += m; else m += other; w += other; }
  else if (op == "sub") { if (al == "same") m -= m; else m -= other; w -= other; }
  else throw ProtocolError ("op");
  O.put (m); O.put (w);
}

// the same with elements that carry their own copy semantics (Estimate: user-provided assignment, not trivially copyable):
// Vector / Stokes / Matrix of Estimate, the scalar a reference to an own element or a distinct Estimate
typedef Estimate<Rat> ER;
static ER rdER (Args& A) { Rat v = A.rat(); Rat r = A.rat(); return ER (v, r); }
template<unsigned N> void vecE_scalar (Args& A, Out& O)
{
  std::string op = A.next(); unsigned k = A.nat();
  Vector<N,ER> v; for (unsigned i=0;i<N;i++) v[i] = rdER (A); Vector<N,ER> w = v;
  ER extra = (k >= N) ? rdER (A) : ER ();
  ER copy = (k >= N) ? extra : ER (v[k]);
  if (op == "mul") { if (k >= N) v *= extra; else v *= v[k]; w *= copy; }
  else if (op == "div") { if (k >= N) v /= extra; else v /= v[k]; w /= copy; }
  else throw ProtocolError ("op");
  for (unsigned i=0;i<N;i++) { O.put (Rat(v[i].val)); O.put (Rat(v[i].var)); } for (unsigned i=0;i<N;i++) { O.put (Rat(w[i].val)); O.put (Rat(w[i].var)); }
}
static void stokesE_scalar (Args& A, Out& O)
{
  std::string op = A.next(); unsigned k = A.nat();
  Stokes<ER> v; for (unsigned i=0;i<4;i++) v[i] = rdER (A); Stokes<ER> w = v;
  ER extra = (k >= 4) ? rdER (A) : ER ();
  ER copy = (k >= 4) ? extra : ER (v[k]);
  if (op == "mul") { if (k >= 4) v *= extra; else v *= v[k]; w *= copy; }
  else if (op == "div") { if (k >= 4) v /= extra; else v /= v[k]; w /= copy; }
  else throw ProtocolError ("op");
  for (unsigned i=0;i<4;i++) { O.put (Rat(v[i].val)); O.put (Rat(v[i].var)); } for (unsigned i=0;i<4;i++) { O.put (Rat(w[i].val)); O.put (Rat(w[i].var)); }
}
static void matE_scalar (Args& A, Out& O)
{
  std::string op = A.next(); unsigned k = A.nat();
  Matrix<2,2,ER> m; for (unsigned i=0;i<2;i++) for (unsigned j=0;j<2;j++) m[i][j] = rdER (A); Matrix<2,2,ER> w = m;
  ER extra = (k >= 4) ? rdER (A) : ER ();
  ER copy = (k >= 4) ? extra : ER (m[k/2][k%2]);
  if (op == "mul") { if (k >= 4) m *= extra; else m *= m[k/2][k%2]; w *= copy; }
  else if (op == "div") { if (k >= 4) m /= extra; else m /= m[k/2][k%2]; w /= copy; }
  else throw ProtocolError ("op");
  for (unsigned i=0;i<2;i++) for (unsigned j=0;j<2;j++) { O.put (Rat(m[i][j].val)); O.put (Rat(m[i][j].var)); }
  for (unsigned i=0;i<2;i++) for (unsigned j=0;j<2;j++) { O.put (Rat(w[i][j].val)); O.put (Rat(w[i][j].var)); }
}

// the scalar is a reference to something INSIDE an element (one level below what the container stores): the value or the
// variance of an Estimate element, the real or imaginary part of a complex element, an entry of a Stokes / Vector element.
// kind: vecEval vecEvar stokesEval stokesEvar matEval vecC stokesC vecStokes vecVec matVec; op mul|div; k = index of the owning
// element (for nested containers: k = 10*i + j).  First half: aliased call; second half: the same with a copy of the scalar
template<class C, class S, class F> static void sub_alias (const std::string& op, C& v, C& w, S& inside, F put)
{
  S copy (inside);
  if (op == "mul") { v *= inside; w *= copy; } else if (op == "div") { v /= inside; w /= copy; } else throw ProtocolError ("op");
  put (v); put (w);
}
static void subelement (Args& A, Out& O)
{
  std::string kind = A.next(); std::string op = A.next(); unsigned k = A.nat();
  auto putE = [&](const ER& e) { O.put (Rat(e.val)); O.put (Rat(e.var)); };
  if (kind == "vecEval" || kind == "vecEvar") { Vector<3,ER> v; for (unsigned i=0;i<3;i++) v[i] = rdER (A); Vector<3,ER> w = v; if (k >= 3) throw ProtocolError ("k");
    Rat& in = (kind == "vecEval") ? v[k].val : v[k].var; sub_alias (op, v, w, in, [&](const Vector<3,ER>& x) { for (unsigned i=0;i<3;i++) putE (x[i]); }); }
  else if (kind == "stokesEval" || kind == "stokesEvar") { Stokes<ER> v; for (unsigned i=0;i<4;i++) v[i] = rdER (A); Stokes<ER> w = v; if (k >= 4) throw ProtocolError ("k");
    Rat& in = (kind == "stokesEval") ? v[k].val : v[k].var; sub_alias (op, v, w, in, [&](const Stokes<ER>& x) { for (unsigned i=0;i<4;i++) putE (x[i]); }); }
  else if (kind == "matEval") { Matrix<2,2,ER> v; for (unsigned i=0;i<2;i++) for (unsigned j=0;j<2;j++) v[i][j] = rdER (A); Matrix<2,2,ER> w = v; if (k >= 4) throw ProtocolError ("k");
    Rat& in = v[k/2][k%2].val; sub_alias (op, v, w, in, [&](const Matrix<2,2,ER>& x) { for (unsigned i=0;i<2;i++) for (unsigned j=0;j<2;j++) putE (x[i][j]); }); }
  else if (kind == "vecC") { Vector<3,CRat> v; for (unsigned i=0;i<3;i++) v[i] = A.cx(); Vector<3,CRat> w = v; if (k >= 6) throw ProtocolError ("k");
    Rat& in = DatumTraits<CRat>::element (v[k/2], k%2); sub_alias (op, v, w, in, [&](const Vector<3,CRat>& x) { for (unsigned i=0;i<3;i++) O.put (x[i]); }); }
  else if (kind == "stokesC") { Stokes<CRat> v; for (unsigned i=0;i<4;i++) v[i] = A.cx(); Stokes<CRat> w = v; if (k >= 8) throw ProtocolError ("k");
    Rat& in = DatumTraits<CRat>::element (v[k/2], k%2); sub_alias (op, v, w, in, [&](const Stokes<CRat>& x) { for (unsigned i=0;i<4;i++) O.put (x[i]); }); }
  else if (kind == "vecStokes") { Vector<2, Stokes<Rat> > v; for (unsigned i=0;i<2;i++) v[i] = A.stokes(); Vector<2, Stokes<Rat> > w = v; if (k/10 >= 2 || k%10 >= 4) throw ProtocolError ("k");
    Rat& in = v[k/10][k%10]; sub_alias (op, v, w, in, [&](const Vector<2, Stokes<Rat> >& x) { for (unsigned i=0;i<2;i++) O.put (x[i]); }); }
  else if (kind == "vecVec") { Vector<2, Vector<3,Rat> > v; for (unsigned i=0;i<2;i++) v[i] = A.vec<3>(); Vector<2, Vector<3,Rat> > w = v; if (k/10 >= 2 || k%10 >= 3) throw ProtocolError ("k");
    Rat& in = v[k/10][k%10]; sub_alias (op, v, w, in, [&](const Vector<2, Vector<3,Rat> >& x) { for (unsigned i=0;i<2;i++) for (unsigned j=0;j<3;j++) O.put (x[i][j]); }); }
  else if (kind == "matVec") { Matrix<2,2, Vector<2,Rat> > v; for (unsigned i=0;i<2;i++) for (unsigned j=0;j<2;j++) v[i][j] = A.vec<2>(); Matrix<2,2, Vector<2,Rat> > w = v; if (k/10 >= 4 || k%10 >= 2) throw ProtocolError ("k");
    Rat& in = v[(k/10)/2][(k/10)%2][k%10]; sub_alias (op, v, w, in, [&](const Matrix<2,2, Vector<2,Rat> >& x) { for (unsigned i=0;i<2;i++) for (unsigned j=0;j<2;j++) for (unsigned l=0;l<2;l++) O.put (x[i][j][l]); }); }
  else throw ProtocolError ("kind");
}

#define DISPATCH_N(fn) \
  switch (n) { case 1: fn<1>(A,O); break; case 2: fn<2>(A,O); break; case 3: fn<3>(A,O); break; \
    case 4: fn<4>(A,O); break; case 5: fn<5>(A,O); break; case 6: fn<6>(A,O); break; default: throw ProtocolError("N"); }
#define DISPATCH_RC(fn) \
  switch (r*10+c) { case 11: fn<1,1>(A,O); break; case 12: fn<1,2>(A,O); break; case 13: fn<1,3>(A,O); break; \
    case 21: fn<2,1>(A,O); break; case 22: fn<2,2>(A,O); break; case 23: fn<2,3>(A,O); break; \
    case 31: fn<3,1>(A,O); break; case 32: fn<3,2>(A,O); break; case 33: fn<3,3>(A,O); break; \
    case 44: fn<4,4>(A,O); break; default: throw ProtocolError("RC"); }

int main ()
{
  OpTable ops;

  OP("al.vec") { unsigned n = A.nat(); DISPATCH_N(vec_scalar) };
  OP("o.c16.vecE") { unsigned n = A.nat(); switch (n) { case 2: vecE_scalar<2>(A,O); break; case 3: vecE_scalar<3>(A,O); break; case 4: vecE_scalar<4>(A,O); break; default: throw ProtocolError("N"); } };
  OP("o.c16.stokesE") { stokesE_scalar (A, O); };
  OP("o.c16.sub") { subelement (A, O); };
  OP("o.c16.matE") { matE_scalar (A, O); };
  OP("al.vecvec") { unsigned n = A.nat(); DISPATCH_N(vec_vec) };
  OP("al.mat") { unsigned r = A.nat(); unsigned c = A.nat(); DISPATCH_RC(mat_scalar) };
  OP("al.matmat") { unsigned r = A.nat(); unsigned c = A.nat(); DISPATCH_RC(mat_mat) };

  OP("al.stokes") { std::string op = A.next(); unsigned k = A.nat();
    Stokes<Rat> s = A.stokes(); Stokes<Rat> w = s;
    Rat extra = (k >= 4) ? A.rat() : Rat(0); Rat copy = (k >= 4) ? extra : Rat(s[k]);
    if (op == "mul") { if (k >= 4) s *= extra; else s *= s[k]; w *= copy; }
    else if (op == "div") { if (k >= 4) s /= extra; else s /= s[k]; w /= copy; }
    else throw ProtocolError ("op");
    O.put (s); O.put (w); };
  OP("al.stokesvec") { std::string op = A.next(); std::string al = A.next();
    Stokes<Rat> s = A.stokes(); Stokes<Rat> w = s; Stokes<Rat> other = (al == "same") ? s : A.stokes();
    if (op == "add") { if (al == "same") s += s; else s += other; w += other; }
    else if (op == "sub") { if (al == "same") s -= s; else s -= other; w -= other; }
    else throw ProtocolError ("op");
    O.put (s); O.put (w); };

  OP("al.jones") { std::string op = A.next(); std::string al = A.next();
    Jones<Rat> j = A.jones(); Jones<Rat> w = j; Jones<Rat> other = (al == "same") ? j : A.jones();
    if (op == "add") { if (al == "same") j += j; else j += other; w += other; }
    else if (op == "sub") { if (al == "same") j -= j; else j -= other; w -= other; }
    else if (op == "mul") { if (al == "same") j *= j; else j *= other; w *= other; }
    else throw ProtocolError ("op");
    O.put (j); O.put (w); };
  OP("al.jonesc") { std::string op = A.next(); unsigned k = A.nat();
    Jones<Rat> j = A.jones(); Jones<Rat> w = j;
    CRat extra = (k >= 4) ? A.cx() : CRat(0); CRat copy = (k >= 4) ? extra : CRat(j[k]);
    if (op == "mul") { if (k >= 4) j *= extra; else j *= j[k]; w *= copy; }
    else if (op == "div") { if (k >= 4) j /= extra; else j /= j[k]; w /= copy; }
    else throw ProtocolError ("op");
    O.put (j); O.put (w); };
  OP("al.jonesr") { std::string op = A.next(); unsigned k = A.nat();     // real scalar: a reference to a real or imaginary part stored inside the destination
    Jones<Rat> j = A.jones(); Jones<Rat> w = j;
    Rat extra = (k >= 8) ? A.rat() : Rat(0);
    Rat copy = (k >= 8) ? extra : ((k%2) ? j[k/2].imag() : j[k/2].real());
    Rat& ref = (k >= 8) ? extra : DatumTraits<CRat>::element (DatumTraits< Jones<Rat> >::element (j, k/2), k%2);
    if (op == "mul") { j *= ref; w *= copy; }
    else if (op == "div") { j /= ref; w /= copy; }
    else throw ProtocolError ("op");
    O.put (j); O.put (w); };

  OP("al.quat") { std::string op = A.next(); unsigned k = A.nat();
    Quaternion<Rat,U> q = A.quat<U>(); Quaternion<Rat,U> w = q;
    Rat extra = (k >= 4) ? A.rat() : Rat(0); Rat copy = (k >= 4) ? extra : Rat(q[k]);
    if (op == "muls") { if (k >= 4) q *= extra; else q *= q[k]; w *= copy; }
    else if (op == "divs") { if (k >= 4) q /= extra; else q /= q[k]; w /= copy; }
    else if (op == "adds") { if (k >= 4) q += extra; else q += q[k]; w += copy; }
    else if (op == "subs") { if (k >= 4) q -= extra; else q -= q[k]; w -= copy; }
    else throw ProtocolError ("op");
    O.put (q); O.put (w); };
  OP("al.quatq") { std::string op = A.next(); std::string al = A.next();
    Quaternion<Rat,U> q = A.quat<U>(); Quaternion<Rat,U> w = q; Quaternion<Rat,U> other = (al == "same") ? q : A.quat<U>();
    if (op == "add") { if (al == "same") q += q; else q += other; w += other; }
    else if (op == "sub") { if (al == "same") q -= q; else q -= other; w -= other; }
    else if (op == "mul") { if (al == "same") q *= q; else q *= other; w *= other; }
    else throw ProtocolError ("op");
    O.put (q); O.put (w); };
  OP("al.biquat") { std::string op = A.next(); unsigned k = A.nat();
    Quaternion<CRat,H> q = A.biquat<H>(); Quaternion<CRat,H> w = q;
    CRat extra = (k >= 4) ? A.cx() : CRat(0); CRat copy = (k >= 4) ? extra : CRat(q[k]);
    if (op == "muls") { if (k >= 4) q *= extra; else q *= q[k]; w *= copy; }
    else if (op == "divs") { if (k >= 4) q /= extra; else q /= q[k]; w /= copy; }
    else throw ProtocolError ("op");
    O.put (q); O.put (w); };
  OP("al.biquatq") { std::string op = A.next(); std::string al = A.next();
    Quaternion<CRat,H> q = A.biquat<H>(); Quaternion<CRat,H> w = q; Quaternion<CRat,H> other = (al == "same") ? q : A.biquat<H>();
    if (op == "add") { if (al == "same") q += q; else q += other; w += other; }
    else if (op == "sub") { if (al == "same") q -= q; else q -= other; w -= other; }
    else if (op == "mul") { if (al == "same") q *= q; else q *= other; w *= other; }
    else throw ProtocolError ("op");
    O.put (q); O.put (w); };

  OP("al.est") { std::string op = A.next(); std::string al = A.next();
    Rat v = A.rat(); Rat r = A.rat(); Estimate<Rat> e (v, r); Estimate<Rat> w = e;
    Estimate<Rat> other = e; if (al != "same") { Rat v2 = A.rat(); Rat r2 = A.rat(); other = Estimate<Rat>(v2, r2); }
    if (op == "add") { if (al == "same") e += e; else e += other; w += other; }
    else if (op == "sub") { if (al == "same") e -= e; else e -= other; w -= other; }
    else if (op == "mul") { if (al == "same") e *= e; else e *= other; w *= other; }
    else if (op == "div") { if (al == "same") e /= e; else e /= other; w /= other; }
    else throw ProtocolError ("op");
    O.put (e.val); O.put (e.var); O.put (w.val); O.put (w.var); };

  OP("al.spinor") { std::string op = A.next(); std::string al = A.next();
    CRat x = A.cx(); CRat y = A.cx(); Spinor<Rat> e (x, y); Spinor<Rat> w = e;
    Spinor<Rat> other = e; if (al != "same") { CRat x2 = A.cx(); CRat y2 = A.cx(); other = Spinor<Rat>(x2, y2); }
    if (op == "add") { if (al == "same") e += e; else e += other; w += other; }
    else throw ProtocolError ("op");
    O.put (e.x); O.put (e.y); O.put (w.x); O.put (w.y); };
  OP("al.spinors") { std::string op = A.next(); unsigned k = A.nat();     // real scalar: a reference to a part stored inside the destination
    CRat x = A.cx(); CRat y = A.cx(); Spinor<Rat> e (x, y); Spinor<Rat> w = e;
    Rat extra = (k >= 4) ? A.rat() : Rat(0);
    Rat parts[4] = { x.real(), x.imag(), y.real(), y.imag() };
    Rat copy = (k >= 4) ? extra : parts[k];
    Rat& ref = (k >= 4) ? extra : DatumTraits<CRat>::element ((k < 2) ? e.x : e.y, k%2);
    if (op == "mul") { e *= ref; w *= copy; }
    else if (op == "div") { e /= ref; w /= copy; }
    else throw ProtocolError ("op");
    O.put (e.x); O.put (e.y); O.put (w.x); O.put (w.y); };
  OP("al.spinorc") { unsigned k = A.nat();                               // complex scalar: one of the destination's own components
    CRat x = A.cx(); CRat y = A.cx(); Spinor<Rat> e (x, y); Spinor<Rat> w = e;
    CRat extra = (k >= 2) ? A.cx() : CRat(0); CRat copy = (k >= 2) ? extra : (k ? y : x);
    CRat& ref = (k >= 2) ? extra : (k ? e.y : e.x);
    e *= ref; w *= copy;
    O.put (e.x); O.put (e.y); O.put (w.x); O.put (w.y); };

  // fractional polarisation: dividing a Stokes vector by its own total intensity
  OP("al.fracpol") { Stokes<Rat> s = A.stokes(); Rat I = s[0]; Stokes<Rat> w (Rat(1), s[1]/I, s[2]/I, s[3]/I);
    s /= s[0]; O.put (s); O.put (w); };

  return run_stream (ops);
}
