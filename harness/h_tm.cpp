// Harness driver, group "tm" (property C20): true_math::finite / signbit and their liftings.
// Compiled once per caller flag set (-O0, -O2, -O3 -ffast-math, -Ofast) and linked against
// true_math.c compiled under each of the same flag sets.  Values arrive as raw bit patterns and are
// moved with memcpy only, so that the caller's fast-math assumptions cannot fold them away.
#include <cstring>
#include <cstdio>
#include <string>
#include <vector>
#include <sstream>
#include <iostream>
#include "complex_math.h"   // before Vector.h: the lifting to vectors of complex numbers finds the complex overload only then
#include "Jones.h"
#include "Estimate.h"
#include "Vector.h"
#include "Matrix.h"
#include "Stokes.h"
#include "complex_math.h"

static double rd64 (const std::string& s) { unsigned long long u = std::stoull (s, 0, 16); double d; memcpy (&d, &u, 8); return d; }
static float rd32 (const std::string& s) { unsigned u = (unsigned) std::stoul (s, 0, 16); float f; memcpy (&f, &u, 4); return f; }
// x87 extended: 20 hex digits = sign/exponent (4 hex) then 64-bit significand (16 hex)
static long double rd80 (const std::string& s)
{ unsigned short se = (unsigned short) std::stoul (s.substr (0,4), 0, 16); unsigned long long m = std::stoull (s.substr (4), 0, 16);
  long double x = 0; unsigned char b[16]; memset (b, 0, 16); memcpy (b, &m, 8); memcpy (b+8, &se, 2); memcpy (&x, b, 16); return x; }

template<unsigned N> int vec_finite (const std::vector<std::string>& t, size_t at)
{ Vector<N,double> v; for (unsigned i=0;i<N;i++) v[i] = rd64 (t[at+i]); return true_math::finite (v) ? 1 : 0; }

// the same predicates on values the optimiser can see at the call site (literals written in the call): a wrapper that lets the
// caller's fast-math flags decide for compile-time constants would answer wrongly here and nowhere else
#include <limits>
#include <cfloat>
// several constants in ONE function, with nothing between the calls that writes memory: a declaration that lets the caller's
// optimiser merge "equal" calls (attribute pure / const) would merge the calls on +0 and -0 where zeros are unsigned for it.
// The negative zero is a bit pattern (no arithmetic of the caller is involved).  Entry i: 0 +0, 1 -0, 2 one, 3 -one, 4 +inf, 5 -inf
template<typename T> struct NegZero;
template<> struct NegZero<double> { static constexpr double v = __builtin_bit_cast (double, 0x8000000000000000ULL); };
template<> struct NegZero<float> { static constexpr float v = __builtin_bit_cast (float, 0x80000000u); };
#define KT(i, x) m |= (true_math::finite (x) ? 1u : 0u) << (2*(i)); m |= (true_math::signbit (x) ? 1u : 0u) << (2*(i)+1);
template<typename T> __attribute__((noinline)) static unsigned ktab_fwd ()
{ unsigned m = 0; KT(0, T(0.0)) KT(1, NegZero<T>::v) KT(2, T(1.0)) KT(3, T(-1.0)) KT(4, std::numeric_limits<T>::infinity()) KT(5, -std::numeric_limits<T>::infinity()) return m; }
template<typename T> __attribute__((noinline)) static unsigned ktab_rev ()
{ unsigned m = 0; KT(5, -std::numeric_limits<T>::infinity()) KT(4, std::numeric_limits<T>::infinity()) KT(3, T(-1.0)) KT(2, T(1.0)) KT(1, NegZero<T>::v) KT(0, T(0.0)) return m; }
#undef KT
template<typename T> static void ktab (unsigned k, std::ostringstream& o)
{ unsigned m = (k >= 200) ? ktab_rev<T> () : ktab_fwd<T> (); unsigned i = k % 100; if (i > 5) throw std::runtime_error ("protocol:k"); o << " " << ((m >> (2*i)) & 1u) << " " << ((m >> (2*i+1)) & 1u); }
template<typename T> static void konst (unsigned k, std::ostringstream& o)
{
#define KCASE(n, expr) case n: o << " " << (true_math::finite ((T)(expr)) ? 1 : 0) << " " << (true_math::signbit ((T)(expr)) ? 1 : 0); break;
  switch (k) {
    KCASE(0, std::numeric_limits<T>::quiet_NaN()) KCASE(1, std::numeric_limits<T>::infinity()) KCASE(2, -std::numeric_limits<T>::infinity())
    KCASE(3, 0.0) KCASE(4, -0.0) KCASE(5, 1.0) KCASE(6, -1.0) KCASE(7, std::numeric_limits<T>::max()) KCASE(8, -std::numeric_limits<T>::max())
    KCASE(9, std::numeric_limits<T>::denorm_min()) KCASE(10, -std::numeric_limits<T>::quiet_NaN())
    default: throw std::runtime_error ("protocol:k"); }
#undef KCASE
}
template<typename T> static void konst_est (unsigned k, std::ostringstream& o)
{
#define KCASE(n, expr) case n: o << " " << (finite (Estimate<T> ((T)(expr), (T) 1.0)) ? 1 : 0) << " " << (finite (Estimate<T> ((T) 1.0, (T)(expr))) ? 1 : 0); break;
  switch (k) {
    KCASE(0, std::numeric_limits<T>::quiet_NaN()) KCASE(1, std::numeric_limits<T>::infinity()) KCASE(2, -std::numeric_limits<T>::infinity())
    KCASE(3, 0.0) KCASE(4, -0.0) KCASE(5, 1.0) KCASE(6, -1.0) KCASE(7, std::numeric_limits<T>::max()) KCASE(8, -std::numeric_limits<T>::max())
    KCASE(9, std::numeric_limits<T>::denorm_min()) KCASE(10, -std::numeric_limits<T>::quiet_NaN())
    default: throw std::runtime_error ("protocol:k"); }
#undef KCASE
}
static void konst_cx (unsigned k, std::ostringstream& o)
{
#define KCASE(n, expr) case n: o << " " << (true_math::finite (std::complex<double> ((expr), 1.0)) ? 1 : 0) << " " << (true_math::finite (std::complex<double> (1.0, (expr))) ? 1 : 0); break;
  switch (k) {
    KCASE(0, std::numeric_limits<double>::quiet_NaN()) KCASE(1, std::numeric_limits<double>::infinity()) KCASE(2, -std::numeric_limits<double>::infinity())
    KCASE(3, 0.0) KCASE(4, -0.0) KCASE(5, 1.0) KCASE(6, -1.0) KCASE(7, std::numeric_limits<double>::max()) KCASE(8, -std::numeric_limits<double>::max())
    KCASE(9, std::numeric_limits<double>::denorm_min()) KCASE(10, -std::numeric_limits<double>::quiet_NaN())
    default: throw std::runtime_error ("protocol:k"); }
#undef KCASE
}

int main ()
{
  std::string line;
  while (std::getline (std::cin, line)) {
    std::vector<std::string> t; { std::istringstream is (line); std::string x; while (is >> x) t.push_back (x); }
    if (t.empty()) { std::cout << "err empty\n"; continue; }
    const std::string& op = t[0]; std::ostringstream o;
    try {
      if (op == "tm.d") { double x = rd64 (t[1]); o << " " << (true_math::finite (x) ? 1 : 0) << " " << (true_math::signbit (x) ? 1 : 0); }
      else if (op == "tm.f") { float x = rd32 (t[1]); o << " " << (true_math::finite (x) ? 1 : 0) << " " << (true_math::signbit (x) ? 1 : 0); }
      else if (op == "tm.ld") { long double x = rd80 (t[1]); o << " " << (true_math::finite (x) ? 1 : 0) << " " << (true_math::signbit (x) ? 1 : 0); }
      else if (op == "tm.cx") { std::complex<double> z (rd64 (t[1]), rd64 (t[2])); o << " " << (true_math::finite (z) ? 1 : 0); }
      else if (op == "tm.cxf") { std::complex<float> z (rd32 (t[1]), rd32 (t[2])); o << " " << (true_math::finite (z) ? 1 : 0); }
      else if (op == "tm.vec") { unsigned n = (unsigned) std::stoul (t[1]); int r = -1;
        switch (n) { case 1: r = vec_finite<1>(t,2); break; case 2: r = vec_finite<2>(t,2); break; case 3: r = vec_finite<3>(t,2); break;
          case 4: r = vec_finite<4>(t,2); break; case 5: r = vec_finite<5>(t,2); break; case 6: r = vec_finite<6>(t,2); break; }
        o << " " << r; }
      else if (op == "tm.jones") { std::complex<double> a (rd64 (t[1]), rd64 (t[2])), b (rd64 (t[3]), rd64 (t[4])), c (rd64 (t[5]), rd64 (t[6])), d (rd64 (t[7]), rd64 (t[8]));
        Jones<double> j (a,b,c,d); o << " " << (true_math::finite (j) ? 1 : 0); }
      else if (op == "tm.est") { Estimate<double> e (rd64 (t[1]), rd64 (t[2])); o << " " << (finite (e) ? 1 : 0); }
      else if (op == "tm.estf") { Estimate<float> e (rd32 (t[1]), rd32 (t[2])); o << " " << (finite (e) ? 1 : 0); }
      else if (op == "tm.estld") { Estimate<long double> e (rd80 (t[1]), rd80 (t[2])); o << " " << (finite (e) ? 1 : 0); }
      // classes derived from Vector (Stokes; Matrix is a Vector of Vectors): the lifting must reach them through the base class
      else if (op == "tm.stokes") { Stokes<double> v; for (unsigned i=0;i<4;i++) v[i] = rd64 (t[1+i]); o << " " << (true_math::finite (v) ? 1 : 0); }
      else if (op == "tm.stokesf") { Stokes<float> v; for (unsigned i=0;i<4;i++) v[i] = rd32 (t[1+i]); o << " " << (true_math::finite (v) ? 1 : 0); }
      else if (op == "tm.mat23") { Matrix<2,3,double> m; for (unsigned i=0;i<2;i++) for (unsigned j=0;j<3;j++) m[i][j] = rd64 (t[1+3*i+j]); o << " " << (true_math::finite (m) ? 1 : 0); }
      else if (op == "tm.mat22") { Matrix<2,2,double> m; for (unsigned i=0;i<2;i++) for (unsigned j=0;j<2;j++) m[i][j] = rd64 (t[1+2*i+j]); o << " " << (true_math::finite (m) ? 1 : 0); }
      else if (op == "tm.vecvec") { Vector<2, Vector<2,double> > m; for (unsigned i=0;i<2;i++) for (unsigned j=0;j<2;j++) m[i][j] = rd64 (t[1+2*i+j]); o << " " << (true_math::finite (m) ? 1 : 0); }
      // vectors of complex numbers (Vector<N,complex<T>>, Stokes<complex<T>>): every real and imaginary part through the wrappers
      else if (op == "tm.cvec") { Vector<2, std::complex<double> > v; v[0] = std::complex<double> (rd64 (t[1]), rd64 (t[2])); v[1] = std::complex<double> (rd64 (t[3]), rd64 (t[4])); o << " " << (true_math::finite (v) ? 1 : 0); }
      else if (op == "tm.cvecf") { Vector<2, std::complex<float> > v; v[0] = std::complex<float> (rd32 (t[1]), rd32 (t[2])); v[1] = std::complex<float> (rd32 (t[3]), rd32 (t[4])); o << " " << (true_math::finite (v) ? 1 : 0); }
      else if (op == "tm.cvecld") { Vector<2, std::complex<long double> > v; v[0] = std::complex<long double> (rd80 (t[1]), rd80 (t[2])); v[1] = std::complex<long double> (rd80 (t[3]), rd80 (t[4])); o << " " << (true_math::finite (v) ? 1 : 0); }
      else if (op == "tm.cstokes") { Stokes< std::complex<double> > v; for (unsigned i=0;i<4;i++) v[i] = std::complex<double> (rd64 (t[1+2*i]), rd64 (t[2+2*i])); o << " " << (true_math::finite (v) ? 1 : 0); }
      else if (op == "tm.kd") { unsigned k = (unsigned) std::stoul (t[1]); if (k >= 100) ktab<double> (k, o); else konst<double> (k, o); }
      else if (op == "tm.kf") { unsigned k = (unsigned) std::stoul (t[1]); if (k >= 100) ktab<float> (k, o); else konst<float> (k, o); }
      else if (op == "tm.kld") konst<long double> ((unsigned) std::stoul (t[1]), o);
      else if (op == "tm.kest") konst_est<double> ((unsigned) std::stoul (t[1]), o);
      else if (op == "tm.kestf") konst_est<float> ((unsigned) std::stoul (t[1]), o);
      else if (op == "tm.kcx") konst_cx ((unsigned) std::stoul (t[1]), o);
      else { std::cout << "err unknown-op\n"; continue; }
      std::cout << "ok" << o.str() << "\n";
    } catch (std::exception& e) { std::cout << "err throw:" << e.what() << "\n"; }
  }
  return 0;
}
