// Shared plumbing of the verification harness drivers: line protocol, exact-rational glue for
// the epsic templates.  One operation per input line: `<op> <arg>...`; one output line per
// operation: `ok <values>` or `err <kind>`.
#ifndef VERIF_COMMON_H
#define VERIF_COMMON_H

#include <thread>
#include <cstdlib>
#include "rat.h"
#include "PromoteTraits.h"

template<> class PromoteTraits<Rat,Rat> { public: typedef Rat promote_type; };
template<> class PromoteTraits<Rat,double> { public: typedef Rat promote_type; };
template<> class PromoteTraits<double,Rat> { public: typedef Rat promote_type; };
template<> class PromoteTraits<Rat,float> { public: typedef Rat promote_type; };
template<> class PromoteTraits<float,Rat> { public: typedef Rat promote_type; };
template<> class PromoteTraits<Rat,int> { public: typedef Rat promote_type; };
template<> class PromoteTraits<int,Rat> { public: typedef Rat promote_type; };

#include <complex>
typedef std::complex<Rat> CRat;

// mixed double/complex<Rat> arithmetic that std::complex's same-type templates do not cover
inline CRat operator * (double a, const CRat& z) { return CRat (Rat(a)*z.real(), Rat(a)*z.imag()); }
inline CRat operator * (const CRat& z, double a) { return CRat (z.real()*Rat(a), z.imag()*Rat(a)); }
inline CRat operator / (const CRat& z, double a) { return CRat (z.real()/Rat(a), z.imag()/Rat(a)); }
inline CRat operator / (double a, const CRat& z) { CRat r (Rat(a), Rat(0)); r /= z; return r; }
inline CRat operator - (const CRat& z, double a) { return CRat (z.real()-Rat(a), z.imag()); }
inline bool operator == (const CRat& z, double a) { return z.real() == Rat(a) && z.imag() == Rat(0); }
inline bool operator != (const CRat& z, double a) { return !(z == a); }
inline CRat operator + (double a, const CRat& z) { return CRat (Rat(a)+z.real(), z.imag()); }
inline CRat operator + (const CRat& z, double a) { return CRat (z.real()+Rat(a), z.imag()); }

#include "Jones.h"
#include "Quaternion.h"
#include "Stokes.h"
#include "Matrix.h"
#include "Vector.h"
#include "Estimate.h"

template<> inline const Jones<Rat>& Jones<Rat>::identity ()
{
  static Jones<Rat> I (CRat(Rat(1),Rat(0)), CRat(Rat(0),Rat(0)), CRat(Rat(0),Rat(0)), CRat(Rat(1),Rat(0)));
  return I;
}

#include <map>
#include <vector>
#include <string>
#include <sstream>
#include <functional>
#include <iostream>

struct ProtocolError : std::runtime_error { ProtocolError(const std::string& s) : std::runtime_error(s) {} };

struct Args {
  std::vector<std::string> tok;
  size_t pos;
  Args () : pos(0) {}
  bool done () const { return pos >= tok.size(); }
  const std::string& next () { if (done()) throw ProtocolError("missing argument"); return tok[pos++]; }
  Rat rat () { mpq_class q (next()); q.canonicalize(); return Rat(q); }
  unsigned nat () { return (unsigned) std::stoul (next()); }
  int integer () { return std::stoi (next()); }
  CRat cx () { Rat a = rat(); Rat b = rat(); return CRat(a,b); }
  Jones<Rat> jones () { CRat a=cx(), b=cx(), c=cx(), d=cx(); return Jones<Rat>(a,b,c,d); }
  template<QBasis B> Quaternion<Rat,B> quat () { Rat a=rat(), b=rat(), c=rat(), d=rat(); return Quaternion<Rat,B>(a,b,c,d); }
  template<QBasis B> Quaternion<CRat,B> biquat () { CRat a=cx(), b=cx(), c=cx(), d=cx(); return Quaternion<CRat,B>(a,b,c,d); }
  template<unsigned N> Vector<N,Rat> vec () { Vector<N,Rat> v; for (unsigned i=0;i<N;i++) v[i]=rat(); return v; }
  template<unsigned N> Vector<N,CRat> cvec () { Vector<N,CRat> v; for (unsigned i=0;i<N;i++) v[i]=cx(); return v; }
  template<unsigned R, unsigned C> Matrix<R,C,Rat> mat ()
  { Matrix<R,C,Rat> m; for (unsigned i=0;i<R;i++) for (unsigned j=0;j<C;j++) m[i][j]=rat(); return m; }
  template<unsigned R, unsigned C> Matrix<R,C,CRat> cmat ()
  { Matrix<R,C,CRat> m; for (unsigned i=0;i<R;i++) for (unsigned j=0;j<C;j++) m[i][j]=cx(); return m; }
  Stokes<Rat> stokes () { Rat a=rat(), b=rat(), c=rat(), d=rat(); return Stokes<Rat>(a,b,c,d); }
  Stokes<CRat> cstokes () { CRat a=cx(), b=cx(), c=cx(), d=cx(); return Stokes<CRat>(a,b,c,d); }
};

struct Out {
  std::ostringstream os;
  void put (const Rat& r) { os << " " << r.str(); }
  void put (const CRat& z) { put(z.real()); put(z.imag()); }
  void put (const Jones<Rat>& j) { put(j.j00); put(j.j01); put(j.j10); put(j.j11); }
  template<QBasis B> void put (const Quaternion<Rat,B>& q) { put(q.s0); put(q.s1); put(q.s2); put(q.s3); }
  template<QBasis B> void put (const Quaternion<CRat,B>& q) { put(q.s0); put(q.s1); put(q.s2); put(q.s3); }
  template<unsigned N, typename T> void put (const Vector<N,T>& v) { for (unsigned i=0;i<N;i++) put(T(v[i])); }
  template<unsigned R, unsigned C, typename T> void put (const Matrix<R,C,T>& m)
  { for (unsigned i=0;i<R;i++) for (unsigned j=0;j<C;j++) put(T(m[i][j])); }
  void put (bool b) { os << " " << (b ? 1 : 0); }
  void put (unsigned n) { os << " " << n; }
  void put (int n) { os << " " << n; }
  void put (const std::string& s) { os << " " << s; }
};

typedef std::function<void(Args&, Out&)> OpFn;
typedef std::map<std::string, OpFn> OpTable;

inline std::string run_line (const OpTable& ops, const std::string& line)
{
  Args a;
  { std::istringstream is (line); std::string t; while (is >> t) a.tok.push_back(t); }
  if (a.tok.empty()) return "err empty";
  std::string name = a.next();
  OpTable::const_iterator it = ops.find (name);
  if (it == ops.end()) return "err unknown-op";
  Out o;
  try { it->second (a, o); }
  catch (RatDivZero&) { return "err div0"; }
  catch (RatSqrtNeg&) { return "err sqrt-neg"; }
  catch (RatSqrtIrr&) { return "err sqrt-irrational"; }
  catch (ProtocolError& e) { return std::string("err protocol:") + e.what(); }
  catch (std::exception& e) {
    std::string w = e.what();
    if (w.find("Singular Matrix-1") != std::string::npos) return "err singular1";
    if (w.find("Singular Matrix-2") != std::string::npos) return "err singular2";
    if (w.find("non-zero imaginary") != std::string::npos) return "err throw:non-zero imaginary component";
    return "err throw:" + w;
  }
  return "ok" + o.os.str();
}

inline int run_stream (const OpTable& ops)
{
  std::string line; const bool threaded = getenv ("EPSIC_HARNESS_THREAD") != 0;
  while (std::getline (std::cin, line)) {
    if (line.empty() || line[0] == '#') { std::cout << line << "\n"; continue; }
    // thread mode (the runner's thread pass): every line is executed on a thread of its own, started and joined here, so that
    // nothing runs concurrently; the answers must be those of the main thread
    if (threaded) { std::string out; std::thread th ([&]() { out = run_line (ops, line); }); th.join (); std::cout << out << "\n"; continue; }
    std::cout << run_line (ops, line) << "\n";
  }
  return 0;
}

#endif
