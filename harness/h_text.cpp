// Harness driver, group "text" (property C19): the real operator<< / operator>> of Vector, Stokes,
// Estimate, Matrix, Jones, Quaternion and the Signal conventions through std::stringstream at
// precision 17.  Text travels hex-encoded ("_" = empty); doubles as 16-hex-digit bit patterns.
#include <thread>
#include <cstdlib>
#include <cstring>
#include <cstdio>
#include <cmath>
#include <string>
#include <vector>
#include <sstream>
#include <iostream>
#include <complex>
#include <stdexcept>
#include "Vector.h"
#include "Matrix.h"
#include "Estimate.h"
#include "Stokes.h"
#include "Jones.h"
#include "Quaternion.h"
#include "Conventions.h"

static double rd (const std::string& s) { unsigned long long u = std::stoull (s, 0, 16); double d; memcpy (&d, &u, 8); return d; }
static std::string hx (double x) { unsigned long long u; memcpy (&u, &x, 8); char b[20]; snprintf (b, 20, " %016llx", u); return b; }
static std::string enc (const std::string& s) { if (s.empty()) return " _"; std::string o = " "; char b[4]; for (unsigned char c : s) { snprintf (b, 4, "%02x", c); o += b; } return o; }
static std::string dec (const std::string& h) { if (h == "_") return ""; std::string o; for (size_t i=0;i+1<h.size();i+=2) o += (char) std::stoul (h.substr (i,2), 0, 16); return o; }

static const double SV = 777.5, SVAR = 0.25, SIM = -3.25;

struct Toks { std::vector<std::string> t; size_t i = 1; const std::string& next () { if (i >= t.size()) throw std::runtime_error ("protocol:missing argument"); return t[i++]; } };

static std::string state (std::istream& is)
{
  std::ostringstream o; o << " " << (is.fail() ? 1 : 0) << " " << (is.eof() ? 1 : 0);
  is.clear(); o << " " << (long) is.tellg(); return o.str();
}

template<typename T> struct IO;
template<> struct IO<double> {
  static double make (Toks& a) { return rd (a.next()); }
  static double sentinel () { return SV; }
  static std::string show (const double& x) { return hx (x); } };
template<> struct IO< Estimate<double> > {
  static Estimate<double> make (Toks& a) { double v = rd (a.next()); double r = rd (a.next()); return Estimate<double> (v, r); }
  static Estimate<double> sentinel () { return Estimate<double> (SV, SVAR); }
  static std::string show (const Estimate<double>& e) { return hx (e.get_value()) + hx (e.get_variance()); } };
template<> struct IO< std::complex<double> > {
  static std::complex<double> make (Toks& a) { double v = rd (a.next()); double r = rd (a.next()); return std::complex<double> (v, r); }
  static std::complex<double> sentinel () { return std::complex<double> (SV, SIM); }
  static std::string show (const std::complex<double>& e) { return hx (e.real()) + hx (e.imag()); } };

template<unsigned N, typename T> std::string vec_rt (Toks& a)
{
  Vector<N,T> v; for (unsigned i=0;i<N;i++) v[i] = IO<T>::make (a);
  std::stringstream ss; ss.precision (17); ss << v; std::string text = ss.str();
  Vector<N,T> d; for (unsigned i=0;i<N;i++) d[i] = IO<T>::sentinel();
  ss >> d; std::string o = enc (text); for (unsigned i=0;i<N;i++) o += IO<T>::show (d[i]); return o + state (ss);
}
template<unsigned N, typename T> std::string vec_in (const std::string& text)
{
  std::stringstream ss (text); Vector<N,T> d; for (unsigned i=0;i<N;i++) d[i] = IO<T>::sentinel();
  ss >> d; std::string o; for (unsigned i=0;i<N;i++) o += IO<T>::show (d[i]); return o + state (ss);
}
template<typename T> std::string vec_rt_n (unsigned n, Toks& a)
{ switch (n) { case 1: return vec_rt<1,T> (a); case 2: return vec_rt<2,T> (a); case 3: return vec_rt<3,T> (a); case 4: return vec_rt<4,T> (a); case 5: return vec_rt<5,T> (a); }
  throw std::runtime_error ("protocol:N"); }
template<typename T> std::string vec_in_n (unsigned n, const std::string& text)
{ switch (n) { case 1: return vec_in<1,T> (text); case 2: return vec_in<2,T> (text); case 3: return vec_in<3,T> (text); case 4: return vec_in<4,T> (text); case 5: return vec_in<5,T> (text); }
  throw std::runtime_error ("protocol:N"); }

static void process (const std::string& line)
{
  do {
    Toks a; { std::istringstream is (line); std::string x; while (is >> x) a.t.push_back (x); }
    if (a.t.empty()) { std::cout << "err empty\n"; continue; }
    const std::string op = a.t[0]; std::string o;
    try {
      if (op == "t.rt.est") { Estimate<double> e = IO< Estimate<double> >::make (a); std::stringstream ss; ss.precision (17); ss << e; std::string text = ss.str();
        Estimate<double> d (SV, SVAR); ss >> d; o = enc (text) + IO< Estimate<double> >::show (d) + state (ss); }
      else if (op == "t.rt.vecd") { unsigned n = std::stoul (a.next()); o = vec_rt_n<double> (n, a); }
      else if (op == "t.rt.vece") { unsigned n = std::stoul (a.next()); o = vec_rt_n< Estimate<double> > (n, a); }
      else if (op == "t.rt.vecc") { unsigned n = std::stoul (a.next()); o = vec_rt_n< std::complex<double> > (n, a); }
      else if (op == "t.rt.stokes") { Stokes<double> s; for (unsigned i=0;i<4;i++) s[i] = rd (a.next()); std::stringstream ss; ss.precision (17); ss << s; std::string text = ss.str();
        Stokes<double> d (SV, SV, SV, SV); ss >> d; o = enc (text); for (unsigned i=0;i<4;i++) o += hx (d[i]); o += state (ss); }
      else if (op == "t.rt.stokese") { Stokes< Estimate<double> > s; for (unsigned i=0;i<4;i++) s[i] = IO< Estimate<double> >::make (a); std::stringstream ss; ss.precision (17); ss << s; std::string text = ss.str();
        Stokes< Estimate<double> > d; for (unsigned i=0;i<4;i++) d[i] = Estimate<double> (SV, SVAR); ss >> d; o = enc (text); for (unsigned i=0;i<4;i++) o += IO< Estimate<double> >::show (d[i]); o += state (ss); }
      else if (op == "t.in.est") { std::stringstream ss (dec (a.next())); Estimate<double> d (SV, SVAR); ss >> d; o = IO< Estimate<double> >::show (d) + state (ss); }
      else if (op == "t.in.vecd") { unsigned n = std::stoul (a.next()); o = vec_in_n<double> (n, dec (a.next())); }
      else if (op == "t.in.vece") { unsigned n = std::stoul (a.next()); o = vec_in_n< Estimate<double> > (n, dec (a.next())); }
      else if (op == "t.in.vecc") { unsigned n = std::stoul (a.next()); o = vec_in_n< std::complex<double> > (n, dec (a.next())); }
      else if (op == "t.in.basis") { std::stringstream ss (dec (a.next())); Signal::Basis b = (Signal::Basis) std::stoi (a.next()); ss >> b; o = " " + std::to_string ((int) b) + state (ss); }
      else if (op == "t.in.hand") { std::stringstream ss (dec (a.next())); Signal::Hand h = Signal::Right; ss >> h; int k; memcpy (&k, &h, sizeof k); o = " " + std::to_string (k) + state (ss); }
      else if (op == "t.in.arg") { std::stringstream ss (dec (a.next())); Signal::Argument h = Signal::Conventional; ss >> h; int k; memcpy (&k, &h, sizeof k); o = " " + std::to_string (k) + state (ss); }
      else if (op == "t.out.basis") { std::ostringstream ss; ss << (Signal::Basis) std::stoi (a.next()); o = enc (ss.str()); }
      else if (op == "t.out.hand") { std::ostringstream ss; ss << (Signal::Hand) std::stoi (a.next()); o = enc (ss.str()); }
      else if (op == "t.out.arg") { std::ostringstream ss; ss << (Signal::Argument) std::stoi (a.next()); o = enc (ss.str()); }
      else if (op == "t.out.matrix") { Matrix<2,3,double> m; for (unsigned i=0;i<2;i++) for (unsigned j=0;j<3;j++) m[i][j] = rd (a.next()); std::ostringstream ss; ss.precision (17); ss << m; o = enc (ss.str()); }
      else if (op == "t.out.jones") { double v[8]; for (int i=0;i<8;i++) v[i] = rd (a.next()); typedef std::complex<double> C;
        Jones<double> j (C(v[0],v[1]), C(v[2],v[3]), C(v[4],v[5]), C(v[6],v[7])); std::ostringstream ss; ss.precision (17); ss << j; o = enc (ss.str()); }
      else if (op == "t.out.quath") { double v[4]; for (int i=0;i<4;i++) v[i] = rd (a.next()); Quaternion<double,Hermitian> q (v[0],v[1],v[2],v[3]); std::ostringstream ss; ss.precision (17); ss << q; o = enc (ss.str()); }
      else if (op == "t.out.quatu") { double v[4]; for (int i=0;i<4;i++) v[i] = rd (a.next()); Quaternion<double,Unitary> q (v[0],v[1],v[2],v[3]); std::ostringstream ss; ss.precision (17); ss << q; o = enc (ss.str()); }
      // leaf: the stream's own number printing and parsing at precision 17: text, parsed-back value, flags
      else if (op == "t.leaf") { double x = rd (a.next()); std::stringstream ss; ss.precision (17); ss << x; std::string text = ss.str(); double y = SV; ss >> y; o = enc (text) + hx (y) + state (ss); }
      // oracle: several values written to one stream, separated by white space (as a file with one value per line or per
      // column), read back in order: every value returns and the stream stays good.  Output: mismatching components, fail flag
      else if (op == "o.c19.multi") { unsigned k = std::stoul (a.next()); unsigned sepc = std::stoul (a.next());
        const char* seps[] = { " ", "\n", "\t", "  \n ", "\r\n" }; std::string sep = seps[sepc % 5];
        unsigned fl = std::stoul (a.next());   // format flags of the writing stream: every value is written with the stream's own flags
        std::stringstream ss; ss.precision (17); std::vector<std::string> kinds;
        if (fl & 1) ss.setf (std::ios::showpos); if (fl & 2) ss.setf (std::ios::scientific, std::ios::floatfield); if (fl & 4) ss.setf (std::ios::uppercase); if (fl & 8) ss.setf (std::ios::showpoint); std::vector< std::vector<double> > vals;
        for (unsigned i=0;i<k;i++) { std::string kind = a.next(); kinds.push_back (kind); std::vector<double> v; unsigned n = kind == "d3" ? 3 : kind == "s" ? 4 : kind == "c2" ? 4 : kind == "e" ? 2 : 4;
          for (unsigned j=0;j<n;j++) v.push_back (rd (a.next())); vals.push_back (v); if (i) ss << sep;
          if (kind == "d3") ss << Vector<3,double> (v[0], v[1], v[2]); else if (kind == "s") ss << Stokes<double> (v[0], v[1], v[2], v[3]);
          else if (kind == "c2") ss << Vector<2, std::complex<double> > (std::complex<double> (v[0], v[1]), std::complex<double> (v[2], v[3]));
          else if (kind == "e") ss << Estimate<double> (v[0], v[1]);
          else if (kind == "se") ss << Stokes< Estimate<double> > (Estimate<double> (v[0], 1.0), Estimate<double> (v[1], 4.0), Estimate<double> (v[2], 0.25), Estimate<double> (v[3], 16.0));
          else throw std::runtime_error ("protocol:kind"); }
        unsigned bad = 0, failed = 0;
        for (unsigned i=0;i<k;i++) { const std::vector<double>& v = vals[i]; const std::string& kind = kinds[i];
          auto same = [] (double x, double y) { return memcmp (&x, &y, 8) == 0 || (x == 0 && y == 0); };
          if (kind == "d3") { Vector<3,double> d (SV, SV, SV); ss >> d; for (unsigned j=0;j<3;j++) if (!same (d[j], v[j])) bad++; }
          else if (kind == "s") { Stokes<double> d (SV, SV, SV, SV); ss >> d; for (unsigned j=0;j<4;j++) if (!same (d[j], v[j])) bad++; }
          else if (kind == "c2") { Vector<2, std::complex<double> > d; ss >> d; if (!same (d[0].real(), v[0]) || !same (d[0].imag(), v[1]) || !same (d[1].real(), v[2]) || !same (d[1].imag(), v[3])) bad++; }
          else if (kind == "e") { Estimate<double> d (SV, SVAR); ss >> d; if (!same (d.get_value(), v[0])) bad++; }
          else if (kind == "se") { Stokes< Estimate<double> > d; ss >> d; for (unsigned j=0;j<4;j++) if (!same (d[j].get_value(), v[j])) bad++; }
          if (ss.fail()) failed = 1; }
        o = " " + std::to_string (bad) + " " + std::to_string (failed); }
      // oracle: a stream that has failed stays failed, and extraction from a failed stream changes nothing.
      //  pair text: `ss >> a >> b`; when the first extraction fails, b keeps its value and the stream is still failed
      //  pre text:  failbit set by the caller before the extraction of an Estimate, a Vector, a Stokes, a Vector of Estimate, a Basis
      //  vec3 / stokes text: a container of Estimate whose text has one malformed element (generated as such): the stream fails
      // Output: number of violations
      else if (op == "o.c19.afterfail") { std::string kind = a.next(); std::string text = dec (a.next()); unsigned bad = 0;
        auto unchanged = [] (const Estimate<double>& e) { return e.get_value() == SV && e.get_variance() == SVAR; };
        if (kind == "pair") { std::stringstream ss (text); Estimate<double> x (SV, SVAR), y (SV, SVAR); ss >> x; bool f1 = ss.fail(); ss >> y;
          if (f1) { if (!unchanged (y)) bad++; if (!ss.fail()) bad++; } }
        else if (kind == "pre") {
          { std::stringstream ss (text); ss.setstate (std::ios::failbit); Estimate<double> e (SV, SVAR); ss >> e; if (!unchanged (e)) bad++; if (!ss.fail()) bad++; }
          { std::stringstream ss (text); ss.setstate (std::ios::failbit); Vector<2,double> v (SV, SV); ss >> v; if (v[0] != SV || v[1] != SV) bad++; if (!ss.fail()) bad++; }
          { std::stringstream ss (text); ss.setstate (std::ios::failbit); Stokes<double> v (SV, SV, SV, SV); ss >> v; if (v[0] != SV || v[3] != SV) bad++; if (!ss.fail()) bad++; }
          { std::stringstream ss (text); ss.setstate (std::ios::failbit); Vector<2, Estimate<double> > v; v[0] = v[1] = Estimate<double> (SV, SVAR); ss >> v; if (!unchanged (v[0]) || !unchanged (v[1])) bad++; if (!ss.fail()) bad++; }
          { std::stringstream ss (text); ss.setstate (std::ios::failbit); Signal::Basis b = Signal::Circular; ss >> b; if (b != Signal::Circular) bad++; if (!ss.fail()) bad++; } }
        else if (kind == "vec3") { std::stringstream ss (text); Vector<3, Estimate<double> > v; ss >> v; if (!ss.fail()) bad++; }
        else if (kind == "stokes") { std::stringstream ss (text); Stokes< Estimate<double> > v; ss >> v; if (!ss.fail()) bad++; }
        else throw std::runtime_error ("protocol:kind");
        o = " " + std::to_string (bad); }
      else { std::cout << "err unknown-op\n"; continue; }
      std::cout << "ok" << o << "\n";
    }
    catch (std::exception& e) { std::cout << "err throw:" << e.what() << "\n"; }
  } while (false);
}

int main ()
{
  const bool threaded = getenv ("EPSIC_HARNESS_THREAD") != 0;   // thread mode (the runner's thread pass): every line on a thread of its own
  std::string line;
  while (std::getline (std::cin, line)) {
    if (threaded) { std::thread th ([&]() { process (line); }); th.join (); }
    else process (line);
  }
  return 0;
}
