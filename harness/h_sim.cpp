// Harness driver, group "sim" (properties C01 C05 C06 C07 C08): the Monte-Carlo simulator library
// (mode, sample, modulated, covariant, superposed/composite/disjoint/coherent) with every random
// source replaced at link time by scripted queues: BoxMuller::evaluate, drand48, random are defined
// here, so the library consumes exactly the deviates an operation line supplies.
// All values are IEEE doubles written as 16-hex-digit bit patterns.
#include <thread>
#include <cstdlib>
#include <cstring>
#include <cstdio>
#include <cmath>
#include <string>
#include <map>
#include <vector>
#include <deque>
#include <sstream>
#include <iostream>
#include <functional>
#include <stdexcept>
#include <algorithm>
#include "mode.h"
#include "modulated.h"
#include "smoothed.h"
#include "sample.h"
#include "covariant.h"
#include "Pauli.h"

// ---------------------------------------------------------------- scripted random sources
static std::deque<float> g_normal;     // consumed by BoxMuller::evaluate
static std::deque<double> g_uniform;   // consumed by drand48
static std::deque<long> g_random;      // consumed by random
static bool g_cycle = false;           // cycling mode: never exhausted (used when only calls are counted)
static unsigned long g_normal_calls = 0, g_uniform_calls = 0, g_random_calls = 0;
struct Exhausted : std::runtime_error { Exhausted(const char* w) : std::runtime_error(w) {} };

BoxMuller::BoxMuller (long) { have_one_ready = false; one_ready = 0; }
float BoxMuller::evaluate ()
{
  g_normal_calls++;
  if (g_normal.empty()) { if (g_cycle) return 0.5f; throw Exhausted ("normal-deviates-exhausted"); }
  float v = g_normal.front(); g_normal.pop_front(); if (g_cycle) g_normal.push_back (v); return v;
}
extern "C" double drand48 (void) noexcept
{
  g_uniform_calls++;
  if (g_uniform.empty()) { if (g_cycle) return 0.25; throw Exhausted ("uniform-exhausted"); }
  double v = g_uniform.front(); g_uniform.pop_front(); return v;
}
extern "C" long random (void) noexcept
{
  g_random_calls++;
  if (g_random.empty()) { if (g_cycle) return RAND_MAX/3; throw Exhausted ("random-exhausted"); }
  long v = g_random.front(); g_random.pop_front(); return v;
}
extern "C" void srand48 (long) noexcept {}
extern "C" void srandom (unsigned) noexcept {}
static void reset_sources () { g_normal.clear(); g_uniform.clear(); g_random.clear(); g_cycle = false; g_normal_calls = g_uniform_calls = g_random_calls = 0; }

// ---------------------------------------------------------------- protocol
struct A_ {
  std::vector<std::string> tok; size_t pos = 0;
  bool done () const { return pos >= tok.size() || tok[pos][0] == '#'; }
  bool peek_is (const char* w) const { return pos < tok.size() && tok[pos] == w; }
  const std::string& next () { if (pos >= tok.size()) throw std::runtime_error("protocol:missing argument"); return tok[pos++]; }
  double d () { unsigned long long u = std::stoull (next(), 0, 16); double x; memcpy (&x, &u, 8); return x; }
  unsigned n () { return (unsigned) std::stoul (next()); }
  Stokes<double> stokes () { double a=d(); double b=d(); double c=d(); double e=d(); return Stokes<double>(a,b,c,e); }
};
struct O_ {
  std::ostringstream os;
  void put (double x) { unsigned long long u; memcpy (&u, &x, 8); char b[20]; snprintf (b, 20, " %016llx", u); os << b; }
  void put (std::complex<double> z) { put (z.real()); put (z.imag()); }
  void put (const Jones<double>& j) { put(j.j00); put(j.j01); put(j.j10); put(j.j11); }
  void put (const Spinor<double>& e) { put (e.x); put (e.y); }
  void puti (long n) { os << " " << n; }
  template<unsigned N> void put (const Vector<N,double>& v) { for (unsigned i=0;i<N;i++) put (v[i]); }
  template<unsigned R, unsigned C> void put (const Matrix<R,C,double>& m) { for (unsigned i=0;i<R;i++) for (unsigned j=0;j<C;j++) put (m[i][j]); }
};
typedef std::function<void(A_&, O_&)> Fn;
#define OP(name) ops[name] = [](A_& A, O_& O)

// ---------------------------------------------------------------- stub modes (C06)
// a mode whose per-instance (cross-)covariances are scripted: cov = cv * P, crosscov(lag) = x[lag] * P
static Matrix<4,4,double> pattern ()
{ Matrix<4,4,double> P; for (unsigned i=0;i<4;i++) for (unsigned j=0;j<4;j++) P[i][j] = 1.0 + 0.25*i + 0.0625*j + (i==j ? 1.0 : 0.0); return P; }
class stub_mode : public epsic::mode {
public:
  double cv = 1; std::vector<double> x; mutable unsigned long fields = 0; Spinor<double> field = Spinor<double>(std::complex<double>(1,0), std::complex<double>(0,0));
  Matrix<4,4,double> get_covariance () const { Matrix<4,4,double> P = pattern(); P *= cv; return P; }
  Matrix<4,4,double> get_crosscovariance (unsigned ilag) const
  { Matrix<4,4,double> P = pattern(); P *= (ilag < x.size() ? x[ilag] : 0.0); return P; }
  Spinor<double> get_field () { fields++; return field; }
};

// a modulation source with scripted values and declared mean / variance (C07)
class scripted_mod : public epsic::modulated_mode {
public:
  std::deque<double> values; double mu, var; unsigned long calls = 0;
  scripted_mod (epsic::mode* s, double m, double v) : modulated_mode (s), mu(m), var(v) {}
  double modulation () { calls++; if (values.empty()) throw Exhausted ("factors-exhausted"); double v = values.front(); values.pop_front(); return v; }
  double get_mod_mean () const { return mu; }
  double get_mod_variance () const { return var; }
};

// build a (possibly decorated) mode as the command-line program does: kind = plain | lognormal beta |
// boxcar beta w | square beta w n ; returns the top mode, `mod` receives the modulated_mode if any
static epsic::mode* make_mode (A_& A, const Stokes<double>& S, BoxMuller* bm, epsic::modulated_mode** modp = 0)
{
  std::string kind = A.next();
  epsic::mode* base = new epsic::mode; base->set_Stokes (S); base->set_normal (bm);
  epsic::modulated_mode* mod = 0; epsic::mode* top = base;
  if (kind == "plain") {}
  else if (kind == "lognormal") { double beta = A.d(); top = mod = new epsic::lognormal_mode (base, beta); }
  else if (kind == "boxcar") { double beta = A.d(); unsigned w = A.n(); epsic::modulated_mode* ln = new epsic::lognormal_mode (base, beta);
    top = mod = new epsic::boxcar_modulated_mode (ln, w); }
  else if (kind == "square") { double beta = A.d(); unsigned w = A.n(); unsigned n = A.n(); epsic::modulated_mode* ln = new epsic::lognormal_mode (base, beta);
    top = mod = new epsic::square_modulated_mode (ln, w, n); }
  else throw std::runtime_error ("protocol:mode kind");
  if (modp) *modp = mod;
  return top;
}

// ---------------------------------------------------------------- C05 helpers
static epsic::combination* make_dual (const std::string& kind, double f)
{
  if (kind == "superposed") return new epsic::superposed;
  if (kind == "composite") return new epsic::composite (f);
  if (kind == "disjoint") return new epsic::disjoint (f);
  if (kind == "coherent") return new epsic::coherent (f);
  throw std::runtime_error ("protocol:dual kind");
}
// a coordinator whose pair of factors is one of K scripted outcomes (selected by the oracle): any unit-mean joint law
class discrete_coord : public epsic::covariant_coordinator {
public:
  std::vector<double> a, b, p; unsigned current = 0; double ma = 0, mb = 0, va = 0, vb = 0, cab = 0;
  static double corr (const std::vector<double>& a, const std::vector<double>& b, const std::vector<double>& p)
  { long double ma=0,mb=0,saa=0,sbb=0,sab=0; for (size_t k=0;k<p.size();k++) { ma+=p[k]*a[k]; mb+=p[k]*b[k]; saa+=p[k]*a[k]*a[k]; sbb+=p[k]*b[k]*b[k]; sab+=p[k]*a[k]*b[k]; }
    long double va = saa-ma*ma, vb = sbb-mb*mb; return (va > 0 && vb > 0) ? (double)((sab-ma*mb)/sqrtl(va*vb)) : 0.0; }
  discrete_coord (const std::vector<double>& a_, const std::vector<double>& b_, const std::vector<double>& p_) : covariant_coordinator (corr (a_, b_, p_)), a(a_), b(b_), p(p_)
  { long double saa=0,sbb=0; for (size_t k=0;k<p.size();k++) { ma+=p[k]*a[k]; mb+=p[k]*b[k]; saa+=p[k]*a[k]*a[k]; sbb+=p[k]*b[k]*b[k]; } va = saa-ma*ma; vb = sbb-mb*mb; }
  void get_modulation (double& x, double& y) { x = a[current]; y = b[current]; }
  double get_mod_mean (unsigned i) const { return i ? mb : ma; }
  double get_mod_variance (unsigned i) const { return i ? vb : va; }
};
// a modulation factor with K discrete values v_k of probabilities p_k; the oracle selects the current value
struct point_mod : public epsic::modulated_mode { std::vector<double> v, p; unsigned current = 0; unsigned long calls = 0; double mu = 0, var = 0;
  point_mod (epsic::mode* s, const std::vector<double>& v_, const std::vector<double>& p_) : modulated_mode (s), v(v_), p(p_)
  { long double m = 0, q = 0; for (size_t k=0;k<v.size();k++) { m += p[k]*v[k]; q += p[k]*v[k]*v[k]; } mu = m; var = q - m*m; }
  double modulation () { calls++; return v[current]; } double get_mod_mean () const { return mu; } double get_mod_variance () const { return var; } };
struct Moments { long double mean[4] = {0,0,0,0}; long double sec[4][4] = {{0}}; bool finite = true; };
// product cubature over `ndev` normal deviates: nodes 0,+-1,+-2 with weights 1/2,1/6,1/12 (exact for degree <= 5 in each deviate)
template<class F> static void cubature (unsigned ndev, long double weight, Moments& M, F sample)
{
  static const float node[5] = { 0, 1, -1, 2, -2 }; static const long double wt[5] = { 0.5L, 1.0L/6, 1.0L/6, 1.0L/12, 1.0L/12 };
  std::vector<unsigned> idx (ndev, 0);
  while (true) {
    long double w = weight; g_normal.clear(); for (unsigned d=0; d<ndev; d++) { g_normal.push_back (node[idx[d]]); w *= wt[idx[d]]; }
    Stokes<double> st = sample();
    for (int i=0;i<4;i++) { M.finite = M.finite && std::isfinite (st[i]); M.mean[i] += w*st[i]; for (int j=0;j<4;j++) M.sec[i][j] += w*(long double)st[i]*st[j]; }
    unsigned d = 0; while (d < ndev && ++idx[d] == 5) { idx[d] = 0; d++; }
    if (d == ndev) break;
  }
}
static void report (O_& O, const Moments& M, const Vector<4,double>& pm, const Matrix<4,4,double>& pc, double I)
{
  long double scale = std::max ((long double) std::fabs (I), 1e-300L), e1 = 0, e2 = 0; bool finite = M.finite;
  for (int i=0;i<4;i++) { finite = finite && std::isfinite (pm[i]); e1 = std::max (e1, fabsl (M.mean[i] - pm[i]) / scale);
    for (int j=0;j<4;j++) { finite = finite && std::isfinite (pc[i][j]); e2 = std::max (e2, fabsl (M.sec[i][j] - M.mean[i]*M.mean[j] - pc[i][j]) / (scale*scale)); } }
  O.puti (finite ? 1 : 0); O.put ((double) e1); O.put ((double) e2);
}

static BoxMuller g_bm (0);
// modes with static storage duration, defined in the harness translation unit (which precedes the library on the link line): they
// are constructed before main and before the library's own dynamic initialisers, and are never configured afterwards
static epsic::mode g_early_mode;
struct early_aggregate { int tag; epsic::mode member; early_aggregate () : tag (7) {} };
static early_aggregate g_early_aggregate;

int main ()
{
  std::map<std::string, Fn> ops;

  // ------------------------------------------------------------ C01: a single mode
  OP("md.polarizer") { Stokes<double> S = A.stokes(); epsic::mode m; m.set_Stokes (S); O.put (m.get_polarizer()); };
  OP("md.field") { Stokes<double> S = A.stokes(); for (int i=0;i<4;i++) g_normal.push_back ((float) A.d());
    epsic::mode m; m.set_Stokes (S); m.set_normal (&g_bm); Spinor<double> e = m.get_field(); O.put (e);
    Vector<4,double> st; compute_stokes (st, e); O.put (st); O.puti (g_normal_calls); };
  OP("md.theory") { Stokes<double> S = A.stokes(); epsic::mode m; m.set_Stokes (S);
    O.put (Vector<4,double>(m.get_mean())); O.put (m.get_covariance()); O.put (m.get_crosscovariance(0)); O.put (m.get_crosscovariance(1)); O.put (m.get_crosscovariance(7)); };
  // oracle: exact Gaussian ensemble moments of the generated Stokes parameters by product cubature through the deviate source
  // (nodes 0,±1,±2 with weights 1/2,1/6,1/12: exact for polynomials of degree <= 5 per deviate; Stokes products are of degree 4)
  OP("o.c01.moments") { std::string which = A.peek_is ("early") ? A.next() : std::string ("local"); unsigned sel = which == "early" ? A.n() : 0;
    epsic::mode local; epsic::mode* heap = 0; if (which == "early" && sel == 2) heap = new epsic::mode;
    epsic::mode& m = (which == "early") ? (sel == 0 ? g_early_mode : sel == 1 ? g_early_aggregate.member : *heap) : local;
    Stokes<double> S = (which == "early") ? Stokes<double> (1.0) : A.stokes();     // a mode that was never configured describes unit unpolarised intensity
    if (which != "early") m.set_Stokes (S); m.set_normal (&g_bm);
    static const float node[5] = { 0, 1, -1, 2, -2 }; static const long double wt[5] = { 0.5L, 1.0L/6, 1.0L/6, 1.0L/12, 1.0L/12 };
    long double mean[4] = {0,0,0,0}, sec[4][4]; for (int i=0;i<4;i++) for (int j=0;j<4;j++) sec[i][j] = 0; bool finite = true;
    for (int a=0;a<5;a++) for (int b=0;b<5;b++) for (int c=0;c<5;c++) for (int d=0;d<5;d++) {
      g_normal.push_back (node[a]); g_normal.push_back (node[b]); g_normal.push_back (node[c]); g_normal.push_back (node[d]);
      Spinor<double> e = m.get_field(); Vector<4,double> st; compute_stokes (st, e); long double w = wt[a]*wt[b]*wt[c]*wt[d];
      for (int i=0;i<4;i++) { finite = finite && std::isfinite (st[i]); mean[i] += w*st[i]; for (int j=0;j<4;j++) sec[i][j] += w*(long double)st[i]*st[j]; } }
    Stokes<double> em = m.get_mean(); Matrix<4,4,double> ec = m.get_covariance(); long double scale = std::max ((long double) fabs (S[0]), 1e-300L);
    long double e1 = 0, e2 = 0, e3 = 0;
    for (int i=0;i<4;i++) { e1 = std::max (e1, fabsl (mean[i] - em[i]) / scale); e3 = std::max (e3, fabsl (em[i] - (long double)S[i]) / scale);
      for (int j=0;j<4;j++) e2 = std::max (e2, fabsl (sec[i][j] - mean[i]*mean[j] - ec[i][j]) / (scale*scale)); }
    Matrix<4,4,double> x0 = m.get_crosscovariance(0), x1 = m.get_crosscovariance(1), x9 = m.get_crosscovariance(9); long double e4 = 0;
    for (int i=0;i<4;i++) for (int j=0;j<4;j++) e4 = std::max (e4, std::max (fabsl (x0[i][j]-ec[i][j]), std::max (fabsl ((long double)x1[i][j]), fabsl ((long double)x9[i][j]))) / (scale*scale));
    O.puti (finite ? 1 : 0); O.put ((double) e1); O.put ((double) e2); O.put ((double) e3); O.put ((double) e4); };

  // oracle: in ANY polarization basis (process-wide setting) the ensemble coherency matrix <e e^dagger> of the generated fields is the
  // coherency matrix convert(S) of the requested Stokes parameters, and coherency(<e e^dagger>) gives them back
  // (a history on ONE mode object: for each step the basis is set, then set_Stokes is called, then the ensemble is checked)
  OP("o.c01.basis") { unsigned steps = 1; std::string first = A.next(); if (first == "seq") { steps = A.n(); first = A.next(); }
    epsic::mode m; m.set_normal (&g_bm); bool finite = true; long double e1 = 0, e2 = 0, e3 = 0;
    static const float node[5] = { 0, 1, -1, 2, -2 }; static const long double wt[5] = { 0.5L, 1.0L/6, 1.0L/6, 1.0L/12, 1.0L/12 };
    for (unsigned st=0; st<steps; st++) { std::string b = st ? A.next() : first;
      if (b == "cir") Pauli::basis().set_basis (Signal::Circular); else if (b == "lin") Pauli::basis().set_basis (Signal::Linear);
      else if (b == "ell") { double o = A.d(); double e = A.d(); Pauli::basis().set_basis (o, e); } else throw std::runtime_error ("protocol:basis");
      Stokes<double> S = A.stokes(); m.set_Stokes (S);
      std::complex<long double> r00 = 0, r01 = 0, r10 = 0, r11 = 0;
      for (int a=0;a<5;a++) for (int bb=0;bb<5;bb++) for (int c=0;c<5;c++) for (int d=0;d<5;d++) {
        g_normal.push_back (node[a]); g_normal.push_back (node[bb]); g_normal.push_back (node[c]); g_normal.push_back (node[d]);
        Spinor<double> e = m.get_field(); long double w = wt[a]*wt[bb]*wt[c]*wt[d];
        std::complex<long double> x (e.x.real(), e.x.imag()), y (e.y.real(), e.y.imag()); finite = finite && std::isfinite (e.x.real()) && std::isfinite (e.y.imag());
        r00 += w * x * std::conj (x); r01 += w * x * std::conj (y); r10 += w * y * std::conj (x); r11 += w * y * std::conj (y); }
      Jones<double> want = convert (S); long double scale = std::max ((long double) std::fabs (S[0]), 1e-300L);
      e1 = std::max (e1, std::max (std::max (std::abs (r00 - std::complex<long double>(want.j00)), std::abs (r01 - std::complex<long double>(want.j01))),
                               std::max (std::abs (r10 - std::complex<long double>(want.j10)), std::abs (r11 - std::complex<long double>(want.j11)))) / scale);
      Jones<double> rho (std::complex<double>((double) r00.real(), (double) r00.imag()), std::complex<double>((double) r01.real(), (double) r01.imag()),
                         std::complex<double>((double) r10.real(), (double) r10.imag()), std::complex<double>((double) r11.real(), (double) r11.imag()));
      Stokes<double> back = coherency (rho); for (int i=0;i<4;i++) e2 = std::max (e2, fabsl ((long double) back[i] - S[i]) / scale);
      // what the mode reports after this step is what a fresh mode given the same vector reports
      epsic::mode fresh; fresh.set_Stokes (S); Stokes<double> rm = m.get_mean(), fm = fresh.get_mean(); Matrix<4,4,double> rc = m.get_covariance(), fc = fresh.get_covariance();
      for (int i=0;i<4;i++) { e3 = std::max (e3, std::max (fabsl ((long double) rm[i] - S[i]), fabsl ((long double) rm[i] - fm[i])) / scale);
        for (int j=0;j<4;j++) e3 = std::max (e3, fabsl ((long double) rc[i][j] - fc[i][j]) / (scale*scale)); } }
    O.puti (finite ? 1 : 0); O.put ((double) e1); O.put ((double) e2); O.put ((double) e3); };

  // oracle: the reported cross-covariance of a (possibly decorated) mode at lags far beyond any correlation length, up to the
  // largest value the unsigned lag can take: zero for every non-zero lag, the covariance at lag 0.  Output: max |entry| over
  // the lags tried (relative to the intensity squared), max |xcov(0) - cov|
  OP("o.c01.lags") { Stokes<double> S = A.stokes(); epsic::mode* m = make_mode (A, S, &g_bm); epsic::mode* base = m;
    static const unsigned lags[] = { 1000u, 65535u, 65536u, 65537u, 1000000u, 16777217u, 2147483647u, 2147483648u, 2147483649u, 3000000000u, 4294967295u };
    long double worst = 0, scale = std::max ((long double) S[0]*S[0], 1e-300L);
    for (unsigned l : lags) { Matrix<4,4,double> x = base->get_crosscovariance (l); for (int i=0;i<4;i++) for (int j=0;j<4;j++) worst = std::max (worst, fabsl ((long double) x[i][j]) / scale); }
    Matrix<4,4,double> x0 = base->get_crosscovariance (0), c = base->get_covariance(); long double e0 = 0; for (int i=0;i<4;i++) for (int j=0;j<4;j++) e0 = std::max (e0, fabsl ((long double) x0[i][j] - c[i][j]) / scale);
    O.put ((double) worst); O.put ((double) e0); };

  // ------------------------------------------------------------ C06: sample means
  OP("sm.cov") { unsigned n = A.n(); stub_mode s; s.cv = A.d(); unsigned k = A.n(); for (unsigned i=0;i<k;i++) s.x.push_back (A.d());
    epsic::single smp (new epsic::mode); O.put (smp.sample::get_covariance (&s, n)); };
  OP("sm.xcov") { unsigned n = A.n(); unsigned lag = A.n(); stub_mode s; s.cv = A.d(); unsigned k = A.n(); for (unsigned i=0;i<k;i++) s.x.push_back (A.d());
    epsic::single smp (new epsic::mode); O.put (smp.sample::get_crosscovariance (&s, lag, n)); };
  // a single sample over a stub: number of instances consumed by get_Stokes, mean, lag-0 cross-covariance vs covariance
  OP("sm.single") { unsigned n = A.n(); stub_mode* s = new stub_mode; s->cv = A.d(); unsigned k = A.n(); for (unsigned i=0;i<k;i++) s->x.push_back (A.d());
    epsic::single smp (s); smp.sample_size = n; Stokes<double> st = smp.get_Stokes(); O.puti (s->fields); O.put (Vector<4,double>(st));
    O.put (smp.get_covariance()); O.put (smp.get_crosscovariance(0)); O.put (smp.get_crosscovariance(1)); };
  // oracle: predicted (cross-)covariance of the sample mean equals the brute-force double sum of the mode's own per-instance
  // cross-covariances / n^2, for every real mode type; lag-0 cross-covariance equals the covariance; exactly n instances are drawn
  OP("o.c06.sums") { unsigned n = A.n(); unsigned lag = A.n(); Stokes<double> S = A.stokes(); epsic::mode* m = make_mode (A, S, &g_bm);
    epsic::single smp (m); smp.sample_size = n;
    Matrix<4,4,double> cov = smp.get_covariance(), xc = smp.get_crosscovariance (lag), x0 = smp.get_crosscovariance (0);
    long double scale = 1e-300L; Matrix<4,4,double> c1 = m->get_covariance(); for (int i=0;i<4;i++) for (int j=0;j<4;j++) scale = std::max (scale, fabsl ((long double)c1[i][j]));
    long double e1 = 0, e2 = 0, e3 = 0; bool finite = true;
    for (int i=0;i<4;i++) for (int j=0;j<4;j++) {
      long double sc = 0, sx = 0;
      for (unsigned a=0;a<n;a++) for (unsigned b=0;b<n;b++) {
        unsigned l0 = (a > b) ? a-b : b-a; sc += (l0 == 0) ? (long double) m->get_covariance()[i][j] : (long double) m->get_crosscovariance (l0)[i][j];
        unsigned l1 = (lag*n + a > b) ? lag*n + a - b : b - (lag*n + a); sx += (long double) m->get_crosscovariance (l1)[i][j]; }
      sc /= (long double)n*n; sx /= (long double)n*n;
      finite = finite && std::isfinite (cov[i][j]) && std::isfinite (xc[i][j]);
      e1 = std::max (e1, fabsl (cov[i][j] - sc) / scale); e2 = std::max (e2, fabsl (xc[i][j] - sx) / scale); e3 = std::max (e3, fabsl ((long double)x0[i][j] - cov[i][j]) / scale); }
    g_cycle = true; g_normal.push_back (0.5f); g_normal.push_back (-0.25f); g_normal.push_back (1.0f);
    stub_mode* cs = new stub_mode; cs->cv = 1; epsic::single counter (cs); counter.sample_size = n; counter.get_Stokes();
    Vector<4,double> mean = smp.get_mean(); Stokes<double> mm = m->get_mean(); long double e4 = 0; for (int i=0;i<4;i++) e4 = std::max (e4, fabsl ((long double)mean[i] - mm[i]));
    O.puti (finite ? 1 : 0); O.puti (cs->fields == n ? 1 : 0); O.put ((double) e1); O.put ((double) e2); O.put ((double) e3); O.put ((double) e4); };


  // oracle: the workers are driven by what the mode REPORTS through its virtual functions, whatever its dynamic type: user
  // classes derived from each concrete mode class of the library that redefine get_covariance / get_crosscovariance with an
  // arbitrary sequence (kind 0: mode, 1: lognormal_mode, 2: boxcar_modulated_mode, 3: square_modulated_mode, 4: modulated_mode
  // via scripted_mod, 5: boxcar_mode), against the brute-force double sums.  Output: max relative errors
  OP("o.c06.derived") { unsigned kind = A.n(); unsigned n = A.n(); unsigned lag = A.n(); double cv = A.d(); unsigned k = A.n(); std::vector<double> xs; for (unsigned i=0;i<k;i++) xs.push_back (A.d());
    struct reports { double cv; std::vector<double> x;
      Matrix<4,4,double> cov () const { Matrix<4,4,double> P = pattern(); P *= cv; return P; }
      Matrix<4,4,double> xcov (unsigned l) const { Matrix<4,4,double> P = pattern(); P *= (l < x.size() ? x[l] : 0.0); return P; } } R { cv, xs };
    struct d_ln : epsic::lognormal_mode { const reports* r; d_ln (epsic::mode* s, const reports* q) : lognormal_mode (s, 0.7), r (q) {}
      Matrix<4,4,double> get_covariance () const { return r->cov(); } Matrix<4,4,double> get_crosscovariance (unsigned l) const { return r->xcov (l); } };
    struct d_bx : epsic::boxcar_modulated_mode { const reports* r; d_bx (epsic::modulated_mode* s, const reports* q) : boxcar_modulated_mode (s, 3), r (q) {}
      Matrix<4,4,double> get_covariance () const { return r->cov(); } Matrix<4,4,double> get_crosscovariance (unsigned l) const { return r->xcov (l); } };
    struct d_sq : epsic::square_modulated_mode { const reports* r; d_sq (epsic::modulated_mode* s, const reports* q) : square_modulated_mode (s, 3, 5), r (q) {}
      Matrix<4,4,double> get_covariance () const { return r->cov(); } Matrix<4,4,double> get_crosscovariance (unsigned l) const { return r->xcov (l); } };
    struct d_sm : scripted_mod { const reports* r; d_sm (epsic::mode* s, const reports* q) : scripted_mod (s, 1.0, 0.5), r (q) {}
      Matrix<4,4,double> get_covariance () const { return r->cov(); } Matrix<4,4,double> get_crosscovariance (unsigned l) const { return r->xcov (l); } };
    struct d_bm : epsic::boxcar_mode { const reports* r; d_bm (epsic::mode* s, const reports* q) : boxcar_mode (s, 3), r (q) {}
      Matrix<4,4,double> get_covariance () const { return r->cov(); } Matrix<4,4,double> get_crosscovariance (unsigned l) const { return r->xcov (l); } };
    epsic::mode* base = new epsic::mode; epsic::lognormal_mode* ln = new epsic::lognormal_mode (new epsic::mode, 0.5); epsic::mode* m = 0;
    stub_mode* st = new stub_mode; st->cv = cv; st->x = xs;
    switch (kind) { case 0: m = st; break; case 1: m = new d_ln (base, &R); break; case 2: m = new d_bx (ln, &R); break; case 3: m = new d_sq (ln, &R); break;
      case 4: m = new d_sm (base, &R); break; case 5: m = new d_bm (base, &R); break; default: throw std::runtime_error ("protocol:kind"); }
    epsic::single smp (new epsic::mode); smp.sample_size = n;
    Matrix<4,4,double> cov = smp.sample::get_covariance (m, n), xc = smp.sample::get_crosscovariance (m, lag, n);
    epsic::single own (m); own.sample_size = n; Matrix<4,4,double> cov2 = own.get_covariance(), xc2 = own.get_crosscovariance (lag);
    long double e1 = 0, e2 = 0, scale = std::max ((long double) 1e-300L, fabsl ((long double) R.cov()[0][0]));
    for (unsigned l=0;l<xs.size();l++) scale = std::max (scale, fabsl ((long double) R.xcov(l)[0][0]));
    for (int i=0;i<4;i++) for (int j=0;j<4;j++) { long double sc = 0, sx = 0;
      for (unsigned a=0;a<n;a++) for (unsigned b=0;b<n;b++) {
        unsigned l0 = (a > b) ? a-b : b-a; sc += (l0 == 0) ? (long double) R.cov()[i][j] : (long double) R.xcov (l0)[i][j];
        unsigned l1 = (lag*n + a > b) ? lag*n + a - b : b - (lag*n + a); sx += (long double) R.xcov (l1)[i][j]; }
      sc /= (long double)n*n; sx /= (long double)n*n;
      e1 = std::max (e1, std::max (fabsl (cov[i][j] - sc), fabsl (cov2[i][j] - sc)) / scale); e2 = std::max (e2, std::max (fabsl (xc[i][j] - sx), fabsl (xc2[i][j] - sx)) / scale); }
    O.put ((double) e1); O.put ((double) e2); };
  // oracle (history): ONE single sample over ONE rectangular-modulated log-normal mode, queried again and again while the
  // sample size changes and public functions that change the per-instance statistics are called in between (mut 1:
  // compute_cross_correlation for the new sample size, which changes every lag from 1 to the width and leaves the covariance
  // alone; mut 2: set_beta on the inner model; mut 0: nothing).  After every step the predicted covariance and cross-covariance
  // of the sample mean must equal the brute-force double sums of what the mode reports NOW.  Output: max relative errors
  OP("o.c06.rehistory") { Stokes<double> S = A.stokes(); double beta = A.d(); unsigned w = A.n(); unsigned n0 = A.n(); unsigned steps = A.n();
    epsic::mode* base = new epsic::mode; base->set_Stokes (S); epsic::lognormal_mode* ln = new epsic::lognormal_mode (base, beta);
    epsic::square_modulated_mode* sq = new epsic::square_modulated_mode (ln, w, n0); epsic::mode* m = sq;
    epsic::single smp (m); smp.sample_size = n0; long double e1 = 0, e2 = 0;
    for (unsigned st=0; st<=steps; st++) { unsigned n = n0, lag = 1;
      if (st) { n = A.n(); lag = A.n(); unsigned mut = A.n(); smp.sample_size = n; if (mut == 1) sq->compute_cross_correlation (n); else if (mut == 2) ln->set_beta (A.d()); }
      Matrix<4,4,double> cov = smp.get_covariance(), xc = smp.get_crosscovariance (lag);
      long double scale = 1e-300L; Matrix<4,4,double> c1 = m->get_covariance(); for (int i=0;i<4;i++) for (int j=0;j<4;j++) scale = std::max (scale, fabsl ((long double)c1[i][j]));
      for (int i=0;i<4;i++) for (int j=0;j<4;j++) { long double sc = 0, sx = 0;
        for (unsigned a=0;a<n;a++) for (unsigned b=0;b<n;b++) {
          unsigned l0 = (a > b) ? a-b : b-a; sc += (l0 == 0) ? (long double) m->get_covariance()[i][j] : (long double) m->get_crosscovariance (l0)[i][j];
          unsigned l1 = (lag*n + a > b) ? lag*n + a - b : b - (lag*n + a); sx += (long double) m->get_crosscovariance (l1)[i][j]; }
        sc /= (long double)n*n; sx /= (long double)n*n;
        long double d1 = fabsl (cov[i][j] - sc) / scale, d2 = fabsl (xc[i][j] - sx) / scale; if (!(d1 == d1)) d1 = 1e300L; if (!(d2 == d2)) d2 = 1e300L;
        e1 = std::max (e1, d1); e2 = std::max (e2, d2); } }
    O.put ((double) e1); O.put ((double) e2); };
  // oracle: the workers sample::get_covariance (mode, n) / get_crosscovariance (mode, lag, n), called on an object whose own
  // sample_size is m (as composite does with n_A, n_B), against the brute-force double sums for n.  Output: max relative errors
  OP("o.c06.worker") { unsigned n = A.n(); unsigned m = A.n(); unsigned lag = A.n(); stub_mode s; s.cv = A.d(); unsigned k = A.n(); for (unsigned i=0;i<k;i++) s.x.push_back (A.d());
    epsic::single smp (new epsic::mode); smp.sample_size = m;
    Matrix<4,4,double> cov = smp.sample::get_covariance (&s, n), xc = smp.sample::get_crosscovariance (&s, lag, n);
    long double e1 = 0, e2 = 0, scale = 1e-300L; Matrix<4,4,double> c1 = s.get_covariance(); for (int i=0;i<4;i++) for (int j=0;j<4;j++) scale = std::max (scale, fabsl ((long double)c1[i][j]));
    for (unsigned l=0;l<s.x.size();l++) scale = std::max (scale, fabsl ((long double) s.get_crosscovariance(l)[0][0]));
    for (int i=0;i<4;i++) for (int j=0;j<4;j++) { long double sc = 0, sx = 0;
      for (unsigned a=0;a<n;a++) for (unsigned b=0;b<n;b++) {
        unsigned l0 = (a > b) ? a-b : b-a; sc += (l0 == 0) ? (long double) s.get_covariance()[i][j] : (long double) s.get_crosscovariance (l0)[i][j];
        unsigned l1 = (lag*n + a > b) ? lag*n + a - b : b - (lag*n + a); sx += (long double) s.get_crosscovariance (l1)[i][j]; }
      sc /= (long double)n*n; sx /= (long double)n*n;
      e1 = std::max (e1, fabsl (cov[i][j] - sc) / scale); e2 = std::max (e2, fabsl (xc[i][j] - sx) / scale); }
    O.put ((double) e1); O.put ((double) e2); };

  // oracle: post-detection boxcar sample over a constant-field stub: every generated sample equals the stub's Stokes
  // parameters (a running mean of identical instances), the first sample primes smooth-1 instances and every sample draws n
  OP("o.c06.boxcarsample") { unsigned smooth = A.n(); unsigned n = A.n(); unsigned k = A.n(); stub_mode* s = new stub_mode; s->cv = 1;
    epsic::boxcar_sample smp (s, smooth); smp.sample_size = n; long bad_value = 0, bad_count = 0;
    for (unsigned t=1; t<=k; t++) { Stokes<double> st = smp.get_Stokes();
      if (!(std::fabs (st[0] - 1.0) < 1e-14 && std::fabs (st[1] - 1.0) < 1e-14 && st[2] == 0 && st[3] == 0)) bad_value++;
      if (s->fields != (unsigned long)(smooth - 1) + (unsigned long) n * t) bad_count++; }
    Vector<4,double> mean = smp.get_mean(); O.put ((double) bad_value); O.put ((double) bad_count); };

  // ------------------------------------------------------------ C07: amplitude modulation
  // a sequence of modulation factors from scripted deviates
  OP("mod.seq") { Stokes<double> S (1,0,0,0); epsic::modulated_mode* mod = 0; make_mode (A, S, &g_bm, &mod); unsigned m = A.n();
    while (!A.done()) g_normal.push_back ((float) A.d());
    for (unsigned i=0;i<m;i++) O.put (mod->modulation()); O.puti (g_normal_calls); };
  // reported statistics of a modulated mode
  OP("mod.stats") { Stokes<double> S = A.stokes(); epsic::modulated_mode* mod = 0; epsic::mode* top = make_mode (A, S, &g_bm, &mod); unsigned L = A.n();
    O.put (mod->get_mod_mean()); O.put (mod->get_mod_variance()); O.put (Vector<4,double>(top->get_mean())); O.put (top->get_covariance());
    for (unsigned l=0;l<=L;l++) O.put (top->get_crosscovariance(l)); };
  // modulating a field multiplies its Stokes parameters by the factor
  OP("mod.transform") { double m = A.d(); std::complex<double> x (A.d(), 0); x = std::complex<double>(x.real(), A.d()); double yr = A.d(); double yi = A.d();
    Spinor<double> e (x, std::complex<double>(yr, yi)); epsic::mode base; scripted_mod sm (&base, 1, 0); sm.values.push_back (m);
    Spinor<double> t = sm.transform (e); O.put (t);
    Vector<4,double> s0, s1; compute_stokes (s0, e); compute_stokes (s1, t); double worst = 0;
    for (int i=0;i<4;i++) worst = std::max (worst, std::fabs (s1[i] - m*s0[i]) / std::max (std::fabs (m*s0[0]), 1e-300)); O.put (worst); };
  // oracle: a mode modulated by a discrete factor of ANY mean: exact ensemble mean and covariance of the generated Stokes
  // parameters (cubature over the 4 field deviates x enumeration of the factor) against get_mean / get_covariance
  OP("o.c07.modcov") { Stokes<double> S = A.stokes(); unsigned K = A.n(); std::vector<double> v, p; for (unsigned k=0;k<K;k++) { v.push_back (A.d()); p.push_back (A.d()); }
    epsic::mode* base = new epsic::mode; base->set_Stokes (S); base->set_normal (&g_bm); point_mod* pm = new point_mod (base, v, p);
    epsic::single smp (pm); smp.sample_size = 1; Moments M;
    for (unsigned k=0;k<K;k++) { pm->current = k; cubature (4, p[k], M, [&]() { return smp.get_Stokes(); }); }
    double vmax = 0; for (double x : v) vmax = std::max (vmax, std::fabs (x));
    report (O, M, smp.get_mean(), smp.get_covariance(), S[0] * std::max (vmax, 1.0)); };
  // oracle (linear filter): exact moments of the boxcar-smoothed factors for iid draws with the declared mean/variance,
  // from the impulse response of the real filter, against what the model reports.  Output: max |error| of mean, variance, lag terms
  OP("o.c07.boxcar") { unsigned w = A.n(); double mu = A.d(); double var = A.d(); unsigned steps = 3*w + 5; unsigned draws = w - 1 + steps;
    std::vector< std::vector<double> > coef (steps, std::vector<double>(draws, 0.0));
    for (unsigned p=0;p<draws;p++) { epsic::mode base; scripted_mod* sm = new scripted_mod (&base, mu, var);
      for (unsigned q=0;q<draws;q++) sm->values.push_back (q == p ? 1.0 : 0.0);
      epsic::boxcar_modulated_mode bx (sm, w); for (unsigned k=0;k<steps;k++) coef[k][p] = bx.modulation(); }
    epsic::mode base; base.set_Stokes (Stokes<double>(1,0,0,0)); scripted_mod* sm = new scripted_mod (&base, mu, var); epsic::boxcar_modulated_mode bx (sm, w);
    double e_mean = 0, e_var = 0, e_lag = 0;
    for (unsigned k=0;k<steps;k++) { double sc = 0, sq = 0; for (unsigned p=0;p<draws;p++) { sc += coef[k][p]; sq += coef[k][p]*coef[k][p]; }
      e_mean = std::max (e_mean, std::fabs (mu*sc - bx.get_mod_mean())); e_var = std::max (e_var, std::fabs (var*sq - bx.get_mod_variance()));
      for (unsigned l=1; l<=w+1 && k+l<steps; l++) { double cr = 0; for (unsigned p=0;p<draws;p++) cr += coef[k][p]*coef[k+l][p];
        double reported = bx.get_crosscovariance(l)[0][0];   // outer(S,S)[0][0] = 1 for S = (1,0,0,0)
        e_lag = std::max (e_lag, std::fabs (var*cr - reported)); } }
    O.put (e_mean); O.put (e_var); O.put (e_lag); };
  // oracle (sample and hold): exact same-block fractions over one full phase cycle against the reported lag correlations,
  // within a sample (lag < n) -- output: max |error| over lags, then the lag-0 term
  OP("o.c07.square") { unsigned w = A.n(); unsigned n = A.n(); epsic::mode base; base.set_Stokes (Stokes<double>(1,0,0,0));
    scripted_mod* sm = new scripted_mod (&base, 1.0, 1.0); epsic::square_modulated_mode sq (sm, w, n);
    // block index of every instance over one phase cycle: instance t belongs to block t / w ; samples are [s n, (s+1) n)
    unsigned long cycle = (unsigned long) w * n; double worst = 0;
    for (unsigned l=0; l<n && l<w+2; l++) { unsigned long same = 0, pairs = 0;
      for (unsigned long s=0; s<cycle/n*1; s++) for (unsigned i=0; i+l<n; i++) { unsigned long t = s*n + i; pairs++; if (t / w == (t + l) / w) same++; }
      double exact = pairs ? double(same)/pairs : 0; double reported = sq.get_crosscovariance(l)[0][0] / (l == 0 ? sq.get_covariance()[0][0] : 1.0);
      if (l == 0) exact = 1.0;
      worst = std::max (worst, std::fabs (exact - reported)); }
    O.put (worst); };
  // oracle (sample and hold across samples): the correlation between instance i of one sample and instance j of the next
  OP("o.c07.squarelag") { unsigned w = A.n(); unsigned n = A.n(); unsigned slag = A.n(); epsic::mode base; base.set_Stokes (Stokes<double>(1,0,0,0));
    scripted_mod* sm = new scripted_mod (&base, 1.0, 1.0); epsic::square_modulated_mode* sq = new epsic::square_modulated_mode (sm, w, n);
    epsic::single smp (sq); smp.sample_size = n; double reported = smp.get_crosscovariance (slag)[0][0];
    unsigned long cycle = (unsigned long) w * n; long double acc = 0; unsigned long cnt = 0;
    for (unsigned long s=0; s<cycle/n; s++) { for (unsigned i=0;i<n;i++) for (unsigned j=0;j<n;j++) { unsigned long t1 = s*n + i, t2 = (s+slag)*n + j; if (t1 / w == t2 / w) acc += 1; } cnt++; }
    long double exact = acc / cnt / ((long double)n*n);      // modulation variance 1, outer(S,S)[0][0] = 1
    if (slag == 0) { long double fieldterm = 0.5L * 2.0L / n; exact += fieldterm; }   // (mu^2+var) C00 / n with C00 = 1/2
    O.put ((double) fabsl (exact - reported)); };
  // oracle (history): re-configuring a live rectangular-impulse model for another sample size must give the table of a freshly
  // constructed model for that size.  Output: max |difference| of the lag terms
  OP("o.c07.retable") { unsigned w = A.n(); unsigned n1 = A.n(); unsigned n2 = A.n(); epsic::mode base; base.set_Stokes (Stokes<double>(1,0,0,0));
    scripted_mod* s1 = new scripted_mod (&base, 1.0, 1.0); scripted_mod* s2 = new scripted_mod (&base, 1.0, 1.0);
    epsic::square_modulated_mode live (s1, w, n1); live.compute_cross_correlation (n2); epsic::square_modulated_mode fresh (s2, w, n2);
    double worst = 0; for (unsigned l=0; l<w+1; l++) worst = std::max (worst, std::fabs (live.get_crosscovariance(l)[0][0] - fresh.get_crosscovariance(l)[0][0]));
    O.put (worst); };
  // oracle (history): the inner modulator of a rectangular model refuses a request (its scripted supply is exhausted: an exception)
  // when a new impulse is due; the caller catches, the supply is refilled, and the requests continue: the t-th factor delivered
  // is still draw floor(t/w).  Output: number of factors that differ from that rule, number of refusals that did not throw
  OP("o.c07.refusal") { unsigned w = A.n(); unsigned first = A.n(); unsigned total = A.n(); unsigned tries = A.n(); epsic::mode base; base.set_Stokes (Stokes<double>(1,0,0,0));
    scripted_mod* sm = new scripted_mod (&base, 1.0, 1.0); epsic::square_modulated_mode sq (sm, w, std::max (total, 2u));
    std::vector<double> draws; for (unsigned q=0; q<total/w + 3; q++) draws.push_back (1.0 + 0.125 * q);
    for (unsigned q=0; q<first && q<draws.size(); q++) sm->values.push_back (draws[q]);
    long bad = 0, silent = 0; unsigned delivered = 0; bool refilled = false;
    while (delivered < total) {
      try { double f = sq.modulation(); if (f != draws[delivered / w]) bad++; delivered++; }
      catch (Exhausted&) { if (refilled) { bad += 1000; break; }
        for (unsigned t=1; t<tries; t++) { try { sq.modulation(); silent++; } catch (Exhausted&) { } }     // further requests while the supply is still empty
        for (unsigned q=first; q<draws.size(); q++) sm->values.push_back (draws[q]); refilled = true; } }
    O.put ((double) bad); O.put ((double) silent); };
  // oracle (history): the modulation index of a log-normal modulator is changed after a smoothing / rectangular model has been
  // built on it (and used): every reported moment must be the one of a model freshly built on a modulator with the new index.
  // Output: max relative |difference| over mean, covariance and the lag terms 0..w
  OP("o.c07.rebeta") { std::string kind = A.next(); unsigned w = A.n(); unsigned n = A.n(); double b1 = A.d(); double b2 = A.d(); unsigned use = A.n();
    Stokes<double> S (2, 0.5, -0.25, 1); epsic::mode* base1 = new epsic::mode; base1->set_Stokes (S); epsic::mode* base2 = new epsic::mode; base2->set_Stokes (S);
    epsic::lognormal_mode* l1 = new epsic::lognormal_mode (base1, b1); epsic::lognormal_mode* l2 = new epsic::lognormal_mode (base2, b2);
    epsic::mode* live; epsic::mode* fresh;
    if (kind == "square") { live = new epsic::square_modulated_mode (l1, w, n); } else if (kind == "boxcar") { live = new epsic::boxcar_modulated_mode (l1, w); } else { live = l1; }
    if (use) { live->get_mean(); live->get_covariance(); for (unsigned l=0;l<=w;l++) live->get_crosscovariance (l); }
    l1->set_beta (b2);
    if (kind == "square") { fresh = new epsic::square_modulated_mode (l2, w, n); } else if (kind == "boxcar") { fresh = new epsic::boxcar_modulated_mode (l2, w); } else { fresh = l2; }
    double worst = 0; auto cmp = [&](double x, double y) { worst = std::max (worst, std::fabs (x - y) / std::max (1e-300, std::max (std::fabs (x), std::fabs (y)))); };
    for (int i=0;i<4;i++) { cmp (live->get_mean()[i], fresh->get_mean()[i]); for (int j=0;j<4;j++) { cmp (live->get_covariance()[i][j], fresh->get_covariance()[i][j]);
      for (unsigned l=0;l<=w;l++) cmp (live->get_crosscovariance(l)[i][j], fresh->get_crosscovariance(l)[i][j]); } }
    O.put (worst); };
  // oracle (log-normal): mean and variance of the generated factors by Gauss-Hermite quadrature through the deviate source
  OP("o.c07.lognormal") { double beta = A.d(); epsic::mode base; epsic::lognormal_mode ln (&base, beta); ln.set_normal (&g_bm);
    static const double gx[16] = { 0.27348104613815245, 0.82295144914465589, 1.3802585391988808, 1.9517879909162540, 2.5462021578474814, 3.1769991619799560, 3.8694479048601227, 4.6887389393058184,
      -0.27348104613815245, -0.82295144914465589, -1.3802585391988808, -1.9517879909162540, -2.5462021578474814, -3.1769991619799560, -3.8694479048601227, -4.6887389393058184 };
    static const double gw[8] = { 5.0792947901661374e-1, 2.8064745852853368e-1, 8.3810041398985829e-2, 1.2880311535509974e-2, 9.3228400862418053e-4, 2.7118600925378815e-5, 2.3209808448652107e-7, 2.6548074740111822e-10 };
    // nodes x_i, weights w_i for integral exp(-x^2) f(x); standard normal: g = sqrt(2) x, weight w/sqrt(pi)
    long double m1 = 0, wsum = 0; long double vals[16], wts[16];
    for (int i=0;i<16;i++) { float g = (float)(sqrt(2.0)*gx[i]); g_normal.push_back (g); double v = ln.modulation();
      // compensate the rounding of the node to float: evaluate the weight at the float node through the density ratio
      long double wgt = gw[i%8] / sqrtl (M_PIl) * expl (gx[i]*gx[i] - 0.5L*(long double)g*g) ;
      vals[i] = v; wts[i] = wgt; m1 += wgt*v; wsum += wgt; }
    // centred second moment (no cancellation for small modulation indices)
    long double var = 0; for (int i=0;i<16;i++) var += wts[i] * (vals[i] - m1) * (vals[i] - m1);
    long double rv = ln.get_mod_variance();
    O.put ((double) fabsl (m1 - ln.get_mod_mean())); O.put ((double) (fabsl (var - rv) / std::max (rv, 1e-300L))); O.put (std::fabs (sqrt (ln.get_mod_variance()) - beta) / beta); };


  // ------------------------------------------------------------ C08: covariant mode pairs
  // build the bivariate log-normal coordinator, request factors in the given interleaving ('A'/'B')
  OP("cov.seq") { double rho = A.d(); double b0 = A.d(); double b1 = A.d(); std::string pat = A.next();
    while (!A.done()) g_normal.push_back ((float) A.d());
    epsic::bivariate_lognormal_modes* co = new epsic::bivariate_lognormal_modes (rho); co->set_normal (&g_bm);
    co->set_beta (0, b0); co->set_beta (1, b1);
    epsic::mode* ma = new epsic::mode; epsic::mode* mb = new epsic::mode;
    epsic::modulated_mode* A_ = co->get_modulated_mode (0, ma); epsic::modulated_mode* B_ = co->get_modulated_mode (1, mb);
    O.put (A_->get_mod_mean()); O.put (A_->get_mod_variance()); O.put (B_->get_mod_mean()); O.put (B_->get_mod_variance());
    O.put (co->get_correlation()); O.put (co->get_intensity_covariance());
    for (char c : pat) O.put (c == 'A' ? A_->modulation() : B_->modulation());
    O.puti (g_normal_calls); };
  // oracle: a correlation outside the admissible range is rejected on EVERY request, not only on the first one.
  // Output: number of requests (out of 4: A, B, A, B) that were served although the first one was rejected
  OP("o.c08.reject") { double rho = A.d(); double b0 = A.d(); double b1 = A.d();
    epsic::bivariate_lognormal_modes* co = new epsic::bivariate_lognormal_modes (rho); co->set_normal (&g_bm); co->set_beta (0, b0); co->set_beta (1, b1);
    epsic::mode* ma = new epsic::mode; epsic::mode* mb = new epsic::mode; epsic::modulated_mode* A_ = co->get_modulated_mode (0, ma); epsic::modulated_mode* B_ = co->get_modulated_mode (1, mb);
    g_cycle = true; g_normal.push_back (0.25f); g_normal.push_back (-0.5f); int first = -1; long served_after_reject = 0;
    for (int k=0;k<4;k++) { bool ok = true; try { if (k%2) B_->modulation(); else A_->modulation(); } catch (Exhausted&) { throw; } catch (std::exception&) { ok = false; }
      if (k == 0) first = ok ? 1 : 0; else if (first == 0 && ok) served_after_reject++; }
    O.put ((double) served_after_reject); O.puti (first); };
  // oracle (history): changing the modulation indices after factors have been drawn must give the same factors, from the same
  // deviates, as a coordinator configured with the new indices from the start (and the same rejection, if the correlation
  // is no longer admissible).  Output: number of differing factors (or 1 when only one of the two rejects)
  OP("o.c08.rebuild") { double rho = A.d(); double b0 = A.d(); double b1 = A.d(); double n0 = A.d(); double n1 = A.d(); std::vector<float> dev; while (!A.done()) dev.push_back ((float) A.d());
    auto draw = [&](bool history, std::vector<double>& out) -> int { g_normal.clear();
      epsic::bivariate_lognormal_modes* co = new epsic::bivariate_lognormal_modes (rho); co->set_normal (&g_bm);
      epsic::mode* ma = new epsic::mode; epsic::mode* mb = new epsic::mode; epsic::modulated_mode* A_ = co->get_modulated_mode (0, ma); epsic::modulated_mode* B_ = co->get_modulated_mode (1, mb);
      try {
        if (history) { co->set_beta (0, b0); co->set_beta (1, b1); g_normal.push_back (0.25f); g_normal.push_back (-0.5f); A_->modulation(); B_->modulation(); }
        co->set_beta (0, n0); co->set_beta (1, n1);
        for (float d : dev) g_normal.push_back (d);
        for (size_t i=0; i+1<dev.size(); i+=2) { out.push_back (A_->modulation()); out.push_back (B_->modulation()); }
        out.push_back (A_->get_mod_variance()); out.push_back (B_->get_mod_variance()); out.push_back (co->get_intensity_covariance()); }
      catch (Exhausted&) { throw; } catch (std::exception&) { return 1; }
      return 0; };
    std::vector<double> x, y; int rx = draw (true, x), ry = draw (false, y); long bad = 0;
    if (rx != ry) bad = 1; else if (!rx) { for (size_t i=0;i<x.size();i++) if (memcmp (&x[i], &y[i], 8) != 0) bad++; }
    O.put ((double) bad); O.puti (rx); O.puti (ry); };
  // oracle (history): calls on the coordinator that change nothing about the joint law (installing another BoxMuller object,
  // which reads the same source; re-requesting an existing mode; re-setting the same modulation index; reading the statistics)
  // in the middle of an interleaving in which one mode is ahead must not change what is delivered: compared with the same
  // interleaving without those calls.  Output: number of differing delivered factors (bitwise)
  OP("o.c08.neutral") { double rho = A.d(); double b0 = A.d(); double b1 = A.d(); std::string pat = A.next(); unsigned at = A.n(); unsigned what = A.n(); std::vector<float> dev; while (!A.done()) dev.push_back ((float) A.d());
    static BoxMuller other (0);
    auto draw = [&](bool neutral, std::vector<double>& out) { g_normal.clear(); for (float d : dev) g_normal.push_back (d);
      epsic::bivariate_lognormal_modes* co = new epsic::bivariate_lognormal_modes (rho); co->set_normal (&g_bm); co->set_beta (0, b0); co->set_beta (1, b1);
      epsic::mode* ma = new epsic::mode; epsic::mode* mb = new epsic::mode; epsic::modulated_mode* A_ = co->get_modulated_mode (0, ma); epsic::modulated_mode* B_ = co->get_modulated_mode (1, mb);
      for (unsigned i=0;i<pat.size();i++) {
        if (neutral && i == at) { if (what == 0) co->set_normal (&other); else if (what == 1) { co->get_modulated_mode (0, ma); co->get_modulated_mode (1, mb); }
          else if (what == 2) { co->get_intensity_covariance(); A_->get_mod_variance(); B_->get_mod_mean(); co->get_correlation(); }
          else { co->set_normal (&g_bm); } }
        out.push_back (pat[i] == 'A' ? A_->modulation() : B_->modulation()); } };
    std::vector<double> x, y; draw (true, x); draw (false, y); long bad = (x.size() != y.size());
    for (size_t i=0;i<x.size() && i<y.size();i++) if (memcmp (&x[i], &y[i], 8) != 0) bad++;
    O.put ((double) bad); };
  // oracle: pairing under an arbitrary interleaving, with a counting coordinator (draw k delivers (k, k + 1/2))
  OP("o.c08.pairing") { std::string pat = A.next();
    struct counting : public epsic::covariant_coordinator { unsigned long k = 0; counting () : covariant_coordinator (0.0) {}
      void get_modulation (double& a, double& b) { a = double(k); b = double(k) + 0.5; k++; }
      double get_mod_mean (unsigned) const { return 1; } double get_mod_variance (unsigned) const { return 1; } } co;
    epsic::mode ma, mb; epsic::modulated_mode* A_ = co.get_modulated_mode (0, &ma); epsic::modulated_mode* B_ = co.get_modulated_mode (1, &mb);
    unsigned long na = 0, nb = 0; long bad = 0;
    for (char c : pat) { if (c == 'A') { double v = A_->modulation(); if (v != double(na)) bad++; na++; } else { double v = B_->modulation(); if (v != double(nb) + 0.5) bad++; nb++; } }
    // every draw is made exactly once: the number of draws equals the larger request count
    if (co.k != std::max (na, nb)) bad++;
    O.put ((double) bad); };
  // the same pairing oracle for long schedules given as runs (A16384 B1 A2 ...): leads that build up in several stages, so that a
  // queue grows, is partly consumed and grows again
  OP("o.c08.pairingrle") {
    struct counting : public epsic::covariant_coordinator { unsigned long k = 0; counting () : covariant_coordinator (0.0) {}
      void get_modulation (double& a, double& b) { a = double(k); b = double(k) + 0.5; k++; }
      double get_mod_mean (unsigned) const { return 1; } double get_mod_variance (unsigned) const { return 1; } } co;
    epsic::mode ma, mb; epsic::modulated_mode* A_ = co.get_modulated_mode (0, &ma); epsic::modulated_mode* B_ = co.get_modulated_mode (1, &mb);
    unsigned long na = 0, nb = 0; long bad = 0;
    while (!A.done()) { std::string run = A.next(); char c = run[0]; unsigned long len = std::stoul (run.substr (1));
      for (unsigned long i=0;i<len;i++) { if (c == 'A') { double v = A_->modulation(); if (v != double(na)) bad++; na++; } else { double v = B_->modulation(); if (v != double(nb) + 0.5) bad++; nb++; } } }
    if (co.k != std::max (na, nb)) bad++;
    O.put ((double) bad); };
  // oracle (history): a factor is requested from one mode while the other mode does not exist yet (the request must fail
  // without consuming or delivering anything), then the other mode is created and the interleaving continues: the pairing is
  // that of a coordinator on which nothing happened before
  OP("o.c08.early") { unsigned which = A.n(); unsigned tries = A.n(); std::string pat = A.next();
    struct counting : public epsic::covariant_coordinator { unsigned long k = 0; counting () : covariant_coordinator (0.0) {}
      void get_modulation (double& a, double& b) { a = double(k); b = double(k) + 0.5; k++; }
      double get_mod_mean (unsigned) const { return 1; } double get_mod_variance (unsigned) const { return 1; } } co;
    epsic::mode ma, mb; epsic::modulated_mode* M[2] = { 0, 0 }; long bad = 0;
    M[which] = co.get_modulated_mode (which, which ? &mb : &ma);
    for (unsigned t=0;t<tries;t++) { try { M[which]->modulation(); bad++; } catch (std::exception&) { } }
    if (co.k != 0) bad++;
    M[1-which] = co.get_modulated_mode (1-which, which ? &ma : &mb);
    unsigned long na = 0, nb = 0;
    for (char c : pat) { if (c == 'A') { double v = M[0]->modulation(); if (v != double(na)) bad++; na++; } else { double v = M[1]->modulation(); if (v != double(nb) + 0.5) bad++; nb++; } }
    if (co.k != std::max (na, nb)) bad++;
    O.put ((double) bad); };
  // oracle: moments of the delivered pairs by 2-D Gauss-Hermite quadrature through the deviate source
  OP("o.c08.moments") { double rho = A.d(); double b0 = A.d(); double b1 = A.d();
    epsic::bivariate_lognormal_modes* co = new epsic::bivariate_lognormal_modes (rho); co->set_normal (&g_bm);
    co->set_beta (0, b0); co->set_beta (1, b1); epsic::mode* ma = new epsic::mode; epsic::mode* mb = new epsic::mode;
    epsic::modulated_mode* A_ = co->get_modulated_mode (0, ma); epsic::modulated_mode* B_ = co->get_modulated_mode (1, mb);
    static const double gx[8] = { 0.27348104613815245, 0.82295144914465589, 1.3802585391988808, 1.9517879909162540, 2.5462021578474814, 3.1769991619799560, 3.8694479048601227, 4.6887389393058184 };
    static const double gw[8] = { 5.0792947901661374e-1, 2.8064745852853368e-1, 8.3810041398985829e-2, 1.2880311535509974e-2, 9.3228400862418053e-4, 2.7118600925378815e-5, 2.3209808448652107e-7, 2.6548074740111822e-10 };
    long double ma1 = 0, mb1 = 0, maa = 0, mbb = 0, mab = 0; bool finite = true;
    for (int i=0;i<16;i++) for (int j=0;j<16;j++) {
      double xi = (i<8 ? gx[i] : -gx[i-8]), xj = (j<8 ? gx[j] : -gx[j-8]);
      float gi = (float)(sqrt(2.0)*xi), gj = (float)(sqrt(2.0)*xj); g_normal.push_back (gi); g_normal.push_back (gj);
      double a = A_->modulation(); double b = B_->modulation(); finite = finite && std::isfinite (a) && std::isfinite (b);
      long double w = gw[i%8]*gw[j%8] / M_PIl * expl (xi*xi - 0.5L*(long double)gi*gi) * expl (xj*xj - 0.5L*(long double)gj*gj);
      ma1 += w*a; mb1 += w*b; maa += w*(long double)a*a; mbb += w*(long double)b*b; mab += w*(long double)a*b; }
    long double va = maa - ma1*ma1, vb = mbb - mb1*mb1, cab = mab - ma1*mb1;
    O.puti (finite ? 1 : 0);
    O.put ((double) fabsl (ma1 - 1)); O.put ((double) fabsl (mb1 - 1)); O.put ((double) (fabsl (va - b0*b0) / (b0*b0))); O.put ((double) (fabsl (vb - b1*b1) / (b1*b1)));
    O.put ((double) (fabsl (cab - rho*b0*b1) / (b0*b1))); O.put ((double) (fabsl (cab - co->get_intensity_covariance()) / (b0*b1))); };


  // ------------------------------------------------------------ C05: dual-mode samples
  // instances drawn per mode and what the generator sums, with constant-field stubs:
  // A delivers the field (1,0) -> Stokes (1,1,0,0), B the field (0,2) -> Stokes (4,-4,0,0)
  OP("du.counts") { std::string kind = A.next(); double f = A.d(); unsigned n = A.n(); if (!A.done()) g_random.push_back ((long) A.n());
    epsic::combination* c = make_dual (kind, f); stub_mode* a = new stub_mode; stub_mode* b = new stub_mode; b->field = Spinor<double>(std::complex<double>(0,0), std::complex<double>(2,0));
    c->A = a; c->B = b; epsic::sample* smp = c; smp->sample_size = n; Stokes<double> st = smp->get_Stokes();
    O.puti (a->fields); O.puti (b->fields); O.put (Vector<4,double>(st)); O.puti (g_random_calls); };
  // predictions for real (optionally modulated) modes
  OP("du.theory") { std::string kind = A.next(); double f = A.d(); unsigned n = A.n(); double kappa = A.d(); unsigned lag = A.n();
    Stokes<double> SA = A.stokes(); epsic::mode* ma = make_mode (A, SA, &g_bm); Stokes<double> SB = A.stokes(); epsic::mode* mb = make_mode (A, SB, &g_bm);
    epsic::combination* c = make_dual (kind, f); c->A = ma; c->B = mb; c->set_intensity_covariance (kappa); epsic::sample* smp = c; smp->sample_size = n;
    O.put (smp->get_mean()); O.put (smp->get_covariance()); O.put (smp->get_crosscovariance (lag)); };
  // the generator on scripted deviates (plain modes): same deviates, same sample
  OP("du.gen") { std::string kind = A.next(); double f = A.d(); unsigned n = A.n(); long r = (long) A.n(); Stokes<double> SA = A.stokes(); Stokes<double> SB = A.stokes();
    while (!A.done()) g_normal.push_back ((float) A.d()); g_random.push_back (r);
    epsic::combination* c = make_dual (kind, f); c->A->set_Stokes (SA); c->B->set_Stokes (SB); c->set_normal (&g_bm); epsic::sample* smp = c; smp->sample_size = n;
    Stokes<double> st = smp->get_Stokes(); O.put (Vector<4,double>(st)); O.puti (g_normal_calls); O.puti (g_random_calls); };

  // oracle: exact ensemble moments of ONE superposed instance (5-node product cubature over the 8 deviates, exact for the
  // degree-4 products) under a discrete joint distribution of the two modulation factors (K outcomes a_k, b_k, p_k with unit
  // means), against the prediction for sample size 1.  Output: finite flag, max relative error of mean, of covariance
  OP("o.c05.super") { Stokes<double> SA = A.stokes(); Stokes<double> SB = A.stokes(); unsigned K = A.n();
    std::vector<double> a, b, p; for (unsigned k=0;k<K;k++) { a.push_back (A.d()); b.push_back (A.d()); p.push_back (A.d()); }
    discrete_coord* co = K ? new discrete_coord (a, b, p) : 0;
    epsic::superposed* c = new epsic::superposed; c->A->set_Stokes (SA); c->B->set_Stokes (SB); c->set_normal (&g_bm);
    if (co) { c->A = co->get_modulated_mode (0, c->A); c->B = co->get_modulated_mode (1, c->B); c->set_intensity_covariance (co->get_intensity_covariance()); }
    epsic::sample* smp = c; smp->sample_size = 1; Moments M;
    for (unsigned k=0; k<std::max(K,1u); k++) { if (co) co->current = k; cubature (8, co ? p[k] : 1.0, M, [&]() { return smp->get_Stokes(); }); }
    report (O, M, smp->get_mean(), smp->get_covariance(), SA[0] + SB[0]); };
  // oracle: composite sample.  The numbers of instances really summed (a from A, b from B) are measured with stubs; the exact
  // ensemble moments of what is generated are then (a A + b B)/n and (a C_A + b C_B + min(a,b) kappa (AB^T + BA^T))/n^2 with the
  // per-instance moments A, C_A, B, C_B obtained by cubature through the real modes; compared with the prediction
  OP("o.c05.composite") { double f = A.d(); unsigned n = A.n(); double kappa = A.d(); Stokes<double> SA = A.stokes(); Stokes<double> SB = A.stokes();
    epsic::composite* cs = new epsic::composite (f); stub_mode* sa = new stub_mode; stub_mode* sb = new stub_mode; cs->A = sa; cs->B = sb;
    sb->field = Spinor<double>(std::complex<double>(0,0), std::complex<double>(2,0)); epsic::sample* ss = cs; ss->sample_size = n; Stokes<double> st = ss->get_Stokes();
    long double na = (st[0]*n + st[1]*n) / 2, nb = (st[0]*n - st[1]*n) / 8;   // I = a + 4 b, Q = a - 4 b  (times 1/n)
    epsic::composite* c = new epsic::composite (f); c->A->set_Stokes (SA); c->B->set_Stokes (SB); c->set_normal (&g_bm); c->set_intensity_covariance (kappa);
    epsic::sample* smp = c; smp->sample_size = n;
    epsic::single one_a (new epsic::mode), one_b (new epsic::mode); one_a.source->set_Stokes (SA); one_b.source->set_Stokes (SB); one_a.source->set_normal (&g_bm); one_b.source->set_normal (&g_bm);
    Moments MA, MB; cubature (4, 1.0, MA, [&]() { return one_a.get_Stokes(); }); cubature (4, 1.0, MB, [&]() { return one_b.get_Stokes(); });
    Vector<4,double> pm = smp->get_mean(); Matrix<4,4,double> pc = smp->get_covariance(); long double scale = std::max ((long double) std::fabs (SA[0] + SB[0]), 1e-300L), e1 = 0, e2 = 0; bool finite = MA.finite && MB.finite;
    for (int i=0;i<4;i++) { long double em = (na*MA.mean[i] + nb*MB.mean[i]) / n; finite = finite && std::isfinite (pm[i]); e1 = std::max (e1, fabsl (em - pm[i]) / scale);
      for (int j=0;j<4;j++) { long double ca = MA.sec[i][j] - MA.mean[i]*MA.mean[j], cb = MB.sec[i][j] - MB.mean[i]*MB.mean[j];
        long double ec = (na*ca + nb*cb + std::min (na, nb) * kappa * (MA.mean[i]*MB.mean[j] + MB.mean[i]*MA.mean[j])) / ((long double)n*n);
        finite = finite && std::isfinite (pc[i][j]); e2 = std::max (e2, fabsl (ec - pc[i][j]) / (scale*scale)); } }
    O.puti (finite ? 1 : 0); O.put ((double) e1); O.put ((double) e2); O.puti ((long) na); O.puti ((long) nb); O.puti (sa->fields); O.puti (sb->fields); };
  // oracle: disjoint sample.  The selection probability is counted exactly over the whole range of random() by bisection
  // (the comparison random()/RAND_MAX < f is monotone in random()); which mode generates is observed with stubs; the exact
  // moments of what is generated are the mixture of the per-mode sample moments (cubature, 4 deviates per instance, n <= 2)
  OP("o.c05.disjoint") { double f = A.d(); unsigned n = A.n(); Stokes<double> SA = A.stokes(); Stokes<double> SB = A.stokes();
    auto selects_A = [&](long r) { epsic::disjoint d (f); stub_mode* sa = new stub_mode; stub_mode* sb = new stub_mode; d.A = sa; d.B = sb; epsic::sample* s = &d; s->sample_size = 1;
      g_random.clear(); g_random.push_back (r); s->get_Stokes(); bool isA = sa->fields == 1 && sb->fields == 0; bool isB = sa->fields == 0 && sb->fields == 1;
      if (!isA && !isB) throw std::runtime_error ("disjoint sample drew from both or neither mode"); return isA; };
    long double pA; if (!selects_A (0)) pA = 0; else if (selects_A (RAND_MAX)) pA = 1; else { long lo = 0, hi = RAND_MAX; while (hi - lo > 1) { long mid = lo + (hi - lo)/2; if (selects_A (mid)) lo = mid; else hi = mid; } pA = ((long double) lo + 1) / ((long double) RAND_MAX + 1); }
    epsic::disjoint* c = new epsic::disjoint (f); c->A->set_Stokes (SA); c->B->set_Stokes (SB); c->set_normal (&g_bm); epsic::sample* smp = c; smp->sample_size = n;
    epsic::single one_a (new epsic::mode), one_b (new epsic::mode); one_a.source->set_Stokes (SA); one_b.source->set_Stokes (SB); one_a.source->set_normal (&g_bm); one_b.source->set_normal (&g_bm);
    one_a.sample_size = n; one_b.sample_size = n;
    Moments MA, MB; cubature (4*n, 1.0, MA, [&]() { return one_a.get_Stokes(); }); cubature (4*n, 1.0, MB, [&]() { return one_b.get_Stokes(); });
    Vector<4,double> pm = smp->get_mean(); Matrix<4,4,double> pc = smp->get_covariance(), px = smp->get_crosscovariance (1);
    long double scale = std::max ((long double) std::fabs (SA[0] + SB[0]), 1e-300L), e1 = 0, e2 = 0, e3 = 0; bool finite = MA.finite && MB.finite;
    for (int i=0;i<4;i++) { long double em = pA*MA.mean[i] + (1-pA)*MB.mean[i]; finite = finite && std::isfinite (pm[i]); e1 = std::max (e1, fabsl (em - pm[i]) / scale);
      for (int j=0;j<4;j++) { long double es = pA*MA.sec[i][j] + (1-pA)*MB.sec[i][j]; long double emj = pA*MA.mean[j] + (1-pA)*MB.mean[j];
        finite = finite && std::isfinite (pc[i][j]) && std::isfinite (px[i][j]);
        e2 = std::max (e2, fabsl (es - em*emj - pc[i][j]) / (scale*scale)); e3 = std::max (e3, fabsl ((long double) px[i][j]) / (scale*scale)); } }   // successive samples are independent: lag-1 cross-covariance 0
    O.puti (finite ? 1 : 0); O.put ((double) e1); O.put ((double) e2); O.put ((double) e3); O.put ((double) fabsl (pA - f)); };
  // oracle: coherent sample of one instance: ensemble over the 4 deviates of the coupling mode (cubature) and over the phase
  // (N equally spaced values of the uniform deviate: exact for the harmonics present), against the predicted mean, and the
  // predicted covariance (meaningful at zero coherence)
  OP("o.c05.coherent") { double coh = A.d(); Stokes<double> SA = A.stokes(); Stokes<double> SB = A.stokes(); unsigned N = A.n();
    // optional independent discrete modulation of each mode: K values v_k with probabilities p_k (unit mean)
    auto read_mod = [&](epsic::mode* base) -> point_mod* { if (A.done()) return 0; unsigned K = A.n(); if (!K) return 0; std::vector<double> v, p; for (unsigned k=0;k<K;k++) { v.push_back (A.d()); p.push_back (A.d()); } return new point_mod (base, v, p); };
    epsic::coherent* c = new epsic::coherent (coh); c->A->set_Stokes (SA); c->B->set_Stokes (SB); c->set_normal (&g_bm);
    point_mod* pa = read_mod (c->A); if (pa) c->A = pa; point_mod* pb = read_mod (c->B); if (pb) c->B = pb;
    epsic::sample* smp = c; smp->sample_size = 1; Moments M; unsigned long draws = 0;
    unsigned KA = pa ? pa->v.size() : 1, KB = pb ? pb->v.size() : 1;
    for (unsigned ka=0;ka<KA;ka++) for (unsigned kb=0;kb<KB;kb++) { if (pa) pa->current = ka; if (pb) pb->current = kb; long double wgt = (pa ? pa->p[ka] : 1.0) * (pb ? pb->p[kb] : 1.0);
      for (unsigned k=0;k<N;k++) cubature (4, wgt/N, M, [&]() { g_uniform.clear(); g_uniform.push_back ((k + 0.5) / N); draws++; return smp->get_Stokes(); }); }
    bool counts_ok = (!pa || pa->calls == draws) && (!pb || pb->calls == draws);
    report (O, M, smp->get_mean(), smp->get_covariance(), SA[0] + SB[0]); O.puti (counts_ok ? 1 : 0); };
  // oracle: coherent sample of TWO instances at zero coherence whose modes carry modulation that is correlated from one instance
  // to the next (kind hold: both instances of a sample share one factor; kind boxcar: running mean of width 2 over iid draws;
  // the draws take the values 1-d and 1+d with probability 1/2 each; which: 0 = mode A, 1 = mode B, 2 = both, independently).
  // Exact ensemble: enumeration of the draws x 5-node product cubature over the 8 deviates of the coupling mode, against the
  // predicted mean and covariance of the sample mean (which must contain the instance-to-instance terms)
  OP("o.c05.coherentlag") { Stokes<double> SA = A.stokes(); Stokes<double> SB = A.stokes(); std::string kind = A.next(); unsigned which = A.n(); double d = A.d();
    epsic::coherent* c = new epsic::coherent (0.0); c->A->set_Stokes (SA); c->B->set_Stokes (SB); c->set_normal (&g_bm);
    scripted_mod* sm[2] = { 0, 0 }; epsic::modulated_mode* top[2] = { 0, 0 };
    for (unsigned m=0;m<2;m++) { if (which != 2 && which != m) continue; epsic::mode* base = m ? c->B : c->A; sm[m] = new scripted_mod (base, 1.0, d*d);
      if (kind == "hold") top[m] = new epsic::square_modulated_mode (sm[m], 2, 2);
      else { top[m] = new epsic::boxcar_modulated_mode (sm[m], 2); sm[m]->values.push_back (1.0); sm[m]->values.push_back (1.0); top[m]->modulation(); }
      if (m) c->B = top[m]; else c->A = top[m]; }
    epsic::sample* smp = c; smp->sample_size = 2; Moments M;
    unsigned ndraw = (kind == "hold") ? 1 : 3; unsigned nm = (sm[0] ? 1 : 0) + (sm[1] ? 1 : 0); unsigned combos = 1u << (ndraw * nm);
    for (unsigned combo=0; combo<combos; combo++) {
      cubature (8, 1.0L / combos, M, [&]() { unsigned bit = 0;
        for (unsigned m=0;m<2;m++) { if (!sm[m]) continue; std::vector<double> v; for (unsigned k=0;k<ndraw;k++) { v.push_back (((combo >> bit) & 1) ? 1 + d : 1 - d); bit++; }
          sm[m]->values.clear();
          if (kind == "hold") sm[m]->values.push_back (v[0]);
          else { sm[m]->values.push_back (v[0]); top[m]->modulation(); sm[m]->values.push_back (v[1]); sm[m]->values.push_back (v[2]); } }
        g_uniform.clear(); g_uniform.push_back (0.375); return smp->get_Stokes(); }); }
    report (O, M, smp->get_mean(), smp->get_covariance(), (SA[0] + SB[0]) * (1 + d)); };
  // oracle: lagged cross-covariance between successive composite samples when mode A is boxcar-modulated (iid draws of unit
  // mean and variance `var` through the real filter of width w), fields deterministic (stubs), B unmodulated.  The sample is
  // affine in the draws, so its exact cross-covariance follows from the impulse responses.  Output: |exact - predicted| for
  // the I,I entry, then exact and predicted
  OP("o.c05.lagcomposite") { double f = A.d(); unsigned n = A.n(); unsigned w = A.n(); unsigned lag = A.n(); double var = A.d();
    unsigned T = lag + 1; unsigned per = n; unsigned P = w - 1 + per * (T + 1) + 2;
    auto run = [&](int impulse, std::vector<double>& out, double* predicted) {
      epsic::composite* c = new epsic::composite (f); stub_mode* sa = new stub_mode; sa->cv = 0; sa->set_Stokes (Stokes<double>(1,1,0,0)); stub_mode* sb = new stub_mode; sb->cv = 0;
      sb->field = Spinor<double>(std::complex<double>(0,0), std::complex<double>(2,0)); sb->set_Stokes (Stokes<double>(4,-4,0,0));
      scripted_mod* sm = new scripted_mod (sa, 1.0, var); for (unsigned q=0;q<P;q++) sm->values.push_back ((int) q == impulse ? 2.0 : 1.0);
      c->A = new epsic::boxcar_modulated_mode (sm, w); c->B = sb; epsic::sample* smp = c; smp->sample_size = n;
      if (predicted) *predicted = smp->get_crosscovariance (lag)[0][0];
      out.clear(); for (unsigned t=0;t<=T;t++) out.push_back (smp->get_Stokes()[0]); };
    std::vector<double> base; double predicted = 0; run (-1, base, &predicted);
    long double acc = 0; for (unsigned p=0;p<P;p++) { std::vector<double> o; run ((int) p, o, 0); acc += ((long double) o[1] - base[1]) * ((long double) o[1+lag] - base[1+lag]); }
    long double exact = var * acc; O.put ((double) fabsl (exact - predicted)); O.put ((double) exact); O.put (predicted); };
  // oracle: a disjoint sample that always (never) selects mode A is a single sample of A (B): its predicted lagged
  // cross-covariance must be the one of epsic::single, for boxcar-modulated modes too.  Output: max |difference| over the entries
  OP("o.c05.lagdisjoint") { unsigned sel = A.n(); unsigned n = A.n(); unsigned lag = A.n(); Stokes<double> S = A.stokes(); epsic::mode* m = make_mode (A, S, &g_bm);
    epsic::disjoint* d = new epsic::disjoint (sel ? 1.0 : 0.0); if (sel) d->A = m; else d->B = m; epsic::sample* smp = d; smp->sample_size = n;
    epsic::single one (m); one.sample_size = n; Matrix<4,4,double> x = smp->get_crosscovariance (lag), y = one.get_crosscovariance (lag);
    double worst = 0, scale = std::max (std::fabs (y[0][0]), 1e-300); for (int i=0;i<4;i++) for (int j=0;j<4;j++) worst = std::max (worst, std::fabs (x[i][j] - y[i][j]));
    O.put (worst / std::max (scale, S[0]*S[0])); };


  // oracle: disjoint sample of one instance with 0 < f < 1 and boxcar-modulated modes (which: 0 = A, 1 = B, 2 = both), driven
  // through the real generator: every selection pattern over the samples 0..lag+1 is forced through random() and weighted by
  // f^#A (1-f)^#B; given the pattern the I component is affine in the iid modulation draws (deterministic orthogonal stub
  // fields), so its second moments follow from the impulse responses.  Output: |exact - predicted| of the I,I entry of the
  // cross-covariance at the lag (samples 1 and 1+lag), exact, predicted
  OP("o.c05.lagdisjointmix") { double f = A.d(); unsigned lag = A.n(); unsigned w = A.n(); double var = A.d(); unsigned which = A.n();
    unsigned T = lag + 2; unsigned P = w + T + 2;
    auto run = [&](unsigned pat, int impA, int impB, std::vector<double>& out, double* predicted) {
      epsic::disjoint* c = new epsic::disjoint (f); stub_mode* sa = new stub_mode; sa->cv = 0; sa->set_Stokes (Stokes<double>(1,1,0,0)); stub_mode* sb = new stub_mode; sb->cv = 0;
      sb->field = Spinor<double>(std::complex<double>(0,0), std::complex<double>(2,0)); sb->set_Stokes (Stokes<double>(4,-4,0,0));
      epsic::mode* ma = sa; epsic::mode* mb = sb;
      if (which != 1) { scripted_mod* sm = new scripted_mod (sa, 1.0, var); for (unsigned q=0;q<P;q++) sm->values.push_back ((int) q == impA ? 2.0 : 1.0); ma = (w > 1) ? (epsic::mode*) new epsic::boxcar_modulated_mode (sm, w) : sm; }
      if (which != 0) { scripted_mod* sm = new scripted_mod (sb, 1.0, var); for (unsigned q=0;q<P;q++) sm->values.push_back ((int) q == impB ? 2.0 : 1.0); mb = (w > 1) ? (epsic::mode*) new epsic::boxcar_modulated_mode (sm, w) : sm; }
      c->A = ma; c->B = mb; epsic::sample* smp = c; smp->sample_size = 1;
      if (predicted) *predicted = smp->get_crosscovariance (lag)[0][0];
      g_random.clear(); for (unsigned t=0;t<T;t++) g_random.push_back (((pat >> t) & 1) ? 0 : RAND_MAX);
      out.clear(); for (unsigned t=0;t<T;t++) out.push_back (smp->get_Stokes()[0]); g_random.clear(); };
    long double E1 = 0, E2 = 0, E12 = 0; double predicted = 0;
    for (unsigned pat=0; pat < (1u << T); pat++) { long double pr = 1; for (unsigned t=0;t<T;t++) pr *= ((pat >> t) & 1) ? (long double) f : 1 - (long double) f;
      std::vector<double> base; run (pat, -1, -1, base, pat == 0 ? &predicted : 0);
      long double acc = 0;
      for (unsigned q=0;q<P;q++) { std::vector<double> o;
        if (which != 1) { run (pat, (int) q, -1, o, 0); acc += ((long double) o[1] - base[1]) * ((long double) o[1+lag] - base[1+lag]); }
        if (which != 0) { run (pat, -1, (int) q, o, 0); acc += ((long double) o[1] - base[1]) * ((long double) o[1+lag] - base[1+lag]); } }
      E1 += pr * base[1]; E2 += pr * base[1+lag]; E12 += pr * ((long double) base[1] * base[1+lag] + var * acc); }
    long double exact = E12 - E1*E2; O.put ((double) fabsl (exact - predicted)); O.put ((double) exact); O.put (predicted); };

  // oracle: superposed sample of covariant modes that are both boxcar-smoothed (width w): iid joint draws (a_q, b_q) with unit
  // means, variances va, vb and covariance k through the real coordinator queues and the real filters; deterministic
  // orthogonal stub fields, for which the I component of the superposition is exactly mA + 4 mB.  Var(I) of the sample mean
  // follows from the impulse responses.  Output: |exact - predicted| of the I,I entry, exact, predicted
  OP("o.c05.covboxcar") { unsigned n = A.n(); unsigned w = A.n(); double va = A.d(); double vb = A.d(); double k = A.d();
    struct pairs : public epsic::covariant_coordinator { std::deque<double> a, b; double va, vb;
      pairs (double corr, double va_, double vb_) : covariant_coordinator (corr), va(va_), vb(vb_) {}
      void get_modulation (double& x, double& y) { if (a.empty()) throw Exhausted ("pairs-exhausted"); x = a.front(); y = b.front(); a.pop_front(); b.pop_front(); }
      double get_mod_mean (unsigned) const { return 1; } double get_mod_variance (unsigned i) const { return i ? vb : va; } };
    unsigned P = w + n + 2;
    auto run = [&](int ia, int ib, double* predicted) {
      pairs* co = new pairs (k / std::sqrt (va*vb), va, vb); for (unsigned q=0;q<P;q++) { co->a.push_back ((int) q == ia ? 2.0 : 1.0); co->b.push_back ((int) q == ib ? 2.0 : 1.0); }
      stub_mode* sa = new stub_mode; sa->cv = 0; sa->set_Stokes (Stokes<double>(1,1,0,0)); stub_mode* sb = new stub_mode; sb->cv = 0;
      sb->field = Spinor<double>(std::complex<double>(0,0), std::complex<double>(2,0)); sb->set_Stokes (Stokes<double>(4,-4,0,0));
      epsic::modulated_mode* ca = co->get_modulated_mode (0, sa); epsic::modulated_mode* cb = co->get_modulated_mode (1, sb);
      epsic::superposed* c = new epsic::superposed; c->A = (w > 1) ? (epsic::mode*) new epsic::boxcar_modulated_mode (ca, w) : ca; c->B = (w > 1) ? (epsic::mode*) new epsic::boxcar_modulated_mode (cb, w) : cb;
      c->set_intensity_covariance (co->get_intensity_covariance()); epsic::sample* smp = c; smp->sample_size = n;
      if (predicted) *predicted = smp->get_covariance()[0][0];
      return (long double) smp->get_Stokes()[0]; };
    double predicted = 0; long double base = run (-1, -1, &predicted), saa = 0, sbb = 0, sab = 0;
    for (unsigned q=0;q<P;q++) { long double ca = run ((int) q, -1, 0) - base, cb = run (-1, (int) q, 0) - base; saa += ca*ca; sbb += cb*cb; sab += ca*cb; }
    long double exact = va*saa + vb*sbb + 2*k*sab; O.put ((double) fabsl (exact - predicted)); O.put ((double) exact); O.put (predicted); };

  std::string line; const bool threaded = getenv ("EPSIC_HARNESS_THREAD") != 0;
  while (std::getline (std::cin, line)) {
    A_ a; { std::istringstream is (line); std::string t; while (is >> t) a.tok.push_back (t); }
    if (a.tok.empty()) { std::cout << "err empty\n"; continue; }
    auto it = ops.find (a.next());
    if (it == ops.end()) { std::cout << "err unknown-op\n"; continue; }
    // thread mode (the runner's thread pass): the line is executed on a thread of its own, started and joined here
    auto body = [&]() -> std::string { O_ o; reset_sources (); Pauli::basis().set_basis (Signal::Linear);
      try { it->second (a, o); return "ok" + o.os.str(); }
      catch (Exhausted& e) { return std::string ("err ") + e.what(); }
      catch (std::exception& e) { std::string w = e.what(); return "err " + (w.compare(0,9,"protocol:") == 0 ? w : "throw:" + w); } };
    if (threaded) { std::string out; std::thread th ([&]() { out = body (); }); th.join (); std::cout << out << "\n"; }
    else std::cout << body () << "\n";
  }
  return 0;
}
