// Harness driver, group "sim" (properties C01 C05 C06 C07 C08): the Monte-Carlo simulator library
// (mode, sample, modulated, covariant, superposed/composite/disjoint/coherent) with every random
// source replaced at link time by scripted queues: BoxMuller::evaluate, drand48, random are defined
// here, so the library consumes exactly the deviates an operation line supplies.
// All values are IEEE doubles written as 16-hex-digit bit patterns.
#include <cstring>
#include <cstdio>
#include <cmath>
#include <string>
#include <map>
#include <vector>
#include <deque>
#include <sstream>
#include <iostream>
#include <functional>
#include <stdexcept>
#include <algorithm>
#include "mode.h"
#include "modulated.h"
#include "smoothed.h"
#include "sample.h"
#include "covariant.h"
#include "Pauli.h"

// ---------------------------------------------------------------- scripted random sources
static std::deque<float> g_normal;     // consumed by BoxMuller::evaluate
static std::deque<double> g_uniform;   // consumed by drand48
static std::deque<long> g_random;      // consumed by random
static bool g_cycle = false;           // cycling mode: never exhausted (used when only calls are counted)
static unsigned long g_normal_calls = 0, g_uniform_calls = 0, g_random_calls = 0;
struct Exhausted : std::runtime_error { Exhausted(const char* w) : std::runtime_error(w) {} };

BoxMuller::BoxMuller (long) { have_one_ready = false; one_ready = 0; }
float BoxMuller::evaluate ()
{
  g_normal_calls++;
  if (g_normal.empty()) { if (g_cycle) return 0.5f; throw Exhausted ("normal-deviates-exhausted"); }
  float v = g_normal.front(); g_normal.pop_front(); if (g_cycle) g_normal.push_back (v); return v;
}
extern "C" double drand48 (void) noexcept
{
  g_uniform_calls++;
  if (g_uniform.empty()) { if (g_cycle) return 0.25; throw Exhausted ("uniform-exhausted"); }
  double v = g_uniform.front(); g_uniform.pop_front(); return v;
}
extern "C" long random (void) noexcept
{
  g_random_calls++;
  if (g_random.empty()) { if (g_cycle) return RAND_MAX/3; throw Exhausted ("random-exhausted"); }
  long v = g_random.front(); g_random.pop_front(); return v;
}
extern "C" void srand48 (long) noexcept {}
extern "C" void srandom (unsigned) noexcept {}
static void reset_sources () { g_normal.clear(); g_uniform.clear(); g_random.clear(); g_cycle = false; g_normal_calls = g_uniform_calls = g_random_calls = 0; }

// ---------------------------------------------------------------- protocol
struct A_ {
  std::vector<std::string> tok; size_t pos = 0;
  bool done () const { return pos >= tok.size() || tok[pos][0] == '#'; }
  const std::string& next () { if (pos >= tok.size()) throw std::runtime_error("protocol:missing argument"); return tok[pos++]; }
  double d () { unsigned long long u = std::stoull (next(), 0, 16); double x; memcpy (&x, &u, 8); return x; }
  unsigned n () { return (unsigned) std::stoul (next()); }
  Stokes<double> stokes () { double a=d(); double b=d(); double c=d(); double e=d(); return Stokes<double>(a,b,c,e); }
};
struct O_ {
  std::ostringstream os;
  void put (double x) { unsigned long long u; memcpy (&u, &x, 8); char b[20]; snprintf (b, 20, " %016llx", u); os << b; }
  void put (std::complex<double> z) { put (z.real()); put (z.imag()); }
  void put (const Jones<double>& j) { put(j.j00); put(j.j01); put(j.j10); put(j.j11); }
  void put (const Spinor<double>& e) { put (e.x); put (e.y); }
  void puti (long n) { os << " " << n; }
  template<unsigned N> void put (const Vector<N,double>& v) { for (unsigned i=0;i<N;i++) put (v[i]); }
  template<unsigned R, unsigned C> void put (const Matrix<R,C,double>& m) { for (unsigned i=0;i<R;i++) for (unsigned j=0;j<C;j++) put (m[i][j]); }
};
typedef std::function<void(A_&, O_&)> Fn;
#define OP(name) ops[name] = [](A_& A, O_& O)

// ---------------------------------------------------------------- stub modes (C06)
// a mode whose per-instance (cross-)covariances are scripted: cov = cv * P, crosscov(lag) = x[lag] * P
static Matrix<4,4,double> pattern ()
{ Matrix<4,4,double> P; for (unsigned i=0;i<4;i++) for (unsigned j=0;j<4;j++) P[i][j] = 1.0 + 0.25*i + 0.0625*j + (i==j ? 1.0 : 0.0); return P; }
class stub_mode : public epsic::mode {
public:
  double cv; std::vector<double> x; mutable unsigned long fields = 0;
  Matrix<4,4,double> get_covariance () const { Matrix<4,4,double> P = pattern(); P *= cv; return P; }
  Matrix<4,4,double> get_crosscovariance (unsigned ilag) const
  { Matrix<4,4,double> P = pattern(); P *= (ilag < x.size() ? x[ilag] : 0.0); return P; }
  Spinor<double> get_field () { fields++; return Spinor<double>(std::complex<double>(1,0), std::complex<double>(0,0)); }
};

// a modulation source with scripted values and declared mean / variance (C07)
class scripted_mod : public epsic::modulated_mode {
public:
  std::deque<double> values; double mu, var; unsigned long calls = 0;
  scripted_mod (epsic::mode* s, double m, double v) : modulated_mode (s), mu(m), var(v) {}
  double modulation () { calls++; if (values.empty()) throw Exhausted ("factors-exhausted"); double v = values.front(); values.pop_front(); return v; }
  double get_mod_mean () const { return mu; }
  double get_mod_variance () const { return var; }
};

// build a (possibly decorated) mode as the command-line program does: kind = plain | lognormal beta |
// boxcar beta w | square beta w n ; returns the top mode, `mod` receives the modulated_mode if any
static epsic::mode* make_mode (A_& A, const Stokes<double>& S, BoxMuller* bm, epsic::modulated_mode** modp = 0)
{
  std::string kind = A.next();
  epsic::mode* base = new epsic::mode; base->set_Stokes (S); base->set_normal (bm);
  epsic::modulated_mode* mod = 0; epsic::mode* top = base;
  if (kind == "plain") {}
  else if (kind == "lognormal") { double beta = A.d(); top = mod = new epsic::lognormal_mode (base, beta); }
  else if (kind == "boxcar") { double beta = A.d(); unsigned w = A.n(); epsic::modulated_mode* ln = new epsic::lognormal_mode (base, beta);
    top = mod = new epsic::boxcar_modulated_mode (ln, w); }
  else if (kind == "square") { double beta = A.d(); unsigned w = A.n(); unsigned n = A.n(); epsic::modulated_mode* ln = new epsic::lognormal_mode (base, beta);
    top = mod = new epsic::square_modulated_mode (ln, w, n); }
  else throw std::runtime_error ("protocol:mode kind");
  if (modp) *modp = mod;
  return top;
}

static BoxMuller g_bm (0);

int main ()
{
  std::map<std::string, Fn> ops;

  // ------------------------------------------------------------ C01: a single mode
  OP("md.polarizer") { Stokes<double> S = A.stokes(); epsic::mode m; m.set_Stokes (S); O.put (m.get_polarizer()); };
  OP("md.field") { Stokes<double> S = A.stokes(); for (int i=0;i<4;i++) g_normal.push_back ((float) A.d());
    epsic::mode m; m.set_Stokes (S); m.set_normal (&g_bm); Spinor<double> e = m.get_field(); O.put (e);
    Vector<4,double> st; compute_stokes (st, e); O.put (st); O.puti (g_normal_calls); };
  OP("md.theory") { Stokes<double> S = A.stokes(); epsic::mode m; m.set_Stokes (S);
    O.put (Vector<4,double>(m.get_mean())); O.put (m.get_covariance()); O.put (m.get_crosscovariance(0)); O.put (m.get_crosscovariance(1)); O.put (m.get_crosscovariance(7)); };
  // oracle: exact Gaussian ensemble moments of the generated Stokes parameters by product cubature through the deviate source
  // (nodes 0,±1,±2 with weights 1/2,1/6,1/12: exact for polynomials of degree <= 5 per deviate; Stokes products are of degree 4)
  OP("o.c01.moments") { Stokes<double> S = A.stokes(); epsic::mode m; m.set_Stokes (S); m.set_normal (&g_bm);
    static const float node[5] = { 0, 1, -1, 2, -2 }; static const long double wt[5] = { 0.5L, 1.0L/6, 1.0L/6, 1.0L/12, 1.0L/12 };
    long double mean[4] = {0,0,0,0}, sec[4][4]; for (int i=0;i<4;i++) for (int j=0;j<4;j++) sec[i][j] = 0; bool finite = true;
    for (int a=0;a<5;a++) for (int b=0;b<5;b++) for (int c=0;c<5;c++) for (int d=0;d<5;d++) {
      g_normal.push_back (node[a]); g_normal.push_back (node[b]); g_normal.push_back (node[c]); g_normal.push_back (node[d]);
      Spinor<double> e = m.get_field(); Vector<4,double> st; compute_stokes (st, e); long double w = wt[a]*wt[b]*wt[c]*wt[d];
      for (int i=0;i<4;i++) { finite = finite && std::isfinite (st[i]); mean[i] += w*st[i]; for (int j=0;j<4;j++) sec[i][j] += w*(long double)st[i]*st[j]; } }
    Stokes<double> em = m.get_mean(); Matrix<4,4,double> ec = m.get_covariance(); long double scale = std::max ((long double) fabs (S[0]), 1e-300L);
    long double e1 = 0, e2 = 0, e3 = 0;
    for (int i=0;i<4;i++) { e1 = std::max (e1, fabsl (mean[i] - em[i]) / scale); e3 = std::max (e3, fabsl (em[i] - (long double)S[i]) / scale);
      for (int j=0;j<4;j++) e2 = std::max (e2, fabsl (sec[i][j] - mean[i]*mean[j] - ec[i][j]) / (scale*scale)); }
    Matrix<4,4,double> x0 = m.get_crosscovariance(0), x1 = m.get_crosscovariance(1), x9 = m.get_crosscovariance(9); long double e4 = 0;
    for (int i=0;i<4;i++) for (int j=0;j<4;j++) e4 = std::max (e4, std::max (fabsl (x0[i][j]-ec[i][j]), std::max (fabsl ((long double)x1[i][j]), fabsl ((long double)x9[i][j]))) / (scale*scale));
    O.puti (finite ? 1 : 0); O.put ((double) e1); O.put ((double) e2); O.put ((double) e3); O.put ((double) e4); };

  // ------------------------------------------------------------ C06: sample means
  OP("sm.cov") { unsigned n = A.n(); stub_mode s; s.cv = A.d(); unsigned k = A.n(); for (unsigned i=0;i<k;i++) s.x.push_back (A.d());
    epsic::single smp (new epsic::mode); O.put (smp.sample::get_covariance (&s, n)); };
  OP("sm.xcov") { unsigned n = A.n(); unsigned lag = A.n(); stub_mode s; s.cv = A.d(); unsigned k = A.n(); for (unsigned i=0;i<k;i++) s.x.push_back (A.d());
    epsic::single smp (new epsic::mode); O.put (smp.sample::get_crosscovariance (&s, lag, n)); };
  // a single sample over a stub: number of instances consumed by get_Stokes, mean, lag-0 cross-covariance vs covariance
  OP("sm.single") { unsigned n = A.n(); stub_mode* s = new stub_mode; s->cv = A.d(); unsigned k = A.n(); for (unsigned i=0;i<k;i++) s->x.push_back (A.d());
    epsic::single smp (s); smp.sample_size = n; Stokes<double> st = smp.get_Stokes(); O.puti (s->fields); O.put (Vector<4,double>(st));
    O.put (smp.get_covariance()); O.put (smp.get_crosscovariance(0)); O.put (smp.get_crosscovariance(1)); };
  // oracle: predicted (cross-)covariance of the sample mean equals the brute-force double sum of the mode's own per-instance
  // cross-covariances / n^2, for every real mode type; lag-0 cross-covariance equals the covariance; exactly n instances are drawn
  OP("o.c06.sums") { unsigned n = A.n(); unsigned lag = A.n(); Stokes<double> S = A.stokes(); epsic::mode* m = make_mode (A, S, &g_bm);
    epsic::single smp (m); smp.sample_size = n;
    Matrix<4,4,double> cov = smp.get_covariance(), xc = smp.get_crosscovariance (lag), x0 = smp.get_crosscovariance (0);
    long double scale = 1e-300L; Matrix<4,4,double> c1 = m->get_covariance(); for (int i=0;i<4;i++) for (int j=0;j<4;j++) scale = std::max (scale, fabsl ((long double)c1[i][j]));
    long double e1 = 0, e2 = 0, e3 = 0; bool finite = true;
    for (int i=0;i<4;i++) for (int j=0;j<4;j++) {
      long double sc = 0, sx = 0;
      for (unsigned a=0;a<n;a++) for (unsigned b=0;b<n;b++) {
        unsigned l0 = (a > b) ? a-b : b-a; sc += (l0 == 0) ? (long double) m->get_covariance()[i][j] : (long double) m->get_crosscovariance (l0)[i][j];
        unsigned l1 = (lag*n + a > b) ? lag*n + a - b : b - (lag*n + a); sx += (long double) m->get_crosscovariance (l1)[i][j]; }
      sc /= (long double)n*n; sx /= (long double)n*n;
      finite = finite && std::isfinite (cov[i][j]) && std::isfinite (xc[i][j]);
      e1 = std::max (e1, fabsl (cov[i][j] - sc) / scale); e2 = std::max (e2, fabsl (xc[i][j] - sx) / scale); e3 = std::max (e3, fabsl ((long double)x0[i][j] - cov[i][j]) / scale); }
    g_cycle = true; g_normal.push_back (0.5f); g_normal.push_back (-0.25f); g_normal.push_back (1.0f);
    stub_mode* cs = new stub_mode; cs->cv = 1; epsic::single counter (cs); counter.sample_size = n; counter.get_Stokes();
    Vector<4,double> mean = smp.get_mean(); Stokes<double> mm = m->get_mean(); long double e4 = 0; for (int i=0;i<4;i++) e4 = std::max (e4, fabsl ((long double)mean[i] - mm[i]));
    O.puti (finite ? 1 : 0); O.puti (cs->fields == n ? 1 : 0); O.put ((double) e1); O.put ((double) e2); O.put ((double) e3); O.put ((double) e4); };


  // ------------------------------------------------------------ C07: amplitude modulation
  // a sequence of modulation factors from scripted deviates
  OP("mod.seq") { Stokes<double> S (1,0,0,0); epsic::modulated_mode* mod = 0; make_mode (A, S, &g_bm, &mod); unsigned m = A.n();
    while (!A.done()) g_normal.push_back ((float) A.d());
    for (unsigned i=0;i<m;i++) O.put (mod->modulation()); O.puti (g_normal_calls); };
  // reported statistics of a modulated mode
  OP("mod.stats") { Stokes<double> S = A.stokes(); epsic::modulated_mode* mod = 0; epsic::mode* top = make_mode (A, S, &g_bm, &mod); unsigned L = A.n();
    O.put (mod->get_mod_mean()); O.put (mod->get_mod_variance()); O.put (Vector<4,double>(top->get_mean())); O.put (top->get_covariance());
    for (unsigned l=0;l<=L;l++) O.put (top->get_crosscovariance(l)); };
  // modulating a field multiplies its Stokes parameters by the factor
  OP("mod.transform") { double m = A.d(); std::complex<double> x (A.d(), 0); x = std::complex<double>(x.real(), A.d()); double yr = A.d(); double yi = A.d();
    Spinor<double> e (x, std::complex<double>(yr, yi)); epsic::mode base; scripted_mod sm (&base, 1, 0); sm.values.push_back (m);
    Spinor<double> t = sm.transform (e); O.put (t);
    Vector<4,double> s0, s1; compute_stokes (s0, e); compute_stokes (s1, t); double worst = 0;
    for (int i=0;i<4;i++) worst = std::max (worst, std::fabs (s1[i] - m*s0[i]) / std::max (std::fabs (m*s0[0]), 1e-300)); O.put (worst); };
  // oracle (linear filter): exact moments of the boxcar-smoothed factors for iid draws with the declared mean/variance,
  // from the impulse response of the real filter, against what the model reports.  Output: max |error| of mean, variance, lag terms
  OP("o.c07.boxcar") { unsigned w = A.n(); double mu = A.d(); double var = A.d(); unsigned steps = 3*w + 5; unsigned draws = w - 1 + steps;
    std::vector< std::vector<double> > coef (steps, std::vector<double>(draws, 0.0));
    for (unsigned p=0;p<draws;p++) { epsic::mode base; scripted_mod* sm = new scripted_mod (&base, mu, var);
      for (unsigned q=0;q<draws;q++) sm->values.push_back (q == p ? 1.0 : 0.0);
      epsic::boxcar_modulated_mode bx (sm, w); for (unsigned k=0;k<steps;k++) coef[k][p] = bx.modulation(); }
    epsic::mode base; base.set_Stokes (Stokes<double>(1,0,0,0)); scripted_mod* sm = new scripted_mod (&base, mu, var); epsic::boxcar_modulated_mode bx (sm, w);
    double e_mean = 0, e_var = 0, e_lag = 0;
    for (unsigned k=0;k<steps;k++) { double sc = 0, sq = 0; for (unsigned p=0;p<draws;p++) { sc += coef[k][p]; sq += coef[k][p]*coef[k][p]; }
      e_mean = std::max (e_mean, std::fabs (mu*sc - bx.get_mod_mean())); e_var = std::max (e_var, std::fabs (var*sq - bx.get_mod_variance()));
      for (unsigned l=1; l<=w+1 && k+l<steps; l++) { double cr = 0; for (unsigned p=0;p<draws;p++) cr += coef[k][p]*coef[k+l][p];
        double reported = bx.get_crosscovariance(l)[0][0];   // outer(S,S)[0][0] = 1 for S = (1,0,0,0)
        e_lag = std::max (e_lag, std::fabs (var*cr - reported)); } }
    O.put (e_mean); O.put (e_var); O.put (e_lag); };
  // oracle (sample and hold): exact same-block fractions over one full phase cycle against the reported lag correlations,
  // within a sample (lag < n) -- output: max |error| over lags, then the lag-0 term
  OP("o.c07.square") { unsigned w = A.n(); unsigned n = A.n(); epsic::mode base; base.set_Stokes (Stokes<double>(1,0,0,0));
    scripted_mod* sm = new scripted_mod (&base, 1.0, 1.0); epsic::square_modulated_mode sq (sm, w, n);
    // block index of every instance over one phase cycle: instance t belongs to block t / w ; samples are [s n, (s+1) n)
    unsigned long cycle = (unsigned long) w * n; double worst = 0;
    for (unsigned l=0; l<n && l<w+2; l++) { unsigned long same = 0, pairs = 0;
      for (unsigned long s=0; s<cycle/n*1; s++) for (unsigned i=0; i+l<n; i++) { unsigned long t = s*n + i; pairs++; if (t / w == (t + l) / w) same++; }
      double exact = pairs ? double(same)/pairs : 0; double reported = sq.get_crosscovariance(l)[0][0] / (l == 0 ? sq.get_covariance()[0][0] : 1.0);
      if (l == 0) exact = 1.0;
      worst = std::max (worst, std::fabs (exact - reported)); }
    O.put (worst); };
  // oracle (sample and hold across samples): the correlation between instance i of one sample and instance j of the next
  OP("o.c07.squarelag") { unsigned w = A.n(); unsigned n = A.n(); unsigned slag = A.n(); epsic::mode base; base.set_Stokes (Stokes<double>(1,0,0,0));
    scripted_mod* sm = new scripted_mod (&base, 1.0, 1.0); epsic::square_modulated_mode* sq = new epsic::square_modulated_mode (sm, w, n);
    epsic::single smp (sq); smp.sample_size = n; double reported = smp.get_crosscovariance (slag)[0][0];
    unsigned long cycle = (unsigned long) w * n; long double acc = 0; unsigned long cnt = 0;
    for (unsigned long s=0; s<cycle/n; s++) { for (unsigned i=0;i<n;i++) for (unsigned j=0;j<n;j++) { unsigned long t1 = s*n + i, t2 = (s+slag)*n + j; if (t1 / w == t2 / w) acc += 1; } cnt++; }
    long double exact = acc / cnt / ((long double)n*n);      // modulation variance 1, outer(S,S)[0][0] = 1
    if (slag == 0) { long double fieldterm = 0.5L * 2.0L / n; exact += fieldterm; }   // (mu^2+var) C00 / n with C00 = 1/2
    O.put ((double) fabsl (exact - reported)); };
  // oracle (log-normal): mean and variance of the generated factors by Gauss-Hermite quadrature through the deviate source
  OP("o.c07.lognormal") { double beta = A.d(); epsic::mode base; epsic::lognormal_mode ln (&base, beta); ln.set_normal (&g_bm);
    static const double gx[16] = { 0.27348104613815245, 0.82295144914465589, 1.3802585391988808, 1.9517879909162540, 2.5462021578474814, 3.1769991619799560, 3.8694479048601227, 4.6887389393058184,
      -0.27348104613815245, -0.82295144914465589, -1.3802585391988808, -1.9517879909162540, -2.5462021578474814, -3.1769991619799560, -3.8694479048601227, -4.6887389393058184 };
    static const double gw[8] = { 5.0792947901661374e-1, 2.8064745852853368e-1, 8.3810041398985829e-2, 1.2880311535509974e-2, 9.3228400862418053e-4, 2.7118600925378815e-5, 2.3209808448652107e-7, 2.6548074740111822e-10 };
    // nodes x_i, weights w_i for integral exp(-x^2) f(x); standard normal: g = sqrt(2) x, weight w/sqrt(pi)
    long double m1 = 0, m2 = 0;
    for (int i=0;i<16;i++) { float g = (float)(sqrt(2.0)*gx[i]); g_normal.push_back (g); double v = ln.modulation();
      // compensate the rounding of the node to float: evaluate the weight at the float node through the density ratio
      long double wgt = gw[i%8] / sqrtl (M_PIl) * expl (gx[i]*gx[i] - 0.5L*(long double)g*g) ;
      m1 += wgt*v; m2 += wgt*(long double)v*v; }
    long double var = m2 - m1*m1; long double rv = ln.get_mod_variance();
    O.put ((double) fabsl (m1 - ln.get_mod_mean())); O.put ((double) (fabsl (var - rv) / std::max (rv, 1e-300L))); O.put (std::fabs (sqrt (ln.get_mod_variance()) - beta) / beta); };


  // ------------------------------------------------------------ C08: covariant mode pairs
  // build the bivariate log-normal coordinator, request factors in the given interleaving ('A'/'B')
  OP("cov.seq") { double rho = A.d(); double b0 = A.d(); double b1 = A.d(); std::string pat = A.next();
    while (!A.done()) g_normal.push_back ((float) A.d());
    epsic::bivariate_lognormal_modes* co = new epsic::bivariate_lognormal_modes (rho); co->set_normal (&g_bm);
    co->set_beta (0, b0); co->set_beta (1, b1);
    epsic::mode* ma = new epsic::mode; epsic::mode* mb = new epsic::mode;
    epsic::modulated_mode* A_ = co->get_modulated_mode (0, ma); epsic::modulated_mode* B_ = co->get_modulated_mode (1, mb);
    O.put (A_->get_mod_mean()); O.put (A_->get_mod_variance()); O.put (B_->get_mod_mean()); O.put (B_->get_mod_variance());
    O.put (co->get_correlation()); O.put (co->get_intensity_covariance());
    for (char c : pat) O.put (c == 'A' ? A_->modulation() : B_->modulation());
    O.puti (g_normal_calls); };
  // oracle: pairing under an arbitrary interleaving, with a counting coordinator (draw k delivers (k, k + 1/2))
  OP("o.c08.pairing") { std::string pat = A.next();
    struct counting : public epsic::covariant_coordinator { unsigned long k = 0; counting () : covariant_coordinator (0.0) {}
      void get_modulation (double& a, double& b) { a = double(k); b = double(k) + 0.5; k++; }
      double get_mod_mean (unsigned) const { return 1; } double get_mod_variance (unsigned) const { return 1; } } co;
    epsic::mode ma, mb; epsic::modulated_mode* A_ = co.get_modulated_mode (0, &ma); epsic::modulated_mode* B_ = co.get_modulated_mode (1, &mb);
    unsigned long na = 0, nb = 0; long bad = 0;
    for (char c : pat) { if (c == 'A') { double v = A_->modulation(); if (v != double(na)) bad++; na++; } else { double v = B_->modulation(); if (v != double(nb) + 0.5) bad++; nb++; } }
    // every draw is made exactly once: the number of draws equals the larger request count
    if (co.k != std::max (na, nb)) bad++;
    O.put ((double) bad); };
  // oracle: moments of the delivered pairs by 2-D Gauss-Hermite quadrature through the deviate source
  OP("o.c08.moments") { double rho = A.d(); double b0 = A.d(); double b1 = A.d();
    epsic::bivariate_lognormal_modes* co = new epsic::bivariate_lognormal_modes (rho); co->set_normal (&g_bm);
    co->set_beta (0, b0); co->set_beta (1, b1); epsic::mode* ma = new epsic::mode; epsic::mode* mb = new epsic::mode;
    epsic::modulated_mode* A_ = co->get_modulated_mode (0, ma); epsic::modulated_mode* B_ = co->get_modulated_mode (1, mb);
    static const double gx[8] = { 0.27348104613815245, 0.82295144914465589, 1.3802585391988808, 1.9517879909162540, 2.5462021578474814, 3.1769991619799560, 3.8694479048601227, 4.6887389393058184 };
    static const double gw[8] = { 5.0792947901661374e-1, 2.8064745852853368e-1, 8.3810041398985829e-2, 1.2880311535509974e-2, 9.3228400862418053e-4, 2.7118600925378815e-5, 2.3209808448652107e-7, 2.6548074740111822e-10 };
    long double ma1 = 0, mb1 = 0, maa = 0, mbb = 0, mab = 0; bool finite = true;
    for (int i=0;i<16;i++) for (int j=0;j<16;j++) {
      double xi = (i<8 ? gx[i] : -gx[i-8]), xj = (j<8 ? gx[j] : -gx[j-8]);
      float gi = (float)(sqrt(2.0)*xi), gj = (float)(sqrt(2.0)*xj); g_normal.push_back (gi); g_normal.push_back (gj);
      double a = A_->modulation(); double b = B_->modulation(); finite = finite && std::isfinite (a) && std::isfinite (b);
      long double w = gw[i%8]*gw[j%8] / M_PIl * expl (xi*xi - 0.5L*(long double)gi*gi) * expl (xj*xj - 0.5L*(long double)gj*gj);
      ma1 += w*a; mb1 += w*b; maa += w*(long double)a*a; mbb += w*(long double)b*b; mab += w*(long double)a*b; }
    long double va = maa - ma1*ma1, vb = mbb - mb1*mb1, cab = mab - ma1*mb1;
    O.puti (finite ? 1 : 0);
    O.put ((double) fabsl (ma1 - 1)); O.put ((double) fabsl (mb1 - 1)); O.put ((double) (fabsl (va - b0*b0) / (b0*b0))); O.put ((double) (fabsl (vb - b1*b1) / (b1*b1)));
    O.put ((double) (fabsl (cab - rho*b0*b1) / (b0*b1))); O.put ((double) (fabsl (cab - co->get_intensity_covariance()) / (b0*b1))); };

  std::string line;
  while (std::getline (std::cin, line)) {
    A_ a; { std::istringstream is (line); std::string t; while (is >> t) a.tok.push_back (t); }
    if (a.tok.empty()) { std::cout << "err empty\n"; continue; }
    auto it = ops.find (a.next());
    if (it == ops.end()) { std::cout << "err unknown-op\n"; continue; }
    O_ o; reset_sources (); Pauli::basis().set_basis (Signal::Linear);
    try { it->second (a, o); std::cout << "ok" << o.os.str() << "\n"; }
    catch (Exhausted& e) { std::cout << "err " << e.what() << "\n"; }
    catch (std::exception& e) { std::string w = e.what(); std::cout << "err " << (w.compare(0,9,"protocol:") == 0 ? w : "throw:" + w) << "\n"; }
  }
  return 0;
}
