// Exact rational scalar for instantiating the epsic templates (verification harness only).
// Thin wrapper over GMP mpq_class.  Division by zero and irrational / negative square roots are
// C++ exceptions (mapped to `err div0`, `err sqrt-irrational`, `err sqrt-neg` by the drivers).
#ifndef VERIF_RAT_H
#define VERIF_RAT_H

#include <gmpxx.h>
#include <complex>
#include <string>
#include <stdexcept>
#include <iostream>
#include <limits>
#include <type_traits>

struct RatDivZero : std::runtime_error { RatDivZero() : std::runtime_error("div0") {} };
struct RatSqrtNeg : std::runtime_error { RatSqrtNeg() : std::runtime_error("sqrt-neg") {} };
struct RatSqrtIrr : std::runtime_error { RatSqrtIrr() : std::runtime_error("sqrt-irrational") {} };

class Rat {
public:
  mpq_class v;
  Rat () : v(0) {}
  Rat (const mpq_class& q) : v(q) { v.canonicalize(); }
  template<typename A, typename = typename std::enable_if<std::is_arithmetic<A>::value>::type>
  Rat (A x) : v(from(x)) {}
  static mpq_class from (double x) { return mpq_class(x); }      // exact (dyadic)
  static mpq_class from (float x) { return mpq_class((double)x); }
  static mpq_class from (long double x) { return mpq_class((double)x); }
  static mpq_class from (int x) { return mpq_class(x); }
  static mpq_class from (unsigned x) { return mpq_class(x); }
  static mpq_class from (long x) { return mpq_class(x); }
  static mpq_class from (unsigned long x) { return mpq_class(x); }
  static mpq_class from (bool x) { return mpq_class((int)x); }
  static mpq_class from (char x) { return mpq_class((int)x); }

  Rat& operator += (const Rat& o) { v += o.v; return *this; }
  Rat& operator -= (const Rat& o) { v -= o.v; return *this; }
  Rat& operator *= (const Rat& o) { v *= o.v; return *this; }
  Rat& operator /= (const Rat& o) { if (o.v == 0) throw RatDivZero(); v /= o.v; return *this; }
  Rat operator - () const { return Rat(mpq_class(-v)); }
  Rat operator + () const { return *this; }
  explicit operator double () const { return v.get_d(); }
  explicit operator bool () const { return v != 0; }
  std::string str () const { return v.get_str(); }
};

#define RAT_BINOP(op) \
  inline Rat operator op (const Rat& a, const Rat& b) { Rat r(a); r op##= b; return r; } \
  template<typename A, typename = typename std::enable_if<std::is_arithmetic<A>::value>::type> \
  inline Rat operator op (const Rat& a, A b) { Rat r(a); r op##= Rat(b); return r; } \
  template<typename A, typename = typename std::enable_if<std::is_arithmetic<A>::value>::type> \
  inline Rat operator op (A a, const Rat& b) { Rat r(a); r op##= b; return r; }
RAT_BINOP(+)
RAT_BINOP(-)
RAT_BINOP(*)
RAT_BINOP(/)
#undef RAT_BINOP

#define RAT_CMP(op) \
  inline bool operator op (const Rat& a, const Rat& b) { return a.v op b.v; } \
  template<typename A, typename = typename std::enable_if<std::is_arithmetic<A>::value>::type> \
  inline bool operator op (const Rat& a, A b) { return a.v op Rat(b).v; } \
  template<typename A, typename = typename std::enable_if<std::is_arithmetic<A>::value>::type> \
  inline bool operator op (A a, const Rat& b) { return Rat(a).v op b.v; }
RAT_CMP(==)
RAT_CMP(!=)
RAT_CMP(<)
RAT_CMP(>)
RAT_CMP(<=)
RAT_CMP(>=)
#undef RAT_CMP

inline std::ostream& operator << (std::ostream& os, const Rat& r) { return os << r.str(); }
inline std::istream& operator >> (std::istream& is, Rat& r)
{ std::string s; is >> s; r.v = mpq_class(s); r.v.canonicalize(); return is; }

// exact square root of a rational; throws when negative or irrational
inline Rat sqrt (const Rat& x)
{
  if (x.v < 0) throw RatSqrtNeg();
  mpz_class n = x.v.get_num(), d = x.v.get_den();
  mpz_class rn, rd;
  mpz_sqrt (rn.get_mpz_t(), n.get_mpz_t());
  mpz_sqrt (rd.get_mpz_t(), d.get_mpz_t());
  if (rn*rn != n || rd*rd != d) throw RatSqrtIrr();
  return Rat (mpq_class (rn, rd));
}


// Explicit specialisation of std::complex for the exact scalar: same layout and generic
// formulas as libstdc++'s primary template, plus converting constructors from arithmetic types
// (the epsic headers initialise complex numbers from literals such as 0.0 and 1).
namespace std {
  template<> class complex<Rat> {
    Rat _M_real, _M_imag;
  public:
    typedef Rat value_type;
    complex (const Rat& r = Rat(), const Rat& i = Rat()) : _M_real(r), _M_imag(i) {}
    template<typename A, typename = typename std::enable_if<std::is_arithmetic<A>::value>::type>
    complex (A r) : _M_real(r), _M_imag(0) {}
    template<typename A, typename B,
             typename = typename std::enable_if<std::is_arithmetic<A>::value && std::is_arithmetic<B>::value>::type>
    complex (A r, B i) : _M_real(r), _M_imag(i) {}
    template<typename A, typename = typename std::enable_if<std::is_arithmetic<A>::value>::type>
    complex (const Rat& r, A i) : _M_real(r), _M_imag(i) {}
    template<typename A, typename = typename std::enable_if<std::is_arithmetic<A>::value>::type>
    complex (A r, const Rat& i) : _M_real(r), _M_imag(i) {}
    template<typename U, typename = typename std::enable_if<std::is_arithmetic<U>::value>::type>
    complex (const complex<U>& z) : _M_real(z.real()), _M_imag(z.imag()) {}
    Rat real () const { return _M_real; }
    Rat imag () const { return _M_imag; }
    void real (const Rat& v) { _M_real = v; }
    void imag (const Rat& v) { _M_imag = v; }
    complex& operator = (const Rat& t) { _M_real = t; _M_imag = Rat(); return *this; }
    template<typename A, typename = typename std::enable_if<std::is_arithmetic<A>::value>::type>
    complex& operator = (A t) { _M_real = Rat(t); _M_imag = Rat(); return *this; }
    complex& operator += (const Rat& t) { _M_real += t; return *this; }
    complex& operator -= (const Rat& t) { _M_real -= t; return *this; }
    complex& operator *= (const Rat& t) { _M_real *= t; _M_imag *= t; return *this; }
    complex& operator /= (const Rat& t) { _M_real /= t; _M_imag /= t; return *this; }
    template<typename U> complex& operator += (const complex<U>& z)
    { _M_real += z.real(); _M_imag += z.imag(); return *this; }
    template<typename U> complex& operator -= (const complex<U>& z)
    { _M_real -= z.real(); _M_imag -= z.imag(); return *this; }
    template<typename U> complex& operator *= (const complex<U>& z)
    { const Rat r = _M_real * z.real() - _M_imag * z.imag();
      _M_imag = _M_real * z.imag() + _M_imag * z.real(); _M_real = r; return *this; }
    template<typename U> complex& operator /= (const complex<U>& z)
    { const Rat r = _M_real * z.real() + _M_imag * z.imag();
      const Rat n = Rat(z.real())*Rat(z.real()) + Rat(z.imag())*Rat(z.imag());
      _M_imag = (_M_imag * z.real() - _M_real * z.imag()) / n; _M_real = r / n; return *this; }
  };
}

// only used for pivot *ordering* in GaussJordan (the result does not depend on it)
inline double fabs (const Rat& x) { double d = x.v.get_d(); return d < 0 ? -d : d; }
inline Rat abs (const Rat& x) { return x.v < 0 ? -x : x; }
inline double fabs (const std::complex<Rat>& z)
{ double a = z.real().v.get_d(), b = z.imag().v.get_d(); return a*a + b*b; }

// modulus of an exact complex rational (throws when irrational); non-template overloads are preferred to std's templates
namespace std { inline Rat abs (const complex<Rat>& z) { return sqrt (z.real()*z.real() + z.imag()*z.imag()); } }

// principal square root of an exact complex rational (throws when irrational)
inline std::complex<Rat> sqrt (const std::complex<Rat>& z)
{
  Rat a = z.real(), b = z.imag();
  Rat m = sqrt (a*a + b*b);
  if (b == 0) {
    if (a >= 0) return std::complex<Rat> (sqrt(a), Rat(0));
    return std::complex<Rat> (Rat(0), sqrt(-a));
  }
  Rat re = sqrt ((m + a) / 2);
  Rat im = sqrt ((m - a) / 2);
  if (b < 0) im = -im;
  return std::complex<Rat> (re, im);
}

namespace std {
  template<> struct numeric_limits<Rat> {
    static constexpr bool is_specialized = true;
    static Rat epsilon () { return Rat(0); }
    static Rat min () { return Rat(0); }
    static Rat max () { return Rat(0); }
  };
}

#endif
