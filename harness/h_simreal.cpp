// Harness driver, group "simreal" (property C08): the covariant coordinator driven by the REAL BoxMuller.C (group "sim" links a
// scripted stand-in for the class), with the uniform source drand48() interposed by a scripted queue.  The generator object is
// shared with other consumers, as it is in the simulator (every mode draws its field from the same BoxMuller), so a joint draw
// may start when the generator holds the second deviate of a polar transform.
#include <cstring>
#include <cstdio>
#include <cmath>
#include <string>
#include <vector>
#include <deque>
#include <sstream>
#include <iostream>
#include <stdexcept>
#include "BoxMuller.h"
#include "covariant.h"

static std::deque<double> g_uniform; static unsigned long g_ucalls = 0; static const char* g_exhausted = 0;
extern "C" double drand48 (void) noexcept { g_ucalls++; if (g_uniform.empty()) { g_exhausted = "uniform-exhausted"; return 0.3; } double v = g_uniform.front(); g_uniform.pop_front(); return v; }
extern "C" void srand48 (long) noexcept { }

static double rd (const std::string& s) { unsigned long long u = std::stoull (s, 0, 16); double d; memcpy (&d, &u, 8); return d; }
static std::string hx (double x) { unsigned long long u; memcpy (&u, &x, 8); char b[20]; snprintf (b, 20, " %016llx", u); return b; }

int main ()
{
  std::string line;
  while (std::getline (std::cin, line)) {
    std::vector<std::string> t; { std::istringstream is (line); std::string x; while (is >> x) t.push_back (x); }
    if (t.empty()) { std::cout << "err empty\n"; continue; }
    g_uniform.clear(); g_ucalls = 0; g_exhausted = 0;
    const std::string& op = t[0]; std::ostringstream o;
    try {
      // o.c08.shared rho b0 b1 pattern uniforms...: pattern over A, B (a request from that mode) and x (another consumer takes one
      // deviate from the shared generator).  Every joint draw must use the next two deviates of the generator's stream, whatever
      // was taken before: the delivered factors are compared with the closed form
      //   f_i = exp( (M n)_i - ls_i^2/2 ),  M = (C + sqrt(det C) 1) / sqrt(tr C + 2 sqrt(det C)),  C = log-covariance matrix,
      // evaluated on the deviates that a twin generator fed the same uniforms hands out one by one, with the k-th factor of A and
      // the k-th factor of B taken from the same draw.  Output: largest relative deviation, and |uniforms used - twin's count|
      if (op == "o.c08.shared") {
        double rho = rd (t[1]), b0 = rd (t[2]), b1 = rd (t[3]); std::string pat = t[4];
        std::vector<double> us; for (size_t i=5;i<t.size();i++) us.push_back (rd (t[i]));
        // interleaving -> which joint draw serves each request, and where in the deviate stream each joint draw starts
        std::vector<long> start; std::vector<std::pair<int,long> > req; { long pos = 0; long na = 0, nb = 0;
          for (char c : pat) { if (c == 'x') { pos++; continue; }
            long& mine = (c == 'A') ? na : nb; if (mine == (long) start.size()) { start.push_back (pos); pos += 2; }
            req.push_back (std::make_pair (c == 'A' ? 0 : 1, mine)); mine++; } }
        long total = 0; for (char c : pat) if (c == 'x') total++; total += 2 * (long) start.size();
        // twin: the deviates one by one
        std::vector<double> dev; { for (double u : us) g_uniform.push_back (u); BoxMuller twin (0); for (long i=0;i<total;i++) dev.push_back (twin.evaluate()); }
        if (g_exhausted) throw std::runtime_error (g_exhausted);
        unsigned long twin_used = g_ucalls; g_uniform.clear(); g_ucalls = 0; for (double u : us) g_uniform.push_back (u);
        BoxMuller shared (0);
        epsic::bivariate_lognormal_modes* co = new epsic::bivariate_lognormal_modes (rho); co->set_normal (&shared);
        co->set_beta (0, b0); co->set_beta (1, b1);
        epsic::mode* ma = new epsic::mode; epsic::mode* mb = new epsic::mode;
        epsic::modulated_mode* A_ = co->get_modulated_mode (0, ma); epsic::modulated_mode* B_ = co->get_modulated_mode (1, mb);
        double ls0 = std::sqrt (std::log (b0*b0 + 1.0)), ls1 = std::sqrt (std::log (b1*b1 + 1.0));
        double c00 = ls0*ls0, c11 = ls1*ls1, c01 = std::log (rho * b0 * b1 + 1.0);
        double det = c00*c11 - c01*c01; if (det < 0) det = 0; double s = std::sqrt (det), tt = std::sqrt (c00 + c11 + 2*s);
        double m00 = (c00 + s)/tt, m11 = (c11 + s)/tt, m01 = c01/tt;
        double worst = 0; size_t r = 0;
        for (char c : pat) {
          if (c == 'x') { shared.evaluate(); continue; }
          double got = (c == 'A') ? A_->modulation() : B_->modulation();
          long k = req[r].second; int which = req[r].first; r++;
          double n0 = dev[start[k]], n1 = dev[start[k] + 1];
          double want = which == 0 ? std::exp (m00*n0 + m01*n1 - 0.5*c00) : std::exp (m01*n0 + m11*n1 - 0.5*c11);
          double d = std::fabs (got - want) / std::fabs (want); if (!(d == d)) d = 1e300; worst = std::max (worst, d); }
        if (g_exhausted) throw std::runtime_error (g_exhausted);
        // the coordinator may have drawn ahead by at most nothing: every draw it makes is requested
        double du = std::fabs ((double) g_ucalls - (double) twin_used);
        o << hx (worst) << hx (du); }
      // cov.shared rho b0 b1 pattern uniforms...: the same scenario, compared with the model (Box-Muller stream model composed with
      // the coordinator model on a shared position counter): delivered factors in request order, then the uniforms consumed
      else if (op == "cov.shared") {
        double rho = rd (t[1]), b0 = rd (t[2]), b1 = rd (t[3]); std::string pat = t[4];
        for (size_t i=5;i<t.size();i++) g_uniform.push_back (rd (t[i]));
        BoxMuller shared (0);
        epsic::bivariate_lognormal_modes* co = new epsic::bivariate_lognormal_modes (rho); co->set_normal (&shared);
        co->set_beta (0, b0); co->set_beta (1, b1);
        epsic::mode* ma = new epsic::mode; epsic::mode* mb = new epsic::mode;
        epsic::modulated_mode* A_ = co->get_modulated_mode (0, ma); epsic::modulated_mode* B_ = co->get_modulated_mode (1, mb);
        for (char c : pat) { if (c == 'x') { shared.evaluate(); continue; } o << hx (c == 'A' ? A_->modulation() : B_->modulation()); }
        if (g_exhausted) throw std::runtime_error (g_exhausted);
        o << " " << g_ucalls; }
      else { std::cout << "err unknown-op\n"; continue; }
      std::cout << "ok" << o.str() << "\n";
    }
    catch (std::exception& e) { std::cout << "throw " << e.what() << "\n"; }
  }
  return 0;
}
