// Harness driver, group "rand" (property C18): the real BoxMuller.C and random.C with the uniform
// sources drand48() / random() interposed by scripted queues (the executable's definitions take
// precedence over libc's for the library code linked into it).  `lcg.seq` calls the real libc
// drand48 through dlsym(RTLD_NEXT).  Doubles as 16-hex-digit bit patterns.
#ifndef _GNU_SOURCE
#define _GNU_SOURCE
#endif
#include <thread>
#include <cstdlib>
#include <dlfcn.h>
#include <cstring>
#include <cstdio>
#include <cmath>
#include <string>
#include <vector>
#include <deque>
#include <sstream>
#include <iostream>
#include <stdexcept>
#include "BoxMuller.h"
#include "random.h"
#include "Stokes.h"
#include "Matrix.h"

static std::deque<double> g_uniform; static std::deque<long> g_random; static unsigned long g_ucalls = 0, g_rcalls = 0;
static const char* g_exhausted = 0; // the sources are noexcept: exhaustion is flagged and a harmless value returned
struct Exhausted : std::runtime_error { Exhausted(const char* w) : std::runtime_error(w) {} };
static bool g_use_real = false; typedef double (*drand48_t)(void); typedef void (*srand48_t)(long); static drand48_t real_drand48; static srand48_t real_srand48;
extern "C" double drand48 (void) noexcept { g_ucalls++; if (g_use_real) return real_drand48(); if (g_uniform.empty()) { g_exhausted = "uniform-exhausted"; return 0.3; } double v = g_uniform.front(); g_uniform.pop_front(); return v; }
extern "C" long random (void) noexcept { g_rcalls++; if (g_random.empty()) { g_exhausted = "random-exhausted"; return 12345; } long v = g_random.front(); g_random.pop_front(); return v; }
static long g_seed48 = 0; static unsigned g_seedr = 0; static bool g_seeded = false;
extern "C" void srand48 (long s) noexcept { g_seed48 = s; g_seeded = true; if (g_use_real) real_srand48 (s); }
extern "C" void srandom (unsigned s) noexcept { g_seedr = s; }

static double rd (const std::string& s) { unsigned long long u = std::stoull (s, 0, 16); double d; memcpy (&d, &u, 8); return d; }
static std::string hx (double x) { unsigned long long u; memcpy (&u, &x, 8); char b[20]; snprintf (b, 20, " %016llx", u); return b; }

static void process (const std::string& line)
{
  do {
    std::vector<std::string> t; { std::istringstream is (line); std::string x; while (is >> x) t.push_back (x); }
    if (t.empty()) { std::cout << "err empty\n"; continue; }
    g_uniform.clear(); g_random.clear(); g_ucalls = g_rcalls = 0; g_use_real = false; g_exhausted = 0;
    const std::string& op = t[0]; std::ostringstream o;
    try {
      if (op == "bm.seq") { unsigned n = std::stoul (t[1]); for (size_t i=2;i<t.size();i++) g_uniform.push_back (rd (t[i]));
        BoxMuller bm (0); for (unsigned i=0;i<n;i++) o << hx ((double) bm()); o << " " << g_ucalls; }
      else if (op == "bm.two") { std::string pat = t[1]; for (size_t i=2;i<t.size();i++) g_uniform.push_back (rd (t[i]));
        BoxMuller a (0), b (0); for (char c : pat) o << hx ((double) (c == 'A' ? a.evaluate() : b.evaluate())); o << " " << g_ucalls; }
      else if (op == "bm.seed") { long seed = std::stol (t[1]); g_seeded = false; BoxMuller bm (seed); if (g_seeded) o << " " << g_seed48; else o << " none"; }
      // the real libc source seeded through the constructor: the whole chain seed -> uniforms -> deviates
      else if (op == "bm.real") { long seed = std::stol (t[1]); unsigned n = std::stoul (t[2]); g_use_real = true; BoxMuller bm (seed);
        for (unsigned i=0;i<n;i++) o << hx ((double) bm()); o << " " << g_ucalls; g_use_real = false; }
      // oracle (history): the stream of a seeded generator is a function of its seed, whatever else the program does with the
      // other random helpers in between (random_init, random_double, random_value: they use random(), another source).
      // Real libc drand48.  Output: deviates that differ from the undisturbed run, and whether the seed in force changed
      else if (op == "o.c18.reseed") { long seed = std::stol (t[1]); unsigned n = std::stoul (t[2]); unsigned every = std::stoul (t[3]); g_use_real = true;
        std::vector<float> a, b; { BoxMuller g (seed); for (unsigned i=0;i<n;i++) a.push_back (g.evaluate()); }
        { BoxMuller g (seed); random_init ();
          for (unsigned i=0;i<n;i++) { if (every && i % every == every - 1) random_init (); g_random.push_back (12345 + i); (void) random_double (); double v; g_random.push_back (777 + i); random_value (v, 2.0); b.push_back (g.evaluate()); } }
        long bad = 0; for (unsigned i=0;i<n;i++) if (memcmp (&a[i], &b[i], 4) != 0) bad++;
        o << " " << bad << " " << (g_seed48 == seed ? 0 : 1); g_use_real = false; g_random.clear(); }
      // oracle: the delivered stream against a reference polar transform written out here (same single/double
      // precision steps), which rejects w >= 1 and w == 0: number of positions that differ, and uniforms consumed differ
      else if (op == "o.c18.stream") { unsigned n = std::stoul (t[1]); std::vector<double> us; for (size_t i=2;i<t.size();i++) { us.push_back (rd (t[i])); g_uniform.push_back (us.back()); }
        std::vector<float> ref; size_t k = 0;
        while (ref.size() < n && k + 1 < us.size()) { float v1 = 2.0*us[k] - 1.0, v2 = 2.0*us[k+1] - 1.0; k += 2; float w = v1*v1 + v2*v2;
          if (w >= 1.0 || w == 0.0) continue; float f = std::sqrt ((-2.0 * std::log (w)) / w); ref.push_back (v1*f); ref.push_back (v2*f); }
        bool truncated = ref.size() < n; if (truncated) n = ref.size();  // supply exhausted: compare what can be delivered
        BoxMuller bm (0); unsigned bad = 0; for (unsigned i=0;i<n;i++) { float x = bm(); if (memcmp (&x, &ref[i], 4) != 0) bad++; }
        o << " " << bad << " " << ((truncated || g_ucalls == k) ? 0 : 1); }
      // oracle: every deviate delivered is finite (flag) 
      else if (op == "o.c18.finite") { unsigned n = std::stoul (t[1]); for (size_t i=2;i<t.size();i++) g_uniform.push_back (rd (t[i]));
        BoxMuller bm (0); unsigned bad = 0; for (unsigned i=0;i<n;i++) { float x = bm(); if (!(x - x == 0)) bad++; } o << " " << bad; }
      // oracle: a rejection run of n pairs (far beyond anything a line can script) followed by an accepted pair: the two deviates
      // are those of the accepted pair alone, and exactly 2n+2 uniforms are consumed
      else if (op == "o.c18.longreject") { unsigned long n = std::stoul (t[1]); double u1 = rd (t[2]), u2 = rd (t[3]);
        for (unsigned long i=0;i<n;i++) { g_uniform.push_back (0.99); g_uniform.push_back (0.01 + 0.98 * ((i % 7) == 0)); }   // (0.99, 0.01) and (0.99, 0.99): both outside the disc
        g_uniform.push_back (u1); g_uniform.push_back (u2); g_uniform.push_back (0.5); g_uniform.push_back (0.5);
        g_ucalls = 0; unsigned bad = 0; float a = 0, b = 0;
        try { BoxMuller bm (0); a = bm(); b = bm(); } catch (std::exception&) { bad += 4; }
        if (g_ucalls != 2*n + 2) bad++;
        g_uniform.clear(); g_uniform.push_back (u1); g_uniform.push_back (u2); g_uniform.push_back (0.5); g_uniform.push_back (0.5);
        BoxMuller ref (0); float ra = ref(), rb = ref(); if (memcmp (&a, &ra, 4) != 0) bad++; if (memcmp (&b, &rb, 4) != 0) bad++;
        g_uniform.clear(); o << " " << bad; }
      else if (op == "lcg.seq") { long seed = std::stol (t[1]); unsigned n = std::stoul (t[2]); real_srand48 (seed); for (unsigned i=0;i<n;i++) o << hx (real_drand48()); }
      else if (op == "rnd.double") { g_random.push_back (std::stol (t[1])); o << hx (random_double()); }
      else if (op == "rnd.value") { double scale = rd (t[1]); g_random.push_back (std::stol (t[2])); double v; random_value (v, scale); o << hx (v); }
      else if (op == "rnd.cvalue") { double scale = rd (t[1]); g_random.push_back (std::stol (t[2])); g_random.push_back (std::stol (t[3]));
        std::complex<double> z; random_value (z, scale); o << hx (z.real()) << hx (z.imag()); }
      else if (op == "rnd.vector") { double scale = rd (t[1]); for (size_t i=2;i<t.size();i++) g_random.push_back (std::stol (t[i]));
        Vector<3,double> v; random_vector (v, scale); for (unsigned i=0;i<3;i++) o << hx (v[i]);
        Matrix<2,2,double> m; random_matrix (m, scale); for (unsigned i=0;i<2;i++) for (unsigned j=0;j<2;j++) o << hx (m[i][j]); o << " " << g_rcalls; }
      else if (op == "rnd.stokes") { double scale = rd (t[1]); float maxpol = (float) rd (t[2]); for (size_t i=3;i<t.size();i++) g_random.push_back (std::stol (t[i]));
        Stokes<double> s; random_value (s, scale, maxpol); for (unsigned i=0;i<4;i++) o << hx (s[i]); o << " " << g_rcalls; }
      // oracle: range contracts on the implementation: output flags (1 = holds)
      else if (op == "o.c18.ranges") { double scale = rd (t[1]); float maxpol = (float) rd (t[2]); std::vector<long> rs; for (size_t i=3;i<t.size();i++) rs.push_back (std::stol (t[i]));
        bool ok1 = true, ok2 = true, ok3 = true;
        for (long r : rs) { g_random.push_back (r); double u = random_double(); ok1 = ok1 && (u >= 0.0 && u <= 1.0);
          g_random.push_back (r); double v; random_value (v, scale); ok2 = ok2 && (std::fabs (v) <= std::fabs (scale)); }
        for (size_t i=0;i+3<rs.size();i++) { for (int k=0;k<4;k++) g_random.push_back (rs[i+k]); Stokes<double> s;
          try { random_value (s, scale, maxpol);
            // the squares of the invariant are representable only for moderate scales: outside, compare component-wise
            bool moderate = std::fabs (scale) >= 1e-140 && std::fabs (scale) <= 1e140;
            double p = moderate ? s.abs_vect() : std::fabs (scale) * std::sqrt ((s[1]/scale)*(s[1]/scale) + (s[2]/scale)*(s[2]/scale) + (s[3]/scale)*(s[3]/scale));
            if (scale == 0) p = std::fabs (s[1]) + std::fabs (s[2]) + std::fabs (s[3]);
            ok3 = ok3 && (s[0] == scale) && (p >= 0) && (p <= maxpol*std::fabs(scale)*(1+1e-12)) && (!moderate || maxpol > 1 || s.invariant() >= -1e-10*scale*scale); }
          catch (std::exception&) { bool moderate = std::fabs (scale) >= 1e-140 && std::fabs (scale) <= 1e140; ok3 = ok3 && (maxpol > 1 || !moderate); }
          g_random.clear(); }
        o << " " << (ok1?1:0) << " " << (ok2?1:0) << " " << (ok3?1:0); }
      // oracle: the same contract when the scale is passed in another arithmetic type (the template accepts any) and for
      // single-precision vectors; flags (1 = holds)
      else if (op == "o.c18.scaletypes") { long scale = std::stol (t[1]); float maxpol = (float) rd (t[2]); std::vector<long> rs; for (size_t i=3;i<t.size();i++) rs.push_back (std::stol (t[i]));
        auto contract = [&] (auto sc, auto vec, double tol) -> bool { for (long r : rs) g_random.push_back (r);
          decltype(vec) s; bool ok;
          try { random_value (s, sc, maxpol); double p = std::sqrt ((double)s[1]*s[1] + (double)s[2]*s[2] + (double)s[3]*s[3]);
            ok = ((double) s[0] == (double) sc) && p <= (double) maxpol * (double) sc * (1 + tol) && (double)s[0]*s[0] - p*p >= -tol * (double) sc * (double) sc; }
          catch (std::exception&) { ok = false; }
          g_random.clear(); return ok; };
        o << " " << (contract ((int) scale, Stokes<double>(), 1e-12) ? 1 : 0) << " " << (contract ((long) scale, Stokes<double>(), 1e-12) ? 1 : 0)
          << " " << (contract ((unsigned) scale, Stokes<double>(), 1e-12) ? 1 : 0) << " " << (contract ((float) scale, Stokes<double>(), 1e-6) ? 1 : 0)
          << " " << (contract ((double) scale, Stokes<float>(), 1e-5) ? 1 : 0) << " " << (contract ((float) scale, Stokes<float>(), 1e-5) ? 1 : 0); }
      // oracle: random Stokes vectors filled through the generic container fillers (random_vector / random_matrix over
      // std::vector, Vector and nested containers of Stokes): every element must be the vector that random_value(Stokes) makes
      // from the same four random() values (bit for bit), so it has the contract of a random Stokes vector.  Output: number of
      // elements that differ, over all containers
      else if (op == "o.c18.containers") { double scale = rd (t[1]); std::vector<long> rs; for (size_t i=2;i<t.size();i++) rs.push_back (std::stol (t[i]));
        auto feed = [&]() { g_random.clear(); for (long r : rs) g_random.push_back (r); };
        auto refs = [&](auto proto, unsigned n) { std::vector<decltype(proto)> out (n); feed (); for (unsigned i=0;i<n;i++) random_value (out[i], scale); return out; };
        long bad = 0;
        auto same = [&](const auto& a, const auto& b) { for (unsigned k=0;k<4;k++) { auto x = a[k]; auto y = b[k]; if (memcmp (&x, &y, sizeof (x)) != 0) return false; } return true; };
        { auto want = refs (Stokes<double>(), 3); std::vector< Stokes<double> > c (3); feed (); random_vector (c, scale); for (unsigned i=0;i<3;i++) if (!same (c[i], want[i])) bad++; }
        { auto want = refs (Stokes<float>(), 3); std::vector< Stokes<float> > c (3); feed (); random_vector (c, scale); for (unsigned i=0;i<3;i++) if (!same (c[i], want[i])) bad++; }
        { auto want = refs (Stokes<double>(), 2); Vector< 2, Stokes<double> > c; feed (); random_vector (c, scale); for (unsigned i=0;i<2;i++) if (!same (c[i], want[i])) bad++; }
        { auto want = refs (Stokes<double>(), 3); std::vector< Stokes<double> > c (3); feed (); random_matrix (c, scale); for (unsigned i=0;i<3;i++) if (!same (c[i], want[i])) bad++; }
        { auto want = refs (Stokes<double>(), 4); std::vector< std::vector< Stokes<double> > > c (2, std::vector< Stokes<double> > (2)); feed (); random_matrix (c, scale);
          for (unsigned i=0;i<2;i++) for (unsigned j=0;j<2;j++) if (!same (c[i][j], want[2*i+j])) bad++; }
        { auto want = refs (Stokes<double>(), 1); Stokes<double> c; feed (); random_vector (c, scale); if (!same (c, want[0])) bad++; }
        g_random.clear(); o << " " << bad; }
      else { std::cout << "err unknown-op\n"; continue; }
      if (g_exhausted) throw Exhausted (g_exhausted);
      std::cout << "ok" << o.str() << "\n";
    }
    catch (Exhausted& e) { std::cout << "err throw:" << e.what() << "\n"; }
    catch (std::exception& e) { std::cout << "err throw:" << e.what() << "\n"; }
  } while (false);
}

int main ()
{
  real_drand48 = (drand48_t) dlsym (RTLD_NEXT, "drand48"); real_srand48 = (srand48_t) dlsym (RTLD_NEXT, "srand48");
  const bool threaded = getenv ("EPSIC_HARNESS_THREAD") != 0;   // thread mode (the runner's thread pass): every line on a thread of its own
  std::string line;
  while (std::getline (std::cin, line)) {
    if (threaded) { std::thread th ([&]() { process (line); }); th.join (); }
    else process (line);
  }
  return 0;
}
