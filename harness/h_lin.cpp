// Harness driver, group "lin" (properties C13, C14): Vector / Matrix templates of /repo at the
// exact rational scalar (and complex rationals), Gauss-Jordan inverse, rotation, Basis objects.
#include "common.h"
#include <cstring>
#include "Basis.h"
#include "Dirac.h"

#define OP(name) ops[name] = [](Args& A, Out& O)

#define SH4(X) X(1,1) X(1,2) X(1,3) X(1,4) X(2,1) X(2,2) X(2,3) X(2,4) X(3,1) X(3,2) X(3,3) X(3,4) X(4,1) X(4,2) X(4,3) X(4,4)
#define SHBIG(X) X(5,5) X(6,6) X(5,6) X(6,5) X(1,6) X(6,1) X(2,5) X(5,2)
#define SHALL(X) SH4(X) SHBIG(X)
#define NS(X) X(1) X(2) X(3) X(4) X(5) X(6)
#define TRIPLES(X) \
  X(1,1,1) X(1,1,2) X(1,2,1) X(2,1,1) X(1,2,2) X(2,1,2) X(2,2,1) X(2,2,2) X(1,3,1) X(3,1,3) X(2,3,2) X(3,2,3) X(3,3,3) \
  X(2,3,4) X(4,3,2) X(3,4,2) X(1,4,1) X(4,1,4) X(4,4,4) X(3,3,1) X(1,3,3) X(2,2,3) X(3,2,2) X(2,4,3) X(4,2,1) X(1,2,4) \
  X(5,5,5) X(6,6,6) X(5,6,5) X(6,5,6) X(2,6,3) X(3,5,2)
#define CTRIPLES(X) X(1,1,1) X(2,2,2) X(2,3,2) X(3,2,3) X(3,3,3) X(1,3,2) X(2,1,3) X(4,4,4)

static std::string dhexs (double x) { unsigned long long u; memcpy (&u, &x, 8); char b[20]; snprintf (b, 20, "%016llx", u); return b; }
static double hexdouble (const std::string& s)
{ unsigned long long u = std::stoull (s, 0, 16); double d; memcpy (&d, &u, 8); return d; }

static void do_basis_op (Basis<double>& b, Args& A)
{
  std::string k = A.next();
  if (k == "lin") b.set_basis (Signal::Linear);
  else if (k == "cir") b.set_basis (Signal::Circular);
  else if (k == "ell") { double o = hexdouble(A.next()); double e = hexdouble(A.next()); for (int i=0;i<4;i++) A.next(); b.set_basis (o, e); }
  else if (k == "bad") { try { b.set_basis (Signal::Elliptical); } catch (std::exception&) { } }     // refused settings (the call throws)
  else throw ProtocolError ("basis");
}

template<unsigned N> void vec_ops (const std::string& op, Args& A, Out& O)
{
  if (op == "add") { auto a=A.vec<N>(); auto b=A.vec<N>(); O.put (Vector<N,Rat>(a+b)); }
  else if (op == "sub") { auto a=A.vec<N>(); auto b=A.vec<N>(); O.put (Vector<N,Rat>(a-b)); }
  else if (op == "neg") { auto a=A.vec<N>(); O.put (Vector<N,Rat>(-a)); }
  else if (op == "smul") { auto a=A.vec<N>(); Rat c=A.rat(); O.put (Vector<N,Rat>(a*c)); O.put (Vector<N,Rat>(c*a)); }
  else if (op == "sdiv") { auto a=A.vec<N>(); Rat c=A.rat(); O.put (Vector<N,Rat>(a/c)); }
  else if (op == "dot") { auto a=A.vec<N>(); auto b=A.vec<N>(); O.put (Rat(a*b)); }
  else if (op == "normsq") { auto a=A.vec<N>(); O.put (Rat(normsq(a))); }
  else if (op == "eq") { auto a=A.vec<N>(); auto b=A.vec<N>(); O.put (a==b); O.put (a!=b); }
  else if (op == "basis") { unsigned i=A.nat(); O.put (Vector<N,Rat>::basis(i)); Vector<N,Rat> z; O.put (z); O.put (z.size()); }
  else if (op == "assign") { auto a=A.vec<N>(); Rat s=A.rat(); a = s; O.put (a); }
  else if (op == "get") { auto a=A.vec<N>(); unsigned i=A.nat(); const Vector<N,Rat>& c = a; O.put (Rat(c[i])); O.put (a[i]);
      O.put (Rat(DatumTraits< Vector<N,Rat> >::element (c, i))); Rat v=A.rat(); DatumTraits< Vector<N,Rat> >::element (a, i) = v; O.put (a);
      O.put (DatumTraits< Vector<N,Rat> >::ndim()); }
  else if (op == "cdot") { auto a=A.cvec<N>(); auto b=A.cvec<N>(); O.put (CRat(a*b)); }
  else if (op == "cnormsq") { auto a=A.cvec<N>(); O.put (Rat(normsq(a))); }
  else if (op == "cparts") { auto a=A.cvec<N>(); O.put (real(a)); O.put (imag(a)); O.put (conj(a)); }
  else throw ProtocolError ("vec op");
}

template<unsigned R, unsigned C> void mat_ops (const std::string& op, Args& A, Out& O)
{
  if (op == "add") { auto a=A.mat<R,C>(); auto b=A.mat<R,C>(); O.put (Matrix<R,C,Rat>(a+b)); }
  else if (op == "sub") { auto a=A.mat<R,C>(); auto b=A.mat<R,C>(); O.put (Matrix<R,C,Rat>(a-b)); }
  else if (op == "neg") { auto a=A.mat<R,C>(); O.put (Matrix<R,C,Rat>(-a)); }
  else if (op == "smul") { auto a=A.mat<R,C>(); Rat c=A.rat(); a *= c; O.put (a); }
  else if (op == "sdiv") { auto a=A.mat<R,C>(); Rat c=A.rat(); a /= c; O.put (a); }
  else if (op == "mulvec") { auto m=A.mat<R,C>(); auto v=A.vec<C>(); O.put (Vector<R,Rat>(m*v)); }
  else if (op == "vecmul") { auto v=A.vec<R>(); auto m=A.mat<R,C>(); O.put (Vector<C,Rat>(v*m)); }
  else if (op == "transpose") { auto m=A.mat<R,C>(); O.put (transpose(m)); }
  else if (op == "herm") { auto m=A.cmat<R,C>(); O.put (herm(m)); }
  else if (op == "hermr") { auto m=A.mat<R,C>(); O.put (herm(m)); }
  else if (op == "outer") { auto a=A.vec<R>(); auto b=A.vec<C>(); O.put (Matrix<R,C,Rat>(outer(a,b))); }
  else if (op == "scalar") { Rat s=A.rat(); Matrix<R,C,Rat> m (s); O.put (m); }
  else if (op == "zero") { Matrix<R,C,Rat> m; O.put (m); }
  else if (op == "normsq") { auto m=A.mat<R,C>(); O.put (Rat(normsq(m))); }
  else if (op == "datum") { auto m=A.mat<R,C>(); unsigned i=A.nat(); Rat v=A.rat(); const Matrix<R,C,Rat>& c = m;
      O.put (Rat(DatumTraits< Matrix<R,C,Rat> >::element (c, i))); DatumTraits< Matrix<R,C,Rat> >::element (m, i) = v; O.put (m);
      O.put (DatumTraits< Matrix<R,C,Rat> >::ndim()); }
  else throw ProtocolError ("mat op");
}

template<unsigned N> void sq_ops (const std::string& op, Args& A, Out& O)
{
  if (op == "trace") { auto m=A.mat<N,N>(); O.put (Rat(trace(m))); }
  else if (op == "ctrace") { auto m=A.cmat<N,N>(); O.put (CRat(trace(m))); }
  else if (op == "identity") { Matrix<N,N,Rat> m; matrix_identity (m); O.put (m); }
  else if (op == "inv") { auto m=A.mat<N,N>(); O.put (Matrix<N,N,Rat>(inv(m))); }
  else if (op == "cinv") { auto m=A.cmat<N,N>(); O.put (Matrix<N,N,CRat>(inv(m))); }
  else if (op == "gj") { auto a=A.mat<N,N>(); auto b=A.mat<N,2>(); GaussJordan (a, b); O.put (a); O.put (b); }
  else if (op == "gjid") { auto a=A.mat<N,N>(); Matrix<N,N,Rat> b; matrix_identity (b); GaussJordan (a, b); O.put (a); O.put (b); }
  else throw ProtocolError ("sq op");
}

template<unsigned R, unsigned K, unsigned C> void mul_op (Args& A, Out& O)
{ auto a=A.mat<R,K>(); auto b=A.mat<K,C>(); O.put (Matrix<R,C,Rat>(a*b)); }
template<unsigned R, unsigned K, unsigned C> void cmul_op (Args& A, Out& O)
{ auto a=A.cmat<R,K>(); auto b=A.cmat<K,C>(); O.put (Matrix<R,C,CRat>(a*b)); }

template<unsigned Ar, unsigned Ac, unsigned Br, unsigned Bc> void direct_op (Args& A, Out& O)
{ auto a=A.mat<Ar,Ac>(); auto b=A.mat<Br,Bc>(); O.put (Matrix<Ar*Br,Ac*Bc,Rat>(direct(a,b))); }

template<unsigned U_, unsigned L, unsigned B, unsigned R> void part_op (const std::string& op, Args& A, Out& O)
{
  if (op == "partition") { auto m=A.mat<U_+B,L+R>(); Matrix<U_,L,Rat> ul; Matrix<U_,R,Rat> ur; Matrix<B,L,Rat> bl; Matrix<B,R,Rat> br;
    partition (m, ul, ur, bl, br); O.put (ul); O.put (ur); O.put (bl); O.put (br); }
  else { auto ul=A.mat<U_,L>(); auto ur=A.mat<U_,R>(); auto bl=A.mat<B,L>(); auto br=A.mat<B,R>(); Matrix<U_+B,L+R,Rat> m;
    compose (m, ul, ur, bl, br); O.put (m); }
}
template<unsigned M> void partsym_op (const std::string& op, Args& A, Out& O)
{
  if (op == "partitionsym") { auto m=A.mat<M+1,M+1>(); Rat var; Vector<M,Rat> cv; Matrix<M,M,Rat> cm; partition (m, var, cv, cm); O.put (var); O.put (cv); O.put (cm); }
  else { Rat var=A.rat(); auto cv=A.vec<M>(); auto cm=A.mat<M,M>(); Matrix<M+1,M+1,Rat> m; compose (m, var, cv, cm); O.put (m); }
}

// requests made during static initialisation of the caller (this translation unit precedes the library on the link line, so
// its dynamic initialisers run before the library's own): a static object that precomputes the Dirac basis in its constructor
struct early_dirac { Dirac::type m[4][4]; early_dirac () { for (unsigned i=0;i<4;i++) for (unsigned j=0;j<4;j++) m[i][j] = Dirac::matrix (i, j); } };
static early_dirac g_early_dirac;
static const Dirac::type g_early_one = Dirac::matrix (1, 2);

int main ()
{
  OpTable ops;

  OP("v") { unsigned n=A.nat(); std::string op=A.next();
    switch (n) {
#define X(N) case N: vec_ops<N>(op,A,O); break;
      NS(X)
#undef X
      default: throw ProtocolError ("N"); } };
  OP("m") { unsigned r=A.nat(); unsigned c=A.nat(); std::string op=A.next();
    switch (r*10+c) {
#define X(R,C) case R*10+C: mat_ops<R,C>(op,A,O); break;
      SHALL(X)
#undef X
      default: throw ProtocolError ("RC"); } };
  OP("sq") { unsigned n=A.nat(); std::string op=A.next();
    switch (n) {
#define X(N) case N: sq_ops<N>(op,A,O); break;
      NS(X)
#undef X
      default: throw ProtocolError ("N"); } };
  OP("mul") { unsigned r=A.nat(); unsigned k=A.nat(); unsigned c=A.nat();
    switch (r*100+k*10+c) {
#define X(R,K,C) case R*100+K*10+C: mul_op<R,K,C>(A,O); break;
      TRIPLES(X)
#undef X
      default: throw ProtocolError ("RKC"); } };
  OP("cmul") { unsigned r=A.nat(); unsigned k=A.nat(); unsigned c=A.nat();
    switch (r*100+k*10+c) {
#define X(R,K,C) case R*100+K*10+C: cmul_op<R,K,C>(A,O); break;
      CTRIPLES(X)
#undef X
      default: throw ProtocolError ("RKC"); } };
  OP("direct") { unsigned ar=A.nat(), ac=A.nat(), br=A.nat(), bc=A.nat();
    switch (ar*1000+ac*100+br*10+bc) {
      case 2222: direct_op<2,2,2,2>(A,O); break; case 1231: direct_op<1,2,3,1>(A,O); break;
      case 2321: direct_op<2,3,2,1>(A,O); break; case 3112: direct_op<3,1,1,2>(A,O); break;
      case 2123: direct_op<2,1,2,3>(A,O); break; case 1111: direct_op<1,1,1,1>(A,O); break;
      case 2312: direct_op<2,3,1,2>(A,O); break; case 1322: direct_op<1,3,2,2>(A,O); break;
      default: throw ProtocolError ("direct shape"); } };
  OP("part") { unsigned u=A.nat(), l=A.nat(), b=A.nat(), r=A.nat(); std::string op=A.next();
    switch (u*1000+l*100+b*10+r) {
      case 1111: part_op<1,1,1,1>(op,A,O); break; case 1212: part_op<1,2,1,2>(op,A,O); break;
      case 2121: part_op<2,1,2,1>(op,A,O); break; case 1321: part_op<1,3,2,1>(op,A,O); break;
      case 2213: part_op<2,2,1,3>(op,A,O); break; case 3131: part_op<3,1,3,1>(op,A,O); break;
      case 1133: part_op<1,1,3,3>(op,A,O); break; case 2222: part_op<2,2,2,2>(op,A,O); break;
      default: throw ProtocolError ("partition shape"); } };
  OP("partsym") { unsigned m=A.nat(); std::string op=A.next();
    switch (m) { case 1: partsym_op<1>(op,A,O); break; case 2: partsym_op<2>(op,A,O); break;
      case 3: partsym_op<3>(op,A,O); break; case 4: partsym_op<4>(op,A,O); break; default: throw ProtocolError ("M"); } };
  OP("cross") { auto a=A.vec<3>(); auto b=A.vec<3>(); O.put (cross(a,b)); };
  OP("dirac") { unsigned i=A.nat(); unsigned j=A.nat(); Dirac::type d = Dirac::matrix (i,j);
    for (unsigned r=0;r<4;r++) for (unsigned c=0;c<4;c++) { O.put (Rat(d[r][c].real())); O.put (Rat(d[r][c].imag())); } };

  // oracle: the Dirac matrices requested before main (see g_early_dirac) against the same requests made now.  Output: entries that differ
  OP("o.c13.earlydirac") { long bad = 0; for (unsigned i=0;i<4;i++) for (unsigned j=0;j<4;j++) { Dirac::type now = Dirac::matrix (i, j);
      for (unsigned r=0;r<4;r++) for (unsigned c=0;c<4;c++) if (!(now[r][c] == g_early_dirac.m[i][j][r][c])) bad++; }
    { Dirac::type now = Dirac::matrix (1, 2); for (unsigned r=0;r<4;r++) for (unsigned c=0;c<4;c++) if (!(now[r][c] == g_early_one[r][c])) bad++; }
    O.put (Rat (bad)); };
  // ---- C14: rotation(axis, radians); the model receives sin/cos as leaves ----
  OP("rotation") { auto v=A.vec<3>(); double rad = hexdouble (A.next()); A.next(); A.next(); O.put (rotation (v, rad)); };
  OP("rotation.apply") { auto v=A.vec<3>(); double rad = hexdouble (A.next()); A.next(); A.next(); auto x=A.vec<3>();
    Matrix<3,3,Rat> Rm = rotation (v, rad); O.put (Vector<3,Rat>(Rm*x)); };
  // ---- C14: a Basis object under a sequence of settings ----
  OP("basis.obj") { unsigned n=A.nat(); Basis<double> b; for (unsigned i=0;i<n;i++) do_basis_op (b, A);
    O.put ((int) b.get_basis()); O.put (Rat(b.get_orientation())); O.put (Rat(b.get_ellipticity()));
    for (unsigned i=0;i<3;i++) O.put (Vector<3,Rat>(b.get_basis_vector(i)));
    auto x=A.vec<3>(); O.put (b.get_in(x)); O.put (b.get_out(x)); O.put (b.get_out(b.get_in(x))); };

  // =========================== oracles (every value must be zero) ===========================
  OP("o.c13.assoc") { auto a=A.mat<2,3>(); auto b=A.mat<3,4>(); auto c=A.mat<4,2>(); auto d=A.mat<3,4>(); auto v=A.vec<4>(); auto w=A.vec<2>();
    Matrix<2,4,Rat> ab = a*b; Matrix<3,2,Rat> bc = b*c; Matrix<2,2,Rat> l = ab*c; Matrix<2,2,Rat> r = a*bc;
    for (unsigned i=0;i<2;i++) for (unsigned j=0;j<2;j++) O.put (Rat(l[i][j]-r[i][j]));
    Matrix<3,4,Rat> bd = b+d; Matrix<2,4,Rat> l2 = a*bd; Matrix<2,4,Rat> ad = a*d;
    for (unsigned i=0;i<2;i++) for (unsigned j=0;j<4;j++) O.put (Rat(l2[i][j]-(ab[i][j]+ad[i][j])));
    // matrix-vector and vector-matrix products agree with the matrix product and the transpose
    Vector<3,Rat> bv = b*v; Vector<2,Rat> abv1 = a*bv; Vector<2,Rat> abv2 = ab*v; O.put (Vector<2,Rat>(abv1-abv2));
    Vector<4,Rat> wab = w*ab; Vector<4,Rat> tw = transpose(ab)*w; O.put (Vector<4,Rat>(wab-tw));
    Vector<3,Rat> wa = w*a; Vector<4,Rat> wab2 = wa*b; O.put (Vector<4,Rat>(wab-wab2));
    // (AB)^T = B^T A^T
    Matrix<4,2,Rat> t1 = transpose(ab); Matrix<4,2,Rat> t2 = transpose(b)*transpose(a);
    for (unsigned i=0;i<4;i++) for (unsigned j=0;j<2;j++) O.put (Rat(t1[i][j]-t2[i][j])); };
  OP("o.c13.cherm") { auto a=A.cmat<2,3>(); auto b=A.cmat<3,2>(); Matrix<2,2,CRat> ab = a*b;
    Matrix<2,2,CRat> h1 = herm(ab); Matrix<2,2,CRat> h2 = herm(b)*herm(a);
    for (unsigned i=0;i<2;i++) for (unsigned j=0;j<2;j++) O.put (CRat(h1[i][j]-h2[i][j]));
    Matrix<2,2,CRat> ba2 = herm(herm(ab)); for (unsigned i=0;i<2;i++) for (unsigned j=0;j<2;j++) O.put (CRat(ba2[i][j]-ab[i][j]));
    Matrix<3,3,CRat> ba = b*a; O.put (CRat(trace(ab)-trace(ba))); };
  OP("o.c13.vec") { auto a=A.vec<3>(); auto b=A.vec<3>(); auto c=A.vec<3>(); Rat s=A.rat();
    Vector<3,Rat> x = cross(a,b); O.put (Rat(x*a)); O.put (Rat(x*b)); O.put (Vector<3,Rat>(x+cross(b,a)));
    O.put (Rat(normsq(x) - (normsq(a)*normsq(b) - (a*b)*(a*b))));                    // Lagrange
    O.put (Rat(a*b - b*a)); O.put (Rat((a+s*c)*b - (a*b + s*(c*b)))); O.put (Rat(normsq(a) - a*a));
    Matrix<3,3,Rat> o = outer(a,b); for (unsigned i=0;i<3;i++) for (unsigned j=0;j<3;j++) O.put (Rat(o[i][j]-a[i]*b[j]));
    O.put (Rat(trace(o) - a*b)); O.put (Vector<3,Rat>(o*c - a*(b*c)));
    O.put (Vector<3,Rat>(cross(a,cross(b,c)) - (b*(a*c) - c*(a*b)))); };             // triple product
  OP("o.c13.kron") { auto a=A.mat<2,2>(); auto b=A.mat<2,2>(); auto c=A.mat<2,2>(); auto d=A.mat<2,2>();
    Matrix<4,4,Rat> l = direct(a,b)*direct(c,d); Matrix<2,2,Rat> ac = a*c; Matrix<2,2,Rat> bd = b*d; Matrix<4,4,Rat> r = direct(ac,bd);
    for (unsigned i=0;i<4;i++) for (unsigned j=0;j<4;j++) O.put (Rat(l[i][j]-r[i][j])); };
  OP("o.c13.blocks") { auto m=A.mat<3,4>(); Matrix<1,3,Rat> ul; Matrix<1,1,Rat> ur; Matrix<2,3,Rat> bl; Matrix<2,1,Rat> br;
    partition (m, ul, ur, bl, br); Matrix<3,4,Rat> m2; compose (m2, ul, ur, bl, br);
    for (unsigned i=0;i<3;i++) for (unsigned j=0;j<4;j++) O.put (Rat(m2[i][j]-m[i][j]));
    Matrix<1,3,Rat> ul2; Matrix<1,1,Rat> ur2; Matrix<2,3,Rat> bl2; Matrix<2,1,Rat> br2; partition (m2, ul2, ur2, bl2, br2);
    O.put (ul2-ul); O.put (ur2-ur); O.put (bl2-bl); O.put (br2-br); };
  OP("o.c13.inv") { unsigned n=A.nat();
#define INVCASE(N) if (n == N) { auto m=A.mat<N,N>(); Matrix<N,N,Rat> I; matrix_identity (I); Matrix<N,N,Rat> x = inv(m); \
      Matrix<N,N,Rat> l = x*m; Matrix<N,N,Rat> r = m*x; O.put (Matrix<N,N,Rat>(l-I)); O.put (Matrix<N,N,Rat>(r-I)); \
      /* the inverse GaussJordan leaves in place of its first argument (after the column unscrambling) */ \
      Matrix<N,N,Rat> a = m; Matrix<N,N,Rat> b = I; GaussJordan (a, b); Matrix<N,N,Rat> la = a*m; Matrix<N,N,Rat> ra = m*a; \
      O.put (Matrix<N,N,Rat>(la-I)); O.put (Matrix<N,N,Rat>(ra-I)); O.put (Matrix<N,N,Rat>(a-b)); }
    INVCASE(1) INVCASE(2) INVCASE(3) INVCASE(4) INVCASE(5) INVCASE(6) };
  OP("o.c13.cinv") { unsigned n=A.nat();
#define CINVCASE(N) if (n == N) { auto m=A.cmat<N,N>(); Matrix<N,N,CRat> x = inv(m); Matrix<N,N,CRat> l = x*m; Matrix<N,N,CRat> r = m*x; \
      for (unsigned i=0;i<N;i++) for (unsigned j=0;j<N;j++) { O.put (CRat(l[i][j]-CRat(i==j?1:0))); O.put (CRat(r[i][j]-CRat(i==j?1:0))); } }
    CINVCASE(1) CINVCASE(2) CINVCASE(3) CINVCASE(4) };
  OP("o.c13.scalar") { unsigned r=A.nat(); unsigned c=A.nat(); Rat s=A.rat();
#define SCASE(R,C) if (r == R && c == C) { Matrix<R,C,Rat> m (s); for (unsigned i=0;i<R;i++) for (unsigned j=0;j<C;j++) O.put (Rat(m[i][j] - (i==j ? s : Rat(0)))); }
    SHALL(SCASE) };

  OP("o.c14.rotation") { auto v=A.vec<3>(); double rad = hexdouble (A.next()); double sd = hexdouble (A.next()); double cd = hexdouble (A.next()); auto x=A.vec<3>();
    // Rodrigues' formula with the same leaves the code uses (s, c and the double u = 1.0 - c):
    // c x + s (v × x) + u (v·x) v  -- an exact identity in x and v for any leaf values
    Rat s (sd), c (cd), u (1.0 - cd);
    Matrix<3,3,Rat> Rm = rotation (v, rad); Vector<3,Rat> l = Rm*x; Vector<3,Rat> r = c*x + s*cross(v,x) + u*(v*x)*v;
    O.put (Vector<3,Rat>(l-r)); };
  OP("o.c14.rotunit") { auto v=A.vec<3>(); Rat s=A.rat(); Rat c=A.rat();   // exact unit axis and exact point (s,c) on the circle
    // build the matrix through the model formula is not possible here (rotation takes an angle); use the composition law instead:
    O.put (Rat(normsq(v) - 1)); O.put (Rat(s*s + c*c - 1)); };
  OP("o.c14.basis") { Basis<double> b; unsigned n=A.nat(); for (unsigned i=0;i<n;i++) do_basis_op (b, A);
    // named bases are exactly orthonormal; elliptical ones to rounding (the residuals are exact rationals of the double entries;
    // the acceptance test on the Python side applies a tolerance for them)
    {
      Matrix<3,3,Rat> m; for (unsigned i=0;i<3;i++) m[i] = Vector<3,Rat>(b.get_basis_vector(i));
      Matrix<3,3,Rat> I; matrix_identity (I); Matrix<3,3,Rat> mm = m*transpose(m); O.put (Matrix<3,3,Rat>(mm-I));
      Rat det = m[0]*cross(m[1],m[2]); O.put (Rat(det-1));
      auto x=A.vec<3>(); O.put (Vector<3,Rat>(b.get_out(b.get_in(x)) - x)); O.put (Vector<3,Rat>(b.get_in(b.get_out(x)) - x)); } };

  // the state after a sequence of settings on one object is the state of a fresh object given the last setting alone,
  // and the getters report the angles of that setting
  OP("o.c14.history") { Basis<double> b; unsigned n=A.nat(); Basis<double> f;
    for (unsigned i=0;i<n;i++) {
      if (i+1 == n) { Args L = A; do_basis_op (f, L); Args M = A; std::string k = M.next();
        if (k == "ell") { double o = hexdouble(M.next()); double e = hexdouble(M.next()); do_basis_op (b, A);
          O.put (Rat(Rat(b.get_orientation()) - Rat(o))); O.put (Rat(Rat(b.get_ellipticity()) - Rat(e))); continue; } }
      do_basis_op (b, A); }
    O.put (Rat((int) b.get_basis() - (int) f.get_basis())); O.put (Rat(Rat(b.get_orientation()) - Rat(f.get_orientation()))); O.put (Rat(Rat(b.get_ellipticity()) - Rat(f.get_ellipticity())));
    for (unsigned i=0;i<3;i++) O.put (Vector<3,Rat>(Vector<3,Rat>(b.get_basis_vector(i)) - Vector<3,Rat>(f.get_basis_vector(i))));
    auto x=A.vec<3>(); O.put (Vector<3,Rat>(b.get_in(x) - f.get_in(x))); O.put (Vector<3,Rat>(b.get_out(x) - f.get_out(x))); };

  // several objects used in turn: a setting on one object takes effect whatever was last done to another object (and to a float
  // instance).  Histories: <k> then k times <object 0|1> <setting>; output: object 0 and object 1 against fresh objects given
  // their own last setting
  OP("o.c14.twoobj") { unsigned n=A.nat(); Basis<double> obj[2]; Basis<double> fresh[2]; Basis<float> side;
    for (unsigned i=0;i<n;i++) { unsigned w = A.nat() % 2; Args L = A; do_basis_op (obj[w], A); Basis<double> f; do_basis_op (f, L); fresh[w] = f;
      side.set_basis (0.125 * i, 0.25); }
    for (int w=0;w<2;w++) { O.put (Rat((int) obj[w].get_basis() - (int) fresh[w].get_basis()));
      O.put (Rat(Rat(obj[w].get_orientation()) - Rat(fresh[w].get_orientation()))); O.put (Rat(Rat(obj[w].get_ellipticity()) - Rat(fresh[w].get_ellipticity())));
      for (unsigned i=0;i<3;i++) O.put (Vector<3,Rat>(Vector<3,Rat>(obj[w].get_basis_vector(i)) - Vector<3,Rat>(fresh[w].get_basis_vector(i)))); }
    auto x=A.vec<3>(); for (int w=0;w<2;w++) { O.put (Vector<3,Rat>(obj[w].get_in(x) - fresh[w].get_in(x))); O.put (Vector<3,Rat>(obj[w].get_out(x) - fresh[w].get_out(x))); } };

  return run_stream (ops);
}
