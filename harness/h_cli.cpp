// Harness driver, group "cli" (property C17).  `cli.run` assembles the requested model directly from the
// library (independently of epsic.cpp) and prints its theory; `cli.exec` also runs the real program
// (epsic.cpp's main, compiled in under another name, in a forked child with its own working directory)
// and compares every "expected=" block it prints with the library-assembled values written through the
// same stream operators.  Doubles as 16-hex-digit bit patterns.
#include <cstring>
#include <cstdio>
#include <cmath>
#include <string>
#include <vector>
#include <sstream>
#include <fstream>
#include <iostream>
#include <stdexcept>
#include <unistd.h>
#include <sys/wait.h>
#include <sys/stat.h>
#include "mode.h"
#include "modulated.h"
#include "sample.h"
#include "covariant.h"
#include "Pauli.h"

int epsic_main (int argc, char** argv);

static double rd (const std::string& s) { unsigned long long u = std::stoull (s, 0, 16); double d; memcpy (&d, &u, 8); return d; }
static std::string hx (double x) { unsigned long long u; memcpy (&u, &x, 8); char b[20]; snprintf (b, 20, " %016llx", u); return b; }

struct Setup { Stokes<double> mean; double beta = 0; unsigned b = 0, r = 0; };
struct Cfg { std::string dual; double frac = 0; unsigned n = 1, nlag = 0; bool covariant = false; double rho = 0; Setup A, B; bool reject = false; std::vector<std::string> echo; };

static Cfg read_cfg (std::vector<std::string>& t, size_t& i)
{
  Cfg c; size_t i0 = i;
  if (t[i] == "reject" || t[i] == "parse-error" || t[i] == "usage") { c.reject = true; c.dual = t[i]; c.echo.push_back (t[i]); i++; return c; }
  std::string d = t[i++]; size_t colon = d.find (':'); c.dual = d.substr (0, colon); if (colon != std::string::npos) c.frac = rd (d.substr (colon+1));
  c.n = std::stoul (t[i++]); c.nlag = std::stoul (t[i++]); if (t[i] != "none") { c.covariant = true; c.rho = rd (t[i]); } i++;
  for (Setup* s : { &c.A, &c.B }) { double a = rd (t[i]), b = rd (t[i+1]), cc = rd (t[i+2]), d2 = rd (t[i+3]); s->mean = Stokes<double>(a,b,cc,d2); i += 4; s->beta = rd (t[i++]); s->b = std::stoul (t[i++]); s->r = std::stoul (t[i++]); }
  for (size_t k=i0;k<i;k++) c.echo.push_back (t[k]);
  return c;
}

// the documented model: covariant or log-normal modulation, then (at most one of) boxcar smoothing / rectangular impulses
static epsic::mode* build_mode (const Setup& s, epsic::bivariate_lognormal_modes* co, unsigned index, epsic::mode* base, unsigned nint)
{
  base->set_Stokes (s.mean); epsic::modulated_mode* mod = 0; epsic::mode* top = base;
  if (co) { if (s.beta != 0) co->set_beta (index, s.beta); top = mod = co->get_modulated_mode (index, base); }
  else if (s.beta != 0) top = mod = new epsic::lognormal_mode (base, s.beta);
  if (mod && s.r > 1) top = new epsic::square_modulated_mode (mod, s.r, nint);
  else if (mod && s.b > 1) top = new epsic::boxcar_modulated_mode (mod, s.b);
  return top;
}
static epsic::sample* build_sample (const Cfg& c)
{
  epsic::bivariate_lognormal_modes* co = c.covariant ? new epsic::bivariate_lognormal_modes (c.rho) : 0;
  epsic::sample* smp = 0;
  if (c.dual == "none") smp = new epsic::single (build_mode (c.A, co, 0, new epsic::mode, c.n));
  else { epsic::combination* d = 0;
    if (c.dual == "superposed") d = new epsic::superposed; else if (c.dual == "composite") d = new epsic::composite (c.frac);
    else if (c.dual == "disjoint") d = new epsic::disjoint (c.frac); else if (c.dual == "coherent") d = new epsic::coherent (c.frac); else throw std::runtime_error ("protocol:dual");
    d->A = build_mode (c.A, co, 0, d->A, c.n); d->B = build_mode (c.B, co, 1, d->B, c.n);
    if (co) d->set_intensity_covariance (co->get_intensity_covariance());
    smp = d; }
  smp->sample_size = c.n; return smp;
}

// numbers of every "expected=" block of a text, as printed
static std::vector< std::vector<std::string> > expected_blocks (const std::string& text)
{
  std::vector< std::vector<std::string> > out; size_t pos = 0;
  while ((pos = text.find ("expected=", pos)) != std::string::npos) {
    pos += 9; size_t p = pos; while (p < text.size() && (text[p] == '\n' || text[p] == ' ')) p++;
    char close = (p < text.size() && text[p] == '[') ? ']' : ')'; size_t end = text.find (close, p); if (end == std::string::npos) end = text.size();
    std::string body = text.substr (p, end - p); std::vector<std::string> nums; std::string cur;
    for (char ch : body) { if (ch == '(' || ch == ')' || ch == '[' || ch == ',' || ch == '\n' || ch == ' ') { if (!cur.empty()) { nums.push_back (cur); cur.clear(); } } else cur += ch; }
    if (!cur.empty()) nums.push_back (cur);
    out.push_back (nums); pos = end; }
  return out;
}
template<class T> static std::vector<std::string> printed (const T& x)
{ std::ostringstream os; os << "expected=" << x; return expected_blocks (os.str())[0]; }
static std::string slurp (const std::string& path) { std::ifstream f (path.c_str()); std::stringstream ss; ss << f.rdbuf(); return ss.str(); }

int main ()
{
  std::string line; unsigned long serial = 0; char tmpl[] = "/tmp/epsic-cli-XXXXXX"; std::string root = mkdtemp (tmpl);
  while (std::getline (std::cin, line)) {
    std::vector<std::string> t; { std::istringstream is (line); std::string x; while (is >> x) t.push_back (x); }
    if (t.empty()) { std::cout << "err empty\n"; continue; }
    std::ostringstream o;
    try {
      size_t i = 1; Cfg c = read_cfg (t, i);
      std::vector<std::string> argv; if (i < t.size() && t[i] == "@") { for (i++; i < t.size() && t[i] != "#"; i++) argv.push_back (t[i]); }
      if (t[0] == "cli.run") {
        for (auto& e : c.echo) o << " " << e;
        if (!c.reject) { epsic::sample* smp = build_sample (c); Vector<4,double> m = smp->get_mean(); Matrix<4,4,double> cv = smp->get_covariance();
          for (int a=0;a<4;a++) o << hx (m[a]); for (int a=0;a<4;a++) for (int b=0;b<4;b++) o << hx (cv[a][b]);
          for (unsigned l=0;l<c.nlag;l++) { Matrix<4,4,double> x = smp->get_crosscovariance (l); for (int a=0;a<4;a++) for (int b=0;b<4;b++) o << hx (x[a][b]); } }
      }
      else if (t[0] == "cli.exec") {
        std::string dir = root + "/" + std::to_string (serial++); mkdir (dir.c_str(), 0700);
        fflush (stdout); fflush (stderr); std::cout.flush();
        pid_t pid = fork ();
        if (pid == 0) {
          if (chdir (dir.c_str()) != 0) _exit (99);
          if (!freopen ("stderr.txt", "w", stderr)) _exit (98); if (!freopen ("stdout.txt", "w", stdout)) _exit (97);
          std::vector<char*> av; std::string prog = "epsic"; av.push_back (&prog[0]); for (auto& a : argv) av.push_back (&a[0]); av.push_back (0);
          int rc; try { rc = epsic_main ((int) argv.size() + 1, av.data()); }
          catch (std::exception& e) { std::cerr << "terminate called after throwing: " << e.what() << std::endl; fflush (stderr); _exit (134); }   // the program would abort
          catch (...) { _exit (134); }
          std::cerr.flush(); std::cout.flush(); fflush (stderr); fflush (stdout); _exit (rc & 0xff); }
        int st = 0; waitpid (pid, &st, 0); int status = WIFEXITED (st) ? WEXITSTATUS (st) : 1000 + (WIFSIGNALED (st) ? WTERMSIG (st) : 0);
        std::string err = slurp (dir + "/stderr.txt"), acf = slurp (dir + "/acf.txt");
        long mism = 0, nonfinite = 0; size_t nblocks = 0; std::string first;
        if (c.reject) { bool said = (c.dual == "reject") ? err.find ("Invalid Stokes parameters (p>I)") != std::string::npos : (c.dual == "parse-error" ? err.find ("Error parsing") != std::string::npos : true);
          int want = (c.dual == "usage") ? 0 : 255; if (status != want) mism++; if (!said) mism++; }
        else {
          epsic::sample* smp = build_sample (c); std::vector< std::vector<std::string> > want;
          want.push_back (printed (smp->get_mean())); want.push_back (printed (smp->get_covariance()));
          std::vector< std::vector<std::string> > got = expected_blocks (err);
          std::vector< std::vector<std::string> > wantacf; for (unsigned l=0;l<c.nlag;l++) wantacf.push_back (printed (smp->get_crosscovariance (l)));
          std::vector< std::vector<std::string> > gotacf = expected_blocks (acf);
          auto cmp = [&](const std::vector< std::vector<std::string> >& w, const std::vector< std::vector<std::string> >& g, const char* what) {
            if (w.size() != g.size()) { mism++; if (first.empty()) first = std::string (what) + "-block-count"; return; }
            for (size_t b=0;b<w.size();b++) { nblocks++; if (w[b] != g[b]) { mism++; if (first.empty()) first = std::string (what) + "-block-" + std::to_string (b); }
              for (auto& s : g[b]) if (s.find ("nan") != std::string::npos || s.find ("inf") != std::string::npos) nonfinite++; } };
          cmp (want, got, "stderr"); cmp (wantacf, gotacf, "acf");
          if (status != 0) mism++;
        }
        o << " " << status << " " << mism << " " << nonfinite << " " << nblocks << " " << (first.empty() ? "-" : first);
        std::string rm = "rm -rf '" + dir + "'"; if (system (rm.c_str()) != 0) {}
      }
      else { std::cout << "err unknown-op\n"; continue; }
      std::cout << "ok" << o.str() << "\n";
    }
    catch (std::exception& e) { std::string w = e.what(); std::cout << "err " << (w.compare (0,9,"protocol:") == 0 ? w : "throw:" + w) << "\n"; }
  }
  std::string rm = "rm -rf '" + root + "'"; if (system (rm.c_str()) != 0) {}
  return 0;
}
