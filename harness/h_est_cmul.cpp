// Separate translation unit: the product of std::complex<Estimate<Rat>> is only well-formed when
// complex_promote.h is *not* visible (with it, PromoteTraits<Estimate,Estimate> is ambiguous), so
// this file includes Estimate.h alone.
#include "rat.h"
#include "PromoteTraits.h"
#include "Estimate.h"
#include <complex>
void est_cmul (const Rat* in, Rat* out)
{
  typedef Estimate<Rat> ER;
  std::complex<ER> a (ER(in[0],in[1]), ER(in[2],in[3])), b (ER(in[4],in[5]), ER(in[6],in[7]));
  std::complex<ER> p = a*b;
  out[0] = p.real().val; out[1] = p.real().var; out[2] = p.imag().val; out[3] = p.imag().var;
}
