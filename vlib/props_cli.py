"""Property C17 (the command-line program) through harness group "cli": epsic.cpp's main compiled into the
harness under another name and run in forked children; the library-assembled model; the Lean model of
the getopt loop and of mode_setup::setup_mode."""
import math
from .core import dhex
from .runner import Case

GROUP = dict(name='cli', sources=['h_cli.cpp', 'h_cli_epsic.cpp'],
             repo_sources=['mode.cpp', 'sample.cpp', 'superposed.cpp', 'composite.cpp', 'disjoint.cpp', 'coherent.cpp', 'covariant.cpp',
                           'square_modulated_mode.cpp', 'util/Pauli.C', 'util/Dirac.C', 'util/random.C', 'util/BoxMuller.C', 'util/true_math.c', 'util/Conventions.C'],
             driver='cli', libs=())

STOKES_OK = ['1,0,0,0', '1,0.5,0.2,-0.1', '2,0,1,1', '1,1,0,0', '3.5,-1,2,0.5', '1,0.6,0,0.8', '10,6,0,8', '0.25,0.1,-0.1,0.1', '1e2,30,-40,0', '5,3,4,0', '1,0,-1,0',
             '2,0,1.2,1.6', '0.7,0.2,0.3,0.6', '1,0.36,0.48,0.8', '3,1,2,2', '0.9,0.1,0.4,0.8', '0,0,0,0']
STOKES_BAD = ['1,1,1,0', '1,0.6,0.8,0.1', '0.5,0.4,0.3,0.1', '1,0,0,1.0000001', '-1,0,0,0', '2,2,0.001,0', '0,0,0,1e-9', '1,-1,-1,-1', '-1,3,0,0', '-2,0.5,0.5,0', '-0.5,0,0,0', '-1e-3,0,0,0', '-3,-1,-2,-2', '-1e6,0,0,1', '-0,1,0,0', '-0.0,0,0,1e-3', '-1e-400,0.5,0,0', '-0,0,-2,0', '0,1e-300,0,0', '-0e5,3,4,0']


def parse4(s): return [float(x) for x in s.split(',')]


def accepted(v): return not (math.sqrt((v[1] * v[1] + v[2] * v[2]) + v[3] * v[3]) > v[0])


# the boundary |p| = I is decided by the rounding of the squares: classify as the program evaluates it
_ALL = STOKES_OK + STOKES_BAD
STOKES_OK = [x for x in _ALL if accepted(parse4(x))]
STOKES_BAD = [x for x in _ALL if not accepted(parse4(x))]


def setup(g, n, allow_both=False):
    """(mean string or None, beta string or None, b or None, r or None)"""
    mean = g.choice(STOKES_OK + [None, None]) if g.random() < 0.8 else None
    beta = g.choice([None, None, '0.3', '0.5', '1', '2', '0'])
    b = r = None
    k = g.random()
    if k < 0.3: b = g.choice([1, 2, 3, 5, n, n + 1])
    elif k < 0.6: r = g.choice([2, 3, max(1, n - 1), n, n + 1, 7])
    elif k < 0.65 and allow_both: b, r = g.choice([2, 3]), g.choice([2, 4])
    return mean, beta, b, r


def admissible(rho, sa, sb):
    """the correlation range bivariate_lognormal_modes::build accepts for the two effective modulation indices"""
    if rho is None: return True
    ls = []
    for s in (sa, sb):
        beta = float(s[1]) if s[1] else 0.0
        if beta == 0.0: beta = 1.0
        ls.append(math.sqrt(math.log(beta * beta + 1.0)))
    b0, b1 = [math.sqrt(math.exp(x * x) - 1.0) for x in ls]
    hi = (math.exp(ls[0] * ls[1]) - 1.0) / (b0 * b1); lo = (math.exp(-ls[0] * ls[1]) - 1.0) / (b0 * b1)
    return lo * 0.999 <= float(rho) <= hi * 0.999


def cfg_tokens(dual, n, nlag, rho, sa, sb):
    def st(s):
        mean, beta, b, r = s
        m = parse4(mean) if mean else [1.0, 0.0, 0.0, 0.0]
        return ' '.join(dhex(x) for x in m) + ' %s %d %d' % (dhex(float(beta) if beta else 0.0), b or 0, r or 0)
    d = dual[0] if dual[1] is None else '%s:%s' % (dual[0], dhex(float(dual[1])))
    return '%s %d %d %s %s %s' % (d, n, nlag, dhex(float(rho)) if rho is not None else 'none', st(sa), st(sb))


def argv_of(g, dual, n, nlag, rho, sa, sb, extra_first=None):
    opts = [['-N', '0.001k'], ['-n', str(n)]]
    if nlag: opts.append(['-X', str(nlag)])
    flag = {'superposed': ['-S'], 'composite': ['-C', dual[1]], 'disjoint': ['-D', dual[1]], 'coherent': ['-c', dual[1]]}
    if dual[0] != 'none': opts.append([x for x in flag[dual[0]] if x is not None])
    if rho is not None: opts.append(['-k', rho])
    for pre, s in (('', sa), ('B', sb)):
        mean, beta, b, r = s
        if mean is not None: opts.append(['-s', pre + mean])
        if beta is not None: opts.append(['-l', pre + beta])
        if b is not None: opts.append(['-b', pre + str(b)])
        if r is not None: opts.append(['-r', pre + str(r)])
    if extra_first: opts = extra_first + opts
    else: g.shuffle(opts)
    if g.random() < 0.15: opts = [[o[0] + o[1]] if len(o) == 2 and g.random() < 0.5 else o for o in opts]   # attached form -n4
    return [t for o in opts for t in o]


def num_table(argv):
    lex = set()
    for t in argv:
        body = t[2:] if (t.startswith('-') and len(t) > 2 and not t[1].isdigit()) else t
        if body.startswith('B'): body = body[1:]
        if body.endswith('k'): body = body[:-1]
        for x in body.split(','):
            try: float(x); lex.add(x)
            except ValueError: pass
    return ' '.join('%s=%s' % (x, dhex(float(x))) for x in sorted(lex))


def exec_check(status, nblocks):
    def chk(vals, line):
        t = line.split()
        if not t or t[0] != 'ok': return 'error result ' + line[:160]
        if int(t[1]) != status: return 'exit status %s, expected %d (first mismatch: %s)' % (t[1], status, t[5])
        if t[2] != '0': return '%s printed theory block(s) differ from the model assembled from the library (first: %s)' % (t[2], t[5])
        if t[3] != '0': return 'non-finite value printed in the theory'
        if nblocks is not None and int(t[4]) != nblocks: return '%s theory blocks compared, expected %d' % (t[4], nblocks)
        return None
    return chk


def gen_C17(g, tier):
    nrand = 40 if tier == 'quick' else 900
    cs = []

    def emit(dual, n, nlag, rho, sa, sb, tag, extra_first=None):
        if not admissible(rho, sa, sb): rho = '0'
        argv = argv_of(g, dual, n, nlag, rho, sa, sb, extra_first)
        cfg = cfg_tokens(dual, n, nlag, rho, sa, sb)
        cs.append(Case('cli.run %s @ %s # %s' % (cfg, ' '.join(argv), num_table(argv)), 'cmp', tag))
        cs.append(Case('cli.exec %s @ %s' % (cfg, ' '.join(argv)), 'orc', tag, check=exec_check(0, 2 + nlag)))

    plain = (None, None, None, None)
    # exhaustive over option presence/absence: dual kind x {-k} x {-l,-b,-r on A} x {on B} with fixed values
    for dual in (('none', None), ('superposed', None), ('composite', '0.25'), ('disjoint', '0.5'), ('coherent', '0.5')):
        for rho in ((None, '0.3') if dual[0] != 'none' else (None,)):
            for la in (None, '0.5'):
                for ma in (None, 'b', 'r'):
                    for lb in ((None, '1') if dual[0] != 'none' else (None,)):
                        for mb in ((None, 'b', 'r') if dual[0] != 'none' else (None,)):
                            if tier == 'quick' and g.random() < 0.55: continue
                            sa = ('1,0.5,0.2,-0.1', la, 3 if ma == 'b' else None, 3 if ma == 'r' else None)
                            sb = ('2,0,1,1', lb, 2 if mb == 'b' else None, 5 if mb == 'r' else None) if dual[0] != 'none' else plain
                            emit(dual, 4, 3, rho, sa, sb, 'grid-' + dual[0])
    # boundary values: fraction 0 and 1, |p| = I, widths equal to / smaller / larger than the sample size
    for f in ('0', '1', '0.5', '0.999', '0.001'):
        for kind in ('composite', 'disjoint', 'coherent'):
            for n in (1, 2, 5):
                emit((kind, f), n, 2, None, ('1,0.6,0,0.8', None, None, None), ('5,3,4,0', None, None, None), 'boundary-fraction')
    for n in (1, 3, 4):
        for w in (n - 1, n, n + 1, 2):
            if w < 1: continue
            emit(('none', None), n, n + 2, None, ('1,1,0,0', '1', w, None), plain, 'boundary-width')
            emit(('none', None), n, n + 2, None, ('1,1,0,0', '1', None, w), plain, 'boundary-width')
            emit(('superposed', None), n, 2, '0.3', ('1,1,0,0', '1', w, None), ('2,0,1,1', '0.5', None, w), 'boundary-width')
    # sampled numeric values, shuffled option order, repeated -s, options of mode B without a dual sample
    for _ in range(nrand):
        n = g.choice([1, 2, 3, 4, 8, 16]); nlag = g.choice([0, 1, 2, 3, 5])
        kind = g.choice(['none', 'superposed', 'composite', 'disjoint', 'coherent'])
        dual = (kind, None if kind in ('none', 'superposed') else g.choice(['0', '1', '0.25', '0.5', '0.75', '0.1', '0.9', '0.3333']))
        rho = g.choice([None, None, '0', '0.3', '-0.3', '0.5']) if kind != 'none' else None
        sa = setup(g, n, allow_both=True); sb = setup(g, n, allow_both=True)
        if kind == 'none' and g.random() < 0.7: sb = plain
        emit(dual, n, nlag, rho, sa, sb, 'random-' + kind)
    # the last of several -s / dual flags wins
    for _ in range(max(3, nrand // 10)):
        first = g.choice(STOKES_OK); second = g.choice(STOKES_OK)
        emit(('superposed', None), 2, 2, None, (second, None, None, None), ('2,0,1,1', None, None, None), 'repeated-option', extra_first=[['-s', first], ['-D', '0.5']])
    # rejected Stokes vectors, for either mode, wherever they appear
    for bad in STOKES_BAD + STOKES_OK:
        v = parse4(bad)
        ok = accepted(v)
        for pre in ('', 'B'):
            argv = ['-N', '0.001k', '-S', '-s', pre + bad] if g.random() < 0.5 else ['-s', pre + bad, '-N', '0.001k', '-S', '-n', '2']
            if ok:
                n = 2 if '-n' in argv else 1
                sa = (bad, None, None, None) if pre == '' else plain; sb = (bad, None, None, None) if pre == 'B' else plain
                cfg = cfg_tokens(('superposed', None), n, 0, None, sa, sb)
                cs.append(Case('cli.run %s @ %s # %s' % (cfg, ' '.join(argv), num_table(argv)), 'cmp', 'stokes-accepted'))
                cs.append(Case('cli.exec %s @ %s' % (cfg, ' '.join(argv)), 'orc', 'stokes-accepted', check=exec_check(0, 2)))
            else:
                cs.append(Case('cli.run reject @ %s # %s' % (' '.join(argv), num_table(argv)), 'cmp', 'stokes-rejected'))
                cs.append(Case('cli.exec reject @ %s' % ' '.join(argv), 'orc', 'stokes-rejected', check=exec_check(255, None)))
    # an inadmissible vector is refused even when a later -s for the same mode (or -h, or anything else) follows it
    for _ in range(6 if tier == 'quick' else 60):
        bad = g.choice(STOKES_BAD); good = g.choice([x for x in STOKES_OK if x != '0,0,0,0']); pre = g.choice(['', 'B'])
        for argv in (['-N', '0.001k', '-S', '-s', pre + bad, '-s', pre + good], ['-s', pre + bad, '-n', '2', '-s', pre + good, '-N', '0.001k'],
                     ['-S', '-s', pre + good, '-s', pre + bad, '-s', pre + good, '-N', '0.001k'], ['-s', pre + bad, '-h']):
            cs.append(Case('cli.run reject @ %s # %s' % (' '.join(argv), num_table(argv)), 'cmp', 'stokes-rejected-then-overridden'))
            cs.append(Case('cli.exec reject @ %s' % ' '.join(argv), 'orc', 'stokes-rejected-then-overridden', check=exec_check(255, None)))
    cs.append(Case('cli.run parse-error @ -s 1,2,3 # 1=%s 2=%s 3=%s' % (dhex(1.0), dhex(2.0), dhex(3.0)), 'cmp', 'parse-error'))
    cs.append(Case('cli.exec parse-error @ -s 1,2,3', 'orc', 'parse-error', check=exec_check(255, None)))
    cs.append(Case('cli.run usage @ -h #', 'cmp', 'usage'))
    cs.append(Case('cli.exec usage @ -h', 'orc', 'usage', check=exec_check(0, None)))
    return cs


def replay_check(vals, line):
    t = line.split()
    if not t or t[0] != 'ok': return 'error result ' + line[:160]
    if t[2] != '0': return '%s printed theory block(s) differ (first: %s)' % (t[2], t[5])
    if t[3] != '0': return 'non-finite value printed in the theory'
    return None


C17 = dict(
    id='C17', module='EpsicProofs.Props.C17', gen=gen_C17, replay_check=replay_check, no_shrink=True,
    rule="epsic.cpp's main (compiled into the harness, run in forked children with their own working directories) on: the full "
         'presence/absence grid dual kind x -k x {-l, -b, -r} on each mode; boundary values (fraction 0 and 1, |p| = I, widths '
         'below/at/above the sample size); random invocations with shuffled option order, attached and separated option forms, '
         'repeated options; rejected and accepted Stokes vectors for either mode.  Every "expected=" block printed on stderr and '
         'in acf.txt is compared as text with the same model assembled directly from the library and written through the same '
         'stream operators; exit status and finiteness checked; the Lean model of the getopt loop reads the same argument vector '
         'and must produce the intended configuration and, bit for bit, the library-assembled theory',
    trusted=['glibc getopt / atof / atoi / sscanf (leaves of the model)', 'fork/exec plumbing of the harness'],
    assumptions=['option clusters (-St) and options outside the documented set are not generated', 'intensity correlations are kept inside the range the bivariate log-normal model admits (C08 covers the range test)'],
    partial='the comparison with the printed text has the 6 significant digits the program prints; Monte-Carlo part of the program not compared',
)
SPECS = {'C17': C17}
