"""Shared machinery of ./check: Lean build + audit, harness build from /repo's working tree,
differential run of model driver and implementation harness, oracle evaluation, verdict and
evidence.  See DESIGN.md sections 3 and 5."""
import fcntl, hashlib, json, os, random, re, shutil, subprocess, sys, tempfile, time
from fractions import Fraction

VERIF = os.path.dirname(os.path.dirname(os.path.abspath(__file__)))
REPO = os.environ.get('EPSIC_REPO', '/repo')
LEAN = os.path.join(VERIF, 'lean')
BUILD = os.path.join(VERIF, 'build')
ALLOWED_AXIOMS = {'propext', 'Classical.choice', 'Quot.sound'}
FORBIDDEN = re.compile(r'\bsorry\b|\badmit\b|^\s*axiom\s|native_decide|bv_decide|implemented_by|\bunsafe\s|maxHeartbeats\s+0')


def log(msg):
    print('[check] ' + msg, file=sys.stderr, flush=True)


class Lock:
    def __init__(self, name):
        os.makedirs(BUILD, exist_ok=True)
        self.path = os.path.join(BUILD, name + '.lock')

    def __enter__(self):
        self.f = open(self.path, 'w')
        fcntl.flock(self.f, fcntl.LOCK_EX)
        return self

    def __exit__(self, *a):
        fcntl.flock(self.f, fcntl.LOCK_UN)
        self.f.close()


# ----------------------------------------------------------------------------- Lean side

def strip_comments(src):
    out, i, depth, n = [], 0, 0, len(src)
    while i < n:
        if src.startswith('/-', i):
            depth += 1; i += 2; continue
        if depth and src.startswith('-/', i):
            depth -= 1; i += 2; continue
        if depth:
            if src[i] == '\n': out.append('\n')
            i += 1; continue
        if src.startswith('--', i):
            while i < n and src[i] != '\n': i += 1
            continue
        out.append(src[i]); i += 1
    return ''.join(out)


def lean_sources():
    res = []
    for root, dirs, files in os.walk(LEAN):
        if '.lake' in root: continue
        for f in files:
            if f.endswith('.lean'): res.append(os.path.join(root, f))
    return sorted(res)


def audit_sources():
    """grep every Lean source (comments stripped) for escape hatches"""
    hits = []
    for p in lean_sources():
        txt = strip_comments(open(p).read())
        for ln, line in enumerate(txt.split('\n'), 1):
            if FORBIDDEN.search(line):
                hits.append('%s:%d: %s' % (os.path.relpath(p, VERIF), ln, line.strip()))
    return hits


def theorems_of(module):
    """names of the theorems declared in a Props module (namespace-qualified)"""
    path = os.path.join(LEAN, module.replace('.', '/') + '.lean')
    txt = strip_comments(open(path).read())
    ns, names = [], []
    for line in txt.split('\n'):
        m = re.match(r'\s*namespace\s+(\S+)', line)
        if m: ns.append(m.group(1)); continue
        m = re.match(r'\s*end\s+(\S+)', line)
        if m and ns and ns[-1] == m.group(1): ns.pop(); continue
        m = re.match(r'\s*(?:@\[[^\]]*\]\s*)?(?:private\s+|protected\s+)?theorem\s+(\S+)', line)
        if m: names.append('.'.join(ns + [m.group(1)]))
    return names


def lean_build(targets):
    with Lock('lake'):
        t0 = time.time()
        p = subprocess.run(['lake', 'build'] + targets, cwd=LEAN, stdout=subprocess.PIPE, stderr=subprocess.STDOUT, text=True)
        return p.returncode == 0, p.stdout, time.time() - t0


def axioms_audit(module, names):
    """#print axioms on every property theorem; returns (per-theorem axioms, problems)"""
    src = 'import %s\n' % module + ''.join('#print axioms %s\n' % n for n in names)
    with tempfile.NamedTemporaryFile('w', suffix='.lean', dir=BUILD, delete=False) as f:
        f.write(src); tmp = f.name
    try:
        with Lock('lake'):
            p = subprocess.run(['lake', 'env', 'lean', tmp], cwd=LEAN, stdout=subprocess.PIPE, stderr=subprocess.STDOUT, text=True)
    finally:
        os.unlink(tmp)
    out = p.stdout
    per, problems = {}, []
    flat = out.replace('\n', ' ')
    for n in names:
        m = re.search(re.escape("'" + n + "'") + r" (depends on axioms: \[([^\]]*)\]|does not depend on any axioms)", flat)
        if not m: continue
        ax = [a.strip() for a in (m.group(2) or '').split(',') if a.strip()]
        per[n] = ax
        bad = [a for a in ax if a not in ALLOWED_AXIOMS]
        if bad: problems.append('%s uses %s' % (n, bad))
    for n in names:
        if n not in per: problems.append('no axiom report for %s' % n)
    if p.returncode != 0: problems.append('lean exited %d: %s' % (p.returncode, out[-400:]))
    return per, problems


def leanchecker(module):
    with Lock('lake'):
        p = subprocess.run(['lake', 'env', 'leanchecker', module], cwd=LEAN, stdout=subprocess.PIPE, stderr=subprocess.STDOUT, text=True)
    return p.returncode == 0, p.stdout[-600:]


# ----------------------------------------------------------------------------- harness side

class Scratch:
    """fresh copy of /repo/src's working tree outside /repo and /verif; removed on exit"""
    def __enter__(self):
        self.dir = tempfile.mkdtemp(prefix='epsic_verif_')
        files = subprocess.run(['git', '-C', REPO, 'ls-files', '-co', '--exclude-standard', 'src'],
                               stdout=subprocess.PIPE, text=True, check=True).stdout.split('\n')
        for f in files:
            if not f: continue
            sp = os.path.join(REPO, f)
            if not os.path.isfile(sp): continue
            dp = os.path.join(self.dir, f)
            os.makedirs(os.path.dirname(dp), exist_ok=True)
            shutil.copyfile(sp, dp)
        self.src = os.path.join(self.dir, 'src')
        self.util = os.path.join(self.src, 'util')
        # regenerate PromoteTraits.h the way util/Makefile.am does
        defs = ['-DHAVE_BEST_PARTIAL_SPECIALIZATION', '-DHAVE_DEFAULT_PARTIAL_SPECIALIZATION', '-DHAVE_COMPLEX_TEMPLATES']
        shutil.copyfile(os.path.join(self.util, 'header_PromoteTraits'), os.path.join(self.util, 'PromoteTraits.h'))
        subprocess.run(['g++'] + defs + ['generate_PromoteTraits.C', '-o', 'gen_pt'], cwd=self.util, check=True,
                       stdout=subprocess.PIPE, stderr=subprocess.STDOUT)
        subprocess.run(['./gen_pt'], cwd=self.util, check=True)
        return self

    def __exit__(self, *a):
        shutil.rmtree(self.dir, ignore_errors=True)

    def digest(self, extra):
        h = hashlib.sha256()
        for root, dirs, files in sorted(os.walk(self.src)):
            for f in sorted(files):
                if f == 'gen_pt': continue
                p = os.path.join(root, f)
                h.update(os.path.relpath(p, self.src).encode()); h.update(open(p, 'rb').read())
        for p in extra:
            h.update(p.encode()); h.update(open(p, 'rb').read())
        return h.hexdigest()[:24]


SAN = ['-fsanitize=address,undefined', '-fno-sanitize-recover=all']


def build_harness(scr, name, sources, repo_sources=(), flags=(), libs=('-lgmpxx', '-lgmp'), sanitize=True):
    """compile harness/<sources> + <repo_sources> (paths relative to the scratch src dir).
    Binaries are cached under build/ keyed by a digest of every input file."""
    hdir = os.path.join(VERIF, 'harness')
    hfiles = [os.path.join(hdir, s) for s in sources]
    deps = [os.path.join(hdir, f) for f in sorted(os.listdir(hdir)) if f.endswith('.h')]
    key = scr.digest(hfiles + deps) + hashlib.sha256(' '.join(list(flags) + list(repo_sources) + [str(sanitize)]).encode()).hexdigest()[:8]
    os.makedirs(os.path.join(BUILD, 'bin'), exist_ok=True)
    exe = os.path.join(BUILD, 'bin', '%s-%s' % (name, key))
    if os.path.exists(exe):
        return exe, None, 0.0
    t0 = time.time()
    cmd = (['g++', '-std=gnu++17', '-O0', '-DEPSIC_VERIF', '-w', '-pthread'] + (SAN if sanitize else []) + list(flags) +
           ['-I' + scr.util, '-I' + scr.src, '-I' + hdir] + hfiles + [os.path.join(scr.src, r) for r in repo_sources] +
           list(libs) + ['-o', exe + '.tmp'])
    p = subprocess.run(cmd, stdout=subprocess.PIPE, stderr=subprocess.STDOUT, text=True)
    if p.returncode != 0:
        return None, p.stdout, time.time() - t0
    os.replace(exe + '.tmp', exe)
    # keep the cache small
    bins = sorted((os.path.getmtime(os.path.join(BUILD, 'bin', f)), f) for f in os.listdir(os.path.join(BUILD, 'bin')))
    for _, f in bins[:-110]:      # C20 alone keeps 36 binaries (flag-set combinations)
        try: os.unlink(os.path.join(BUILD, 'bin', f))
        except OSError: pass
    return exe, None, time.time() - t0


def run_lines(cmd, lines, timeout=1800, env=None):
    """feed lines to a line-protocol process; a sanitizer abort / crash is localised by bisection"""
    data = '\n'.join(lines) + '\n'
    e = dict(os.environ); e['ASAN_OPTIONS'] = 'detect_leaks=0:abort_on_error=0'
    e['UBSAN_OPTIONS'] = 'print_stacktrace=0'
    if env: e.update(env)
    p = subprocess.run(cmd, input=data, stdout=subprocess.PIPE, stderr=subprocess.PIPE, text=True, timeout=timeout, env=e)
    out = p.stdout.split('\n')
    if out and out[-1] == '': out.pop()
    if p.returncode == 0 and len(out) == len(lines):
        return out
    # crash: the line after the last complete output line is the culprit
    k = len(out)
    if k >= len(lines):
        return out[:len(lines)]
    kind = 'crash'
    m = re.search(r'(AddressSanitizer|UndefinedBehaviorSanitizer|runtime error)[: ]+([a-zA-Z\-_ ]+)', p.stderr)
    if m: kind = 'san:' + m.group(2).strip().replace(' ', '-')[:40]
    elif p.returncode < 0: kind = 'signal%d' % (-p.returncode)
    res = out[:k] + ['err ' + kind]
    if k + 1 < len(lines):
        res += run_lines(cmd, lines[k + 1:], timeout, env)
    return res


def driver_exe():
    return os.path.join(LEAN, '.lake', 'build', 'bin', 'epsic_driver')


# ----------------------------------------------------------------------------- values

def fr(x):
    """Fraction -> protocol string"""
    x = Fraction(x)
    return str(x.numerator) if x.denominator == 1 else '%d/%d' % (x.numerator, x.denominator)


def frs(xs):
    return ' '.join(fr(x) for x in xs)


def parse_vals(line):
    """'ok a b c' -> [Fraction]; None for error lines"""
    t = line.split()
    if not t or t[0] != 'ok': return None
    if any(not re.match(r'^-?\d+(/\d+)?$', x) for x in t[1:]): return None
    try:
        return [Fraction(x) for x in t[1:]]
    except (ValueError, ZeroDivisionError):
        return None


import struct

def dhex(x):
    return '%016x' % struct.unpack('<Q', struct.pack('<d', float(x)))[0]


def hexd(s):
    return struct.unpack('<d', struct.pack('<Q', int(s, 16)))[0]


class Gen:
    """all random choices of a check derive from this one PRNG (VERIF_SEED)"""
    def __init__(self, seed):
        self.r = random.Random(seed)

    def small(self):
        return Fraction(self.r.randint(-9, 9), self.r.randint(1, 6))

    def rat(self):
        k = self.r.random()
        if k < 0.08: return Fraction(0)
        if k < 0.14: return Fraction(self.r.choice([1, -1]))
        if k < 0.75: return self.small()
        if k < 0.9: return Fraction(self.r.randint(-1000, 1000), self.r.randint(1, 997))
        return Fraction(self.r.randint(-10**12, 10**12), self.r.randint(1, 10**9)) * Fraction(2) ** self.r.randint(-40, 40)

    def nz(self):
        while True:
            x = self.rat()
            if x != 0: return x

    def rats(self, n):
        return [self.rat() for _ in range(n)]

    def smalls(self, n):
        return [self.small() for _ in range(n)]

    def choice(self, xs):
        return self.r.choice(xs)

    def randint(self, a, b):
        return self.r.randint(a, b)

    def random(self):
        return self.r.random()

    def shuffle(self, xs):
        self.r.shuffle(xs)
