"""Property C16 through harness group "alias": every compound operator x every aliasing pattern."""
from fractions import Fraction as F
from .core import fr, frs
from .runner import Case

GROUP = dict(name='alias', sources=['h_alias.cpp'], repo_sources=[], driver='alias', thread_mode=True)


def halves_equal(vals, line):
    """oracle: the aliased compound assignment (first half) equals x op copy (second half)"""
    if vals is None:
        return None if line.startswith('err div0') else 'error result ' + line
    n = len(vals) // 2
    if vals[:n] != vals[n:]:
        return 'x op= alias(x) = %s but x op copy = %s' % ([str(v) for v in vals[:n]], [str(v) for v in vals[n:]])
    return None


def table():
    """the finite (type, operator, alias shape) table; values are filled in by the generator"""
    rows = []
    for n in range(1, 7):
        for op in ('mul', 'div'):
            for k in range(n + 1):
                rows.append(('al.vec %d %s %d' % (n, op, k), n + (1 if k == n else 0), 'vec-scalar-' + ('distinct' if k == n else 'element')))
        for op in ('add', 'sub'):
            rows.append(('al.vecvec %d %s same' % (n, op), n, 'vec-vec-same'))
            rows.append(('al.vecvec %d %s distinct' % (n, op), 2 * n, 'vec-vec-distinct'))
    for r, c in [(1, 1), (1, 2), (1, 3), (2, 1), (2, 2), (2, 3), (3, 1), (3, 2), (3, 3), (4, 4)]:
        for op in ('mul', 'div'):
            for k in range(r * c + 1):
                rows.append(('al.mat %d %d %s %d' % (r, c, op, k), r * c + (1 if k == r * c else 0), 'mat-scalar-' + ('distinct' if k == r * c else 'element')))
        for op in ('add', 'sub'):
            rows.append(('al.matmat %d %d %s same' % (r, c, op), r * c, 'mat-mat-same'))
            rows.append(('al.matmat %d %d %s distinct' % (r, c, op), 2 * r * c, 'mat-mat-distinct'))
    for op in ('mul', 'div'):
        for k in range(5):
            rows.append(('al.stokes %s %d' % (op, k), 4 + (k == 4), 'stokes-scalar-' + ('distinct' if k == 4 else 'element')))
            rows.append(('al.jonesc %s %d' % (op, k), 8 + 2 * (k == 4), 'jones-complex-' + ('distinct' if k == 4 else 'element')))
        for k in range(9):
            rows.append(('al.jonesr %s %d' % (op, k), 8 + (k == 8), 'jones-real-' + ('distinct' if k == 8 else 'part')))
        for k in range(5):
            rows.append(('al.spinors %s %d' % (op, k), 4 + (k == 4), 'spinor-scalar'))
    for k in range(3):
        rows.append(('al.spinorc %d' % k, 4 + 2 * (k == 2), 'spinor-complex-' + ('distinct' if k == 2 else 'component')))
    for op in ('add', 'sub'):
        rows.append(('al.stokesvec %s same' % op, 4, 'stokes-vec-same'))
        rows.append(('al.stokesvec %s distinct' % op, 8, 'stokes-vec-distinct'))
    for op in ('add', 'sub', 'mul'):
        rows.append(('al.jones %s same' % op, 8, 'jones-jones-same'))
        rows.append(('al.jones %s distinct' % op, 16, 'jones-jones-distinct'))
        rows.append(('al.quatq %s same' % op, 4, 'quat-quat-same'))
        rows.append(('al.quatq %s distinct' % op, 8, 'quat-quat-distinct'))
        rows.append(('al.biquatq %s same' % op, 8, 'biquat-biquat-same'))
        rows.append(('al.biquatq %s distinct' % op, 16, 'biquat-biquat-distinct'))
    for op in ('muls', 'divs', 'adds', 'subs'):
        for k in range(5):
            rows.append(('al.quat %s %d' % (op, k), 4 + (k == 4), 'quat-scalar-' + ('distinct' if k == 4 else 'component')))
    for op in ('muls', 'divs'):
        for k in range(5):
            rows.append(('al.biquat %s %d' % (op, k), 8 + 2 * (k == 4), 'biquat-scalar-' + ('distinct' if k == 4 else 'component')))
    for op in ('add', 'sub', 'mul', 'div'):
        rows.append(('al.est %s same' % op, 2, 'estimate-same'))
        rows.append(('al.est %s distinct' % op, 4, 'estimate-distinct'))
    rows.append(('al.spinor add same', 4, 'spinor-spinor-same'))
    rows.append(('al.spinor add distinct', 8, 'spinor-spinor-distinct'))
    rows.append(('al.fracpol', 4, 'fractional-polarisation'))
    return rows


def gen_C16(g, tier):
    reps = 3 if tier == 'quick' else 60
    cs = []
    for head, nvals, tag in table():
        for rep in range(reps):
            if rep == 0:
                vals = [F(i + 2) for i in range(nvals)]          # distinct small integers: every slot distinguishable
            elif rep == 1:
                vals = [g.nz() for _ in range(nvals)]
            else:
                vals = g.rats(nvals)
            cs.append(Case('%s %s' % (head, frs(vals)), 'cmp', tag, check=halves_equal))
    # containers of Estimate (elements with their own copy semantics): implementation oracle, aliased call against copy
    for rep in range(reps):
        for op in ('mul', 'div'):
            for n in (2, 3, 4):
                for k in range(n + 1):
                    vals = [g.nz() if i % 2 == 0 else abs(g.nz()) for i in range(2 * n + 2 * (k == n))]
                    cs.append(Case('o.c16.vecE %d %s %d %s' % (n, op, k, frs(vals)), 'orc', 'vec-of-estimate-' + ('distinct' if k == n else 'element'), check=halves_equal))
            for k in range(5):
                vals = [g.nz() if i % 2 == 0 else abs(g.nz()) for i in range(8 + 2 * (k == 4))]
                cs.append(Case('o.c16.stokesE %s %d %s' % (op, k, frs(vals)), 'orc', 'stokes-of-estimate-' + ('distinct' if k == 4 else 'element'), check=halves_equal))
                cs.append(Case('o.c16.matE %s %d %s' % (op, k, frs(vals)), 'orc', 'matrix-of-estimate-' + ('distinct' if k == 4 else 'element'), check=halves_equal))
    # the scalar refers to something inside an element (value / variance of an Estimate, part of a complex number, entry of a
    # nested Stokes / Vector): the owning element is updated first, so a re-read scalar shows in every later element
    for rep in range(reps):
        for op in ('mul', 'div'):
            for kind, nel, per, ks in (('vecEval', 3, 'E', range(3)), ('vecEvar', 3, 'E', range(3)), ('stokesEval', 4, 'E', range(4)), ('stokesEvar', 4, 'E', range(4)),
                                       ('matEval', 4, 'E', range(4)), ('vecC', 3, 'C', range(6)), ('stokesC', 4, 'C', range(8)),
                                       ('vecStokes', 8, 'R', [10 * i + j for i in range(2) for j in range(4)]), ('vecVec', 6, 'R', [10 * i + j for i in range(2) for j in range(3)]),
                                       ('matVec', 8, 'R', [10 * i + j for i in range(4) for j in range(2)])):
                for k in ks:
                    if per == 'E': vals = [g.nz() if i % 2 == 0 else abs(g.nz()) for i in range(2 * nel)]
                    elif per == 'C': vals = [g.nz() for _ in range(2 * nel)]
                    else: vals = [g.nz() for _ in range(nel)]
                    cs.append(Case('o.c16.sub %s %s %d %s' % (kind, op, k, frs(vals)), 'orc', 'scalar-inside-an-element-' + kind, check=halves_equal))
    return cs


GROUP_DBL = dict(name='dbl', sources=['h_dbl.cpp'], repo_sources=[], driver=None, replay_prefix=('o.c16.dalias',))


def gen_dbl_c16(g, tier):
    """double-precision aliasing with components of every magnitude (harness group dbl)"""
    from .core import dhex
    cs = []
    reps = 2 if tier == 'quick' else 40
    mags = [3e-310, -1e-310, 5e-324, 2.5e-308, 1e-300, -3e-200, 0.75, -2.5, 3.0, 1e200, -4e299, 1e-5, 7e12]
    for _ in range(reps):
        for type_, n in (('vec3', 3), ('stokes', 4), ('mat22', 4), ('quatH', 4), ('quatU', 4), ('jones', 8)):
            for op in ('mul', 'div'):
                for k in range(n):
                    cls = g.choice(['subnormal', 'mixed', 'ordinary'])
                    if cls == 'subnormal': vals = [g.choice([3e-310, -1e-310, 2e-310, 5e-310, 7e-311]) * g.choice([1, 2, 3]) for _ in range(n)]
                    elif cls == 'mixed': vals = [g.choice(mags) for _ in range(n)]
                    else: vals = [g.r.uniform(-3, 3) or 1.0 for _ in range(n)]
                    if vals[k] == 0: vals[k] = 1.5
                    cs.append(Case('o.c16.dalias %s %s %d %s' % (type_, op, k, ' '.join(dhex(x) for x in vals)), 'orc', 'double-alias-' + cls))
    return cs

C16 = dict(
    id='C16', module='EpsicProofs.Props.C16', gen=gen_C16, replay_check=halves_equal,
    rule='the finite table of (type, compound operator, alias shape) is enumerated completely: Vector N=1..6, Matrix shapes '
         '1x1..3x3 and 4x4, Stokes, Jones, Quaternion (real Unitary, complex Hermitian), Estimate, Spinor; right operand = '
         'distinct object, the object itself, or each element/component obtained through the mutable accessor; values: '
         'distinct small integers, non-zero rationals, random rationals (incl. zeros); each line is compared with the '
         'aliasing-IR model and, as an oracle on the implementation, x op= alias(x) is compared with x op= copy',
    exhaustive=True,
    trusted=['GMP exact rationals', 'the transcription of each operator into the store IR (checked by this table)'],
    assumptions=['parameter passing modes are transcribed by hand and validated by the aliased rows of the table'],
    partial='IEEE rounding (the same statements in floating point)',
)

SPECS = {'C16': C16}
