"""Properties decided through harness group "alg" (exact-rational instantiation of the Jones /
Quaternion / Pauli / Stokes / Minkowski templates): C02 C03 C04 C15."""
import math
from fractions import Fraction as F
from .core import fr, frs, dhex
from .runner import Case
from . import props_mixed

GROUP = dict(name='alg', sources=['h_alg.cpp'], repo_sources=['util/Pauli.C'], driver='alg', flags=('-pthread',), thread_mode=True)


def cxs(g, n): return g.rats(2 * n)


def unit_biquats():
    """the 8 elements 1·e_k and i·e_k of the biquaternion basis (complete for bilinear maps)"""
    res = []
    for k in range(4):
        for im in (0, 1):
            v = [F(0)] * 8; v[2 * k + im] = F(1); res.append(v)
    return res


def unit_jones(): return unit_biquats()


def special_jones(g):
    z = [F(0)] * 8
    a, b, c, d = g.nz(), g.nz(), g.nz(), g.nz()
    return [
        ('zero', z),
        ('identity', [1, 0, 0, 0, 0, 0, 1, 0]),
        ('scalar', [a, b, 0, 0, 0, 0, a, b]),
        ('diagonal', [a, b, 0, 0, 0, 0, c, d]),
        ('singular', [a, 0, a * c, 0, b, 0, b * c, 0]),          # rows proportional: det = 0
        ('nilpotent', [0, 0, a, b, 0, 0, 0, 0]),
        ('hermitian', [a, 0, c, d, c, -d, b, 0]),
        ('mixedscale', [a * F(2) ** 60, b, c * F(2) ** -60, d, 1, 0, F(2) ** -80, F(2) ** 70]),
        ('traceless', [a, b, c, d, d, c, -a, -b]),
    ]


def special_quats(g):
    a, b, c, d = g.nz(), g.nz(), g.nz(), g.nz()
    return [('zero', [0, 0, 0, 0]), ('scalar', [a, 0, 0, 0]), ('vector', [0, b, c, d]),
            ('nullH', [5, 3, 0, 4]), ('axis', [a, b, 0, 0])]


def special_biquats(g):
    res = []
    for tag, q in special_quats(g):
        res.append((tag, [x for v in q for x in (v, 0)]))
    a, b = g.nz(), g.nz()
    res.append(('imag-scalar', [0, a, 0, 0, 0, 0, 0, 0]))
    res.append(('isotropic', [1, 0, 0, 1, 0, 0, 0, 0]))      # 1 + i·e1: detU = 0
    res.append(('singularH', [a, b, a, b, 0, 0, 0, 0]))       # s0 = s1: detH = 0
    return res


# ------------------------------------------------------------------------------------------ C03

C03_UN_B = ['b.conjH', 'b.conjU', 'b.hermH', 'b.hermU', 'b.invH', 'b.invU', 'b.detH', 'b.detU', 'b.trace', 'b.norm',
            'b.real', 'b.imag', 'b.neg', 'cv.HC', 'cv.UC']
C03_UN_Q = ['q.conjH', 'q.conjU', 'q.hermH', 'q.hermU', 'q.invH', 'q.invU', 'q.detH', 'q.detU', 'q.trace', 'q.norm',
            'cv.HR', 'cv.UR']
C03_BIN_B = ['b.mulH', 'b.mulU', 'b.add', 'b.sub', 'b.mulassignU', 'b.mulassignH']
C03_BIN_Q = ['q.mulU', 'q.add', 'q.sub']


def gen_C03(g, tier):
    n = 60 if tier == 'quick' else 1500
    cs = []
    ub = unit_biquats()
    # basis-complete enumeration of the bilinear maps
    for a in ub:
        for b in ub:
            for op in ('b.mulH', 'b.mulU'):
                cs.append(Case('%s %s %s' % (op, frs(a), frs(b)), 'cmp', 'basis-pair'))
            cs.append(Case('o.c03.homH %s %s' % (frs(a), frs(b)), 'orc', 'basis-pair'))
            cs.append(Case('o.c03.homU %s %s' % (frs(a), frs(b)), 'orc', 'basis-pair'))
    for a in ub:
        for op in C03_UN_B + ['cv.toH', 'cv.toU']:
            cs.append(Case('%s %s' % (op, frs(a)), 'cmp', 'basis-unit'))
        for op in ('o.c03.roundH', 'o.c03.roundU', 'o.c03.roundJ', 'o.c03.funH', 'o.c03.funU'):
            cs.append(Case('%s %s' % (op, frs(a)), 'orc', 'basis-unit'))
    for k in range(4):
        cs.append(Case('pauli.matrix %d' % k, 'cmp', 'units'))
    cs.append(Case('q.identity', 'cmp', 'units'))
    cs.append(Case('o.c03.units', 'orc', 'units'))
    # special values
    for tag, q in special_biquats(g):
        for op in C03_UN_B:
            cs.append(Case('%s %s' % (op, frs(q)), 'cmp', 'special-' + tag))
        for op in ('o.c03.roundH', 'o.c03.roundU', 'o.c03.funH', 'o.c03.funU'):
            cs.append(Case('%s %s' % (op, frs(q)), 'orc', 'special-' + tag))
        for tag2, q2 in special_biquats(g):
            cs.append(Case('o.c03.homH %s %s' % (frs(q), frs(q2)), 'orc', 'special-pair'))
            cs.append(Case('o.c03.homU %s %s' % (frs(q), frs(q2)), 'orc', 'special-pair'))
    for tag, q in special_quats(g):
        for op in C03_UN_Q:
            cs.append(Case('%s %s' % (op, frs(q)), 'cmp', 'special-' + tag))
        for tag2, q2 in special_quats(g):
            cs.append(Case('o.c03.real %s %s' % (frs(q), frs(q2)), 'orc', 'special-pair'))
    for tag, j in special_jones(g):
        cs.append(Case('cv.toH %s' % frs(j), 'cmp', 'special-' + tag))
        cs.append(Case('cv.toU %s' % frs(j), 'cmp', 'special-' + tag))
        cs.append(Case('o.c03.roundJ %s' % frs(j), 'orc', 'special-' + tag))
    # biquaternions with determinant exactly (1,0) that are not unitary / not Hermitian (hyperbolic and circular rational points,
    # on every pair of components): "unit determinant" must not be mistaken for "rotation"
    def hyp(t): return (1 + t * t) / (1 - t * t), 2 * t / (1 - t * t)
    def circ(t): return (1 - t * t) / (1 + t * t), 2 * t / (1 + t * t)
    for _ in range(max(6, n // 6)):
        t = g.nz()
        while abs(t) == 1: t = g.nz()
        i, j = g.r.sample(range(4), 2)
        fam = []
        a, b = hyp(t); q = [F(0)] * 8; q[2 * i] = a; q[2 * j + 1] = b; fam.append(('U', list(q)))          # z_i = a, z_j = i b: a^2 + (ib)^2 = 1
        a, b = circ(t); q = [F(0)] * 8; q[2 * i + 1] = a; q[2 * j + 1] = b; fam.append(('U-1', list(q)))    # det = -1
        a, b = circ(t); q = [F(0)] * 8; q[2 * i] = a; q[2 * j] = b; fam.append(('U', list(q)))              # a genuine rotation, for contrast
        if i == 0 or j == 0:
            k = j if i == 0 else i
            a, b = hyp(t); q = [F(0)] * 8; q[0] = a; q[2 * k] = b; fam.append(('H', list(q)))                 # s0^2 - s_k^2 = 1 (a boost)
            a, b = circ(t); q = [F(0)] * 8; q[0] = a; q[2 * k + 1] = b; fam.append(('H', list(q)))            # s0^2 - (ib)^2 = 1
        for tag, q in fam:
            for op in C03_UN_B: cs.append(Case('%s %s' % (op, frs(q)), 'cmp', 'unimodular-' + tag))
            for op in ('o.c03.roundH', 'o.c03.roundU', 'o.c03.funH', 'o.c03.funU'): cs.append(Case('%s %s' % (op, frs(q)), 'orc', 'unimodular-' + tag))
            other = cxs(g, 4)
            cs.append(Case('o.c03.homH %s %s' % (frs(q), frs(other)), 'orc', 'unimodular-' + tag))
            cs.append(Case('o.c03.homU %s %s' % (frs(q), frs(other)), 'orc', 'unimodular-' + tag))
    # seeded random
    for _ in range(n):
        a, b, c = cxs(g, 4), cxs(g, 4), g.rats(2)
        qa, qb = g.rats(4), g.rats(4)
        for op in C03_BIN_B: cs.append(Case('%s %s %s' % (op, frs(a), frs(b)), 'cmp', 'random'))
        for op in C03_UN_B: cs.append(Case('%s %s' % (op, frs(a)), 'cmp', 'random'))
        for op in C03_BIN_Q: cs.append(Case('%s %s %s' % (op, frs(qa), frs(qb)), 'cmp', 'random'))
        for op in C03_UN_Q: cs.append(Case('%s %s' % (op, frs(qa)), 'cmp', 'random'))
        cs.append(Case('b.smul %s %s' % (frs(a), frs(c)), 'cmp', 'random'))
        cs.append(Case('b.csmul %s %s' % (frs(c), frs(a)), 'cmp', 'random'))
        cs.append(Case('b.sdiv %s %s' % (frs(a), frs(c)), 'cmp', 'random'))
        cs.append(Case('q.smul %s %s' % (frs(qa), fr(c[0])), 'cmp', 'random'))
        cs.append(Case('q.sdiv %s %s' % (frs(qa), fr(c[0])), 'cmp', 'random'))
        cs.append(Case('q.addscalar %s %s' % (frs(qa), fr(c[0])), 'cmp', 'random'))
        cs.append(Case('q.get %s %d' % (frs(qa), g.randint(0, 3)), 'cmp', 'random'))
        for k in range(4):
            cs.append(Case('q.smul.self %s %d' % (frs(qa), k), 'cmp', 'scalar-from-self'))
            cs.append(Case('q.sdiv.self %s %d' % (frs(qa), k), 'cmp', 'scalar-from-self'))
            cs.append(Case('b.smul.self %s %d' % (frs(a), k), 'cmp', 'scalar-from-self'))
            cs.append(Case('b.sdiv.self %s %d' % (frs(a), k), 'cmp', 'scalar-from-self'))
            cs.append(Case('o.c03.scalself %s %d' % (frs(a), k), 'orc', 'scalar-from-self'))
        cs.append(Case('q.scalarvector %s' % frs(g.rats(4)), 'cmp', 'random'))
        j = cxs(g, 4)
        cs.append(Case('cv.toH %s' % frs(j), 'cmp', 'random'))
        cs.append(Case('cv.toU %s' % frs(j), 'cmp', 'random'))
        for op in ('mx.JQh', 'mx.JQu'): cs.append(Case('%s %s %s' % (op, frs(j), frs(a)), 'cmp', 'random'))
        for op in ('mx.QhJ', 'mx.QuJ'): cs.append(Case('%s %s %s' % (op, frs(a), frs(j)), 'cmp', 'random-biquaternion-times-jones'))
        for op in ('mx.JqhR', 'mx.JquR'): cs.append(Case('%s %s %s' % (op, frs(j), frs(qa)), 'cmp', 'random'))
        for op in ('mx.qhRJ', 'mx.quRJ'): cs.append(Case('%s %s %s' % (op, frs(qa), frs(j)), 'cmp', 'random'))
        for op in ('mx.qhqu', 'mx.quqh'): cs.append(Case('%s %s %s' % (op, frs(qa), frs(qb)), 'cmp', 'random'))
        cs.append(Case('o.c03.homH %s %s' % (frs(a), frs(b)), 'orc', 'random'))
        cs.append(Case('o.c03.homU %s %s' % (frs(a), frs(b)), 'orc', 'random'))
        cs.append(Case('o.c03.homUr %s %s' % (frs(qa), frs(qb)), 'orc', 'random'))
        cs.append(Case('o.c03.scal %s %s %s' % (frs(a), frs(b), frs(c)), 'orc', 'random'))
        cs.append(Case('o.c03.funH %s' % frs(a), 'orc', 'random'))
        cs.append(Case('o.c03.funU %s' % frs(a), 'orc', 'random'))
        cs.append(Case('o.c03.roundH %s' % frs(a), 'orc', 'random'))
        cs.append(Case('o.c03.roundU %s' % frs(a), 'orc', 'random'))
        cs.append(Case('o.c03.roundJ %s' % frs(j), 'orc', 'random'))
        cs.append(Case('o.c03.real %s %s' % (frs(qa), frs(qb)), 'orc', 'random'))
        cs.append(Case('o.c03.mixed %s %s %s %s %s' % (frs(j), frs(a), frs(b), frs(qa), frs(qb)), 'orc', 'random'))
    return cs


C03 = dict(
    id='C03', module='EpsicProofs.Props.C03', gen=gen_C03,
    extra=[(props_mixed.GROUP, lambda g, tier: props_mixed.gen_mixed(g, tier, ['mp.quat', 'mp.biquat', 'mp.pauli']))],
    rule='exact-rational arguments: all 64 pairs of biquaternion basis elements {e_k, i e_k} (complete for the bilinear '
         'products), all basis units through every unary map, special values (zero, pure scalar, pure vector, null, singular), '
         'and seeded random rationals of mixed magnitude; a case is non-trivial when its protocol line is distinct',
    trusted=['GMP exact rationals; std::complex<Rat> specialisation in harness/rat.h mirrors libstdc++ generic formulas'],
    assumptions=['floating-point agreement (rounding) is not proved; theorems are over fields of characteristic 0'],
    partial='IEEE rounding of the same formulas at float/double',
)


# ------------------------------------------------------------------------------------------ C04

def gen_C04(g, tier):
    n = 60 if tier == 'quick' else 1500
    cs = []
    uj = unit_jones()
    for a in uj:
        for b in uj:
            cs.append(Case('j.mul %s %s' % (frs(a), frs(b)), 'cmp', 'basis-pair'))
            cs.append(Case('j.mulassign %s %s' % (frs(a), frs(b)), 'cmp', 'basis-pair'))
            cs.append(Case('j.matmul %s %s' % (frs(a), frs(b)), 'cmp', 'basis-pair'))
            cs.append(Case('o.c04.dettrace %s %s 1/2 3' % (frs(a), frs(b)), 'orc', 'basis-pair'))
            cs.append(Case('o.c04.matrix %s %s' % (frs(a), frs(b)), 'orc', 'basis-pair'))
    un = ['j.neg', 'j.inv', 'j.det', 'j.trace', 'j.norm', 'j.conj', 'j.herm', 'j.isdiag', 'j.tomatrix', 'j.frommatrix']
    sp = special_jones(g)
    for tag, a in sp + [('unit', u) for u in uj]:
        for op in un: cs.append(Case('%s %s' % (op, frs(a)), 'cmp', 'special-' + tag))
        cs.append(Case('o.c04.inv %s' % frs(a), 'orc', 'special-' + tag))
        cs.append(Case('o.c04.diag %s' % frs(a), 'orc', 'special-' + tag))
        for tag2, b in sp:
            cs.append(Case('o.c04.ring %s %s %s' % (frs(a), frs(b), frs(sp[g.randint(0, len(sp) - 1)][1])), 'orc', 'special-pair'))
            cs.append(Case('o.c04.conjherm %s %s' % (frs(a), frs(b)), 'orc', 'special-pair'))
            cs.append(Case('o.c04.dettrace %s %s %s' % (frs(a), frs(b), frs(g.rats(2))), 'orc', 'special-pair'))
    cs.append(Case('j.identity', 'cmp', 'units'))
    cs.append(Case('j.size', 'cmp', 'units'))
    # every index through every accessor
    for k in range(4):
        a = g.smalls(8)
        cs.append(Case('j.get %s %d' % (frs(a), k), 'cmp', 'access'))
        cs.append(Case('j.get2 %s %d %d' % (frs(a), k // 2, k % 2), 'cmp', 'access'))
        cs.append(Case('j.set %s %d %s' % (frs(a), k, frs(g.smalls(2))), 'cmp', 'access'))
        cs.append(Case('j.set2 %s %d %d %s' % (frs(a), k // 2, k % 2, frs(g.smalls(2))), 'cmp', 'access'))
        cs.append(Case('j.datum %s %d %s' % (frs(a), k, frs(g.smalls(2))), 'cmp', 'access'))
    # degree of polarisation on inputs with rational square root: diag(a,b) and Hermitian rho of a Pythagorean Stokes vector
    quads = [(3, 1, 2, 2), (7, 2, 3, 6), (9, 1, 4, 8), (5, 0, 3, 4), (1, 0, 0, 0), (2, 0, 0, 2)]
    for _ in range(10 if tier == 'quick' else 200):
        a, b = g.nz(), g.nz()
        if a + b != 0:
            cs.append(Case('j.p %s' % frs([a, 0, 0, 0, 0, 0, b, 0]), 'cmp', 'p-diagonal'))
            cs.append(Case('o.c04.p %s' % frs([a, 0, 0, 0, 0, 0, b, 0]), 'orc', 'p-diagonal'))
        I, q, u, v = g.choice(quads); s = g.nz()
        if I * s > 0 or True:
            rho = [(I + q) * s / 2, 0, u * s / 2, -v * s / 2, u * s / 2, v * s / 2, (I - q) * s / 2, 0]
            cs.append(Case('j.p %s' % frs(rho), 'cmp', 'p-hermitian'))
            cs.append(Case('o.c04.p %s' % frs(rho), 'orc', 'p-hermitian'))
    cs.append(Case('j.p 1 0 0 0 0 0 -1 0', 'cmp', 'p-zero-trace'))
    for _ in range(n):
        a, b, c3 = cxs(g, 4), cxs(g, 4), cxs(g, 4)
        c, r = g.rats(2), g.rat()
        for op in ('j.add', 'j.sub', 'j.mul', 'j.mulassign', 'j.addassign', 'j.subassign', 'j.matmul', 'j.eq'):
            cs.append(Case('%s %s %s' % (op, frs(a), frs(b)), 'cmp', 'random'))
        for op in un: cs.append(Case('%s %s' % (op, frs(a)), 'cmp', 'random'))
        cs.append(Case('j.smulc %s %s' % (frs(a), frs(c)), 'cmp', 'random'))
        cs.append(Case('j.csmul %s %s' % (frs(c), frs(a)), 'cmp', 'random'))
        cs.append(Case('j.smulr %s %s' % (frs(a), fr(r)), 'cmp', 'random'))
        cs.append(Case('j.rsmul %s %s' % (fr(r), frs(a)), 'cmp', 'random'))
        cs.append(Case('j.divc %s %s' % (frs(a), frs(c)), 'cmp', 'random'))
        cs.append(Case('j.divr %s %s' % (frs(a), fr(r)), 'cmp', 'random'))
        cs.append(Case('j.ofscalar %s' % fr(r), 'cmp', 'random'))
        cs.append(Case('j.assignc %s %s' % (frs(a), frs(c)), 'cmp', 'random'))
        cs.append(Case('o.c04.ring %s %s %s' % (frs(a), frs(b), frs(c3)), 'orc', 'random'))
        cs.append(Case('o.c04.scalar %s %s %s %s' % (frs(a), frs(b), frs(c), fr(r)), 'orc', 'random'))
        cs.append(Case('o.c04.dettrace %s %s %s' % (frs(a), frs(b), frs(c)), 'orc', 'random'))
        cs.append(Case('o.c04.conjherm %s %s' % (frs(a), frs(b)), 'orc', 'random'))
        cs.append(Case('o.c04.inv %s' % frs(a), 'orc', 'random'))
        cs.append(Case('o.c04.intscalar %s %d' % (frs(a), g.choice([2, -7, 3, 1000, -1, 1, 12, g.randint(2, 99)])), 'orc', 'integer-typed-scalar'))
        cs.append(Case('o.c04.matrix %s %s' % (frs(a), frs(b)), 'orc', 'random'))
        cs.append(Case('o.c04.diag %s' % frs(a), 'orc', 'random'))
    return cs


C04 = dict(
    id='C04', module='EpsicProofs.Props.C04', gen=gen_C04,
    extra=[(props_mixed.GROUP, lambda g, tier: props_mixed.gen_mixed(g, tier, ['mp.jones', 'mp.jonesc']))],
    rule='exact-rational Jones matrices: all 64 pairs of basis matrices {E_ij, i E_ij}, special values (zero, identity, '
         'scalar, diagonal, singular, nilpotent, Hermitian, traceless, mixed 2^±60..80 scales), every index through every '
         'accessor (operator[], operator(), DatumTraits, const and mutable), p() on inputs with rational roots, seeded random',
    trusted=['GMP exact rationals; std::complex<Rat> specialisation in harness/rat.h'],
    assumptions=['IEEE rounding not modelled; PromoteTraits/overload resolution observed through behaviour only'],
    partial='floating-point rounding; which overload the compiler selects',
)


# ------------------------------------------------------------------------------------------ C15

def gen_C15(g, tier):
    n = 80 if tier == 'quick' else 2000
    cs = []
    units = [[F(int(i == k)) for i in range(4)] for k in range(4)]
    for a in units:
        for b in units:
            cs.append(Case('mk.inner %s %s' % (frs(a), frs(b)), 'cmp', 'basis-pair'))
            cs.append(Case('mk.outer %s %s' % (frs(a), frs(b)), 'cmp', 'basis-pair'))
            for c in units:
                cs.append(Case('o.c15.inner %s %s %s 1' % (frs(a), frs(b), frs(c)), 'orc', 'basis-triple'))
                cs.append(Case('o.c15.outer %s %s %s 1' % (frs(a), frs(b), frs(c)), 'orc', 'basis-triple'))
    specials = [[0, 0, 0, 0], [1, 0, 0, 0], [1, 1, 0, 0], [5, 3, 0, 4], [0, 1, 2, 3], [-2, 1, 1, 1]]
    for a in specials:
        for b in specials:
            cs.append(Case('mk.inner %s %s' % (frs(a), frs(b)), 'cmp', 'special'))
            cs.append(Case('mk.outer %s %s' % (frs(a), frs(b)), 'cmp', 'special'))
            cs.append(Case('mk.innerS %s %s' % (frs(a), frs(b)), 'cmp', 'special'))
            cs.append(Case('o.c15.inner %s %s %s %s' % (frs(a), frs(b), frs(g.choice(specials)), fr(g.rat())), 'orc', 'special'))
            cs.append(Case('o.c15.outer %s %s %s %s' % (frs(a), frs(b), frs(g.choice(specials)), fr(g.rat())), 'orc', 'special'))
    for _ in range(n):
        a, b, c, s = g.rats(4), g.rats(4), g.rats(4), g.rat()
        cs.append(Case('mk.inner %s %s' % (frs(a), frs(b)), 'cmp', 'random'))
        cs.append(Case('mk.outer %s %s' % (frs(a), frs(b)), 'cmp', 'random'))
        cs.append(Case('mk.innerS %s %s' % (frs(a), frs(b)), 'cmp', 'random'))
        cs.append(Case('st.convert lin %s' % frs(a), 'cmp', 'random'))
        cs.append(Case('pauli.matrix %d' % g.randint(0, 3), 'cmp', 'random', nontrivial=False))
        cs.append(Case('j.trace %s' % frs(g.rats(8)), 'cmp', 'random'))
        cs.append(Case('o.c15.inner %s %s %s %s' % (frs(a), frs(b), frs(c), fr(s)), 'orc', 'random'))
        cs.append(Case('o.c15.outer %s %s %s %s' % (frs(a), frs(b), frs(c), fr(s)), 'orc', 'random'))
    for _ in range(3 if tier == 'quick' else 40):
        cs.append(Case('o.c15.manyouter %s' % frs(g.rats(96)), 'orc', 'twelve-results-alive-at-once'))
    return cs



def gen_dbl_c15(g, tier):
    """double/float-only oracle of C15 (harness group dbl)"""
    n = 80 if tier == 'quick' else 2000
    cs = []
    # dyadic operands across 100 binary orders of magnitude between the two vectors
    for _ in range(n):
        ka, kb = g.randint(-50, 50), g.randint(-50, 50)
        a = [F(g.randint(-31, 31)) * F(2) ** ka for _ in range(4)]; b = [F(g.randint(-31, 31)) * F(2) ** kb for _ in range(4)]
        if g.random() < 0.5: a[0] = abs(a[0]) + F(2) ** ka; b[0] = abs(b[0]) + F(2) ** kb
        cs.append(Case('o.c15.dyadic %s %s' % (frs(a), frs(b)), 'orc', 'dyadic-scale-ratio'))
    return cs


C15 = dict(
    id='C15', module='EpsicProofs.Props.C15', gen=gen_C15,
    extra=[(props_mixed.GROUP, lambda g, tier: props_mixed.gen_mixed(g, tier, ['mp.minkowski']))],
    rule='exact-rational four-vectors: all 16 unit-vector pairs (64 triples for bilinearity; complete for bilinear forms), '
         'special vectors (zero, null, unpolarised, negative intensity), seeded random rationals',
    trusted=['GMP exact rationals'],
    assumptions=['IEEE rounding not modelled'],
    partial='floating-point rounding',
)


# ------------------------------------------------------------------------------------------ C02

def basis_args(g, tier):
    """basis settings: named ones, elliptical at special and random angles (angles as hex doubles
    for the implementation, the four libm leaf values as hex doubles for the model)"""
    res = [('lin', 'lin'), ('cir', 'cir')]
    angs = [0.0, math.pi / 4, math.pi / 8, -math.pi / 4, math.pi / 2, 1.0, 0.3, -2.5, 7.0, 1e-9, math.pi]
    pairs = [(0.0, 0.0), (math.pi / 4, math.pi / 4), (math.pi / 8, 0.0), (0.0, math.pi / 8)]
    m = 6 if tier == 'quick' else 60
    for _ in range(m):
        pairs.append((g.choice(angs) if g.random() < 0.4 else g.r.uniform(-4, 4), g.choice(angs) if g.random() < 0.4 else g.r.uniform(-2, 2)))
    for o, e in pairs:
        leaves = [math.cos(2.0 * o), math.sin(2.0 * o), math.cos(2.0 * e), math.sin(2.0 * e)]
        res.append(('ell', 'ell %s %s %s' % (dhex(o), dhex(e), ' '.join(dhex(x) for x in leaves))))
    return res


def small_rel(tol, *operands):
    """residuals (exact rationals) below tol times the natural scale of the operands (products of their magnitudes, squared)"""
    scale = 1.0
    for xs in operands:
        power = 2
        if isinstance(xs, tuple): xs, power = xs
        m = max([1.0] + [abs(float(x)) for x in xs]); scale *= m ** power
    def chk(vals, line):
        if vals is None: return 'error result ' + line[:100]
        for i, v in enumerate(vals):
            if abs(float(v)) > tol * scale: return 'residual %.3g exceeds %.3g at output %d' % (abs(float(v)), tol * scale, i)
        return None
    return chk


def gen_C02(g, tier):
    n = 6 if tier == 'quick' else 60
    cs = []
    bas = basis_args(g, tier)
    units4 = [[F(int(i == k)) for i in range(4)] for k in range(4)]
    for tag, b in bas:
        cs.append(Case('basis.show %s' % b, 'cmp', 'basis-' + tag))
        for k in range(3):
            v = [F(int(i == k)) for i in range(3)]
            cs.append(Case('basis.inout %s %s' % (b, frs(v)), 'cmp', 'basis-' + tag))
        exact = tag != 'ell'
        for s in units4:
            cs.append(Case('st.convert %s %s' % (b, frs(s)), 'cmp', 'unit-' + tag))
            cs.append(Case('st.roundtrip %s %s' % (b, frs(s)), 'cmp', 'unit-' + tag))
            if exact: cs.append(Case('o.c02.round %s %s' % (b, frs(s)), 'orc', 'unit-' + tag))
        for it in range(n):
            s, sc, j, j2, q = g.rats(4), g.rats(8), g.rats(8), g.rats(8), g.rats(4)
            for op, args in (('st.convert', s), ('st.convertC', sc), ('st.natural', s), ('st.standard', q), ('st.coherencyQ', q),
                             ('st.ccoherency', j), ('st.roundtrip', s), ('st.roundtripC', sc), ('st.mueller', j)):
                cs.append(Case('%s %s %s' % (op, b, frs(args)), 'cmp', 'random-' + tag))
            cs.append(Case('st.transform %s %s %s' % (b, frs(s), frs(j)), 'cmp', 'random-' + tag))
            cs.append(Case('st.transformC %s %s %s' % (b, frs(sc), frs(j)), 'cmp', 'random-' + tag))
            cs.append(Case('st.muellergrad %s %s %s' % (b, frs(j), frs(j2)), 'cmp', 'random-' + tag))
            # Hermitian matrix for coherency(Jones)
            a, d, c, e = g.rat(), g.rat(), g.rat(), g.rat()
            hm = [a, 0, c, e, c, -e, d, 0]
            cs.append(Case('st.coherency %s %s' % (b, frs(hm)), 'cmp', 'random-' + tag))
            cs.append(Case('st.coherency %s %s' % (b, frs(j)), 'cmp', 'nonhermitian-' + tag))
            cs.append(Case('st.transformM %s %s %s' % (b, frs(g.smalls(16)), frs(j)), 'cmp', 'random-' + tag))
            if not exact and it < 8:
                # elliptical bases hold to rounding: same residuals (exact rationals of the double entries), with a tolerance
                cs.append(Case('o.c02.round %s %s' % (b, frs(s)), 'orc', 'random-' + tag, check=small_rel(1e-12, s)))
                cs.append(Case('o.c02.transform %s %s %s' % (b, frs(s), frs(j)), 'orc', 'random-' + tag, check=small_rel(1e-11, s, (j, 4))))
                cs.append(Case('o.c02.compose %s %s %s' % (b, frs(j), frs(j2)), 'orc', 'random-' + tag, check=small_rel(1e-12, j, j2)))
            if exact:
                cs.append(Case('o.c02.round %s %s' % (b, frs(s)), 'orc', 'random-' + tag))
                cs.append(Case('o.c02.roundC %s %s' % (b, frs(sc)), 'orc', 'random-' + tag))
                cs.append(Case('o.c02.transform %s %s %s' % (b, frs(s), frs(j)), 'orc', 'random-' + tag))
                cs.append(Case('o.c02.transformC %s %s %s' % (b, frs(sc), frs(j)), 'orc', 'random-' + tag))
                cs.append(Case('o.c02.compose %s %s %s' % (b, frs(j), frs(j2)), 'orc', 'random-' + tag))
                cs.append(Case('o.c02.grad %s %s %s %s' % (b, frs(j), frs(j2), fr(g.rat())), 'orc', 'random-' + tag))
                cs.append(Case('o.c02.transformM %s %s %s' % (b, frs(j), frs(hm)), 'orc', 'random-' + tag))
    # sequences of basis changes on the process-wide object
    for _ in range(10 if tier == 'quick' else 200):
        k = g.randint(1, 20)
        seq = [g.choice(bas)[1] for _ in range(k)]
        cs.append(Case('basis.seq %d %s' % (k, ' '.join(seq)), 'cmp', 'basis-sequence'))
        seq2 = [x for b in seq for x in ([b, 'bad'] if g.random() < 0.3 else [b])]
        cs.append(Case('basis.seq %d %s' % (len(seq2), ' '.join(seq2)), 'cmp', 'basis-sequence-with-refused-settings'))
    named = [b for t, b in bas if t != 'ell']; ells = [b for t, b in bas if t == 'ell']
    # one Jones matrix (and one Stokes vector) across a change of basis, elliptical to elliptical in particular
    for _ in range(8 if tier == 'quick' else 200):
        b1, b2 = g.choice(ells + named), g.choice(ells + named); s_, j_ = g.rats(4), g.rats(8)
        chk = None if b2 in named else small_rel(1e-11, s_, (j_, 4))
        cs.append(Case('o.c02.transform2 %s %s %s %s' % (b1, frs(s_), frs(j_), b2), 'orc', 'same-matrix-across-basis-change', check=chk))
    # a use, then N settings, then a use: N around the sizes at which a counter of settings would wrap
    for N in ([255, 256, 257, 65535, 65536, 65537] if tier == 'quick' else [1, 2, 255, 256, 257, 511, 512, 65535, 65536, 65537, 131072, 196608, 1 << 20]):
        b1, b2 = g.choice(named), g.choice(named)
        if b1 == b2: b2 = [b for b in named if b != b1][0]
        cs.append(Case('o.c02.manysettings %d %s %s %s %s' % (N, b1, frs(g.rats(4)), frs(g.rats(8)), b2), 'orc', 'many-settings-between-two-uses'))
    # the basis is process-wide: set on one thread, used on another (sequentially)
    for _ in range(6 if tier == 'quick' else 100):
        cs.append(Case('o.c02.thread %s %s %s %s' % (g.choice(named), frs(g.rats(4)), frs(g.rats(8)), g.choice(ells + named)), 'orc', 'basis-set-on-one-thread-used-on-another'))
    # histories that contain refused settings (set_basis throws for the enumerator Elliptical and for unknown codes): the two
    # directions of the conversion must stay mutually consistent, in whatever basis the object is left
    for _ in range(8 if tier == 'quick' else 150):
        last = g.choice(named + ells[:3]); hist = [g.choice(named + ells) for _ in range(g.randint(0, 3))] + [last] + ['bad' for _ in range(g.randint(1, 2))]
        b = 'hist %d %s' % (len(hist), ' '.join(hist)); s_, j_, j2_ = g.rats(4), g.rats(8), g.rats(8)
        if last in named:
            cs.append(Case('o.c02.round %s %s' % (b, frs(s_)), 'orc', 'refused-setting-in-history'))
            cs.append(Case('o.c02.transform %s %s %s' % (b, frs(s_), frs(j_)), 'orc', 'refused-setting-in-history'))
            cs.append(Case('o.c02.compose %s %s %s' % (b, frs(j_), frs(j2_)), 'orc', 'refused-setting-in-history'))
        else:
            cs.append(Case('o.c02.round %s %s' % (b, frs(s_)), 'orc', 'refused-setting-in-history', check=small_rel(1e-12, s_)))
            cs.append(Case('o.c02.transform %s %s %s' % (b, frs(s_), frs(j_)), 'orc', 'refused-setting-in-history', check=small_rel(1e-11, s_, (j_, 4))))
    for _ in range(20 if tier == 'quick' else 300):
        cs.append(Case('st.invariant %s' % frs(g.rats(4)), 'cmp', 'random'))
        cs.append(Case('sp.apply %s %s' % (frs(g.rats(8)), frs(g.rats(4))), 'cmp', 'random'))
    return cs


def c02_replay_check(vals, line_out, line=None):
    """replayed oracle lines: exact in the named bases; in an elliptical basis (rounded sin/cos) residuals up to rounding"""
    if vals is None: return 'error result ' + line_out[:100]
    big = [abs(float(v)) for v in vals if v != 0]
    if not big: return None
    return 'non-zero residual %g' % max(big)


C02 = dict(
    id='C02', module='EpsicProofs.Props.C02', gen=gen_C02,
    rule='exact-rational Stokes vectors (real and complex) and Jones matrices in the linear and circular bases and in '
         'elliptical bases at special and random angles (the basis matrix the code builds from libm sin/cos is compared '
         'exactly, as dyadic rationals, with the model fed the same leaf values); sequences of 1..20 basis changes on the '
         'process-wide Pauli::basis(); the exact-identity oracle runs in the named bases (an elliptical basis built from '
         'rounded sin/cos is orthogonal only to rounding, so there the exact tie is the model comparison)',
    trusted=['GMP exact rationals', 'glibc sin/cos (leaf values passed to the model are computed by Python\'s math module, i.e. the same libm)'],
    assumptions=['in an elliptical basis the identities hold exactly over the reals (theorem) and to rounding in double (not proved)'],
    partial='elliptical-basis agreement in floating point; field detection compute_stokes is double-only and compared in group sim',
    extra=[(props_mixed.GROUP, lambda g, tier: props_mixed.gen_mixed(g, tier, ['mp.pauli', 'mp.jones']))],
)

SPECS = {'C02': C02, 'C03': C03, 'C04': C04, 'C15': C15}
