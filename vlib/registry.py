"""property id -> (spec, harness group)"""
from . import props_alg, props_alias, props_lin, props_est, props_eig, props_sim, props_tm, props_rand, props_text, props_cli

SPECS = {}
for pid, spec in props_alg.SPECS.items():
    SPECS[pid] = (spec, props_alg.GROUP)
for pid, spec in props_alias.SPECS.items():
    SPECS[pid] = (spec, props_alias.GROUP)
for pid, spec in props_lin.SPECS.items():
    SPECS[pid] = (spec, props_lin.GROUP)
for pid, spec in props_est.SPECS.items():
    SPECS[pid] = (spec, props_est.GROUP)
for pid, spec in props_eig.SPECS.items():
    SPECS[pid] = (spec, props_eig.GROUP)
for pid, spec in props_sim.SPECS.items():
    SPECS[pid] = (spec, props_sim.GROUP)
for pid, spec in props_tm.SPECS.items():
    SPECS[pid] = (spec, props_tm.GROUP)
for pid, spec in props_rand.SPECS.items():
    SPECS[pid] = (spec, props_rand.GROUP)
for pid, spec in props_text.SPECS.items():
    SPECS[pid] = (spec, props_text.GROUP)
for pid, spec in props_cli.SPECS.items():
    SPECS[pid] = (spec, props_cli.GROUP)
# C04's element-access clause also covers the generic traits of Matrix/Vector (harness group lin)
props_alg.SPECS['C04']['extra'] = list(props_alg.SPECS['C04'].get('extra', [])) + [(dict(props_lin.GROUP, replay_prefix='m '), props_lin.gen_datum)]
# ... and scalars obtained through those traits from the Jones matrix itself (J *= s with s a reference into J must equal s*J):
# the Jones rows of the aliasing table, as implementation oracles (x op= alias(x) against x op= copy)
def _jones_alias_rows(g, tier):
    return [c for c in props_alias.gen_C16(g, tier) if c.line.startswith(('al.jonesr', 'al.jonesc', 'al.jones '))]
props_alg.SPECS['C04']['extra'].append((dict(props_alias.GROUP, replay_prefix='al.'), _jones_alias_rows))
# double-only oracles live in their own harness (group dbl), so that they survive a change that breaks the exact-rational instantiation
props_lin.SPECS['C13']['extra'] = list(props_lin.SPECS['C13'].get('extra', [])) + [(props_lin.GROUP_DBL, props_lin.gen_dbl_c13)]
props_lin.SPECS['C14']['extra'] = list(props_lin.SPECS['C14'].get('extra', [])) + [(props_lin.GROUP_DBL, props_lin.gen_dbl_c14)]
props_alg.SPECS['C15']['extra'] = list(props_alg.SPECS['C15'].get('extra', [])) + [(props_lin.GROUP_DBL, props_alg.gen_dbl_c15)]
NOT_CLAIMED = {}
